(* C02, database side of STORE: the flag action changes what a newly opened session sees (fresh_view) exactly as the
   plain meaning (view_apply) of the state update it emits says — same messages, UIDs and order, and for every message
   the same flags (\Recent, which is per session, aside). Together with Proofs/ViewProofs.v: a STORE by one session
   reaches every other session's view unaltered. *)
From Coq Require Import List NArith Bool Lia Arith.
From Gluon Require Import Model.Responders Model.Session Proofs.MirrorProofs Proofs.MembershipProofs Proofs.ViewProofs.
Import ListNotations.
Open Scope N_scope.

Definition same_view (a b : snap) : Prop :=
  ids_of a = ids_of b /\
  forall m g, g <> fl_recent -> fl_mem g (snap_get_flags m a) = fl_mem g (snap_get_flags m b).

(* ---------- flag sets ---------- *)
Lemma existsb_eqb_filter (g : N) (p : N -> bool) l :
  existsb (N.eqb g) (filter p l) = existsb (N.eqb g) l && p g.
Proof.
  induction l as [|x r IH]; [reflexivity|]. cbn [filter existsb].
  destruct (p x) eqn:P; cbn [existsb]; rewrite IH; destruct (N.eqb_spec g x) as [->|]; cbn [orb].
  - rewrite P. destruct (existsb _ r); reflexivity.
  - reflexivity.
  - rewrite P. rewrite andb_false_r. reflexivity.
  - reflexivity.
Qed.

Lemma fl_mem_add g a b : fl_mem g (fl_add a b) = fl_mem g a || fl_mem g b.
Proof.
  unfold fl_add, fl_mem. rewrite existsb_app, existsb_eqb_filter. fold (fl_mem g a).
  destruct (fl_mem g a), (existsb (N.eqb g) b); reflexivity.
Qed.

Lemma fl_mem_rem g a b : fl_mem g (fl_rem a b) = fl_mem g a && negb (fl_mem g b).
Proof. unfold fl_rem, fl_mem at 1 2. apply existsb_eqb_filter. Qed.

Lemma fl_mem_single g x : fl_mem g [x] = (g =? x).
Proof. unfold fl_mem. cbn [existsb]. apply orb_false_r. Qed.

(* ---------- snapshots: reading the flags of m' after setting those of m ---------- *)
Lemma snap_has_set_flags m' m F v : snap_has m' (snap_set_flags m F v) = snap_has m' v.
Proof. rewrite !ids_has, ids_set_flags. reflexivity. Qed.

Lemma get_absent m v : snap_has m v = false -> snap_get_flags m v = [].
Proof. induction v as [|x r IH]; [reflexivity|]. cbn [snap_has existsb snap_get_flags]. intros H.
  apply orb_false_iff in H as [H1 H2]. unfold msgid in *. rewrite H1. apply IH. exact H2. Qed.

Lemma get_set_flags g m' m F v : g <> fl_recent ->
  fl_mem g (snap_get_flags m' (snap_set_flags m F v))
  = if (m' =? m) && snap_has m v then fl_mem g F else fl_mem g (snap_get_flags m' v).
Proof.
  intros Hg. induction v as [|x r IH]; cbn [snap_set_flags snap_get_flags snap_has existsb].
  - rewrite andb_false_r. reflexivity.
  - unfold msgid in *. destruct (sm_id x =? m) eqn:E.
    + apply N.eqb_eq in E. cbn [snap_get_flags sm_id sm_flags orb]. rewrite andb_true_r. rewrite E, (N.eqb_sym m m').
      destruct (m' =? m); [|reflexivity].
      destruct (fl_mem fl_recent (sm_flags x)); [|reflexivity].
      rewrite fl_mem_add, fl_mem_single. destruct (N.eqb_spec g fl_recent); [contradiction|apply orb_false_r].
    + cbn [snap_get_flags orb]. fold (snap_has m r). destruct (sm_id x =? m') eqn:E'.
      * apply N.eqb_eq in E'. destruct (N.eqb_spec m' m) as [->|]; [rewrite N.eqb_neq in E; congruence|reflexivity].
      * exact IH.
Qed.

Lemma snap_has_view_set m' m G v : snap_has m' (view_set m G v) = snap_has m' v.
Proof. apply snap_has_set_flags. Qed.

Lemma ids_view_set m G v : ids_of (view_set m G v) = ids_of v.
Proof. apply ids_set_flags. Qed.

(* ---------- a flag transformer seen on one flag g: G acts on the membership of g as phi, phi idempotent ---------- *)
Section OneFlag.
  Variable g : N.
  Hypothesis Hg : g <> fl_recent.
  Variable G : flagset -> flagset.
  Variable phi : bool -> bool.
  Hypothesis HG : forall c, fl_mem g (G c) = phi (fl_mem g c).
  Hypothesis Hphi : forall b, phi (phi b) = phi b.

  Lemma get_view_set m' m v :
    fl_mem g (snap_get_flags m' (view_set m G v))
    = if (m' =? m) && snap_has m v then phi (fl_mem g (snap_get_flags m v)) else fl_mem g (snap_get_flags m' v).
  Proof. unfold view_set. rewrite (get_set_flags g m' m _ v Hg), HG. reflexivity. Qed.

  Lemma fold_view_set ms : forall v m',
    fl_mem g (snap_get_flags m' (fold_left (fun acc m => view_set m G acc) ms v))
    = if existsb (N.eqb m') ms && snap_has m' v then phi (fl_mem g (snap_get_flags m' v)) else fl_mem g (snap_get_flags m' v).
  Proof.
    induction ms as [|m t IH]; intros v m'; cbn [fold_left existsb]; [reflexivity|].
    rewrite IH, snap_has_view_set, get_view_set.
    destruct (N.eqb_spec m' m) as [->|Hne]; cbn [orb andb].
    - destruct (snap_has m v) eqn:Hh.
      + rewrite andb_true_r. rewrite Hphi. destruct (existsb (N.eqb m) t); reflexivity.
      + rewrite andb_false_r. reflexivity.
    - reflexivity.
  Qed.

  Lemma ids_fold_view_set ms : forall v, ids_of (fold_left (fun acc m => view_set m G acc) ms v) = ids_of v.
  Proof. induction ms as [|m t IH]; intros v; cbn [fold_left]; [reflexivity|]. rewrite IH. apply ids_view_set. Qed.

  Lemma has_fold_view_set ms m' : forall v, snap_has m' (fold_left (fun acc m => view_set m G acc) ms v) = snap_has m' v.
  Proof. intros v. rewrite !ids_has, ids_fold_view_set. reflexivity. Qed.

  (* several parts with the same transformer and different message lists *)
  Lemma fold_parts_same (mss : list (list msgid)) : forall v m',
    fl_mem g (snap_get_flags m' (fold_left (fun acc ms => fold_left (fun acc m => view_set m G acc) ms acc) mss v))
    = if existsb (fun ms => existsb (N.eqb m') ms) mss && snap_has m' v
      then phi (fl_mem g (snap_get_flags m' v)) else fl_mem g (snap_get_flags m' v).
  Proof.
    induction mss as [|ms t IH]; intros v m'; cbn [fold_left existsb]; [reflexivity|].
    rewrite IH, has_fold_view_set, fold_view_set.
    destruct (existsb (N.eqb m') ms); cbn [orb andb]; [|reflexivity].
    destruct (snap_has m' v); [|rewrite andb_false_r; reflexivity].
    rewrite andb_true_r, Hphi. destruct (existsb (fun ms0 => existsb (N.eqb m') ms0) t); reflexivity.
  Qed.

  Lemma ids_fold_parts_same (mss : list (list msgid)) : forall v,
    ids_of (fold_left (fun acc ms => fold_left (fun acc m => view_set m G acc) ms acc) mss v) = ids_of v.
  Proof. induction mss as [|ms t IH]; intros v; cbn [fold_left]; [reflexivity|]. rewrite IH. apply ids_fold_view_set. Qed.

  (* the shared flags of the database: flags_upd with the same transformer *)
  Definition has_entry (m : msgid) (fl : list (msgid * flagset)) : bool := existsb (fun p => fst p =? m) fl.

  Lemma has_entry_upd m' m fl : has_entry m' (flags_upd fl m G) = has_entry m' fl.
  Proof. induction fl as [|[a f] t IH]; [reflexivity|]. cbn [flags_upd]. destruct (a =? m); cbn [has_entry existsb fst]; [reflexivity|].
    f_equal. exact IH. Qed.

  Lemma flags_of_upd m' m fl :
    fl_mem g (flags_of (flags_upd fl m G) m')
    = if (m' =? m) && has_entry m fl then phi (fl_mem g (flags_of fl m)) else fl_mem g (flags_of fl m').
  Proof.
    induction fl as [|[a f] t IH]; cbn [flags_upd flags_of has_entry existsb fst].
    - rewrite andb_false_r. reflexivity.
    - unfold msgid in *. destruct (a =? m) eqn:E.
      + apply N.eqb_eq in E. subst a. cbn [flags_of orb]. rewrite andb_true_r, (N.eqb_sym m m').
        destruct (m' =? m); [apply HG|reflexivity].
      + cbn [flags_of orb]. fold (has_entry m t). destruct (a =? m') eqn:E'.
        * apply N.eqb_eq in E'. subst a. rewrite E. reflexivity.
        * exact IH.
  Qed.

  Lemma flags_of_fold ms : forall fl m',
    fl_mem g (flags_of (fold_left (fun fl m => flags_upd fl m G) ms fl) m')
    = if existsb (N.eqb m') ms && has_entry m' fl then phi (fl_mem g (flags_of fl m')) else fl_mem g (flags_of fl m').
  Proof.
    induction ms as [|m t IH]; intros fl m'; cbn [fold_left existsb]; [reflexivity|].
    rewrite IH, has_entry_upd, flags_of_upd.
    destruct (N.eqb_spec m' m) as [->|Hne]; cbn [orb andb]; [|reflexivity].
    destruct (has_entry m fl); [|rewrite andb_false_r; reflexivity].
    rewrite andb_true_r, Hphi. destruct (existsb (N.eqb m) t); reflexivity.
  Qed.
End OneFlag.

(* ---------- what a newly opened session sees, message by message ---------- *)
Definition first_row (m : msgid) (rows : list mrow) : option mrow := find (fun r => r_id r =? m) rows.

Lemma get_fresh w rows m :
  snap_get_flags m (map (row_view w) rows)
  = match first_row m rows with
    | Some r => let f := flags_of (w_flags w) m in if r_deleted r then fl_add f [fl_deleted] else f
    | None => [] end.
Proof.
  induction rows as [|r t IH]; [reflexivity|]. cbn [map snap_get_flags first_row find row_view sm_id sm_flags].
  unfold msgid in *. destruct (r_id r =? m) eqn:E; [apply N.eqb_eq in E; subst m; reflexivity|exact IH].
Qed.

Lemma has_fresh w rows m : snap_has m (map (row_view w) rows) = row_has m rows.
Proof. induction rows as [|r t IH]; [reflexivity|]. cbn [map snap_has row_has existsb row_view sm_id]. f_equal. exact IH. Qed.

Lemma row_has_first m rows : row_has m rows = match first_row m rows with Some _ => true | None => false end.
Proof. induction rows as [|r t IH]; [reflexivity|]. cbn [row_has existsb first_row find]. destruct (r_id r =? m); [reflexivity|exact IH]. Qed.

Lemma first_row_map m (F : mrow -> mrow) rows : (forall r, r_id (F r) = r_id r) ->
  first_row m (map F rows) = option_map F (first_row m rows).
Proof. intros HF. induction rows as [|r t IH]; [reflexivity|]. cbn [map first_row find]. rewrite HF.
  destruct (r_id r =? m); [reflexivity|exact IH]. Qed.

Lemma ids_fresh_map w w' (F : mrow -> mrow) rows : (forall r, r_id (F r) = r_id r /\ r_uid (F r) = r_uid r) ->
  ids_of (map (row_view w') (map F rows)) = ids_of (map (row_view w) rows).
Proof. intros HF. unfold ids_of. rewrite !map_map. apply map_ext. intros r. cbn [row_view sm_id sm_uid].
  destruct (HF r) as [-> ->]. reflexivity. Qed.

Lemma nth_nth_upd {A} (l : list A) k v d : nth k (nth_upd k (fun _ => v) l) d = if (k <? length l)%nat then v else d.
Proof.
  revert k. induction l as [|a t IH]; intros [|k]; cbn [nth_upd nth length]; try reflexivity.
  rewrite IH. reflexivity.
Qed.

Lemma mbox_of_set_map w mb (F : mrow -> mrow) :
  mbox_of (set_mbox mb (map F (mbox_of w mb)) w) mb = map F (mbox_of w mb).
Proof.
  unfold mbox_of at 1, set_mbox. cbn [w_mbox]. rewrite nth_nth_upd.
  destruct (N.to_nat mb <? length (w_mbox w))%nat eqn:E; [reflexivity|].
  apply Nat.ltb_ge in E. unfold mbox_of. rewrite nth_overflow by exact E. reflexivity.
Qed.

(* ---------- store_db, seen through fresh_view ---------- *)
Definition del_after (f : flagset) (op : fop) (inms : bool) (d : bool) : bool :=
  if inms then
    match op with
    | FAdd => if fl_mem fl_deleted f then true else d
    | FRem => if fl_mem fl_deleted f then false else d
    | FSet => fl_mem fl_deleted f
    end
  else d.

Definition phi_of (op : fop) (c : bool) (b : bool) : bool :=
  match op with FAdd => b || c | FRem => b && negb c | FSet => c end.

Lemma phi_of_idem op c b : phi_of op c (phi_of op c b) = phi_of op c b.
Proof. destruct op, c, b; reflexivity. Qed.

Lemma flag_op_mem g op f c : fl_mem g (flag_op op f c) = phi_of op (fl_mem g f) (fl_mem g c).
Proof. destruct op; cbn [flag_op phi_of]; [apply fl_mem_add|apply fl_mem_rem|reflexivity]. Qed.

Definition db_G (op : fop) (rest : flagset) : flagset -> flagset :=
  match op with FAdd => fun cur => fl_add cur rest | FRem => fun cur => fl_rem cur rest | FSet => fun _ => rest end.

Lemma db_G_mem g op rest c : fl_mem g (db_G op rest c) = phi_of op (fl_mem g rest) (fl_mem g c).
Proof. destruct op; cbn [db_G phi_of]; [apply fl_mem_add|apply fl_mem_rem|reflexivity]. Qed.

Definition del_rows (ms : list msgid) (f : flagset) (op : fop) (r : mrow) : mrow :=
  mkRow (r_id r) (r_uid r) (del_after f op (existsb (N.eqb (r_id r)) ms) (r_deleted r)).

Lemma mbox_set_flags fl w mb : mbox_of (set_flags fl w) mb = mbox_of w mb.
Proof. reflexivity. Qed.
Lemma flags_set_flags fl w : w_flags (set_flags fl w) = fl.
Proof. reflexivity. Qed.
Lemma flags_set_deleted mb ms v w : w_flags (set_deleted mb ms v w) = w_flags w.
Proof. reflexivity. Qed.
Lemma mbox_set_deleted mb ms v w :
  mbox_of (set_deleted mb ms v w) mb
  = map (fun r => if existsb (N.eqb (r_id r)) ms then mkRow (r_id r) (r_uid r) v else r) (mbox_of w mb).
Proof. unfold set_deleted. apply mbox_of_set_map. Qed.

Lemma store_db_shape w mb ms op f :
  mbox_of (store_db w mb ms op f) mb = map (del_rows ms f op) (mbox_of w mb) /\
  w_flags (store_db w mb ms op f) = fold_left (fun fl m => flags_upd fl m (db_G op (fl_rem f [fl_deleted]))) ms (w_flags w).
Proof.
  unfold store_db. destruct op; cbn [db_G].
  - destruct (fl_mem fl_deleted f) eqn:D; rewrite mbox_set_flags, flags_set_flags.
    + rewrite mbox_set_deleted, flags_set_deleted. split; [|reflexivity]. apply map_ext. intros r.
      unfold del_rows, del_after. rewrite D. destruct (existsb (N.eqb (r_id r)) ms); [reflexivity|destruct r; reflexivity].
    + split; [|reflexivity]. rewrite <- (map_id (mbox_of w mb)) at 1. apply map_ext. intros r.
      unfold del_rows, del_after. rewrite D. destruct (existsb (N.eqb (r_id r)) ms); destruct r; reflexivity.
  - destruct (fl_mem fl_deleted f) eqn:D; rewrite mbox_set_flags, flags_set_flags.
    + rewrite mbox_set_deleted, flags_set_deleted. split; [|reflexivity]. apply map_ext. intros r.
      unfold del_rows, del_after. rewrite D. destruct (existsb (N.eqb (r_id r)) ms); [reflexivity|destruct r; reflexivity].
    + split; [|reflexivity]. rewrite <- (map_id (mbox_of w mb)) at 1. apply map_ext. intros r.
      unfold del_rows, del_after. rewrite D. destruct (existsb (N.eqb (r_id r)) ms); destruct r; reflexivity.
  - rewrite mbox_set_flags, flags_set_flags, mbox_set_deleted, flags_set_deleted. split; [|reflexivity].
    apply map_ext. intros r. unfold del_rows, del_after. destruct (existsb (N.eqb (r_id r)) ms); [reflexivity|destruct r; reflexivity].
Qed.

(* ---------- the state update's parts, seen on one message m' and one flag g ---------- *)
Definition part_phi (g : N) (m' : msgid) (p : list msgid * flagset * fop) (b : bool) : bool :=
  match p with (ms, f, op) => if existsb (N.eqb m') ms then phi_of op (fl_mem g f) b else b end.

Definition apply_parts (parts : list (list msgid * flagset * fop)) (v : snap) : snap :=
  fold_left (fun acc p => match p with (ms, f, op) =>
    fold_left (fun acc m => view_set m (fun cur => flag_op op f cur) acc) ms acc end) parts v.

Lemma view_apply_own_flags mb parts og si v : view_apply mb (UFlags mb parts og si) v = apply_parts parts v.
Proof. cbn [view_apply]. rewrite N.eqb_refl. reflexivity. Qed.

Lemma ids_apply_parts parts : forall v, ids_of (apply_parts parts v) = ids_of v.
Proof. unfold apply_parts. induction parts as [|[[ms f] op] t IH]; intros v; cbn [fold_left]; [reflexivity|].
  rewrite IH. apply ids_fold_view_set. Qed.

Lemma has_apply_parts parts m' v : snap_has m' (apply_parts parts v) = snap_has m' v.
Proof. rewrite !ids_has, ids_apply_parts. reflexivity. Qed.

Lemma get_apply_parts g m' parts : g <> fl_recent -> forall v, snap_has m' v = true ->
  fl_mem g (snap_get_flags m' (apply_parts parts v))
  = fold_left (fun b p => part_phi g m' p b) parts (fl_mem g (snap_get_flags m' v)).
Proof.
  intros Hg. unfold apply_parts. induction parts as [|[[ms f] op] t IH]; intros v Hh; cbn [fold_left]; [reflexivity|].
  rewrite IH by (rewrite has_fold_view_set; exact Hh). f_equal.
  rewrite (fold_view_set g Hg (fun cur => flag_op op f cur) (phi_of op (fl_mem g f))
             (fun c => flag_op_mem g op f c) (phi_of_idem op (fl_mem g f))).
  rewrite Hh, andb_true_r. reflexivity.
Qed.

Lemma existsb_msg_filter (m' : msgid) (p : msgid -> bool) ms :
  existsb (N.eqb m') (filter p ms) = existsb (N.eqb m') ms && p m'.
Proof. apply existsb_eqb_filter. Qed.

Lemma fold_add_parts g m' (P : N -> msgid -> bool) ms rest gs : forall b,
  fold_left (fun b p => part_phi g m' p b) (map (fun g' => (filter (P g') ms, rest, FAdd)) gs) b
  = b || (fl_mem g rest && existsb (fun g' => existsb (N.eqb m') ms && P g' m') gs).
Proof.
  induction gs as [|g' t IH]; intros b; cbn [map fold_left existsb].
  - rewrite andb_false_r, orb_false_r. reflexivity.
  - rewrite IH. cbn [part_phi phi_of]. rewrite existsb_msg_filter.
    destruct (existsb (N.eqb m') ms && P g' m'), b, (fl_mem g rest), (existsb _ t); reflexivity.
Qed.

Lemma fold_rem_parts g m' (P : N -> msgid -> bool) ms rest gs : forall b,
  fold_left (fun b p => part_phi g m' p b) (map (fun g' => (filter (P g') ms, rest, FRem)) gs) b
  = b && negb (fl_mem g rest && existsb (fun g' => existsb (N.eqb m') ms && P g' m') gs).
Proof.
  induction gs as [|g' t IH]; intros b; cbn [map fold_left existsb].
  - rewrite andb_false_r. cbn [negb]. rewrite andb_true_r. reflexivity.
  - rewrite IH. cbn [part_phi phi_of]. rewrite existsb_msg_filter.
    destruct (existsb (N.eqb m') ms && P g' m'), b, (fl_mem g rest), (existsb _ t); reflexivity.
Qed.

Lemma all_present_mem g A rest :
  existsb (fun g' => negb (fl_mem g' A)) rest = false -> fl_mem g rest = true -> fl_mem g A = true.
Proof.
  unfold fl_mem at 2. induction rest as [|x t IH]; cbn [existsb]; [discriminate|]. intros H1 H2.
  apply orb_false_iff in H1 as [Hx Ht]. apply orb_true_iff in H2 as [H2|H2].
  - apply N.eqb_eq in H2. subst x. apply negb_false_iff in Hx. exact Hx.
  - apply IH; assumption.
Qed.

Lemma some_present_mem g A rest :
  fl_mem g rest = true -> fl_mem g A = true -> existsb (fun g' => fl_mem g' A) rest = true.
Proof.
  unfold fl_mem at 1. induction rest as [|x t IH]; cbn [existsb]; [discriminate|]. intros H1 H2.
  apply orb_true_iff in H1 as [H1|H1].
  - apply N.eqb_eq in H1. subst x. rewrite H2. reflexivity.
  - rewrite (IH H1 H2). apply orb_true_r.
Qed.

Lemma existsb_and_const (c : bool) (q : N -> bool) l : existsb (fun x => c && q x) l = c && existsb q l.
Proof. induction l as [|x t IH]; cbn [existsb]; [rewrite andb_false_r; reflexivity|]. rewrite IH. destruct c, (q x); reflexivity. Qed.

(* ---------- the theorem ---------- *)
Section StoreMatches.
  Variable w : world.
  Variable sel : N.
  Variable ms : list msgid.
  Variable op : fop.
  Variable f : flagset.

  (* every message of the mailbox has its (shared) flags recorded, and \Deleted is never among the shared flags: it is
     kept per mailbox *)
  Hypothesis flags_total : forall m, row_has m (mbox_of w sel) = true -> has_entry m (w_flags w) = true.
  Hypothesis no_shared_deleted : forall m, fl_mem fl_deleted (flags_of (w_flags w) m) = false.

  Theorem store_matches_update og si :
    same_view (fresh_view (store_db w sel ms op f) sel)
              (view_apply sel (UFlags sel (store_parts w ms op f) og si) (fresh_view w sel)).
  Proof.
    rewrite view_apply_own_flags. unfold fresh_view. destruct (store_db_shape w sel ms op f) as [Hrows Hfl].
    rewrite Hrows. split.
    - rewrite ids_apply_parts. apply ids_fresh_map. intros r. split; reflexivity.
    - intros m' g Hg.
      rewrite get_fresh, first_row_map by (intros r; reflexivity).
      destruct (first_row m' (mbox_of w sel)) as [r|] eqn:Hr; cbn [option_map].
      2:{ assert (Hno : snap_has m' (map (row_view w) (mbox_of w sel)) = false)
            by (rewrite has_fresh, row_has_first, Hr; reflexivity).
          rewrite get_absent; [reflexivity|]. rewrite has_apply_parts. exact Hno. }
      assert (Hhas : row_has m' (mbox_of w sel) = true) by (rewrite row_has_first, Hr; reflexivity).
      assert (Hid : r_id r = m').
      { unfold first_row in Hr. apply find_some in Hr as [_ Hr]. apply N.eqb_eq in Hr. exact Hr. }
      rewrite get_apply_parts by (try exact Hg; rewrite has_fresh; exact Hhas).
      rewrite get_fresh, Hr.
      cbv zeta.
      (* left: the database *)
      assert (HL : fl_mem g (if r_deleted (del_rows ms f op r)
                             then fl_add (flags_of (w_flags (store_db w sel ms op f)) m') [fl_deleted]
                             else flags_of (w_flags (store_db w sel ms op f)) m')
                   = (if existsb (N.eqb m') ms
                      then phi_of op (fl_mem g (fl_rem f [fl_deleted])) (fl_mem g (flags_of (w_flags w) m'))
                      else fl_mem g (flags_of (w_flags w) m'))
                     || (del_after f op (existsb (N.eqb m') ms) (r_deleted r) && (g =? fl_deleted))).
      { rewrite Hfl.
        assert (HF := flags_of_fold g (db_G op (fl_rem f [fl_deleted])) (phi_of op (fl_mem g (fl_rem f [fl_deleted])))
                        (fun c => db_G_mem g op _ c) (phi_of_idem op _) ms (w_flags w) m').
        rewrite (flags_total m' Hhas), andb_true_r in HF.
        unfold del_rows. cbn [r_deleted]. rewrite Hid.
        destruct (del_after f op (existsb (N.eqb m') ms) (r_deleted r)).
        - rewrite fl_mem_add, fl_mem_single, HF. reflexivity.
        - rewrite HF, orb_false_r. reflexivity. }
      rewrite HL. clear HL.
      (* right: the update *)
      assert (HB0 : fl_mem g (if r_deleted r then fl_add (flags_of (w_flags w) m') [fl_deleted] else flags_of (w_flags w) m')
                    = fl_mem g (flags_of (w_flags w) m') || (r_deleted r && (g =? fl_deleted))).
      { destruct (r_deleted r); [rewrite fl_mem_add, fl_mem_single; reflexivity|rewrite orb_false_r; reflexivity]. }
      rewrite HB0. clear HB0.
      assert (Hrest : fl_mem g (fl_rem f [fl_deleted]) = fl_mem g f && negb (g =? fl_deleted))
        by (rewrite fl_mem_rem, fl_mem_single; reflexivity).
      assert (Hdel : (g =? fl_deleted) = true -> fl_mem g (flags_of (w_flags w) m') = false /\ fl_mem g f = fl_mem fl_deleted f).
      { intros E. apply N.eqb_eq in E. subst g. split; [apply no_shared_deleted|reflexivity]. }
      set (F := fl_mem g (flags_of (w_flags w) m')) in *.
      set (inms := existsb (N.eqb m') ms) in *.
      set (d := r_deleted r) in *.
      unfold store_parts, del_after. destruct op; cbn [phi_of].
      + (* +FLAGS *)
        rewrite fold_left_app, fold_add_parts. fold inms. rewrite existsb_and_const.
        assert (HE : inms = true -> fl_mem g (fl_rem f [fl_deleted]) = true ->
                     existsb (fun g' => negb (fl_mem g' (flags_of (w_flags w) m'))) (fl_rem f [fl_deleted]) = false -> F = true).
        { intros _ Hc He. exact (all_present_mem g _ _ He Hc). }
        destruct (fl_mem fl_deleted f) eqn:D; cbn [fold_left part_phi phi_of]; fold inms; rewrite ?fl_mem_single;
          rewrite Hrest in *;
          destruct (g =? fl_deleted) eqn:Ed;
          try (destruct (Hdel eq_refl) as [HF0 Hf0]; rewrite ?HF0, ?Hf0, ?D in * );
          destruct inms, F, d, (fl_mem g f);
          cbn [andb orb negb] in *;
          try reflexivity;
          destruct (existsb (fun g' => negb (fl_mem g' (flags_of (w_flags w) m'))) (fl_rem f [fl_deleted])) eqn:He;
          cbn [andb orb negb] in *; try reflexivity; try discriminate;
          try (specialize (HE eq_refl eq_refl eq_refl); discriminate).
      + (* -FLAGS *)
        rewrite fold_left_app, fold_rem_parts. fold inms. rewrite existsb_and_const.
        assert (HE : fl_mem g (fl_rem f [fl_deleted]) = true -> F = true ->
                     existsb (fun g' => fl_mem g' (flags_of (w_flags w) m')) (fl_rem f [fl_deleted]) = true).
        { intros Hc HF. exact (some_present_mem g _ _ Hc HF). }
        destruct (fl_mem fl_deleted f) eqn:D; cbn [fold_left part_phi phi_of]; fold inms; rewrite ?fl_mem_single;
          rewrite Hrest in *;
          destruct (g =? fl_deleted) eqn:Ed;
          try (destruct (Hdel eq_refl) as [HF0 Hf0]; rewrite ?HF0, ?Hf0, ?D in * );
          destruct inms, F, d, (fl_mem g f);
          cbn [andb orb negb] in *;
          try reflexivity;
          destruct (existsb (fun g' => fl_mem g' (flags_of (w_flags w) m')) (fl_rem f [fl_deleted])) eqn:He;
          cbn [andb orb negb] in *; try reflexivity; try discriminate;
          try (specialize (HE eq_refl eq_refl); discriminate).
      + (* FLAGS *)
        cbn [fold_left part_phi phi_of]. fold inms. rewrite Hrest.
        destruct (g =? fl_deleted) eqn:Ed;
          try (destruct (Hdel eq_refl) as [HF0 Hf0]; rewrite ?HF0, ?Hf0 in * );
          destruct inms, F, d, (fl_mem g f), (fl_mem fl_deleted f); cbn [andb orb negb] in *; try reflexivity; try discriminate.
  Qed.
End StoreMatches.

(* ---------- the two hypotheses as decidable checks ---------- *)
Definition flags_total_b (w : world) (sel : N) : bool :=
  forallb (fun r => has_entry (r_id r) (w_flags w)) (mbox_of w sel).
Definition no_shared_deleted_b (w : world) : bool :=
  forallb (fun p => negb (fl_mem fl_deleted (snd p))) (w_flags w).

Lemma flags_total_of_b w sel : flags_total_b w sel = true ->
  forall m, row_has m (mbox_of w sel) = true -> has_entry m (w_flags w) = true.
Proof.
  unfold flags_total_b, row_has. intros H m Hm. apply existsb_exists in Hm as (r & Hin & Hr).
  apply N.eqb_eq in Hr. subst m. rewrite forallb_forall in H. apply H. exact Hin.
Qed.

Lemma no_shared_deleted_of_b w : no_shared_deleted_b w = true ->
  forall m, fl_mem fl_deleted (flags_of (w_flags w) m) = false.
Proof.
  unfold no_shared_deleted_b. induction (w_flags w) as [|[a f] t IH]; cbn [forallb flags_of snd]; intros H m; [reflexivity|].
  apply andb_true_iff in H as [H1 H2]. destruct (a =? m); [apply negb_true_iff; exact H1|apply IH; exact H2].
Qed.

Theorem store_matches_update_b w sel ms op f og si :
  flags_total_b w sel = true -> no_shared_deleted_b w = true ->
  same_view (fresh_view (store_db w sel ms op f) sel)
            (view_apply sel (UFlags sel (store_parts w ms op f) og si) (fresh_view w sel)).
Proof.
  intros H1 H2. apply store_matches_update; [apply flags_total_of_b; exact H1|apply no_shared_deleted_of_b; exact H2].
Qed.

(* ---------- a foreign STORE reaches an observer ---------- *)
Lemma same_view_refl a : same_view a a.
Proof. split; [reflexivity|intros; reflexivity]. Qed.

Lemma same_view_trans a b c : same_view a b -> same_view b c -> same_view a c.
Proof. intros [H1 H2] [H3 H4]. split; [congruence|]. intros m g Hg. rewrite H2, H4 by exact Hg. reflexivity. Qed.

Lemma same_view_sym a b : same_view a b -> same_view b a.
Proof. intros [H1 H2]. split; [congruence|]. intros m g Hg. rewrite H2 by exact Hg. reflexivity. Qed.

Lemma apply_parts_same_view parts a b : same_view a b -> same_view (apply_parts parts a) (apply_parts parts b).
Proof.
  intros [Hi Hf]. split; [rewrite !ids_apply_parts; exact Hi|]. intros m g Hg.
  assert (Hh : snap_has m a = snap_has m b) by (rewrite !ids_has, Hi; reflexivity).
  destruct (snap_has m a) eqn:Ha.
  - rewrite !get_apply_parts by (try exact Hg; congruence). rewrite Hf by exact Hg. reflexivity.
  - rewrite !get_absent; [reflexivity| |]; rewrite has_apply_parts; congruence.
Qed.

(* Session o has mailbox sel selected, nothing pending, and its snapshot snap0 shows what the database holds (up to
   \Recent). Another session's STORE changes the database (store_db) and emits the flag update; the update reaches o,
   which then flushes (NOOP). Its snapshot shows what the database holds now. *)
Theorem store_reaches_observer w sel ms op f og si o snap0 :
  flags_total_b w sel = true -> no_shared_deleted_b w = true ->
  same_view snap0 (fresh_view w sel) ->
  exists st' out,
    flush_raw true (mkS snap0 (deliver_all o sel snap0 [UFlags sel (store_parts w ms op f) og si] [])) = Some (st', out) /\
    s_res st' = [] /\
    same_view (s_snap st') (fresh_view (store_db w sel ms op f) sel).
Proof.
  intros H1 H2 Hs.
  destruct (observer_view o sel snap0 [UFlags sel (store_parts w ms op f) og si]) as (st' & out & Hfl & Hres & Hsnap).
  { repeat constructor. }
  exists st', out. split; [exact Hfl|]. split; [exact Hres|]. rewrite Hsnap. cbn [fold_left].
  rewrite view_apply_own_flags.
  eapply same_view_trans; [apply apply_parts_same_view; exact Hs|].
  apply same_view_sym. rewrite <- (view_apply_own_flags sel _ og si). apply store_matches_update_b; assumption.
Qed.

(* ---------- the database side of EXPUNGE and of APPEND / connector MessagesCreated ---------- *)
Lemma fresh_rows_remove w m rows : idl_nodup (rows_ids rows) ->
  map (row_view w) (rows_remove m rows) = snap_remove m (map (row_view w) rows).
Proof.
  induction rows as [|r t IH]; [reflexivity|]. cbn [rows_ids map idl_nodup fst]. intros [Hn Hd].
  cbn [rows_remove filter snap_remove row_view sm_id]. fold (rows_remove m t).
  destruct (N.eqb_spec (r_id r) m) as [E|E]; cbn [negb map].
  - (* the first row goes; no other row has this id *)
    subst m. clear IH Hd. induction t as [|y t' IHt]; [reflexivity|].
    cbn [rows_ids map idl_has existsb fst] in Hn. apply orb_false_iff in Hn as [H1 H2].
    cbn [rows_remove filter]. rewrite H1. cbn [negb map]. f_equal. apply IHt. exact H2.
  - f_equal. apply IH. exact Hd.
Qed.

Lemma idl_has_filter m' m (l : idl) : idl_has m' l = false -> idl_has m' (filter (fun x => negb (fst x =? m)) l) = false.
Proof.
  unfold idl_has. unfold idl, msgid, uid in *. induction l as [|y t IH]; [reflexivity|]. cbn [existsb filter]. intros H.
  apply orb_false_iff in H as [A B]. destruct (fst y =? m); cbn [negb existsb]; [apply IH; exact B|].
  rewrite A. apply IH. exact B.
Qed.

Lemma idl_nodup_filter m (l : idl) : idl_nodup l -> idl_nodup (filter (fun x => negb (fst x =? m)) l).
Proof.
  unfold idl, msgid, uid in *. induction l as [|x t IH]; [auto|]. cbn [idl_nodup filter]. intros [H1 H2].
  destruct (fst x =? m); cbn [negb]; [apply IH; exact H2|]. cbn [idl_nodup]. split; [apply idl_has_filter; exact H1|apply IH; exact H2].
Qed.

Lemma fold_rows_remove_view w ms : forall rows, idl_nodup (rows_ids rows) ->
  map (row_view w) (fold_left (fun rows m => rows_remove m rows) ms rows)
  = fold_left (fun v m => snap_remove m v) ms (map (row_view w) rows).
Proof.
  induction ms as [|m t IH]; intros rows Hn; cbn [fold_left]; [reflexivity|].
  rewrite IH.
  - rewrite fresh_rows_remove by exact Hn. reflexivity.
  - rewrite rows_ids_remove. apply idl_nodup_filter. exact Hn.
Qed.

Lemma mbox_of_set_rows w mb rows : (N.to_nat mb < length (w_mbox w))%nat -> mbox_of (set_mbox mb rows w) mb = rows.
Proof. intros H. unfold mbox_of, set_mbox. cbn [w_mbox]. rewrite nth_nth_upd. apply Nat.ltb_lt in H. rewrite H. reflexivity. Qed.

(* EXPUNGE / MOVE out / connector removal: what a newly opened session sees after remove_rows is what the emitted
   EXPUNGE updates, applied in order, make of what it saw before *)
Theorem remove_rows_matches_updates w mb ms :
  (N.to_nat mb < length (w_mbox w))%nat -> idl_nodup (rows_ids (mbox_of w mb)) ->
  let '(w1, ups) := remove_rows w mb ms in
  ups = map (UExpunge mb) ms /\
  fresh_view w1 mb = fold_left (fun v u => view_apply mb u v) ups (fresh_view w mb).
Proof.
  intros Hlt Hn. unfold remove_rows. split; [reflexivity|].
  unfold fresh_view. rewrite (mbox_of_set_rows w mb _ Hlt).
  assert (Hrv : forall rows, map (row_view (set_mbox mb (fold_left (fun rows m => rows_remove m rows) ms (mbox_of w mb)) w)) rows
                               = map (row_view w) rows) by (intros; reflexivity).
  rewrite Hrv. rewrite (fold_rows_remove_view w ms _ Hn). clear Hrv.
  generalize (map (row_view w) (mbox_of w mb)). induction ms as [|m t IH]; intros v; cbn [map fold_left]; [reflexivity|].
  cbn [view_apply]. rewrite N.eqb_refl. apply IH.
Qed.

(* ---------- APPEND (and a message created by the connector): the database gets a new row and a flags entry ---------- *)
Lemma flags_of_app_other fl m fs m' : m' <> m -> flags_of (fl ++ [(m, fs)]) m' = flags_of fl m'.
Proof.
  intros Hne. induction fl as [|[a g] t IH]; cbn [app flags_of].
  - destruct (N.eqb_spec m m'); [congruence|reflexivity].
  - destruct (a =? m'); [reflexivity|exact IH].
Qed.

Lemma flags_of_app_new fl m fs : has_entry m fl = false -> flags_of (fl ++ [(m, fs)]) m = fs.
Proof.
  induction fl as [|[a g] t IH]; cbn [app flags_of has_entry existsb fst]; intros H.
  - rewrite N.eqb_refl. reflexivity.
  - apply orb_false_iff in H as [A B]. unfold msgid in *. rewrite A. apply IH. exact B.
Qed.

Lemma get_flags_app m v x : snap_get_flags m (v ++ [x])
  = if snap_has m v then snap_get_flags m v else if sm_id x =? m then sm_flags x else [].
Proof.
  induction v as [|y r IH]; cbn [app snap_get_flags snap_has existsb]; [reflexivity|].
  destruct (sm_id y =? m); [reflexivity|exact IH].
Qed.

Lemma all_lt_fresh w rows u : idl_all_lt u (rows_ids rows) -> all_lt u (map (row_view w) rows).
Proof. induction rows as [|r t IH]; cbn [rows_ids map idl_all_lt all_lt snd row_view sm_uid]; [auto|]. intros [H1 H2]. split; [exact H1|apply IH; exact H2]. Qed.

Theorem append_matches_update w mb f og :
  (N.to_nat mb < length (w_mbox w))%nat ->
  has_entry (w_nextid w) (w_flags w) = false -> row_has (w_nextid w) (mbox_of w mb) = false ->
  idl_all_lt (next_of w mb) (rows_ids (mbox_of w mb)) ->
  same_view (fresh_view (append_db w mb f) mb)
            (view_apply mb (UExists mb [(w_nextid w, next_of w mb, f)] og) (fresh_view w mb)).
Proof.
  intros Hlt Hne Hnr Hall. set (m := w_nextid w) in *. set (u := next_of w mb) in *.
  cbn [view_apply fold_left]. rewrite N.eqb_refl. unfold view_add, fresh_view.
  rewrite has_fresh, Hnr.
  rewrite (insert_at_end (mkSmsg m u (fl_rem f [fl_recent])) _ (all_lt_fresh w _ _ Hall)).
  (* the database side *)
  assert (Hrows : mbox_of (append_db w mb f) mb = mbox_of w mb ++ [mkRow m u (fl_mem fl_deleted f)]).
  { unfold append_db. fold m u. unfold set_next. unfold mbox_of at 1. cbn [w_mbox set_mbox]. rewrite nth_nth_upd.
    apply Nat.ltb_lt in Hlt. rewrite Hlt. reflexivity. }
  rewrite Hrows, map_app. cbn [map].
  assert (Hold : map (row_view (append_db w mb f)) (mbox_of w mb) = map (row_view w) (mbox_of w mb)).
  { apply map_ext_in. intros r Hr. unfold row_view. f_equal.
    assert (Hid : r_id r <> m).
    { intros E. unfold row_has in Hnr. assert (X : existsb (fun r0 => r_id r0 =? m) (mbox_of w mb) = true).
      { apply existsb_exists. exists r. split; [exact Hr|apply N.eqb_eq; exact E]. } congruence. }
    unfold append_db. fold m u. cbn [w_flags set_next set_mbox]. rewrite flags_of_app_other by exact Hid. reflexivity. }
  rewrite Hold.
  split.
  - unfold ids_of. rewrite !map_app. cbn [map row_view sm_id sm_uid r_id r_uid]. reflexivity.
  - intros m' g Hg. rewrite !get_flags_app.
    destruct (snap_has m' (map (row_view w) (mbox_of w mb))); [reflexivity|].
    cbn [row_view sm_id sm_flags r_id r_deleted]. destruct (m =? m') eqn:E; [|reflexivity].
    unfold append_db. fold m u. cbn [w_flags set_next set_mbox]. rewrite flags_of_app_new by exact Hne.
    assert (Hr : (g =? fl_recent) = false) by (apply N.eqb_neq; exact Hg).
    assert (Hd : (g =? fl_deleted) = true -> fl_mem g f = fl_mem fl_deleted f) by (intros X; apply N.eqb_eq in X; subst g; reflexivity).
    destruct (fl_mem fl_deleted f) eqn:D.
    + rewrite fl_mem_add, !fl_mem_rem, !fl_mem_single, Hr.
      destruct (g =? fl_deleted) eqn:Ed; [rewrite (Hd eq_refl)|]; destruct (fl_mem g f); reflexivity.
    + rewrite !fl_mem_rem, !fl_mem_single, Hr.
      destruct (g =? fl_deleted) eqn:Ed; [rewrite (Hd eq_refl)|]; destruct (fl_mem g f); reflexivity.
Qed.
