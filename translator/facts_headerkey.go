package main

// T1 extractor for C12/C13: the set of bytes rfc822/header_parser.go accepts in a header field name.
// Recognised: inside headerParser.next the closure `validateHeaderField`, whose loop body is
//	if v := hp.header[i]; v <op> A || v <op> B { return ErrNonASCIIHeaderKey }
// with integer literals A, B and <op> among < <= > >=. The accepted range [lo, hi] is computed from the operators
// (v < A rejects below A: lo = A; v <= A: lo = A+1; v > B: hi = B; v >= B: hi = B-1). Anything else fails.

import (
	"fmt"
	"go/ast"
	"go/token"
	"strconv"
)

func init() { register("HeaderKey", factsHeaderKey) }

func factsHeaderKey(t *T) (string, error) {
	const file = "rfc822/header_parser.go"
	f, err := t.ParseFile(file)
	if err != nil {
		return "", err
	}
	fd := FuncDecl(f, "headerParser", "next")
	if fd == nil {
		return "", fmt.Errorf("headerParser.next not found")
	}
	var lit *ast.FuncLit
	ast.Inspect(fd, func(n ast.Node) bool {
		as, ok := n.(*ast.AssignStmt)
		if ok && len(as.Lhs) == 1 && len(as.Rhs) == 1 {
			if id, ok := as.Lhs[0].(*ast.Ident); ok && id.Name == "validateHeaderField" {
				if fl, ok := as.Rhs[0].(*ast.FuncLit); ok {
					lit = fl
				}
			}
		}
		return true
	})
	if lit == nil {
		return "", fmt.Errorf("closure validateHeaderField not found")
	}
	var cond ast.Expr
	v := ""
	n := 0
	ast.Inspect(lit, func(x ast.Node) bool {
		is, ok := x.(*ast.IfStmt)
		if !ok {
			return true
		}
		n++
		if as, ok := is.Init.(*ast.AssignStmt); ok && len(as.Lhs) == 1 {
			if id, ok := as.Lhs[0].(*ast.Ident); ok {
				v = id.Name
				cond = is.Cond
			}
		}
		return true
	})
	if n != 1 || cond == nil {
		return "", fmt.Errorf("validateHeaderField: expected exactly one `if v := ...; cond`")
	}
	lo, hi := -1, -1
	var walk func(e ast.Expr) error
	walk = func(e ast.Expr) error {
		switch b := e.(type) {
		case *ast.ParenExpr:
			return walk(b.X)
		case *ast.BinaryExpr:
			if b.Op == token.LOR {
				if err := walk(b.X); err != nil {
					return err
				}
				return walk(b.Y)
			}
			id, ok := b.X.(*ast.Ident)
			l, ok2 := b.Y.(*ast.BasicLit)
			if !ok || !ok2 || id.Name != v || l.Kind != token.INT {
				return fmt.Errorf("unsupported comparison")
			}
			k, err := strconv.Atoi(l.Value)
			if err != nil {
				return err
			}
			switch b.Op {
			case token.LSS:
				lo = k
			case token.LEQ:
				lo = k + 1
			case token.GTR:
				hi = k
			case token.GEQ:
				hi = k - 1
			default:
				return fmt.Errorf("unsupported operator %s", b.Op)
			}
			return nil
		}
		return fmt.Errorf("unsupported condition %T", e)
	}
	if err := walk(cond); err != nil {
		return "", err
	}
	if lo < 0 || hi < 0 {
		return "", fmt.Errorf("validateHeaderField: lower or upper bound missing in %s", t.Src(file, cond))
	}
	return fmt.Sprintf("(* C12/C13: rfc822/header_parser.go validateHeaderField rejects a field name byte v when\n     %s\n   i.e. accepts exactly header_key_lo <= v <= header_key_hi (the ':' ends the name before validation). *)\n"+
		"From Coq Require Import NArith.\nDefinition header_key_lo : N := %d.\nDefinition header_key_hi : N := %d.\n", t.Src(file, cond), lo, hi), nil
}
