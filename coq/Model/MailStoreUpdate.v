(* MailStoreUpdate - the connector update MessageUpdated on Model.MailStore.
   Go code mirrored: internal/backend/connector_updates.go applyMessageUpdated + setMessageMailboxes.
     refresh (the update carries the literal gluon has on disk): the message is added to the announced mailboxes that do
       not hold it yet (state.AddMessagesToMailbox: limit checks, next UID) and removed from the ones it is in but that
       are not announced; flags are not modelled. A refresh that announces exactly the mailboxes the message is in
       changes nothing.
     replacement (another literal): the message is removed from every mailbox, a NEW message (new internal id) with the
       new literal is created and added to every announced mailbox (next UID there).
   Everything happens in one write transaction: a refused limit check or an unknown mailbox rolls everything back.
   The message is identified by a mailbox name and UID (the harness knows the remote ID that row belongs to).
   `conn_update` is a separate entry point (not a constructor of `op`); `xstep` / `xrun` interleave it with the operations
   of Model.MailStore, and the C04 theorems about UIDs are proved for `xrun` (Proofs/MailStoreUpdate.v). *)
From Coq Require Import List ZArith NArith Bool.
From Gluon Require Import Gen.FactsLimits Model.UidValidityGen Model.MailStore.
Import ListNotations.
Open Scope Z_scope.

Section Update.
Variable hash : N -> option N.
Variable fx : codefacts.
Variable c : cfg.
Variable clock : nat -> Z.

(* add message x to the mailboxes with the given ids, one after the other (None: a limit check refused) *)
Fixpoint add_each_mbox (ids : list N) (x : msg) (s : store) : option store :=
  match ids with
  | [] => Some s
  | i :: t => match db_add c i [x] s with Some s1 => add_each_mbox t x s1 | None => None end
  end.
Definition del_each_mbox (ids : list N) (id : N) (s : store) : store :=
  fold_left (fun st i => del_msgs i [id] st) ids s.

(* ids of the announced mailboxes (None: one of them is unknown) *)
Fixpoint target_ids (names : list path) (l : list mbox) : option (list N) :=
  match names with
  | [] => Some []
  | p :: t => match find_name p l, target_ids t l with
              | Some m, Some r => Some (mb_id m :: r)
              | _, _ => None
              end
  end.
Definition holder_ids (id : N) (l : list mbox) : list N := map mb_id (filter (fun m => has_msg m id) l).

Definition conn_update (s : store) (name : path) (uid : Z) (newlit : option N) (names : list path) : store * result :=
  match find_name name (s_mboxes s) with
  | None => (s, ResNo)
  | Some m =>
    match find_row uid (mb_rows m), target_ids names (s_mboxes s) with
    | Some r, Some targets =>
      let x := snd r in
      let holders := holder_ids (fst x) (s_mboxes s) in
      match newlit with
      | None =>
        (* refresh *)
        let to_add := filter (fun i => negb (nmem i holders)) targets in
        let to_del := filter (fun i => negb (nmem i targets)) holders in
        match add_each_mbox to_add x s with
        | None => (s, ResNoLimit)
        | Some s1 => (del_each_mbox to_del (fst x) s1, ResOk [])
        end
      | Some l =>
        (* replacement *)
        let y := (s_nextmsg s, l) in
        let s0 := bump_msg 1 s in
        match add_each_mbox targets y (del_each_mbox holders (fst x) s0) with
        | None => (keep_mem s0 s, ResNoLimit)
        | Some s1 => (s1, ResOk [])
        end
      end
    | _, _ => (s, ResNo)
    end
  end.

Inductive xop :=
| XOp (o : op)
| XUpdate (name : path) (uid : Z) (newlit : option N) (names : list path).

Definition xstep (s : store) (o : xop) : store * result :=
  match o with
  | XOp x => step hash fx c clock s x
  | XUpdate n u l ns => conn_update s n u l ns
  end.
Fixpoint xrun (s : store) (h : list xop) : store :=
  match h with [] => s | o :: t => xrun (fst (xstep s o)) t end.
End Update.
