(* Correspondence runner for C07 (trace correspondence): each case is one operation run on the real server under the
   recording wrappers of the message store and the database client: the relational state + cache files before, the
   model operation the harness derived from the request, the recorded sequence of store calls / transaction boundaries /
   statements (projected onto the model's step alphabet) and the relational state + cache files after.
   A case is fine when (1) the operation's precondition holds in the state before, (2) the model's step list and the
   recorded trace have the same skeleton — store calls and the statements of the modelled tables, in order, grouped by
   the same transaction boundaries; reads, connector calls, statements on other tables and transactions that contain
   none of the modelled statements are left out on both sides — and (3) running the model's step list gives the recorded
   database and set of cache files. *)
From Coq Require Import List NArith Bool.
From Gluon Require Export Base.ListX Model.CrashSteps.
Import ListNotations.
Open Scope N_scope.

Record case := mkCase { c_id : nat; c_op : cs_op; c_m : cs_m; c_trace : list cs_step; c_after : cs_db; c_files : list N }.

(* ---- skeleton ---- *)
Inductive sk := KBegin | KCommit | KSet (id : N) | KDel (id : N) | KStmt (q : cs_stmt).

Definition erase_stmt (q : cs_stmt) : option cs_stmt :=
  match q with
  | StNeutral => None
  | StCreateMb mb _ => Some (StCreateMb mb 0)
  | StSetMeta mb _ => Some (StSetMeta mb 0)
  | StSetFlags id _ => Some (StSetFlags id 0)
  | q => Some q
  end.

Fixpoint sk_of (l : list cs_step) : list sk :=
  match l with
  | [] => []
  | st :: t =>
      match st with
      | SBegin => KBegin :: sk_of t
      | SCommit => KCommit :: sk_of t
      | SSet id _ => KSet id :: sk_of t
      | SDel id => KDel id :: sk_of t
      | SStmt q => match erase_stmt q with Some q' => KStmt q' :: sk_of t | None => sk_of t end
      | _ => sk_of t
      end
  end.

(* drop the transactions without any modelled statement *)
Fixpoint drop_clean (l : list sk) : list sk :=
  match l with
  | KBegin :: KCommit :: t => drop_clean t
  | x :: t => x :: drop_clean t
  | [] => []
  end.

(* Some runs of steps have no fixed order in the implementation and are compared as sets (sorted, without
   duplicates): the flag statements of STORE (one statement per flag, each over all messages), the store writes of
   applyMessagesCreated (parallel goroutines), the purge statements and store deletes of removeState / start-up
   (SELECT without ORDER BY over a table keyed by random uuids). *)
Section Runs.
  Variable key : sk -> option N.
  Variable mk : N -> sk.
  Fixpoint take_run (l : list sk) : list N * list sk :=
    match l with
    | x :: t => match key x with
                | Some id => let '(ids, r) := take_run t in (id :: ids, r)
                | None => ([], l)
                end
    | [] => ([], [])
    end.
  Fixpoint norm_runs (fuel : nat) (l : list sk) : list sk :=
    match fuel with
    | O => l
    | S f =>
        match l with
        | [] => []
        | x :: t => match key x with
                    | Some _ => let '(ids, r) := take_run l in map mk (ndedup_sorted (nsort ids)) ++ norm_runs f r
                    | None => x :: norm_runs f t
                    end
        end
    end.
End Runs.

Definition key_flags (x : sk) : option N := match x with KStmt (StSetFlags id _) => Some id | _ => None end.
Definition key_set (x : sk) : option N := match x with KSet id => Some id | _ => None end.
Definition key_del (x : sk) : option N := match x with KDel id => Some id | _ => None end.
Definition key_purge (x : sk) : option N := match x with KStmt (StDeleteMsg id) => Some id | _ => None end.

Definition skeleton (l : list cs_step) : list sk :=
  let k := drop_clean (sk_of l) in
  let n := length k in
  norm_runs key_purge (fun i => KStmt (StDeleteMsg i)) n
    (norm_runs key_del KDel n
       (norm_runs key_set KSet n
          (norm_runs key_flags (fun i => KStmt (StSetFlags i 0)) n k))).

Definition stmt_eqb (a b : cs_stmt) : bool :=
  match a, b with
  | StInsertMsg x, StInsertMsg y => x =? y
  | StInsertRow a1 a2 a3, StInsertRow b1 b2 b3 => (a1 =? b1) && (a2 =? b2) && (a3 =? b3)
  | StDeleteRow a1 a2, StDeleteRow b1 b2 => (a1 =? b1) && (a2 =? b2)
  | StMark x, StMark y => x =? y
  | StDeleteMsg x, StDeleteMsg y => x =? y
  | StCreateMb a1 a2, StCreateMb b1 b2 => (a1 =? b1) && (a2 =? b2)
  | StDeleteMb x, StDeleteMb y => x =? y
  | StSetMeta a1 a2, StSetMeta b1 b2 => (a1 =? b1) && (a2 =? b2)
  | StSetFlags a1 a2, StSetFlags b1 b2 => (a1 =? b1) && (a2 =? b2)
  | StNeutral, StNeutral => true
  | _, _ => false
  end.

Definition sk_eqb (a b : sk) : bool :=
  match a, b with
  | KBegin, KBegin => true | KCommit, KCommit => true
  | KSet x, KSet y => x =? y | KDel x, KDel y => x =? y
  | KStmt p, KStmt q => stmt_eqb p q
  | _, _ => false
  end.

(* ---- precondition, as a boolean ---- *)
Definition fk_b (d : cs_db) : bool := forallb (fun r => cs_has_msg d (row_msg r)) (db_rows d).
Definition nmem (x : N) (l : list N) : bool := existsb (N.eqb x) l.

Definition pre_b (op : cs_op) (m : cs_m) : bool :=
  fk_b (m_db m) && match m_pend m with None => true | Some _ => false end &&
  match op with
  | OpAppend _ _ id _ | OpAppendRecovered _ _ id _ => negb (cs_listed (m_db m) id)
  | OpCopy _ items | OpMove _ _ items => forallb (fun p => cs_has_msg (m_db m) (snd p)) items
  | OpConnCreate chunks rows =>
      forallb (fun p => negb (cs_listed (m_db m) (fst p))) (concat chunks) &&
      forallb (fun r => cs_has_msg (m_db m) (row_msg r) || nmem (row_msg r) (map fst (concat chunks))) rows
  | OpConnUpdate _ new _ _ _ => negb (cs_listed (m_db m) new)
  | OpSessionEnd ids => forallb (fun id => negb (cs_listed (m_db m) id)) ids
  | _ => true
  end.

(* ---- comparing the final state ---- *)
Section Sort.
  Context {A : Type} (key : A -> N).
  Fixpoint kinsert (x : A) (l : list A) : list A :=
    match l with [] => [x] | y :: t => if key x <=? key y then x :: l else y :: kinsert x t end.
  Definition ksort (l : list A) : list A := fold_right kinsert [] l.
End Sort.

Definition big : N := 4294967296.
Definition flag_tok (d : cs_db) (id : N) : N := match cs_flags_of d id with Some x => x | None => 0 end.

Definition db_eqb (a b : cs_db) : bool :=
  list_eqb (fun x y => (fst x =? fst y) && (snd x =? snd y)) (ksort fst (db_mbs a)) (ksort fst (db_mbs b))
  && list_eqb (fun x y => (fst x =? fst y) && Bool.eqb (snd x) (snd y)) (ksort fst (db_msgs a)) (ksort fst (db_msgs b))
  && list_eqb (fun x y => (row_mb x =? row_mb y) && (row_uid x =? row_uid y) && (row_msg x =? row_msg y))
       (ksort (fun r => row_mb r * big + row_uid r) (db_rows a)) (ksort (fun r => row_mb r * big + row_uid r) (db_rows b))
  && nlist_eqb (map (fun p => flag_tok a (fst p)) (ksort fst (db_msgs a))) (map (fun p => flag_tok b (fst p)) (ksort fst (db_msgs a))).

Definition case_ok (c : case) : bool :=
  let l := cs_steps (c_op c) (c_m c) in
  let m' := cs_run l (c_m c) in
  pre_b (c_op c) (c_m c)
  && list_eqb sk_eqb (skeleton l) (skeleton (c_trace c))
  && db_eqb (m_db m') (c_after c)
  && nlist_eqb (nsort (map fst (m_store m'))) (nsort (c_files c)).

Definition mismatches (cs : list case) : list nat :=
  map c_id (filter (fun c => negb (case_ok c)) cs).
