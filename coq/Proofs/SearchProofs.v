(* C15 — lemmas: the compiled SEARCH closures compute the denotation of the key tree. *)
From Coq Require Import List NArith Bool Lia String.
From Gluon Require Import Model.SeqSet Proofs.SeqSetProofs Model.SearchSpec Model.SearchImpl.
Import ListNotations.
Open Scope N_scope.

Section WithCharset.
Variable cs : charset.

(* ---------- induction over key trees (nested in lists) ---------- *)
Section KeyInd.
  Variable P : key -> Prop.
  Hypothesis Hleaf : forall l, P (KLeaf l).
  Hypothesis Hnot : forall a, P a -> P (KNot a).
  Hypothesis Hor : forall a b, P a -> P b -> P (KOr a b).
  Hypothesis Hlist : forall l, Forall P l -> P (KList l).
  Fixpoint key_ind2 (k : key) : P k :=
    match k with
    | KLeaf l => Hleaf l
    | KNot a => Hnot a (key_ind2 a)
    | KOr a b => Hor a b (key_ind2 a) (key_ind2 b)
    | KList l => Hlist l ((fix go (l : list key) : Forall P l :=
                             match l with
                             | [] => Forall_nil P
                             | x :: t => Forall_cons x (key_ind2 x) (go t)
                             end) l)
    end.
End KeyInd.

(* ---------- small facts ---------- *)
Lemma bytes_eqb_eq a b : bytes_eqb a b = true <-> a = b.
Proof.
  revert b. induction a as [|x a IH]; intros [|y b]; cbn [bytes_eqb]; try (split; [discriminate|discriminate]).
  - split; reflexivity.
  - rewrite andb_true_iff, N.eqb_eq, IH. split; [intros [-> ->]; reflexivity|intros [= -> ->]; auto].
Qed.

Lemma all_gtb_iff u l : all_gtb u l = true <-> all_gt u l.
Proof.
  induction l as [|y r IH]; cbn [all_gtb all_gt]; [tauto|].
  rewrite andb_true_iff, N.ltb_lt, IH. tauto.
Qed.

Lemma srtb_iff l : srtb l = true <-> srt l.
Proof.
  induction l as [|x r IH]; cbn [srtb srt]; [tauto|].
  rewrite andb_true_iff, all_gtb_iff, IH. tauto.
Qed.

Definition wf_snap (snap : list msgdata) : Prop := wf_snapb snap = true.

Lemma wf_snap_parts snap : wf_snap snap ->
  map m_seq snap = nseq 1 (List.length snap) /\ srt (snap_uids snap) /\
  (forall m, In m snap -> 0 < m_uid m) /\ snap_cnt snap < two32.
Proof.
  unfold wf_snap, wf_snapb. rewrite !andb_true_iff. intros [[A B] C].
  apply bytes_eqb_eq in A. apply srtb_iff in B. apply N.ltb_lt in C.
  cbn [srt] in B. destruct B as [B1 B2]. repeat split; auto.
  intros m Hm. rewrite all_gt_In in B1. apply B1. apply in_map. exact Hm.
Qed.

Lemma resolve_interval_le res r : fst (resolve_interval res r) <= snd (resolve_interval res r).
Proof.
  destruct r as [b e]. unfold resolve_interval.
  destruct (pnum_eqb b e); cbn [fst snd]; [lia|].
  destruct (is_star b); cbn [fst snd].
  - destruct (N.ltb_spec (res b) (res e)); cbn [fst snd].
    + destruct (is_star b); cbn [fst snd]; lia.
    + lia.
  - destruct (N.ltb_spec (res e) (res b)); cbn [fst snd].
    + destruct (is_star e); cbn [fst snd]; lia.
    + lia.
Qed.

(* for an ordered interval the bounds check of SEARCH refuses exactly what FETCH/STORE/COPY refuse *)
Lemma seq_interval_none_iff cnt lo hi : lo <= hi ->
  (seq_interval_msgs cnt (lo, hi) = None <-> search_seq_bad cnt (lo, hi) = true).
Proof.
  intros Hle. unfold seq_interval_msgs, search_seq_bad. cbn [fst snd].
  rewrite orb_true_iff, !N.ltb_lt.
  destruct (N.eqb_spec lo hi) as [->|Hne].
  - destruct (N.eqb_spec cnt 0) as [->|Hc]; cbn [orb].
    + split; [intros _; lia|reflexivity].
    + destruct (N.ltb_spec cnt hi); cbn [orb]; [split; [intros _; lia|reflexivity]|].
      destruct (N.eqb_spec hi 0); split; try reflexivity; try discriminate; lia.
  - destruct (N.ltb_spec cnt lo); cbn [orb]; [split; [intros _; lia|reflexivity]|].
    destruct (N.ltb_spec cnt hi); cbn [orb]; [split; [intros _; lia|reflexivity]|].
    destruct (N.eqb_spec lo 0); split; try reflexivity; try discriminate; lia.
Qed.

Lemma w_ok_bounds cnt r : w_ok cnt (fst r) && w_ok cnt (snd r) = true ->
  1 <= w_lo cnt r /\ w_hi cnt r <= cnt.
Proof.
  destruct r as [w1 w2]. cbn [fst snd]. intros Hok. apply andb_true_iff in Hok as [O1 O2].
  assert (B1: 0 < w_val cnt w1 <= cnt).
  { destruct w1; cbn in O1 |- *.
    - apply andb_true_iff in O1 as [A B]. apply N.ltb_lt in A. apply N.leb_le in B. lia.
    - apply N.ltb_lt in O1. lia. }
  assert (B2: 0 < w_val cnt w2 <= cnt).
  { destruct w2; cbn in O2 |- *.
    - apply andb_true_iff in O2 as [A B]. apply N.ltb_lt in A. apply N.leb_le in B. lia.
    - apply N.ltb_lt in O2. lia. }
  unfold w_lo, w_hi. cbn [fst snd]. lia.
Qed.

Definition spec_ivs (cnt : N) (s : wset) : list (N * N) := map (fun r => (w_lo cnt r, w_hi cnt r)) s.

Lemma build_seqset_correct cnt s : cnt < two32 ->
  build_seqset cnt s = if set_ok cnt s then Some (spec_ivs cnt s) else None.
Proof.
  intros Hc. unfold build_seqset.
  destruct (parse_set s) as [ps|] eqn:Hp.
  2:{ rewrite (impl_seq_parse_fail cnt s Hc Hp). reflexivity. }
  revert ps Hp. induction s as [|[w1 w2] t IH]; intros ps Hp.
  - cbn in Hp. injection Hp as <-. reflexivity.
  - cbn [parse_set] in Hp. unfold parse_range in Hp. cbn [fst snd] in Hp.
    destruct (parse_seqnum w1) as [p1|] eqn:H1; [|discriminate].
    destruct (parse_seqnum w2) as [p2|] eqn:H2; [|discriminate].
    destruct (parse_set t) as [pt|] eqn:Ht; [|discriminate].
    injection Hp as <-. specialize (IH pt eq_refl).
    rewrite set_ok_cons. cbn [map existsb].
    destruct (resolve_interval_seq cnt w1 w2 p1 p2 Hc H1 H2) as [Rok Rbad]. cbv zeta in Rok, Rbad.
    destruct (w_ok cnt w1 && w_ok cnt w2) eqn:Hok.
    + rewrite (Rok eq_refl).
      pose proof (w_ok_bounds cnt (w1, w2) Hok) as [B1 B2].
      assert (search_seq_bad cnt (w_lo cnt (w1, w2), w_hi cnt (w1, w2)) = false) as ->.
      { unfold search_seq_bad. cbn [fst snd]. apply orb_false_iff. split; apply N.ltb_ge; lia. }
      cbn [orb andb].
      destruct (existsb (search_seq_bad cnt) (map (resolve_interval (resolve_seq cnt)) pt)).
      * destruct (set_ok cnt t); [discriminate|reflexivity].
      * destruct (set_ok cnt t); [|discriminate]. injection IH as IH. unfold spec_ivs. cbn [map]. rewrite IH.
        reflexivity.
    + specialize (Rbad eq_refl).
      pose proof (resolve_interval_le (resolve_seq cnt) (p1, p2)) as Hle.
      destruct (resolve_interval (resolve_seq cnt) (p1, p2)) as [lo hi] eqn:Ei. cbn [fst snd] in Hle.
      apply (seq_interval_none_iff cnt lo hi Hle) in Rbad. rewrite Rbad. reflexivity.
Qed.

Lemma existsb_map_c {A B} (f : B -> bool) (g : A -> B) l : existsb f (map g l) = existsb (fun x => f (g x)) l.
Proof. induction l as [|x t IH]; cbn [map existsb]; [reflexivity|]. rewrite IH. reflexivity. Qed.

Lemma spec_ivs_contains cnt s p :
  existsb (fun i => iv_contains i p) (spec_ivs cnt s) = seq_memb cnt s p.
Proof.
  unfold spec_ivs, seq_memb. rewrite existsb_map_c. reflexivity.
Qed.

(* ---------- UID sets ---------- *)
Lemma uid_iv_correct uids w1 w2 p1 p2 u : srt uids -> In u uids ->
  parse_seqnum w1 = Some p1 -> parse_seqnum w2 = Some p2 ->
  iv_contains (resolve_interval (resolve_uid uids) (p1, p2)) u =
  negb (exempt_range uids (w1, w2)) && range_memb (last_uid uids) (w1, w2) u.
Proof.
  intros Hs Hin H1 H2.
  pose proof (uid_range_correct uids w1 w2 p1 p2 Hs H1 H2 u) as C.
  pose proof (resolve_interval_le (resolve_uid uids) (p1, p2)) as Hle.
  destruct (resolve_interval (resolve_uid uids) (p1, p2)) as [lo hi]. cbn [fst snd] in Hle.
  rewrite (uid_interval_In uids lo hi Hs Hle) in C. unfold spec_uid_range_mem in C.
  unfold iv_contains, range_memb. cbn [fst snd].
  apply eq_true_iff_eq. rewrite !andb_true_iff, negb_true_iff, !N.leb_le. tauto.
Qed.

Lemma build_uidset_none cnt uids s : build_uidset cnt uids s = None <-> set32 s = false.
Proof.
  unfold build_uidset. pose proof (parse_set_some_iff s) as P.
  destruct (parse_set s) as [ps|].
  - assert (set32 s = true) as -> by (apply P; eexists; reflexivity).
    destruct (cnt =? 0); split; discriminate.
  - destruct (set32 s); [|tauto]. destruct P as [_ P]. destruct (P eq_refl) as [? ?]. discriminate.
Qed.

Lemma build_uidset_contains cnt uids s ivs u : srt uids -> In u uids -> cnt <> 0 ->
  build_uidset cnt uids s = Some ivs ->
  existsb (fun i => iv_contains i u) ivs = uid_memb uids s u.
Proof.
  intros Hs Hin Hc. unfold build_uidset.
  destruct (parse_set s) as [ps|] eqn:Hp; [|discriminate].
  apply N.eqb_neq in Hc. rewrite Hc. intros [= <-]. unfold uid_memb. rewrite existsb_map_c.
  revert ps Hp. induction s as [|[w1 w2] t IH]; intros ps Hp.
  - cbn in Hp. injection Hp as <-. reflexivity.
  - cbn [parse_set] in Hp. unfold parse_range in Hp. cbn [fst snd] in Hp.
    destruct (parse_seqnum w1) as [p1|] eqn:H1; [|discriminate].
    destruct (parse_seqnum w2) as [p2|] eqn:H2; [|discriminate].
    destruct (parse_set t) as [pt|] eqn:Ht; [|discriminate].
    injection Hp as <-. cbn [existsb]. rewrite (IH pt eq_refl).
    rewrite (uid_iv_correct uids w1 w2 p1 p2 u Hs Hin H1 H2). reflexivity.
Qed.

(* ---------- leaves ---------- *)
Lemma since_bool a d : ((a =? d) || (d <? a)) = (d <=? a).
Proof.
  destruct (N.eqb_spec a d), (N.ltb_spec d a), (N.leb_spec d a); cbn; try reflexivity; lia.
Qed.

Lemma hdr_all_any f s h :
  existsb (fun v => containsb (keynorm cs s) (ufold v)) (hdr_all f h) = hdr_any cs f s h.
Proof.
  unfold hdr_any. induction h as [|[n v] t IH]; cbn [hdr_all existsb fst snd]; [reflexivity|].
  destruct (name_eqb f n); cbn [existsb andb]; rewrite IH; reflexivity.
Qed.

Definition leaf_result (cnt : N) (uids : list N) (l : leaf) (r : option built) : Prop :=
  match r with
  | None => leaf_bad cnt l = true
  | Some b => leaf_bad cnt l = false /\ b_lit b = leaf_needs_lit l /\ b_db b = leaf_needs_db l /\
              b_hdr b = leaf_needs_hdr l /\
              forall m, In (m_uid m) uids -> b_op b m = Some (eval_leaf cs cnt uids l m)
  end.

Lemma compile_leaf_spec cnt uids l : cnt < two32 -> srt uids -> (cnt = 0 -> uids = []) ->
  leaf_result cnt uids l (compile_leaf cs cnt uids l).
Proof.
  intros Hc Hs H0.
  destruct l; cbn [compile_leaf leaf_result];
    try (repeat split; reflexivity).
  - (* HEADER *) repeat split; try reflexivity. intros m _. unfold leaf_hdr, pure_op. cbn [b_op eval_leaf].
    rewrite hdr_all_any. reflexivity.
  - (* SINCE *) repeat split; try reflexivity. intros m _. unfold leaf_db, pure_op. cbn [b_op eval_leaf].
    rewrite since_bool. reflexivity.
  - (* SENTSINCE *) repeat split; try reflexivity. intros m _. unfold leaf_hdr, pure_op, sent_test.
    cbn [b_op eval_leaf]. destruct (m_sent m); [rewrite since_bool|]; reflexivity.
  - (* LARGER *) unfold parse_number. destruct (n <? two63) eqn:E; cbn [leaf_result leaf_bad]; rewrite E;
      repeat split; reflexivity.
  - (* SMALLER *) unfold parse_number. destruct (n <? two63) eqn:E; cbn [leaf_result leaf_bad]; rewrite E;
      repeat split; reflexivity.
  - (* UID *) destruct (build_uidset cnt uids s) as [ivs|] eqn:E; cbn [leaf_result leaf_bad].
    + assert (set32 s = true) as ->.
      { destruct (set32 s) eqn:E2; [reflexivity|]. apply (build_uidset_none cnt uids) in E2. rewrite E2 in E. discriminate. }
      repeat split; try reflexivity. intros m Hin. unfold leaf_plain, pure_op. cbn [b_op eval_leaf]. f_equal.
      apply (build_uidset_contains cnt uids s ivs (m_uid m) Hs Hin); [|exact E].
      intros ->. rewrite (H0 eq_refl) in Hin. destruct Hin.
    + apply build_uidset_none in E. rewrite E. reflexivity.
  - (* sequence set *) rewrite (build_seqset_correct cnt s Hc).
    destruct (set_ok cnt s) eqn:E; cbn [leaf_result leaf_bad]; rewrite E; cbn [negb]; [|reflexivity].
    repeat split; try reflexivity. intros m _. unfold leaf_plain, pure_op. cbn [b_op eval_leaf].
    rewrite spec_ivs_contains. reflexivity.
Qed.

(* ---------- key trees ---------- *)
Definition key_result (cnt : N) (uids : list N) (k : key) (r : option built) : Prop :=
  match r with
  | None => key_bad cnt k = true
  | Some b => key_bad cnt k = false /\ b_lit b = key_any leaf_needs_lit k /\ b_db b = key_any leaf_needs_db k /\
              b_hdr b = key_any leaf_needs_hdr k /\
              forall m, In (m_uid m) uids -> b_op b m = Some (eval cs cnt uids k m)
  end.

Definition list_result (cnt : N) (uids : list N) (l : list key) (r : option (list built)) : Prop :=
  match r with
  | None => existsb (key_bad cnt) l = true
  | Some bl => existsb (key_bad cnt) l = false /\
               existsb b_lit bl = existsb (key_any leaf_needs_lit) l /\
               existsb b_db bl = existsb (key_any leaf_needs_db) l /\
               existsb b_hdr bl = existsb (key_any leaf_needs_hdr) l /\
               forall m, In (m_uid m) uids ->
                 and_ops (map b_op bl) m = Some (forallb (fun a => eval cs cnt uids a m) l)
  end.

Lemma compile_list_spec cnt uids l :
  Forall (fun k => key_result cnt uids k (compile cs cnt uids k)) l ->
  list_result cnt uids l (opt_all (compile cs cnt uids) l).
Proof.
  induction 1 as [|k t Hk Ht IH]; cbn [opt_all].
  - cbn. repeat split; reflexivity.
  - fold (opt_all (compile cs cnt uids) t).
    destruct (compile cs cnt uids k) as [b|]; cbn [key_result] in Hk.
    + destruct Hk as (K1 & K2 & K3 & K4 & K5).
      destruct (opt_all (compile cs cnt uids) t) as [bl|]; cbn [list_result] in IH |- *.
      * destruct IH as (I1 & I2 & I3 & I4 & I5). cbn [existsb map]. rewrite K1, K2, K3, K4, I1, I2, I3, I4.
        repeat split; try reflexivity. intros m Hin. cbn [and_ops forallb]. rewrite (K5 m Hin).
        destruct (eval cs cnt uids k m); cbn [andb]; [apply I5; exact Hin|reflexivity].
      * cbn [existsb]. rewrite IH. apply orb_true_r.
    + cbn [list_result existsb]. rewrite Hk. reflexivity.
Qed.

Lemma compile_spec cnt uids : cnt < two32 -> srt uids -> (cnt = 0 -> uids = []) ->
  forall k, key_result cnt uids k (compile cs cnt uids k).
Proof.
  intros Hc Hs H0. induction k as [l|a IHa|a b IHa IHb|l IHl] using key_ind2; cbn [compile].
  - pose proof (compile_leaf_spec cnt uids l Hc Hs H0) as L.
    destruct (compile_leaf cs cnt uids l); exact L.
  - destruct (compile cs cnt uids a) as [x|]; cbn [key_result key_bad key_any] in *; [|exact IHa].
    destruct IHa as (A1 & A2 & A3 & A4 & A5). repeat split; auto.
    intros m Hin. cbn [not_built b_op eval]. rewrite (A5 m Hin). reflexivity.
  - destruct (compile cs cnt uids a) as [x|]; destruct (compile cs cnt uids b) as [y|];
      cbn [key_result key_bad key_any] in *.
    + destruct IHa as (A1 & A2 & A3 & A4 & A5). destruct IHb as (B1 & B2 & B3 & B4 & B5).
      cbn [or_built b_lit b_db b_hdr b_op].
      rewrite A1, A2, A3, A4, B1, B2, B3, B4. repeat split; try reflexivity.
      intros m Hin. cbn [eval]. rewrite (A5 m Hin), (B5 m Hin). reflexivity.
    + rewrite IHb. apply orb_true_r.
    + rewrite IHa. reflexivity.
    + rewrite IHa. reflexivity.
  - pose proof (compile_list_spec cnt uids l IHl) as L.
    destruct (opt_all (compile cs cnt uids) l) as [bl|]; cbn [list_result key_result key_bad key_any] in *; [|exact L].
    destruct L as (L1 & L2 & L3 & L4 & L5). cbn [list_built b_lit b_db b_hdr b_op eval].
    repeat split; auto.
Qed.

(* ---------- the pass over the snapshot ---------- *)
Lemma existsb_ext_c {A} (f g : A -> bool) l : (forall x, f x = g x) -> existsb f l = existsb g l.
Proof. intros E. induction l as [|x t IH]; cbn [existsb]; [reflexivity|]. rewrite E, IH. reflexivity. Qed.

Lemma run_slots_spec b g f snap :
  (forall m, In m snap -> b_op b m = Some (f m)) ->
  run_slots b g snap =
  if existsb (load_err b) snap then None else Some (map (fun m => if f m then g m else 0) snap).
Proof.
  induction snap as [|m t IH]; intros Hop; cbn [run_slots existsb map]; [reflexivity|].
  unfold apply_search. destruct (load_err b m); cbn [orb]; [reflexivity|].
  rewrite (Hop m (or_introl eq_refl)). rewrite IH by (intros x Hx; apply Hop; right; exact Hx).
  destruct (existsb (load_err b) t); reflexivity.
Qed.

Lemma filter_slots (f : msgdata -> bool) (g : msgdata -> N) snap :
  (forall m, In m snap -> g m <> 0) ->
  filter (fun v => negb (v =? 0)) (map (fun m => if f m then g m else 0) snap) = map g (filter f snap).
Proof.
  induction snap as [|m t IH]; intros Hg; cbn [map filter]; [reflexivity|].
  rewrite IH by (intros x Hx; apply Hg; right; exact Hx).
  destruct (f m); cbn [map].
  - destruct (N.eqb_spec (g m) 0) as [E|E]; [exfalso; apply (Hg m (or_introl eq_refl)); exact E|]. reflexivity.
  - rewrite N.eqb_refl. reflexivity.
Qed.

Lemma nseq_pos a len x : In x (nseq a len) -> a <= x.
Proof. intros H. apply nseq_In in H. lia. Qed.

Lemma wf_seq_pos snap m : wf_snap snap -> In m snap -> m_seq m <> 0.
Proof.
  intros W Hin. destruct (wf_snap_parts snap W) as (A & _).
  assert (In (m_seq m) (map m_seq snap)) as H by (apply in_map; exact Hin).
  rewrite A in H. apply nseq_pos in H. lia.
Qed.

Lemma snap_cnt_zero snap : snap_cnt snap = 0 -> snap_uids snap = [].
Proof. unfold snap_cnt, snap_uids. destruct snap; [reflexivity|cbn; lia]. Qed.

Definition sel_of (keys : list key) (snap : list msgdata) : list msgdata :=
  filter (eval cs (snap_cnt snap) (snap_uids snap) (KList keys)) snap.

(* complete characterisation of the modelled SEARCH *)
Theorem search_correct uidmode keys snap : wf_snap snap ->
  search cs uidmode keys snap =
  if key_bad (snap_cnt snap) (KList keys) then RBad
  else if existsb (msg_unreadable (KList keys)) snap then RNo
  else ROk (map (mapfn_of uidmode) (sel_of keys snap)).
Proof.
  intros W. destruct (wf_snap_parts snap W) as (A & B & C & D).
  unfold search.
  pose proof (compile_spec (snap_cnt snap) (snap_uids snap) D B (snap_cnt_zero snap) (KList keys)) as K.
  destruct (compile cs (snap_cnt snap) (snap_uids snap) (KList keys)) as [b|]; cbn [key_result] in K.
  2:{ rewrite K. reflexivity. }
  destruct K as (K1 & K2 & K3 & K4 & K5). rewrite K1.
  rewrite (run_slots_spec b (mapfn_of uidmode) (eval cs (snap_cnt snap) (snap_uids snap) (KList keys)) snap).
  2:{ intros m Hm. apply K5. unfold snap_uids. apply in_map. exact Hm. }
  assert (E: existsb (load_err b) snap = existsb (msg_unreadable (KList keys)) snap).
  { apply existsb_ext_c. intros m. unfold load_err, msg_unreadable. rewrite K2, K3, K4. reflexivity. }
  rewrite E. destruct (existsb (msg_unreadable (KList keys)) snap); [reflexivity|].
  f_equal. unfold sel_of. apply filter_slots. intros m Hm.
  destruct uidmode; cbn [mapfn_of].
  - specialize (C m Hm). lia.
  - apply (wf_seq_pos snap m W Hm).
Qed.

(* ---------- consequences ---------- *)
Definition no_error (keys : list key) (snap : list msgdata) : Prop :=
  key_bad (snap_cnt snap) (KList keys) = false /\ existsb (msg_unreadable (KList keys)) snap = false.

Lemma search_ok_inv u keys snap l : wf_snap snap -> search cs u keys snap = ROk l ->
  no_error keys snap /\ l = map (mapfn_of u) (sel_of keys snap).
Proof.
  intros W. rewrite (search_correct u keys snap W). unfold no_error.
  destruct (key_bad (snap_cnt snap) (KList keys)); [discriminate|].
  destruct (existsb (msg_unreadable (KList keys)) snap); [discriminate|].
  intros [= <-]. auto.
Qed.

Lemma search_no_error u keys snap : wf_snap snap -> no_error keys snap ->
  search cs u keys snap = ROk (map (mapfn_of u) (sel_of keys snap)).
Proof. intros W [A B]. rewrite (search_correct u keys snap W), A, B. reflexivity. Qed.

(* order *)
Lemma all_gt_nseq x a len : x < a -> all_gt x (nseq a len).
Proof. revert a. induction len as [|n IH]; intros a H; cbn [nseq all_gt]; [exact I|]. split; [exact H|apply IH; lia]. Qed.
Lemma srt_nseq a len : srt (nseq a len).
Proof. revert a. induction len as [|n IH]; intros a; cbn [nseq srt]; [exact I|]. split; [apply all_gt_nseq; lia|apply IH]. Qed.

Lemma all_gt_map_filter {A} (g : A -> N) (f : A -> bool) x l : all_gt x (map g l) -> all_gt x (map g (filter f l)).
Proof.
  induction l as [|y t IH]; cbn [map filter all_gt]; [auto|]. intros [H1 H2].
  destruct (f y); cbn [map all_gt]; auto.
Qed.
Lemma srt_map_filter {A} (g : A -> N) (f : A -> bool) l : srt (map g l) -> srt (map g (filter f l)).
Proof.
  induction l as [|y t IH]; cbn [map filter srt]; [auto|]. intros [H1 H2].
  destruct (f y); cbn [map srt]; auto using all_gt_map_filter.
Qed.
Lemma srt_NoDup l : srt l -> NoDup l.
Proof.
  induction l as [|x t IH]; cbn [srt]; [constructor|]. intros [H1 H2]. constructor; [|auto].
  intros Hin. rewrite all_gt_In in H1. specialize (H1 x Hin). lia.
Qed.

Lemma wf_srt_map u snap : wf_snap snap -> srt (map (mapfn_of u) snap).
Proof.
  intros W. destruct (wf_snap_parts snap W) as (A & B & _). destruct u; cbn [mapfn_of].
  - exact B.
  - rewrite A. apply srt_nseq.
Qed.

Theorem search_ascending u keys snap l : wf_snap snap -> search cs u keys snap = ROk l -> srt l /\ NoDup l.
Proof.
  intros W H. destruct (search_ok_inv u keys snap l W H) as [_ ->].
  assert (srt (map (mapfn_of u) (sel_of keys snap))) as S by (apply srt_map_filter, wf_srt_map, W).
  split; [exact S|apply srt_NoDup, S].
Qed.

(* UID SEARCH and SEARCH answer about the same messages, and fail together *)
Theorem search_uid_same keys snap : wf_snap snap ->
  match search cs false keys snap with
  | ROk ls => ls = map m_seq (sel_of keys snap) /\ search cs true keys snap = ROk (map m_uid (sel_of keys snap))
  | r => search cs true keys snap = r
  end.
Proof.
  intros W. rewrite (search_correct false keys snap W), (search_correct true keys snap W).
  destruct (key_bad (snap_cnt snap) (KList keys)); [reflexivity|].
  destruct (existsb (msg_unreadable (KList keys)) snap); [reflexivity|]. split; reflexivity.
Qed.

(* injectivity of the reported number on the view *)
Lemma NoDup_map_inj {A} (g : A -> N) l a b : NoDup (map g l) -> In a l -> In b l -> g a = g b -> a = b.
Proof.
  induction l as [|x t IH]; cbn [map]; intros ND Ha Hb E; [destruct Ha|].
  inversion ND as [|? ? Hx ND']; subst.
  destruct Ha as [->|Ha], Hb as [->|Hb]; auto.
  - exfalso. apply Hx. rewrite E. apply in_map. exact Hb.
  - exfalso. apply Hx. rewrite <- E. apply in_map. exact Ha.
Qed.

Lemma in_map_filter {A} (g : A -> N) (f : A -> bool) l p :
  In p (map g (filter f l)) <-> exists m, In m l /\ f m = true /\ g m = p.
Proof.
  rewrite in_map_iff. split.
  - intros (m & E & Hm). apply filter_In in Hm as [H1 H2]. exists m. auto.
  - intros (m & H1 & H2 & E). exists m. split; [exact E|]. apply filter_In. auto.
Qed.

Lemma sel_iff u keys snap m : wf_snap snap -> In m snap ->
  (In (mapfn_of u m) (map (mapfn_of u) (sel_of keys snap)) <->
   eval cs (snap_cnt snap) (snap_uids snap) (KList keys) m = true).
Proof.
  intros W Hm. unfold sel_of. rewrite in_map_filter. split.
  - intros (m' & H1 & H2 & E).
    assert (m' = m) as <-; [|exact H2].
    apply (NoDup_map_inj (mapfn_of u) snap); auto. apply srt_NoDup, wf_srt_map, W.
  - intros H. exists m. auto.
Qed.

(* every message the view holds is searched: it is reported iff it satisfies the keys *)
Theorem search_uses_view u keys snap m : wf_snap snap -> no_error keys snap -> In m snap ->
  exists l, search cs u keys snap = ROk l /\
            (In (mapfn_of u m) l <-> eval cs (snap_cnt snap) (snap_uids snap) (KList keys) m = true).
Proof.
  intros W NE Hm. eexists. split; [apply (search_no_error u keys snap W NE)|]. apply sel_iff; assumption.
Qed.

(* Boolean structure *)
Lemma unreadable_single k m : msg_unreadable (KList [k]) m = msg_unreadable k m.
Proof. unfold msg_unreadable. cbn [key_any existsb]. rewrite !orb_false_r. reflexivity. Qed.

Lemma no_error_single k snap : no_error [k] snap <->
  key_bad (snap_cnt snap) k = false /\ existsb (msg_unreadable k) snap = false.
Proof.
  unfold no_error. cbn [key_bad existsb]. rewrite orb_false_r.
  rewrite (existsb_ext_c (msg_unreadable (KList [k])) (msg_unreadable k) snap (unreadable_single k)). tauto.
Qed.

Lemma eval_single cnt uids k m : eval cs cnt uids (KList [k]) m = eval cs cnt uids k m.
Proof. cbn [eval forallb]. apply andb_true_r. Qed.

Lemma filter_ext_c {A} (f g : A -> bool) l : (forall x, f x = g x) -> filter f l = filter g l.
Proof. intros E. induction l as [|x t IH]; cbn [filter]; [reflexivity|]. rewrite E, IH. reflexivity. Qed.

Lemma sel_single_in u k snap p :
  In p (map (mapfn_of u) (sel_of [k] snap)) <->
  exists m, In m snap /\ eval cs (snap_cnt snap) (snap_uids snap) k m = true /\ mapfn_of u m = p.
Proof.
  unfold sel_of. rewrite in_map_filter. split; intros (m & H1 & H2 & H3); exists m; repeat split; auto.
  - rewrite <- eval_single. exact H2.
  - rewrite eval_single. exact H2.
Qed.

Theorem search_not u k snap l : wf_snap snap -> search cs u [KNot k] snap = ROk l ->
  exists l', search cs u [k] snap = ROk l' /\
             forall p, In p l <-> In p (map (mapfn_of u) snap) /\ ~ In p l'.
Proof.
  intros W H. destruct (search_ok_inv u _ snap l W H) as [NE ->].
  assert (NE' : no_error [k] snap).
  { apply no_error_single. destruct (proj1 (no_error_single _ _) NE) as [A B]. cbn [key_bad] in A.
    split; [exact A|]. rewrite <- B. apply existsb_ext_c. intros m. reflexivity. }
  eexists. split; [apply (search_no_error u [k] snap W NE')|].
  intros p. rewrite !sel_single_in. split.
  - intros (m & H1 & H2 & <-). split; [apply in_map; exact H1|].
    intros (m' & H1' & H2' & E). cbn [eval] in H2.
    assert (m' = m) as ->.
    { apply (NoDup_map_inj (mapfn_of u) snap); auto. apply srt_NoDup, wf_srt_map, W. }
    rewrite H2' in H2. discriminate.
  - intros [Hin Hn]. apply in_map_iff in Hin as (m & <- & Hm). exists m. repeat split; auto.
    cbn [eval]. destruct (eval cs (snap_cnt snap) (snap_uids snap) k m) eqn:E; [|reflexivity].
    exfalso. apply Hn. exists m. auto.
Qed.

Theorem search_or u a b snap l : wf_snap snap -> search cs u [KOr a b] snap = ROk l ->
  exists la lb, search cs u [a] snap = ROk la /\ search cs u [b] snap = ROk lb /\
                forall p, In p l <-> In p la \/ In p lb.
Proof.
  intros W H. destruct (search_ok_inv u _ snap l W H) as [NE ->].
  destruct (proj1 (no_error_single _ _) NE) as [A B]. cbn [key_bad] in A. apply orb_false_iff in A as [A1 A2].
  assert (Ua : existsb (msg_unreadable a) snap = false /\ existsb (msg_unreadable b) snap = false).
  { split; apply not_true_is_false; intros E; apply existsb_exists in E as (m & Hm & E);
      assert (existsb (msg_unreadable (KOr a b)) snap = true) as X; try (rewrite X in B; discriminate);
      apply existsb_exists; exists m; split; try exact Hm;
      unfold msg_unreadable in *; cbn [key_any];
      destruct (key_any leaf_needs_db a), (key_any leaf_needs_db b), (key_any leaf_needs_lit a),
        (key_any leaf_needs_lit b), (key_any leaf_needs_hdr a), (key_any leaf_needs_hdr b),
        (m_db_ok m), (m_lit_ok m), (m_hdr_ok m); cbn in *; congruence. }
  destruct Ua as [Ua Ub].
  exists (map (mapfn_of u) (sel_of [a] snap)), (map (mapfn_of u) (sel_of [b] snap)).
  split; [apply search_no_error; [exact W|apply no_error_single; auto]|].
  split; [apply search_no_error; [exact W|apply no_error_single; auto]|].
  intros p. rewrite !sel_single_in. cbn [eval]. split.
  - intros (m & H1 & H2 & H3). apply orb_true_iff in H2 as [H2|H2]; [left|right]; exists m; auto.
  - intros [(m & H1 & H2 & H3)|(m & H1 & H2 & H3)]; exists m; rewrite H2; repeat split; auto using orb_true_r.
Qed.

Lemma unreadable_app k1 k2 m :
  msg_unreadable (KList (k1 ++ k2)) m = msg_unreadable (KList k1) m || msg_unreadable (KList k2) m.
Proof.
  unfold msg_unreadable. cbn [key_any]. rewrite !existsb_app.
  destruct (existsb (key_any leaf_needs_db) k1), (existsb (key_any leaf_needs_db) k2),
    (existsb (key_any leaf_needs_lit) k1), (existsb (key_any leaf_needs_lit) k2),
    (existsb (key_any leaf_needs_hdr) k1), (existsb (key_any leaf_needs_hdr) k2),
    (m_db_ok m), (m_lit_ok m), (m_hdr_ok m); reflexivity.
Qed.

Lemma existsb_orb {A} (f g : A -> bool) l : existsb (fun x => f x || g x) l = existsb f l || existsb g l.
Proof.
  induction l as [|x t IH]; cbn [existsb]; [reflexivity|]. rewrite IH.
  destruct (f x), (g x), (existsb f t), (existsb g t); reflexivity.
Qed.

Theorem search_and u k1 k2 snap l : wf_snap snap -> search cs u (k1 ++ k2) snap = ROk l ->
  exists l1 l2, search cs u k1 snap = ROk l1 /\ search cs u k2 snap = ROk l2 /\
                forall p, In p l <-> In p l1 /\ In p l2.
Proof.
  intros W H. destruct (search_ok_inv u _ snap l W H) as [[A B] ->].
  cbn [key_bad] in A. rewrite existsb_app in A. apply orb_false_iff in A as [A1 A2].
  rewrite (existsb_ext_c _ _ snap (unreadable_app k1 k2)), existsb_orb in B. apply orb_false_iff in B as [B1 B2].
  exists (map (mapfn_of u) (sel_of k1 snap)), (map (mapfn_of u) (sel_of k2 snap)).
  split; [apply search_no_error; [exact W|split; assumption]|].
  split; [apply search_no_error; [exact W|split; assumption]|].
  intros p. unfold sel_of. rewrite !in_map_filter. cbn [eval]. split.
  - intros (m & H1 & H2 & H3). rewrite forallb_app in H2. apply andb_true_iff in H2 as [E1 E2].
    split; exists m; auto.
  - intros [(m & H1 & H2 & H3) (m' & H1' & H2' & H3')].
    assert (m' = m) as ->.
    { apply (NoDup_map_inj (mapfn_of u) snap); auto; [apply srt_NoDup, wf_srt_map, W|congruence]. }
    exists m. repeat split; auto. rewrite forallb_app, H2, H2'. reflexivity.
Qed.

Theorem search_paren u ks snap : wf_snap snap -> search cs u [KList ks] snap = search cs u ks snap.
Proof.
  intros W. rewrite !(search_correct u _ snap W). cbn [key_bad existsb]. rewrite orb_false_r.
  rewrite (existsb_ext_c (msg_unreadable (KList [KList ks])) (msg_unreadable (KList ks)) snap
             (unreadable_single (KList ks))).
  unfold sel_of.
  rewrite (filter_ext_c _ _ snap (eval_single (snap_cnt snap) (snap_uids snap) (KList ks))). reflexivity.
Qed.

(* BAD exactly when some key in the tree requires it *)
Theorem search_bad_iff u keys snap : wf_snap snap ->
  (search cs u keys snap = RBad <-> key_bad (snap_cnt snap) (KList keys) = true).
Proof.
  intros W. rewrite (search_correct u keys snap W).
  destruct (key_bad (snap_cnt snap) (KList keys)); [tauto|].
  destruct (existsb (msg_unreadable (KList keys)) snap); split; discriminate.
Qed.

(* a sequence number beyond the view anywhere in the tree refuses the command *)
Lemma key_bad_seq_beyond cnt s r n : In r s -> (fst r = WNum n \/ snd r = WNum n) -> cnt < n ->
  leaf_bad cnt (LSeqSet s) = true.
Proof.
  intros Hin Hn Hlt. cbn [leaf_bad]. apply negb_true_iff. apply not_true_is_false. intros E.
  unfold set_ok in E. rewrite forallb_forall in E. specialize (E r Hin). apply andb_true_iff in E as [E1 E2].
  destruct Hn as [Hn|Hn]; [rewrite Hn in E1; cbn in E1; apply andb_true_iff in E1 as [_ E1]
                          |rewrite Hn in E2; cbn in E2; apply andb_true_iff in E2 as [_ E2]];
    [apply N.leb_le in E1|apply N.leb_le in E2]; lia.
Qed.

End WithCharset.
