package main

import (
	"fmt"
	"go/ast"
	"go/token"
	"os"
	"path/filepath"
	"sort"
	"strconv"
	"strings"
)

// FactsCmdClass (C18): the gate in front of the IMAP command handlers.
//   - internal/session/handle.go: the `switch cmd.(type)` of handleCommand (command type -> class handler) and the inner
//     switches of handleAnyCommand / handleNotAuthenticatedCommand / handleAuthenticatedCommand / handleWithMailbox;
//   - internal/session/session.go serve() and command.go startCommandReader(): the commands handled apart
//     (LOGOUT, IDLE / STARTTLS);
//   - the guards: `if s.state == nil { return ErrNotAuthenticated }` in the authenticated / selected class handlers and in
//     handleIdle, handleSelectedCommand going through state.Selected which refuses without a snapshot, handleLogin
//     answering BAD when s.state != nil, handleOther mapping plain errors to NO;
//   - internal/backend/backend.go: maxLoginAttempts and the shape of getUserID (wait for the jail first, reset on
//     success, jail when the counter reaches the maximum, the timer resets the counter), GetState creating the state of
//     the authorised user only, AddUser giving every user its own store and database.
func init() { register("CmdClass", extractCmdClass) }

func normSrc(s string) string { return strings.Join(strings.Fields(s), " ") }

// caseTypes returns the command type names (`*command.X` -> "X") of a case clause.
func caseTypes(cc *ast.CaseClause) []string {
	var r []string
	for _, e := range cc.List {
		if st, ok := e.(*ast.StarExpr); ok {
			if sel, ok := st.X.(*ast.SelectorExpr); ok {
				if id, ok := sel.X.(*ast.Ident); ok && id.Name == "command" {
					r = append(r, sel.Sel.Name)
				}
			}
		}
	}
	return r
}

func findTypeSwitch(n ast.Node) *ast.TypeSwitchStmt {
	var ts *ast.TypeSwitchStmt
	ast.Inspect(n, func(x ast.Node) bool {
		if ts != nil {
			return false
		}
		if t, ok := x.(*ast.TypeSwitchStmt); ok {
			ts = t
			return false
		}
		return true
	})
	return ts
}

// calledMethod returns the name of the method called in `return s.<name>(...)` inside the clause body.
func calledMethod(cc *ast.CaseClause) string {
	name := ""
	for _, st := range cc.Body {
		ast.Inspect(st, func(x ast.Node) bool {
			if call, ok := x.(*ast.CallExpr); ok {
				if sel, ok := call.Fun.(*ast.SelectorExpr); ok && strings.HasPrefix(sel.Sel.Name, "handle") && name == "" {
					name = sel.Sel.Name
				}
			}
			return true
		})
	}
	return name
}

func coqStrList(xs []string) string {
	q := make([]string, len(xs))
	for i, x := range xs {
		q[i] = coqString(x)
	}
	return "[" + strings.Join(q, "; ") + "]"
}

// guardBefore reports whether body contains, before position `before`, a top-level
// `if <cond> { return <ret...> }` whose normalised condition is cond and whose return expression starts with retPrefix.
func (t *T) guardBefore(file string, body *ast.BlockStmt, before token.Pos, cond, retPrefix string) bool {
	for _, st := range body.List {
		if st.Pos() >= before {
			break
		}
		ifs, ok := st.(*ast.IfStmt)
		if !ok || ifs.Init != nil || ifs.Else != nil {
			continue
		}
		if normSrc(t.Src(file, ifs.Cond)) != cond || len(ifs.Body.List) != 1 {
			continue
		}
		rs, ok := ifs.Body.List[0].(*ast.ReturnStmt)
		if !ok || len(rs.Results) == 0 {
			continue
		}
		all := make([]string, len(rs.Results))
		for i, r := range rs.Results {
			all[i] = normSrc(t.Src(file, r))
		}
		if strings.HasPrefix(strings.Join(all, ", "), retPrefix) {
			return true
		}
	}
	return false
}

func firstPosOf(n ast.Node, pred func(ast.Node) bool) token.Pos {
	pos := token.Pos(1 << 60)
	ast.Inspect(n, func(x ast.Node) bool {
		if x != nil && pred(x) && x.Pos() < pos {
			pos = x.Pos()
		}
		return true
	})
	return pos
}

func isCallTo(x ast.Node, suffix string, t *T, file string) bool {
	call, ok := x.(*ast.CallExpr)
	if !ok {
		return false
	}
	return strings.HasSuffix(normSrc(t.Src(file, call.Fun)), suffix)
}

func extractCmdClass(t *T) (string, error) {
	const hfile = "internal/session/handle.go"
	hf, err := t.ParseFile(hfile)
	if err != nil {
		return "", err
	}
	classOf := map[string]string{
		"handleAnyCommand":              "HAny",
		"handleNotAuthenticatedCommand": "HNotAuth",
		"handleAuthenticatedCommand":    "HAuth",
		"handleSelectedCommand":         "HSelected",
	}
	hc := FuncDecl(hf, "Session", "handleCommand")
	if hc == nil {
		return "", fmt.Errorf("handleCommand not found")
	}
	ts := findTypeSwitch(hc.Body)
	if ts == nil {
		return "", fmt.Errorf("handleCommand: type switch not found")
	}
	type ent struct{ name, class string }
	var dispatch []ent
	for _, c := range ts.Body.List {
		cc := c.(*ast.CaseClause)
		if cc.List == nil {
			continue
		}
		cls, ok := classOf[calledMethod(cc)]
		if !ok {
			cls = "HOther"
		}
		for _, n := range caseTypes(cc) {
			dispatch = append(dispatch, ent{n, cls})
		}
	}
	inner := func(fn string) ([]string, *ast.FuncDecl, *ast.TypeSwitchStmt, error) {
		fd := FuncDecl(hf, "Session", fn)
		if fd == nil {
			return nil, nil, nil, fmt.Errorf("%s not found", fn)
		}
		s := findTypeSwitch(fd.Body)
		if s == nil {
			return nil, nil, nil, fmt.Errorf("%s: type switch not found", fn)
		}
		var r []string
		for _, c := range s.Body.List {
			cc := c.(*ast.CaseClause)
			r = append(r, caseTypes(cc)...)
		}
		sort.Strings(r)
		return r, fd, s, nil
	}
	innerAny, _, _, err := inner("handleAnyCommand")
	if err != nil {
		return "", err
	}
	innerNot, _, _, err := inner("handleNotAuthenticatedCommand")
	if err != nil {
		return "", err
	}
	innerAuth, authFD, authTS, err := inner("handleAuthenticatedCommand")
	if err != nil {
		return "", err
	}
	innerSel, _, _, err := inner("handleWithMailbox")
	if err != nil {
		return "", err
	}
	guardAuth := t.guardBefore(hfile, authFD.Body, authTS.Pos(), "s.state == nil", "ErrNotAuthenticated")

	selFD := FuncDecl(hf, "Session", "handleSelectedCommand")
	if selFD == nil {
		return "", fmt.Errorf("handleSelectedCommand not found")
	}
	selCallPos := firstPosOf(selFD.Body, func(x ast.Node) bool { return isCallTo(x, "s.state.Selected", t, hfile) })
	guardSel := t.guardBefore(hfile, selFD.Body, selCallPos, "s.state == nil", "ErrNotAuthenticated")
	// handleWithMailbox is reached only inside the closure passed to s.state.Selected
	selThrough := false
	if n := len(selFD.Body.List); n > 0 {
		if rs, ok := selFD.Body.List[n-1].(*ast.ReturnStmt); ok && len(rs.Results) == 1 && isCallTo(rs.Results[0], "s.state.Selected", t, hfile) {
			call := rs.Results[0].(*ast.CallExpr)
			if len(call.Args) == 2 {
				if fl, ok := call.Args[1].(*ast.FuncLit); ok {
					inside := false
					ast.Inspect(fl, func(x ast.Node) bool {
						if isCallTo(x, "s.handleWithMailbox", t, hfile) {
							inside = true
						}
						return true
					})
					selThrough = inside
				}
			}
		}
	}
	// no other call site of handleWithMailbox in the package
	dir := filepath.Join(t.Repo, "internal", "session")
	ents, err := os.ReadDir(dir)
	if err != nil {
		return "", err
	}
	otherCalls := 0
	var serveApart, readerApart []string
	loginBad, idleGuard, noForPlainErrors, startTLSNo, startTLSKnown := false, false, false, false, false
	for _, e := range ents {
		n := e.Name()
		if !strings.HasSuffix(n, ".go") || strings.HasSuffix(n, "_test.go") {
			continue
		}
		rel := filepath.Join("internal", "session", n)
		f, err := t.ParseFile(rel)
		if err != nil {
			return "", err
		}
		for _, d := range f.Decls {
			fd, ok := d.(*ast.FuncDecl)
			if !ok || fd.Body == nil {
				continue
			}
			ast.Inspect(fd.Body, func(x ast.Node) bool {
				if isCallTo(x, "handleWithMailbox", t, rel) && fd.Name.Name != "handleSelectedCommand" {
					otherCalls++
				}
				return true
			})
			switch fd.Name.Name {
			case "serve":
				if s := findTypeSwitch(fd.Body); s != nil {
					for _, c := range s.Body.List {
						serveApart = append(serveApart, caseTypes(c.(*ast.CaseClause))...)
					}
				}
			case "startCommandReader":
				if s := findTypeSwitch(fd.Body); s != nil {
					for _, c := range s.Body.List {
						readerApart = append(readerApart, caseTypes(c.(*ast.CaseClause))...)
					}
				}
			case "handleLogin":
				pos := firstPosOf(fd.Body, func(x ast.Node) bool { return isCallTo(x, "s.backend.GetState", t, rel) })
				loginBad = t.guardBefore(rel, fd.Body, pos, "s.state != nil", "response.Bad(tag)")
			case "handleIdle":
				pos := firstPosOf(fd.Body, func(x ast.Node) bool { return isCallTo(x, "s.state.Idle", t, rel) })
				idleGuard = t.guardBefore(rel, fd.Body, pos, "s.state == nil", "ErrNotAuthenticated")
			case "handleStartTLS":
				// without TLS configuration: `return response.No(tag)….Send(s)` answers NO and the reader goes on;
				// returning the response itself as an error makes the reader end the connection without an answer
				for _, st := range fd.Body.List {
					ifs, ok := st.(*ast.IfStmt)
					if !ok || normSrc(t.Src(rel, ifs.Cond)) != "s.tlsConfig == nil" || len(ifs.Body.List) != 1 {
						continue
					}
					if rs, ok := ifs.Body.List[0].(*ast.ReturnStmt); ok && len(rs.Results) == 1 {
						src := normSrc(t.Src(rel, rs.Results[0]))
						if strings.HasPrefix(src, "response.No(tag)") {
							startTLSKnown = true
							startTLSNo = strings.HasSuffix(src, ".Send(s)")
						}
					}
				}
			case "handleOther":
				src := normSrc(t.Src(rel, fd.Body))
				noForPlainErrors = strings.Contains(src, "if res, ok := response.FromError(err); ok { resCh <- res } else { resCh <- response.No(tag).WithError(err) }")
			}
		}
	}
	if !startTLSKnown {
		return "", fmt.Errorf("handleStartTLS: the branch for a missing TLS configuration was not recognised")
	}
	sort.Strings(serveApart)
	sort.Strings(readerApart)

	// state.Selected refuses without snapshot
	const sfile = "internal/state/state.go"
	sf, err := t.ParseFile(sfile)
	if err != nil {
		return "", err
	}
	selRequiresSnap := false
	if fd := FuncDecl(sf, "State", "Selected"); fd != nil && len(fd.Body.List) > 0 {
		if is := FuncDecl(sf, "State", "IsSelected"); is != nil && len(is.Body.List) == 1 {
			if normSrc(t.Src(sfile, is.Body.List[0])) == "return state.snap != nil" {
				if ifs, ok := fd.Body.List[0].(*ast.IfStmt); ok && normSrc(t.Src(sfile, ifs.Cond)) == "!state.IsSelected()" &&
					len(ifs.Body.List) == 1 && normSrc(t.Src(sfile, ifs.Body.List[0])) == "return ErrSessionNotSelected" {
					selRequiresSnap = true
				}
			}
		}
	}

	// backend
	const bfile = "internal/backend/backend.go"
	bf, err := t.ParseFile(bfile)
	if err != nil {
		return "", err
	}
	maxAttempts := int64(-1)
	ast.Inspect(bf, func(n ast.Node) bool {
		if vs, ok := n.(*ast.ValueSpec); ok {
			for i, nm := range vs.Names {
				if nm.Name == "maxLoginAttempts" && i < len(vs.Values) {
					if v, ok := evalConstInt(vs.Values[i], nil); ok {
						maxAttempts = v
					}
				}
			}
		}
		return true
	})
	if maxAttempts < 0 {
		return "", fmt.Errorf("maxLoginAttempts not found")
	}
	gu := FuncDecl(bf, "Backend", "getUserID")
	if gu == nil {
		return "", fmt.Errorf("getUserID not found")
	}
	waitFirst, resetOnSuccess, jailCmp, jailArms, timerResets, lockHeld := false, false, "", false, false, false
	var loopPos token.Pos = 1 << 60
	for _, st := range gu.Body.List {
		if rs, ok := st.(*ast.RangeStmt); ok {
			loopPos = rs.Pos()
			src := normSrc(t.Src(bfile, rs))
			if strings.Contains(src, "user.connector.Authorize(ctx, username, password)") &&
				strings.Contains(src, "atomic.StoreInt32(&b.loginErrorCount, 0) return user.userID, nil") {
				resetOnSuccess = true
			}
		}
	}
	for _, st := range gu.Body.List {
		src := normSrc(t.Src(bfile, st))
		if src == "b.loginWG.Wait()" && st.Pos() < loopPos {
			waitFirst = true
		}
		if src == "b.loginLock.Lock()" && st.Pos() < loopPos {
			lockHeld = true
		}
		if ifs, ok := st.(*ast.IfStmt); ok && st.Pos() > loopPos && ifs.Init != nil {
			init := normSrc(t.Src(bfile, ifs.Init))
			if init == "count := atomic.AddInt32(&b.loginErrorCount, 1)" {
				if be, ok := ifs.Cond.(*ast.BinaryExpr); ok && normSrc(t.Src(bfile, be.X)) == "count" && normSrc(t.Src(bfile, be.Y)) == "maxLoginAttempts" {
					jailCmp = be.Op.String()
				}
				body := normSrc(t.Src(bfile, ifs.Body))
				jailArms = strings.Contains(body, "b.loginWG.Add(1)") && strings.Contains(body, "time.AfterFunc(b.loginJailTime,") &&
					strings.Contains(body, "return \"\", ErrLoginBlocked")
				timerResets = strings.Contains(body, "defer b.loginWG.Done() atomic.StoreInt32(&b.loginErrorCount, 0)")
			}
		}
	}
	stateOfAuthorised := false
	if gs := FuncDecl(bf, "Backend", "GetState"); gs != nil {
		src := normSrc(t.Src(bfile, gs.Body))
		stateOfAuthorised = strings.Contains(src, "userID, err := b.getUserID(ctx, username, password) if err != nil {") &&
			strings.Contains(src, "state, err := b.users[userID].newState()")
	}
	perUser := false
	if au := FuncDecl(bf, "Backend", "AddUser"); au != nil {
		src := normSrc(t.Src(bfile, au.Body))
		perUser = strings.Contains(src, "b.storeBuilder.New(b.getStoreDir(), userID, passphrase)") &&
			strings.Contains(src, "b.database.New(b.getDBDir(), userID)") &&
			strings.Contains(src, "newUser(ctx, userID, database, conn, storeBuilder,") &&
			strings.Contains(src, "b.users[userID] = user")
	}

	// ---- files of a user: db/deferred_delete.go DeleteDB, internal/db_impl/sqlite3/client.go ----
	bytesCoq := func(b string) string {
		p := make([]string, len(b))
		for i := 0; i < len(b); i++ {
			p[i] = fmt.Sprint(int(b[i]))
		}
		return "[" + strings.Join(p, "; ") + "]"
	}
	const ddfile = "db/deferred_delete.go"
	ddf, err := t.ParseFile(ddfile)
	if err != nil {
		return "", err
	}
	ddPattern := false
	var ddSuffixes []string
	if fd := FuncDecl(ddf, "", "DeleteDB"); fd != nil {
		ast.Inspect(fd.Body, func(n ast.Node) bool {
			switch x := n.(type) {
			case *ast.CallExpr:
				src := normSrc(t.Src(ddfile, x.Fun))
				switch src {
				case "filepath.Glob", "filepath.Match", "filepath.Walk", "filepath.WalkDir", "os.ReadDir", "path.Match":
					ddPattern = true
				}
			case *ast.BinaryExpr:
				// userID + "<literal>": a pattern if the literal has a metacharacter
				if id, ok := x.X.(*ast.Ident); ok && id.Name == "userID" && x.Op == token.ADD {
					if bl, ok := x.Y.(*ast.BasicLit); ok && bl.Kind == token.STRING {
						if v, err := strconv.Unquote(bl.Value); err == nil {
							ddSuffixes = append(ddSuffixes, v)
						}
					}
				}
			case *ast.CompositeLit:
				// []string{".db", …} ranged over and appended to userID
				if normSrc(t.Src(ddfile, x.Type)) == "[]string" {
					for _, e := range x.Elts {
						if bl, ok := e.(*ast.BasicLit); ok && bl.Kind == token.STRING {
							if v, err := strconv.Unquote(bl.Value); err == nil {
								ddSuffixes = append(ddSuffixes, v)
							}
						}
					}
				}
			}
			return true
		})
	} else {
		return "", fmt.Errorf("db.DeleteDB not found")
	}
	const sqfile = "internal/db_impl/sqlite3/client.go"
	sqf, err := t.ParseFile(sqfile)
	if err != nil {
		return "", err
	}
	dbSuffix, uriEscape, deleteViaDeleteDB := "", "", false
	if fd := FuncDecl(sqf, "", "getDatabasePath"); fd != nil && len(fd.Body.List) == 1 {
		src := normSrc(t.Src(sqfile, fd.Body.List[0]))
		const pre, post = `return filepath.Join(dir, fmt.Sprintf("%v`, `", userID))`
		if strings.HasPrefix(src, pre) && strings.HasSuffix(src, post) {
			dbSuffix = src[len(pre) : len(src)-len(post)]
		}
	}
	if fd := FuncDecl(sqf, "", "getDatabaseConn"); fd != nil {
		ast.Inspect(fd.Body, func(n ast.Node) bool {
			if as, ok := n.(*ast.AssignStmt); ok && len(as.Lhs) == 1 && len(as.Rhs) == 1 {
				if id, ok := as.Lhs[0].(*ast.Ident); ok && id.Name == "escapedPath" {
					if call, ok := as.Rhs[0].(*ast.CallExpr); ok {
						uriEscape = normSrc(t.Src(sqfile, call.Fun))
					}
				}
			}
			return true
		})
		if !strings.Contains(normSrc(t.Src(sqfile, fd.Body)), `fmt.Sprintf("file:%v?cache=shared&_fk=1&_journal=WAL", escapedPath)`) {
			uriEscape = "?" + uriEscape
		}
	}
	deleteViaDeleteDB = strings.Contains(normSrc(func() string { b, _ := t.ReadFile(sqfile); return b }()), "return db.DeleteDB(dir, userID)")

	// Backend.RemoveUser: close the user; unregister it; only then remove the files (which may fail)
	unregBeforeFiles := false
	if fd := FuncDecl(bf, "Backend", "RemoveUser"); fd != nil {
		var closePos, delPos, filesPos token.Pos
		for _, st := range fd.Body.List {
			src := normSrc(t.Src(bfile, st))
			switch {
			case strings.HasPrefix(src, "if err := user.close(ctx); err != nil {") && strings.Contains(src, "return fmt.Errorf("):
				closePos = st.Pos()
			case src == "delete(b.users, userID)":
				delPos = st.Pos()
			case strings.HasPrefix(src, "if removeFiles {"):
				filesPos = st.Pos()
			}
		}
		unregBeforeFiles = closePos != token.NoPos && delPos != token.NoPos && filesPos != token.NoPos && closePos < delPos && delPos < filesPos
	}

	// every LOGIN attempt reaches the failure counter / the jail wait: no return in GetState before getUserID is
	// called (the lock is the first statement), none in getUserID before loginWG.Wait(), and in handleLogin none between
	// the "already authenticated" guard and the call of GetState
	noReturnBefore := func(file string, fd *ast.FuncDecl, stop func(ast.Stmt) bool) bool {
		if fd == nil {
			return false
		}
		reached := false
		okSoFar := true
		for _, st := range fd.Body.List {
			if stop(st) {
				reached = true
				break
			}
			ast.Inspect(st, func(n ast.Node) bool {
				if _, isFunc := n.(*ast.FuncLit); isFunc {
					return false
				}
				if _, isRet := n.(*ast.ReturnStmt); isRet {
					okSoFar = false
				}
				return true
			})
		}
		return reached && okSoFar
	}
	gsFD := FuncDecl(bf, "Backend", "GetState")
	gsOK := noReturnBefore(bfile, gsFD, func(st ast.Stmt) bool {
		return strings.Contains(normSrc(t.Src(bfile, st)), "b.getUserID(ctx, username, password)")
	}) &&
		gsFD != nil && len(gsFD.Body.List) > 0 && normSrc(t.Src(bfile, gsFD.Body.List[0])) == "b.usersLock.Lock()"
	guOK := noReturnBefore(bfile, gu, func(st ast.Stmt) bool { return normSrc(t.Src(bfile, st)) == "b.loginWG.Wait()" })
	hlOK := false
	{
		const lfile = "internal/session/handle_login.go"
		if lf, err := t.ParseFile(lfile); err == nil {
			if fd := FuncDecl(lf, "Session", "handleLogin"); fd != nil {
				seenGuard, bad, reached := false, false, false
				for _, st := range fd.Body.List {
					src := normSrc(t.Src(lfile, st))
					if strings.Contains(src, "s.backend.GetState(ctx, cmd.UserID, []byte(cmd.Password), s.sessionID)") {
						reached = true
						break
					}
					if ifs, ok := st.(*ast.IfStmt); ok && normSrc(t.Src(lfile, ifs.Cond)) == "s.state != nil" {
						seenGuard = true
						continue
					}
					ast.Inspect(st, func(n ast.Node) bool {
						if _, isRet := n.(*ast.ReturnStmt); isRet {
							bad = true
						}
						return true
					})
				}
				hlOK = seenGuard && reached && !bad
			}
		}
	}

	var sb strings.Builder
	sb.WriteString("From Coq Require Import List String NArith Bool.\nImport ListNotations.\nLocal Open Scope string_scope.\n\n")
	sb.WriteString("Inductive hclass := HAny | HNotAuth | HAuth | HSelected | HOther.\n\n")
	sb.WriteString("(* internal/session/handle.go handleCommand: command type -> class handler *)\n")
	sb.WriteString("Definition dispatch : list (string * hclass) := [\n")
	for i, e := range dispatch {
		sep := ";"
		if i == len(dispatch)-1 {
			sep = ""
		}
		sb.WriteString(fmt.Sprintf("  (%s, %s)%s\n", coqString(e.name), e.class, sep))
	}
	sb.WriteString("].\n")
	sb.WriteString("(* command types with a case in the switch of each class handler (others: \"bad command\") *)\n")
	sb.WriteString("Definition inner_any : list string := " + coqStrList(innerAny) + ".\n")
	sb.WriteString("Definition inner_notauth : list string := " + coqStrList(innerNot) + ".\n")
	sb.WriteString("Definition inner_auth : list string := " + coqStrList(innerAuth) + ".\n")
	sb.WriteString("Definition inner_selected : list string := " + coqStrList(innerSel) + ".\n")
	sb.WriteString("(* handled apart: Session.serve / startCommandReader *)\n")
	sb.WriteString("Definition apart_serve : list string := " + coqStrList(serveApart) + ".\n")
	sb.WriteString("Definition apart_reader : list string := " + coqStrList(readerApart) + ".\n")
	sb.WriteString("(* guards *)\n")
	sb.WriteString("Definition guard_auth_state_nil : bool := " + coqBool(guardAuth) + ".\n")
	sb.WriteString("Definition guard_selected_state_nil : bool := " + coqBool(guardSel) + ".\n")
	sb.WriteString("Definition selected_only_through_state_Selected : bool := " + coqBool(selThrough && otherCalls == 0) + ".\n")
	sb.WriteString("Definition state_Selected_requires_snapshot : bool := " + coqBool(selRequiresSnap) + ".\n")
	sb.WriteString("Definition login_bad_when_authenticated : bool := " + coqBool(loginBad) + ".\n")
	sb.WriteString("Definition idle_guard_state_nil : bool := " + coqBool(idleGuard) + ".\n")
	sb.WriteString("Definition plain_errors_answer_no : bool := " + coqBool(noForPlainErrors) + ".\n")
	sb.WriteString("(* STARTTLS without TLS configuration: true = tagged NO, the connection stays; false = connection ended, no answer *)\n")
	sb.WriteString("Definition starttls_without_tls_answers_no : bool := " + coqBool(startTLSNo) + ".\n")
	sb.WriteString("(* internal/backend/backend.go *)\n")
	sb.WriteString(fmt.Sprintf("Definition max_login_attempts : N := %d.\n", maxAttempts))
	sb.WriteString("Definition login_serialised_and_waits_for_jail_first : bool := " + coqBool(waitFirst && lockHeld) + ".\n")
	sb.WriteString("Definition login_success_resets_counter : bool := " + coqBool(resetOnSuccess) + ".\n")
	sb.WriteString("(* no return before the counter / the jail wait in handleLogin (after the BAD guard), GetState, getUserID *)\n")
	sb.WriteString("Definition login_reaches_counter_on_every_path : bool := " + coqBool(gsOK && guOK && hlOK) + ".\n")
	sb.WriteString("Definition jail_comparison : string := " + coqString(jailCmp) + ".\n")
	sb.WriteString("Definition jail_arms_timer_and_answers_blocked : bool := " + coqBool(jailArms) + ".\n")
	sb.WriteString("Definition jail_timer_resets_counter : bool := " + coqBool(timerResets) + ".\n")
	sb.WriteString("Definition state_created_for_authorised_user : bool := " + coqBool(stateOfAuthorised) + ".\n")
	sb.WriteString("Definition per_user_store_and_database : bool := " + coqBool(perUser) + ".\n")
	sb.WriteString("(* Backend.RemoveUser: user.close, then delete(b.users, userID), then (removeFiles) the removal of the files *)\n")
	sb.WriteString("Definition remove_user_unregisters_before_files : bool := " + coqBool(unregBeforeFiles) + ".\n")
	sb.WriteString("(* the files of a user: db.DeleteDB (RemoveUser with removeFiles) and the SQLite database path / URI *)\n")
	sb.WriteString("Definition delete_db_uses_pattern : bool := " + coqBool(ddPattern) + ".\n")
	sfx := make([]string, len(ddSuffixes))
	for i, v := range ddSuffixes {
		sfx[i] = bytesCoq(v)
	}
	sb.WriteString("Definition delete_db_suffixes : list (list N) := [" + strings.Join(sfx, "; ") + "]%N.   (* " + strings.ReplaceAll(fmt.Sprintf("%q", ddSuffixes), "*)", "* )") + " *)\n")
	sb.WriteString("Definition db_file_suffix : list N := " + bytesCoq(dbSuffix) + "%N.   (* getDatabasePath: dir/<userID>" + dbSuffix + " *)\n")
	sb.WriteString("Definition db_delete_goes_through_DeleteDB : bool := " + coqBool(deleteViaDeleteDB) + ".\n")
	sb.WriteString("Definition db_uri_escape : string := " + coqString(uriEscape) + ".   (* applied to the whole path in file:<path>?cache=… *)\n")
	return sb.String(), nil
}
