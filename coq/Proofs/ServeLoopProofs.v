(* C11 — the reader + serve loop model (Model/ServeLoop.v): never out of fuel, never spins or crashes, ends by closing;
   a complete line without literals is consumed by exactly one iteration, which answers it with exactly one completion
   carrying the line's tag (or the tag of the IDLE it terminates), or closes the session for one of the listed reasons;
   the error counter closes the session at the maxSessionError-th consecutive parser error. *)
From Coq Require Import List NArith Bool Lia String Arith.
From Gluon Require Import Gen.FactsTokens Model.ImapTokens Model.ImapGrammar Model.ServeLoop
  Proofs.ImapTokenFacts Proofs.ImapGrammarWf Proofs.ImapParseTop.
Import ListNotations.
Open Scope N_scope.
Local Notation length := List.length.
Local Notation concat := List.concat.

(* ------------------------------------------------------------------ skipping the rest of a line *)
Lemma drop_through_lf_shorter : forall bs r, drop_through_lf bs = Some r -> (length r < length bs)%nat.
Proof.
  induction bs as [|b t IH]; intros r H; cbn [drop_through_lf] in H; [discriminate|].
  destruct (b =? bLF); [injection H as <-; cbn; lia|]. apply IH in H. cbn. lia.
Qed.
Lemma skip_line_shorter : forall a r, skip_line a = Some r -> (length r < length a)%nat.
Proof.
  intros a r H. unfold skip_line in H. apply drop_through_lf_shorter in H. destruct a; cbn in *; lia.
Qed.
Lemma drop_through_lf_app : forall x more, ~ In 10 x -> drop_through_lf (x ++ 10 :: more) = Some more.
Proof.
  induction x as [|b t IH]; intros more H; cbn [app drop_through_lf].
  - reflexivity.
  - destruct (N.eqb_spec b bLF) as [E|E]; [exfalso; apply H; left; exact E|].
    apply IH. intro Hi. apply H. right. exact Hi.
Qed.
(* an error raised inside the line (current token = a byte of the body or the CR): the skip ends exactly after the LF *)
Lemma skip_line_in_line : forall x more, ~ In 10 x -> skip_line (x ++ 13 :: 10 :: more) = Some more.
Proof.
  intros x more H. unfold skip_line. destruct x as [|b t]; cbn [app tl].
  - reflexivity.
  - change (t ++ 13 :: 10 :: more) with (t ++ [13] ++ 10 :: more). rewrite app_assoc.
    apply drop_through_lf_app. intro Hi. apply in_app_or in Hi. destruct Hi as [Hi|[Hi|[]]]; [|discriminate].
    apply H. right. exact Hi.
Qed.

(* ------------------------------------------------------------------ one iteration: termination and safe endings *)
Section Serve.
  Variable login_ok : bytes -> bytes -> bool.
  Variable tls_available : bool.
  Let step := serve_step login_ok tls_available.

  (* every iteration either ends the session by closing the connection or continues with a strictly shorter stream *)
  Lemma serve_step_shape : forall st bs,
    exists evs, step st bs = (evs, inl EndClosed) \/
                exists st' rest, step st bs = (evs, inr (st', rest)) /\ (length rest < length bs)%nat.
  Proof.
    intros st bs. unfold step, serve_step.
    pose proof (parse_command_consumes (length bs + 1) bs ltac:(lia)) as PC.
    pose proof (parse_command_no_crash (length bs + 1) bs) as NC.
    destruct (parse_command (length bs + 1) bs) as [|t k a|t c rest] eqn:E; [contradiction| |].
    - destruct k.
      + destruct (reader_returns_on_iseof && st_first st && Nat.eqb (length a) (length bs)); [eexists; left; reflexivity|].
        destruct (negb reader_skips_rest_of_line); [eexists; left; reflexivity|].
        destruct (skip_line a) as [r|] eqn:S; [|eexists; left; reflexivity].
        destruct (tls_hello bs r); [eexists; left; reflexivity|].
        destruct (on_parse_error st t) as [evs' [st'|]]; [|eexists; left; reflexivity].
        eexists. right. exists st', r. split; [reflexivity|].
        apply skip_line_shorter in S. destruct PC as (pre & ->). rewrite app_length. lia.
      + eexists; left; reflexivity.
      + exfalso. eapply NC; [lia|reflexivity].
    - destruct PC as [_ PL].
      assert (D : forall c', exists evs,
                (match on_command login_ok st t c' with
                 | (evs0, None) => (evs0, inl EndClosed)
                 | (evs0, Some st') => (evs0, inr (st', rest))
                 end : list event * (ending + sst * bytes)) = (evs, inl EndClosed) \/
                exists st' rest', (match on_command login_ok st t c' with
                 | (evs0, None) => (evs0, inl EndClosed)
                 | (evs0, Some st') => (evs0, inr (st', rest))
                 end : list event * (ending + sst * bytes)) = (evs, inr (st', rest')) /\ (length rest' < length bs)%nat).
      { intro c'. destruct (on_command login_ok st t c') as [evs' [st'|]].
        - eexists. right. exists st', rest. split; [reflexivity|exact PL].
        - eexists. left. reflexivity. }
      destruct c as [k| | | | | | | | | | |]; try apply D.
      destruct k; try apply D.
      destruct tls_available; [eexists; left; reflexivity|].
      destruct starttls_unavailable_sends_no; [|eexists; left; reflexivity].
      eexists. right. eexists _, rest. split; [reflexivity|exact PL].
  Qed.

  (* C11: the model never runs out of fuel, never reports a spinning parser or a crash: every stream ends with the
     server closing the connection *)
  Lemma serve_ends_closed : forall fuel st bs, (length bs < fuel)%nat ->
    snd (serve login_ok tls_available fuel st bs) = EndClosed.
  Proof.
    induction fuel as [|f IH]; intros st bs Hl; [lia|]. cbn [serve]. fold step.
    destruct (serve_step_shape st bs) as (evs & [E|(st' & rest & E & L)]); rewrite E.
    - reflexivity.
    - specialize (IH st' rest ltac:(lia)). destruct (serve login_ok tls_available f st' rest) as [evs' e]. exact IH.
  Qed.
End Serve.

(* ------------------------------------------------------------------ complete lines without literals *)
Definition body_ok (body : bytes) : Prop := ~ In 13 body /\ ~ In 10 body /\ (forall b', body <> b' ++ [125]).

Lemma plain_line_body : forall l, plain_line l <-> exists body, l = body ++ [13; 10] /\ body_ok body.
Proof. intro l. unfold plain_line, body_ok, bCR, bLF, bRC. split; intros (b & H); exists b; tauto. Qed.

Lemma last_cons : forall l (a d : N), last (a :: l) d = last l a.
Proof.
  induction l as [|b t IH]; intros a d; [reflexivity|].
  change (last (a :: b :: t) d) with (last (b :: t) d). rewrite (IH b d), (IH b a). reflexivity.
Qed.

Lemma good_from_body_cr : forall body p y, ~ In 13 body -> ~ In 10 body ->
  good_from p (body ++ 13 :: y) = (last body p =? 125).
Proof.
  induction body as [|a t IH]; intros p y H13 H10; cbn [app good_from].
  - reflexivity.
  - destruct (N.eqb_spec a 13) as [E|E]; [exfalso; apply H13; left; exact E|].
    destruct (N.eqb_spec a 10) as [E'|E']; [exfalso; apply H10; left; exact E'|].
    rewrite IH; [rewrite last_cons; reflexivity| |]; intro Hi; [apply H13|apply H10]; right; exact Hi.
Qed.

Lemma body_last : forall body, (forall b', body <> b' ++ [125]) -> last body 0 <> 125.
Proof.
  intros body H E. destruct body as [|a t]; [discriminate E|].
  apply (H (removelast (a :: t))). rewrite <- E. apply app_removelast_last. discriminate.
Qed.

(* a good prefix of "body CR LF more" never reaches the CR *)
Lemma line_split : forall body more pre a, body_ok body -> good pre = true ->
  pre ++ a = body ++ 13 :: 10 :: more -> exists x, body = pre ++ x /\ a = x ++ 13 :: 10 :: more.
Proof.
  intros body more pre a (H13 & H10 & H125) G E.
  apply app_eq_app in E. destruct E as (l & [[E1 E2]|[E1 E2]]).
  - destruct l as [|c l'].
    + exists []. rewrite app_nil_r in *. cbn in E2. split; [symmetry; exact E1|symmetry; exact E2].
    + exfalso. cbn in E2. injection E2 as <- _. subst pre. unfold good in G.
      rewrite good_from_body_cr in G by assumption. apply N.eqb_eq in G. apply (body_last body H125). exact G.
  - exists l. split; assumption.
Qed.

Lemma line_tag_stops_at_cr : forall body y, line_tag (body ++ 13 :: y) = line_tag body.
Proof.
  induction body as [|a t IH]; intro y; cbn [app line_tag].
  - change (is_tag_char (tok_of_byte 13)) with false. reflexivity.
  - destruct (is_tag_char (tok_of_byte a)); [f_equal; apply IH|reflexivity].
Qed.

(* the tag the completion of a line must carry: the line's tag, none for DONE and for lines without a tag *)
Definition expected_tag (l : bytes) : bytes := if is_done_tag (line_tag l) then [] else line_tag l.

Lemma in_suffix : forall (x pre body : bytes) v, body = pre ++ x -> ~ In v body -> ~ In v x.
Proof. intros x pre body v -> H Hi. apply H. apply in_or_app. right. exact Hi. Qed.

(* Parse on a complete line: it ends inside the line (skipping then stops exactly after the line) or succeeds having
   consumed exactly the line; the tag it reports is the expected one; no error other than a parser error *)
Lemma line_parse : forall body more fuel, body_ok body ->
  let bs := body ++ 13 :: 10 :: more in (length bs < fuel)%nat ->
  (exists a, parse_command fuel bs = PErr (expected_tag bs) EParse a /\ skip_line a = Some more /\
             (length a <= length bs)%nat) \/
  (exists c, parse_command fuel bs = POk (expected_tag bs) c more).
Proof.
  intros body more fuel HB bs Hl. pose proof HB as (H13 & H10 & H125).
  assert (ET : forall t c, body_result bs t c -> t = expected_tag bs).
  { intros t c BR. destruct BR as [Tn D|c0 Tn D]; unfold expected_tag; rewrite D; reflexivity. }
  assert (KT : forall t, etag t = t) by (intro t; unfold etag; destruct session_facts as (_ & _ & -> & _); reflexivity).
  assert (SK : forall (pre : bytes) a k, cons_ok bs a k -> exists x, a = x ++ 13 :: 10 :: more /\ ~ In 10 x /\ ~ In 13 x /\
                                  (length a <= length bs)%nat /\ (k = Some EFatal -> False) /\ (k = Some ECrash -> False)).
  { intros _ a k (pre & E & G & R). symmetry in E. destruct (line_split body more pre a HB G E) as (x & Eb & Ea).
    exists x. split; [exact Ea|]. split; [eapply in_suffix; eassumption|]. split; [eapply in_suffix; eassumption|].
    split; [rewrite <- E, app_length; lia|]. split; intros ->; cbn [err_req] in R; [|exact R].
    apply H10. rewrite Eb. apply in_or_app. left. exact R. }
  destruct (parse_command_outcome fuel bs Hl) as [E T|k a E Tn D C|t c r2 BR C Hc E|t c r3 BR C Hc E|t c rest BR C E].
  - left. exists bs. unfold expected_tag. rewrite T. change (is_done_tag []) with false.
    split; [exact E|]. split; [apply (skip_line_in_line body more H10)|lia].
  - left. destruct (SK [] a (Some k) C) as (x & -> & X10 & _ & L & NF & NC).
    exists (x ++ 13 :: 10 :: more). unfold expected_tag. rewrite D.
    destruct k; [|exfalso; apply NF; reflexivity|exfalso; apply NC; reflexivity].
    split; [exact E|]. split; [apply skip_line_in_line; exact X10|exact L].
  - left. destruct (SK [] r2 None C) as (x & -> & X10 & _ & L & _). rewrite (ET t c BR) in *.
    exists (x ++ 13 :: 10 :: more). rewrite KT in E. split; [exact E|]. split; [apply skip_line_in_line; exact X10|exact L].
  - exfalso. destruct (SK [] (13 :: r3) None C) as (x & Ex & _ & X13 & _).
    destruct x as [|b x']; cbn in Ex.
    + injection Ex as ->. apply Hc. reflexivity.
    + injection Ex as <- _. apply X13. left. reflexivity.
  - right. destruct (SK [] (13 :: 10 :: rest) None C) as (x & Ex & _ & X13 & _).
    destruct x as [|b x']; cbn in Ex.
    + injection Ex as ->. rewrite (ET t c BR) in *. exists c. exact E.
    + exfalso. injection Ex as <- _. apply X13. left. reflexivity.
Qed.

(* ------------------------------------------------------------------ the serve loop on complete lines *)
Definition is_tls_line (l : bytes) : bool := existsb (fun h => is_prefix h l) tls_prefixes.

Lemma tls_hello_line : forall l more, tls_hello (l ++ more) more = is_tls_line l.
Proof.
  intros l more. unfold tls_hello, is_tls_line. rewrite app_length.
  replace (length l + length more - length more)%nat with (length l) by lia.
  rewrite firstn_app, Nat.sub_diag, firstn_all. cbn [firstn]. rewrite app_nil_r. reflexivity.
Qed.

Section Lines.
  Variable login_ok : bytes -> bytes -> bool.
  Variable tls_available : bool.
  Let step := serve_step login_ok tls_available.

  (* how the session may react to one complete line; `next` = None: the connection is closed *)
  Inductive line_reaction (st : sst) (l : bytes) : list event -> option sst -> Prop :=
  | LR_answer s next :            (* exactly one completion, carrying the line's tag *)
      (next = None -> (s = SBad /\ st_idle st = None /\ max_session_error <= st_errs st + 1) \/
                      (s = SOk /\ tls_available = true)) ->
      (forall st', next = Some st' -> st_idle st' = st_idle st) ->
      line_reaction st l [EvDone (expected_tag l) s] next
  | LR_idle_begins st' :          (* an accepted IDLE: "+", its completion comes with the line that ends it *)
      st_idle st = None -> st_auth st = true -> st_idle st' = Some (expected_tag l) ->
      line_reaction st l [EvContinue] (Some st')
  | LR_idle_ends itag s st' :     (* the line after an accepted IDLE completes that IDLE *)
      st_idle st = Some itag -> st_idle st' = None ->
      line_reaction st l [EvDone itag s] (Some st')
  | LR_logout :
      st_idle st = None -> line_reaction st l [EvBye; EvDone (expected_tag l) SOk] None
  | LR_tls_hello :                (* raw TLS handshake on a plain connection: closed without an answer, by design *)
      is_tls_line l = true -> line_reaction st l [] None.

  Definition lift_next (more : bytes) (next : option sst) : ending + sst * bytes :=
    match next with None => inl EndClosed | Some st' => inr (st', more) end.

  Lemma on_command_reaction : forall st l c, c <> CNoArg NStartTLS ->
    exists evs next, on_command login_ok st (expected_tag l) c = (evs, next) /\ line_reaction st l evs next.
  Proof.
    intros st l c Hc. unfold on_command.
    destruct (st_idle st) as [itag|] eqn:I.
    - eexists _, _. split; [reflexivity|]. eapply LR_idle_ends; [exact I|reflexivity].
    - assert (Dflt : forall s st', st_idle st' = None ->
                exists evs next, ([EvDone (expected_tag l) s], Some st') = (evs, next) /\ line_reaction st l evs next).
      { intros s st' Hi. eexists _, _. split; [reflexivity|]. apply LR_answer; [discriminate|].
        intros st'' E. injection E as <-. rewrite I. exact Hi. }
      destruct c as [k| | | | | | | | | | |]; try (apply Dflt; reflexivity).
      destruct k; try (apply Dflt; reflexivity).
      + destruct (st_auth st) eqn:A.
        * eexists _, _. split; [reflexivity|]. apply LR_idle_begins; [exact I|exact A|reflexivity].
        * apply Dflt. reflexivity.
      + eexists _, _. split; [reflexivity|]. apply LR_logout. exact I.
  Qed.

  (* C11: one iteration consumes exactly the line and reacts to it in one of the listed ways *)
  Lemma line_step : forall l more st, plain_line l ->
    exists evs next, step st (l ++ more) = (evs, lift_next more next) /\ line_reaction st l evs next.
  Proof.
    intros l more st PL. apply plain_line_body in PL. destruct PL as (body & -> & HB).
    rewrite <- app_assoc. cbn [app]. unfold bCR, bLF.
    set (bs := body ++ 13 :: 10 :: more).
    assert (TG : expected_tag bs = expected_tag (body ++ [13; 10])).
    { unfold expected_tag, bs. change (body ++ [13; 10]) with (body ++ 13 :: [10]). rewrite !line_tag_stops_at_cr. reflexivity. }
    assert (TL : tls_hello bs more = is_tls_line (body ++ [13; 10])).
    { unfold bs. change (body ++ 13 :: 10 :: more) with (body ++ [13; 10] ++ more). rewrite app_assoc. apply tls_hello_line. }
    destruct session_facts as (F1 & F2 & F3 & F4 & F5 & F6 & F7).
    unfold step, serve_step.
    destruct (line_parse body more (length bs + 1) HB ltac:(fold bs; lia)) as [(a & E & S & L)|(c & E)]; fold bs in E; rewrite E.
    - rewrite F4. cbn [andb]. rewrite F6. cbn [negb]. rewrite S, TL.
      destruct (is_tls_line (body ++ [13; 10])) eqn:T.
      + exists [], None. split; [reflexivity|apply LR_tls_hello; exact T].
      + unfold on_parse_error. rewrite TG. destruct (st_idle st) as [itag|] eqn:I.
        * eexists _, (Some _). split; [reflexivity|]. eapply LR_idle_ends; [exact I|reflexivity].
        * rewrite F2. unfold errors_close. destruct max_session_error_value as [_ ->].
          destruct (N.leb_spec max_session_error (st_errs st + 1)) as [Hm|Hm].
          -- exists [EvDone (expected_tag (body ++ [13; 10])) SBad], None. split; [reflexivity|].
             apply LR_answer; [|discriminate]. intros _. left. split; [reflexivity|]. split; [exact I|exact Hm].
          -- eexists _, (Some _). split; [reflexivity|]. apply LR_answer; [discriminate|].
             intros st' Es. injection Es as <-. rewrite I. reflexivity.
    - rewrite TG.
      assert (Gen : c <> CNoArg NStartTLS ->
                exists evs next,
                  match on_command login_ok st (expected_tag (body ++ [13; 10])) c with
                  | (evs0, None) => (evs0, inl EndClosed)
                  | (evs0, Some st') => (evs0, inr (st', more))
                  end = (evs, lift_next more next) /\ line_reaction st (body ++ [13; 10]) evs next).
      { intro Hc. destruct (on_command_reaction st (body ++ [13; 10]) c Hc) as (evs & next & -> & R).
        exists evs, next. split; [destruct next; reflexivity|exact R]. }
      destruct c as [k| | | | | | | | | | |]; try (apply Gen; discriminate).
      destruct k; try (apply Gen; discriminate).
      (* STARTTLS is answered by the reader goroutine itself, whatever the serve loop is doing *)
      destruct tls_available eqn:TA.
      + exists [EvDone (expected_tag (body ++ [13; 10])) SOk], None. split; [reflexivity|].
        apply LR_answer; [|discriminate]. intros _. right. split; [reflexivity|exact TA].
      + rewrite F7. eexists _, (Some _). split; [reflexivity|]. apply LR_answer; [discriminate|].
        intros st' Es. injection Es as <-. reflexivity.
  Qed.

  (* ---- streams made of complete lines *)
  Inductive run_ok : sst -> list bytes -> list event -> Prop :=
  | RO_nil st : run_ok st [] []                        (* the client has nothing more to say: the server closes *)
  | RO_closed st l ls evs : line_reaction st l evs None -> run_ok st (l :: ls) evs
  | RO_next st l ls evs st' evs' :
      line_reaction st l evs (Some st') -> run_ok st' ls evs' -> run_ok st (l :: ls) (evs ++ evs').

  Lemma plain_line_nonempty : forall l, plain_line l -> (2 <= length l)%nat.
  Proof. intros l (body & -> & _). rewrite app_length. cbn. lia. Qed.

  Lemma serve_empty : forall fuel st, (0 < fuel)%nat -> serve login_ok tls_available fuel st [] = ([], EndClosed).
  Proof.
    intros [|f] st Hf; [lia|]. cbn [serve]. unfold serve_step.
    change (parse_command (length [] + 1) []) with (PErr [] EParse []).
    destruct session_facts as (_ & _ & _ & -> & _ & -> & _). reflexivity.
  Qed.

  Theorem serve_lines : forall ls st fuel, Forall plain_line ls -> (length (concat ls) < fuel)%nat ->
    exists evs, serve login_ok tls_available fuel st (concat ls) = (evs, EndClosed) /\ run_ok st ls evs.
  Proof.
    induction ls as [|l ls IH]; intros st fuel HP Hl.
    - exists []. split; [apply serve_empty; lia|apply RO_nil].
    - inversion HP as [|? ? PL HP']; subst. cbn [concat] in *.
      destruct fuel as [|f]; [lia|]. cbn [serve]. fold step.
      destruct (line_step l (concat ls) st PL) as (evs & next & E & R). rewrite E.
      destruct next as [st'|]; cbn [lift_next].
      + pose proof (plain_line_nonempty l PL) as L2. rewrite app_length in Hl.
        destruct (IH st' f HP' ltac:(lia)) as (evs' & E' & R'). rewrite E'.
        exists (evs ++ evs'). split; [reflexivity|]. eapply RO_next; eassumption.
      + exists evs. split; [reflexivity|]. apply RO_closed. exact R.
  Qed.

  (* exactly one completion per line, with the stated exceptions *)
  Lemma reaction_completions : forall st l evs next, line_reaction st l evs next ->
    (exists t s, completions evs = [EvDone t s] /\
                 (st_idle st = None -> t = expected_tag l) /\
                 (forall itag, st_idle st = Some itag -> t = itag \/ t = expected_tag l)) \/
    (evs = [EvContinue] /\ exists st', next = Some st' /\ st_idle st' = Some (expected_tag l)) \/
    (evs = [] /\ next = None /\ is_tls_line l = true).
  Proof.
    intros st l evs next R. destruct R as [s next Hc Hi|st' I A I'|itag s st' I I'|I|T].
    - left. exists (expected_tag l), s. split; [reflexivity|]. split; [reflexivity|]. intros; right; reflexivity.
    - right. left. split; [reflexivity|]. exists st'. split; [reflexivity|exact I'].
    - left. exists itag, s. split; [reflexivity|]. split; [congruence|]. intros it E. left. congruence.
    - left. exists (expected_tag l), SOk. split; [reflexivity|]. split; [reflexivity|]. intros; right; reflexivity.
    - right. right. split; [reflexivity|]. split; [reflexivity|exact T].
  Qed.

  (* ---- the error counter *)
  Definition malformed (l : bytes) : Prop :=
    forall more fuel, (length (l ++ more) < fuel)%nat -> exists t a, parse_command fuel (l ++ more) = PErr t EParse a.

  Lemma tagless_malformed : forall l, line_tag l = [] -> plain_line l -> malformed l.
  Proof.
    intros l T PL more fuel Hl. apply plain_line_body in PL. destruct PL as (body & -> & HB). unfold bCR, bLF in *.
    assert (T' : line_tag ((body ++ [13; 10]) ++ more) = []).
    { rewrite <- app_assoc. cbn [app]. rewrite line_tag_stops_at_cr. change (body ++ [13; 10]) with (body ++ 13 :: [10]) in T.
      rewrite line_tag_stops_at_cr in T. exact T. }
    destruct (tag_spec ((body ++ [13; 10]) ++ more)) as [[E _]|(r & _ & Tn & _)]; [|congruence].
    exists [], ((body ++ [13; 10]) ++ more). unfold parse_command. rewrite E. reflexivity.
  Qed.

  Lemma malformed_step : forall l more st, plain_line l -> malformed l -> is_tls_line l = false -> st_idle st = None ->
    step st (l ++ more) =
      ([EvDone (expected_tag l) SBad],
       if max_session_error <=? st_errs st + 1 then inl EndClosed
       else inr (mkSt (st_errs st + 1) (st_auth st) None false, more)).
  Proof.
    intros l more st PL M T I. pose proof PL as PL0. apply plain_line_body in PL. destruct PL as (body & -> & HB).
    unfold bCR, bLF in *.
    destruct (M more (length ((body ++ [13%N; 10%N]) ++ more) + 1)%nat ltac:(lia)) as (t0 & a0 & E0).
    assert (TL : tls_hello ((body ++ [13; 10]) ++ more) more = false) by (rewrite tls_hello_line; exact T).
    revert E0 TL. rewrite <- app_assoc. cbn [app]. set (bs := body ++ 13 :: 10 :: more). intros E0 TL.
    assert (TG : expected_tag bs = expected_tag (body ++ [13; 10])).
    { unfold expected_tag, bs. change (body ++ [13; 10]) with (body ++ 13 :: [10]). rewrite !line_tag_stops_at_cr. reflexivity. }
    destruct session_facts as (F1 & F2 & F3 & F4 & F5 & F6 & F7).
    unfold step, serve_step.
    destruct (line_parse body more (length bs + 1) HB ltac:(fold bs; lia)) as [(a & E & S & L)|(c & E)]; fold bs in E;
      [|rewrite E in E0; discriminate].
    rewrite E, F4. cbn [andb]. rewrite F6. cbn [negb]. rewrite S, TL.
    unfold on_parse_error. rewrite I, F2, TG. unfold errors_close. destruct max_session_error_value as [_ ->].
    destruct (max_session_error <=? st_errs st + 1); reflexivity.
  Qed.

  (* C11: the session is closed by exactly the maxSessionError-th consecutive malformed line; whatever follows is not
     read any more; every line before got its BAD *)
  Theorem closes_after_max_errors : forall ls st more fuel,
    Forall (fun l => plain_line l /\ malformed l /\ is_tls_line l = false) ls ->
    st_idle st = None -> st_errs st < max_session_error ->
    N.of_nat (length ls) + st_errs st = max_session_error ->
    (length (concat ls ++ more) < fuel)%nat ->
    serve login_ok tls_available fuel st (concat ls ++ more) =
      (map (fun l => EvDone (expected_tag l) SBad) ls, EndClosed).
  Proof.
    induction ls as [|l ls IH]; intros st more fuel HF I Hlt Hn Hl.
    - cbn [length] in Hn. lia.
    - inversion HF as [|? ? (PL & M & T) HF']; subst. cbn [concat map] in *.
      destruct fuel as [|f]; [lia|]. cbn [serve]. fold step. rewrite <- app_assoc.
      rewrite (malformed_step l (concat ls ++ more) st PL M T I).
      destruct (N.leb_spec max_session_error (st_errs st + 1)) as [Hm|Hm].
      + assert (ls = []) as -> by (destruct ls; [reflexivity|cbn [length] in Hn; lia]). reflexivity.
      + pose proof (plain_line_nonempty l PL) as L2. rewrite <- app_assoc, app_length in Hl.
        rewrite (IH (mkSt (st_errs st + 1) (st_auth st) None false) more f HF'); cbn [st_idle st_errs]; try reflexivity; try lia.
        cbn [length] in Hn. lia.
  Qed.

  (* fewer errors: the session stays open and counts; a well-formed command resets the counter *)
  Lemma on_command_resets : forall st t c evs st', st_idle st = None ->
    on_command login_ok st t c = (evs, Some st') -> st_errs st' = 0.
  Proof.
    intros st t c evs st' I H. unfold on_command in H. rewrite I in H.
    destruct session_facts as (F1 & _). rewrite F1 in H.
    destruct c as [k| | | | | | | | | | |]; try (injection H as _ <-; reflexivity).
    destruct k; try (injection H as _ <-; reflexivity).
    - destruct (st_auth st); injection H as _ <-; reflexivity.
    - discriminate.
  Qed.
End Lines.
