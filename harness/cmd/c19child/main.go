// Command c19child runs ONE stress scenario for C19 in-process with a gluon server; it is built with -race by the
// c19 harness. It reports hangs (watchdog expiry on a client call, on RemoveUser or on Close), use of the database or the
// store after they were closed, and goroutines left behind after Close, as JSON on <out>/child.json. Data races are
// reported by the race detector itself into <out>/race.* (GORACE log_path), which the parent reads.
//
// This is a SEARCH, not a proof: a clean run shows nothing beyond that run.
package main

import (
	"context"
	"encoding/json"
	"flag"
	"fmt"
	"io"
	"math/rand"
	"net"
	"os"
	"path/filepath"
	"regexp"
	"runtime"
	"sort"
	"strings"
	"sync"
	"sync/atomic"
	"time"

	"github.com/ProtonMail/gluon"
	"github.com/ProtonMail/gluon/async"
	"github.com/ProtonMail/gluon/db"
	"github.com/ProtonMail/gluon/imap"
	"github.com/ProtonMail/gluon/store"
	"github.com/sirupsen/logrus"

	"verifharness/common"
	"verifharness/hconn"
	"verifharness/imapc"
	"verifharness/srv"
)

type failure struct {
	Kind      string `json:"kind"`
	Canonical string `json:"canonical"`
	Detail    string `json:"detail"`
}

type userTrace struct {
	User              string `json:"user"`
	DbOps             int64  `json:"db_ops"`
	DbOpsAfterClose   int64  `json:"db_ops_after_close"`
	DbInflightAtClose int64  `json:"db_inflight_when_close_returned"`
	DbClosed          bool   `json:"db_closed"`
	StoreOps          int64  `json:"store_ops"`
	StoreOpsAfter     int64  `json:"store_ops_after_close"`
	StoreClosed       bool   `json:"store_closed"`
	StoreBeforeDb     bool   `json:"store_closed_before_db"`
	CloserReturned    bool   `json:"closer_returned"`
	ClosedBeforeRet   bool   `json:"db_closed_before_closer_returned"`
}

type report struct {
	Scenario map[string]interface{} `json:"scenario"`
	Failures []failure              `json:"failures"`
	Stats    map[string]int         `json:"stats"`
	Traces   []userTrace            `json:"traces"`
	Notes    []string               `json:"notes"`
	Complete bool                   `json:"complete"`
}

var (
	repMu sync.Mutex
	rep   = report{Stats: map[string]int{}, Scenario: map[string]interface{}{}}
	out   string
)

func fail(kind, canon, detail string) {
	repMu.Lock()
	defer repMu.Unlock()
	for _, f := range rep.Failures {
		if f.Canonical == canon {
			return
		}
	}
	rep.Failures = append(rep.Failures, failure{kind, canon, detail})
	if (kind == "hang" || kind == "deadlock") && !exiting {
		// the server is wedged: everything that follows would only wait for more watchdogs; leave a few seconds for
		// other reports to come in, then write the report and stop
		exiting = true
		go func() {
			time.Sleep(8 * time.Second)
			writeReport()
			os.Exit(0)
		}()
	}
}

var exiting bool

func stat(k string) {
	repMu.Lock()
	rep.Stats[k]++
	repMu.Unlock()
}

func note(format string, a ...interface{}) {
	repMu.Lock()
	if len(rep.Notes) < 40 {
		rep.Notes = append(rep.Notes, fmt.Sprintf(format, a...))
	}
	repMu.Unlock()
}

func writeReport() {
	repMu.Lock()
	defer repMu.Unlock()
	if rep.Failures == nil {
		rep.Failures = []failure{}
	}
	b, _ := json.MarshalIndent(rep, "", " ")
	_ = os.WriteFile(filepath.Join(out, "child.json"), b, 0o644)
}

// ---------- traced database / store (what happens after Close?) ----------

type tdbIface struct {
	inner db.ClientInterface
	mu    sync.Mutex
	byUsr map[string]*tdb
}

type tdb struct {
	inner    db.Client
	user     string
	ops      int64
	inflight int64
	after    int64
	atClose  int64
	closed   int32
	closedAt int64 // sequence number
}

var seq int64

func (t *tdbIface) New(path, userID string) (db.Client, bool, error) {
	c, isNew, err := t.inner.New(path, userID)
	if err != nil {
		return nil, isNew, err
	}
	w := &tdb{inner: c, user: userID}
	t.mu.Lock()
	t.byUsr[userID] = w
	t.mu.Unlock()
	return w, isNew, nil
}
func (t *tdbIface) Delete(path, userID string) error { return t.inner.Delete(path, userID) }

func (t *tdb) begin(what string) {
	atomic.AddInt64(&t.ops, 1)
	atomic.AddInt64(&t.inflight, 1)
	if atomic.LoadInt32(&t.closed) == 1 {
		atomic.AddInt64(&t.after, 1)
		fail("use-after-close", "database "+what+" after the user's database was closed", "user "+t.user+"\n"+gluonStacks(true))
	}
}
func (t *tdb) end() { atomic.AddInt64(&t.inflight, -1) }
func (t *tdb) Init(ctx context.Context, g imap.UIDValidityGenerator) error {
	return t.inner.Init(ctx, g)
}
func (t *tdb) Read(ctx context.Context, op func(context.Context, db.ReadOnly) error) error {
	t.begin("Read")
	defer t.end()
	return t.inner.Read(ctx, op)
}
func (t *tdb) Write(ctx context.Context, op func(context.Context, db.Transaction) error) error {
	t.begin("Write")
	defer t.end()
	return t.inner.Write(ctx, op)
}
func (t *tdb) Close() error {
	err := t.inner.Close()
	atomic.StoreInt64(&t.atClose, atomic.LoadInt64(&t.inflight))
	atomic.StoreInt64(&t.closedAt, atomic.AddInt64(&seq, 1))
	atomic.StoreInt32(&t.closed, 1)
	return err
}

type tstoreBuilder struct {
	inner store.Builder
	mu    sync.Mutex
	byUsr map[string]*tstore
}
type tstore struct {
	inner    store.Store
	user     string
	ops      int64
	after    int64
	closed   int32
	closedAt int64
}

func (b *tstoreBuilder) New(dir, userID string, pass []byte) (store.Store, error) {
	s, err := b.inner.New(dir, userID, pass)
	if err != nil {
		return nil, err
	}
	w := &tstore{inner: s, user: userID}
	b.mu.Lock()
	b.byUsr[userID] = w
	b.mu.Unlock()
	return w, nil
}
func (b *tstoreBuilder) Delete(dir, userID string) error { return b.inner.Delete(dir, userID) }
func (s *tstore) op(what string) {
	atomic.AddInt64(&s.ops, 1)
	if atomic.LoadInt32(&s.closed) == 1 {
		atomic.AddInt64(&s.after, 1)
		fail("use-after-close", "store "+what+" after the user's store was closed", "user "+s.user+"\n"+gluonStacks(true))
	}
}
func (s *tstore) Get(id imap.InternalMessageID) ([]byte, error) { s.op("Get"); return s.inner.Get(id) }
func (s *tstore) Set(id imap.InternalMessageID, r io.Reader) error {
	s.op("Set")
	return s.inner.Set(id, r)
}
func (s *tstore) Delete(ids ...imap.InternalMessageID) error {
	s.op("Delete")
	return s.inner.Delete(ids...)
}
func (s *tstore) List() ([]imap.InternalMessageID, error) { s.op("List"); return s.inner.List() }
func (s *tstore) Close() error {
	err := s.inner.Close()
	atomic.StoreInt64(&s.closedAt, atomic.AddInt64(&seq, 1))
	atomic.StoreInt32(&s.closed, 1)
	return err
}

// ---------- goroutine dumps ----------

var reGoroutine = regexp.MustCompile(`(?m)^goroutine \d+ \[`)

// gluonStacks returns the stacks of goroutines that contain a gluon frame (not counting the harness' own packages).
func gluonStacks(all bool) string {
	buf := make([]byte, 1<<22)
	n := runtime.Stack(buf, true)
	var keep []string
	for _, g := range strings.Split(string(buf[:n]), "\n\n") {
		if strings.Contains(g, "github.com/ProtonMail/gluon") {
			keep = append(keep, g)
		}
	}
	return strings.Join(keep, "\n\n")
}

var reFrame = regexp.MustCompile(`(?m)^(github\.com/ProtonMail/gluon[^\s(]*(?:\([^)]*\))?[^\s(]*)\(`)

// leftover returns, for every goroutine with a gluon frame, the innermost gluon function.
func leftover() []string {
	buf := make([]byte, 1<<22)
	n := runtime.Stack(buf, true)
	var res []string
	for _, g := range strings.Split(string(buf[:n]), "\n\n") {
		if !strings.Contains(g, "github.com/ProtonMail/gluon") {
			continue
		}
		m := reFrame.FindStringSubmatch(g)
		fn := "?"
		if m != nil {
			fn = m[1]
		}
		// the frame that created the goroutine
		created := ""
		if i := strings.LastIndex(g, "created by "); i >= 0 {
			created = strings.Fields(g[i+len("created by "):])[0]
		}
		res = append(res, fn+" (created by "+created+")\n"+g)
	}
	return res
}

// ---------- watchdog ----------

const watchdog = 60 * time.Second

func withWatchdog(what string, f func() error) (error, bool) {
	done := make(chan error, 1)
	go func() { done <- f() }()
	select {
	case err := <-done:
		return err, true
	case <-time.After(watchdog):
		fail("deadlock", what+" did not return within 60 s", gluonStacks(true))
		return nil, false
	}
}

// ---------- scenario ----------

type world struct {
	s        *srv.Server
	rngSeed  int64
	tearing  int32 // set when teardown has begun
	closing  int32 // set just before Close is called
	closed   int32 // set when Close has returned
	removedB int32
	stop     chan struct{}
	wg       sync.WaitGroup
	boxes    []string
}

func isTimeout(err error) bool {
	if err == nil {
		return false
	}
	ne, ok := err.(net.Error)
	return ok && ne.Timeout()
}

type sess struct {
	w     *world
	id    int
	rng   *rand.Rand
	user  string
	c     *imapc.Client
	state string // greeted authenticated selected
	box   string
	own   int
}

// cmd sends a command; returns false when the connection is gone. A deadline expiry is a hang.
func (x *sess) cmd(line string) (imapc.Result, bool) {
	r, err := x.c.Cmd(line)
	if err != nil {
		if isTimeout(err) {
			fail("hang", fmt.Sprintf("no completion within 60 s for %s in state %s", strings.Fields(line)[0], x.state),
				fmt.Sprintf("session %d user %s command %q teardown=%d closed=%d\n%s", x.id, x.user, line, atomic.LoadInt32(&x.w.tearing), atomic.LoadInt32(&x.w.closed), gluonStacks(true)))
		}
		return r, false
	}
	stat("cmd:" + strings.Fields(line)[0])
	return r, true
}

func msgLiteral(rng *rand.Rand, tag string) []byte {
	return common.Message(fmt.Sprintf("%s-%d", tag, rng.Intn(1000000)), strings.Repeat("x", rng.Intn(200)))
}

func (x *sess) appendMsg(box string) bool {
	lit := msgLiteral(x.rng, "w")
	r, err := x.c.Append(box, "", lit)
	if err != nil {
		if isTimeout(err) {
			fail("hang", "no completion within 60 s for APPEND in state "+x.state, gluonStacks(true))
		}
		return false
	}
	_ = r
	stat("cmd:APPEND")
	return true
}

// idle enters IDLE, stays for a short while, then leaves with DONE or just closes the connection.
func (x *sess) idle() bool {
	tag := x.c.NextTag()
	if err := x.c.SendRaw([]byte(tag + " IDLE\r\n")); err != nil {
		return false
	}
	// wait for the continuation (or a tagged refusal)
	for {
		l, err := x.c.ReadLine(watchdog)
		if err != nil {
			if isTimeout(err) {
				fail("hang", "no continuation within 60 s for IDLE in state "+x.state, gluonStacks(true))
			}
			return false
		}
		if strings.HasPrefix(l.Text, "+") {
			break
		}
		if strings.HasPrefix(l.Text, tag+" ") {
			return true
		}
	}
	stat("cmd:IDLE")
	// read whatever arrives for a short time
	deadline := time.Now().Add(time.Duration(5+x.rng.Intn(60)) * time.Millisecond)
	for time.Now().Before(deadline) {
		if _, err := x.c.ReadLine(time.Until(deadline) + time.Millisecond); err != nil {
			if !isTimeout(err) {
				return false
			}
			break
		}
	}
	if x.rng.Intn(4) == 0 {
		stat("end:close-in-idle")
		x.c.Close()
		return false
	}
	if err := x.c.SendRaw([]byte("DONE\r\n")); err != nil {
		return false
	}
	if _, err := x.c.ReadUntilTag(tag); err != nil {
		if isTimeout(err) {
			fail("hang", "no completion within 60 s for DONE (IDLE) in state "+x.state, gluonStacks(true))
		}
		return false
	}
	return true
}

func (x *sess) run() {
	w := x.w
	// Once Close has been called a connection may be accepted and never served (the listener belongs to the caller and is
	// still open): that is reported as a leak by the goroutine check, here the client just does not wait long.
	tearing := atomic.LoadInt32(&w.closing) == 1
	greet := watchdog
	if tearing {
		greet = 300 * time.Millisecond
	}
	c, err := imapc.DialTimeout(w.s.Addr, greet)
	if err != nil {
		if isTimeout(err) && !tearing && atomic.LoadInt32(&w.closing) == 0 {
			fail("hang", "no greeting within 60 s", gluonStacks(true))
		}
		time.Sleep(2 * time.Millisecond)
		return
	}
	x.c = c
	x.state = "greeted"
	defer c.Close()
	rng := x.rng
	if rng.Intn(20) == 0 {
		stat("end:close-after-greeting")
		return
	}
	if rng.Intn(25) == 0 { // partial command line, then gone
		c.SendRaw([]byte("a1 LOG"))
		stat("end:close-mid-command")
		return
	}
	pass := "pass"
	if rng.Intn(15) == 0 {
		pass = "wrong"
	}
	r, ok := x.cmd("LOGIN " + x.user + " " + pass)
	if !ok {
		return
	}
	if r.Status != "OK" {
		return
	}
	x.state = "authenticated"
	nops := 3 + rng.Intn(25)
	for i := 0; i < nops; i++ {
		select {
		case <-w.stop:
			return
		default:
		}
		box := w.boxes[rng.Intn(len(w.boxes))]
		switch k := rng.Intn(100); {
		case k < 14:
			if r, ok = x.cmd("SELECT " + box); !ok {
				return
			}
			if r.Status == "OK" {
				x.state, x.box = "selected", box
			}
		case k < 18:
			if r, ok = x.cmd("EXAMINE " + box); !ok {
				return
			}
			if r.Status == "OK" {
				x.state, x.box = "selected", box
			}
		case k < 30:
			if !x.appendMsg(box) {
				return
			}
		case k < 36:
			if _, ok = x.cmd("STATUS " + box + " (MESSAGES UNSEEN UIDNEXT)"); !ok {
				return
			}
		case k < 40:
			if _, ok = x.cmd(`LIST "" *`); !ok {
				return
			}
		case k < 44:
			if _, ok = x.cmd("NOOP"); !ok {
				return
			}
		case k < 48:
			name := fmt.Sprintf("own%d-%d", x.id, x.own)
			x.own++
			if _, ok = x.cmd("CREATE " + name); !ok {
				return
			}
			if rng.Intn(2) == 0 {
				if _, ok = x.cmd("RENAME " + name + " " + name + "r"); !ok {
					return
				}
				name += "r"
			}
			if rng.Intn(2) == 0 {
				if _, ok = x.cmd("DELETE " + name); !ok {
					return
				}
			}
		case k < 52:
			if !x.idle() {
				return
			}
		case k < 54 && x.state == "selected":
			if _, ok = x.cmd([]string{"UNSELECT", "CLOSE"}[rng.Intn(2)]); !ok {
				return
			}
			x.state = "authenticated"
		default:
			if x.state != "selected" {
				if r, ok = x.cmd("SELECT " + box); !ok {
					return
				}
				if r.Status == "OK" {
					x.state, x.box = "selected", box
				}
				continue
			}
			var line string
			switch rng.Intn(9) {
			case 0:
				line = "FETCH 1:* (UID FLAGS)"
			case 1:
				line = "FETCH 1:3 (BODY.PEEK[HEADER] RFC822.SIZE)"
			case 2:
				line = fmt.Sprintf("STORE 1:%d +FLAGS (\\Seen kw%d)", 1+rng.Intn(4), rng.Intn(3))
			case 3:
				line = fmt.Sprintf("STORE %d +FLAGS (\\Deleted)", 1+rng.Intn(5))
			case 4:
				line = "EXPUNGE"
			case 5:
				line = "SEARCH OR SEEN SUBJECT w"
			case 6:
				line = fmt.Sprintf("COPY %d %s", 1+rng.Intn(4), w.boxes[rng.Intn(len(w.boxes))])
			case 7:
				line = fmt.Sprintf("MOVE %d %s", 1+rng.Intn(4), w.boxes[rng.Intn(len(w.boxes))])
			default:
				line = "UID SEARCH ALL"
			}
			if _, ok = x.cmd(line); !ok {
				return
			}
		}
	}
	// how the session ends
	switch rng.Intn(6) {
	case 0:
		stat("end:logout")
		x.cmd("LOGOUT")
	case 1: // in the middle of a literal
		tag := c.NextTag()
		if c.SendRaw([]byte(fmt.Sprintf("%s APPEND %s {300}\r\n", tag, w.boxes[0]))) == nil {
			if l, err := c.ReadLine(watchdog); err == nil && strings.HasPrefix(l.Text, "+") {
				c.SendRaw([]byte("Date: Mon, 01 Jan 2024 10:00:00 +0000\r\nFrom: a@"))
				stat("end:close-mid-literal")
			} else if isTimeout(err) {
				fail("hang", "no continuation within 60 s for APPEND literal", gluonStacks(true))
			}
		}
	case 2:
		c.SendRaw([]byte("zz FETCH 1:* (FLA"))
		stat("end:close-mid-command")
	case 3:
		if x.idle() {
			stat("end:close")
		}
	default:
		stat("end:close-" + x.state)
	}
}

func worker(w *world, id int, user string, seed int64) {
	defer w.wg.Done()
	rng := rand.New(rand.NewSource(seed))
	for n := 0; ; n++ {
		select {
		case <-w.stop:
			return
		default:
		}
		x := &sess{w: w, id: id, rng: rng, user: user}
		x.run()
		stat("sessions")
	}
}

// pusher feeds connector updates for the first user until told to stop.
func pusher(w *world, conn *hconn.Conn, seed int64, mboxIDs []imap.MailboxID) {
	defer w.wg.Done()
	rng := rand.New(rand.NewSource(seed))
	var msgIDs []imap.MessageID
	n := 0
	for {
		select {
		case <-w.stop:
			return
		default:
		}
		n++
		var up imap.Update
		switch k := rng.Intn(10); {
		case k < 4 || len(msgIDs) == 0:
			lit := msgLiteral(rng, "p")
			pm, err := imap.NewParsedMessage(lit)
			if err != nil {
				continue
			}
			id := conn.PutMessage(lit, nil)
			up = imap.NewMessagesCreated(true, &imap.MessageCreated{
				Message: imap.Message{ID: id, Flags: imap.NewFlagSet(), Date: time.Now().UTC()}, Literal: lit,
				MailboxIDs: []imap.MailboxID{mboxIDs[rng.Intn(len(mboxIDs))]}, ParsedMessage: pm})
			msgIDs = append(msgIDs, id)
		case k < 6:
			up = imap.NewMessageFlagsUpdated(msgIDs[rng.Intn(len(msgIDs))], imap.NewFlagSet(imap.FlagSeen))
		case k < 7:
			up = imap.NewMessageMailboxesUpdated(msgIDs[rng.Intn(len(msgIDs))], []imap.MailboxID{mboxIDs[rng.Intn(len(mboxIDs))]}, imap.NewFlagSet(imap.FlagFlagged))
		case k < 8:
			i := rng.Intn(len(msgIDs))
			up = imap.NewMessagesDeleted(msgIDs[i])
			msgIDs = append(msgIDs[:i], msgIDs[i+1:]...)
		case k < 9:
			// an internal id that exists (the store's files are named after them), else a fresh one
			iid := imap.NewInternalMessageID()
			if ents, err := os.ReadDir(filepath.Join(w.s.Dir, "store", "user-0")); err == nil && len(ents) > 0 {
				if x, err := imap.InternalMessageIDFromString(ents[rng.Intn(len(ents))].Name()); err == nil {
					iid = x
				}
			}
			up = imap.NewMessageIDChanged(iid, imap.MessageID(fmt.Sprintf("renamed-%d", n)))
		default:
			up = imap.NewNoop()
		}
		stat("push")
		if !pushOrStop(conn, up, w.stop) {
			return
		}
		if rng.Intn(3) == 0 {
			time.Sleep(time.Duration(rng.Intn(3)) * time.Millisecond)
		}
	}
}

// pushOrStop hands one update to the connector's channel; gives up when told to stop. The connector closes its channel
// when gluon closes it: a send that loses that race panics inside the helper goroutine and is recovered there.
func pushOrStop(conn *hconn.Conn, up imap.Update, stop <-chan struct{}) bool {
	done := make(chan bool, 1)
	go func() {
		defer func() {
			if recover() != nil {
				done <- false
			}
		}()
		conn.PushAsync(up)
		done <- true
	}()
	select {
	case ok := <-done:
		return ok
	case <-stop:
		return false
	}
}

// ---------- async.QueuedChannel: many queues closed while their readers and producers are busy ----------

var spinSink int64

func spin(n int) {
	for i := 0; i < n; i++ {
		atomic.AddInt64(&spinSink, 1)
	}
}

// queueStress creates n queues (the per-state update queues, the server's error channel and the watchers are such
// queues). Each has a reader that answers every item with another Enqueue (a session reading its updates while more
// arrive); after a few microseconds the queue is closed (Close or CloseAndDiscardQueued) as a session teardown does. The
// consumer goroutine of every queue has to end (QueuedChannel.Wait returns): one that sleeps in sync.Cond.Wait inside
// pop after the close has lost its wake-up.
func queueStress(n int, seed int64) {
	const workers = 4
	const batch = 1000
	var wg sync.WaitGroup
	var stuck, total int64
	var detailOnce sync.Once
	for w := 0; w < workers; w++ {
		wg.Add(1)
		go func(w int) {
			defer wg.Done()
			rng := rand.New(rand.NewSource(seed*31 + int64(w)))
			for done := 0; done < n/workers && atomic.LoadInt64(&stuck) == 0; done += batch {
				ended := make([]chan struct{}, 0, batch)
				for i := 0; i < batch; i++ {
					q := async.NewQueuedChannel[int](32, 128, async.NoopPanicHandler{}, "c19-queue-stress")
					go func() {
						for range q.GetChannel() {
							q.Enqueue(1)
						}
					}()
					q.Enqueue(1)
					spin(100 + rng.Intn(1500))
					if rng.Intn(4) == 0 {
						q.Close()
					} else {
						q.CloseAndDiscardQueued()
					}
					d := make(chan struct{})
					go func() { q.Wait(); close(d) }()
					ended = append(ended, d)
				}
				atomic.AddInt64(&total, batch)
				timeout := time.After(10 * time.Second)
			wait:
				for i, d := range ended {
					select {
					case <-d:
					case <-timeout:
						for _, d := range ended[i:] {
							select {
							case <-d:
							default:
								atomic.AddInt64(&stuck, 1)
							}
						}
						break wait
					}
				}
			}
		}(w)
	}
	wg.Wait()
	repMu.Lock()
	rep.Stats["queues-closed"] += int(atomic.LoadInt64(&total))
	repMu.Unlock()
	if k := atomic.LoadInt64(&stuck); k > 0 {
		detailOnce.Do(func() {
			where := "?"
			for _, l := range leftover() {
				if strings.Contains(l, "QueuedChannel") && strings.Contains(l, ").pop") {
					where = strings.SplitN(l, "\n", 2)[0]
					fail("leak", "the consumer goroutine of a QueuedChannel did not end within 10 s after Close (racing with Enqueue): "+where,
						fmt.Sprintf("%d of %d queues\n%s", k, atomic.LoadInt64(&total), l))
					return
				}
			}
			fail("leak", "the consumer goroutine of a QueuedChannel did not end within 10 s after Close (racing with Enqueue)", fmt.Sprintf("%d of %d queues", k, atomic.LoadInt64(&total)))
		})
	}
}

// ---------- the message store: a file whose content is damaged UNDER the encryption ----------

// storeDamage writes a message through the store, replaces the file by one whose decrypted content is not an LZ4 frame
// (valid header, nonce and authentication tag) and reads it: Get has to fail, and the goroutine that decrypts for it has
// to end (it is found by the goroutine check at the very end otherwise).
func storeDamage(dir string) {
	pass := []byte("c19-store-pass")
	st, err := store.NewOnDiskStore(filepath.Join(dir, "c19store"), pass)
	if err != nil {
		note("store phase skipped: %v", err)
		return
	}
	id := imap.NewInternalMessageID()
	if err := st.Set(id, strings.NewReader(strings.Repeat("some message text\r\n", 4000))); err != nil {
		note("store phase skipped: %v", err)
		return
	}
	path := filepath.Join(dir, "c19store", id.String())
	raw, err := os.ReadFile(path)
	gcm, err2 := store.NewCipher(pass)
	const hdr = len("GLUON-CACHE") + 4
	if err != nil || err2 != nil || len(raw) < hdr+12+32 {
		note("store phase skipped: %v %v", err, err2)
		return
	}
	nonce := raw[hdr : hdr+gcm.NonceSize()]
	plain, err := gcm.Open(nil, nonce, raw[hdr+gcm.NonceSize():], nil)
	if err != nil {
		note("store phase skipped (file has more than one block?): %v", err)
		return
	}
	copy(plain[:4], []byte{0xde, 0xad, 0xbe, 0xef}) // no LZ4 frame starts like this
	damaged := append(append(append([]byte{}, raw[:hdr]...), nonce...), gcm.Seal(nil, nonce, plain, nil)...)
	if err := os.WriteFile(path, damaged, 0o600); err != nil {
		note("store phase skipped: %v", err)
		return
	}
	b, gerr := st.Get(id)
	if gerr == nil {
		fail("store", "store Get of a file whose decrypted content is not an LZ4 frame returned no error", fmt.Sprintf("%d bytes", len(b)))
	}
	stat("store-damaged-get")
	_ = st.Close()
}

// ---------- a session that keeps deleted messages in its view, one that keeps examining, some that come and go ----------

// holder selects mb1 and never looks at the connection again: the messages the connector deletes afterwards stay in its
// view, so they stay in the user's pool of messages marked for deletion and every ending session (user.removeState) asks
// every other state whether it still holds them (State.HasMessage).
func holder(w *world) *parked {
	p, err := park(w, "user", "authenticated")
	if err != nil {
		note("holder: %v", err)
		return nil
	}
	if r, err := p.c.Cmd("SELECT mb1"); err != nil || r.Status != "OK" {
		note("holder: select: %v %s", err, r.Text)
	}
	p.state = "selected"
	return p
}

// examiner: EXAMINE / SELECT of changing mailboxes, as fast as it goes (every one replaces the session's snapshot)
func examiner(w *world, seed int64) {
	defer w.wg.Done()
	rng := rand.New(rand.NewSource(seed))
	for {
		x := &sess{w: w, id: 900, rng: rng, user: "user"}
		c, err := imapc.DialTimeout(w.s.Addr, 2*time.Second)
		if err != nil {
			select {
			case <-w.stop:
				return
			default:
				time.Sleep(5 * time.Millisecond)
				continue
			}
		}
		x.c, x.state = c, "greeted"
		if r, ok := x.cmd("LOGIN user pass"); ok && r.Status == "OK" {
			x.state = "authenticated"
			for i := 0; i < 400; i++ {
				select {
				case <-w.stop:
					c.Close()
					return
				default:
				}
				verb := "EXAMINE"
				if rng.Intn(4) == 0 {
					verb = "SELECT"
				}
				if _, ok := x.cmd(verb + " " + w.boxes[rng.Intn(len(w.boxes))]); !ok {
					break
				}
			}
		}
		c.Close()
		select {
		case <-w.stop:
			return
		default:
		}
	}
}

// flapper: log in, log out (or just hang up), again and again: every end runs user.removeState
func flapper(w *world, seed int64) {
	defer w.wg.Done()
	rng := rand.New(rand.NewSource(seed))
	for {
		select {
		case <-w.stop:
			return
		default:
		}
		c, err := imapc.DialTimeout(w.s.Addr, 2*time.Second)
		if err != nil {
			time.Sleep(5 * time.Millisecond)
			continue
		}
		x := &sess{w: w, id: 901, rng: rng, user: "user", c: c, state: "greeted"}
		if r, ok := x.cmd("LOGIN user pass"); ok && r.Status == "OK" {
			x.state = "authenticated"
			if rng.Intn(2) == 0 {
				x.cmd("LOGOUT")
			}
		}
		c.Close()
		stat("flaps")
	}
}

// ---------- IDLE on a mailbox that changes in bulk, dropped without DONE ----------

const idleBox = "idlebox"

// bulkChanger keeps changing a flag on every message of idlebox: each STORE becomes, for every idling session, one update
// that is written out as one FETCH response per message.
func bulkChanger(w *world, seed int64) {
	defer w.wg.Done()
	for {
		select {
		case <-w.stop:
			return
		default:
		}
		c, err := imapc.DialTimeout(w.s.Addr, 2*time.Second)
		if err != nil {
			time.Sleep(5 * time.Millisecond)
			continue
		}
		x := &sess{w: w, id: 902, rng: rand.New(rand.NewSource(seed)), user: "user", c: c, state: "greeted"}
		if r, ok := x.cmd("LOGIN user pass"); ok && r.Status == "OK" {
			x.state = "authenticated"
			if r, ok := x.cmd("SELECT " + idleBox); ok && r.Status == "OK" {
				x.state = "selected"
				for i := 0; ; i++ {
					select {
					case <-w.stop:
						c.Close()
						return
					default:
					}
					op := "+FLAGS.SILENT"
					if i%2 == 1 {
						op = "-FLAGS.SILENT"
					}
					if _, ok := x.cmd("STORE 1:* " + op + " (bulk)"); !ok {
						break
					}
					stat("bulk-stores")
				}
			}
		}
		c.Close()
	}
}

// idleDropper: SELECT idlebox, IDLE, wait until the first FETCH of a bulk change arrives, then drop the connection without
// DONE while the rest of that change is still being written (reset, or plain close).
func idleDropper(w *world, seed int64) {
	defer w.wg.Done()
	rng := rand.New(rand.NewSource(seed))
	for {
		select {
		case <-w.stop:
			return
		default:
		}
		c, err := imapc.DialTimeout(w.s.Addr, 2*time.Second)
		if err != nil {
			time.Sleep(5 * time.Millisecond)
			continue
		}
		x := &sess{w: w, id: 903, rng: rng, user: "user", c: c, state: "greeted"}
		func() {
			defer c.Close()
			if r, ok := x.cmd("LOGIN user pass"); !ok || r.Status != "OK" {
				return
			}
			x.state = "authenticated"
			if r, ok := x.cmd("SELECT " + idleBox); !ok || r.Status != "OK" {
				return
			}
			x.state = "selected"
			if c.SendRaw([]byte("I1 IDLE\r\n")) != nil {
				return
			}
			deadline := time.Now().Add(400 * time.Millisecond)
			for time.Now().Before(deadline) {
				l, err := c.ReadLine(time.Until(deadline) + time.Millisecond)
				if err != nil {
					if isTimeout(err) {
						break
					}
					return
				}
				if strings.Contains(l.Text, " FETCH ") {
					break
				}
			}
			if rng.Intn(3) > 0 {
				c.Abort()
			}
			stat("end:drop-in-idle-during-bulk-update")
		}()
	}
}

// ---------- store.WriteControlledStore: one writer or many readers per message literal ----------

type wcsProbe struct{ readers, writers int32 }

// probeStore is the store underneath the write-controlled one: it only watches who is inside at the same time.
type probeStore struct {
	probes     map[imap.InternalMessageID]*wcsProbe
	violations int64
}

func (p *probeStore) write(id imap.InternalMessageID) {
	x := p.probes[id]
	if atomic.AddInt32(&x.writers, 1) != 1 || atomic.LoadInt32(&x.readers) != 0 {
		atomic.AddInt64(&p.violations, 1)
	}
	runtime.Gosched()
	if atomic.LoadInt32(&x.readers) != 0 {
		atomic.AddInt64(&p.violations, 1)
	}
	atomic.AddInt32(&x.writers, -1)
}
func (p *probeStore) Get(id imap.InternalMessageID) ([]byte, error) {
	x := p.probes[id]
	atomic.AddInt32(&x.readers, 1)
	if atomic.LoadInt32(&x.writers) != 0 {
		atomic.AddInt64(&p.violations, 1)
	}
	runtime.Gosched()
	atomic.AddInt32(&x.readers, -1)
	return []byte("literal"), nil
}
func (p *probeStore) Set(id imap.InternalMessageID, r io.Reader) error {
	if _, err := io.ReadAll(r); err != nil {
		return err
	}
	p.write(id)
	return nil
}
func (p *probeStore) Delete(ids ...imap.InternalMessageID) error {
	for _, id := range ids {
		p.write(id)
	}
	return nil
}
func (p *probeStore) Close() error                            { return nil }
func (p *probeStore) List() ([]imap.InternalMessageID, error) { return nil, nil }

// wcsStress: many goroutines Get / Set / Delete the same two literals through store.NewWriteControlledStore for the given
// time; the store underneath reports every moment at which a writer was not alone with a literal.
func wcsStress(ms int, seed int64) {
	ids := []imap.InternalMessageID{imap.NewInternalMessageID(), imap.NewInternalMessageID()}
	probe := &probeStore{probes: map[imap.InternalMessageID]*wcsProbe{}}
	for _, id := range ids {
		probe.probes[id] = &wcsProbe{}
	}
	st := store.NewWriteControlledStore(probe)
	deadline := time.Now().Add(time.Duration(ms) * time.Millisecond)
	var wg sync.WaitGroup
	var ops int64
	for w := 0; w < 24; w++ {
		wg.Add(1)
		go func(w int) {
			defer wg.Done()
			for i := 0; time.Now().Before(deadline) && atomic.LoadInt64(&probe.violations) == 0; i++ {
				id := ids[(w+i)%len(ids)]
				switch (w + i/3 + int(seed)) % 3 {
				case 0:
					_ = st.Set(id, strings.NewReader("literal"))
				case 1:
					_, _ = st.Get(id)
				default:
					_ = st.Delete(id)
				}
				atomic.AddInt64(&ops, 1)
			}
		}(w)
	}
	wg.Wait()
	repMu.Lock()
	rep.Stats["wcs-operations"] += int(atomic.LoadInt64(&ops))
	repMu.Unlock()
	if v := atomic.LoadInt64(&probe.violations); v > 0 {
		fail("exclusion", "the write-controlled store let a writer share a message literal with another reader or writer",
			fmt.Sprintf("%d overlap(s) after %d operations on 2 literals by 24 goroutines", v, atomic.LoadInt64(&ops)))
	}
}

// ---------- parked connections: one per protocol state, left OPEN by the client until the leak check is over ----------

type parked struct {
	state string
	user  string
	c     *imapc.Client
}

var parkStates = []string{"not-authenticated", "mid-literal", "authenticated", "selected", "idle"}

// park opens a connection and brings it into the given protocol state; the client then does nothing more with it.
func park(w *world, user, state string) (*parked, error) {
	c, err := imapc.DialTimeout(w.s.Addr, watchdog)
	if err != nil {
		return nil, err
	}
	c.TagPfx = "P"
	fail1 := func(e error) (*parked, error) { c.Close(); return nil, e }
	login := func() error {
		for i := 0; i < 20; i++ { // the other clients' wrong passwords trip the login jail now and then
			r, err := c.Cmd("LOGIN " + user + " pass")
			if err != nil {
				return err
			}
			if r.Status == "OK" {
				return nil
			}
			time.Sleep(5 * time.Millisecond)
		}
		return fmt.Errorf("login refused")
	}
	switch state {
	case "not-authenticated":
	case "mid-literal": // LOGIN {n}: continuation received, literal not completed
		if err := c.SendRaw([]byte("P1 LOGIN {4}\r\n")); err != nil {
			return fail1(err)
		}
		l, err := c.ReadLine(watchdog)
		if err != nil || !strings.HasPrefix(l.Text, "+") {
			return fail1(fmt.Errorf("no continuation: %v %q", err, l.Text))
		}
		if err := c.SendRaw([]byte("us")); err != nil {
			return fail1(err)
		}
	case "authenticated":
		if err := login(); err != nil {
			return fail1(err)
		}
	case "selected", "idle":
		if err := login(); err != nil {
			return fail1(err)
		}
		if r, err := c.Cmd("SELECT INBOX"); err != nil || r.Status != "OK" {
			return fail1(fmt.Errorf("select: %v %s", err, r.Text))
		}
		if state == "idle" {
			if err := c.SendRaw([]byte("P9 IDLE\r\n")); err != nil {
				return fail1(err)
			}
			for {
				l, err := c.ReadLine(watchdog)
				if err != nil {
					return fail1(err)
				}
				if strings.HasPrefix(l.Text, "+") {
					break
				}
				if strings.HasPrefix(l.Text, "P9 ") {
					return fail1(fmt.Errorf("idle refused: %s", l.Text))
				}
			}
		}
	}
	return &parked{state: state, user: user, c: c}, nil
}

func parkAll(w *world, user string) []*parked {
	var out []*parked
	for _, st := range parkStates {
		p, err := park(w, user, st)
		if err != nil {
			if isTimeout(err) {
				fail("hang", "no answer within 60 s while bringing a connection into state "+st, gluonStacks(true))
			} else {
				note("could not park a %s connection of %s: %v", st, user, err)
			}
			continue
		}
		stat("parked:" + st)
		out = append(out, p)
	}
	return out
}

// serverClosed tells whether the server has closed the parked connection (it reads until EOF or for a short while).
func (p *parked) serverClosed() bool {
	deadline := time.Now().Add(3 * time.Second)
	for time.Now().Before(deadline) {
		if _, err := p.c.ReadLine(time.Until(deadline) + time.Millisecond); err != nil {
			return !isTimeout(err)
		}
	}
	return false
}

// logHook collects the distinct error-level log lines of gluon (the harness discards the log output itself).
type logHook struct{}

func (logHook) Levels() []logrus.Level {
	return []logrus.Level{logrus.ErrorLevel, logrus.FatalLevel, logrus.PanicLevel}
}

var reDigits = regexp.MustCompile(`[0-9a-f]{8}-[0-9a-f-]{27}|\d+`)

func (logHook) Fire(e *logrus.Entry) error {
	msg := e.Message
	if err, ok := e.Data["error"]; ok {
		msg += ": " + fmt.Sprint(err)
	}
	msg = reDigits.ReplaceAllString(msg, "N")
	if len(msg) > 160 {
		msg = msg[:160]
	}
	stat("log: " + msg)
	return nil
}

func main() {
	logrus.SetLevel(logrus.ErrorLevel)
	logrus.AddHook(logHook{})
	nQueues := flag.Int("queues", 0, "QueuedChannel stress: number of queues to create and close (0 = skip)")
	queuesOnly := flag.Bool("queues-only", false, "run only the QueuedChannel / write-controlled store stress")
	wcsMs := flag.Int("wcs-ms", 0, "write-controlled store stress: how long (ms; 0 = skip)")
	cancelServe := flag.Int("cancel-serve", -1, "1: cancel the Serve context before Close, 0: do not, -1: by the seed")
	debugLog := flag.Bool("debuglog", false, "run gluon with logrus at debug level (formatted, output discarded)")
	seed := flag.Int64("seed", 1, "seed")
	flag.StringVar(&out, "out", ".", "output dir")
	nSess := flag.Int("sessions", 8, "sessions of the first user")
	runMs := flag.Int("run-ms", 2500, "activity before teardown (ms)")
	flag.Parse()
	if *debugLog {
		logrus.SetLevel(logrus.DebugLevel)
	}
	os.MkdirAll(out, 0o755)
	if *nQueues > 0 || *wcsMs > 0 {
		defer writeReport()
		if *wcsMs > 0 {
			wcsStress(*wcsMs, *seed)
		}
		if *nQueues > 0 {
			queueStress(*nQueues, *seed)
		}
		if *queuesOnly {
			repMu.Lock()
			rep.Complete = true
			repMu.Unlock()
			return
		}
	}
	rng := rand.New(rand.NewSource(*seed))
	// variants of the teardown
	lateDial := rng.Intn(2) == 0
	removeFiles := rng.Intn(3) == 0
	closeWhilePushing := rng.Intn(4) != 0
	cancelFirst := false
	if *cancelServe >= 0 {
		cancelFirst = *cancelServe == 1
	} else {
		cancelFirst = rng.Intn(3) == 0
	}
	rep.Scenario = map[string]interface{}{"seed": *seed, "sessions_user0": *nSess, "sessions_user1": 3, "run_ms": *runMs,
		"dial_between_close_and_listener_close": lateDial, "remove_user1_with_files": removeFiles, "connector_pushing_during_close": closeWhilePushing, "serve_context_cancelled_before_close": cancelFirst,
		"teardown": "RemoveUser(user1) racing with its sessions, then Close racing with the sessions of user0 and the connector updates; per user one connection parked in each of: not-authenticated, mid-literal (LOGIN {n}), authenticated, selected, IDLE, whose client sockets stay open until the goroutine check is over"}
	defer writeReport()

	dbi := &tdbIface{inner: gluon.VerifSQLiteClientInterface(), byUsr: map[string]*tdb{}}
	stb := &tstoreBuilder{inner: &store.OnDiskStoreBuilder{}, byUsr: map[string]*tstore{}}
	s, err := srv.Start(srv.Options{DB: dbi, StoreBuilder: stb, Users: []srv.User{{Names: []string{"user"}, Pass: "pass"}, {Names: []string{"other"}, Pass: "pass"}}})
	if err != nil {
		note("infra: start: %v", err)
		fmt.Fprintln(os.Stderr, "start:", err)
		os.Exit(3)
	}
	// an embedder reads the server's error channel until it is closed (errors nobody takes would keep the channel's queue
	// goroutine alive after Close)
	errDrained := make(chan struct{})
	go func() {
		n := 0
		for range s.S.GetErrorCh() {
			n++
		}
		repMu.Lock()
		rep.Stats["serve-errors-reported"] += n
		repMu.Unlock()
		close(errDrained)
	}()
	storeDamage(s.Dir)
	w := &world{s: s, stop: make(chan struct{}), boxes: []string{"INBOX", "mb1", "mb2", "mb3"}}
	// set-up (sequential)
	for _, u := range []string{"user", "other"} {
		c, err := s.Login(u, "pass")
		if err != nil {
			note("infra: login: %v", err)
			os.Exit(3)
		}
		for _, b := range w.boxes[1:] {
			c.Cmd("CREATE " + b)
		}
		for _, b := range w.boxes {
			for i := 0; i < 4; i++ {
				c.Append(b, "", msgLiteral(rng, "init"))
			}
		}
		if u == "user" {
			c.Cmd("CREATE " + idleBox)
			for i := 0; i < 30; i++ {
				c.Append(idleBox, "", msgLiteral(rng, "idle"))
			}
		}
		c.Cmd("LOGOUT")
		c.Close()
	}
	conn0 := s.Conn0()
	var mboxIDs []imap.MailboxID
	for _, b := range w.boxes {
		if id, ok := conn0.MailboxIDByName([]string{b}); ok {
			mboxIDs = append(mboxIDs, id)
		}
	}
	// activity
	for i := 0; i < *nSess; i++ {
		w.wg.Add(1)
		go worker(w, i, "user", *seed*1000+int64(i))
	}
	for i := 0; i < 3; i++ {
		w.wg.Add(1)
		go worker(w, 100+i, "other", *seed*1000+100+int64(i))
	}
	pushStop := w.stop
	w.wg.Add(1)
	go pusher(w, conn0, *seed*7+1, mboxIDs)
	// a session that keeps two connector-deleted messages of mb1 in its view (a lasting pool of messages marked for
	// deletion), three that keep replacing their snapshot with EXAMINE / SELECT, four that log in and out all the time
	hold := holder(w)
	if hold != nil && len(mboxIDs) > 1 {
		n := 0
		for _, id := range conn0.MessageIDsIn(mboxIDs[1]) {
			if n < 2 && pushOrStop(conn0, imap.NewMessagesDeleted(id), w.stop) {
				n++
			}
		}
		stat(fmt.Sprintf("pooled-deletions:%d", n))
	}
	// IDLE sessions on a mailbox that another session changes in bulk, dropped without DONE in the middle of an update
	w.wg.Add(1)
	go bulkChanger(w, *seed*19+3)
	for i := int64(0); i < 3; i++ {
		w.wg.Add(1)
		go idleDropper(w, *seed*23+1+i)
	}
	for i := int64(0); i < 3; i++ {
		w.wg.Add(1)
		go examiner(w, *seed*13+5+i)
	}
	for i := int64(0); i < 4; i++ {
		w.wg.Add(1)
		go flapper(w, *seed*17+1+i)
	}
	time.Sleep(time.Duration(*runMs) * time.Millisecond)

	// teardown, racing with everything above. First: one connection per protocol state (not authenticated, in the middle
	// of a LOGIN literal, authenticated, selected, idling) for each user; the client keeps these sockets open until the
	// goroutine check is over, so only the server can end their sessions.
	atomic.StoreInt32(&w.tearing, 1)
	users := s.Opts.Users
	parkedB := parkAll(w, "other")
	_, ok := withWatchdog("RemoveUser", func() error {
		return s.S.RemoveUser(context.Background(), users[1].ID, removeFiles)
	})
	if !ok {
		return
	}
	atomic.StoreInt32(&w.removedB, 1)
	recordTrace(dbi, stb, users[1].ID, true)
	time.Sleep(time.Duration(rng.Intn(300)) * time.Millisecond)
	if !closeWhilePushing {
		// (the pusher shares the stop channel with the workers; in this variant everything is told to stop first)
		_ = pushStop
	}
	parkedA := parkAll(w, "user")
	atomic.StoreInt32(&w.closing, 1)
	if cancelFirst {
		// "Serve stops serving when the context is canceled": the caller cancels first and closes afterwards
		s.CancelServe()
		time.Sleep(time.Duration(50+rng.Intn(300)) * time.Millisecond)
	}
	_, ok = withWatchdog("Close", func() error { return s.S.Close(context.Background()) })
	if !ok {
		return
	}
	atomic.StoreInt32(&w.closed, 1)
	recordTrace(dbi, stb, users[0].ID, true)
	if lateDial {
		// a client that connects after Close returned, while the caller has not closed its listener yet
		if c, err := net.DialTimeout("tcp", s.Addr, 2*time.Second); err == nil {
			c.SetReadDeadline(time.Now().Add(1500 * time.Millisecond))
			buf := make([]byte, 64)
			n, rerr := c.Read(buf)
			rep.Scenario["late_dial_read"] = fmt.Sprintf("%d bytes, err=%v", n, rerr)
			c.Close()
		}
	}
	select {
	case <-errDrained:
	case <-time.After(watchdog):
		fail("hang", "the server's error channel was not closed within 60 s after Close returned", gluonStacks(true))
	}
	close(w.stop)
	s.Listener.Close()
	// every worker must come back (their calls have their own watchdog)
	wdone := make(chan struct{})
	go func() { w.wg.Wait(); close(wdone) }()
	select {
	case <-wdone:
	case <-time.After(2*watchdog + 10*time.Second):
		fail("hang", "client workers did not finish", gluonStacks(true))
		return
	}
	// goroutines left behind: give the server a grace period to wind down
	var left []string
	for i := 0; i < 150; i++ {
		left = leftover()
		if len(left) == 0 {
			break
		}
		time.Sleep(100 * time.Millisecond)
	}
	if len(left) > 0 {
		byFn := map[string]int{}
		var fns []string
		for _, l := range left {
			fn := strings.SplitN(l, "\n", 2)[0]
			if byFn[fn] == 0 {
				fns = append(fns, fn)
			}
			byFn[fn]++
		}
		sort.Strings(fns)
		for _, fn := range fns {
			detail := ""
			for _, l := range left {
				if strings.HasPrefix(l, fn+"\n") {
					detail = l
					break
				}
			}
			fail("leak", "goroutine left 15 s after Close and listener close: "+fn, fmt.Sprintf("%d such goroutine(s)\n%s", byFn[fn], detail))
		}
	}
	// only now do the parked clients look at their sockets and let go of them
	if hold != nil {
		parkedA = append(parkedA, hold)
	}
	for _, p := range append(parkedA, parkedB...) {
		if p.serverClosed() {
			stat("parked-closed-by-server:" + p.state)
		} else {
			stat("parked-still-open-after-close:" + p.state)
		}
		p.c.Close()
	}
	os.RemoveAll(s.Dir)
	repMu.Lock()
	rep.Complete = true
	repMu.Unlock()
}

func recordTrace(dbi *tdbIface, stb *tstoreBuilder, userID string, closerReturned bool) {
	dbi.mu.Lock()
	d := dbi.byUsr[userID]
	dbi.mu.Unlock()
	stb.mu.Lock()
	st := stb.byUsr[userID]
	stb.mu.Unlock()
	if d == nil || st == nil {
		return
	}
	t := userTrace{User: userID, DbOps: atomic.LoadInt64(&d.ops), DbOpsAfterClose: atomic.LoadInt64(&d.after),
		DbInflightAtClose: atomic.LoadInt64(&d.atClose), DbClosed: atomic.LoadInt32(&d.closed) == 1,
		StoreOps: atomic.LoadInt64(&st.ops), StoreOpsAfter: atomic.LoadInt64(&st.after), StoreClosed: atomic.LoadInt32(&st.closed) == 1,
		StoreBeforeDb: atomic.LoadInt64(&st.closedAt) < atomic.LoadInt64(&d.closedAt), CloserReturned: closerReturned,
		ClosedBeforeRet: atomic.LoadInt32(&d.closed) == 1}
	if !t.DbClosed {
		fail("teardown-order", "RemoveUser/Close returned but the user's database was not closed", "user "+userID)
	}
	if t.DbInflightAtClose != 0 {
		fail("use-after-close", "database operations still in flight when Close of the database returned", fmt.Sprintf("user %s inflight=%d", userID, t.DbInflightAtClose))
	}
	repMu.Lock()
	rep.Traces = append(rep.Traces, t)
	repMu.Unlock()
}
