(* MailStoreDedup - the operations of Model.MailStore when the remote DE-DUPLICATES: connector.CreateMessage answers
   with the remote ID of a message gluon already knows.
   Go code mirrored: internal/state/actions.go actionCreateMessage (branch "Deduped message detected": the existing message
   is added to the target mailbox through actionAddMessagesToMailbox), actionImportRecoveredMessage (returns the existing
   id pair, deduped = true), actionCopy/MoveMessagesOutOfRecoveryMailbox + actionAddRecoveredMessagesToMailbox (only the
   named messages the destination does not hold yet are labelled and added).
   The remote is the harness' scripted connector in Dedup mode: it names the message with the same bytes that is in some
   (non-recovery) mailbox, if there is one - `find_lit`. `step_dedup` differs from `step` only for an accepted APPEND and
   for COPY / MOVE out of the recovery mailbox; it follows the code after C20-fix-1 (hashes erased after the label step).
   It is a separate entry point (not a constructor of `op`): the history theorems of C04/C17/C20 are about `step`; for
   `step_dedup` Proofs/MailStoreDedup.v proves preservation of the store invariant and the C20 clause below. *)
From Coq Require Import List ZArith NArith Bool.
From Gluon Require Import Gen.FactsLimits Model.UidValidityGen Model.MailStore.
Import ListNotations.
Open Scope Z_scope.

Fixpoint find_lit_rows (l : N) (rows : list row) : option msg :=
  match rows with [] => None | r :: t => if N.eqb (snd (snd r)) l then Some (snd r) else find_lit_rows l t end.
(* the message with literal l in a mailbox other than the recovery mailbox *)
Fixpoint find_lit (l : N) (mbs : list mbox) : option msg :=
  match mbs with
  | [] => None
  | m :: t => if N.eqb (mb_id m) recov_id then find_lit l t
              else match find_lit_rows l (mb_rows m) with Some x => Some x | None => find_lit l t end
  end.

Section Dedup.
Variable hash : N -> option N.
Variable fx : codefacts.
Variable c : cfg.
Variable clock : nat -> Z.

(* what the remote names for the selected recovered messages: the message it has, else a new one *)
Fixpoint named_msgs (l : list mbox) (id : N) (sel : list row) : list msg :=
  match sel with
  | [] => []
  | r :: t => (match find_lit (snd (snd r)) l with Some x => x | None => (id, snd (snd r)) end) :: named_msgs l (id + 1)%N t
  end.

Definition out_dedup (s : store) (d : mbox) (sel : list row) (mv label_ok : bool) : store * result :=
  let ms := named_msgs (s_mboxes s) (s_nextmsg s) sel in
  let olds := map (fun r : row => fst (snd r)) sel in
  let toadd := filter (fun x : msg => negb (has_msg d (fst x))) ms in
  let s0 := bump_msg (N.of_nat (length sel)) s in
  let s1 := if mv then del_msgs recov_id olds s0 else s0 in
  if negb label_ok then (keep_mem s1 s, ResNo)
  else match db_add c (mb_id d) toadd s1 with
       | None => (keep_mem s1 s, ResNoLimit)
       | Some s2 => ((if mv then erase_hashes olds s2 else s2), ResOk [])
       end.

Definition append_dedup (s : store) (name : path) (lit : N) : store * result :=
  if is_recov name then (s, ResNo)
  else match find_name name (s_mboxes s) with
       | None => (s, ResNo)
       | Some d =>
         if append_check c d then
           match find_lit lit (s_mboxes s) with
           | None => append_write hash fx c s (mb_id d) lit RemOk
           | Some x => match add_messages c s d [(0, x)] true with
                       | (s', ResOk _) => (s', ResOk [(0, mb_seq d + 1)])
                       | other => other
                       end
           end
         else limit_refuse hash fx s lit
       end.

Definition from_recovery (s : store) (src dst : path) : option (mbox * mbox) :=
  if is_recov dst then None
  else match find_name dst (s_mboxes s), find_name src (s_mboxes s) with
       | Some d, Some m => if N.eqb (mb_id m) recov_id then Some (m, d) else None
       | _, _ => None
       end.

Definition step_dedup (s : store) (o : op) : store * result :=
  match o with
  | OAppend n l RemOk => append_dedup s n l
  | OCopy a u b true lab =>
    match from_recovery s a b with Some (m, d) => out_dedup s d (selection m u) false lab | None => step hash fx c clock s o end
  | OMove a u b true lab =>
    match from_recovery s a b with Some (m, d) => out_dedup s d (selection m u) true lab | None => step hash fx c clock s o end
  | _ => step hash fx c clock s o
  end.
End Dedup.
