(* World model for C01 / C02 (and the T2 tie of C05): the authoritative mailboxes, K sessions with their snapshots,
   pending responders and update queues, the state-update pipeline between them, and connector updates.
   Models: internal/state/{mailbox.go (Append, Store, Copy, Move, Expunge, Fetch's \Seen side effect), actions.go,
   updates.go (applyMessageFlags{Added,Removed,Set} and their state updates), updates_mailbox.go, updates_remote.go,
   filters.go, state.go (Select, ApplyUpdate, PushResponder, beginIdle)}, internal/backend/state_user_interface_impl.go
   (QueueOrApplyStateUpdate), internal/backend/connector_updates.go (MessagesCreated, MessageFlagsUpdated,
   MessageDeleted, MessageMailboxesUpdated) and the flushes of the session handlers (Gen/FactsFlush.v).
   \Recent is not modelled (the harness projects it away); message ids are creation indices. No proofs here. *)
From Coq Require Import String List NArith Bool.
From Gluon Require Import Gen.FactsFlush Model.FlushPolicy Model.Responders.
Import ListNotations.
Open Scope list_scope.
Open Scope N_scope.

(* flushes of the handlers, taken from the generated facts (own flushes, then the trailing one for selected-state commands) *)
Definition sel_permits (c : string) : list bool :=
  match handler_permits false c with Some l => l | None => [] end.
Definition own_permits (h : string) : list bool :=
  match lookup h flush_calls with
  | Some l => match all_some l with Some r => r | None => [] end
  | None => [] end.

Definition fl_seen : N := 2.

Record mrow := mkRow { r_id : msgid; r_uid : uid; r_deleted : bool }.

Inductive update :=
| UExists (mb : N) (items : list (msgid * uid * flagset)) (origin : option nat)
| UExpunge (mb : N) (m : msgid)
| UFlags (mb : N) (parts : list (list msgid * flagset * fop)) (origin : nat) (silent : bool)
| URemoteFlag (m : msgid) (flag : N) (add : bool).

Record sess := mkSess { ss_sel : option N; ss_st : sstate; ss_queue : list update; ss_idle : bool }.

Record world := mkW {
  w_flags : list (msgid * flagset);   (* shared flags of every message (without \Deleted) *)
  w_mbox : list (list mrow);          (* mailbox index -> rows, ascending UID *)
  w_next : list N;                    (* next UID per mailbox *)
  w_nextid : N;                       (* next message id *)
  w_sess : list sess }.

(* ---------- small helpers ---------- *)
Fixpoint nth_upd {A} (k : nat) (f : A -> A) (l : list A) : list A :=
  match l, k with [], _ => [] | x :: r, O => f x :: r | x :: r, S k' => x :: nth_upd k' f r end.
Definition mbox_of (w : world) (mb : N) : list mrow := nth (N.to_nat mb) (w_mbox w) [].
Definition next_of (w : world) (mb : N) : N := nth (N.to_nat mb) (w_next w) 1.
Definition set_mbox (mb : N) (rows : list mrow) (w : world) : world :=
  mkW (w_flags w) (nth_upd (N.to_nat mb) (fun _ => rows) (w_mbox w)) (w_next w) (w_nextid w) (w_sess w).
Definition set_next (mb : N) (n : N) (w : world) : world :=
  mkW (w_flags w) (w_mbox w) (nth_upd (N.to_nat mb) (fun _ => n) (w_next w)) (w_nextid w) (w_sess w).
Definition set_sess (ss : list sess) (w : world) : world :=
  mkW (w_flags w) (w_mbox w) (w_next w) (w_nextid w) ss.
Definition set_flags (fl : list (msgid * flagset)) (w : world) : world :=
  mkW fl (w_mbox w) (w_next w) (w_nextid w) (w_sess w).

Fixpoint flags_of (fl : list (msgid * flagset)) (m : msgid) : flagset :=
  match fl with [] => [] | (m', f) :: t => if m' =? m then f else flags_of t m end.
Fixpoint flags_upd (fl : list (msgid * flagset)) (m : msgid) (g : flagset -> flagset) : list (msgid * flagset) :=
  match fl with [] => [] | (m', f) :: t => if m' =? m then (m', g f) :: t else (m', f) :: flags_upd t m g end.
Definition row_has (m : msgid) (rows : list mrow) : bool := existsb (fun r => r_id r =? m) rows.
Definition rows_remove (m : msgid) (rows : list mrow) : list mrow := filter (fun r => negb (r_id r =? m)) rows.

(* what a newly opened session sees *)
Definition row_view (w : world) (r : mrow) : smsg :=
  mkSmsg (r_id r) (r_uid r) (let f := flags_of (w_flags w) (r_id r) in if r_deleted r then fl_add f [fl_deleted] else f).
Definition fresh_view (w : world) (mb : N) : snap := map (row_view w) (mbox_of w mb).

(* ---------- delivering an update to a session ---------- *)
(* State.hasMessageOrPendingExists: in the snapshot, or announced by an exists responder that is not handled yet *)
Definition has_or_pending (m : msgid) (st : sstate) : bool :=
  snap_has m (s_snap st) ||
  existsb (fun r => match r with RExists m' _ _ _ _ => m' =? m | _ => false end) (s_res st).

Definition upd_filter (u : update) (s : sess) : bool :=
  match ss_sel s with
  | None => false
  | Some sel =>
      match u with
      | UExists mb _ _ => sel =? mb
      | UExpunge mb m => (sel =? mb) && has_or_pending m (ss_st s)
      | UFlags _ _ _ _ => true
      | URemoteFlag m _ _ => has_or_pending m (ss_st s)
      end
  end.

(* State.hasPendingExists: an exists responder for the message is still waiting to be flushed *)
Definition pending_exists (m : msgid) (st : sstate) : bool :=
  existsb (fun r => match r with RExists m' _ _ _ _ => m' =? m | _ => false end) (s_res st).

(* responders an update pushes into session number i *)
Definition upd_responders (u : update) (i : nat) (s : sess) (cmd_silent : bool) : list responder :=
  match u with
  | UExists mb items origin =>
      map (fun it => match it with (m, u', f) =>
             RExists m u' f (match origin with Some o => Nat.eqb o i | None => false end)
                            (match origin with Some o => Nat.eqb o i | None => false end) end) items
  | UExpunge _ m => [RExpunge m]
  | UFlags mb parts origin silent =>
      concat (map (fun p => match p with (ms, f, op) =>
        (* the session's own .SILENT store stays silent only if the instance it reaches has been announced already *)
        map (fun m => RFetch m f op false (Nat.eqb origin i && silent && cmd_silent && negb (pending_exists m (ss_st s)))
                             (match ss_sel s with Some sel => negb (sel =? mb) | None => false end)) ms end) parts)
  | URemoteFlag m flag add => [RFetch m [flag] (if add then FAdd else FRem) false false false]
  end.

(* State.PushResponder: queue, or (idling) handle at once and send. None = a responder failed *)
Definition push_responders (rs : list responder) (s : sess) : option (sess * list resp) :=
  if ss_idle s then
    match run_responders rs (s_snap (ss_st s)) with
    | None => None
    | Some (sn, out) => Some (mkSess (ss_sel s) (mkS sn (s_res (ss_st s))) (ss_queue s) true, out)
    end
  else Some (mkSess (ss_sel s) (push rs (ss_st s)) (ss_queue s) (ss_idle s), []).

Definition apply_update (u : update) (i : nat) (s : sess) (cmd_silent : bool) : option (sess * list resp) :=
  if upd_filter u s then push_responders (upd_responders u i s cmd_silent) s else Some (s, []).

(* QueueOrApplyStateUpdate: the acting session applies at once, every other session queues *)
Fixpoint broadcast (us : list update) (actor : option nat) (cmd_silent : bool) (i : nat) (ss : list sess)
  : option (list sess) :=
  match ss with
  | [] => Some []
  | s :: t =>
      let s1 := match actor with
                | Some a => if Nat.eqb a i
                            then fold_left (fun acc u => match acc with None => None
                                                 | Some x => match apply_update u i x cmd_silent with
                                                             | Some (x', _) => Some x' | None => None end end) us (Some s)
                            else Some (mkSess (ss_sel s) (ss_st s) (ss_queue s ++ us) (ss_idle s))
                | None => Some (mkSess (ss_sel s) (ss_st s) (ss_queue s ++ us) (ss_idle s))
                end in
      match s1, broadcast us actor cmd_silent (S i) t with
      | Some a, Some b => Some (a :: b) | _, _ => None end
  end.

(* ---------- commands ---------- *)
Inductive command :=
| CSelect (mb : N)
| CAppend (mb : N) (f : flagset)
| CStore (ps : list nat) (op : fop) (f : flagset) (silent : bool)   (* positions 1-based in the session's view *)
| CExpunge
| CCopy (ps : list nat) (dst : N)
| CMove (ps : list nat) (dst : N)
| CMoveLabel (ps : list nat) (dst : N)   (* MOVE with a connector of label semantics (MoveMessages answers false): the
                                            messages are added to dst and STAY in the selected mailbox; nothing is expunged *)
| CFetchBody (ps : list nat)       (* BODY[] : sets \Seen *)
| CFetchFlagsBody (ps : list nat)  (* (FLAGS BODY[]) : as above, and every message reports its (new) flags *)
| CFetchBodyRO (ps : list nat) (with_flags : bool)
    (* the same two fetches by a session that selected with EXAMINE: nothing is marked \Seen anywhere - not in the
       database, not in the session's own snapshot - and no flags are reported beyond the ones asked for *)
| CProbe                           (* UID FETCH 1:* (FLAGS) *)
| CSearch                          (* SEARCH ALL *)
| CSearchBad                       (* SEARCH CHARSET X-UNKNOWN ALL : refused with NO; only the trailing flush runs *)
| CNoop
| CStatus                          (* STATUS of any mailbox while a mailbox is selected: handleStatus flushes the selected one *)
| CCheck
| CIdle
| CDone
| CClose      (* CLOSE: the \Deleted messages are removed without EXPUNGE responses, whatever else is pending is sent, the
                 mailbox is left (Mailbox.Close -> State.close: snapshot and pending responders are dropped) *)
| CUnselect.  (* UNSELECT: the mailbox is left at once; nothing is removed, nothing is sent *)

Inductive conn_update :=
| XNew (mb : N) (f : flagset)
| XNewBulk (mb : N) (n : nat)   (* ONE MessagesCreated with n (flagless) messages: one exists update with n items *)
| XFlag (m : msgid) (flag : N) (add : bool)
| XDelete (m : msgid)
| XSetMailboxes (m : msgid) (mbs : list N).

Inductive op := Cmd (s : nat) (c : command) | Deliver (s : nat) | Conn (u : conn_update).

Inductive outcome := OOk | OOkIssued (* OK [EXPUNGEISSUED] *) | ONo | OBadState | OFail.

(* a message set is a SET: the server resolves it against the snapshot in ascending order whatever order (and however
   often) the client wrote the numbers *)
Fixpoint ins_pos (p : nat) (l : list nat) : list nat :=
  match l with
  | [] => [p]
  | q :: t => if Nat.ltb p q then p :: l else if Nat.eqb p q then l else q :: ins_pos p t
  end.
Definition norm_ps (ps : list nat) : list nat := fold_right ins_pos [] ps.

Definition msgs_at_raw (sn : snap) (ps : list nat) : option (list smsg) :=
  fold_right (fun p acc => match acc, nth_error sn (p - 1) with
                           | Some l, Some x => if Nat.eqb p 0 then None else Some (x :: l)
                           | _, _ => None end) (Some []) ps.
Definition msgs_at (sn : snap) (ps : list nat) : option (list smsg) := msgs_at_raw sn (norm_ps ps).

(* session flush performed by a handler, with merge; FPanic/FErr are reported as OFail *)
Definition sess_flush (permit : bool) (s : sess) : option (sess * list resp) :=
  match flush permit (ss_st s) with
  | FOk st out => Some (mkSess (ss_sel s) st (ss_queue s) (ss_idle s), out)
  | _ => None
  end.

Fixpoint sess_flushes (permits : list bool) (s : sess) : option (sess * list resp) :=
  match permits with
  | [] => Some (s, [])
  | p :: t => match sess_flush p s with
              | None => None
              | Some (s1, o1) => match sess_flushes t s1 with
                                 | None => None | Some (s2, o2) => Some (s2, o1 ++ o2) end
              end
  end.

Definition get_sess (w : world) (i : nat) : option sess := nth_error (w_sess w) i.
Definition put_sess (i : nat) (s : sess) (w : world) : world := set_sess (nth_upd i (fun _ => s) (w_sess w)) w.

(* add messages (already known) to mailbox dst with fresh UIDs, in order; returns the items of the exists update *)
Fixpoint add_rows (w : world) (dst : N) (ms : list msgid) : world * list (msgid * uid * flagset) :=
  match ms with
  | [] => (w, [])
  | m :: t =>
      let u := next_of w dst in
      let w1 := set_next dst (u + 1) (set_mbox dst (mbox_of w dst ++ [mkRow m u false]) w) in
      let '(w2, items) := add_rows w1 dst t in
      (w2, (m, u, flags_of (w_flags w) m) :: items)
  end.

(* remove messages from mailbox mb; returns the expunge updates in order *)
Definition remove_rows (w : world) (mb : N) (ms : list msgid) : world * list update :=
  (set_mbox mb (fold_left (fun rows m => rows_remove m rows) ms (mbox_of w mb)) w, map (UExpunge mb) ms).

(* actionAddMessagesToMailbox *)
Definition action_add (w : world) (dst : N) (ms : list msgid) (origin : option nat) : world * list update :=
  let have := filter (fun m => row_has m (mbox_of w dst)) ms in
  let '(w1, ups1) := remove_rows w dst have in
  let '(w2, items) := add_rows w1 dst ms in
  (w2, ups1 ++ [UExists dst items origin]).

(* the three flag actions: new shared flags / deleted bits and the parts of the state update *)
Definition store_parts (w : world) (ms : list msgid) (op : fop) (f : flagset) : list (list msgid * flagset * fop) :=
  let rest := fl_rem f [fl_deleted] in
  match op with
  | FAdd =>
      (if fl_mem fl_deleted f then [(ms, [fl_deleted], FAdd)] else []) ++
      map (fun g => (filter (fun m => negb (fl_mem g (flags_of (w_flags w) m))) ms, rest, FAdd)) rest
  | FRem =>
      (if fl_mem fl_deleted f then [(ms, [fl_deleted], FRem)] else []) ++
      map (fun g => (filter (fun m => fl_mem g (flags_of (w_flags w) m)) ms, rest, FRem)) rest
  | FSet => [(ms, f, FSet)]
  end.

Definition set_deleted (mb : N) (ms : list msgid) (v : bool) (w : world) : world :=
  set_mbox mb (map (fun r => if existsb (N.eqb (r_id r)) ms then mkRow (r_id r) (r_uid r) v else r) (mbox_of w mb)) w.

Definition store_db (w : world) (mb : N) (ms : list msgid) (op : fop) (f : flagset) : world :=
  let rest := fl_rem f [fl_deleted] in
  match op with
  | FAdd =>
      let w1 := if fl_mem fl_deleted f then set_deleted mb ms true w else w in
      set_flags (fold_left (fun fl m => flags_upd fl m (fun cur => fl_add cur rest)) ms (w_flags w1)) w1
  | FRem =>
      let w1 := if fl_mem fl_deleted f then set_deleted mb ms false w else w in
      set_flags (fold_left (fun fl m => flags_upd fl m (fun cur => fl_rem cur rest)) ms (w_flags w1)) w1
  | FSet =>
      let w1 := set_deleted mb ms (fl_mem fl_deleted f) w in
      set_flags (fold_left (fun fl m => flags_upd fl m (fun _ => rest)) ms (w_flags w1)) w1
  end.

(* APPEND: a new message entity with its shared flags (\Deleted is kept per mailbox) and a new row with the next UID *)
Definition append_db (w : world) (mb : N) (f : flagset) : world :=
  let m := w_nextid w in
  let u := next_of w mb in
  let w1 := mkW (w_flags w ++ [(m, fl_rem f [fl_deleted])]) (w_mbox w) (w_next w) (m + 1) (w_sess w) in
  set_next mb (u + 1) (set_mbox mb (mbox_of w1 mb ++ [mkRow m u (fl_mem fl_deleted f)]) w1).

(* finish a command of session i: broadcast the updates, then perform the handler's flushes *)
Definition finish (w : world) (i : nat) (ups : list update) (cmd_silent : bool) (permits : list bool)
  : option (world * list resp) :=
  match broadcast ups (Some i) cmd_silent 0 (w_sess w) with
  | None => None
  | Some ss =>
      let w1 := set_sess ss w in
      match get_sess w1 i with
      | None => None
      | Some s => match sess_flushes permits s with
                  | None => None
                  | Some (s', out) => Some (put_sess i s' w1, out)
                  end
      end
  end.

(* like finish, but also reports Mailbox.ExpungeIssued() as the handler sees it: after the handler's own flushes and
   before the trailing flush of handleSelectedCommand *)
Definition finish_issued (w : world) (i : nat) (ups : list update) (cmd_silent : bool) (permits : list bool)
  : option (world * list resp * bool) :=
  match broadcast ups (Some i) cmd_silent 0 (w_sess w) with
  | None => None
  | Some ss =>
      let w1 := set_sess ss w in
      match get_sess w1 i with
      | None => None
      | Some s =>
          let own := removelast permits in
          let tr := skipn (length own) permits in
          match sess_flushes own s with
          | None => None
          | Some (s1, o1) =>
              let iss := expunge_issued (ss_st s1) in
              match sess_flushes tr s1 with
              | None => None
              | Some (s2, o2) => Some (put_sess i s2 w1, o1 ++ o2, iss)
              end
          end
      end
  end.

Definition probe_lines (sn : snap) : list resp :=
  map (fun p => match p with (k, x) => PFetch (N.of_nat (S k)) (sm_flags x) (Some (sm_uid x)) end)
      (combine (seq 0 (length sn)) sn).

(* one command. Result: new world, untagged responses of that session, outcome class *)
Definition do_cmd (w : world) (i : nat) (c : command) : world * list resp * outcome :=
  match get_sess w i with
  | None => (w, [], OFail)
  | Some s =>
      if ss_idle s then
        match c with
        | CDone => (put_sess i (mkSess (ss_sel s) (ss_st s) (ss_queue s) false) w, [], OOk)
        | _ => (w, [], OBadState)
        end
      else
      let fail := (w, [], OFail) in
      let ret (r : option (world * list resp)) := match r with Some (w', out) => (w', out, OOk) | None => fail end in
      let reti (r : option (world * list resp * bool)) := match r with Some (w', out, iss) => (w', out, if iss then OOkIssued else OOk) | None => fail end in
      match c with
      | CSelect mb =>
          let sn := fresh_view w mb in
          (put_sess i (mkSess (Some mb) (mkS sn []) (ss_queue s) false) w, [PExists (N.of_nat (length sn))], OOk)
      | CAppend mb f =>
          let m := w_nextid w in
          let u := next_of w mb in
          let w2 := append_db w mb f in
          let same := match ss_sel s with Some sel => sel =? mb | None => false end in
          ret (finish w2 i [UExists mb [(m, u, f)] (if same then Some i else None)] false (if same then own_permits "handleAppend" else []))
      | CDone => (w, [], OBadState)
      | _ =>
        match ss_sel s with
        | None => match c with
                  | CNoop => (w, [], OOk)   (* NOOP with no mailbox selected: nothing to flush *)
                  | _ => (w, [], OBadState)
                  end
        | Some sel =>
          let sn := s_snap (ss_st s) in
          match c with
          | CStore ps op f silent =>
              match msgs_at sn ps with
              | None => (w, [], ONo)
              | Some xs =>
                  let ms := map sm_id xs in
                  let parts := store_parts w ms op f in
                  let w1 := store_db w sel ms op f in
                  reti (finish_issued w1 i [UFlags sel parts i silent] silent (sel_permits "Store"))
              end
          | CExpunge =>
              let ms := filter (fun m => row_has m (mbox_of w sel))
                               (map sm_id (filter (fun x => fl_mem fl_deleted (sm_flags x)) sn)) in
              let '(w1, ups) := remove_rows w sel ms in
              ret (finish w1 i ups false (sel_permits "Expunge"))
          | CCopy ps dst =>
              match msgs_at sn ps with
              | None => (w, [], ONo)
              | Some xs =>
                  let '(w1, ups) := action_add w dst (map sm_id xs) (Some i) in
                  ret (finish w1 i ups false (sel_permits "Copy"))
              end
          | CMove ps dst =>
              match msgs_at sn ps with
              | None => (w, [], ONo)
              | Some xs =>
                  (* only the messages that are still in the source mailbox are moved *)
                  let ms := filter (fun m => row_has m (mbox_of w sel)) (map sm_id xs) in
                  if sel =? dst then
                    let '(w1, ups1) := remove_rows w dst ms in
                    let '(w2, ups2) := action_add w1 dst ms None in
                    ret (finish w2 i (ups1 ++ ups2) false (sel_permits "Move"))
                  else
                    let have := filter (fun m => row_has m (mbox_of w dst)) ms in
                    let '(w1, ups1) := remove_rows w dst have in
                    let '(w2, _) := remove_rows w1 sel ms in
                    let '(w3, items) := add_rows w2 dst ms in
                    ret (finish w3 i (ups1 ++ [UExists dst items (Some i)] ++ map (UExpunge sel) ms) false (sel_permits "Move"))
              end
          | CMoveLabel ps dst =>
              match msgs_at sn ps with
              | None => (w, [], ONo)
              | Some xs =>
                  let ms := filter (fun m => row_has m (mbox_of w sel)) (map sm_id xs) in
                  if sel =? dst then (w, [], OFail)   (* not exercised: the same-mailbox path does not ask the connector *)
                  else
                    let have := filter (fun m => row_has m (mbox_of w dst)) ms in
                    let '(w1, ups1) := remove_rows w dst have in
                    let '(w3, items) := add_rows w1 dst ms in
                    ret (finish w3 i (ups1 ++ [UExists dst items (Some i)]) false (sel_permits "Move"))
              end
          | CFetchBody ps | CFetchFlagsBody ps =>
              match msgs_at sn ps with
              | None => (w, [], ONo)
              | Some xs =>
                  let ms := map sm_id xs in
                  (* the fetch itself adds \Seen to the snapshot entries and reports the new flags *)
                  let unseen := filter (fun x => negb (fl_mem fl_seen (sm_flags x))) xs in
                  let sn1 := fold_left (fun acc x => snap_set_flags (sm_id x) (fl_add (sm_flags x) [fl_seen]) acc) unseen sn in
                  let all_flags := match c with CFetchFlagsBody _ => true | _ => false end in
                  let data := map (fun x => match snap_seq_of (sm_id x) sn 1 with
                                            | Some k => PFetch k (if fl_mem fl_seen (sm_flags x) then sm_flags x
                                                                  else fl_add (sm_flags x) [fl_seen]) None
                                            | None => PFetch 0 [] None end)
                                  (if all_flags then xs else unseen) in
                  let s1 := mkSess (ss_sel s) (mkS sn1 (s_res (ss_st s))) (ss_queue s) false in
                  let w0 := put_sess i s1 w in
                  let parts := store_parts w0 ms FAdd [fl_seen] in
                  let w1 := store_db w0 sel ms FAdd [fl_seen] in
                  match finish_issued w1 i [UFlags sel parts i false] false (sel_permits "Fetch") with
                  | Some (w', out, iss) => (w', data ++ out, if iss then OOkIssued else OOk)
                  | None => fail
                  end
              end
          | CFetchBodyRO ps with_flags =>
              match msgs_at sn ps with
              | None => (w, [], ONo)
              | Some xs =>
                  let data := if with_flags
                              then map (fun x => match snap_seq_of (sm_id x) sn 1 with
                                                 | Some k => PFetch k (sm_flags x) None
                                                 | None => PFetch 0 [] None end) xs
                              else [] in
                  match finish_issued w i [] false (sel_permits "Fetch") with
                  | Some (w', out, iss) => (w', data ++ out, if iss then OOkIssued else OOk)
                  | None => fail
                  end
              end
          | CProbe =>
              match finish_issued w i [] false (sel_permits "Fetch") with
              | Some (w', out, iss) => (w', probe_lines sn ++ out, if iss then OOkIssued else OOk)
              | None => fail
              end
          | CSearch => reti (finish_issued w i [] false (sel_permits "Search"))
          | CSearchBad =>
              match finish w i [] false (match trailing_flush with Some b => [b] | None => [] end) with
              | Some (w', out) => (w', out, ONo)
              | None => fail
              end
          | CNoop => ret (finish w i [] false (own_permits "handleNoop"))
          | CStatus => ret (finish w i [] false (own_permits "handleStatus"))
          | CCheck => ret (finish w i [] false (sel_permits "Check"))
          | CClose =>
              let ms := filter (fun m => row_has m (mbox_of w sel))
                               (map sm_id (filter (fun x => fl_mem fl_deleted (sm_flags x)) sn)) in
              let '(w1, ups) := remove_rows w sel ms in
              match broadcast ups (Some i) false 0 (w_sess w1) with
              | None => fail
              | Some ss =>
                  let w2 := set_sess ss w1 in
                  match get_sess w2 i with
                  | None => fail
                  | Some s1 =>
                      (* handleClose's flush permits expunges; in the CLOSE context the expunge responders answer nothing
                         and the responses are not merged (State.flushResponses) *)
                      match own_permits "handleClose" with
                      | [permit] =>
                          match flush_raw permit (ss_st s1) with
                          | None => fail
                          | Some (_, out) =>
                              (put_sess i (mkSess None (mkS [] []) (ss_queue s1) false) w2,
                               filter (fun r => negb (is_pexpunge r)) out, OOk)
                          end
                      | _ => fail
                      end
                  end
              end
          | CUnselect => (put_sess i (mkSess None (mkS [] []) (ss_queue s) false) w, [], OOk)
          | CIdle =>
              match sess_flush true s with
              | None => fail
              | Some (s', out) => (put_sess i (mkSess (ss_sel s') (ss_st s') (ss_queue s') true) w, out, OOk)
              end
          | _ => (w, [], OBadState)
          end
        end
      end
  end.

(* one queued update reaches session i *)
Definition do_deliver (w : world) (i : nat) : world * list resp * outcome :=
  match get_sess w i with
  | None => (w, [], OFail)
  | Some s =>
      match ss_queue s with
      | [] => (w, [], OBadState)
      | u :: q =>
          let s0 := mkSess (ss_sel s) (ss_st s) q (ss_idle s) in
          match apply_update u i s0 false with
          | None => (w, [], OFail)
          | Some (s1, out) => (put_sess i s1 w, out, OOk)
          end
      end
  end.

Definition queue_all (us : list update) (w : world) : world :=
  set_sess (map (fun s => mkSess (ss_sel s) (ss_st s) (ss_queue s ++ us) (ss_idle s)) (w_sess w)) w.

Definition mailboxes_of (w : world) (m : msgid) : list N :=
  map (fun k => N.of_nat k) (filter (fun k => row_has m (nth k (w_mbox w) [])) (seq 0 (length (w_mbox w)))).

Definition do_conn (w : world) (x : conn_update) : world :=
  match x with
  | XNew mb f =>
      let m := w_nextid w in
      let w1 := mkW (w_flags w ++ [(m, fl_rem f [fl_deleted])]) (w_mbox w) (w_next w) (m + 1) (w_sess w) in
      let '(w2, items) := add_rows w1 mb [m] in
      queue_all [UExists mb items None] w2
  | XNewBulk mb n =>
      let ids := map (fun k => w_nextid w + N.of_nat k) (seq 0 n) in
      let w1 := mkW (w_flags w ++ map (fun m => (m, [])) ids) (w_mbox w) (w_next w) (w_nextid w + N.of_nat n) (w_sess w) in
      let '(w2, items) := add_rows w1 mb ids in
      queue_all [UExists mb items None] w2
  | XFlag m flag add =>
      if Bool.eqb (fl_mem flag (flags_of (w_flags w) m)) add then w
      else queue_all [URemoteFlag m flag add]
             (set_flags (flags_upd (w_flags w) m (fun cur => if add then fl_add cur [flag] else fl_rem cur [flag])) w)
  | XDelete m =>
      let mbs := mailboxes_of w m in
      fold_left (fun acc mb => let '(w1, ups) := remove_rows acc mb [m] in queue_all ups w1) mbs w
  | XSetMailboxes m mbs =>
      let cur := mailboxes_of w m in
      let toadd := filter (fun mb => negb (existsb (N.eqb mb) cur)) mbs in
      let torem := filter (fun mb => negb (existsb (N.eqb mb) mbs)) cur in
      let w1 := fold_left (fun acc mb => let '(w', items) := add_rows acc mb [m] in queue_all [UExists mb items None] w') toadd w in
      fold_left (fun acc mb => let '(w', ups) := remove_rows acc mb [m] in queue_all ups w') torem w1
  end.

Definition step (w : world) (o : op) : world * list resp * outcome :=
  match o with
  | Cmd i c => do_cmd w i c
  | Deliver i => do_deliver w i
  | Conn x => (do_conn w x, [], OOk)
  end.

Definition init_world (nsess : nat) (nmbox : nat) : world :=
  mkW [] (repeat [] nmbox) (repeat 1 nmbox) 1 (repeat (mkSess None (mkS [] []) [] false) nsess).

(* run a history; the trace is the list of (untagged responses, outcome) per step *)
Fixpoint run (w : world) (h : list op) : world * list (list resp * outcome) :=
  match h with
  | [] => (w, [])
  | o :: t => let '(w1, out, oc) := step w o in
              let '(w2, tr) := run w1 t in (w2, (out, oc) :: tr)
  end.
