(* Lemmas for C18 (Model/AuthGate.v).  The lemmas about [gate] are proved by computation on the tables and guards that
   the translator generated (Gen/FactsCmdClass.v): if a command moves to another class or a guard disappears, they fail. *)
From Coq Require Import List String NArith Bool Lia.
From Gluon Require Import Gen.FactsCmdClass Model.AuthGate.
Import ListNotations.
Open Scope N_scope.

(* ---------- the classes RFC 3501 (+ UNSELECT, UIDPLUS, MOVE, ID, IDLE) assigns ---------- *)
Definition rfc_any : list cmdk := [CCapability; CIDGet; CIDSet; CNoop; CLogout].
Definition rfc_auth : list cmdk :=
  [CSelect; CExamine; CCreate; CDelete; CRename; CSubscribe; CUnsubscribe; CList; CLSub; CStatus; CAppend].
Definition rfc_selected : list cmdk :=
  [CCheck; CClose; CExpunge; CUIDExpunge; CUnselect; CSearch; CFetch; CStore; CCopy; CMove; CUID].
(* every command on mailboxes or messages (IDLE included: it reports mailbox changes) *)
Definition mailbox_cmds : list cmdk := rfc_auth ++ rfc_selected ++ [CIdle].

Definition cmdk_eqb (a b : cmdk) : bool := String.eqb (go_name a) (go_name b).
Lemma cmdk_eqb_eq : forall a b, cmdk_eqb a b = true <-> a = b.
Proof. intros a b. split; [|intros ->; apply String.eqb_refl]. destruct a, b; vm_compute; congruence. Qed.

Definition expected_class (c : cmdk) : option hclass :=
  match c with
  | CCapability | CIDGet | CIDSet | CNoop => Some HAny
  | CLogin => Some HNotAuth
  | CSelect | CExamine | CCreate | CDelete | CRename | CSubscribe | CUnsubscribe | CList | CLSub | CStatus | CAppend => Some HAuth
  | CCheck | CClose | CExpunge | CUIDExpunge | CUnselect | CSearch | CFetch | CStore | CCopy | CMove | CUID => Some HSelected
  | CLogout | CIdle | CStartTLS => None
  end.

Lemma class_table_ok : forall c, lookup (go_name c) dispatch = expected_class c.
Proof. destruct c; vm_compute; reflexivity. Qed.

Lemma apart_ok : forall c, (mem (go_name c) apart_serve || mem (go_name c) apart_reader)%bool = true <->
  In c [CLogout; CIdle; CStartTLS].
Proof. destruct c; vm_compute; split; intros H; first [discriminate | reflexivity | intuition congruence]. Qed.

(* ---------- the gate, state by state ---------- *)
Lemma gate_notauth : forall c, gate PNotAuth c =
  match c with
  | CCapability | CIDGet | CIDSet | CNoop => DAnyNoUser
  | CLogin => DLoginAttempt
  | CLogout => DLogout
  | CStartTLS => if starttls_without_tls_answers_no then DRefuse RNo else DDrop
  | _ => DRefuse RNo
  end.
Proof. destruct c; vm_compute; reflexivity. Qed.

Lemma gate_auth : forall u c, gate (PAuth u) c =
  match c with
  | CLogin => DRefuse RBad
  | CLogout => DLogout
  | CStartTLS => if starttls_without_tls_answers_no then DRefuse RNo else DDrop
  | CCheck | CClose | CExpunge | CUIDExpunge | CUnselect | CSearch | CFetch | CStore | CCopy | CMove | CUID => DRefuse RNo
  | _ => DAdmit u None
  end.
Proof. destruct c; vm_compute; reflexivity. Qed.

Lemma gate_sel : forall u m ro c, gate (PSel u m ro) c =
  match c with
  | CLogin => DRefuse RBad
  | CLogout => DLogout
  | CStartTLS => if starttls_without_tls_answers_no then DRefuse RNo else DDrop
  | _ => DAdmit u (Some (m, ro))
  end.
Proof. destruct c; vm_compute; reflexivity. Qed.

Lemma gate_closed : forall c, gate PClosed c = DRefuse RNone.
Proof. reflexivity. Qed.

Lemma gate_admit : forall st c u sel, gate st c = DAdmit u sel -> user_of st = Some u /\ sel = sel_of st.
Proof.
  intros st c u sel H. destruct st as [|v|v m ro|].
  - rewrite gate_notauth in H. destruct c; discriminate.
  - rewrite gate_auth in H. destruct c; inversion H; subst; split; reflexivity.
  - rewrite gate_sel in H. destruct c; inversion H; subst; split; reflexivity.
  - discriminate.
Qed.

Lemma gate_login : forall st c, gate st c = DLoginAttempt -> st = PNotAuth /\ c = CLogin.
Proof.
  intros st c H. destruct st as [|v|v m ro|].
  - rewrite gate_notauth in H. destruct c; try discriminate. split; reflexivity.
  - rewrite gate_auth in H. destruct c; discriminate.
  - rewrite gate_sel in H. destruct c; discriminate.
  - discriminate.
Qed.

Lemma gate_anynouser : forall st c, gate st c = DAnyNoUser -> st = PNotAuth.
Proof.
  intros st c H. destruct st as [|v|v m ro|]; [reflexivity| | |discriminate].
  - rewrite gate_auth in H. destruct c; discriminate.
  - rewrite gate_sel in H. destruct c; discriminate.
Qed.

Lemma short_circuit_false : forall n p, short_circuit n p = false.
Proof. intros. unfold short_circuit. change login_reaches_counter_on_every_path with true. reflexivity. Qed.

Section ServerProofs.
  Variable ustore : Type.
  Variable hres : cmdk -> N -> option (N * bool) -> ustore -> res.
  Variable heff : cmdk -> N -> option (N * bool) -> ustore -> ustore.
  Variable creds : list (N * (list N * N)).
  Variable jail_time : N.

  Notation gstate := (gstate ustore).
  Notation step := (step ustore hres heff creds jail_time).
  Notation run := (run ustore hres heff creds jail_time).
  Notation trace := (trace ustore hres heff creds jail_time).
  Notation authorize := (authorize creds).
  Notation login_step := (login_step jail_time).

  Definition st_of (g : gstate) (s : N) : pstate := sess_get (g_sess ustore g) s.
  Definition stores_of (g : gstate) : N -> ustore := g_stores ustore g.

  Lemma sess_get_set_same : forall l s p, sess_get (sess_set l s p) s = p.
  Proof. intros. unfold sess_set. cbn [sess_get]. rewrite N.eqb_refl. reflexivity. Qed.
  Lemma sess_get_set_other : forall l s s' p, s <> s' -> sess_get (sess_set l s p) s' = sess_get l s'.
  Proof. intros. unfold sess_set. cbn [sess_get]. destruct (N.eqb_spec s s'); [congruence|reflexivity]. Qed.

  Lemma login_step_shape : forall f j arr ok, exists f' j' t,
    login_step f j arr ok = (f', j', (if ok then ROk else RNo), t).
  Proof.
    intros. unfold AuthGate.login_step. destruct ok.
    - eexists _, _, _. reflexivity.
    - destruct (_ && _ && _)%bool; eexists _, _, _; reflexivity.
  Qed.

  (* ---- one step: what can change ---- *)

  (* only the acting connection changes its protocol state *)
  Lemma step_other_sessions : forall g e s, s <> e_sid e -> st_of (fst (fst (step g e))) s = st_of g s.
  Proof.
    intros g e s Hne. unfold AuthGate.step, st_of. rewrite ?short_circuit_false.
    destruct (gate (sess_get (g_sess ustore g) (e_sid e)) (e_cmd e)) eqn:Hg; cbn [fst g_sess]; try reflexivity.
    - apply sess_get_set_other. congruence.
    - destruct (login_step_shape (g_fails ustore g) (g_jail ustore g) (e_time e)
                  (match authorize (e_name e) (e_pass e) with Some _ => true | None => false end)) as (f' & j' & t & Hl).
      rewrite Hl. cbn [fst g_sess]. destruct (authorize (e_name e) (e_pass e)); [|reflexivity].
      apply sess_get_set_other. congruence.
    - apply sess_get_set_other. congruence.
    - apply sess_get_set_other. congruence.
  Qed.

  (* a store changes only through a command admitted in a session of its owner *)
  Lemma step_store_frame : forall g e v, user_of (st_of g (e_sid e)) <> Some v ->
    stores_of (fst (fst (step g e))) v = stores_of g v.
  Proof.
    intros g e v Hu. unfold AuthGate.step, stores_of, st_of in *. rewrite ?short_circuit_false.
    destruct (gate (sess_get (g_sess ustore g) (e_sid e)) (e_cmd e)) eqn:Hg; cbn [fst g_stores]; try reflexivity.
    - apply gate_admit in Hg. destruct Hg as [Hg _]. unfold store_set.
      destruct (N.eqb_spec v u); [subst; congruence|reflexivity].
    - destruct (login_step_shape (g_fails ustore g) (g_jail ustore g) (e_time e)
                  (match authorize (e_name e) (e_pass e) with Some _ => true | None => false end)) as (f' & j' & t & Hl).
      rewrite Hl. reflexivity.
  Qed.

  (* a command refused by the gate changes nothing at all *)
  Lemma step_refused : forall g e r, gate (st_of g (e_sid e)) (e_cmd e) = DRefuse r ->
    step g e = (g, r, e_time e).
  Proof. intros g e r H. unfold AuthGate.step. unfold st_of in H. rewrite H. reflexivity. Qed.

  (* ---- before LOGIN ---- *)
  Lemma notauth_step : forall g e, st_of g (e_sid e) = PNotAuth ->
    (forall v, stores_of (fst (fst (step g e))) v = stores_of g v)
    /\ (In (e_cmd e) mailbox_cmds -> step g e = (g, RNo, e_time e)).
  Proof.
    intros g e Hst. split.
    - intros v. apply step_store_frame. rewrite Hst. discriminate.
    - intros Hin. apply step_refused. rewrite Hst, gate_notauth.
      unfold mailbox_cmds, rfc_auth, rfc_selected in Hin. cbn [app In] in Hin.
      repeat (destruct Hin as [<-|Hin]; [reflexivity|]). destruct Hin.
  Qed.

  (* ---- without a selected mailbox ---- *)
  Lemma unselected_step : forall g e, sel_of (st_of g (e_sid e)) = None -> st_of g (e_sid e) <> PClosed ->
    In (e_cmd e) rfc_selected -> step g e = (g, RNo, e_time e).
  Proof.
    intros g e Hsel Hcl Hin. apply step_refused.
    destruct (st_of g (e_sid e)) as [|u|u m ro|] eqn:Hst; try discriminate; try congruence.
    - rewrite gate_notauth. unfold rfc_selected in Hin. cbn [In] in Hin.
      repeat (destruct Hin as [<-|Hin]; [reflexivity|]). destruct Hin.
    - rewrite gate_auth. unfold rfc_selected in Hin. cbn [In] in Hin.
      repeat (destruct Hin as [<-|Hin]; [reflexivity|]). destruct Hin.
  Qed.

  (* ---- who a connection acts for ---- *)
  Definition valid_cred (u name pass : N) : Prop :=
    exists c, In c creds /\ fst c = u /\ cred_ok name pass c = true.

  Lemma authorize_valid : forall name pass u, authorize name pass = Some u -> valid_cred u name pass.
  Proof.
    intros name pass u H. unfold AuthGate.authorize in H.
    destruct (find (cred_ok name pass) creds) as [c|] eqn:Hf; [|discriminate].
    inversion H; subst. apply find_some in Hf. exists c. tauto.
  Qed.

  (* the user of a connection is set by a LOGIN with valid credentials and never changes afterwards *)
  Lemma step_user : forall g e,
    let st := st_of g (e_sid e) in
    let st' := st_of (fst (fst (step g e))) (e_sid e) in
    match user_of st with
    | Some u => user_of st' = Some u \/ st' = PClosed
    | None => forall u, user_of st' = Some u ->
                st = PNotAuth /\ e_cmd e = CLogin /\ valid_cred u (e_name e) (e_pass e) /\ snd (fst (step g e)) = ROk
    end.
  Proof.
    intros g e st st'. subst st st'. unfold AuthGate.step, st_of. rewrite ?short_circuit_false.
    destruct (gate (sess_get (g_sess ustore g) (e_sid e)) (e_cmd e)) eqn:Hg; cbn [fst snd g_sess].
    - destruct (user_of _); [left; reflexivity|]. intros u Hu. congruence.
    - apply gate_admit in Hg. destruct Hg as [Hu _]. rewrite Hu. rewrite sess_get_set_same.
      left. unfold mk_state. destruct (sel_after _ _ _ _) as [[m ro]|]; reflexivity.
    - apply gate_anynouser in Hg. rewrite Hg. cbn [user_of]. intros u Hu. discriminate.
    - apply gate_login in Hg. destruct Hg as [Hst Hc]. rewrite Hst. cbn [user_of]. intros u.
      destruct (login_step_shape (g_fails ustore g) (g_jail ustore g) (e_time e)
                  (match authorize (e_name e) (e_pass e) with Some _ => true | None => false end)) as (f' & j' & t & Hl).
      rewrite Hl. cbn [fst snd g_sess].
      destruct (authorize (e_name e) (e_pass e)) as [w|] eqn:Ha.
      + rewrite sess_get_set_same. cbn [user_of]. intros Hu. inversion Hu; subst.
        repeat split; auto. apply authorize_valid. exact Ha.
      + rewrite Hst. cbn [user_of]. discriminate.
    - rewrite sess_get_set_same. destruct (user_of _); [right; reflexivity|]. intros u Hu. discriminate.
    - rewrite sess_get_set_same. destruct (user_of _); [right; reflexivity|]. intros u Hu. discriminate.
  Qed.

  (* every LOGIN of a not-authenticated connection, whatever name and password it carries (empty ones included), goes
     through the failure counter and the jail wait *)
  Lemma login_always_counts : forall g e, st_of g (e_sid e) = PNotAuth -> e_cmd e = CLogin ->
    let ok := match authorize (e_name e) (e_pass e) with Some _ => true | None => false end in
    let '(f, j, r, t) := login_step (g_fails ustore g) (g_jail ustore g) (e_time e) ok in
    g_fails ustore (fst (fst (step g e))) = f /\ g_jail ustore (fst (fst (step g e))) = j
    /\ snd (fst (step g e)) = r /\ snd (step g e) = t.
  Proof.
    intros g e Hst Hc. unfold AuthGate.step. rewrite ?short_circuit_false. unfold st_of in Hst.
    rewrite Hst, Hc, gate_notauth.
    destruct (login_step (g_fails ustore g) (g_jail ustore g) (e_time e)
                (match authorize (e_name e) (e_pass e) with Some _ => true | None => false end)) as [[[f j] r] t].
    cbn [fst snd g_fails g_jail]. repeat split.
  Qed.

  (* ---- lifting step facts to every history ---- *)
  Lemma trace_forall : forall (P : gstate * event * gstate * res * N -> Prop),
    (forall g e, P (g, e, fst (fst (step g e)), snd (fst (step g e)), snd (step g e))) ->
    forall h g, Forall P (trace g h).
  Proof.
    intros P HP h. induction h as [|e t IH]; intros g; cbn [AuthGate.trace]; [constructor|].
    specialize (HP g e). destruct (step g e) as [[g' r] ta]. cbn [fst snd] in HP. constructor; [exact HP|apply IH].
  Qed.

  (* ---- isolation (reads): the store of v never influences what the others see ---- *)
  Definition agree_except (v : N) (g1 g2 : gstate) : Prop :=
    g_sess ustore g1 = g_sess ustore g2 /\ g_fails ustore g1 = g_fails ustore g2 /\ g_jail ustore g1 = g_jail ustore g2
    /\ forall u, u <> v -> stores_of g1 u = stores_of g2 u.
  Definition nobody_is (v : N) (g : gstate) : Prop := forall s, user_of (st_of g s) <> Some v.

  Lemma nobody_set : forall v (g : gstate) l f j s p, nobody_is v g -> l = g_sess ustore g -> user_of p <> Some v ->
    nobody_is v (mkG ustore (sess_set l s p) (g_stores ustore g) f j).
  Proof.
    intros v g l f j s p Hno -> Hp s'. unfold st_of. cbn [g_sess].
    destruct (N.eq_dec s s') as [<-|Hne].
    - rewrite sess_get_set_same. exact Hp.
    - rewrite sess_get_set_other by exact Hne. apply Hno.
  Qed.

  Lemma step_agree : forall v g1 g2 e, agree_except v g1 g2 -> nobody_is v g1 ->
    authorize (e_name e) (e_pass e) <> Some v ->
    let '(g1', r1, t1) := step g1 e in
    let '(g2', r2, t2) := step g2 e in
    r1 = r2 /\ t1 = t2 /\ agree_except v g1' g2' /\ nobody_is v g1'.
  Proof.
    intros v g1 g2 e (Hs & Hf & Hj & Hst) Hno Hauth.
    pose proof (Hno (e_sid e)) as Hme.
    unfold AuthGate.step. rewrite ?short_circuit_false. unfold st_of in *. rewrite <- Hs, <- Hf, <- Hj.
    destruct (gate (sess_get (g_sess ustore g1) (e_sid e)) (e_cmd e)) eqn:Hg.
    - repeat split; auto.
    - pose proof (gate_admit _ _ _ _ Hg) as [Hu Hsel].
      assert (Huv : u <> v) by (intros ->; congruence).
      unfold stores_of in Hst. rewrite <- (Hst u Huv).
      split; [reflexivity|]. split; [reflexivity|]. split.
      + repeat split; cbn [g_sess g_fails g_jail]; auto.
        intros w Hw. unfold stores_of. cbn [g_stores]. unfold store_set.
        destruct (N.eqb_spec w u); [reflexivity|]. apply Hst. exact Hw.
      + intros s. unfold st_of. cbn [g_sess]. destruct (N.eq_dec (e_sid e) s) as [<-|Hne].
        * rewrite sess_get_set_same. unfold mk_state.
          destruct (sel_after _ _ _ _) as [[m ro]|]; cbn [user_of]; congruence.
        * rewrite sess_get_set_other by exact Hne. apply Hno.
    - repeat split; auto.
    - destruct (login_step_shape (g_fails ustore g1) (g_jail ustore g1) (e_time e)
                  (match authorize (e_name e) (e_pass e) with Some _ => true | None => false end)) as (f' & j' & t & Hl).
      rewrite Hl. split; [reflexivity|]. split; [reflexivity|]. split.
      + repeat split; cbn [g_sess g_fails g_jail]; auto.
      + destruct (authorize (e_name e) (e_pass e)) as [w|] eqn:Ha.
        * apply (nobody_set v g1); auto; cbn [user_of]; congruence.
        * intros s. apply Hno.
    - split; [reflexivity|]. split; [reflexivity|]. split.
      + repeat split; cbn [g_sess g_fails g_jail]; auto.
      + apply (nobody_set v g1); auto; discriminate.
    - split; [reflexivity|]. split; [reflexivity|]. split.
      + repeat split; cbn [g_sess g_fails g_jail]; auto.
      + apply (nobody_set v g1); auto; discriminate.
  Qed.

  Definition answers (tr : list (gstate * event * gstate * res * N)) : list (res * N) :=
    map (fun x => (snd (fst x), snd x)) tr.

  Lemma noninterference : forall v h g1 g2, agree_except v g1 g2 -> nobody_is v g1 ->
    Forall (fun e => authorize (e_name e) (e_pass e) <> Some v) h ->
    answers (trace g1 h) = answers (trace g2 h) /\ agree_except v (run g1 h) (run g2 h).
  Proof.
    intros v h. induction h as [|e t IH]; intros g1 g2 Hag Hno Hall; [split; [reflexivity|exact Hag]|].
    inversion Hall as [|? ? He Ht]; subst.
    pose proof (step_agree v g1 g2 e Hag Hno He) as Hstep.
    cbn [AuthGate.trace AuthGate.run].
    destruct (step g1 e) as [[g1' r1] t1]. destruct (step g2 e) as [[g2' r2] t2].
    destruct Hstep as (Hr & Htm & Hag' & Hno'). cbn [fst].
    destruct (IH g1' g2' Hag' Hno' Ht) as [IH1 IH2]. split; [|exact IH2].
    unfold answers in *. cbn [map fst snd]. rewrite IH1. subst. reflexivity.
  Qed.

  (* ---- the login jail ---- *)
  (* consecutive failures, counted from the last success or the last jail *)
  Definition streak_step (s : N) (x : res * N) : N :=
    match fst x with ROk => 0 | _ => if s + 1 =? 3 then 0 else s + 1 end.
  Definition streak (l : list (res * N)) (s : N) : N := fold_left streak_step l s.

  (* the login attempts of a list of (arrival, credentials accepted) on the login state *)
  Fixpoint lg_run (f : N) (j : option N) (inp : list (N * bool)) : list (res * N) :=
    match inp with
    | [] => []
    | (arr, ok) :: t => let '(f', j', r, ta) := login_step f j arr ok in (r, ta) :: lg_run f' j' t
    end.

  Definition lg_inv (f : N) (j : option N) (s : N) : Prop :=
    (j = None /\ f = s /\ s < 3) \/ (exists T, j = Some T /\ s = 0 /\ f = 3).

  Lemma lg_inv_step : forall f j s arr ok, lg_inv f j s ->
    let '(f', j', r, ta) := login_step f j arr ok in
    r = (if ok then ROk else RNo) /\ lg_inv f' j' (streak_step s (r, ta)).
  Proof.
    intros f j s arr ok Hinv. unfold AuthGate.login_step, streak_step.
    change login_serialised_and_waits_for_jail_first with true.
    change jail_timer_resets_counter with true. change login_success_resets_counter with true.
    change max_login_attempts with 3. change jail_cmp_ok with true. change jail_arms_timer_and_answers_blocked with true.
    destruct Hinv as [(-> & -> & Hs)|(T & -> & -> & ->)]; cbn [orb andb fst snd].
    - destruct ok.
      + split; [reflexivity|]. left. repeat split; lia.
      + destruct (N.eqb_spec (s + 1) 3) as [E|E]; cbn [andb fst].
        * split; [reflexivity|]. right. eexists. repeat split. exact E.
        * split; [reflexivity|]. left. repeat split; lia.
    - destruct ok.
      + split; [reflexivity|]. left. repeat split; lia.
      + cbn. split; [reflexivity|]. left. repeat split; lia.
  Qed.

  Lemma lg_three_failures : forall f j a1 a2 a3 a4 o1 o2 o3 o4 rest x1 x2 x3 y post,
    lg_inv f j 0 ->
    lg_run f j ((a1, o1) :: (a2, o2) :: (a3, o3) :: (a4, o4) :: rest) = x1 :: x2 :: x3 :: y :: post ->
    fst x1 = RNo -> fst x2 = RNo -> fst x3 = RNo -> snd x3 + jail_time <= snd y.
  Proof.
    intros f j a1 a2 a3 a4 o1 o2 o3 o4 rest x1 x2 x3 y post Hinv Hrun H1 H2 H3.
    cbn [lg_run] in Hrun.
    pose proof (lg_inv_step f j 0 a1 o1 Hinv) as S1.
    destruct (login_step f j a1 o1) as [[[f1 j1] r1] t1]. destruct S1 as [R1 I1].
    pose proof (lg_inv_step f1 j1 _ a2 o2 I1) as S2.
    destruct (login_step f1 j1 a2 o2) as [[[f2 j2] r2] t2]. destruct S2 as [R2 I2].
    inversion Hrun as [[E1 E2 E3]]. clear Hrun.
    subst x1 x2. cbn [fst] in H1, H2. subst r1 r2.
    destruct o1; [discriminate|]. destruct o2; [discriminate|].
    unfold streak_step in I1, I2. cbn in I1. cbn in I2.
    (* after two failures from streak 0: counter 2, no timer *)
    destruct I2 as [(-> & -> & _)|(T & _ & Hbad & _)]; [|discriminate].
    revert E3. unfold AuthGate.login_step.
    change login_serialised_and_waits_for_jail_first with true.
    change jail_timer_resets_counter with true. change login_success_resets_counter with true.
    change max_login_attempts with 3. change jail_cmp_ok with true. change jail_arms_timer_and_answers_blocked with true.
    cbn [orb andb]. destruct o3.
    - cbn. intros E3. inversion E3 as [[Ex3 Ey]]. subst x3. discriminate.
    - cbn. intros E3. inversion E3 as [[Ex3 Ey]]. subst x3. cbn [snd].
      destruct o4; inversion Ey as [[Ey1 Ey2]]; subst y; cbn [snd]; lia.
  Qed.

  Lemma lg_jail : forall inp f j s, lg_inv f j s ->
    forall pre x1 x2 x3 y post, lg_run f j inp = pre ++ x1 :: x2 :: x3 :: y :: post ->
    streak pre s = 0 -> fst x1 = RNo -> fst x2 = RNo -> fst x3 = RNo -> snd x3 + jail_time <= snd y.
  Proof.
    intros inp f j s Hinv pre. revert inp f j s Hinv.
    induction pre as [|p pre IH]; intros inp f j s Hinv x1 x2 x3 y post Hrun Hstreak H1 H2 H3.
    - cbn [streak fold_left] in Hstreak. subst s. cbn [app] in Hrun.
      destruct inp as [|[a1 o1] [|[a2 o2] [|[a3 o3] [|[a4 o4] rest]]]].
      + discriminate.
      + cbn [lg_run] in Hrun. destruct (login_step f j a1 o1) as [[[? ?] ?] ?]. discriminate.
      + cbn [lg_run] in Hrun. destruct (login_step f j a1 o1) as [[[f1 j1] ?] ?].
        destruct (login_step f1 j1 a2 o2) as [[[? ?] ?] ?]. discriminate.
      + cbn [lg_run] in Hrun. destruct (login_step f j a1 o1) as [[[f1 j1] ?] ?].
        destruct (login_step f1 j1 a2 o2) as [[[f2 j2] ?] ?].
        destruct (login_step f2 j2 a3 o3) as [[[? ?] ?] ?]. discriminate.
      + eapply lg_three_failures; eauto.
    - destruct inp as [|[a o] inp']; [discriminate|].
      cbn [lg_run app] in Hrun.
      pose proof (lg_inv_step f j s a o Hinv) as S.
      destruct (login_step f j a o) as [[[f' j'] r] ta]. destruct S as [_ I'].
      inversion Hrun as [[Ep Erest]]. subst p.
      apply (IH inp' f' j' _ I' x1 x2 x3 y post Erest); auto.
  Qed.

  (* the login attempts inside a history *)
  Definition is_attempt (x : gstate * event * gstate * res * N) : bool :=
    let '(g, e, _, _, _) := x in
    match gate (st_of g (e_sid e)) (e_cmd e) with DLoginAttempt => true | _ => false end.
  Definition attempts (tr : list (gstate * event * gstate * res * N)) := filter is_attempt tr.
  Definition attempt_input (x : gstate * event * gstate * res * N) : N * bool :=
    let '(_, e, _, _, _) := x in
    (e_time e, match authorize (e_name e) (e_pass e) with Some _ => true | None => false end).

  Lemma attempts_are_lg_run : forall h g,
    answers (attempts (trace g h))
    = lg_run (g_fails ustore g) (g_jail ustore g) (map attempt_input (attempts (trace g h))).
  Proof.
    induction h as [|e t IH]; intros g; [reflexivity|].
    cbn [AuthGate.trace]. destruct (step g e) as [[g' r] ta] eqn:Hstep.
    unfold attempts. cbn [filter is_attempt].
    unfold AuthGate.step in Hstep. rewrite ?short_circuit_false in Hstep. unfold st_of.
    destruct (gate (sess_get (g_sess ustore g) (e_sid e)) (e_cmd e)) eqn:Hg.
    - inversion Hstep; subst. apply IH.
    - inversion Hstep; subst. rewrite IH. reflexivity.
    - inversion Hstep; subst. apply IH.
    - unfold answers. cbn [map attempt_input lg_run fst snd].
      destruct (login_step (g_fails ustore g) (g_jail ustore g) (e_time e)
                  (match authorize (e_name e) (e_pass e) with Some _ => true | None => false end))
        as [[[f' j'] r'] t'] eqn:Hl.
      inversion Hstep; subst. f_equal.
      match goal with |- context [trace ?G t] => specialize (IH G) end.
      unfold answers, attempts in IH. rewrite IH. reflexivity.
    - inversion Hstep; subst. rewrite IH. reflexivity.
    - inversion Hstep; subst. rewrite IH. reflexivity.
  Qed.

  Lemma jail_in_history : forall stores h pre x1 x2 x3 y post,
    answers (attempts (trace (init ustore stores) h)) = pre ++ x1 :: x2 :: x3 :: y :: post ->
    streak pre 0 = 0 -> fst x1 = RNo -> fst x2 = RNo -> fst x3 = RNo -> snd x3 + jail_time <= snd y.
  Proof.
    intros stores h pre x1 x2 x3 y post Hrun Hs H1 H2 H3. rewrite attempts_are_lg_run in Hrun.
    refine (lg_jail _ _ _ 0 _ pre x1 x2 x3 y post Hrun Hs H1 H2 H3).
    left. cbn. repeat split.
  Qed.

  (* ---- the step facts over every history ---- *)
  Definition t_pre (x : gstate * event * gstate * res * N) : gstate := fst (fst (fst (fst x))).
  Definition t_ev (x : gstate * event * gstate * res * N) : event := snd (fst (fst (fst x))).
  Definition t_post (x : gstate * event * gstate * res * N) : gstate := snd (fst (fst x)).
  Definition t_res (x : gstate * event * gstate * res * N) : res := snd (fst x).
  Definition t_actor (x : gstate * event * gstate * res * N) : pstate := st_of (t_pre x) (e_sid (t_ev x)).
  Definition t_actor_after (x : gstate * event * gstate * res * N) : pstate := st_of (t_post x) (e_sid (t_ev x)).

  Lemma step_eta : forall g e, step g e = (fst (fst (step g e)), snd (fst (step g e)), snd (step g e)).
  Proof. intros. destruct (step g e) as [[? ?] ?]. reflexivity. Qed.

  Lemma notauth_history : forall g h, Forall (fun x =>
      t_actor x = PNotAuth ->
      (forall v, stores_of (t_post x) v = stores_of (t_pre x) v)
      /\ (In (e_cmd (t_ev x)) mailbox_cmds -> t_post x = t_pre x /\ t_res x = RNo)) (trace g h).
  Proof.
    intros g h. apply trace_forall. intros g0 e Hst.
    unfold t_actor, t_pre, t_ev, t_post, t_res in *. cbn [fst snd] in *.
    destruct (notauth_step g0 e Hst) as [H1 H2]. split; [exact H1|].
    intros Hin. rewrite (H2 Hin). cbn [fst snd]. split; reflexivity.
  Qed.

  Lemma unselected_history : forall g h, Forall (fun x =>
      sel_of (t_actor x) = None -> t_actor x <> PClosed -> In (e_cmd (t_ev x)) rfc_selected ->
      t_post x = t_pre x /\ t_res x = RNo) (trace g h).
  Proof.
    intros g h. apply trace_forall. intros g0 e Hsel Hcl Hin.
    unfold t_actor, t_pre, t_ev, t_post, t_res in *. cbn [fst snd] in *.
    rewrite (unselected_step g0 e Hsel Hcl Hin). cbn [fst snd]. split; reflexivity.
  Qed.

  Lemma frame_history : forall g h, Forall (fun x =>
      (forall v, user_of (t_actor x) <> Some v -> stores_of (t_post x) v = stores_of (t_pre x) v)
      /\ (forall s, s <> e_sid (t_ev x) -> st_of (t_post x) s = st_of (t_pre x) s)) (trace g h).
  Proof.
    intros g h. apply trace_forall. intros g0 e.
    unfold t_actor, t_pre, t_ev, t_post in *. cbn [fst snd]. split.
    - intros v Hv. apply step_store_frame. exact Hv.
    - intros s Hs. apply step_other_sessions. exact Hs.
  Qed.

  Lemma user_history : forall g h, Forall (fun x =>
      match user_of (t_actor x) with
      | Some u => user_of (t_actor_after x) = Some u \/ t_actor_after x = PClosed
      | None => forall u, user_of (t_actor_after x) = Some u ->
                  t_actor x = PNotAuth /\ e_cmd (t_ev x) = CLogin
                  /\ valid_cred u (e_name (t_ev x)) (e_pass (t_ev x)) /\ t_res x = ROk
      end) (trace g h).
  Proof.
    intros g h. apply trace_forall. intros g0 e.
    unfold t_actor, t_actor_after, t_pre, t_ev, t_post, t_res. cbn [fst snd]. apply step_user.
  Qed.
End ServerProofs.
