package main

// Extractor "Serve" -> coq/Gen/FactsServe.v (property C19): how Server.Close reaches the sessions.
//
// A session that owns a state is told to stop through that state (user.closeStates -> State.SignalClose); a session
// without a state (client connected but not logged in, or in the middle of its LOGIN) has no such signal. What ends it
// on Close is that Server.serve closes every accepted connection when it returns: the `defer conn.Close()` statements
// sit in the accept loop of serve itself (they run when serve returns), serve returns when serveDoneCh is closed, and
// Close closes serveDoneCh and waits for serve before it closes the backend. Session.serve leaves its loop when the
// command reader's channel is closed, and the reader ends on a read error. Each of these is read off the syntax:
//
//	serve_defers_conn_close_on_return   server.go  (*Server).serve: a DeferStmt `<conn>.Close()` directly in serve's body
//	                                    (not inside a function literal), <conn> being the variable received from connCh
//	serve_returns_on_done               (*Server).serve: select has a case `<-s.serveDoneCh` whose body returns
//	close_stops_serving_before_backend  (*Server).Close: close(s.serveDoneCh), then s.serveWG.Wait(), then s.backend.Close
//	session_loop_ends_with_reader       internal/session/session.go (*Session).serve: `case res, ok := <-cmdCh` with
//	                                    `if !ok { return ... }`
//	session_done_closes_conn            (*Session).done calls s.conn.Close()
//	idle_writer_drains_until_closed     internal/session/handle_idle.go: no return/break in the `for res := range resCh` loop of
//	                                    handleIdle; sendResponsesInBulks returns only when the channel is closed
//	remove_state_cannot_abort_early     internal/backend/user.go (*user).removeState has no return statement before the
//	                                    state is taken out of user.states (followed by `defer user.statesWG.Done()`)

import (
	"fmt"
	"go/ast"
	"go/token"
	"strings"
)

func init() { register("Serve", factsServe) }

// walkNoLit visits the statements of a body without entering function literals.
func walkNoLit(n ast.Node, f func(ast.Node) bool) {
	ast.Inspect(n, func(x ast.Node) bool {
		if _, ok := x.(*ast.FuncLit); ok {
			return false
		}
		if x == nil {
			return false
		}
		return f(x)
	})
}

func isRecvFrom(e ast.Expr, text func(ast.Node) string, what string) bool {
	u, ok := e.(*ast.UnaryExpr)
	return ok && u.Op == token.ARROW && strings.HasSuffix(text(u.X), what)
}

func hasReturn(stmts []ast.Stmt) bool {
	found := false
	for _, s := range stmts {
		walkNoLit(s, func(x ast.Node) bool {
			if _, ok := x.(*ast.ReturnStmt); ok {
				found = true
			}
			return true
		})
	}
	return found
}

func factsServe(t *T) (string, error) {
	const srvFile, sessFile = "server.go", "internal/session/session.go"
	srv, err := t.ParseFile(srvFile)
	if err != nil {
		return "", err
	}
	sess, err := t.ParseFile(sessFile)
	if err != nil {
		return "", err
	}
	serve := FuncDecl(srv, "Server", "serve")
	closeFn := FuncDecl(srv, "Server", "Close")
	sserve := FuncDecl(sess, "Session", "serve")
	sdone := FuncDecl(sess, "Session", "done")
	if serve == nil || closeFn == nil || sserve == nil || sdone == nil {
		return "", fmt.Errorf("Server.serve / Server.Close / Session.serve / Session.done not found")
	}
	srvText := func(n ast.Node) string { return t.Src(srvFile, n) }
	sessText := func(n ast.Node) string { return t.Src(sessFile, n) }

	// 1. the connection variable received from connCh, and a defer <conn>.Close() at serve's own level
	connVar := ""
	returnsOnDone := false
	walkNoLit(serve.Body, func(x ast.Node) bool {
		cc, ok := x.(*ast.CommClause)
		if !ok {
			return true
		}
		switch c := cc.Comm.(type) {
		case *ast.AssignStmt:
			if len(c.Rhs) == 1 && isRecvFrom(c.Rhs[0], srvText, "connCh") && len(c.Lhs) >= 1 {
				if id, ok := c.Lhs[0].(*ast.Ident); ok {
					connVar = id.Name
				}
			}
		case *ast.ExprStmt:
			if isRecvFrom(c.X, srvText, "serveDoneCh") && hasReturn(cc.Body) {
				returnsOnDone = true
			}
		}
		return true
	})
	defersClose := false
	if connVar != "" {
		walkNoLit(serve.Body, func(x ast.Node) bool {
			if d, ok := x.(*ast.DeferStmt); ok {
				if sel, ok := d.Call.Fun.(*ast.SelectorExpr); ok && sel.Sel.Name == "Close" && len(d.Call.Args) == 0 {
					if id, ok := sel.X.(*ast.Ident); ok && id.Name == connVar {
						defersClose = true
					}
				}
			}
			return true
		})
	}
	// 2. Close: close(serveDoneCh) < serveWG.Wait() < backend.Close
	posDone, posWait, posBackend := token.NoPos, token.NoPos, token.NoPos
	walkNoLit(closeFn.Body, func(x ast.Node) bool {
		call, ok := x.(*ast.CallExpr)
		if !ok {
			return true
		}
		txt := srvText(call)
		switch {
		case strings.HasPrefix(txt, "close(") && strings.Contains(txt, "serveDoneCh") && posDone == token.NoPos:
			posDone = call.Pos()
		case strings.Contains(txt, "serveWG.Wait()") && posWait == token.NoPos:
			posWait = call.Pos()
		case strings.Contains(txt, "backend.Close(") && posBackend == token.NoPos:
			posBackend = call.Pos()
		}
		return true
	})
	closeOrder := posDone != token.NoPos && posWait != token.NoPos && posBackend != token.NoPos && posDone < posWait && posWait < posBackend
	// 3. Session.serve: case res, ok := <-cmdCh ; if !ok { return }
	loopEnds := false
	walkNoLit(sserve.Body, func(x ast.Node) bool {
		cc, ok := x.(*ast.CommClause)
		if !ok {
			return true
		}
		as, ok := cc.Comm.(*ast.AssignStmt)
		if !ok || len(as.Rhs) != 1 || !isRecvFrom(as.Rhs[0], sessText, "cmdCh") || len(as.Lhs) != 2 {
			return true
		}
		okVar := sessText(as.Lhs[1])
		for _, st := range cc.Body {
			if ifs, ok := st.(*ast.IfStmt); ok && strings.ReplaceAll(sessText(ifs.Cond), " ", "") == "!"+okVar && hasReturn(ifs.Body.List) {
				loopEnds = true
			}
		}
		return true
	})
	// 4. Session.done closes the connection
	doneCloses := false
	walkNoLit(sdone.Body, func(x ast.Node) bool {
		if call, ok := x.(*ast.CallExpr); ok && strings.HasSuffix(sessText(call.Fun), "conn.Close") {
			doneCloses = true
		}
		return true
	})
	// 5. user.removeState: no return statement (outside function literals) before `defer user.statesWG.Done()`
	//    except the one that follows the removal from the map itself (fn() failing means the state was not registered)
	removeOK := false
	if uf, err := t.ParseFile("internal/backend/user.go"); err == nil {
		if rs := FuncDecl(uf, "user", "removeState"); rs != nil {
			userText := func(n ast.Node) string { return t.Src("internal/backend/user.go", n) }
			posDefer, posRemoval := token.NoPos, token.NoPos
			var returns []token.Pos
			walkNoLit(rs.Body, func(x ast.Node) bool {
				switch v := x.(type) {
				case *ast.DeferStmt:
					if strings.Contains(userText(v), "statesWG.Done()") && posDefer == token.NoPos {
						posDefer = v.Pos()
					}
				case *ast.AssignStmt:
					if len(v.Rhs) == 1 && strings.HasPrefix(userText(v.Rhs[0]), "fn()") && posRemoval == token.NoPos {
						posRemoval = v.Pos()
					}
				case *ast.ReturnStmt:
					returns = append(returns, v.Pos())
				}
				return true
			})
			removeOK = posDefer != token.NoPos && posRemoval != token.NoPos && posRemoval < posDefer
			for _, r := range returns {
				if r < posRemoval {
					removeOK = false // an early return: the state would stay registered and statesWG would never be released
				}
			}
		}
	}
	// 6. the goroutine that writes the IDLE responses keeps taking them until state.idleCh is closed (endIdle): whoever
	//    pushes a response (State.ApplyUpdate, inside a database transaction) would block for ever otherwise.
	//    handle_idle.go handleIdle: the `for res := range resCh` loop has no return / break / goto in its body;
	//    sendResponsesInBulks: every return sits under `if !ok` of the receive from resCh.
	idleDrains := false
	if hf, err := t.ParseFile("internal/session/handle_idle.go"); err == nil {
		idleText := func(n ast.Node) string {
			return strings.ReplaceAll(t.Src("internal/session/handle_idle.go", n), " ", "")
		}
		rangeOK, rangeFound := true, false
		if hi := FuncDecl(hf, "Session", "handleIdle"); hi != nil {
			ast.Inspect(hi.Body, func(n ast.Node) bool {
				rs, ok := n.(*ast.RangeStmt)
				if !ok || idleText(rs.X) != "resCh" {
					return true
				}
				rangeFound = true
				ast.Inspect(rs.Body, func(m ast.Node) bool {
					switch v := m.(type) {
					case *ast.FuncLit:
						return false
					case *ast.ReturnStmt:
						rangeOK = false
					case *ast.BranchStmt:
						if v.Tok == token.BREAK || v.Tok == token.GOTO {
							rangeOK = false
						}
					}
					return true
				})
				return false
			})
		}
		bulkOK, bulkFound := true, false
		if sb := FuncDecl(hf, "", "sendResponsesInBulks"); sb != nil {
			bulkFound = true
			var walk func(n ast.Node, underNotOK bool)
			walk = func(n ast.Node, underNotOK bool) {
				ast.Inspect(n, func(m ast.Node) bool {
					switch v := m.(type) {
					case *ast.FuncLit:
						return false
					case *ast.IfStmt:
						if m != n {
							walk(v.Body, underNotOK || idleText(v.Cond) == "!ok")
							if v.Else != nil {
								walk(v.Else, underNotOK)
							}
							return false
						}
					case *ast.ReturnStmt:
						if !underNotOK {
							bulkOK = false
						}
					}
					return true
				})
			}
			walk(sb.Body, false)
		}
		idleDrains = rangeFound && rangeOK && bulkFound && bulkOK
	}
	b := func(v bool) string {
		if v {
			return "true"
		}
		return "false"
	}
	var sb strings.Builder
	sb.WriteString("(* How Server.Close reaches the sessions, read off server.go and internal/session/session.go (T1, extractor Serve):\n   see /verif/translator/facts_serve.go. *)\n")
	sb.WriteString("Definition serve_defers_conn_close_on_return : bool := " + b(defersClose) + ".\n")
	sb.WriteString("Definition serve_returns_on_done : bool := " + b(returnsOnDone) + ".\n")
	sb.WriteString("Definition close_stops_serving_before_backend : bool := " + b(closeOrder) + ".\n")
	sb.WriteString("Definition session_loop_ends_with_reader : bool := " + b(loopEnds) + ".\n")
	sb.WriteString("Definition session_done_closes_conn : bool := " + b(doneCloses) + ".\n")
	sb.WriteString("(* user.removeState cannot return before the state has left user.states (after which statesWG.Done is deferred) *)\n")
	sb.WriteString("Definition remove_state_cannot_abort_early : bool := " + b(removeOK) + ".\n")
	sb.WriteString("(* the goroutine writing IDLE responses takes them until the channel is closed, also after a failed write *)\n")
	sb.WriteString("Definition idle_writer_drains_until_closed : bool := " + b(idleDrains) + ".\n\n")
	sb.WriteString("(* Close closes every accepted connection before it turns to the backend *)\n")
	sb.WriteString("Definition close_closes_accepted_conns : bool :=\n  andb serve_defers_conn_close_on_return (andb serve_returns_on_done (andb close_stops_serving_before_backend session_loop_ends_with_reader)).\n")
	return sb.String(), nil
}
