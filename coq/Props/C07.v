(* C07 — Acknowledged state survives restart, crashes and failing storage steps.
   Property theorems only; every proof is `exact <lemma>` and is followed by Print Assumptions.
   Model: Model/CrashSteps.v (operations as step lists over store / committed database / pending transaction);
   lemmas: Proofs/CrashStepsProofs.v.  The Section variables [remote] (the connector's copy of a message) and [recovered]
   (which ids are recovered messages) are universally quantified in every statement.
   Assumed, not proved (trusted base): SQLite's atomic commit (= the semantics of SCommit / cs_crash), the step lists
   are those of the code (tied by the trace correspondence of harness/cmd/c07: Run/RunC07.v).  A store call is one step
   of the step model; a crash INSIDE store.Set (torn cache file) is covered by the file-level statements at the end
   (Model/CrashSteps.v Section SetWrites, Proofs/CrashSetWrites.v): every torn file is rejected by Get — for the file
   format of store/disk.go by C09's truncation theorem, under C09's assumptions about AES-GCM and LZ4
   (code_assumptions) — and therefore is the step model's "no cache file" state. *)
From Coq Require Import List NArith Bool.
From Gluon Require Import Model.CrashSteps Proofs.CrashStepsProofs Gen.FactsStartup.
From Gluon Require Import Model.StoreFrame Proofs.StoreCode Proofs.CrashSetWrites.
Import ListNotations.
Open Scope N_scope.

(* every operation of the model (APPEND, APPEND fallback, COPY, MOVE, EXPUNGE, STORE, CREATE, DELETE, RENAME, connector
   message create / update / delete, end of a session, start-up), for every batch size: its store writes and deletes only
   touch files of messages that are in no mailbox at that moment, every commit installs a database that satisfies the
   foreign key, and at most one commit installs a change of the modelled tables *)
Theorem C07_operation_steps_are_safe : forall op m, cs_pre op m ->
  cs_safe m (cs_steps op m) /\ (cs_commits false (cs_steps op m) <= 1)%nat.
Proof. exact op_safe. Qed.
Print Assumptions C07_operation_steps_are_safe.

(* atomicity: the process dies after any number k of steps of any operation; after the start-up clean-up a client sees
   the state before or the state after the operation — mailboxes, UIDVALIDITY/subscription (meta), UIDs, flags and the
   bytes served for every listed message *)
Theorem C07_atomic : forall remote recovered op m k, cs_pre op m ->
  cs_view remote recovered (cs_recover (cs_crash_after k (cs_steps op m) m)) = cs_view remote recovered m \/
  cs_view remote recovered (cs_recover (cs_crash_after k (cs_steps op m) m)) = cs_view remote recovered (cs_exec_op op m).
Proof. exact crash_atomic. Qed.
Print Assumptions C07_atomic.

(* a failing step (store call, statement or commit returning an error at position k): rollback + the operation's own
   clean-up; without any restart the client sees the state before or after — no partial effect *)
Theorem C07_error_step_no_partial_effect : forall remote recovered op m k, cs_pre op m -> (k < length (cs_steps op m))%nat ->
  cs_view remote recovered (cs_fail_at k (cs_steps op m) (cs_cleanup op) m) = cs_view remote recovered m \/
  cs_view remote recovered (cs_fail_at k (cs_steps op m) (cs_cleanup op) m) = cs_view remote recovered (cs_exec_op op m).
Proof. exact fail_atomic. Qed.
Print Assumptions C07_error_step_no_partial_effect.

(* close + reopen (no crash): the start-up clean-up changes nothing a client can see *)
Theorem C07_clean_restart_identity : forall remote recovered m, cs_fk (m_db m) ->
  cs_view remote recovered (cs_recover m) = cs_view remote recovered m.
Proof. exact restart_identity. Qed.
Print Assumptions C07_clean_restart_identity.

(* every listed message is still listed after recovery and is served the same bytes (cache file, or the connector's
   copy when the file is missing and the message is not a recovered one) *)
Theorem C07_listed_messages_fetchable : forall remote recovered m r, cs_fk (m_db m) -> In r (db_rows (m_db m)) ->
  In r (db_rows (m_db (cs_recover m))) /\
  cs_fetch remote recovered (cs_recover m) (row_msg r) = cs_fetch remote recovered m (row_msg r).
Proof. exact listed_fetch_preserved. Qed.
Print Assumptions C07_listed_messages_fetchable.

(* no left-overs: after the clean-up every cache file belongs to a message row ... *)
Theorem C07_no_orphan_files_after_recover : forall m p, In p (m_store (cs_recover m)) ->
  cs_has_msg (m_db (cs_recover m)) (fst p) = true.
Proof. exact recover_no_orphans. Qed.
Print Assumptions C07_no_orphan_files_after_recover.

(* T1: the orders the model relies on, as the translator reads them from the source on every run
   (internal/backend/user.go newUser / deleteAllMessagesMarkedDeleted / removeState, connector_updates.go applyMessageDeleted) *)
Theorem C07_source_orders : startup_purge_before_sweep = true /\ startup_rows_before_files = true /\
  session_end_rows_before_files = true /\ conn_delete_releases_remote_id = true /\
  commit_error_always_returned = true /\ conn_create_cleanup_keeps_error = true /\ recovery_move_marks_old_copy = true /\
  redownload_refills_served_bytes = true /\ recovered_import_writes_new_id = true /\ failed_init_keeps_database = true /\
  chunk_loops_bind_their_chunk = true /\ store_set_truncates = true /\ store_get_decodes_from_eof_tracker = true.
Proof. exact (conj eq_refl (conj eq_refl (conj eq_refl (conj eq_refl (conj eq_refl (conj eq_refl (conj eq_refl (conj eq_refl (conj eq_refl (conj eq_refl (conj eq_refl (conj eq_refl eq_refl)))))))))))). Qed.
Print Assumptions C07_source_orders.

(* chunking (xslices.Chunk): the chunks of a list, concatenated, are the list, and no chunk is longer than the chunk size *)
Theorem C07_chunks_partition : forall (n : nat) (l : list N), (0 < n)%nat ->
  concat (cs_chunks n l) = l /\ forall c, In c (cs_chunks n l) -> (length c <= n)%nat.
Proof. exact (fun n l Hn => conj (chunks_concat n l Hn) (chunks_bounded n l)). Qed.
Print Assumptions C07_chunks_partition.

(* hence a statement run chunk by chunk, each chunk binding ITS OWN ids — what every chunk loop of the SQLite layer does
   according to the fact read from the source — has the effect of the statement over the whole list: for every list
   length (also beyond db.ChunkLimit), every chunk size, every statement kind (purge, flag changes, row deletes ...) *)
Theorem C07_chunked_statements_equal_whole : forall n f ids d, (0 < n)%nat ->
  apply_stmts (cs_chunked_stmts chunk_loops_bind_their_chunk n f ids) d = apply_stmts (map f ids) d.
Proof. exact chunked_stmts_whole. Qed.
Print Assumptions C07_chunked_statements_equal_whole.

(* when a chunk's statement binds the whole list instead (the first |chunk| elements are used) the tail is never
   processed: 3 messages marked for deletion, chunk size 2 -> message 3 survives the purge *)
Theorem C07_chunk_bound_to_whole_list_differs : exists n ids d,
  cs_has_msg (apply_stmts (cs_chunked_stmts false n StDeleteMsg ids) d) 3 = true /\
  cs_has_msg (apply_stmts (map StDeleteMsg ids) d) 3 = false.
Proof. exists 2%nat, [1; 2; 3], (mkDb [] [(1, true); (2, true); (3, true)] [] []). vm_compute. auto. Qed.
Print Assumptions C07_chunk_bound_to_whole_list_differs.

(* a cache file is lost and the message is downloaded again: with the refill FOUND IN THE SOURCE the bytes served then are
   served again by every later fetch (does not type-check when getLiteral refills the cache with other bytes) *)
Theorem C07_refetch_after_cache_loss_stable : forall remote recovered served_form m id m1 b,
  cs_fetch_refill remote recovered served_form redownload_refills_served_bytes m id = (m1, Some b) ->
  cs_fetch_refill remote recovered served_form redownload_refills_served_bytes m1 id = (m1, Some b).
Proof. exact refetch_stable. Qed.
Print Assumptions C07_refetch_after_cache_loss_stable.

(* a start that fails in database.Init for a reason other than a failed migration destroys nothing: the next start sees
   what was acknowledged before (stated for the guard FOUND IN THE SOURCE) *)
Theorem C07_failed_start_keeps_everything : forall remote recovered m,
  cs_view remote recovered (cs_failed_start failed_init_keeps_database m) = cs_view remote recovered m.
Proof. exact failed_start_keeps_view. Qed.
Print Assumptions C07_failed_start_keeps_everything.

(* the acknowledgement matches the database: with the error propagation FOUND IN THE SOURCE (wrapTx returns every commit
   error, the clean-up loop of applyMessagesCreated keeps the transaction's error) an operation that does not report an
   error has run all its steps, so its effect is committed (does not type-check when one of the two facts is false) *)
Theorem C07_success_ack_means_applied : forall op cleanup m k,
  cs_reports_error commit_error_always_returned conn_create_cleanup_keeps_error op (cs_steps op m) k = false ->
  cs_outcome k (cs_steps op m) cleanup m = cs_exec_op op m.
Proof. exact (fun op cleanup m k => success_means_applied op (cs_steps op m) cleanup m k). Qed.
Print Assumptions C07_success_ack_means_applied.

(* the same statement for the start-up order FOUND IN THE SOURCE (does not type-check when newUser sweeps before it purges) *)
Theorem C07_no_orphan_files_after_recover_src : forall m p, In p (m_store (cs_recover_ord startup_purge_before_sweep m)) ->
  cs_has_msg (m_db (cs_recover_ord startup_purge_before_sweep m)) (fst p) = true.
Proof. exact recover_no_orphans. Qed.
Print Assumptions C07_no_orphan_files_after_recover_src.

(* with the sweep BEFORE the purge the statement is false: message 1 and 2 are marked, the cache file of 1 is already
   missing; the delete loop stops at 1 and the file of 2 stays although its row is gone *)
Theorem C07_sweep_before_purge_leaves_orphans : exists m p, cs_fk (m_db m) /\ cs_marked_unlisted (m_db m) /\
  In p (m_store (cs_recover_ord false m)) /\ cs_has_msg (m_db (cs_recover_ord false m)) (fst p) = false.
Proof.
  exists (mkM [(2, [7]); (3, [8])] (mkDb [(1, 0)] [(1, true); (2, true); (3, false)] [(1, 1, 3)] []) None), (2, [7]).
  split; [intros r [H|[]]; subst r; reflexivity|]. split; [|vm_compute; auto].
  intros id H. unfold cs_listed. cbn [m_db db_rows existsb row_msg snd]. rewrite Bool.orb_false_r.
  apply N.eqb_neq. intros E. subst id. vm_compute in H. discriminate.
Qed.
Print Assumptions C07_sweep_before_purge_leaves_orphans.

(* ... and no message is marked for deletion any more — PROVIDED no marked message is still listed in a mailbox
   (what applyMessageDeleted/applyMessageUpdated establish after C06-fix-3); see C07_marked_listed_blocks_purge below *)
Theorem C07_no_marked_messages_after_recover : forall m id, cs_marked_unlisted (m_db m) ->
  cs_marked (m_db (cs_recover m)) id = false.
Proof. exact (recover_no_marked (fun _ => None) (fun _ => false)). Qed.
Print Assumptions C07_no_marked_messages_after_recover.

(* the faithful model of the start-up purge refutes the unconditional statement: ONE marked message that is listed
   (reachable before C06-fix-3: MessageDeleted, then MessagesCreated with the same remote id) makes the whole purge
   transaction fail, so the other marked message (2) and its cache file stay for ever — replayed on the server: notes/C07-defects.md *)
Theorem C07_marked_listed_blocks_purge : exists m, cs_fk (m_db m) /\
  cs_marked (m_db (cs_recover m)) 2 = true /\ In (2, [7]) (m_store (cs_recover m)).
Proof.
  exists (mkM [(1, [5]); (2, [7])] (mkDb [(1, 0)] [(1, true); (2, true)] [(1, 1, 1)] []) None).
  split; [|vm_compute; auto].
  intros r [H|[]]. subst r. reflexivity.
Qed.
Print Assumptions C07_marked_listed_blocks_purge.

(* ---- inside store.Set: the cache file is written by several write calls ---- *)
(* The process dies after k write calls of Set(b) — [ps] is ANY cutting of the new file content into consecutive writes,
   so the cut can be after the header, after the nonce, after any sealed block or inside one; [old] is whatever the file
   contained before.  With the open flags and the decoder wiring FOUND IN THE SOURCE (store_set_truncates,
   store_get_decodes_from_eof_tracker) and a decoder that reads back complete files and rejects every strict prefix, the
   file is complete and reads back as b, or Get rejects it: the cache entry is absent, which is the state the step
   model calls "SSet did not happen".  (Does not type-check when Set opens without O_TRUNC or Get does not watch the
   reader it decodes.) *)
Theorem C07_torn_set_is_rejected_or_complete :
  forall (B Msg : Type) (enc : Msg -> list B) (strict lenient : list B -> option Msg),
  (forall b, strict (enc b) = Some b) ->
  (forall b m, (m < length (enc b))%nat -> strict (firstn m (enc b)) = None) ->
  forall b (old : list B) ps k, concat ps = enc b ->
  let f := cs_set_file store_set_truncates old ps k in
  let get := cs_file_decoder store_get_decodes_from_eof_tracker strict lenient in
  (f = enc b /\ cs_file_view get (Some f) = Some b)
  \/ ((length f < length (enc b))%nat /\ cs_file_view get (Some f) = None).
Proof. exact (@torn_set_view). Qed.
Print Assumptions C07_torn_set_is_rejected_or_complete.

(* the same for the file format of store/disk.go as modelled for C09 (c_write = Set's output with the constants read
   from the source, c_read = Get): the two decoder hypotheses are C09's round trip and C09_truncated_is_error *)
Theorem C07_torn_cache_file_is_rejected_or_complete :
  forall key seal open compress dec, code_assumptions key seal open compress dec ->
  forall lenient k n d (old : bytes) ps j, length n = code_nlen ->
  concat ps = c_write key seal compress k n d ->
  let f := cs_set_file store_set_truncates old ps j in
  let get := cs_file_decoder store_get_decodes_from_eof_tracker (code_get key open dec k) lenient in
  (f = c_write key seal compress k n d /\ cs_file_view get (Some f) = Some d)
  \/ ((length f < length (c_write key seal compress k n d))%nat /\ cs_file_view get (Some f) = None).
Proof. exact code_torn_set. Qed.
Print Assumptions C07_torn_cache_file_is_rejected_or_complete.

(* a cache entry Get rejects is, for a fetch, a missing cache file: unless the message is a recovered one or the
   connector no longer has it, the fetch proceeds exactly as from the store without that file (download, refill) *)
Theorem C07_rejected_file_is_missing_file : forall remote recovered served_form fact m id,
  cs_store_get (m_store m) id = None ->
  cs_fetch_refill remote recovered served_form fact m id
  = cs_fetch_refill remote recovered served_form fact (mkM (cs_store_del (m_store m) id) (m_db m) (m_pend m)) id
    \/ recovered id = true \/ remote id = None.
Proof. exact fetch_sees_rejected_as_missing. Qed.
Print Assumptions C07_rejected_file_is_missing_file.

(* Set went through: the file IS the new content whatever it contained before — a longer file, a damaged file, a file
   of another installation — (open flags FOUND IN THE SOURCE), and for the format of store/disk.go it reads back as
   the new literal *)
Theorem C07_set_replaces_previous_file : forall (B : Type) (old : list B) ps k, (length ps <= k)%nat ->
  cs_set_file store_set_truncates old ps k = concat ps.
Proof. exact (@set_complete_replaces). Qed.
Print Assumptions C07_set_replaces_previous_file.

Theorem C07_rewritten_cache_file_reads_back :
  forall key seal open compress dec, code_assumptions key seal open compress dec ->
  forall lenient k n d (old : bytes) ps j, length n = code_nlen ->
  concat ps = c_write key seal compress k n d -> (length ps <= j)%nat ->
  cs_set_file store_set_truncates old ps j = c_write key seal compress k n d
  /\ cs_file_view (cs_file_decoder store_get_decodes_from_eof_tracker (code_get key open dec k) lenient)
       (Some (cs_set_file store_set_truncates old ps j)) = Some d.
Proof. exact code_complete_set. Qed.
Print Assumptions C07_rewritten_cache_file_reads_back.

(* without O_TRUNC the previous content beyond the new length stays: over a longer file the result is never the new
   content *)
Theorem C07_set_without_truncation_keeps_tail : forall (B : Type) (old : list B) ps k, (length ps <= k)%nat ->
  cs_set_file false old ps k = concat ps ++ skipn (length (concat ps)) old
  /\ ((length (concat ps) < length old)%nat -> cs_set_file false old ps k <> concat ps).
Proof. exact (fun B old ps k H => conj (set_complete_keeps_tail old ps k H) (set_without_trunc_differs old ps k H)). Qed.
Print Assumptions C07_set_without_truncation_keeps_tail.

(* ---- non-vacuity: the preconditions are satisfiable, with batches ---- *)
Definition ex_m : cs_m :=
  mkM [(1, [10; 11]); (2, [12]); (9, [99])]
      (mkDb [(1, 100); (2, 200)] [(1, false); (2, false); (3, true)] [(1, 1, 1); (1, 2, 2); (2, 1, 1)] [(1, 5)]) None.

Example C07_ex_fk : cs_fk (m_db ex_m).
Proof. intros r [H|[H|[H|[]]]]; subst r; reflexivity. Qed.

Example C07_ex_pre :
  cs_pre (OpConnCreate [[(4, [1])]; [(5, [2])]] [(1, 3, 4); (2, 2, 5); (2, 3, 2)]) ex_m /\
  cs_pre (OpMove 1 2 [(2, 2)]) ex_m /\ cs_pre (OpSessionEnd [3]) ex_m /\ cs_pre OpStartup ex_m /\
  cs_pre (OpConnUpdate 2 6 [3] [1] [(1, 3)]) ex_m /\ cs_pre (OpAppend 1 3 7 [4]) ex_m.
Proof.
  pose proof C07_ex_fk as F.
  repeat split; try exact F; try reflexivity.
  - intros p [H|[H|[]]]; subst p; reflexivity.
  - intros r [H|[H|[H|[]]]]; subst r; cbn; auto.
  - intros p [H|[]]; subst p; reflexivity.
  - intros id [H|[]]; subst id; reflexivity.
Qed.

(* crash in the middle of the connector batch: after recovery the two new files are gone and the view is the old one;
   after the commit it is the new one; the orphan file 9 and the marked message 3 are removed by the clean-up *)
Example C07_ex_crash :
  let op := OpConnCreate [[(4, [1])]; [(5, [2])]] [(1, 3, 4); (2, 2, 5); (2, 3, 2)] in
  let v := cs_view (fun _ => None) (fun _ => false) in
  v (cs_recover (cs_crash_after 5 (cs_steps op ex_m) ex_m)) = v ex_m /\
  v (cs_recover (cs_crash_after 10 (cs_steps op ex_m) ex_m)) = v (cs_exec_op op ex_m) /\
  v (cs_exec_op op ex_m) <> v ex_m /\
  map fst (m_store (cs_recover (cs_crash_after 5 (cs_steps op ex_m) ex_m))) = [1; 2] /\
  db_msgs (m_db (cs_recover (cs_crash_after 5 (cs_steps op ex_m) ex_m))) = [(1, false); (2, false)].
Proof. vm_compute. repeat split. discriminate. Qed.

(* Set of a 3-byte content in two write calls over a 5-byte file: with O_TRUNC the file is [1], then [1;2;3]; without it
   the old tail shows through *)
Example C07_ex_set_writes :
  cs_set_file true [9; 9; 9; 9; 9] [[1]; [2; 3]] 1 = [1] /\
  cs_set_file true [9; 9; 9; 9; 9] [[1]; [2; 3]] 2 = [1; 2; 3] /\
  cs_set_file false [9; 9; 9; 9; 9] [[1]; [2; 3]] 1 = [1; 9; 9; 9; 9] /\
  cs_set_file false [9; 9; 9; 9; 9] [[1]; [2; 3]] 2 = [1; 2; 3; 9; 9].
Proof. vm_compute. repeat split. Qed.
