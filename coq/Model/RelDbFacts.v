(* The check that ties the generated statement facts (Gen/FactsSqlBind.v, extracted from write_ops.go / read_ops.go)
   to the statement shapes that Model/RelDb.v gives to the chunked operations.

   For every statement of a chunk loop the model builds the bind arguments in the shape of the Go code
   (e.g. RemoveFlagFromMessages: the ids of the chunk followed by the flag).  `expected` lists, per statement, the
   number of values of that shape as a symbolic count.  `facts_ok F` holds when, for every statement,
     - the fact exists (the translator found the loop and the statement where the model expects them),
     - the bind arguments are built from the chunk (`sf_args_src = FromChunk`),
     - the extracted argument count and the extracted placeholder count both equal the expected count
       (so placeholders = arguments: the driver's first-k rule drops nothing and nothing is missing),
     - the chunk size is positive, and even where a statement writes len(chunk)/2 groups of two.
   Names of other slices (`flagSlice`) are not compared. *)
From Coq Require Import String Ascii.
From Coq Require Import List NArith Bool.
From Gluon Require Import Model.SqlBindFacts.
Import ListNotations.
Open Scope list_scope.
Open Scope string_scope.
Open Scope N_scope.

Definition lv_sim (a b : lenvar) : bool :=
  match a, b with
  | VChunk, VChunk => true
  | VWhole, VWhole => true
  | VOther _, VOther _ => true
  | _, _ => false
  end.

Fixpoint lvs_sim (a b : list lenvar) : bool :=
  match a, b with
  | [], [] => true
  | x :: a', y :: b' => lv_sim x y && lvs_sim a' b'
  | _, _ => false
  end.

Definition term_sim (a b : term) : bool := N.eqb (t_coef a) (t_coef b) && lvs_sim (t_vars a) (t_vars b).

Fixpoint cnt_sim (a b : cnt) : bool :=
  match a, b with
  | [], [] => true
  | x :: a', y :: b' => term_sim x y && cnt_sim a' b'
  | _, _ => false
  end.

Record expect := mkExpect { e_op : string; e_idx : nat; e_cnt : cnt; e_even : bool }.

Definition c1 : cnt := [mkTerm 1 [VChunk]].
Definition c1p1 : cnt := [mkTerm 1 [VChunk]; mkTerm 1 []].
Definition c2 : cnt := [mkTerm 2 [VChunk]].

Definition expected : list expect := [
  mkExpect "AddMessagesToMailbox" 0 c2 false;
  mkExpect "AddMessagesToMailbox" 1 c2 false;
  mkExpect "RemoveMessagesFromMailbox" 0 c1 false;
  mkExpect "RemoveMessagesFromMailbox" 1 c1p1 false;
  mkExpect "SetMailboxMessagesDeletedFlag" 0 c1p1 false;
  mkExpect "CreateMessages" 0 [mkTerm 7 [VChunk]] false;
  mkExpect "CreateMessages" 1 c1 true;
  mkExpect "DeleteMessages" 0 c1 false;
  mkExpect "AddFlagToMessages" 0 c2 false;
  mkExpect "RemoveFlagFromMessages" 0 c1p1 false;
  mkExpect "SetFlagsOnMessages" 0 c1 false;
  mkExpect "SetFlagsOnMessages" 1 [mkTerm 1 [VChunk]; mkTerm 1 [VOther "flagSlice"]] false;
  mkExpect "SetFlagsOnMessages" 2 [mkTerm 2 [VChunk; VOther "flagSlice"]] false;
  mkExpect "MailboxTranslateRemoteIDs" 0 c1 false;
  mkExpect "MailboxFilterContainsInternalID" 0 c1 false;
  mkExpect "GetMailboxMessageUIDsWithFlagsAfterAddOrUIDBump" 0 c1 false;
  mkExpect "GetMessagesFlags" 0 c1 false
].

Definition stmt_good (e : expect) (f : stmt_fact) : bool :=
  src_is_chunk (sf_args_src f)
  && cnt_sim (sf_ph f) (e_cnt e) && cnt_sim (sf_args f) (e_cnt e)
  && N.ltb 0 (sf_chunk f)
  && Bool.eqb (sf_needs_even f) (e_even e)
  && (negb (e_even e) || N.even (sf_chunk f)).

Definition fact_ok1 (F : list stmt_fact) (e : expect) : bool :=
  match find_stmt (e_op e) (e_idx e) F with
  | Some f => stmt_good e f
  | None => false
  end.

Definition facts_ok (F : list stmt_fact) : bool := forallb (fact_ok1 F) expected.

(* every statement the translator found inside a chunk loop is one the model knows (no unmodelled bulk statement) *)
Definition fact_known (f : stmt_fact) : bool :=
  existsb (fun e => String.eqb (e_op e) (sf_op f) && Nat.eqb (e_idx e) (sf_idx f)) expected.
Definition facts_all_known (F : list stmt_fact) : bool := forallb fact_known F.

(* Statement size: SQLite refuses a statement with more bind variables than SQLITE_MAX_VARIABLE_NUMBER (read by the
   translator from the sqlite3 amalgamation that go-sqlite3 compiles).  The number of placeholders of a statement of a
   full chunk, with one element in every other slice involved (one flag), must stay below it. *)
Definition lv_max (chunk : N) (v : lenvar) : N := match v with VChunk => chunk | VWhole => chunk | VOther _ => 1 end.
Definition term_max (chunk : N) (t : term) : N := t_coef t * fold_right (fun v acc => lv_max chunk v * acc) 1 (t_vars t).
Definition cnt_max (chunk : N) (c : cnt) : N := fold_right (fun t acc => term_max chunk t + acc) 0 c.
Definition stmt_vars_ok (maxv : N) (f : stmt_fact) : bool := N.leb (cnt_max (sf_chunk f) (sf_ph f)) maxv.
Definition vars_ok (maxv : N) (F : list stmt_fact) : bool := forallb (stmt_vars_ok maxv) F.
