(* Model of /repo/imap/uid_validity_generator.go : EpochUIDValidityGenerator.Generate
     timeStamp := uint64(now - epochStart in seconds) ; > 0xFFFFFFFF -> error
     loop: last := load(lastUID)
           if last >= ts { if ts == 0xFFFFFFFF -> error ; ts++ ; continue }
           CAS(lastUID, last, ts) ; return ts
   `now` is the clock reading (seconds since the epoch start) - ANY integer, no monotonicity assumed.
   `last` is the in-memory field lastUID (0 in a fresh process: it is not persisted).
   Sequential model (one caller at a time; the CAS then always succeeds). The loop is modelled with fuel;
   `uv_generate` supplies enough fuel (last - now + 2) and the closed form is proved in Proofs/MailStoreC04. *)
From Coq Require Import ZArith Bool Lia.
Open Scope Z_scope.

Definition u32max : Z := 4294967295.

Inductive uv_res := UvOk (v : Z) | UvErr | UvFuel.

Fixpoint uv_loop (fuel : nat) (ts last : Z) : uv_res :=
  match fuel with
  | O => UvFuel
  | S f => if last >=? ts
           then (if ts =? u32max then UvErr else uv_loop f (ts + 1) last)
           else UvOk ts
  end.

Definition uv_generate (now last : Z) : uv_res :=
  if (now <? 0) || (now >? u32max) then UvErr
  else uv_loop (Z.to_nat (last - now) + 2) now last.

(* closed form (proved equal to uv_generate for 0 <= last <= u32max) *)
Definition uv_closed (now last : Z) : uv_res :=
  if (now <? 0) || (now >? u32max) then UvErr
  else if last >=? now then (if last >=? u32max then UvErr else UvOk (last + 1)) else UvOk now.
