(* C18 — gating of IMAP commands by protocol state, user isolation, login jail.
   Impl model of
     internal/session/handle.go    handleCommand (class dispatch), handleAnyCommand, handleNotAuthenticatedCommand,
                                   handleAuthenticatedCommand, handleSelectedCommand (+ handleWithMailbox)
     internal/session/session.go   serve: LOGOUT and IDLE handled apart; command.go startCommandReader: STARTTLS
     internal/session/handle_login.go handleLogin (BAD when already authenticated), handle_idle.go (guard)
     internal/state/state.go       Select / Examine (a failed lookup leaves the selection), Selected (refuses without a
                                   snapshot), Mailbox.Close through CLOSE / UNSELECT
     internal/backend/backend.go   GetState / getUserID (one global failure counter, maxLoginAttempts, jail timer),
                                   AddUser (own store, database, connector per user)
   The class tables, the guards and maxLoginAttempts come from Gen/FactsCmdClass.v (translator).
   What a command does once it reaches its handler is abstract: [hres] (its result class) and [heff] (its effect) are
   arbitrary functions of the command, the session's own selection and the store OF THE SESSION'S USER — every handler
   reaches data only through s.state, which backend.GetState creates for the authorised user (facts
   state_created_for_authorised_user, per_user_store_and_database).
   No TLS configuration: STARTTLS is answered NO and nothing happens, or — if handleStartTLS hands the NO back as an error —
   the connection ends without an answer (fact starttls_without_tls_answers_no).  No proofs in this file. *)
From Coq Require Import List String NArith Bool.
From Gluon Require Import Gen.FactsCmdClass.
Import ListNotations.
Open Scope N_scope.

Inductive cmdk :=
| CCapability | CIDGet | CIDSet | CNoop | CLogin
| CSelect | CExamine | CCreate | CDelete | CRename | CSubscribe | CUnsubscribe | CList | CLSub | CStatus | CAppend
| CCheck | CClose | CExpunge | CUIDExpunge | CUnselect | CSearch | CFetch | CStore | CCopy | CMove | CUID
| CLogout | CIdle | CStartTLS.

Definition all_cmds : list cmdk :=
  [CCapability; CIDGet; CIDSet; CNoop; CLogin;
   CSelect; CExamine; CCreate; CDelete; CRename; CSubscribe; CUnsubscribe; CList; CLSub; CStatus; CAppend;
   CCheck; CClose; CExpunge; CUIDExpunge; CUnselect; CSearch; CFetch; CStore; CCopy; CMove; CUID;
   CLogout; CIdle; CStartTLS].

(* the Go type name in package imap/command *)
Definition go_name (c : cmdk) : string :=
  match c with
  | CCapability => "Capability" | CIDGet => "IDGet" | CIDSet => "IDSet" | CNoop => "Noop" | CLogin => "Login"
  | CSelect => "Select" | CExamine => "Examine" | CCreate => "Create" | CDelete => "Delete" | CRename => "Rename"
  | CSubscribe => "Subscribe" | CUnsubscribe => "Unsubscribe" | CList => "List" | CLSub => "LSub"
  | CStatus => "Status" | CAppend => "Append"
  | CCheck => "Check" | CClose => "Close" | CExpunge => "Expunge" | CUIDExpunge => "UIDExpunge"
  | CUnselect => "Unselect" | CSearch => "Search" | CFetch => "Fetch" | CStore => "Store" | CCopy => "Copy"
  | CMove => "Move" | CUID => "UID"
  | CLogout => "Logout" | CIdle => "Idle" | CStartTLS => "StartTLS"
  end%string.

Fixpoint lookup (k : string) (l : list (string * hclass)) : option hclass :=
  match l with
  | [] => None
  | (n, c) :: t => if String.eqb n k then Some c else lookup k t
  end.
Definition mem (k : string) (l : list string) : bool := existsb (String.eqb k) l.

(* ---------- protocol state of one session ---------- *)
Inductive pstate :=
| PNotAuth
| PAuth (u : N)                      (* authenticated, no mailbox selected (also the state after CLOSE / UNSELECT) *)
| PSel (u : N) (m : N) (ro : bool)   (* mailbox m selected (ro: EXAMINE) *)
| PClosed.                           (* connection ended *)

Definition user_of (s : pstate) : option N :=
  match s with PAuth u | PSel u _ _ => Some u | _ => None end.
Definition sel_of (s : pstate) : option (N * bool) :=
  match s with PSel _ m ro => Some (m, ro) | _ => None end.

Inductive res := ROk | RNo | RBad | RBye | RNone.    (* RNone: connection closed without a tagged answer *)

(* what the gate decides for a command in a state *)
Inductive decision :=
| DRefuse (r : res)                  (* answered by the gate itself; nothing else happens *)
| DAdmit (u : N) (sel : option (N * bool))   (* reaches its handler in a session of user u *)
| DAnyNoUser                         (* any-state command before LOGIN: OK, touches no user data *)
| DLoginAttempt                      (* backend.GetState is called *)
| DLogout                            (* BYE, OK, connection ends *)
| DDrop.                             (* connection ends without an answer *)

Definition jail_cmp_ok : bool := (String.eqb jail_comparison "==" || String.eqb jail_comparison ">=")%bool.

Definition gate (st : pstate) (c : cmdk) : decision :=
  match st with
  | PClosed => DRefuse RNone
  | _ =>
    let n := go_name c in
    if mem n apart_reader then (if starttls_without_tls_answers_no then DRefuse RNo else DDrop)
    else if mem n apart_serve then
      match c with
      | CLogout => DLogout
      | CIdle => match user_of st with
                 | Some u => DAdmit u (sel_of st)
                 | None => if idle_guard_state_nil then DRefuse RNo else DAdmit 0 None   (* nil dereference *)
                 end
      | _ => DRefuse RNo
      end
    else
      match lookup n dispatch with
      | None | Some HOther => DRefuse RNo                                (* "bad command" *)
      | Some HAny =>
          if negb (mem n inner_any) then DRefuse RNo
          else match user_of st with Some u => DAdmit u (sel_of st) | None => DAnyNoUser end
      | Some HNotAuth =>
          if negb (mem n inner_notauth) then DRefuse RNo
          else match user_of st with
               | Some _ => if login_bad_when_authenticated then DRefuse RBad else DLoginAttempt
               | None => DLoginAttempt
               end
      | Some HAuth =>
          match user_of st with
          | None => if guard_auth_state_nil then DRefuse RNo else DAdmit 0 None
          | Some u => if mem n inner_auth then DAdmit u (sel_of st) else DRefuse RNo
          end
      | Some HSelected =>
          match user_of st with
          | None => if guard_selected_state_nil then DRefuse RNo else DAdmit 0 None
          | Some u =>
              match sel_of st with
              | None => if (selected_only_through_state_Selected && state_Selected_requires_snapshot)%bool
                        then DRefuse RNo else DAdmit u None
              | Some s => if mem n inner_selected then DAdmit u (Some s) else DRefuse RNo
              end
          end
      end
  end.

(* selection after a handled command: Select/Examine replace it only when they succeed (the lookup fails before the old
   snapshot is closed), Close/Unselect drop it when they succeed *)
Definition sel_after (c : cmdk) (arg : N) (r : res) (old : option (N * bool)) : option (N * bool) :=
  match c, r with
  | CSelect, ROk => Some (arg, false)
  | CExamine, ROk => Some (arg, true)
  | CClose, ROk | CUnselect, ROk => None
  | _, _ => old
  end.

(* a LOGIN that is answered NO before it reaches the failure counter and the jail wait: only if some path of
   handleLogin / GetState / getUserID returns early (fact login_reaches_counter_on_every_path = false); the name 0 / the
   password 0 stand for the empty string *)
Definition short_circuit (name pass : N) : bool :=
  (negb login_reaches_counter_on_every_path && ((name =? 0) || (pass =? 0)))%bool.

Definition mk_state (u : N) (s : option (N * bool)) : pstate :=
  match s with Some (m, ro) => PSel u m ro | None => PAuth u end.

(* ---------- the server ---------- *)
Record event := mkEv {
  e_sid : N;           (* connection *)
  e_cmd : cmdk;
  e_arg : N;           (* opaque argument (mailbox for SELECT/EXAMINE) *)
  e_name : N;          (* LOGIN: user name and password *)
  e_pass : N;
  e_time : N           (* instant at which the command is taken up *)
}.

Section Server.
  Variable ustore : Type.                                   (* everything one user owns *)
  Variable hres : cmdk -> N -> option (N * bool) -> ustore -> res.      (* result class of the handler *)
  Variable heff : cmdk -> N -> option (N * bool) -> ustore -> ustore.   (* effect of the handler *)
  Variable creds : list (N * (list N * N)).                 (* user id, accepted names, password (connector.Authorize) *)
  Variable jail_time : N.

  Record gstate := mkG {
    g_sess : list (N * pstate);      (* connections; absent = fresh connection = PNotAuth *)
    g_stores : N -> ustore;
    g_fails : N;                     (* Backend.loginErrorCount *)
    g_jail : option N                (* Some T: the jail timer fires at T (loginWG is held until then) *)
  }.

  Fixpoint sess_get (l : list (N * pstate)) (s : N) : pstate :=
    match l with [] => PNotAuth | (i, p) :: t => if i =? s then p else sess_get t s end.
  Definition sess_set (l : list (N * pstate)) (s : N) (p : pstate) : list (N * pstate) := (s, p) :: l.

  Definition store_set (f : N -> ustore) (u : N) (x : ustore) : N -> ustore := fun v => if v =? u then x else f v.

  Definition cred_ok (name pass : N) (c : N * (list N * N)) : bool :=
    (existsb (N.eqb name) (fst (snd c)) && (pass =? snd (snd c)))%bool.
  Definition authorize (name pass : N) : option N :=
    match find (cred_ok name pass) creds with Some c => Some (fst c) | None => None end.

  (* Backend.getUserID on the login state (failure counter, jail timer), for an attempt taken up at instant [arr] whose
     credentials are accepted by some connector ([ok]) or by none: new counter, new timer, answer, instant of the answer.
     The attempt first waits until a running jail timer has fired (the timer also resets the counter). *)
  Definition login_step (fails : N) (jail : option N) (arr : N) (ok : bool) : N * option N * res * N :=
    let waits := login_serialised_and_waits_for_jail_first in
    let expired := match jail with Some T => (waits || (T <=? arr))%bool | None => false end in
    let t := match jail with Some T => if waits then N.max arr T else arr | None => arr end in
    let fails0 := if (expired && jail_timer_resets_counter)%bool then 0 else fails in
    let jail0 := if expired then None else jail in
    if ok then (if login_success_resets_counter then 0 else fails0, jail0, ROk, t)
    else
      let c := fails0 + 1 in
      if ((c =? max_login_attempts) && jail_cmp_ok && jail_arms_timer_and_answers_blocked)%bool
      then (c, Some (t + jail_time), RNo, t)
      else (c, jail0, RNo, t).

  (* one command: new state, tagged answer, instant of the answer *)
  Definition step (g : gstate) (e : event) : gstate * res * N :=
    let st := sess_get (g_sess g) (e_sid e) in
    match gate st (e_cmd e) with
    | DRefuse r => (g, r, e_time e)
    | DAnyNoUser => (g, ROk, e_time e)
    | DLogout => (mkG (sess_set (g_sess g) (e_sid e) PClosed) (g_stores g) (g_fails g) (g_jail g), RBye, e_time e)
    | DDrop => (mkG (sess_set (g_sess g) (e_sid e) PClosed) (g_stores g) (g_fails g) (g_jail g), RNone, e_time e)
    | DAdmit u sel =>
        let s := g_stores g u in
        let r := hres (e_cmd e) (e_arg e) sel s in
        (mkG (sess_set (g_sess g) (e_sid e) (mk_state u (sel_after (e_cmd e) (e_arg e) r sel)))
             (store_set (g_stores g) u (heff (e_cmd e) (e_arg e) sel s)) (g_fails g) (g_jail g),
         r, e_time e)
    | DLoginAttempt =>
        if short_circuit (e_name e) (e_pass e) then (g, RNo, e_time e) else
        let auth := authorize (e_name e) (e_pass e) in
        let '(f, j, r, t) := login_step (g_fails g) (g_jail g) (e_time e)
                                        (match auth with Some _ => true | None => false end) in
        (mkG (match auth with Some u => sess_set (g_sess g) (e_sid e) (PAuth u) | None => g_sess g end)
             (g_stores g) f j, r, t)
    end.

  (* a history: the commands in the order in which the server takes them up *)
  Fixpoint run (g : gstate) (h : list event) : gstate :=
    match h with [] => g | e :: t => run (fst (fst (step g e))) t end.

  (* the trace of a history: state before, command, state after, answer, instant of the answer *)
  Fixpoint trace (g : gstate) (h : list event) : list (gstate * event * gstate * res * N) :=
    match h with
    | [] => []
    | e :: t => let '(g', r, ta) := step g e in (g, e, g', r, ta) :: trace g' t
    end.

  Definition init (stores : N -> ustore) : gstate := mkG [] stores 0 None.
End Server.
