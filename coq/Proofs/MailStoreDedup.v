(* Lemmas about Model.MailStoreDedup (de-duplicating remote): the store invariant is preserved, and a MOVE / COPY out of the
   recovery mailbox puts every message the remote named into the destination, whatever other mailboxes hold it. *)
From Coq Require Import List ZArith NArith Bool Lia.
From Gluon Require Import Gen.FactsLimits Model.UidValidityGen Model.MailStore Model.MailStoreDedup
  Proofs.MailStoreBase Proofs.MailStoreWf Proofs.MailStoreC04 Proofs.MailStoreC20.
Import ListNotations.
Open Scope Z_scope.

Section DedupProofs.
Variable hash : N -> option N.
Variable fx : codefacts.
Variable c : cfg.
Variable clock : nat -> Z.

Lemma good_out_dedup : forall s d sel mv lab, wf s -> good s (fst (out_dedup c s d sel mv lab)).
Proof.
  intros s d sel mv lab W. unfold out_dedup. cbv zeta. destruct (negb lab); cbn [fst]; [apply good_keep_mem; assumption|].
  match goal with |- context[db_add c ?i ?ms ?x] =>
    assert (G1 : good s x); [| destruct (db_add c i ms x) as [s2|] eqn:D; cbn [fst]; [|apply good_keep_mem; assumption]] end.
  - destruct mv; peel.
  - assert (G2 : good s s2) by (eapply good_step; [exact G1|]; intro; eapply good_db_add; eassumption).
    destruct mv; [|assumption]. eapply good_step; [exact G2|]. intro. apply good_erase. assumption.
Qed.

Lemma good_append_dedup : forall s n lit, wf s -> good s (fst (append_dedup hash fx c s n lit)).
Proof.
  intros s n lit W. unfold append_dedup. destruct (is_recov n); [apply good_refl; assumption|].
  destruct (find_name n (s_mboxes s)) as [d|]; [|apply good_refl; assumption].
  destruct (append_check c d); [|apply good_limit_refuse; assumption].
  destruct (find_lit lit (s_mboxes s)) as [x|]; [|apply good_append_write; assumption].
  pose proof (good_add_messages c s d [(0, x)] true W) as G.
  destruct (add_messages c s d [(0, x)] true) as [s' r]. cbn [fst] in G. destruct r; cbn [fst]; assumption.
Qed.

Theorem good_step_dedup : forall s o, wf s -> good s (fst (step_dedup hash fx c clock s o)).
Proof.
  intros s o W. pose proof (good_step_op hash fx c clock s o W) as G0. destruct o; cbn [step_dedup]; try exact G0.
  - destruct r; try exact G0. apply good_append_dedup. assumption.
  - destruct create_ok; [|exact G0]. destruct (from_recovery s src dst) as [[m d]|]; [apply good_out_dedup; assumption | exact G0].
  - destruct create_ok; [|exact G0]. destruct (from_recovery s src dst) as [[m d]|]; [apply good_out_dedup; assumption | exact G0].
Qed.

Lemma in_assign_msg : forall ms q x, In x ms -> exists u, In (u, x) (assign q ms).
Proof.
  induction ms as [|m t IH]; intros q x H; [contradiction|]. cbn [assign]. destruct H as [<-|H].
  - exists (q + 1). left. reflexivity.
  - destruct (IH (q + 1) x H) as (u & Hu). exists u. right. assumption.
Qed.
Lemma has_msg_row : forall d id, has_msg d id = true -> exists u lit, In (u, (id, lit)) (mb_rows d).
Proof.
  intros d id H. unfold has_msg in H. apply existsb_exists in H. destruct H as ([u [i l]] & Hin & E). cbn [fst snd] in E.
  apply N.eqb_eq in E. subst. exists u, l. assumption.
Qed.

(* accepted: every message the remote named is in the destination afterwards (by message id), and a MOVE has taken
   exactly the selected messages out of the recovery mailbox *)
Theorem out_dedup_adds_named : forall s b d sel mv s' a, wf s -> find_name b (s_mboxes s) = Some d -> mb_id d <> recov_id ->
  out_dedup c s d sel mv true = (s', ResOk a) ->
  (exists d', find_name b (s_mboxes s') = Some d' /\
     forall x, In x (named_msgs (s_mboxes s) (s_nextmsg s) sel) -> exists u lit, In (u, (fst x, lit)) (mb_rows d')) /\
  rec_rows s' = (if mv then keep_rows (map (fun r : row => fst (snd r)) sel) (rec_rows s) else rec_rows s).
Proof.
  intros s b d sel mv s' a W Fb Hd H. unfold out_dedup in H. cbv zeta in H. cbn [negb] in H.
  match type of H with context[db_add c ?i ?ms ?x] => destruct (db_add c i ms x) as [s2|] eqn:D end; [|discriminate].
  match type of D with db_add c _ _ ?x = _ => assert (W1 : wf x /\ find_name b (s_mboxes x) = Some d) end.
  { destruct mv; (split; [match goal with |- wf ?x => assert (G : good s x) by peel; apply G end|]).
    - rewrite (find_name_del_msgs _ b d) by (cbn [bump_msg s_mboxes]; exact Fb).
      destruct (N.eqb (mb_id d) recov_id) eqn:E; [apply N.eqb_eq in E; contradiction | reflexivity].
    - exact Fb. }
  destruct W1 as [W1 F1]. pose proof (db_add_find c _ b _ _ _ W1 F1 D) as F2.
  pose proof (same_rec_db_add c _ _ _ _ Hd D) as [A _].
  inversion H; subst s' a. clear H. split.
  - eexists. split; [destruct mv; exact F2|].
    intros x Hx. destruct (has_msg d (fst x)) eqn:Hm.
    + destruct (has_msg_row d (fst x) Hm) as (u & lit & Hr). exists u, lit. cbn [mb_ins mb_rows]. apply in_or_app. left. assumption.
    + assert (Hin : In x (filter (fun y : msg => negb (has_msg d (fst y))) (named_msgs (s_mboxes s) (s_nextmsg s) sel))).
      { apply filter_In. split; [assumption | rewrite Hm; reflexivity]. }
      destruct (in_assign_msg _ (mb_seq d) x Hin) as (u & Hu). exists u, (snd x). destruct x as [i l]. cbn [fst snd mb_ins mb_rows].
      apply in_or_app. right. assumption.
  - destruct mv.
    + unfold erase_hashes. unfold rec_rows at 1. cbn [set_hashes s_mboxes]. fold (rec_rows s2). rewrite A.
      rewrite rec_rows_del_recov. reflexivity.
    + rewrite A. reflexivity.
Qed.
End DedupProofs.
