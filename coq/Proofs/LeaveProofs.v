(* C01/C02, leaving a mailbox: CLOSE removes the \Deleted messages exactly as EXPUNGE does but answers no EXPUNGE; CLOSE and
   UNSELECT leave the session with no selection, no snapshot and nothing pending - so nothing that was pending for the old
   mailbox can be applied to the next one (State.close: snapshot and responders are dropped together). *)
From Coq Require Import List NArith Bool Lia Arith String.
From Gluon Require Import Model.Responders Model.Session Proofs.ReadOnlyProofs.
Import ListNotations.
Open Scope N_scope.

Definition left_mailbox (s : sess) : Prop :=
  ss_sel s = None /\ s_snap (ss_st s) = [] /\ s_res (ss_st s) = [] /\ ss_idle s = false.

Lemma get_put_same i x w s0 : get_sess w i = Some s0 -> get_sess (put_sess i x w) i = Some x.
Proof.
  unfold get_sess, put_sess, set_sess. cbn [w_sess]. intros H.
  rewrite (nth_upd_same (fun _ => x) (w_sess w) i s0 H). reflexivity.
Qed.

Definition deleted_here (w : world) (sel : N) (sn : snap) : list msgid :=
  filter (fun m => row_has m (mbox_of w sel)) (map sm_id (filter (fun x => fl_mem fl_deleted (sm_flags x)) sn)).

Theorem unselect_leaves w i s sel :
  get_sess w i = Some s -> ss_idle s = false -> ss_sel s = Some sel ->
  exists w', do_cmd w i CUnselect = (w', [], OOk) /\ same_db w w' /\
             (exists s', get_sess w' i = Some s' /\ left_mailbox s' /\ ss_queue s' = ss_queue s) /\
             (forall j, j <> i -> get_sess w' j = get_sess w j).
Proof.
  intros G Hi Hs. unfold do_cmd. rewrite G, Hi, Hs. eexists. split; [reflexivity|]. split; [apply put_sess_db|]. split.
  - eexists. split; [eapply get_put_same; exact G|]. split; [repeat split|reflexivity].
  - intros j Hj. unfold get_sess, put_sess, set_sess. cbn [w_sess]. apply nth_upd_other. exact Hj.
Qed.

Theorem close_leaves w i s sel w' out oc :
  get_sess w i = Some s -> ss_idle s = false -> ss_sel s = Some sel ->
  do_cmd w i CClose = (w', out, oc) -> oc = OOk ->
  same_db w' (fst (remove_rows w sel (deleted_here w sel (s_snap (ss_st s))))) /\
  (exists s', get_sess w' i = Some s' /\ left_mailbox s') /\
  forallb (fun r => negb (is_pexpunge r)) out = true.
Proof.
  intros G Hi Hs. unfold do_cmd. rewrite G, Hi, Hs. fold (deleted_here w sel (s_snap (ss_st s))).
  destruct (remove_rows w sel (deleted_here w sel (s_snap (ss_st s)))) as [w1 ups] eqn:R. cbn [fst].
  destruct (broadcast ups (Some i) false 0 (w_sess w1)) as [ss|] eqn:B; [|intros H E; injection H as _ _ <-; discriminate E].
  destruct (get_sess (set_sess ss w1) i) as [s1|] eqn:G1; [|intros H E; injection H as _ _ <-; discriminate E].
  destruct (own_permits "handleClose") as [|permit [|? ?]]; try (intros H E; injection H as _ _ <-; discriminate E).
  destruct (flush_raw permit (ss_st s1)) as [[st o1]|]; [|intros H E; injection H as _ _ <-; discriminate E].
  intros H _. injection H as <- <- _. split; [|split].
  - destruct (put_sess_db i (mkSess None (mkS [] []) (ss_queue s1) false) (set_sess ss w1)) as (A1 & A2 & A3 & A4).
    repeat split; symmetry; assumption.
  - eexists. split; [eapply get_put_same; exact G1|]. repeat split.
  - rewrite forallb_forall. intros r Hr. apply filter_In in Hr. apply Hr.
Qed.

(* whatever mailbox is selected next starts from the database with nothing pending *)
Theorem select_starts_clean w i s mb :
  get_sess w i = Some s -> ss_idle s = false ->
  exists w' out, do_cmd w i (CSelect mb) = (w', out, OOk) /\
    exists s', get_sess w' i = Some s' /\ s_res (ss_st s') = [] /\ s_snap (ss_st s') = fresh_view w mb.
Proof.
  intros G Hi. unfold do_cmd. rewrite G, Hi. eexists _, _. split; [reflexivity|].
  eexists. split; [eapply get_put_same; exact G|]. split; reflexivity.
Qed.

(* satisfiable: two messages, one \Deleted, a flag change and a new message pending; CLOSE removes the deleted one from the
   database, answers the pending EXISTS/FETCH but no EXPUNGE, and leaves the mailbox *)
Definition lv_w0 : world :=
  mkW [(1, []); (2, [])] [[mkRow 1 1 true; mkRow 2 2 false]] [3] 3
      [mkSess (Some 0) (mkS [mkSmsg 1 1 [fl_deleted]; mkSmsg 2 2 []] [RFetch 2 [3] FAdd false false false]) [] false].

Example close_example :
  exists w', do_cmd lv_w0 0 CClose = (w', [PFetch 2 [3] None], OOk) /\ mbox_of w' 0 = [mkRow 2 2 false] /\
             option_map ss_sel (get_sess w' 0) = Some None.
Proof. eexists. vm_compute. repeat split. Qed.
