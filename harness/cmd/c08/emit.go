package main

// Emission of operations, observed results and dumps as Gallina terms for Run/RunC08.v.

import (
	"fmt"
	"sort"
	"strings"
)

func coqStr(s string) string { return "\"" + strings.ReplaceAll(s, "\"", "\"\"") + "\"%string" }
func coqFlags(l []string) string {
	p := make([]string, len(l))
	for i, f := range l {
		p[i] = coqStr(f)
	}
	return "[" + strings.Join(p, "; ") + "]"
}
func coqB(b bool) string {
	if b {
		return "true"
	}
	return "false"
}

// segs renders a list of ints as (start,count) runs of consecutive values, in the given order.
func coqSegs(l []int) string {
	var p []string
	for i := 0; i < len(l); {
		j := i + 1
		for j < len(l) && l[j] == l[j-1]+1 {
			j++
		}
		p = append(p, fmt.Sprintf("(%d, %d)", l[i], j-i))
		i = j
	}
	return "(segs [" + strings.Join(p, "; ") + "])"
}

func coqPairSegs(l [][2]int) string {
	var p []string
	for i := 0; i < len(l); {
		j := i + 1
		for j < len(l) && l[j][0] == l[j-1][0]+1 && l[j][1] == l[j-1][1]+1 {
			j++
		}
		p = append(p, fmt.Sprintf("(%d, %d, %d)", l[i][0], l[i][1], j-i))
		i = j
	}
	return "(pair_segs [" + strings.Join(p, "; ") + "])"
}

func sameStrs(a, b []string) bool {
	if len(a) != len(b) {
		return false
	}
	for i := range a {
		if a[i] != b[i] {
			return false
		}
	}
	return true
}

func coqReqSegs(l []req) string {
	var p []string
	for i := 0; i < len(l); {
		j := i + 1
		for j < len(l) && l[j].ID == l[j-1].ID+1 && l[j].Remote == l[j-1].Remote+1 && sameStrs(l[j].Flags, l[i].Flags) {
			j++
		}
		p = append(p, fmt.Sprintf("(%d, %d, %d, %s)", l[i].ID, l[i].Remote, j-i, coqFlags(l[i].Flags)))
		i = j
	}
	return "(req_segs [" + strings.Join(p, "; ") + "])"
}

func coqMbox(m oMbox) string {
	return fmt.Sprintf("(mkMbox %d %d %d %d %s)", m.ID, m.Remote, m.Name, m.UIDV, coqB(m.Sub))
}

// coqOp returns the Gallina term of an operation, or "" when the Coq model does not cover it.
func coqOp(o *op) string {
	switch o.K {
	case "AddMessages":
		return fmt.Sprintf("OAddMessages %d %s", o.Box, coqPairSegs(o.Pairs))
	case "RemoveMessages":
		return fmt.Sprintf("ORemoveMessages %d %s", o.Box, coqSegs(o.Ids))
	case "SetDeleted":
		return fmt.Sprintf("OSetDeleted %d %s %s", o.Box, coqSegs(o.Ids), coqB(o.B))
	case "CreateMessages":
		return "OCreateMessages " + coqReqSegs(o.Reqs)
	case "DeleteMessages":
		return "ODeleteMessages " + coqSegs(o.Ids)
	case "AddFlag":
		return fmt.Sprintf("OAddFlag %s %s", coqSegs(o.Ids), coqStr(o.Flag))
	case "RemoveFlag":
		return fmt.Sprintf("ORemoveFlag %s %s", coqSegs(o.Ids), coqStr(o.Flag))
	case "SetFlags":
		if len(o.Flags) > 32 {
			return ""
		}
		return fmt.Sprintf("OSetFlags %s %s", coqSegs(o.Ids), coqFlags(o.Flags))
	case "FilterContains":
		return fmt.Sprintf("OFilterContains %d %s", o.Box, coqSegs(o.Ids))
	case "GetMessagesFlags":
		return "OGetMessagesFlags " + coqSegs(o.Ids)
	case "Translate":
		return "OTranslate " + coqSegs(o.Ids)
	case "CreateMailbox":
		return fmt.Sprintf("OCreateMailbox %d %d %d %s %s %s", o.N1, o.N2, o.N3, coqFlags(o.Flags), coqFlags(o.Flags2), coqFlags(o.Flags3))
	case "GetOrCreateMailbox", "GetOrCreateMailboxAlt":
		return fmt.Sprintf("OGetOrCreateMailbox %d %d %d %s %s %s", o.N1, o.N2, o.N3, coqFlags(o.Flags), coqFlags(o.Flags2), coqFlags(o.Flags3))
	case "DeleteMailbox":
		return fmt.Sprintf("ODeleteMailbox %d", o.N1)
	case "RenameMailbox":
		return fmt.Sprintf("ORenameMailbox %d %d", o.N1, o.N2)
	case "SetSubscribed":
		return fmt.Sprintf("OSetSubscribed %d %s", o.Box, coqB(o.B))
	case "SetUIDValidity":
		return fmt.Sprintf("OSetUIDValidity %d %d", o.Box, o.N1)
	case "UpdateRemoteMailboxID":
		return fmt.Sprintf("OUpdateRemoteMailboxID %d %d", o.Box, o.N1)
	case "CreateMessageAndAdd":
		q := o.Reqs[0]
		return fmt.Sprintf("OCreateMessageAndAdd %d (mkReq %d %d %d %s)", o.Box, q.ID, q.Remote, q.ID, coqFlags(q.Flags))
	case "MarkDeleted":
		return fmt.Sprintf("OMarkDeleted %d", o.N1)
	case "MarkDeletedRemote":
		return fmt.Sprintf("OMarkDeletedRemote %d", o.N1)
	case "UpdateRemoteMessageID":
		return fmt.Sprintf("OUpdateRemoteMessageID %d %d", o.N1, o.N2)
	case "ClearRecentOne":
		return fmt.Sprintf("OClearRecentOne %d %d", o.Box, o.N1)
	case "ClearRecentAll":
		return fmt.Sprintf("OClearRecentAll %d", o.Box)
	case "AddDeletedSubscription":
		return fmt.Sprintf("OAddDeletedSubscription %d %d", o.N1, o.N2)
	case "RemoveDeletedSubscription":
		return fmt.Sprintf("ORemoveDeletedSubscription %d", o.N1)
	case "GetDeletedSubscriptions":
		return "OGetDeletedSubscriptions"
	case "StoreSettings":
		return fmt.Sprintf("OStoreSettings %d", o.N1)
	case "GetSettings":
		return "OGetSettings"
	case "MailboxExistsID":
		return fmt.Sprintf("OMailboxExistsID %d", o.Box)
	case "MailboxExistsRemote":
		return fmt.Sprintf("OMailboxExistsRemote %d", o.N1)
	case "MailboxExistsName":
		return fmt.Sprintf("OMailboxExistsName %d", o.N1)
	case "GetMailboxByID":
		return fmt.Sprintf("OGetMailboxByID %d", o.Box)
	case "GetMailboxByRemote":
		return fmt.Sprintf("OGetMailboxByRemote %d", o.N1)
	case "GetMailboxByName":
		return fmt.Sprintf("OGetMailboxByName %d", o.N1)
	case "GetMailboxIDFromRemote":
		return fmt.Sprintf("OGetMailboxIDFromRemote %d", o.N1)
	case "GetMailboxCount":
		return "OGetMailboxCount"
	case "GetAllMailboxRemoteIDs":
		return "OGetAllMailboxRemoteIDs"
	case "GetMailboxFlags":
		return fmt.Sprintf("OGetMailboxFlags %d%%nat %d", o.N1, o.Box)
	case "GetMessageCount":
		return fmt.Sprintf("OGetMessageCount %d", o.Box)
	case "GetRecentCount":
		return fmt.Sprintf("OGetRecentCount %d", o.Box)
	case "GetMailboxUID":
		return fmt.Sprintf("OGetMailboxUID %d", o.Box)
	case "GetCountAndUID":
		return fmt.Sprintf("OGetCountAndUID %d", o.Box)
	case "GetIDPairs":
		return fmt.Sprintf("OGetIDPairs %d", o.Box)
	case "Snapshot":
		return fmt.Sprintf("OSnapshot %d", o.Box)
	case "MessageExists":
		return fmt.Sprintf("OMessageExists %d", o.N1)
	case "MessageExistsRemote":
		return fmt.Sprintf("OMessageExistsRemote %d", o.N1)
	case "TotalMessageCount":
		return "OTotalMessageCount"
	case "GetMessageRemote":
		return fmt.Sprintf("OGetMessageRemote %d", o.N1)
	case "GetMessageIDFromRemote":
		return fmt.Sprintf("OGetMessageIDFromRemote %d", o.N1)
	case "GetMessageDeleted":
		return fmt.Sprintf("OGetMessageDeleted %d", o.N1)
	case "GetMessageMailboxes":
		return fmt.Sprintf("OGetMessageMailboxes %d", o.N1)
	case "GetMarkedDeleted":
		return "OGetMarkedDeleted"
	case "GetAllMessageIDs":
		return "OGetAllMessageIDs"
	}
	return ""
}

func nonNeg(l ...int) bool {
	for _, x := range l {
		if x < 0 {
			return false
		}
	}
	return true
}

// coqRes renders an observed (canonicalised) result; ok=false when it contains something that cannot be a number.
func coqRes(r res) (string, bool) {
	switch r.K {
	case "unit":
		return "RUnit", true
	case "bool":
		return "RBool " + coqB(r.B), true
	case "num":
		return fmt.Sprintf("RNum %d", r.N), r.N >= 0
	case "nums":
		return "RNums " + coqSegs(r.Ns), nonNeg(r.Ns...)
	case "pairs":
		for _, p := range r.Ps {
			if !nonNeg(p[0], p[1]) {
				return "", false
			}
		}
		return "RPairs " + coqPairSegs(r.Ps), true
	case "mbox":
		return "RMbox " + coqMbox(r.Mb), nonNeg(r.Mb.ID, r.Mb.Remote, r.Mb.Name, r.Mb.UIDV)
	case "flags":
		return "RFlags " + coqFlags(r.Fl), true
	case "snap":
		var p []string
		for i := 0; i < len(r.Snap); {
			a := r.Snap[i]
			if !nonNeg(a.UID, a.Msg, a.Remote) {
				return "", false
			}
			j := i + 1
			for j < len(r.Snap) {
				b, c := r.Snap[j], r.Snap[j-1]
				if b.UID == c.UID+1 && b.Msg == c.Msg+1 && b.Remote == c.Remote+1 && b.Deleted == a.Deleted && b.Recent == a.Recent && sameStrs(b.Flags, a.Flags) {
					j++
				} else {
					break
				}
			}
			p = append(p, fmt.Sprintf("(%d, %d, %d, %d, %s, %s, %s)", a.UID, a.Msg, a.Remote, j-i, coqB(a.Deleted), coqB(a.Recent), coqFlags(a.Flags)))
			i = j
		}
		return "RSnap (snap_segs [" + strings.Join(p, "; ") + "])", true
	case "msgflags":
		var p []string
		for i := 0; i < len(r.MF); {
			a := r.MF[i]
			if !nonNeg(a.ID, a.Remote) {
				return "", false
			}
			j := i + 1
			for j < len(r.MF) && r.MF[j].ID == r.MF[j-1].ID+1 && r.MF[j].Remote == r.MF[j-1].Remote+1 && sameStrs(r.MF[j].Flags, a.Flags) {
				j++
			}
			p = append(p, fmt.Sprintf("(%d, %d, %d, %s)", a.ID, a.Remote, j-i, coqFlags(a.Flags)))
			i = j
		}
		return "RMsgFlags (mf_segs [" + strings.Join(p, "; ") + "])", true
	case "uidflags":
		return fmt.Sprintf("RUidFlags %d %s", r.N, coqFlags(r.Fl)), r.N >= 0
	case "countuid":
		return fmt.Sprintf("RCountUid %d %d", r.N, r.N2), true
	case "optnum":
		if r.Opt == nil {
			return "ROptNum None", true
		}
		return fmt.Sprintf("ROptNum (Some %d)", *r.Opt), *r.Opt >= 0
	}
	return "", false
}

// coqDump renders the raw dump; ok=false when it contains unknown identifiers.
func coqDump(d *rawDump) (string, bool) {
	if len(d.Extra) > 0 {
		return "", false
	}
	var mb []string
	for _, m := range d.Mboxes {
		if !nonNeg(m.ID, m.Remote, m.Name, m.UIDV) {
			return "", false
		}
		mb = append(mb, coqMbox(m))
	}
	msgs := append([]oMsg{}, d.Msgs...)
	sort.Slice(msgs, func(i, j int) bool { return msgs[i].ID < msgs[j].ID })
	var ms []string
	for i := 0; i < len(msgs); {
		if !nonNeg(msgs[i].ID, msgs[i].Remote) {
			return "", false
		}
		j := i + 1
		for j < len(msgs) && msgs[j].ID == msgs[j-1].ID+1 && msgs[j].Remote == msgs[j-1].Remote+1 && msgs[j].Deleted == msgs[i].Deleted {
			j++
		}
		ms = append(ms, fmt.Sprintf("(%d, %d, %d, %s)", msgs[i].ID, msgs[i].Remote, j-i, coqB(msgs[i].Deleted)))
		i = j
	}
	perMsg := map[int][]string{}
	for _, f := range d.Flags {
		if f.M < 0 {
			return "", false
		}
		perMsg[f.M] = append(perMsg[f.M], f.F)
	}
	var ids []int
	for m := range perMsg {
		sort.Strings(perMsg[m])
		ids = append(ids, m)
	}
	sort.Ints(ids)
	var fl []string
	for i := 0; i < len(ids); {
		j := i + 1
		for j < len(ids) && ids[j] == ids[j-1]+1 && sameStrs(perMsg[ids[j]], perMsg[ids[i]]) {
			j++
		}
		fl = append(fl, fmt.Sprintf("(%d, %d, %s)", ids[i], j-i, coqFlags(perMsg[ids[i]])))
		i = j
	}
	perM := map[int][]int{}
	for _, p := range d.M2M {
		if p[0] < 0 {
			return "", false
		}
		perM[p[0]] = append(perM[p[0]], p[1])
	}
	ids = nil
	for m := range perM {
		sort.Ints(perM[m])
		ids = append(ids, m)
	}
	sort.Ints(ids)
	sameInts := func(a, b []int) bool {
		if len(a) != len(b) {
			return false
		}
		for i := range a {
			if a[i] != b[i] {
				return false
			}
		}
		return true
	}
	var mm []string
	for i := 0; i < len(ids); {
		j := i + 1
		for j < len(ids) && ids[j] == ids[j-1]+1 && sameInts(perM[ids[j]], perM[ids[i]]) {
			j++
		}
		bs := make([]string, len(perM[ids[i]]))
		for k, b := range perM[ids[i]] {
			bs[k] = fmt.Sprint(b)
		}
		mm = append(mm, fmt.Sprintf("(%d, %d, [%s])", ids[i], j-i, strings.Join(bs, "; ")))
		i = j
	}
	var tabs []string
	for _, t := range d.Tabs {
		var rows []string
		for i := 0; i < len(t.Rows); {
			a := t.Rows[i]
			if !nonNeg(a.Msg, a.Remote) {
				return "", false
			}
			j := i + 1
			for j < len(t.Rows) {
				b, c := t.Rows[j], t.Rows[j-1]
				if b.UID == c.UID+1 && b.Msg == c.Msg+1 && b.Remote == c.Remote+1 && b.Deleted == a.Deleted && b.Recent == a.Recent {
					j++
				} else {
					break
				}
			}
			rows = append(rows, fmt.Sprintf("DRow %d %d %d %d %s %s", a.UID, a.Msg, a.Remote, j-i, coqB(a.Deleted), coqB(a.Recent)))
			i = j
		}
		tabs = append(tabs, fmt.Sprintf("(%d, %d, [%s])", t.Box, t.Seq, strings.Join(rows, "; ")))
	}
	var subs []string
	for _, p := range d.Subs {
		if !nonNeg(p[0], p[1]) {
			return "", false
		}
		subs = append(subs, fmt.Sprintf("(%d, %d)", p[0], p[1]))
	}
	set := "None"
	if d.Settings != nil {
		if *d.Settings < 0 {
			return "", false
		}
		set = fmt.Sprintf("(Some %d)", *d.Settings)
	}
	return fmt.Sprintf("(mkDump [%s] [%s] [%s] [%s] [%s] [%s] %s)", strings.Join(mb, "; "), strings.Join(ms, "; "),
		strings.Join(fl, "; "), strings.Join(mm, "; "), strings.Join(tabs, "; "), strings.Join(subs, "; "), set), true
}
