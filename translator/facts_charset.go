package main

// Extractor "Charset" -> coq/Gen/FactsCharset.v (property C15): what the SEARCH CHARSET decoders and the case folding
// of the string keys do, tabulated by EXECUTING the functions the server uses.
//
//   - internal/session/handle_search.go obtains the decoder with ianaindex.IANA.Encoding(<name>).NewDecoder(); for the
//     single-byte charsets the harness uses (ISO-8859-1, windows-1252, ISO-8859-15, KOI8-R) the table byte -> code point
//     (bytes 0x80..0xFF; 0xFFFD where the decoder has no mapping) is obtained by running exactly that decoder on each byte;
//   - internal/state/mailbox_search.go folds with strings.ToLower / bytes.ToLower, i.e. unicode.ToLower rune by rune: the
//     pairs (c, unicode.ToLower(c)) with c <> ToLower(c) are listed for U+0080..U+052F (Latin-1 Supplement, Latin
//     Extended-A/B, IPA, Greek, Cyrillic); outside these blocks the model leaves a code point unchanged.
//
// It also checks syntactically that handle_search.go still takes the decoder from ianaindex.IANA.Encoding.

import (
	"fmt"
	"strings"
	"unicode"
	"unicode/utf8"

	"golang.org/x/text/encoding/ianaindex"
)

func init() { register("Charset", factsCharset) }

var charsetTables = []struct{ coq, iana string }{
	{"tbl_latin1", "ISO-8859-1"}, {"tbl_cp1252", "windows-1252"}, {"tbl_latin9", "ISO-8859-15"}, {"tbl_koi8r", "KOI8-R"},
}

func factsCharset(t *T) (string, error) {
	src, err := t.ReadFile("internal/session/handle_search.go")
	if err != nil {
		return "", err
	}
	if !strings.Contains(src, "ianaindex.IANA.Encoding(cmd.Charset)") || !strings.Contains(src, "encoding.NewDecoder()") {
		return "", fmt.Errorf("handle_search.go no longer obtains its decoder from ianaindex.IANA.Encoding(cmd.Charset)")
	}
	var sb strings.Builder
	sb.WriteString("(* SEARCH CHARSET decoders and Unicode lower-casing, tabulated by executing the Go functions the server uses\n   (T1, extractor Charset): see /verif/translator/facts_charset.go. *)\n")
	sb.WriteString("From Coq Require Import List NArith.\nImport ListNotations.\nOpen Scope N_scope.\n\n")
	for _, ct := range charsetTables {
		enc, err := ianaindex.IANA.Encoding(ct.iana)
		if err != nil || enc == nil {
			return "", fmt.Errorf("no encoding for %s: %v", ct.iana, err)
		}
		var cps []string
		for b := 0x80; b <= 0xFF; b++ {
			out, err := enc.NewDecoder().Bytes([]byte{byte(b)})
			if err != nil {
				return "", err
			}
			r, n := utf8.DecodeRune(out)
			if n != len(out) {
				return "", fmt.Errorf("%s: byte %#x decodes to %d runes", ct.iana, b, utf8.RuneCount(out))
			}
			cps = append(cps, fmt.Sprint(int(r)))
		}
		sb.WriteString(fmt.Sprintf("(* %s: code point of byte 0x80+i *)\nDefinition %s : list N :=\n  [%s].\n\n", ct.iana, ct.coq, strings.Join(cps, "; ")))
	}
	var pairs []string
	for c := rune(0x80); c <= 0x52F; c++ {
		if l := unicode.ToLower(c); l != c {
			pairs = append(pairs, fmt.Sprintf("(%d, %d)", c, l))
		}
	}
	sb.WriteString("(* (c, unicode.ToLower c) for the code points U+0080..U+052F that change *)\nDefinition lower_pairs : list (N * N) :=\n  [" + strings.Join(pairs, "; ") + "].\n")
	sb.WriteString("Definition lower_pairs_limit : N := 1327.\n")
	return sb.String(), nil
}
