(* Lemma family about chunked statement loops: for every chunk size L > 0 and every list (no bound on the length)
   running one statement per chunk equals running the statement once on the whole list, for delete / update /
   insert / select shaped statements. *)
From Coq Require Import List Arith Lia Bool.
From Gluon Require Import Model.Chunks.
Import ListNotations.

Section ChunkLemmas.
  Context {A : Type}.

  Lemma firstn_skipn_len_lt : forall (L : nat) (l : list A), 0 < L -> l <> [] -> length (skipn L l) < length l.
  Proof.
    intros L l HL Hne. destruct l as [|a t]; [congruence|].
    rewrite skipn_length. cbn [length]. lia.
  Qed.

  Lemma concat_chunks_aux : forall f L (l : list A), 0 < L -> length l <= f -> concat (chunks_aux f L l) = l.
  Proof.
    induction f as [|f IH]; intros L l HL Hlen.
    - destruct l; [reflexivity| cbn in Hlen; lia].
    - destruct l as [|a t]; [reflexivity|].
      cbn [chunks_aux concat].
      rewrite IH; [apply firstn_skipn | exact HL |].
      assert (H := firstn_skipn_len_lt L (a :: t) HL ltac:(congruence)). lia.
  Qed.

  Theorem concat_chunks : forall L (l : list A), 0 < L -> concat (chunks L l) = l.
  Proof. intros. unfold chunks. apply concat_chunks_aux; auto. Qed.

  Lemma chunks_aux_nonempty : forall f L (l : list A), 0 < L -> Forall (fun c => c <> []) (chunks_aux f L l).
  Proof.
    induction f as [|f IH]; intros L l HL; cbn [chunks_aux]; [constructor|].
    destruct l as [|a t]; [constructor|].
    constructor; [|apply IH; exact HL].
    destruct L; [lia|]. cbn [firstn]. congruence.
  Qed.

  Theorem chunks_nonempty : forall L (l : list A), 0 < L -> Forall (fun c => c <> []) (chunks L l).
  Proof. intros. apply chunks_aux_nonempty; auto. Qed.

  Lemma chunks_aux_len_le : forall f L (l : list A), Forall (fun c => length c <= L) (chunks_aux f L l).
  Proof.
    induction f as [|f IH]; intros L l; cbn [chunks_aux]; [constructor|].
    destruct l as [|a t]; [constructor|].
    constructor; [apply firstn_le_length | apply IH].
  Qed.

  Theorem chunks_len_le : forall L (l : list A), Forall (fun c => length c <= L) (chunks L l).
  Proof. intros. apply chunks_aux_len_le. Qed.

  Theorem chunks_nil : forall L, chunks L (@nil A) = [].
  Proof. reflexivity. Qed.

  (* a list that fits into one chunk is one chunk *)
  Theorem chunks_single : forall L (l : list A), l <> [] -> length l <= L -> chunks L l = [l].
  Proof.
    intros L l Hne Hle. unfold chunks. destruct l as [|a t]; [congruence|].
    cbn [length chunks_aux].
    rewrite firstn_all2 by exact Hle. rewrite skipn_all2 by exact Hle.
    destruct (length t); reflexivity.
  Qed.
End ChunkLemmas.

Section FoldLemmas.
  Context {S A : Type}.

  Lemma foldM_app : forall (f : A -> S -> option S) l1 l2 s,
    foldM f (l1 ++ l2) s = obind (foldM f l1 s) (foldM f l2).
  Proof.
    induction l1 as [|a t IH]; intros l2 s; cbn [app foldM obind]; [reflexivity|].
    destruct (f a s); [apply IH | reflexivity].
  Qed.

  (* a statement g over an argument list is a "list homomorphism" when running it on a ++ b is running it on a
     and then on b (inside one transaction, first error wins) *)
  Definition stmt_hom (g : list A -> S -> option S) : Prop :=
    (forall s, g [] s = Some s) /\ (forall a b s, g (a ++ b) s = obind (g a s) (g b)).

  Lemma foldM_concat_hom : forall g, stmt_hom g -> forall ls s, foldM g ls s = g (concat ls) s.
  Proof.
    intros g [Hnil Happ]. induction ls as [|c t IH]; intros s; cbn [foldM concat].
    - symmetry. apply Hnil.
    - rewrite Happ. destruct (g c s); cbn [obind]; [apply IH | reflexivity].
  Qed.

  Theorem chunked_stmt_eq : forall g, stmt_hom g -> forall L l s, 0 < L -> foldM g (chunks L l) s = g l s.
  Proof. intros g Hg L l s HL. rewrite foldM_concat_hom by exact Hg. rewrite concat_chunks by exact HL. reflexivity. Qed.

  (* the chunk size does not matter at all *)
  Theorem chunk_size_irrelevant : forall g, stmt_hom g -> forall L1 L2 l s, 0 < L1 -> 0 < L2 ->
    foldM g (chunks L1 l) s = foldM g (chunks L2 l) s.
  Proof. intros. rewrite !chunked_stmt_eq by assumption. reflexivity. Qed.

  (* homomorphisms compose: a row-by-row statement *)
  Lemma foldM_is_hom : forall (f : A -> S -> option S), stmt_hom (foldM f).
  Proof. intros f. split; [reflexivity | apply foldM_app]. Qed.

  (* two statements per chunk, g1 then g2, when g2 on an earlier chunk commutes with g1 on a later chunk *)
  Lemma seq_hom : forall g1 g2 : list A -> S -> option S, stmt_hom g1 -> stmt_hom g2 ->
    (forall a b s, obind (g2 a s) (g1 b) = obind (g1 b s) (g2 a)) ->
    stmt_hom (fun c s => obind (g1 c s) (g2 c)).
  Proof.
    intros g1 g2 [N1 A1] [N2 A2] Hc. split.
    - intros s. rewrite N1. cbn [obind]. apply N2.
    - intros a b s. rewrite A1.
      destruct (g1 a s) as [s1|] eqn:E1; cbn [obind]; [|reflexivity].
      destruct (g1 b s1) as [s2|] eqn:E2; cbn [obind].
      + rewrite A2.
        specialize (Hc a b s1). rewrite E2 in Hc. cbn [obind] in Hc.
        destruct (g2 a s1) as [s3|] eqn:E3; cbn [obind] in *.
        * rewrite Hc. reflexivity.
        * rewrite <- Hc. reflexivity.
      + specialize (Hc a b s1). rewrite E2 in Hc. cbn [obind] in Hc.
        destruct (g2 a s1) as [s3|] eqn:E3; cbn [obind] in *; [rewrite Hc; reflexivity | reflexivity].
  Qed.
End FoldLemmas.

Section PureShapes.
  Context {R K : Type}.
  Variable key : R -> K.
  Variable memb : K -> list K -> bool.
  Hypothesis memb_app : forall k a b, memb k (a ++ b) = memb k a || memb k b.
  Hypothesis memb_nil : forall k, memb k [] = false.

  (* DELETE FROM t WHERE key IN (...) *)
  Definition del_in (ks : list K) (rows : list R) : list R := filter (fun r => negb (memb (key r) ks)) rows.

  Lemma del_in_nil : forall rows, del_in [] rows = rows.
  Proof.
    induction rows as [|r t IH]; [reflexivity|]. unfold del_in in *. cbn [filter]. rewrite memb_nil. cbn [negb].
    f_equal. exact IH.
  Qed.

  Lemma del_in_app : forall a b rows, del_in (a ++ b) rows = del_in b (del_in a rows).
  Proof.
    intros a b. induction rows as [|r t IH]; [reflexivity|]. unfold del_in in *. cbn [filter].
    rewrite memb_app. destruct (memb (key r) a) eqn:Ea; cbn [orb negb].
    - exact IH.
    - cbn [filter]. destruct (memb (key r) b); cbn [negb]; [exact IH | f_equal; exact IH].
  Qed.

  (* UPDATE t SET c = v WHERE key IN (...)   (u idempotent: it writes a constant) *)
  Variable u : R -> R.
  Hypothesis u_key : forall r, key (u r) = key r.
  Hypothesis u_idem : forall r, u (u r) = u r.
  Definition upd_in (ks : list K) (rows : list R) : list R := map (fun r => if memb (key r) ks then u r else r) rows.

  Lemma upd_in_nil : forall rows, upd_in [] rows = rows.
  Proof.
    induction rows as [|r t IH]; [reflexivity|]. unfold upd_in in *. cbn [map]. rewrite memb_nil. f_equal. exact IH.
  Qed.

  Lemma upd_in_app : forall a b rows, upd_in (a ++ b) rows = upd_in b (upd_in a rows).
  Proof.
    intros a b. induction rows as [|r t IH]; [reflexivity|]. unfold upd_in in *. cbn [map].
    rewrite memb_app. f_equal; [|exact IH].
    destruct (memb (key r) a) eqn:Ea; cbn [orb].
    - rewrite u_key. destruct (memb (key r) b); [symmetry; apply u_idem | reflexivity].
    - reflexivity.
  Qed.

  (* SELECT ... WHERE key IN (...), result concatenated chunk after chunk: same rows as a set *)
  Definition sel_in (ks : list K) (rows : list R) : list R := filter (fun r => memb (key r) ks) rows.

  Lemma sel_in_app_In : forall a b rows x, In x (sel_in (a ++ b) rows) <-> In x (sel_in a rows) \/ In x (sel_in b rows).
  Proof.
    intros a b rows x. unfold sel_in. rewrite !filter_In, memb_app, orb_true_iff. tauto.
  Qed.

  Lemma sel_chunks_In : forall ls rows x, In x (flat_map (fun c => sel_in c rows) ls) <-> In x (sel_in (concat ls) rows).
  Proof.
    induction ls as [|c t IH]; intros rows x; cbn [flat_map concat].
    - unfold sel_in. rewrite filter_In, memb_nil. split; [intros [] | intros [_ H]; discriminate].
    - rewrite in_app_iff, sel_in_app_In, IH. tauto.
  Qed.

  Theorem chunked_select_same_set : forall L ks rows x, 0 < L ->
    (In x (flat_map (fun c => sel_in c rows) (chunks L ks)) <-> In x (sel_in ks rows)).
  Proof. intros. rewrite sel_chunks_In, concat_chunks by assumption. tauto. Qed.
End PureShapes.
