// Package srv starts an in-process gluon server for the harness.
package srv

import (
	"context"
	"fmt"
	"io"
	"net"
	"os"
	"path/filepath"
	"time"

	"github.com/ProtonMail/gluon"
	"github.com/ProtonMail/gluon/db"
	"github.com/ProtonMail/gluon/imap"
	"github.com/ProtonMail/gluon/limits"
	"github.com/ProtonMail/gluon/store"
	"github.com/sirupsen/logrus"

	"verifharness/hconn"
	"verifharness/imapc"
)

type Options struct {
	Dir           string // base dir (data + db below it); created if empty
	Delimiter     string
	JailTime      time.Duration
	IdleBulkTime  time.Duration
	Limits        *limits.IMAP
	DB            db.ClientInterface
	StoreBuilder  store.Builder
	UIDValidity   imap.UIDValidityGenerator
	Users         []User
	KeepDir       bool
	ExtraOptions  []gluon.Option
	NoParallelism bool
}

type User struct {
	Names []string
	Pass  string
	ID    string // user id; default = "user-<i>"
	Conn  *hconn.Conn
}

type Server struct {
	S        *gluon.Server
	Opts     Options
	Listener net.Listener
	Addr     string
	Conns    map[string]*hconn.Conn // by user id
	cancel   context.CancelFunc
	Dir      string
	ownDir   bool
}

func init() {
	logrus.SetOutput(io.Discard)
	logrus.SetLevel(logrus.PanicLevel)
}

func DefaultUsers() []User {
	return []User{{Names: []string{"user"}, Pass: "pass"}}
}

func Start(o Options) (*Server, error) {
	s := &Server{Opts: o, Conns: map[string]*hconn.Conn{}}
	if o.Dir == "" {
		d, err := os.MkdirTemp("", "verif-gluon-*")
		if err != nil {
			return nil, err
		}
		o.Dir = d
		s.ownDir = true
	}
	s.Dir = o.Dir
	if o.Delimiter == "" {
		o.Delimiter = "/"
	}
	if len(o.Users) == 0 {
		o.Users = DefaultUsers()
	}
	opts := []gluon.Option{
		gluon.WithDataDir(filepath.Join(o.Dir, "store")),
		gluon.WithDatabaseDir(filepath.Join(o.Dir, "db")),
		gluon.WithDelimiter(o.Delimiter),
		gluon.WithLoginJailTime(o.JailTime),
		gluon.WithIdleBulkTime(o.IdleBulkTime),
	}
	if o.Limits != nil {
		opts = append(opts, gluon.WithIMAPLimits(*o.Limits))
	}
	if o.DB != nil {
		opts = append(opts, gluon.WithDBClient(o.DB))
	}
	if o.StoreBuilder != nil {
		opts = append(opts, gluon.WithStoreBuilder(o.StoreBuilder))
	}
	if o.UIDValidity != nil {
		opts = append(opts, gluon.WithUIDValidityGenerator(o.UIDValidity))
	}
	if o.NoParallelism {
		opts = append(opts, gluon.WithDisableParallelism())
	}
	opts = append(opts, o.ExtraOptions...)
	g, err := gluon.New(opts...)
	if err != nil {
		return nil, err
	}
	s.S = g
	ctx, cancel := context.WithCancel(context.Background())
	s.cancel = cancel
	for i := range o.Users {
		u := &o.Users[i]
		if u.ID == "" {
			u.ID = fmt.Sprintf("user-%d", i)
		}
		if u.Conn == nil {
			u.Conn = hconn.New(u.Names, u.Pass)
		}
		if _, err := g.LoadUser(ctx, u.Conn, u.ID, []byte(u.Pass)); err != nil {
			return nil, fmt.Errorf("LoadUser: %w", err)
		}
		if err := u.Conn.Sync(20 * time.Second); err != nil {
			return nil, fmt.Errorf("sync: %w", err)
		}
		s.Conns[u.ID] = u.Conn
	}
	s.Opts = o
	l, err := net.Listen("tcp", "127.0.0.1:0")
	if err != nil {
		return nil, err
	}
	s.Listener = l
	s.Addr = l.Addr().String()
	if err := g.Serve(ctx, l); err != nil {
		return nil, err
	}
	return s, nil
}

// Conn0 is the connector of the first user.
func (s *Server) Conn0() *hconn.Conn { return s.Opts.Users[0].Conn }

func (s *Server) Dial() (*imapc.Client, error) { return imapc.Dial(s.Addr) }

// Login dials and logs in as the first user (or the given one).
func (s *Server) Login(userpass ...string) (*imapc.Client, error) {
	c, err := s.Dial()
	if err != nil {
		return nil, err
	}
	u, p := s.Opts.Users[0].Names[0], s.Opts.Users[0].Pass
	if len(userpass) == 2 {
		u, p = userpass[0], userpass[1]
	}
	r, err := c.Cmd(fmt.Sprintf("LOGIN %s %s", u, p))
	if err != nil {
		return nil, err
	}
	if r.Status != "OK" {
		return nil, fmt.Errorf("login: %s", r.Text)
	}
	return c, nil
}

// Stop closes the server. If removeDir the directory is removed (only when not KeepDir).
func (s *Server) Stop() error {
	ctx, cancel := context.WithTimeout(context.Background(), 60*time.Second)
	defer cancel()
	var first error
	for _, u := range s.Opts.Users {
		if err := s.S.RemoveUser(ctx, u.ID, false); err != nil && first == nil {
			first = err
		}
	}
	if err := s.S.Close(ctx); err != nil && first == nil {
		first = err
	}
	s.Listener.Close()
	s.cancel()
	if s.ownDir && !s.Opts.KeepDir {
		os.RemoveAll(s.Dir)
	}
	return first
}

// CancelServe cancels the context that was given to Server.Serve (and LoadUser) without closing anything (added for C19).
func (s *Server) CancelServe() { s.cancel() }
