(* C19 — lemmas about Model/QueueClose.v: with the Broadcast under the lock no wake-up is lost. *)
From Coq Require Import List Arith Bool Lia.
From Gluon Require Import Gen.FactsQueue Model.QueueClose.
Import ListNotations.

Lemma fact_queue_close_locked : queue_close_locked = true.
Proof. reflexivity. Qed.

Definition kidx (k : kstate) : nat := match k with K0 => 0 | K1 => 1 | K2 => 2 | K3 => 3 | KDone => 4 end.
Definition cons_holds (c : cstate) : bool := match c with CHold | CWaitDecided => true | _ => false end.
Definition clo_holds (k : kstate) : bool := match k with K2 | K3 => true | _ => false end.
Definition holder_code (h : option who) : nat := match h with None => 0 | Some WCons => 1 | Some WCloser => 2 end.

(* who holds cond.L follows from the program counters; the flag is set exactly once the closer has left K0; a consumer
   that decided to wait (or sleeps) implies that the closer has not broadcast yet *)
Definition qinvb (s : qst) : bool :=
  Nat.eqb (holder_code (holder s)) (if cons_holds (cons s) then 1 else if clo_holds (clo s) then 2 else 0) &&
  negb (cons_holds (cons s) && clo_holds (clo s)) &&
  Bool.eqb (closed s) (negb (Nat.eqb (kidx (clo s)) 0)) &&
  match cons s with
  | CWaitDecided => Nat.leb (kidx (clo s)) 1
  | CParked => Nat.leb (kidx (clo s)) 2
  | _ => true
  end.

Lemma qinv_step s l s' : qinvb s = true -> qstep true s l = Some s' -> qinvb s' = true.
Proof.
  destruct s as [c k cl it bu h].
  destruct l, c, k, cl, h as [[|]|], it, bu; cbn; intros I H;
    try discriminate; try (injection H as <-; cbn; try reflexivity; try discriminate).
Qed.

Lemma qinv_run s tr s' : qinvb s = true -> qrun true s tr = Some s' -> qinvb s' = true.
Proof.
  revert s. induction tr as [|l t IH]; intros s I H; cbn in H.
  - injection H as <-. exact I.
  - destruct (qstep true s l) as [s1|] eqn:E; [|discriminate]. apply (IH s1); [apply (qinv_step s l); auto|exact H].
Qed.

Lemma qinv_reachable i b s : qreachable true i b s -> qinvb s = true.
Proof. intros [tr H]. apply (qinv_run (qinit i b) tr); [reflexivity|exact H]. Qed.

(* no lost wake-up: once Close has returned the consumer neither sleeps nor is about to go to sleep *)
Theorem no_lost_wakeup_lemma i b s : qreachable true i b s -> close_returned s = true ->
  cons s <> CParked /\ cons s <> CWaitDecided.
Proof.
  intros R C. pose proof (qinv_reachable i b s R) as I.
  destruct s as [c k cl it bu h]. unfold close_returned in C. cbn in C. destruct k; try discriminate.
  unfold qinvb in I. destruct c; cbn in I; split; intros E; cbn in E; try discriminate E; rewrite ?andb_false_r in I; discriminate I.
Qed.

(* after Close the consumer can always take its next step, until it has left pop *)
Theorem consumer_progress_lemma i b s : qreachable true i b s -> close_returned s = true ->
  consumer_left s = false -> exists s', qstep true s QCons = Some s'.
Proof.
  intros R C L. pose proof (qinv_reachable i b s R) as I.
  destruct s as [c k cl it bu h]. unfold close_returned in C. cbn in C. destruct k; try discriminate.
  destruct c, cl, h as [[|]|], it; cbn in *; try discriminate; eauto.
Qed.

(* ... and every step that can still happen brings it closer to the exit: the consumer leaves pop after at most
   qmeasure steps, whatever the schedule *)
Theorem consumer_terminates_lemma i b s l s' : qreachable true i b s -> close_returned s = true ->
  qstep true s l = Some s' -> qmeasure s' < qmeasure s /\ close_returned s' = true.
Proof.
  intros R C H. pose proof (qinv_reachable i b s R) as I.
  destruct s as [c k cl it bu h]. unfold close_returned in C. cbn in C. destruct k; try discriminate.
  destruct l, c, cl, h as [[|]|], it, bu; cbn in *; try discriminate;
    injection H as <-; unfold qmeasure; cbn; split; try reflexivity; lia.
Qed.

(* without the lock around the Broadcast a schedule loses the wake-up: Close has returned, the consumer sleeps, and
   nothing can happen any more *)
Theorem unlocked_broadcast_refuted_lemma :
  exists s, qreachable false 0 0 s /\ close_returned s = true /\ cons s = CParked /\ stuck false s.
Proof.
  eexists. split; [exists [QCons; QCons; QCloser; QCloser; QCons]; vm_compute; reflexivity|].
  repeat split. intros l. destruct l; reflexivity.
Qed.

(* the same for what the source does today *)
Theorem no_lost_wakeup_src i b s : qreachable queue_close_locked i b s -> close_returned s = true ->
  cons s <> CParked /\ cons s <> CWaitDecided.
Proof. rewrite fact_queue_close_locked. apply no_lost_wakeup_lemma. Qed.

Theorem consumer_progress_src i b s : qreachable queue_close_locked i b s -> close_returned s = true ->
  consumer_left s = false -> exists s', qstep queue_close_locked s QCons = Some s'.
Proof. rewrite fact_queue_close_locked. apply consumer_progress_lemma. Qed.

Theorem consumer_terminates_src i b s l s' : qreachable queue_close_locked i b s -> close_returned s = true ->
  qstep queue_close_locked s l = Some s' -> qmeasure s' < qmeasure s /\ close_returned s' = true.
Proof. rewrite fact_queue_close_locked. apply consumer_terminates_lemma. Qed.
