(* C11 — Arbitrary client bytes never crash, hang or bloat the server; every complete command line gets exactly one
   tagged completion with the line's tag; the session stays usable or closes after repeated errors.
   Property theorems only; every proof is `exact <lemma>` and is followed by Print Assumptions.

   Proved here about the models Model/ImapGrammar.v (parser) and Model/ServeLoop.v (reader goroutine + serve loop),
   which are parameterised by the tables and constants regenerated from the code (Gen/FactsTokens.v):
     termination of the parser and of the session loop on EVERY byte stream (no spin), no request for a crash, bounded
     literal allocation, "consumes at most its input", exactly one completion per complete line with the line's tag,
     close after maxSessionError consecutive malformed lines.
   PARTIAL: a Go panic outside the modelled code, resident memory, stack depth of the recursive search-key parser and the
   effect on other sessions are runtime behaviour that a Gallina model cannot exhibit; they are exercised by the harness
   (server in a child process: exit status, CPU after the stream, RSS ceiling, second session).  The command handlers
   are abstracted as "one completion per dispatched command" (checked on the wire by the harness). *)
From Coq Require Import List NArith Bool String.
From Gluon Require Import Gen.FactsTokens Model.ImapTokens Model.ImapGrammar Model.ServeLoop
  Proofs.ImapTokenFacts Proofs.ImapGrammarWf Proofs.ImapParseTop Proofs.ServeLoopProofs
  Model.ImapCollector Proofs.ImapCollectorProofs.
Import ListNotations.
Open Scope N_scope.

(* The scanner classifies every byte value: ScanToken has no failing byte (such a failure is not a parser error, the
   command reader would end and the connection close without BAD). *)
Theorem C11_scanner_accepts_every_byte : forall b, b < 256 -> tok_of_byte b <> TT_Error.
Proof. exact scanner_total. Qed.
Print Assumptions C11_scanner_accepts_every_byte.

(* Parser totality: with fuel = length of the input + 1 no loop of the parser runs out of fuel, i.e. every loop consumes a
   byte or stops at the EOF token.  (Fails to compile when IsQuotedChar accepts the EOF token: ParseQuoted then spins.) *)
Theorem C11_parser_total : forall bs, parse_command (List.length bs + 1) bs <> POut.
Proof. exact parse_command_total. Qed.
Print Assumptions C11_parser_total.

(* The parser consumes at most its input: what is left (or the error position) is a suffix of the input, and a
   successfully parsed command has consumed at least one byte. *)
Theorem C11_consumes_at_most_input : forall fuel bs, (List.length bs < fuel)%nat ->
  match parse_command fuel bs with
  | POut => False
  | PErr _ _ a => is_suffix a bs
  | POk _ _ rest => is_suffix rest bs /\ (List.length rest < List.length bs)%nat
  end.
Proof. exact parse_command_consumes. Qed.
Print Assumptions C11_consumes_at_most_input.

(* The modelled parser code never reaches the one place where the Go code would panic (dst[0] of an empty literal buffer). *)
Theorem C11_parser_never_crashes : forall fuel bs t a, (List.length bs < fuel)%nat ->
  parse_command fuel bs <> PErr t ECrash a.
Proof. exact parse_command_no_crash. Qed.
Print Assumptions C11_parser_never_crashes.

(* Literal allocation is bounded: `make([]byte, n)` is reached only with min <= n < cap (30 MiB). *)
Theorem C11_literal_bounded : forall bs n r, p_literal_header bs = ROk n r -> literal_min_size <= n < literal_cap.
Proof. exact literal_allocation_bounded. Qed.
Print Assumptions C11_literal_bounded.

(* Synchronising literals: whenever the parser accepts a literal header {n}CRLF - and therefore goes on to read n bytes -
   the continuation request ("+") has been sent, also for n = 0; a client that waits for it is never left waiting.
   (Holds because ParseLiteral calls the continuation callback independently of the size: fact read from the source.) *)
Theorem C11_continuation_for_every_literal : forall bs n r,
  p_literal_header bs = ROk n r -> lit_continuation_sent n = true.
Proof. exact continuation_for_every_literal. Qed.
Print Assumptions C11_continuation_for_every_literal.

(* For EVERY byte stream, before or after authentication, with or without TLS configured: the session model neither spins
   nor crashes nor runs out of fuel; it ends with the server closing the connection. *)
Theorem C11_session_always_ends_closed : forall login_ok tls fuel st bs, (List.length bs < fuel)%nat ->
  snd (serve login_ok tls fuel st bs) = EndClosed.
Proof. exact serve_ends_closed. Qed.
Print Assumptions C11_session_always_ends_closed.

(* The parser never reads beyond the CRLF that ends a line: for EVERY body without CR/LF that does not end in "}" - in
   particular every prefix of a valid literal-free command, e.g. one that stops inside a month name - followed by CRLF and
   then by anything, Parse either fails inside the line, and skipping the rest of the line leaves exactly what followed, or
   succeeds having consumed exactly the line; the tag it reports is the line's.  (The builders take every data character
   through a checked call: fact `builders_use_checked_tokens` read from imap/command/*.go.) *)
Theorem C11_parse_stays_within_line : forall body more fuel, body_ok body ->
  let bs := body ++ 13 :: 10 :: more in (List.length bs < fuel)%nat ->
  (exists a, parse_command fuel bs = PErr (expected_tag bs) EParse a /\ skip_line a = Some more /\
             (List.length a <= List.length bs)%nat) \/
  (exists c, parse_command fuel bs = POk (expected_tag bs) c more).
Proof. exact line_parse. Qed.
Print Assumptions C11_parse_stays_within_line.

(* The input collector holds exactly what the source delivered since the last Reset - whatever the sizes of the buffers
   handed to Read - and therefore as many bytes as were delivered: it cannot grow faster than the input. *)
Theorem C11_collector_exact : forall ops, collected ops = since_reset ops [].
Proof. exact collected_exact. Qed.
Print Assumptions C11_collector_exact.
Theorem C11_collector_length : forall ops, List.length (collected ops) = delivered_len ops 0.
Proof. exact collected_length. Qed.
Print Assumptions C11_collector_length.

(* One iteration of the reader/serve loop consumes exactly one complete line (whatever follows it) and reacts in one of
   the listed ways (line_reaction): one completion carrying the line's tag / "+" for an accepted IDLE / the completion of
   the IDLE that this line ends / BYE + OK for LOGOUT / silent close on a raw TLS hello. *)
Theorem C11_line_consumed_exactly : forall login_ok tls l more st, plain_line l ->
  exists evs next, serve_step login_ok tls st (l ++ more) = (evs, lift_next more next) /\
                   line_reaction tls st l evs next.
Proof. exact line_step. Qed.
Print Assumptions C11_line_consumed_exactly.

(* For every list of complete lines: the stream is answered line by line (run_ok) until the session closes. *)
Theorem C11_lines_answered_in_order : forall login_ok tls ls st fuel, Forall plain_line ls ->
  (List.length (List.concat ls) < fuel)%nat ->
  exists evs, serve login_ok tls fuel st (List.concat ls) = (evs, EndClosed) /\ run_ok tls st ls evs.
Proof. exact serve_lines. Qed.
Print Assumptions C11_lines_answered_in_order.

(* Exactly one completion per line, tagged with the line's tag when it has one (expected_tag: the line's longest prefix of
   tag characters; none for DONE and for lines that do not start with a tag).  Exceptions, all by design of the protocol /
   the code: an accepted IDLE is answered "+" and completed by the next line; a raw TLS hello closes the connection. *)
Theorem C11_one_completion_per_line : forall tls st l evs next, line_reaction tls st l evs next ->
  (exists t s, completions evs = [EvDone t s] /\
               (st_idle st = None -> t = expected_tag l) /\
               (forall itag, st_idle st = Some itag -> t = itag \/ t = expected_tag l)) \/
  (evs = [EvContinue] /\ exists st', next = Some st' /\ st_idle st' = Some (expected_tag l)) \/
  (evs = [] /\ next = None /\ is_tls_line l = true).
Proof. exact reaction_completions. Qed.
Print Assumptions C11_one_completion_per_line.

(* The session is closed by exactly the maxSessionError-th (20th) consecutive malformed line: every one of them is
   answered BAD with its tag, nothing after it is read. *)
Theorem C11_closes_after_max_errors : forall login_ok tls ls st more fuel,
  Forall (fun l => plain_line l /\ malformed l /\ is_tls_line l = false) ls ->
  st_idle st = None -> st_errs st < max_session_error ->
  N.of_nat (List.length ls) + st_errs st = max_session_error ->
  (List.length (List.concat ls ++ more) < fuel)%nat ->
  serve login_ok tls fuel st (List.concat ls ++ more) =
    (map (fun l => EvDone (expected_tag l) SBad) ls, EndClosed).
Proof. exact closes_after_max_errors. Qed.
Print Assumptions C11_closes_after_max_errors.

(* ... and a well-formed command resets the counter: the session stays usable. *)
Theorem C11_success_resets_error_counter : forall login_ok st t c evs st', st_idle st = None ->
  on_command login_ok st t c = (evs, Some st') -> st_errs st' = 0.
Proof. exact on_command_resets. Qed.
Print Assumptions C11_success_resets_error_counter.

(* A malformed line: e.g. every complete line that does not start with a tag character. *)
Theorem C11_tagless_lines_are_malformed : forall l, line_tag l = [] -> plain_line l -> malformed l.
Proof. exact tagless_malformed. Qed.
Print Assumptions C11_tagless_lines_are_malformed.

(* ---- non-vacuity *)
Definition ex_login (u p : bytes) : bool := bytes_eqb u (s2b "user") && bytes_eqb p (s2b "pass").

Example C11_plain_line_example : plain_line (s2b "a NOOP x" ++ [13; 10]).
Proof.
  exists (s2b "a NOOP x"). split; [reflexivity|]. unfold bCR, bLF, bRC.
  split; [cbn; intuition discriminate|]. split; [cbn; intuition discriminate|].
  intros b' H. apply (f_equal (fun l => last l 0)) in H. rewrite last_last in H. vm_compute in H. discriminate H.
Qed.

(* the empty first line, a command with trailing garbage, a zero-length and an oversized literal, an unterminated quoted
   string at the end of the stream: what the model answers (tags as bytes: 97 = "a", 98 = "b") *)
Example C11_stream_examples :
  serve_stream ex_login false ([13; 10] ++ s2b "b NOOP" ++ [13; 10]) = ([EvDone [] SBad; EvDone [98] SAny], EndClosed)
  /\ serve_stream ex_login false (s2b "a NOOP x" ++ [13; 10] ++ s2b "b NOOP" ++ [13; 10])
     = ([EvDone [97] SBad; EvDone [98] SAny], EndClosed)
  /\ serve_stream ex_login false (s2b "a LOGIN {99999999999}" ++ [13; 10] ++ s2b "b NOOP" ++ [13; 10])
     = ([EvDone [97] SBad; EvDone [98] SAny], EndClosed)
  /\ serve_stream ex_login false (s2b "a LOGIN ""x") = ([], EndClosed)
  /\ serve_stream ex_login false (s2b "a STARTTLS" ++ [13; 10] ++ s2b "b LOGOUT" ++ [13; 10] ++ s2b "c NOOP" ++ [13; 10])
     = ([EvDone [97] SNo; EvBye; EvDone [98] SOk], EndClosed).
Proof. vm_compute. repeat split. Qed.

(* twenty empty lines close the session: instance of C11_closes_after_max_errors *)
Example C11_twenty_empty_lines :
  serve_stream ex_login false (List.concat (repeat [13; 10] 20) ++ s2b "z NOOP" ++ [13; 10])
  = (repeat (EvDone [] SBad) 20, EndClosed).
Proof. vm_compute. reflexivity. Qed.
