(* C17 - configured limits are never exceeded and refusals have no partial effect.
   Property theorems only; proofs are `exact <lemma>` / vm_compute witnesses, each followed by Print Assumptions.
   The limit checks are the functions T1 translates from limits/imap.go (Gen/FactsLimits.v, int64 casts and additions
   as explicit two's complement wraps); where they are called is part of the model (Model/MailStore.v) and depends on
   the structural facts T1 extracts (`facts_now`): the theorems need cf_create_sum, cf_rename_check (and cf_recheck
   for interleaved sessions, cf_limit_norecover for the recovery mailbox) - `C17_facts` fails to compile when the
   working tree does not have them, and the `_refuted` theorems show each of them is necessary.
   Hypotheses: cfg_ok (0 <= each maximum < 2^62; the real ones are uint32), op_small (lists inside one operation
   shorter than 2^62: Go slices), inv17 at the start (well-formed store within the limits: true for a fresh store when
   max mailboxes >= 1).
   The recovery mailbox is outside within_limits: messages rejected by the remote are put there without a check (C20);
   C17_recovery_grows_only_on_rejection bounds it when the remote rejects nothing. *)
From Coq Require Import List ZArith NArith Bool Lia.
From Gluon Require Import Gen.FactsLimits Model.UidValidityGen Model.MailStore Proofs.MailStoreBase Proofs.MailStoreWf
  Proofs.MailStoreC17 Proofs.MailStoreC20.
Import ListNotations.
Open Scope Z_scope.

(* the facts extracted from the tree under verification are the ones the theorems need *)
Theorem C17_facts : facts17 facts_now /\ cf_recheck facts_now = true /\ cf_limit_norecover facts_now = true /\ cf_erase_late facts_now = true.
Proof. repeat split; reflexivity. Qed.
Print Assumptions C17_facts.

(* the translated checks mean what the model needs, without overflow in the admitted range *)
Theorem C17_checks_exact : forall c e k, cfg_ok c -> 0 <= e < two62 -> 0 <= k < two62 ->
  lim_msgs c e k = negb (e + k <=? c_max_msgs c) /\ lim_uid c e k = negb (e + k <=? c_max_uid c) /\
  lim_count c e = (c_max_mbox c <=? e).
Proof.
  intros c e k _ He Hk. split; [apply lim_msgs_spec; assumption|]. split; [apply lim_uid_spec; assumption|].
  apply lim_count_spec. unfold two62 in *. lia.
Qed.
Print Assumptions C17_checks_exact.

(* sequential histories: every configuration, every history (client commands and connector updates, any pattern of
   failing connector calls): the number of mailboxes, the messages per mailbox and UIDNEXT stay within the maxima *)
Theorem C17_invariant : forall hash fx c clock h s, cfg_ok c -> facts17 fx -> Forall op_small h -> inv17 c s ->
  inv17 c (run hash fx c clock s h).
Proof. intros hash fx c clock h s Hc. exact (inv17_run hash fx c clock Hc h s). Qed.
Print Assumptions C17_invariant.

Theorem C17_invariant_now : forall hash c clock h s, cfg_ok c -> Forall op_small h -> inv17 c s ->
  within_limits c (run hash facts_now c clock s h).
Proof. intros hash c clock h s Hc Sm I. exact (proj2 (inv17_run hash facts_now c clock Hc h s (proj1 C17_facts) Sm I)). Qed.
Print Assumptions C17_invariant_now.

(* ... in particular no UID exceeds the configured maximum *)
Theorem C17_uids_within_max : forall c s m r, inv17 c s -> In m (s_mboxes s) -> mb_id m <> recov_id -> In r (mb_rows m) ->
  fst r <= c_max_uid c.
Proof. exact uids_within_max. Qed.
Print Assumptions C17_uids_within_max.

(* a refused operation has no partial effect: whenever the answer is not OK (limit, failing connector call, anything),
   every mailbox other than the recovery mailbox is exactly as before - multi-message operations are all-or-nothing *)
Theorem C17_refusal_no_effect : forall hash fx c clock s o, (forall a, snd (step hash fx c clock s o) <> ResOk a) ->
  nonrec (s_mboxes (fst (step hash fx c clock s o))) = nonrec (s_mboxes s).
Proof. exact refusal_no_effect. Qed.
Print Assumptions C17_refusal_no_effect.

(* refused by a limit: nothing at all changes (needs cf_limit_norecover: APPEND does not fall back to the recovery
   mailbox on a limit error) *)
Theorem C17_limit_refusal_no_effect : forall hash fx c clock s o, cf_limit_norecover fx = true ->
  snd (step hash fx c clock s o) = ResNoLimit -> s_mboxes (fst (step hash fx c clock s o)) = s_mboxes s.
Proof. exact limit_refusal_no_effect. Qed.
Print Assumptions C17_limit_refusal_no_effect.

(* operations that fit are accepted *)
Theorem C17_fitting_append_accepted : forall hash fx c s n lit m, cfg_ok c -> wf s -> find_name n (s_mboxes s) = Some m ->
  is_recov n = false -> zlen (mb_rows m) + 1 <= c_max_msgs c -> mb_seq m + 1 + 1 <= c_max_uid c ->
  snd (op_append hash fx c s n lit RemOk) = ResOk [(0, mb_seq m + 1)].
Proof. intros hash fx c s n lit m Hc. exact (fitting_append_accepted hash fx c Hc s n lit m). Qed.
Print Assumptions C17_fitting_append_accepted.

Theorem C17_fitting_copy_accepted : forall fx c s a u b m d, cfg_ok c -> wf s ->
  find_name a (s_mboxes s) = Some m -> find_name b (s_mboxes s) = Some d -> is_recov b = false -> mb_id m <> recov_id ->
  let sel := selection m u in
  let d1 := mb_del (filter (fun id => has_msg d id) (map (fun r : row => fst (snd r)) sel)) d in
  zlen (mb_rows d1) + zlen sel <= c_max_msgs c -> mb_seq d + 1 + zlen sel <= c_max_uid c ->
  snd (op_copy fx c s a u b true true) = ResOk (zip_uids sel (mb_seq d)).
Proof. intros fx c s a u b m d Hc. exact (fitting_copy_accepted fx c Hc s a u b m d). Qed.
Print Assumptions C17_fitting_copy_accepted.

Theorem C17_fitting_create_accepted : forall fx c clock s n v s1, cfg_ok c -> cf_create_sum fx = true ->
  gen_next clock s = (Some v, s1) -> lim_uidv c v = false -> recov_prefixed n = false -> is_inbox n = false -> n <> [] ->
  exists_name n (s_mboxes s) = false -> zlen n < two62 -> zlen (s_mboxes s) < two62 ->
  zlen (s_mboxes s) + zlen (missing (s_mboxes s) (superiors n) ++ [n]) <= c_max_mbox c ->
  snd (op_create fx c clock s n true) = ResOk [].
Proof. intros fx c clock s n v s1 _. exact (fitting_create_accepted fx c clock s n v s1). Qed.
Print Assumptions C17_fitting_create_accepted.

(* several sessions at once: the check of APPEND (read transaction) and its insert (write transaction) are separate
   steps that interleave freely with complete operations of other sessions and of the connector *)
Theorem C17_invariant_interleaved : forall hash fx c clock h st, cfg_ok c -> facts17 fx -> cf_recheck fx = true ->
  iops_small h -> iinv c st -> iinv c (irun hash fx c clock st h).
Proof. intros hash fx c clock h st Hc. exact (iinv_run hash fx c clock Hc h st). Qed.
Print Assumptions C17_invariant_interleaved.

(* the recovery mailbox grows only when the remote rejects an APPEND *)
Theorem C17_recovery_grows_only_on_rejection : forall hash fx c clock s o, wf s -> cf_erase_late fx = true ->
  cf_limit_norecover fx = true -> (forall n l, o <> OAppend n l RemFail) ->
  zlen (rec_rows (fst (step hash fx c clock s o))) <= zlen (rec_rows s).
Proof. exact recovery_grows_only_on_rejection. Qed.
Print Assumptions C17_recovery_grows_only_on_rejection.

(* ---- each structural fact is necessary: without it the faithful model violates the property ---- *)
Definition c17_cfg : cfg := mkCfg 4 1 100000 50.
Definition c17_start (fx : codefacts) : store :=
  fst (step (fun l => Some l) fx c17_cfg (fun _ => 0) (init_store 100) (OConnCreate inbox_name)).

(* Create checks the count once for several mailboxes (defect D15) *)
Theorem C17_create_single_check_refuted :
  exists h, Forall op_small h /\ inv17 c17_cfg (init_store 100) /\
    c_max_mbox c17_cfg < zlen (s_mboxes (run (fun l => Some l) (mkFacts true false true true true true true) c17_cfg (fun _ => 0) (init_store 100) h)).
Proof.
  exists [OConnCreate inbox_name; OCreate [2%N; 3%N; 4%N; 5%N; 6%N] true]. split; [|split].
  - repeat constructor; vm_compute; reflexivity.
  - split; [apply wf_init|]. split; [vm_compute; discriminate|]. intros m [<-|[]] H. exfalso. apply H. reflexivity.
  - vm_compute. reflexivity.
Qed.
Print Assumptions C17_create_single_check_refuted.

(* Rename creates superiors without a check *)
Theorem C17_rename_unchecked_refuted :
  exists h, Forall op_small h /\ inv17 c17_cfg (init_store 100) /\
    c_max_mbox c17_cfg < zlen (s_mboxes (run (fun l => Some l) (mkFacts true true false true true true true) c17_cfg (fun _ => 0) (init_store 100) h)).
Proof.
  exists [OConnCreate inbox_name; OCreate [2%N] true; ORename [2%N] [3%N; 4%N; 5%N; 6%N] true]. split; [|split].
  - repeat constructor; vm_compute; reflexivity.
  - split; [apply wf_init|]. split; [vm_compute; discriminate|]. intros m [<-|[]] H. exfalso. apply H. reflexivity.
  - vm_compute. reflexivity.
Qed.
Print Assumptions C17_rename_unchecked_refuted.

(* the limits are checked only in the read transaction of APPEND (defect D19): two interleaved APPENDs both pass *)
Theorem C17_append_toctou_refuted :
  exists h m, iops_small h /\
    let st := irun (fun l => Some l) (mkFacts false true true true true true true) c17_cfg (fun _ => 0) (c17_start facts_fixed, []) h in
    In m (s_mboxes (fst st)) /\ mb_id m <> recov_id /\ c_max_msgs c17_cfg < zlen (mb_rows m).
Proof.
  exists [ICheck 1 inbox_name; ICheck 2 inbox_name; IWrite 1 7%N RemOk; IWrite 2 8%N RemOk].
  eexists. split; [exact I|]. cbv zeta. split; [vm_compute; right; left; reflexivity|]. split; [vm_compute; discriminate | vm_compute; reflexivity].
Qed.
Print Assumptions C17_append_toctou_refuted.

(* a limit-refused APPEND falls back to the recovery mailbox: it grows without any remote rejection *)
Theorem C17_limit_error_recovered_refuted :
  exists h, (forall o, In o h -> forall n l, o <> OAppend n l RemFail) /\
    c_max_msgs c17_cfg < zlen (rec_rows (run (fun l => Some l) (mkFacts true true true false true true true) c17_cfg (fun _ => 0) (init_store 100) h)).
Proof.
  exists [OConnCreate inbox_name; OAppend inbox_name 1%N RemOk; OAppend inbox_name 2%N RemOk; OAppend inbox_name 3%N RemOk].
  split; [|vm_compute; reflexivity].
  intros o [<-|[<-|[<-|[<-|[]]]]] n l; discriminate.
Qed.
Print Assumptions C17_limit_error_recovered_refuted.

(* non-vacuity: the start state satisfies the hypotheses; a history that runs into every limit *)
Example C17_start_ok : cfg_ok c17_cfg /\ inv17 c17_cfg (init_store 100).
Proof.
  split; [unfold cfg_ok, two62; cbn; lia|]. split; [apply wf_init|]. split; [vm_compute; discriminate|].
  intros m [<-|[]] H. exfalso. apply H. reflexivity.
Qed.
Example C17_history_example :
  run_results (fun l => Some l) facts_fixed c17_cfg (fun _ => 0) (init_store 100)
    [OConnCreate inbox_name; OAppend inbox_name 1%N RemOk; OAppend inbox_name 2%N RemOk; OCreate [2%N; 3%N] true;
     OCreate [4%N; 5%N] true; OCreate [4%N] true; OCopy inbox_name [1] [4%N] true true; OCopy inbox_name [1] [4%N] true true]
  = [ResOk []; ResOk [(0, 1)]; ResNoLimit; ResOk []; ResNoLimit; ResNoLimit; ResNo; ResNo].
Proof. vm_compute. reflexivity. Qed.
