(* C12 — the collecting loops of the rfc5322 parser.
   Impl model of: rfcparser/parser.go Parser.CollectBytesWhileMatchesWith (and the hand-written
   `for { if ok := p.MatchesWith(isX); !ok { break } }` loops of rfc5322/{atom,quoted,cfws,address}.go) over
   rfcparser/scanner.go ScanToken: the current token is the next byte of the input, and behind the end of the input the
   scanner answers EVERY call with an EOF token.  [cls] is the token class (isAText, isEncodedText, ...).
   The loop has no other exit than a token outside the class; fuel models "the process is still running".
   No proofs in this file. *)
From Coq Require Import List NArith Bool.
From Gluon Require Import Base.DecBytes.
Import ListNotations.

Inductive tok := TEOF | TByte (b : N).

Definition current (s : bytes) : tok := match s with [] => TEOF | b :: _ => TByte b end.
Definition advance (s : bytes) : bytes := match s with [] => [] | _ :: t => t end.   (* at the end: EOF again *)
Definition tok_value (t : tok) : N := match t with TEOF => 0%N | TByte b => b end.

(* Some (collected, rest) when the loop ends; None = still running when the fuel is used up *)
Fixpoint collect_while (fuel : nat) (cls : tok -> bool) (s acc : bytes) : option (bytes * bytes) :=
  match fuel with
  | 0 => None
  | S f => if cls (current s) then collect_while f cls (advance s) (acc ++ [tok_value (current s)])
           else Some (acc, s)
  end.
