(* C01 for the observing session, any flush placement: foreign responders whose EXISTS carry ascending UIDs above the
   snapshot's arrive in rounds; after each round a flush follows — restricted (FETCH/STORE/SEARCH) or permitting. After
   EVERY flush the mailbox the client reconstructs from the untagged responses agrees with the snapshot the server
   answers from (count, seq -> UID, learnt flags) and the snapshot is UID-sorted. Rests on pop_exists_in_order (PopProofs):
   what a restricted flush handles of the EXISTS responders is a prefix of them. *)
From Coq Require Import List NArith Bool Lia Arith.
From Gluon Require Import Model.Responders Model.Session Proofs.PopProofs Proofs.MirrorProofs Proofs.MembershipProofs
  Proofs.ViewProofs Proofs.StoreViewProofs Proofs.CommuteProofs Proofs.InterleaveProofs.
Import ListNotations.
Open Scope N_scope.

Fixpoint ascending (lo : N) (us : list uid) : Prop :=
  match us with [] => True | u :: t => lo < u /\ ascending u t end.
Definition last_uid (lo : N) (us : list uid) : N := last us lo.

Fixpoint all_le (lo : N) (s : snap) : Prop := match s with [] => True | x :: r => sm_uid x <= lo /\ all_le lo r end.

Lemma last_cons_indep {A} (v : A) t d d' : last (v :: t) d = last (v :: t) d'.
Proof. revert v. induction t as [|w t IH]; intros v; [reflexivity|]. cbn [last] in *. apply IH. Qed.

Lemma last_app_gen {A} (a b : list A) d : last (a ++ b) d = last b (last a d).
Proof.
  revert d. induction a as [|x t IH]; intros d; [reflexivity|].
  destruct t as [|y t'].
  - cbn [app last]. destruct b as [|z b']; [reflexivity|]. apply last_cons_indep.
  - specialize (IH d). cbn [app] in *. cbn [last]. cbn [last] in IH. exact IH.
Qed.

Lemma last_uid_cons lo u t : last_uid lo (u :: t) = last_uid u t.
Proof. unfold last_uid. destruct t as [|v t']; [reflexivity|]. cbn [last]. apply last_cons_indep. Qed.

Lemma ascending_app lo a b : ascending lo (a ++ b) <-> ascending lo a /\ ascending (last_uid lo a) b.
Proof.
  revert lo. induction a as [|u t IH]; intros lo; cbn [app ascending]; [unfold last_uid; cbn [last]; tauto|].
  rewrite IH, last_uid_cons. tauto.
Qed.

Lemma last_uid_ge lo us : ascending lo us -> lo <= last_uid lo us.
Proof.
  revert lo. induction us as [|u t IH]; intros lo; [unfold last_uid; cbn [last]; lia|]. cbn [ascending]. intros [H1 H2].
  specialize (IH u H2). rewrite last_uid_cons. lia.
Qed.

Lemma all_le_weaken lo hi s : lo <= hi -> all_le lo s -> all_le hi s.
Proof. intros H. induction s as [|x r IH]; cbn [all_le]; [auto|]. intros [A B]. split; [lia|auto]. Qed.

Lemma all_le_lt lo u s : all_le lo s -> lo < u -> all_lt u s.
Proof. intros H Hu. induction s as [|x r IH]; cbn [all_le all_lt] in *; [auto|]. destruct H as [A B]. split; [lia|auto]. Qed.

Lemma all_le_insert lo x s : all_le lo s -> sm_uid x <= lo -> all_le lo (snap_insert_by_uid x s).
Proof. induction s as [|y r IH]; cbn [all_le snap_insert_by_uid]; [auto|]. intros [A B] Hx.
  destruct (sm_uid x <? sm_uid y); cbn [all_le]; auto. Qed.
Lemma all_le_remove lo m s : all_le lo s -> all_le lo (snap_remove m s).
Proof. induction s as [|y r IH]; cbn [all_le snap_remove]; [auto|]. intros [A B]. destruct (sm_id y =? m); cbn [all_le]; auto. Qed.
Lemma all_le_set_flags lo m F s : all_le lo s -> all_le lo (snap_set_flags m F s).
Proof. induction s as [|y r IH]; cbn [all_le snap_set_flags]; [auto|]. intros [A B]. destruct (sm_id y =? m); cbn [all_le sm_uid]; auto. Qed.

(* ---------- handling a list whose EXISTS ascend above the snapshot satisfies the in-order guard ---------- *)
Lemma ex_uids_cons r t : ex_uids (r :: t) = match ex_uid r with Some u => [u] | None => [] end ++ ex_uids t.
Proof. reflexivity. Qed.

Lemma guard_all_ascending rs : forall s lo,
  all_le lo s -> ascending lo (ex_uids rs) -> Forall rwf rs -> Forall foreign_resp rs ->
  guard_all rs s /\ all_le (last_uid lo (ex_uids rs)) (V rs s).
Proof.
  induction rs as [|r t IH]; intros s lo Hle Hasc Hw Hf.
  - cbn [guard_all ex_uids flat_map last_uid last V fold_left]. split; [exact I|exact Hle].
  - inversion Hw as [|? ? Hw1 Hw2]; subst. inversion Hf as [|? ? Hf1 Hf2]; subst.
    destruct (handle_view r s Hf1) as (o1 & Hh). cbn [guard_all]. rewrite Hh.
    rewrite ex_uids_cons in *. unfold V. cbn [fold_left]. fold (V t (resp_view r s)).
    destruct r as [m u f tg og | m | m f op au si fo]; cbn [ex_uid app] in *.
    + (* exists *)
      cbn [ascending] in Hasc. destruct Hasc as [Hlt Hasc]. cbn [foreign_resp] in Hf1. subst og.
      assert (Hle' : all_le u (resp_view (RExists m u f tg false) s)).
      { rewrite resp_view_exists_gen. destruct (snap_has m s); [eapply all_le_weaken; [|exact Hle]; lia|].
        apply all_le_insert; [eapply all_le_weaken; [|exact Hle]; lia|cbn [ex_msg sm_uid]; lia]. }
      destruct (IH _ u Hle' Hasc Hw2 Hf2) as [G L]. split.
      * split; [|split; [exact Hw1|exact G]]. cbn [inorder]. intros _. eapply all_le_lt; eauto.
      * rewrite last_uid_cons. exact L.
    + assert (Hle' : all_le lo (resp_view (RExpunge m) s)) by (rewrite resp_view_expunge; apply all_le_remove; exact Hle).
      destruct (IH _ lo Hle' Hasc Hw2 Hf2) as [G L]. split; [split; [exact I|split; [exact Hw1|exact G]]|exact L].
    + assert (Hle' : all_le lo (resp_view (RFetch m f op au si fo) s))
        by (rewrite resp_view_fetch; unfold view_set; apply all_le_set_flags; exact Hle).
      destruct (IH _ lo Hle' Hasc Hw2 Hf2) as [G L]. split; [split; [exact I|split; [exact Hw1|exact G]]|exact L].
Qed.

(* ---------- what a pop handles / keeps of the EXISTS uids ---------- *)
Lemma ex_uids_filter rs : ex_uids (filter is_rexists rs) = ex_uids rs.
Proof. induction rs as [|r t IH]; [reflexivity|]. destruct r; cbn [filter is_rexists]; rewrite ?ex_uids_cons; cbn [ex_uid app]; rewrite IH; reflexivity. Qed.

Lemma pop_ex_uids permit rs p q : pop_responders permit rs = (p, q) -> ex_uids p ++ ex_uids q = ex_uids rs.
Proof.
  unfold pop_responders. destruct permit.
  - rewrite pop_go_true. intros [= <- <-]. cbn. apply app_nil_r.
  - intros E. rewrite <- (ex_uids_filter p), <- (ex_uids_filter q), <- (ex_uids_filter rs), <- ex_uids_app.
    f_equal. eapply pop_exists_in_order; eauto.
Qed.

(* ---------- one round: a flush of either kind keeps the client's mirror in agreement ---------- *)
Theorem flush_keeps_mirror permit s res m lo :
  srt s -> agree m s = true -> all_le lo s -> ascending lo (ex_uids res) ->
  Forall rwf res -> Forall foreign_resp res ->
  let '(p, q) := pop_responders permit res in
  exists m', client_run p s m = Some m' /\ agree m' (V p s) = true /\ srt (V p s) /\
             all_le (last_uid lo (ex_uids p)) (V p s) /\ ascending (last_uid lo (ex_uids p)) (ex_uids q).
Proof.
  intros Hs Ha Hle Hasc Hw Hf. destruct (pop_responders permit res) as [p q] eqn:E.
  pose proof (pop_ex_uids _ _ _ _ E) as Hu. rewrite <- Hu in Hasc. apply ascending_app in Hasc as [Hp Hq].
  assert (Hin : forall r, In r p -> In r res).
  { intros r Hr. unfold pop_responders in E. apply (pop_go_partition _ _ _ _ _ _ E). left. exact Hr. }
  assert (Hwp : Forall rwf p) by (apply Forall_forall; intros r Hr; rewrite Forall_forall in Hw; apply Hw, Hin, Hr).
  assert (Hfp : Forall foreign_resp p) by (apply Forall_forall; intros r Hr; rewrite Forall_forall in Hf; apply Hf, Hin, Hr).
  destruct (guard_all_ascending p s lo Hle Hp Hwp Hfp) as [G L].
  destruct (run_responders_view p s Hfp) as (out & R). fold (V p s) in R.
  destruct (mirror_run_responders p s (V p s) out m Hs Ha G R) as (m' & C & A & S).
  exists m'. repeat split; assumption.
Qed.

(* ---------- any number of rounds ---------- *)
(* the session side as in run_script (push the round's responders, pop for the flush, handle what was popped), together
   with the client, which processes the responses of every handled responder *)
Fixpoint mirror_script (sc : script) (s : snap) (res : list responder) (m : mirror) : option (snap * list responder * mirror) :=
  match sc with
  | [] => Some (s, res, m)
  | (rs, permit) :: t =>
      let '(p, q) := pop_responders permit (res ++ rs) in
      match client_run p s m with
      | None => None
      | Some m' => mirror_script t (V p s) q m'
      end
  end.

Theorem script_keeps_mirror sc : forall s res m lo,
  srt s -> agree m s = true -> all_le lo s ->
  ascending lo (ex_uids (res ++ script_queue sc)) ->
  Forall rwf (res ++ script_queue sc) -> Forall foreign_resp (res ++ script_queue sc) ->
  exists s' res' m', mirror_script sc s res m = Some (s', res', m') /\ agree m' s' = true /\ srt s'.
Proof.
  induction sc as [|[rs permit] t IH]; intros s res m lo Hs Ha Hle Hasc Hw Hf.
  - eexists _, _, _. split; [reflexivity|]. split; assumption.
  - cbn [mirror_script script_queue map concat fst] in *. fold (script_queue t) in *.
    rewrite app_assoc in Hasc, Hw, Hf. rewrite ex_uids_app in Hasc. apply ascending_app in Hasc as [Hasc1 Hasc2].
    apply Forall_app in Hw as [Hw1 Hw2]. apply Forall_app in Hf as [Hf1 Hf2].
    pose proof (flush_keeps_mirror permit s (res ++ rs) m lo Hs Ha Hle Hasc1 Hw1 Hf1) as R.
    destruct (pop_responders permit (res ++ rs)) as [p q] eqn:E.
    destruct R as (m' & C & A & S & L & Q). rewrite C.
    pose proof (pop_ex_uids _ _ _ _ E) as Hu.
    assert (Hinq : forall r, In r q -> In r (res ++ rs)).
    { intros r Hr. unfold pop_responders in E. apply (pop_go_partition _ _ _ _ _ _ E). right. exact Hr. }
    apply (IH (V p s) q m' (last_uid lo (ex_uids p))); try assumption.
    + rewrite ex_uids_app. apply ascending_app. split; [exact Q|].
      (* the last uid of what is queued so far is the same whether counted before or after the pop *)
      assert (Hl : last_uid (last_uid lo (ex_uids p)) (ex_uids q) = last_uid lo (ex_uids (res ++ rs))).
      { rewrite <- Hu. unfold last_uid. rewrite last_app_gen. reflexivity. }
      rewrite Hl. exact Hasc2.
    + apply Forall_app. split; [|exact Hw2]. apply Forall_forall. intros r Hr. rewrite Forall_forall in Hw1. apply Hw1, Hinq, Hr.
    + apply Forall_app. split; [|exact Hf2]. apply Forall_forall. intros r Hr. rewrite Forall_forall in Hf1. apply Hf1, Hinq, Hr.
Qed.

(* the hypotheses are satisfiable, and the result on the queue of the repaired defect: restricted flush, then NOOP *)
Example mirror_script_example :
  let s := [mkSmsg 1 1 []; mkSmsg 2 2 []] in
  let m := [(Some 1, Some []); (Some 2, Some [])] in
  let sc := [([RExpunge 1; RExists 1 3 [] false false; RExists 9 4 [] false false], false);
             ([RFetch 9 [5] FAdd false false false], false); ([], true)] in
  srt s /\ agree m s = true /\ all_le 2 s /\ ascending 2 (ex_uids ([] ++ script_queue sc)) /\
  Forall rwf ([] ++ script_queue sc) /\ Forall foreign_resp ([] ++ script_queue sc) /\
  option_map (fun x => fst (fst x)) (mirror_script sc s [] m)
  = Some [mkSmsg 2 2 []; mkSmsg 1 3 []; mkSmsg 9 4 [5]].
Proof.
  cbv zeta. repeat split; cbn; try lia; try reflexivity; repeat constructor.
Qed.
