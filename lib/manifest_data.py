HOOKS = {
    "guard": "verif",
    "enable": "go build -tags verif (the harness in /verif/harness is built with -tags verif against /repo through a replace directive)",
    "baseline_off_cmd": "cd /repo && go test -mod=mod -json -vet=off -count=1 -timeout 25m ./...",
    "source_commits": [],
    "add_only": True,
}
NOTES = "See DESIGN.md. Every check: regenerates coq/Gen/Facts.v from /repo, rebuilds the property's Coq targets, re-runs Print Assumptions, rebuilds the harness against /repo's working tree, runs it, evaluates the Impl model on the same cases inside Coq."
ALL = ["C%02d" % i for i in range(1, 21)]
CHECKS = {
    "C16": {
        "text": "Theorems (Coq, no axioms) that the modelled parser + snapshot resolution selects exactly the RFC 3501 denotation of every message set for every view size, or answers BAD; the model is tied to the code by differential runs over the wire (FETCH/STORE/COPY/MOVE/SEARCH/UID EXPUNGE).",
        "note": "Trusted: Coq kernel, hand-written model coq/Model/SeqSet.v, the Go harness and its canonicalisation. Hypotheses: view size < 2^32, UIDs ascending.",
        "technique": "Coq proof of refinement (impl model = RFC denotation) + wire correspondence",
    },
}
NOT_APPLICABLE = [{"property_id": p, "reason": "check under construction in this round; not claimed yet"} for p in ALL if p not in CHECKS]
