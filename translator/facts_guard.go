package main

// Extractor "Guard" -> coq/Gen/FactsGuard.v (property C19): the fields of a session's state that OTHER goroutines read.
//
// user.removeState (another session's goroutine) calls State.HasMessage on every state: it reads State.snap and, through
// snapshot.hasMessage -> snapMsgList.has, the index map snapMsgList.idx. These two fields are guarded by State.snapLock and
// snapMsgList.idxLock. Read off internal/state/*.go with go/ast, statement by statement (X.Lock()/RLock() takes the lock
// named by the last selector, X.Unlock()/RUnlock() gives it back, a deferred unlock keeps it to the end of the function):
//
//	snap_writes   every assignment whose left side is <expr>.snap: (function, State.snapLock held exclusively there)
//	idx_writes    every <expr>.idx[k] = v, delete(<expr>.idx, k) and <expr>.idx = v: (function, snapMsgList.idxLock held
//	              exclusively there)
//	hasmessage_reads_snap_locked   every read of .snap in State.HasMessage happens with snapLock held (RLock or Lock)
//	has_reads_idx_locked           every read of .idx in snapMsgList.has happens with idxLock held
//
// Composite literals (NewState, newMsgList) are initialisations of objects nobody else knows yet and are not listed.

import (
	"fmt"
	"go/ast"
	"go/parser"
	"go/token"
	"os"
	"path/filepath"
	"sort"
	"strings"
)

func init() { register("Guard", factsGuard) }

type guardAcc struct {
	fn     string
	excl   bool
	shared bool
}

func selName(e ast.Expr) string {
	if s, ok := e.(*ast.SelectorExpr); ok {
		return s.Sel.Name
	}
	return ""
}

func factsGuard(t *T) (string, error) {
	dir := "internal/state"
	ents, err := os.ReadDir(filepath.Join(t.Repo, dir))
	if err != nil {
		return "", err
	}
	var snapW, idxW []guardAcc
	hasMsgReads, hasMsgLocked, hasReads, hasLocked := 0, 0, 0, 0
	foundHasMessage, foundHas, foundSetter := false, false, false
	for _, e := range ents {
		n := e.Name()
		if e.IsDir() || !strings.HasSuffix(n, ".go") || strings.HasSuffix(n, "_test.go") {
			continue
		}
		src, err := os.ReadFile(filepath.Join(t.Repo, dir, n))
		if err != nil {
			return "", err
		}
		if strings.Contains(string(src), "//go:build verif") && !strings.Contains(string(src), "//go:build !verif") {
			continue
		}
		f, err := parser.ParseFile(t.Fset, filepath.Join(t.Repo, dir, n), src, 0)
		if err != nil {
			return "", err
		}
		for _, d := range f.Decls {
			fd, ok := d.(*ast.FuncDecl)
			if !ok || fd.Body == nil {
				continue
			}
			name := fd.Name.Name
			if r := recvTypeName(fd); r != "" {
				name = r + "." + name
			}
			if name == "State.setSnap" {
				foundSetter = true
			}
			held := map[string]string{} // lock field -> "excl" / "shared"
			var walk func(n ast.Node) bool
			lockOp := func(call *ast.CallExpr) bool {
				sel, ok := call.Fun.(*ast.SelectorExpr)
				if !ok || len(call.Args) != 0 {
					return false
				}
				lock := selName(sel.X)
				if lock != "snapLock" && lock != "idxLock" {
					return false
				}
				switch sel.Sel.Name {
				case "Lock":
					held[lock] = "excl"
				case "RLock":
					held[lock] = "shared"
				case "Unlock", "RUnlock":
					delete(held, lock)
				default:
					return false
				}
				return true
			}
			lockFor := map[string]string{"snap": "snapLock", "idx": "idxLock"}
			write := func(field string) {
				a := guardAcc{fn: name, excl: held[lockFor[field]] == "excl", shared: held[lockFor[field]] == "shared"}
				if field == "snap" {
					snapW = append(snapW, a)
				} else {
					idxW = append(idxW, a)
				}
			}
			walk = func(n ast.Node) bool {
				switch v := n.(type) {
				case *ast.DeferStmt:
					if sel, ok := v.Call.Fun.(*ast.SelectorExpr); ok && (sel.Sel.Name == "Unlock" || sel.Sel.Name == "RUnlock") {
						return false // stays held to the end
					}
				case *ast.ExprStmt:
					if call, ok := v.X.(*ast.CallExpr); ok {
						if lockOp(call) {
							return false
						}
						if id, ok := call.Fun.(*ast.Ident); ok && id.Name == "delete" && len(call.Args) == 2 && selName(call.Args[0]) == "idx" {
							write("idx")
						}
					}
				case *ast.AssignStmt:
					for _, l := range v.Lhs {
						switch selName(l) {
						case "snap":
							write("snap")
						case "idx":
							write("idx")
						}
						if ix, ok := l.(*ast.IndexExpr); ok && selName(ix.X) == "idx" {
							write("idx")
						}
					}
				case *ast.SelectorExpr:
					if name == "State.HasMessage" && v.Sel.Name == "snap" {
						hasMsgReads++
						if held["snapLock"] != "" {
							hasMsgLocked++
						}
					}
					if name == "snapMsgList.has" && v.Sel.Name == "idx" {
						hasReads++
						if held["idxLock"] != "" {
							hasLocked++
						}
					}
				}
				return true
			}
			if name == "State.HasMessage" {
				foundHasMessage = true
			}
			if name == "snapMsgList.has" {
				foundHas = true
			}
			ast.Inspect(fd.Body, walk)
		}
	}
	if !foundHasMessage || !foundHas {
		return "", fmt.Errorf("State.HasMessage / snapMsgList.has not found")
	}
	_ = foundSetter
	_ = token.NoPos
	b := func(v bool) string {
		if v {
			return "true"
		}
		return "false"
	}
	emit := func(name string, l []guardAcc) string {
		sort.SliceStable(l, func(i, j int) bool { return l[i].fn < l[j].fn })
		var it []string
		for _, a := range l {
			it = append(it, "("+coqString(a.fn)+", "+b(a.excl)+")")
		}
		return "Definition " + name + " : list (string * bool) :=\n  [" + strings.Join(it, "; ") + "].\n"
	}
	var sb strings.Builder
	sb.WriteString("(* Writes and foreign reads of the guarded fields of a session's state, read off internal/state (T1, extractor Guard):\n   see /verif/translator/facts_guard.go. *)\n")
	sb.WriteString("From Coq Require Import List String Bool.\nImport ListNotations.\nOpen Scope string_scope.\n\n")
	sb.WriteString("(* (function, State.snapLock held exclusively) for every assignment to <state>.snap *)\n" + emit("snap_writes", snapW) + "\n")
	sb.WriteString("(* (function, snapMsgList.idxLock held exclusively) for every change of <list>.idx *)\n" + emit("idx_writes", idxW) + "\n")
	sb.WriteString("Definition hasmessage_reads_snap_locked : bool := " + b(hasMsgReads > 0 && hasMsgReads == hasMsgLocked) + ".\n")
	sb.WriteString("Definition has_reads_idx_locked : bool := " + b(hasReads > 0 && hasReads == hasLocked) + ".\n\n")
	sb.WriteString("Definition guarded_fields_ok : bool :=\n  forallb snd snap_writes && forallb snd idx_writes && negb (Nat.eqb (List.length snap_writes) 0) &&\n  negb (Nat.eqb (List.length idx_writes) 0) && hasmessage_reads_snap_locked && has_reads_idx_locked.\n")
	return sb.String(), nil
}
