package main

// Raw dump of the SQLite file (independent of the db interface) and its comparison with the oracle state.

import (
	"database/sql"
	"fmt"
	"net/url"
	"sort"
	"strconv"
	"strings"

	_ "github.com/mattn/go-sqlite3"
)

type rawDump struct {
	Mboxes   []oMbox
	MboxSeq  int
	BFlags   []oBFlag
	BPFlags  []oBFlag
	BAttrs   []oBFlag
	Msgs     []oMsg
	Flags    []oFlag
	M2M      [][2]int
	Tabs     []*oTab
	Subs     [][2]int
	Settings *int
	Extra    []string // unexpected things (tables without mailbox, unparsable values)
}

func (m *idmap) lookupMsg(id string) (int, bool) {
	m.mu.Lock()
	defer m.mu.Unlock()
	i, ok := m.msgIdx[id]
	return i, ok
}

func openRaw(path string) (*sql.DB, error) {
	return sql.Open("sqlite3", fmt.Sprintf("file:%v?mode=ro&_journal=WAL", url.PathEscape(path)))
}

func (m *idmap) dumpRaw(raw *sql.DB) (*rawDump, error) {
	d := &rawDump{}
	q := func(query string, fn func(*sql.Rows) error) error {
		rows, err := raw.Query(query)
		if err != nil {
			return fmt.Errorf("%s: %w", query, err)
		}
		defer rows.Close()
		for rows.Next() {
			if err := fn(rows); err != nil {
				return err
			}
		}
		return rows.Err()
	}
	if err := q("SELECT id, remote_id, name, uid_validity, subscribed FROM mailboxes_v2 ORDER BY id", func(r *sql.Rows) error {
		var id, uidv int
		var rem, name string
		var sub bool
		if err := r.Scan(&id, &rem, &name, &uidv, &sub); err != nil {
			return err
		}
		d.Mboxes = append(d.Mboxes, oMbox{id, idxOf(rem, "mb"), idxOf(name, "n"), uidv, sub})
		return nil
	}); err != nil {
		return nil, err
	}
	bf := func(table string, dst *[]oBFlag) error {
		return q("SELECT mailbox_id, value FROM "+table, func(r *sql.Rows) error {
			var b int
			var v string
			if err := r.Scan(&b, &v); err != nil {
				return err
			}
			*dst = append(*dst, oBFlag{b, v})
			return nil
		})
	}
	if err := bf("mailbox_flags_v2", &d.BFlags); err != nil {
		return nil, err
	}
	if err := bf("mailbox_perm_flags_v2", &d.BPFlags); err != nil {
		return nil, err
	}
	if err := bf("mailbox_attrs_v2", &d.BAttrs); err != nil {
		return nil, err
	}
	if err := q("SELECT id, remote_id, deleted FROM messages_v2", func(r *sql.Rows) error {
		var id, rem string
		var del bool
		if err := r.Scan(&id, &rem, &del); err != nil {
			return err
		}
		i, ok := m.lookupMsg(id)
		if !ok {
			d.Extra = append(d.Extra, "unknown message id "+id)
			i = -1
		}
		d.Msgs = append(d.Msgs, oMsg{i, m.remoteIndex(rem), del})
		return nil
	}); err != nil {
		return nil, err
	}
	if err := q("SELECT message_id, value FROM message_flags_v2", func(r *sql.Rows) error {
		var id, v string
		if err := r.Scan(&id, &v); err != nil {
			return err
		}
		i, ok := m.lookupMsg(id)
		if !ok {
			d.Extra = append(d.Extra, "flag row for unknown message "+id)
			i = -1
		}
		d.Flags = append(d.Flags, oFlag{i, v})
		return nil
	}); err != nil {
		return nil, err
	}
	if err := q("SELECT message_id, mailbox_id FROM message_to_mailbox", func(r *sql.Rows) error {
		var id string
		var b int
		if err := r.Scan(&id, &b); err != nil {
			return err
		}
		i, ok := m.lookupMsg(id)
		if !ok {
			i = -1
		}
		d.M2M = append(d.M2M, [2]int{i, b})
		return nil
	}); err != nil {
		return nil, err
	}
	seqs := map[string]int{}
	if err := q("SELECT name, seq FROM sqlite_sequence", func(r *sql.Rows) error {
		var n string
		var s int
		if err := r.Scan(&n, &s); err != nil {
			return err
		}
		seqs[n] = s
		return nil
	}); err != nil {
		return nil, err
	}
	d.MboxSeq = seqs["mailboxes_v2"]
	var tables []string
	if err := q("SELECT name FROM sqlite_master WHERE type = 'table' AND name LIKE 'mailbox_message_%'", func(r *sql.Rows) error {
		var n string
		if err := r.Scan(&n); err != nil {
			return err
		}
		tables = append(tables, n)
		return nil
	}); err != nil {
		return nil, err
	}
	sort.Strings(tables)
	for _, tn := range tables {
		b, err := strconv.Atoi(strings.TrimPrefix(tn, "mailbox_message_"))
		if err != nil {
			d.Extra = append(d.Extra, "table "+tn)
			continue
		}
		t := &oTab{Box: b, Seq: seqs[tn]}
		if err := q("SELECT uid, deleted, recent, message_id, message_remote_id FROM `"+tn+"` ORDER BY uid", func(r *sql.Rows) error {
			var uid int
			var del, rec bool
			var id, rem sql.NullString
			if err := r.Scan(&uid, &del, &rec, &id, &rem); err != nil {
				return err
			}
			i, ok := m.lookupMsg(id.String)
			if !ok {
				i = -1
			}
			t.Rows = append(t.Rows, oRow{uid, i, m.remoteIndex(rem.String), del, rec})
			return nil
		}); err != nil {
			return nil, err
		}
		d.Tabs = append(d.Tabs, t)
	}
	for n := range seqs {
		if strings.HasPrefix(n, "mailbox_message_") {
			found := false
			for _, tn := range tables {
				if tn == n {
					found = true
				}
			}
			if !found {
				d.Extra = append(d.Extra, "sqlite_sequence row without table: "+n)
			}
		}
	}
	if err := q("SELECT name, remote_id FROM deleted_subscriptions", func(r *sql.Rows) error {
		var n, rem string
		if err := r.Scan(&n, &rem); err != nil {
			return err
		}
		d.Subs = append(d.Subs, [2]int{idxOf(n, "n"), idxOf(rem, "mb")})
		return nil
	}); err != nil {
		return nil, err
	}
	if err := q("SELECT value FROM connector_settings WHERE id = 0", func(r *sql.Rows) error {
		var v sql.NullString
		if err := r.Scan(&v); err != nil {
			return err
		}
		if v.Valid {
			x := idxOf(v.String, "s")
			d.Settings = &x
		}
		return nil
	}); err != nil {
		return nil, err
	}
	return d, nil
}

func keyed[T any](l []T, key func(T) string) []string {
	r := make([]string, len(l))
	for i, x := range l {
		r[i] = key(x)
	}
	sort.Strings(r)
	return r
}

func diffSets(what string, want, got []string) string {
	if len(want) == len(got) {
		same := true
		for i := range want {
			if want[i] != got[i] {
				same = false
				break
			}
		}
		if same {
			return ""
		}
	}
	w := map[string]int{}
	for _, x := range want {
		w[x]++
	}
	for _, x := range got {
		w[x]--
	}
	var miss, extra []string
	for k, v := range w {
		if v > 0 {
			miss = append(miss, k)
		} else if v < 0 {
			extra = append(extra, k)
		}
	}
	sort.Strings(miss)
	sort.Strings(extra)
	trim := func(l []string) string {
		if len(l) > 6 {
			return fmt.Sprintf("%v ... (%d)", l[:6], len(l))
		}
		return fmt.Sprint(l)
	}
	return fmt.Sprintf("%s: missing %s unexpected %s", what, trim(miss), trim(extra))
}

// compareDump returns "" when the raw content equals the oracle state (tables as sets; mailbox rows in UID order).
func compareDump(o *oDB, d *rawDump) string {
	if len(d.Extra) > 0 {
		return "raw dump: " + strings.Join(d.Extra, "; ")
	}
	var diffs []string
	add := func(s string) {
		if s != "" {
			diffs = append(diffs, s)
		}
	}
	add(diffSets("mailboxes", keyed(o.Mboxes, func(m oMbox) string { return fmt.Sprint(m) }), keyed(d.Mboxes, func(m oMbox) string { return fmt.Sprint(m) })))
	if o.MboxSeq != d.MboxSeq {
		add(fmt.Sprintf("mailbox id counter: want %d got %d", o.MboxSeq, d.MboxSeq))
	}
	kb := func(x oBFlag) string { return fmt.Sprint(x.B, " ", x.F) }
	add(diffSets("mailbox flags", keyed(o.BFlags, kb), keyed(d.BFlags, kb)))
	add(diffSets("mailbox perm flags", keyed(o.BPFlags, kb), keyed(d.BPFlags, kb)))
	add(diffSets("mailbox attrs", keyed(o.BAttrs, kb), keyed(d.BAttrs, kb)))
	add(diffSets("messages", keyed(o.Msgs, func(m oMsg) string { return fmt.Sprint(m) }), keyed(d.Msgs, func(m oMsg) string { return fmt.Sprint(m) })))
	kf := func(x oFlag) string { return fmt.Sprint(x.M, " ", x.F) }
	add(diffSets("message flags", keyed(o.Flags, kf), keyed(d.Flags, kf)))
	kp := func(x [2]int) string { return fmt.Sprint(x[0], " ", x[1]) }
	add(diffSets("message_to_mailbox", keyed(o.M2M, kp), keyed(d.M2M, kp)))
	add(diffSets("deleted subscriptions", keyed(o.Subs, kp), keyed(d.Subs, kp)))
	kt := func(t *oTab) string { return fmt.Sprint(t.Box, " seq=", t.Seq) }
	add(diffSets("mailbox tables", keyed(o.Tabs, kt), keyed(d.Tabs, kt)))
	for _, t := range o.Tabs {
		for _, u := range d.Tabs {
			if u.Box == t.Box {
				if len(t.Rows) != len(u.Rows) {
					add(fmt.Sprintf("mailbox %d: %d rows, want %d", t.Box, len(u.Rows), len(t.Rows)))
				}
				kr := func(r oRow) string { return fmt.Sprintf("%08d %v", r.UID, r) }
				add(diffSets(fmt.Sprintf("rows of mailbox %d", t.Box), keyed(t.Rows, kr), keyed(u.Rows, kr)))
			}
		}
	}
	ps := func(p *int) string {
		if p == nil {
			return "NULL"
		}
		return strconv.Itoa(*p)
	}
	if ps(o.Settings) != ps(d.Settings) {
		add(fmt.Sprintf("connector settings: want %s got %s", ps(o.Settings), ps(d.Settings)))
	}
	return strings.Join(diffs, " | ")
}
