(* Chunks — model of `xslices.Chunk(s, chunkSize)` (github.com/bradenaw/juniper/xslices) as used by every
   bulk statement of /repo/internal/db_impl/sqlite3/{write_ops,read_ops}.go:

     for _, chunk := range xslices.Chunk(ids, db.ChunkLimit) { ... one SQL statement per chunk ... }

   `chunks L l` cuts l into consecutive pieces of length L (the last one may be shorter); the empty list has no
   chunk at all (so `utils.GenSQLIn(len(chunk))` is never called with 0).  The recursion is on explicit fuel
   (`length l` steps always suffice when L > 0; the proofs are in Proofs/ChunksProofs.v).

   `foldM` is the "run one statement after the other inside a transaction, stop at the first error" loop. *)
From Coq Require Import List.
Import ListNotations.

Section Chunks.
  Context {A : Type}.

  Fixpoint chunks_aux (fuel L : nat) (l : list A) : list (list A) :=
    match fuel with
    | O => []
    | S f => match l with
             | [] => []
             | _ :: _ => firstn L l :: chunks_aux f L (skipn L l)
             end
    end.

  Definition chunks (L : nat) (l : list A) : list (list A) := chunks_aux (length l) L l.
End Chunks.

Section FoldM.
  Context {S A : Type}.

  (* option monad: None = the statement failed, the enclosing transaction is rolled back *)
  Fixpoint foldM (f : A -> S -> option S) (l : list A) (s : S) : option S :=
    match l with
    | [] => Some s
    | a :: t => match f a s with
                | Some s' => foldM f t s'
                | None => None
                end
    end.
End FoldM.

Definition obind {S T} (x : option S) (f : S -> option T) : option T :=
  match x with Some s => f s | None => None end.
