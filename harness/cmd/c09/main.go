// Harness for C09: the on-disk message store returns exactly the stored bytes or an error.
//
// Drives the public github.com/ProtonMail/gluon/store API (NewOnDiskStore, NewWriteControlledStore) and the files in
// the store directory.  The oracle is the property: every Get answers with the bytes of the last Set of that ID or
// with an error; List = stored IDs; a truncated / altered / other-passphrase file gives an error or the exact bytes.
// cases.v carries only lengths and corruption descriptors; Run/RunC09.v recomputes the framing arithmetic.
package main

import (
	"bytes"
	"crypto/cipher"
	"encoding/binary"
	"encoding/json"
	"errors"
	"fmt"
	"io"
	"os"
	"path/filepath"
	"sort"
	"strings"
	"sync"
	"sync/atomic"
	"time"

	"github.com/ProtonMail/gluon/imap"
	"github.com/ProtonMail/gluon/store"
	"github.com/google/uuid"
	"github.com/pierrec/lz4/v4"

	"verifharness/common"
)

func main() { common.Main("C09", runC09) }

// ---- constants of the file format as observed by the harness (the model takes its own from Gen/FactsStore.v) ----
const (
	hdrLen   = 15
	nonceLen = 12
	blockSz  = 262144
	gcmOvh   = 16
	encBlock = blockSz + gcmOvh
	bodyOff  = hdrLen + nonceLen
)

type h struct {
	ctx   *common.Ctx
	dir   string
	pass  []byte
	st    store.Store // onDiskStore(pass)
	other store.Store // onDiskStore(other pass) on the same directory
	cases []string
	nid   int
	sit   situation // what is being done right now (for the watchdog)
}

func (x *h) newID() imap.InternalMessageID {
	var b [16]byte
	x.ctx.Rng.Read(b[:])
	b[6] = (b[6] & 0x0f) | 0x40
	b[8] = (b[8] & 0x3f) | 0x80
	u, _ := uuid.FromBytes(b[:])
	return imap.InternalMessageID{UUID: u}
}

func (x *h) path(id imap.InternalMessageID) string { return filepath.Join(x.dir, id.String()) }

// ---- LZ4 frame as written by Set (64 KiB blocks, no checksums) ----
func compressFrame(d []byte) []byte {
	var b bytes.Buffer
	w := lz4.NewWriter(&b)
	_ = w.Apply(lz4.BlockSizeOption(lz4.Block64Kb), lz4.ChecksumOption(false))
	_, _ = w.ReadFrom(bytes.NewReader(d))
	_ = w.Close()
	return b.Bytes()
}

// lz4Bounds returns the offsets at which a data block (or the end mark) starts.
func lz4Bounds(f []byte) []int {
	off := 7
	var r []int
	for off+4 <= len(f) {
		r = append(r, off)
		x := binary.LittleEndian.Uint32(f[off:])
		if x == 0 {
			return r
		}
		off += 4 + int(x&0x7fffffff)
	}
	return r
}

// ---- content generators ----
func (x *h) content(kind string, n int) []byte {
	rng := x.ctx.Rng
	d := make([]byte, n)
	switch kind {
	case "zero":
	case "text":
		phrase := []byte(fmt.Sprintf("Subject: message %d\r\nFrom: a@example.com\r\n\r\nThe quick brown fox jumps over the lazy dog. ", rng.Intn(1000)))
		for i := 0; i < n; i += len(phrase) {
			copy(d[i:], phrase)
		}
	case "rand":
		rng.Read(d)
	case "mixed":
		for i := 0; i < n; {
			seg := 1 + rng.Intn(90000)
			if i+seg > n {
				seg = n - i
			}
			if rng.Intn(2) == 0 {
				rng.Read(d[i : i+seg])
			}
			i += seg
		}
	}
	return d
}

// chunk64 is one 64 KiB input block: r random bytes followed by zeros (its LZ4 block has about r+280 bytes).
func chunk64(seed int64, r int) []byte {
	c := make([]byte, 65536)
	common.NewRng(seed).Read(c[:r])
	return c
}

// storedSize = bytes the LZ4 block of this 64 KiB chunk occupies in the frame (size word included).  The frame of a
// content that is a multiple of 64 KiB is: header(7) block empty-block(4) end-mark(4).
func storedSize(c []byte) int { return len(compressFrame(c)) - 7 - 4 - 4 }

// alignedContent builds a content whose LZ4 frame has block boundaries exactly at blockSz*1 .. blockSz*k and continues
// after the last one.  Returns nil if the construction does not succeed (it is deterministic for a seed).
func (x *h) alignedContent(k int) []byte { return x.alignedContentEx(k, true) }

// exactFrameContent builds a content (a multiple of 64 KiB) whose whole LZ4 frame - header, blocks, the empty block the
// writer emits for such a length, end mark - is exactly k*blockSz bytes: every sealed block of its file is a full one.
func (x *h) exactFrameContent(k int) []byte { return x.alignedContentEx(k, false) }

func (x *h) alignedContentEx(k int, tail bool) []byte {
	rng := x.ctx.Rng
	var d []byte
	off := 7
	for j := 1; j <= k; j++ {
		target := j * blockSz
		if !tail && j == k {
			target -= 8 // empty block (4) + end mark (4)
		}
		for target-off > 2*65540 {
			d = append(d, chunk64(rng.Int63(), 65536)...)
			off += 65540
		}
		rem := target - off
		nb := (rem + 49999) / 50000
		for b := 0; b < nb-1; b++ {
			c := chunk64(rng.Int63(), rem/nb-283)
			s := storedSize(c)
			d = append(d, c...)
			off += s
		}
		want := target - off
		found := false
		for attempt := 0; attempt < 8 && !found; attempt++ {
			seed := rng.Int63()
			r := want - 283
			for it := 0; it < 200; it++ {
				if r < 0 || r > 65536 {
					break
				}
				c := chunk64(seed, r)
				s := storedSize(c)
				if s == want {
					d = append(d, c...)
					off += s
					found = true
					break
				}
				step := want - s
				if step > 64 || step < -64 {
					r += step
				} else if step > 0 {
					r++
				} else {
					r--
				}
			}
		}
		if !found {
			return nil
		}
	}
	if !tail {
		if len(compressFrame(d)) != k*blockSz {
			return nil
		}
		return d
	}
	tl := make([]byte, 70000)
	rng.Read(tl[:30000])
	copy(tl[30000:], []byte("TAIL-OF-THE-MESSAGE"))
	d = append(d, tl...)
	// verify
	b := lz4Bounds(compressFrame(d))
	for j := 1; j <= k; j++ {
		ok := false
		for i, o := range b {
			if o == j*blockSz && i < len(b)-1 {
				ok = true
			}
		}
		if !ok {
			return nil
		}
	}
	return d
}

// ---- observations ----
func classify(want, got []byte, err error) string {
	if err == nil {
		if bytes.Equal(want, got) {
			return "OExact"
		}
		return "ODiff"
	}
	msg := err.Error()
	switch {
	case strings.Contains(msg, "failed to read nonce"):
		return "ONonce"
	case strings.Contains(msg, "failed to decrypt block"):
		return "OGcm"
	case strings.Contains(msg, "not a valid store file"):
		return "OHeader"
	case errors.Is(err, io.EOF) || errors.Is(err, io.ErrUnexpectedEOF):
		return "OEof"
	}
	return "OOther"
}

type corr struct {
	Kind   string `json:"kind"` // intact trunc flip splice append otherpass prefix
	At     int    `json:"at,omitempty"`
	Blocks []int  `json:"blocks,omitempty"`
	Where  string `json:"where"` // symbolic position (canonical, independent of the content)
}

func (c corr) coq() string {
	switch c.Kind {
	case "intact":
		return "KIntact"
	case "trunc":
		return fmt.Sprintf("(KTrunc %d)", c.At)
	case "flip":
		return fmt.Sprintf("(KFlip %d)", c.At)
	case "splice":
		return "(KSplice " + common.CoqNList(c.Blocks) + ")"
	case "append":
		return fmt.Sprintf("(KAppend %d)", c.At)
	case "otherpass":
		return "KOtherPass"
	}
	return "KIntact"
}

func splitBlocks(body []byte) [][]byte {
	var r [][]byte
	for len(body) > 0 {
		n := encBlock
		if n > len(body) {
			n = len(body)
		}
		r = append(r, body[:n])
		body = body[n:]
	}
	return r
}

func (c corr) apply(orig []byte, rng *common.Rng) []byte {
	switch c.Kind {
	case "trunc":
		return append([]byte{}, orig[:c.At]...)
	case "flip":
		f := append([]byte{}, orig...)
		f[c.At] ^= byte(1 << uint(rng.Intn(8)))
		return f
	case "splice":
		bl := splitBlocks(orig[bodyOff:])
		f := append([]byte{}, orig[:bodyOff]...)
		for _, j := range c.Blocks {
			f = append(f, bl[j]...)
		}
		return f
	case "append":
		junk := make([]byte, c.At)
		rng.Read(junk)
		return append(append([]byte{}, orig...), junk...)
	}
	return orig
}

type sample struct {
	Size   int    `json:"size"`
	Kind   string `json:"content"`
	CLen   int    `json:"compressed_len"`
	FSize  int    `json:"file_size"`
	Corr   corr   `json:"corruption"`
	Obs    string `json:"observed"`
	Detail string `json:"detail,omitempty"`
}

// corruptions derives the list of corruptions for a file with the given compressed length.
func (x *h) corruptions(clen, fsize int, thorough bool) []corr {
	rng := x.ctx.Rng
	nb := (clen + blockSz - 1) / blockSz
	blkStart := func(i int) int { return bodyOff + i*encBlock }
	blkEnd := func(i int) int {
		if i == nb-1 {
			return fsize
		}
		return bodyOff + (i+1)*encBlock
	}
	var cs []corr
	add := func(c corr) {
		if (c.Kind == "trunc" && (c.At < 0 || c.At >= fsize)) || (c.Kind == "flip" && (c.At < 0 || c.At >= fsize)) {
			return
		}
		cs = append(cs, c)
	}
	// truncations at every structural boundary and next to it
	for _, p := range []struct {
		at int
		w  string
	}{{0, "empty-file"}, {1, "header+1"}, {hdrLen - 1, "header-end-1"}, {hdrLen, "header-end"}, {hdrLen + 1, "nonce+1"},
		{bodyOff - 1, "nonce-end-1"}, {bodyOff, "header+nonce-only"}, {bodyOff + 1, "block0+1"}, {bodyOff + gcmOvh - 1, "block0+15"},
		{bodyOff + gcmOvh, "block0+16"}, {fsize - 1, "file-end-1"}, {fsize - gcmOvh, "last-tag-start"}, {fsize - gcmOvh - 1, "last-tag-start-1"}} {
		add(corr{Kind: "trunc", At: p.at, Where: p.w})
	}
	for i := 1; i < nb; i++ {
		if !thorough && nb > 4 && i != 1 && i != nb-1 && rng.Intn(3) != 0 {
			continue
		}
		add(corr{Kind: "trunc", At: blkStart(i), Where: "block-boundary"})
		add(corr{Kind: "trunc", At: blkStart(i) - 1, Where: "block-boundary-1"})
		add(corr{Kind: "trunc", At: blkStart(i) + 1, Where: "block-boundary+1"})
	}
	add(corr{Kind: "trunc", At: bodyOff + rng.Intn(fsize-bodyOff), Where: "random-in-body"})
	// bit flips in every region
	add(corr{Kind: "flip", At: rng.Intn(11), Where: "header-magic"})
	add(corr{Kind: "flip", At: 11 + rng.Intn(4), Where: "header-version"})
	add(corr{Kind: "flip", At: hdrLen + rng.Intn(nonceLen), Where: "nonce"})
	for i := 0; i < nb; i++ {
		if !thorough && nb > 3 && i != 0 && i != nb-1 && rng.Intn(2) != 0 {
			continue
		}
		s, e := blkStart(i), blkEnd(i)
		add(corr{Kind: "flip", At: s, Where: "block-first-byte"})
		if e-gcmOvh > s {
			add(corr{Kind: "flip", At: s + rng.Intn(e-gcmOvh-s), Where: "block-ciphertext"})
		}
		add(corr{Kind: "flip", At: e - gcmOvh + rng.Intn(gcmOvh), Where: "block-tag"})
		add(corr{Kind: "flip", At: e - 1, Where: "block-last-byte"})
	}
	// splices of whole sealed blocks
	id := func() []int {
		r := make([]int, nb)
		for i := range r {
			r[i] = i
		}
		return r
	}
	if nb >= 2 {
		a := id()
		cs = append(cs, corr{Kind: "splice", Blocks: a[1:], Where: "drop-first"})
		cs = append(cs, corr{Kind: "splice", Blocks: append([]int{}, a[:nb-1]...), Where: "drop-last"})
		cs = append(cs, corr{Kind: "splice", Blocks: append(append([]int{}, a...), nb-1), Where: "dup-last"})
		sw := id()
		sw[0], sw[nb-1] = sw[nb-1], sw[0]
		cs = append(cs, corr{Kind: "splice", Blocks: sw, Where: "swap-first-last"})
	}
	cs = append(cs, corr{Kind: "splice", Blocks: append(id(), 0), Where: "append-first"})
	cs = append(cs, corr{Kind: "splice", Blocks: append([]int{0}, id()...), Where: "dup-first"})
	if nb >= 3 {
		i := 1 + rng.Intn(nb-2)
		a := id()
		cs = append(cs, corr{Kind: "splice", Blocks: append(append([]int{}, a[:i]...), a[i+1:]...), Where: "drop-middle"})
		cs = append(cs, corr{Kind: "splice", Blocks: append(append(append([]int{}, a[:i+1]...), i), a[i+1:]...), Where: "dup-middle"})
		if nb >= 4 {
			sw := id()
			sw[1], sw[2] = sw[2], sw[1]
			cs = append(cs, corr{Kind: "splice", Blocks: sw, Where: "swap-middle"})
		}
	}
	cs = append(cs, corr{Kind: "append", At: 1 + rng.Intn(40), Where: "junk-short"})
	cs = append(cs, corr{Kind: "append", At: encBlock, Where: "junk-block"})
	cs = append(cs, corr{Kind: "otherpass", Where: "other-passphrase"})
	return cs
}

var caseNo int

// applyReplay: a replay file written by bin/check names the seed and tier of the run that failed; the harness is
// deterministic for a seed, so replaying = running again with them.
func applyReplay(ctx *common.Ctx) {
	if ctx.Replay == "" {
		return
	}
	b, err := os.ReadFile(ctx.Replay)
	if err != nil {
		return
	}
	var r struct {
		Seed int64  `json:"seed"`
		Tier string `json:"tier"`
	}
	if json.Unmarshal(b, &r) != nil {
		return
	}
	if r.Seed != 0 {
		ctx.Seed, ctx.Rng, ctx.Res.Seed = r.Seed, common.NewRng(r.Seed), r.Seed
	}
	if r.Tier == "quick" || r.Tier == "thorough" {
		ctx.Tier, ctx.Res.Tier = r.Tier, r.Tier
	}
}

// corruptAndCheck runs the corruptions on the stored file of `id` (content d) and evaluates the oracle.
func (x *h) corruptAndCheck(id imap.InternalMessageID, d []byte, kind string, aligned string, cs []corr) error {
	res := x.ctx.Res
	orig, err := os.ReadFile(x.path(id))
	if err != nil {
		return err
	}
	clen := len(compressFrame(d))
	for _, c := range cs {
		caseNo++
		canon := fmt.Sprintf("%s where=%s aligned=%s", c.Kind, c.Where, aligned)
		x.ctx.Current(canon, map[string]interface{}{"size": len(d), "content": kind, "corruption": c})
		x.sit = situation{Scenario: "damaged file", Damage: fmt.Sprintf("%s where=%s aligned=%s", c.Kind, c.Where, aligned),
			Input: map[string]interface{}{"content_size": len(d), "content_kind": kind, "compressed_len": clen, "file_size": len(orig), "corruption": c, "seed": x.ctx.Seed},
			File:  x.path(id)}
		var got []byte
		var gerr error
		if c.Kind == "otherpass" {
			got, gerr = x.other.Get(id)
		} else {
			if err := os.WriteFile(x.path(id), c.apply(orig, x.ctx.Rng), 0o600); err != nil {
				return err
			}
			got, gerr = x.st.Get(id)
		}
		obs := classify(d, got, gerr)
		res.Evaluations++
		res.Count("corrupt:" + c.Kind)
		res.Count("obs:" + obs)
		res.Nontrivial(fmt.Sprintf("%s/%s/%s/%d", c.Kind, c.Where, kind, (clen+blockSz-1)/blockSz))
		sm := sample{Size: len(d), Kind: kind, CLen: clen, FSize: len(orig), Corr: c, Obs: obs}
		if gerr != nil {
			sm.Detail = gerr.Error()
		}
		if caseNo%97 == 1 {
			res.Sample(sm)
		}
		if obs == "ODiff" {
			res.Fail(canon+" result=different-bytes",
				fmt.Sprintf("Get returned %d bytes that are not the %d stored bytes and no error (content %s, compressed %d, file %d bytes, corruption %+v)", len(got), len(d), kind, clen, len(orig), c), sm)
		}
		x.cases = append(x.cases, fmt.Sprintf("mkCase %d %d %d %s %s", caseNo, clen, len(orig), c.coq(), obs))
	}
	return os.WriteFile(x.path(id), orig, 0o600)
}

// craftedPrefix writes a well-formed file (right key, one nonce) whose sealed blocks carry only the first q bytes of the
// frame and reads it: this is what Get sees of a file cut at a block boundary.  Exercises the LZ4 assumption of the
// proofs (a strict prefix of a frame is not accepted) on the real reader.
func (x *h) craftedPrefix(gcm cipher.AEAD, d []byte, kind string) error {
	res := x.ctx.Res
	frame := compressFrame(d)
	b := lz4Bounds(frame)
	type cut struct {
		q int
		w string
	}
	cuts := []cut{{1, "in-frame-header"}, {4, "in-frame-header"}, {6, "in-frame-header"}, {7, "after-frame-header"}}
	for i, o := range b {
		if i == 0 {
			continue
		}
		w := "lz4-block-boundary"
		if i == len(b)-1 {
			w = "before-end-mark"
		}
		if len(b) > 6 && i != 1 && i != len(b)-1 && x.ctx.Rng.Intn(3) != 0 {
			continue
		}
		cuts = append(cuts, cut{o, w}, cut{o - 1, w + "-1"}, cut{o + 1, w + "+1"})
	}
	cuts = append(cuts, cut{len(frame) - 1, "in-end-mark"})
	id := x.newID()
	for _, c := range cuts {
		if c.q <= 0 || c.q >= len(frame) {
			continue
		}
		caseNo++
		canon := "frame-prefix cut=" + c.w
		x.ctx.Current(canon, map[string]interface{}{"size": len(d), "content": kind, "q": c.q})
		nonce := make([]byte, nonceLen)
		x.ctx.Rng.Read(nonce)
		f := append([]byte("GLUON-CACHE\x01\x00\x00\x00"), nonce...)
		for p := frame[:c.q]; len(p) > 0; {
			n := blockSz
			if n > len(p) {
				n = len(p)
			}
			f = gcm.Seal(f, nonce, p[:n], nil)
			p = p[n:]
		}
		if err := os.WriteFile(x.path(id), f, 0o600); err != nil {
			return err
		}
		x.sit = situation{Scenario: "crafted frame prefix", Damage: "frame-prefix cut=" + c.w,
			Input: map[string]interface{}{"content_size": len(d), "content_kind": kind, "frame_len": len(frame), "q": c.q, "seed": x.ctx.Seed}, File: x.path(id)}
		got, gerr := x.st.Get(id)
		obs := classify(d, got, gerr)
		res.Evaluations++
		res.Count("frame-prefix")
		res.Count("obs:" + obs)
		res.Nontrivial("prefix/" + c.w + "/" + kind)
		if gerr == nil {
			res.Fail(canon+" result=no-error",
				fmt.Sprintf("a store file whose decrypted data is the first %d of %d frame bytes (%s) was read without error: %d bytes returned, %d stored", c.q, len(frame), c.w, len(got), len(d)),
				map[string]interface{}{"size": len(d), "content": kind, "frame_len": len(frame), "q": c.q})
		}
		x.cases = append(x.cases, fmt.Sprintf("mkCase %d %d %d KFramePrefix %s", caseNo, c.q, len(f), obs))
	}
	_ = os.Remove(x.path(id))
	return nil
}

func runC09(ctx *common.Ctx) error {
	applyReplay(ctx)
	thorough := ctx.Tier == "thorough"
	dir, err := os.MkdirTemp("", "verif-c09-*")
	if err != nil {
		return err
	}
	defer os.RemoveAll(dir)
	x := &h{ctx: ctx, dir: filepath.Join(dir, "store"), pass: []byte("passphrase-one")}
	rawSt, err := store.NewOnDiskStore(x.dir, x.pass)
	if err != nil {
		return err
	}
	rawOther, err := store.NewOnDiskStore(x.dir, []byte("passphrase-two"))
	if err != nil {
		return err
	}
	x.st, x.other = x.watch(rawSt, "on-disk"), x.watch(rawOther, "on-disk (other passphrase)")
	gcm, err := store.NewCipher(x.pass)
	if err != nil {
		return err
	}
	res := ctx.Res
	res.Rule = "contents (zero/text/random/mixed) of sizes 0,1,64Ki±1,256Ki±1,k*256Ki±1,MiB stored with the real store; " +
		"non-trivial = distinct (corruption kind, position class, content kind, number of sealed blocks) or (op history step) " +
		"evaluated against 'exact bytes or error'; plus contents whose LZ4 block boundaries are constructed to fall on multiples of blockSize"

	// ---------- 1. round trip over sizes and compressibility; file size; corruptions ----------
	sizes := []int{0, 1, 2, 100, 65535, 65536, 65537, 262143, 262144, 262145, 524287, 524288, 524289, 786433, 1048576}
	if thorough {
		sizes = append(sizes, 1048577, 2*1048576+1, 3*262144-1, 4*262144, 5*1048576, 8*1048576+1, 16*1048576, 32*1048576-1)
		for i := 0; i < 30; i++ { // random sizes around multiples of the block size and of the LZ4 block size
			base := []int{65536, 262144}[ctx.Rng.Intn(2)] * (1 + ctx.Rng.Intn(12))
			sizes = append(sizes, base+ctx.Rng.Intn(7)-3)
		}
	}
	kinds := []string{"zero", "text", "rand", "mixed"}
	ncorr := 0
	for _, n := range sizes {
		for _, k := range kinds {
			if n <= 2 && k != "rand" && k != "zero" {
				continue
			}
			if !thorough && n > 600000 && (k == "zero" || k == "text") && n != 1048576 {
				continue
			}
			d := x.content(k, n)
			id := x.newID()
			canon := fmt.Sprintf("roundtrip size=%d content=%s", n, k)
			ctx.Current(canon, map[string]interface{}{"size": n, "content": k})
			x.sit = situation{Scenario: canon, Input: map[string]interface{}{"content_size": n, "content_kind": k, "seed": ctx.Seed}, File: x.path(id)}
			if err := x.st.Set(id, bytes.NewReader(d)); err != nil {
				res.Fail(canon+" set-error", err.Error(), nil)
				continue
			}
			got, gerr := x.st.Get(id)
			res.Evaluations++
			res.Count("roundtrip:" + k)
			res.Nontrivial(fmt.Sprintf("roundtrip/%d/%s", n, k))
			if gerr != nil || !bytes.Equal(got, d) {
				res.Fail(canon+" result=mismatch", fmt.Sprintf("Get after Set: err=%v, %d bytes returned, %d stored", gerr, len(got), len(d)), map[string]interface{}{"size": n, "content": k})
			}
			// corruptions: all contents up to 1 MiB in quick (rand/mixed for the larger ones), sampled in thorough for big files
			doCorr := n <= 1048576 || (thorough && (k == "rand" || k == "mixed") && n <= 8*1048576+1)
			if doCorr {
				fi, _ := os.Stat(x.path(id))
				cs := x.corruptions(len(compressFrame(d)), int(fi.Size()), thorough)
				if !thorough && ((n > 300000 && (k == "zero" || k == "text")) || (k == "text" && n != 262144 && n != 65537) ||
					(k == "zero" && n > 2 && n != 262145 && n != 524288)) {
					cs = cs[:0]
					cs = append(cs, corr{Kind: "intact", Where: "none"})
				} else {
					cs = append([]corr{{Kind: "intact", Where: "none"}}, cs...)
				}
				ncorr += len(cs)
				if err := x.corruptAndCheck(id, d, k, "no", cs); err != nil {
					return err
				}
			} else {
				if err := x.corruptAndCheck(id, d, k, "no", []corr{{Kind: "intact", Where: "none"}}); err != nil {
					return err
				}
			}
			if n <= 1048576 && ((k == "rand" && (thorough || n%2 == 1 || n <= 65536)) || (k == "mixed" && (thorough || n%2 == 0)) || n <= 1) {
				if err := x.craftedPrefix(gcm, d, k); err != nil {
					return err
				}
			}
			_ = x.st.Delete(id)
		}
	}

	// ---------- 2. contents with LZ4 block boundaries on multiples of blockSize ----------
	for _, k := range []int{1, 3} {
		d := x.alignedContent(k)
		if d == nil {
			res.Notes = append(res.Notes, fmt.Sprintf("aligned content k=%d: construction did not converge for this seed", k))
			continue
		}
		id := x.newID()
		if err := x.st.Set(id, bytes.NewReader(d)); err != nil {
			return err
		}
		fi, _ := os.Stat(x.path(id))
		clen := len(compressFrame(d))
		nb := (clen + blockSz - 1) / blockSz
		var cs []corr
		cs = append(cs, corr{Kind: "intact", Where: "none"})
		for j := 1; j <= k; j++ {
			cs = append(cs, corr{Kind: "trunc", At: bodyOff + j*encBlock, Where: "block-boundary"})
		}
		ident := make([]int, nb)
		for i := range ident {
			ident[i] = i
		}
		if k >= 3 {
			cs = append(cs, corr{Kind: "splice", Blocks: append(append([]int{}, ident[:1]...), ident[2:]...), Where: "drop-middle"})
			cs = append(cs, corr{Kind: "splice", Blocks: append([]int{0, 1, 1}, ident[2:]...), Where: "dup-middle"})
			sw := append([]int{}, ident...)
			sw[1], sw[2] = sw[2], sw[1]
			cs = append(cs, corr{Kind: "splice", Blocks: sw, Where: "swap-middle"})
		}
		_ = fi
		if err := x.corruptAndCheck(id, d, "aligned", "lz4-block", cs); err != nil {
			return err
		}
		_ = x.st.Delete(id)
	}

	// ---------- 2b. contents whose compressed frame is EXACTLY k blocks long (the last sealed block is a full one) ----------
	for _, k := range []int{1, 2} {
		d := x.exactFrameContent(k)
		if d == nil {
			res.Notes = append(res.Notes, fmt.Sprintf("exact-frame content k=%d: construction did not converge for this seed", k))
			continue
		}
		id := x.newID()
		canon := fmt.Sprintf("roundtrip compressed-length=%d*blockSize", k)
		ctx.Current(canon, map[string]interface{}{"size": len(d), "frame": k * blockSz})
		x.sit = situation{Scenario: canon, Input: map[string]interface{}{"content_size": len(d), "compressed_len": k * blockSz, "seed": ctx.Seed}, File: x.path(id)}
		res.Evaluations++
		res.Count("roundtrip:exact-frame")
		res.Nontrivial(canon)
		if err := x.st.Set(id, bytes.NewReader(d)); err != nil {
			res.Fail(canon+" result=set-error", fmt.Sprintf("Set of a %d-byte content whose LZ4 frame is exactly %d bytes (%d full blocks): %v", len(d), k*blockSz, k, err), map[string]int{"size": len(d), "k": k})
			_ = x.st.Delete(id)
			continue
		}
		got, gerr := x.st.Get(id)
		if gerr != nil || !bytes.Equal(got, d) {
			res.Fail(canon+" result=mismatch", fmt.Sprintf("Get after Set: err=%v, %d bytes returned, %d stored", gerr, len(got), len(d)), map[string]int{"size": len(d), "k": k})
		}
		fi, _ := os.Stat(x.path(id))
		cs := x.corruptions(k*blockSz, int(fi.Size()), thorough)
		cs = append([]corr{{Kind: "intact", Where: "none"}}, cs...)
		if err := x.corruptAndCheck(id, d, "exact-frame", "no", cs); err != nil {
			return err
		}
		_ = x.st.Delete(id)
	}

	// ---------- 3. histories of Set/Get/Delete/List over several IDs against "last write wins" ----------
	if err := x.histories(thorough); err != nil {
		return err
	}

	// ---------- 4. concurrent readers and writers of one ID (runtime part: a search, not a proof) ----------
	var cerr error
	x.scenarioWatchdog("concurrent readers and writers of one ID", 5*time.Minute, func() { cerr = x.concurrent(thorough) })
	if cerr != nil {
		return cerr
	}
	x.scenarioWatchdog("lock table stress", 10*time.Minute, func() { x.lockTableStress(thorough) })
	if err := x.batchDeleteForced(); err != nil {
		return err
	}
	if err := x.batchDeletes(thorough); err != nil {
		return err
	}
	if err := x.listings(); err != nil {
		return err
	}

	res.ModelCases = len(x.cases)
	b, _ := json.Marshal(map[string]int{"corruption_cases": ncorr})
	res.Notes = append(res.Notes, string(b))
	return common.WriteCases(ctx.Out, "Run.RunC09", "case", x.cases, "")
}

// ---- histories ----
func (x *h) histories(thorough bool) error {
	ctx, res := x.ctx, x.ctx.Res
	rng := ctx.Rng
	runs := ctx.Budget(6, 60)
	for r := 0; r < runs; r++ {
		dir := filepath.Join(filepath.Dir(x.dir), fmt.Sprintf("hist-%d", r))
		base, err := store.NewOnDiskStore(dir, x.pass)
		if err != nil {
			return err
		}
		var st store.Store = base
		wrapped := r%2 == 1
		if wrapped {
			st = store.NewWriteControlledStore(base)
		}
		st = x.watch(st, "history")
		x.sit = situation{Scenario: fmt.Sprintf("history #%d (write-controlled=%v, seed %d)", r, wrapped, ctx.Seed)}
		nids := 2 + rng.Intn(4)
		ids := make([]imap.InternalMessageID, nids)
		bnd := x.boundaryIDs() // nil UUID, all-ff, an ID and its one-bit neighbours: IDs like any other
		for i := range ids {
			ids[i] = bnd[i%len(bnd)]
		}
		ref := map[int][]byte{}
		var trace []string
		steps := 25 + rng.Intn(25)
		for s := 0; s < steps; s++ {
			i := rng.Intn(nids)
			op := rng.Intn(10)
			var desc string
			fail := func(what, detail string) {
				res.Fail(fmt.Sprintf("history %s", what), detail+" after "+strings.Join(trace, " "), map[string]interface{}{"trace": trace, "wrapped": wrapped})
			}
			switch {
			case op < 4: // set
				sz := []int{0, 1, 300, 70000, 262144, 262145, 300000}[rng.Intn(7)]
				d := x.content([]string{"zero", "text", "rand", "mixed"}[rng.Intn(4)], sz)
				desc = fmt.Sprintf("set(%d,%d)", i, sz)
				ctx.Current("history "+desc, trace)
				if err := st.Set(ids[i], bytes.NewReader(d)); err != nil {
					fail("set-error", err.Error())
				}
				ref[i] = d
			case op < 7: // get
				desc = fmt.Sprintf("get(%d)", i)
				ctx.Current("history "+desc, trace)
				got, err := st.Get(ids[i])
				want, ok := ref[i]
				if ok && (err != nil || !bytes.Equal(got, want)) {
					fail("get-mismatch", fmt.Sprintf("%s: err=%v got %d bytes want %d", desc, err, len(got), len(want)))
				}
				if !ok && err == nil {
					fail("get-deleted-id-answers", fmt.Sprintf("%s returned %d bytes for an ID that is not stored", desc, len(got)))
				}
			case op < 9: // delete
				desc = fmt.Sprintf("delete(%d)", i)
				ctx.Current("history "+desc, trace)
				err := st.Delete(ids[i])
				_, ok := ref[i]
				if ok && err != nil {
					fail("delete-error", err.Error())
				}
				delete(ref, i)
			default: // list
				desc = "list"
				ctx.Current("history "+desc, trace)
				l, err := st.List()
				if err != nil {
					fail("list-error", err.Error())
				}
				var got, want []string
				for _, id := range l {
					got = append(got, id.String())
				}
				for k := range ref {
					want = append(want, ids[k].String())
				}
				sort.Strings(got)
				sort.Strings(want)
				if strings.Join(got, ",") != strings.Join(want, ",") {
					fail("list-mismatch", fmt.Sprintf("List = %v, stored = %v", got, want))
				}
			}
			trace = append(trace, desc)
			res.Evaluations++
			res.Count("history-op")
		}
		// final sweep: every id
		for i := range ids {
			got, err := st.Get(ids[i])
			want, ok := ref[i]
			if ok && (err != nil || !bytes.Equal(got, want)) {
				res.Fail("history final-get-mismatch", fmt.Sprintf("id %d: err=%v after %s", i, err, strings.Join(trace, " ")), trace)
			}
			if !ok && err == nil {
				res.Fail("history final-get-deleted-id-answers", fmt.Sprintf("id %d after %s", i, strings.Join(trace, " ")), trace)
			}
		}
		res.Nontrivial("history/" + strings.Join(trace, " "))
		if r == 0 {
			res.Sample(map[string]interface{}{"history": trace, "write_controlled": wrapped})
		}
		_ = os.RemoveAll(dir)
	}
	return nil
}

// ---- concurrency on one ID ----
// Each value is self-describing: 16-byte header (writer, iteration, length) followed by a fill derived from them.
func makeValue(w, it, n int) []byte {
	d := make([]byte, n)
	binary.LittleEndian.PutUint32(d[0:], uint32(w))
	binary.LittleEndian.PutUint32(d[4:], uint32(it))
	binary.LittleEndian.PutUint64(d[8:], uint64(n))
	s := uint32(w*1000003 + it*7919 + 1)
	for i := 16; i < n; i++ {
		if i%4096 < 64 { // mostly compressible with incompressible islands
			s = s*1664525 + 1013904223
			d[i] = byte(s >> 24)
		} else {
			d[i] = byte(w + it)
		}
	}
	return d
}

func checkValue(d []byte) bool {
	if len(d) < 16 {
		return false
	}
	w := int(binary.LittleEndian.Uint32(d[0:]))
	it := int(binary.LittleEndian.Uint32(d[4:]))
	n := int(binary.LittleEndian.Uint64(d[8:]))
	if n != len(d) || w > 64 || it > 1<<20 {
		return false
	}
	return bytes.Equal(d, makeValue(w, it, n))
}

func (x *h) concurrent(thorough bool) error {
	ctx, res := x.ctx, x.ctx.Res
	dir := filepath.Join(filepath.Dir(x.dir), "conc")
	base, err := store.NewOnDiskStore(dir, x.pass)
	if err != nil {
		return err
	}
	st := store.NewWriteControlledStore(base)
	id := x.newID()
	writers, readers := 3, 4
	iters := ctx.Budget(40, 400)
	sizes := []int{20, 70000, 262144 + 5, 600000}
	if err := st.Set(id, bytes.NewReader(makeValue(0, 0, 1000))); err != nil {
		return err
	}
	ctx.Current("concurrent one-id", map[string]int{"writers": writers, "readers": readers, "iterations": iters})
	var wg sync.WaitGroup
	var torn, errs, reads int64
	var firstBad atomic.Value
	var done int32
	for w := 1; w <= writers; w++ {
		wg.Add(1)
		go func(w int) {
			defer wg.Done()
			for it := 1; it <= iters; it++ {
				if err := st.Set(id, bytes.NewReader(makeValue(w, it, sizes[(w+it)%len(sizes)]))); err != nil {
					atomic.AddInt64(&errs, 1)
					firstBad.CompareAndSwap(nil, "Set: "+err.Error())
				}
			}
		}(w)
	}
	var rg sync.WaitGroup
	for r := 0; r < readers; r++ {
		rg.Add(1)
		go func() {
			defer rg.Done()
			for atomic.LoadInt32(&done) == 0 {
				d, err := st.Get(id)
				atomic.AddInt64(&reads, 1)
				if err != nil {
					atomic.AddInt64(&errs, 1)
					firstBad.CompareAndSwap(nil, "Get: "+err.Error())
				} else if !checkValue(d) {
					atomic.AddInt64(&torn, 1)
					firstBad.CompareAndSwap(nil, fmt.Sprintf("Get returned %d bytes that are no complete written value", len(d)))
				}
			}
		}()
	}
	wg.Wait()
	atomic.StoreInt32(&done, 1)
	rg.Wait()
	res.Evaluations += writers * iters // the number of reads depends on the schedule and is not recorded
	res.Distribution["concurrent-sets"] = writers * iters
	res.Nontrivial("concurrent/one-id")
	if torn > 0 || errs > 0 {
		res.Fail("concurrent one-id reader-saw-incomplete-value",
			fmt.Sprintf("%d torn values, %d errors in %d reads while %d writers replaced the value (first: %v)", torn, errs, reads, writers, firstBad.Load()),
			map[string]int{"writers": writers, "readers": readers, "iterations": iters})
	}
	_ = os.RemoveAll(dir)
	return nil
}
