package main

// The property oracle of C03: a reference model of the message commands, written from the property text only
// (it does not look at gluon's algorithm).  State: per mailbox the last UID handed out and the ordered entries
// (uid, entity, \Deleted); per entity a case-insensitive set of flags shared by all mailboxes.

import (
	"fmt"
	"sort"
	"strings"
)

type entry struct {
	UID, Ent int
	Del      bool
}

type mbox struct {
	Name string
	Num  int
	Last int
	Ents []entry
}

type model struct {
	Boxes []*mbox
	Flags map[int]map[string]bool // entity -> lower-case flag names (never \deleted, \recent)
	NEnt  int
}

var boxNames = []string{"b1", "b2", "b3"}

const noBox = "nope" // a mailbox that never exists
const noBoxNum = 9

func newModel() *model {
	m := &model{Flags: map[int]map[string]bool{}}
	for i, n := range boxNames {
		m.Boxes = append(m.Boxes, &mbox{Name: n, Num: i + 1})
	}
	return m
}

func (m *model) clone() *model {
	c := &model{Flags: map[int]map[string]bool{}, NEnt: m.NEnt}
	for _, b := range m.Boxes {
		nb := &mbox{Name: b.Name, Num: b.Num, Last: b.Last, Ents: append([]entry{}, b.Ents...)}
		c.Boxes = append(c.Boxes, nb)
	}
	for e, fs := range m.Flags {
		n := make(map[string]bool, len(fs))
		for f := range fs {
			n[f] = true
		}
		c.Flags[e] = n
	}
	return c
}

func (m *model) box(name string) *mbox {
	for _, b := range m.Boxes {
		if b.Name == name {
			return b
		}
	}
	return nil
}

func boxNum(name string) int {
	for i, n := range boxNames {
		if n == name {
			return i + 1
		}
	}
	return noBoxNum
}

func (b *mbox) find(ent int) int {
	for i, e := range b.Ents {
		if e.Ent == ent {
			return i
		}
	}
	return -1
}

func (b *mbox) byUID(uid int) (entry, bool) {
	for _, e := range b.Ents {
		if e.UID == uid {
			return e, true
		}
	}
	return entry{}, false
}

func (b *mbox) removeEnts(ents map[int]bool) {
	var out []entry
	for _, e := range b.Ents {
		if !ents[e.Ent] {
			out = append(out, e)
		}
	}
	b.Ents = out
}

const (
	fDeleted = `\deleted`
	fRecent  = `\recent`
)

func lowerAll(fs []string) []string {
	out := make([]string, len(fs))
	for i, f := range fs {
		out[i] = strings.ToLower(f)
	}
	return out
}

func hasFlagCI(fs []string, name string) bool {
	for _, f := range fs {
		if strings.ToLower(f) == name {
			return true
		}
	}
	return false
}

// sharedSet is the set of shared flags a flag list names (lower-case, without \Deleted); with alias = true naming one
// of $Forwarded / Forwarded names both.
func sharedSet(fs []string, alias bool) map[string]bool {
	s := map[string]bool{}
	for _, f := range lowerAll(fs) {
		if f == fDeleted {
			continue
		}
		s[f] = true
	}
	if alias && (s["$forwarded"] || s["forwarded"]) {
		s["$forwarded"] = true
		s["forwarded"] = true
	}
	return s
}

func (m *model) entFlags(ent int) map[string]bool {
	fs := m.Flags[ent]
	if fs == nil {
		fs = map[string]bool{}
		m.Flags[ent] = fs
	}
	return fs
}

func (m *model) flagList(ent int) []string {
	var out []string
	for f := range m.Flags[ent] {
		out = append(out, f)
	}
	sort.Strings(out)
	return out
}

// oAppend: one APPEND; returns false (NO, nothing changes) if the mailbox does not exist.
func (m *model) oAppend(box string, flags []string) bool {
	b := m.box(box)
	if b == nil || hasFlagCI(flags, fRecent) {
		return false
	}
	m.NEnt++
	b.Last++
	b.Ents = append(b.Ents, entry{UID: b.Last, Ent: m.NEnt, Del: hasFlagCI(flags, fDeleted)})
	m.Flags[m.NEnt] = sharedSet(flags, false)
	return true
}

// oStore: act is "+", "-" or "=".
func (m *model) oStore(b *mbox, act string, flags []string, targets []int) {
	fs := sharedSet(flags, true)
	del := hasFlagCI(flags, fDeleted)
	for _, t := range targets {
		cur := m.entFlags(t)
		i := b.find(t)
		switch act {
		case "+":
			for f := range fs {
				cur[f] = true
			}
			if del && i >= 0 {
				b.Ents[i].Del = true
			}
		case "-":
			for f := range fs {
				delete(cur, f)
			}
			if del && i >= 0 {
				b.Ents[i].Del = false
			}
		case "=":
			n := map[string]bool{}
			for f := range fs {
				n[f] = true
			}
			m.Flags[t] = n
			if i >= 0 {
				b.Ents[i].Del = del
			}
		}
	}
}

// oExpunge removes the \Deleted entries of b that the acting session sees (sees reports whether the session's view
// shows the entity of the entry; for UID EXPUNGE: within the UID set).
func (m *model) oExpunge(b *mbox, sees func(e entry) bool) {
	var out []entry
	for _, e := range b.Ents {
		if e.Del && (sees == nil || sees(e)) {
			continue
		}
		out = append(out, e)
	}
	b.Ents = out
}

func (m *model) oCopy(d *mbox, targets []int) {
	for _, t := range targets {
		d.removeEnts(map[int]bool{t: true})
		d.Last++
		d.Ents = append(d.Ents, entry{UID: d.Last, Ent: t})
	}
}

func (m *model) oMove(b, d *mbox, targets []int) {
	var moved []int
	set := map[int]bool{}
	for _, t := range targets {
		if b.find(t) >= 0 && !set[t] {
			moved = append(moved, t)
			set[t] = true
		}
	}
	b.removeEnts(set)
	d.removeEnts(set) // b == d: already gone
	for _, t := range moved {
		d.Last++
		d.Ents = append(d.Ents, entry{UID: d.Last, Ent: t})
	}
}

// ---- observed rows and comparison ----

type orow struct {
	Seq, UID, Ent int
	Del           bool
	Flags         []string // lower-case, sorted, without \recent and \deleted
}

type boxObs struct {
	Rows []orow
	Err  string // the mailbox could not be read (tagged NO of the FETCH, ...)
}

func flagsEq(a, b []string) bool {
	if len(a) != len(b) {
		return false
	}
	for i := range a {
		if a[i] != b[i] {
			return false
		}
	}
	return true
}

func entName(e int) string {
	if e <= 0 {
		return "m?"
	}
	return fmt.Sprintf("m%d", e)
}

func renderEnts(es []int) string {
	if len(es) > 8 {
		p := make([]string, 0, 5)
		for _, e := range es[:3] {
			p = append(p, entName(e))
		}
		p = append(p, "..", entName(es[len(es)-1]))
		return fmt.Sprintf("%d[%s]", len(es), strings.Join(p, " "))
	}
	p := make([]string, len(es))
	for i, e := range es {
		p[i] = entName(e)
	}
	return "[" + strings.Join(p, " ") + "]"
}

// diffModel compares the fresh content of every mailbox with the model; returns the kind of the first difference
// ("" if none) and a short deterministic description.
func diffModel(obs map[string]boxObs, m *model) (string, string) {
	for _, b := range m.Boxes {
		o := obs[b.Name]
		if o.Err != "" {
			return "unreadable", fmt.Sprintf("%s unreadable (%s)", b.Name, o.Err)
		}
		got := make([]int, len(o.Rows))
		for i, r := range o.Rows {
			got[i] = r.Ent
		}
		want := make([]int, len(b.Ents))
		for i, e := range b.Ents {
			want[i] = e.Ent
		}
		same := len(got) == len(want)
		if same {
			for i := range got {
				if got[i] != want[i] {
					same = false
					break
				}
			}
		}
		if !same {
			return "members", fmt.Sprintf("%s holds %s want %s", b.Name, renderEnts(got), renderEnts(want))
		}
		for i, r := range o.Rows {
			if r.UID != b.Ents[i].UID {
				return "uid", fmt.Sprintf("%s uid of %s %d want %d", b.Name, entName(r.Ent), r.UID, b.Ents[i].UID)
			}
		}
		for i, r := range o.Rows {
			if r.Del != b.Ents[i].Del {
				return "deleted", fmt.Sprintf("%s \\Deleted of %s %v want %v", b.Name, entName(r.Ent), r.Del, b.Ents[i].Del)
			}
		}
		for _, r := range o.Rows {
			w := m.flagList(r.Ent)
			if !flagsEq(r.Flags, w) {
				return "flags", fmt.Sprintf("%s flags of %s [%s] want [%s]", b.Name, entName(r.Ent), strings.Join(r.Flags, " "), strings.Join(w, " "))
			}
		}
	}
	return "", ""
}
