(* C15 — SEARCH returns exactly the messages of the session's view that match.
   Property theorems only; every proof is `exact <lemma>` followed by Print Assumptions.
   `search` is the Impl model of internal/state/mailbox_search.go (Model/SearchImpl.v: key tree compiled into
   closures with short-circuit and error propagation, one result slot per snapshot position, zero filtering);
   `eval` is the denotation of a key tree on one message (Model/SearchSpec.v).  `snap` is the SESSION's snapshot:
   its own sequence numbers, UIDs and flags; a message expunged by another session is still in it until the
   session has been told, and is searched like any other (C15_uses_session_view). *)
From Coq Require Import List NArith Bool String.
From Gluon Require Import Model.SeqSet Proofs.SeqSetProofs Model.SearchSpec Model.SearchImpl Proofs.SearchProofs.
Import ListNotations.
Open Scope N_scope.

(* Main statement: when nothing forces a refusal (no_error: no key requires BAD and every message the keys need
   can be read), SEARCH / UID SEARCH return, in view order, the numbers of exactly the messages of the view on
   which the key tree evaluates to true. *)
Theorem C15_compile_correct : forall uidmode keys snap, wf_snap snap -> no_error keys snap ->
  search uidmode keys snap =
  ROk (map (mapfn_of uidmode) (filter (eval (snap_cnt snap) (snap_uids snap) (KList keys)) snap)).
Proof. exact search_no_error. Qed.
Print Assumptions C15_compile_correct.

(* Complete characterisation, including the refusals. *)
Theorem C15_search_total : forall uidmode keys snap, wf_snap snap ->
  search uidmode keys snap =
  if key_bad (snap_cnt snap) (KList keys) then RBad
  else if existsb (msg_unreadable (KList keys)) snap then RNo
  else ROk (map (mapfn_of uidmode) (sel_of keys snap)).
Proof. exact search_correct. Qed.
Print Assumptions C15_search_total.

(* ascending order, no duplicates *)
Theorem C15_ascending_nodup : forall uidmode keys snap l, wf_snap snap ->
  search uidmode keys snap = ROk l -> srt l /\ NoDup l.
Proof. exact search_ascending. Qed.
Print Assumptions C15_ascending_nodup.

(* UID SEARCH returns the UIDs of the same messages (and is refused exactly when SEARCH is) *)
Theorem C15_uid_search_same_messages : forall keys snap, wf_snap snap ->
  match search false keys snap with
  | ROk ls => ls = map m_seq (sel_of keys snap) /\ search true keys snap = ROk (map m_uid (sel_of keys snap))
  | r => search true keys snap = r
  end.
Proof. exact search_uid_same. Qed.
Print Assumptions C15_uid_search_same_messages.

(* Boolean structure, on the result SETS *)
Theorem C15_not_is_complement : forall uidmode k snap l, wf_snap snap ->
  search uidmode [KNot k] snap = ROk l ->
  exists l', search uidmode [k] snap = ROk l' /\
             forall p, In p l <-> In p (map (mapfn_of uidmode) snap) /\ ~ In p l'.
Proof. exact search_not. Qed.
Print Assumptions C15_not_is_complement.

Theorem C15_or_is_union : forall uidmode a b snap l, wf_snap snap ->
  search uidmode [KOr a b] snap = ROk l ->
  exists la lb, search uidmode [a] snap = ROk la /\ search uidmode [b] snap = ROk lb /\
                forall p, In p l <-> In p la \/ In p lb.
Proof. exact search_or. Qed.
Print Assumptions C15_or_is_union.

Theorem C15_juxtaposition_is_intersection : forall uidmode k1 k2 snap l, wf_snap snap ->
  search uidmode (k1 ++ k2) snap = ROk l ->
  exists l1 l2, search uidmode k1 snap = ROk l1 /\ search uidmode k2 snap = ROk l2 /\
                forall p, In p l <-> In p l1 /\ In p l2.
Proof. exact search_and. Qed.
Print Assumptions C15_juxtaposition_is_intersection.

Theorem C15_parenthesised_list : forall uidmode ks snap, wf_snap snap ->
  search uidmode [KList ks] snap = search uidmode ks snap.
Proof. exact search_paren. Qed.
Print Assumptions C15_parenthesised_list.

(* the session's view is what is searched: every message it holds is reported iff it satisfies the keys *)
Theorem C15_uses_session_view : forall uidmode keys snap m, wf_snap snap -> no_error keys snap -> In m snap ->
  exists l, search uidmode keys snap = ROk l /\
            (In (mapfn_of uidmode m) l <-> eval (snap_cnt snap) (snap_uids snap) (KList keys) m = true).
Proof. exact search_uses_view. Qed.
Print Assumptions C15_uses_session_view.

(* refusals: BAD exactly when a key of the tree requires it; a sequence number beyond the view always does *)
Theorem C15_bad_iff : forall uidmode keys snap, wf_snap snap ->
  (search uidmode keys snap = RBad <-> key_bad (snap_cnt snap) (KList keys) = true).
Proof. exact search_bad_iff. Qed.
Print Assumptions C15_bad_iff.

Theorem C15_seq_beyond_view_requires_BAD : forall cnt s r n, In r s ->
  (fst r = WNum n \/ snd r = WNum n) -> cnt < n -> leaf_bad cnt (LSeqSet s) = true.
Proof. exact key_bad_seq_beyond. Qed.
Print Assumptions C15_seq_beyond_view_requires_BAD.

(* non-vacuity: a view of three messages (UIDs 2,5,9; the second one flagged \Seen, Date: unparsable on the third) *)
Definition ex_msg (seq uid : N) (fl : list bytes) (sent : option N) (subj : string) : msgdata :=
  mkMsg seq uid fl 100 738000 sent [(bs "Subject", bs subj); (bs "X-Tag", bs "one"); (bs "x-tag", bs "two")]
        (bs "body") (bs "text") true true true.
Definition ex_snap : list msgdata :=
  [ex_msg 1 2 [] (Some 738000) "Hello"; ex_msg 2 5 [f_seen] (Some 738005) "hello again"; ex_msg 3 9 [f_recent] None "bye"].

Example C15_example_hypotheses : wf_snap ex_snap /\
  no_error [KOr (KLeaf LSeen) (KNot (KLeaf (LSubject (bs "HELLO")))); KLeaf (LSeqSet [(WNum 2, WStar)])] ex_snap.
Proof. vm_compute. repeat split. Qed.

Example C15_example_results :
  search false [KOr (KLeaf LSeen) (KNot (KLeaf (LSubject (bs "HELLO")))); KLeaf (LSeqSet [(WNum 2, WStar)])] ex_snap
    = ROk [2; 3]
  /\ search true [KLeaf (LSentSince 738000)] ex_snap = ROk [2; 5]
  /\ search false [KNot (KLeaf (LSentSince 738000))] ex_snap = ROk [3]
  /\ search false [KLeaf (LHeader (bs "X-TAG") (bs "two"))] ex_snap = ROk [1; 2; 3]
  /\ search false [KLeaf (LHeader (bs "X-Other") [])] ex_snap = ROk []
  /\ search false [KLeaf (LSeqSet [(WNum 4, WNum 4)])] ex_snap = RBad
  /\ search false [KNot (KLeaf (LSeqSet [(WNum 4294967297, WNum 4294967297)]))] ex_snap = RBad.
Proof. vm_compute. repeat split. Qed.
