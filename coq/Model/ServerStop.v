(* C19 — Server.Close and the sessions, with and without a state.
   Models server.go (Server.Close: close(serveDoneCh); serveWG.Wait(); backend.Close — Server.serve: returns on serveDoneCh,
   its deferred conn.Close() calls then close every accepted connection), internal/session/session.go (Session.serve ends
   when the command reader's channel is closed — the reader ends on a read error —, on state.Done(), or on LOGOUT /
   disconnect by the client; Session.done) and the part of backend.Close that matters here (user.closeStates signals every
   state; statesWG.Wait waits for the sessions that own one; detailed in Model/Teardown.v).
   A session is Stateful (its client logged in: authenticated, selected, idling) or Stateless (connected but not logged
   in: not authenticated, or in the middle of the literal of its LOGIN).  The CLIENT may go away at any time, but need
   not: the properties below never rely on it.  Whether serve closes the accepted connections when it returns is a
   parameter `closes`; the theorems instantiate it with the fact extracted from the source (Gen/FactsServe.v).
   No proofs in this file. *)
From Coq Require Import List Arith Bool.
Import ListNotations.

Inductive skind := Stateless | Stateful.

Record ssn := mkSsn {
  sk : skind;
  serving : bool;        (* the session goroutine (with its command reader and event goroutine) is alive *)
  conn_closed : bool;    (* the server has closed the connection *)
  sig : bool;            (* its state's done channel has been closed (Stateful only) *)
  client_gone : bool }.  (* the client disconnected or logged out *)

Inductive pphase :=
| P0   (* Close called: about to close(serveDoneCh) *)
| P1   (* serve is returning: its deferred closes run; serveWG.Wait() *)
| P2   (* backend.Close: closeStates *)
| P3   (* backend.Close: statesWG.Wait() ... *)
| P4.  (* Close has returned *)

Definition pidx (p : pphase) : nat := match p with P0 => 0 | P1 => 1 | P2 => 2 | P3 => 3 | P4 => 4 end.

Record sst := mkSst { sessions : list ssn; phase : pphase }.

Inductive slabel :=
| SClientGone (i : nat)   (* environment: the client of session i goes away *)
| SEnd (i : nat)          (* session i leaves its loop and winds down (Session.done) *)
| SCloser.                (* Server.Close takes its next action *)

Definition server_side (l : slabel) : bool := match l with SClientGone _ => false | _ => true end.

Definition is_stateful (x : ssn) : bool := match sk x with Stateful => true | Stateless => false end.

(* what lets a session leave its loop *)
Definition can_end (x : ssn) : bool := conn_closed x || (is_stateful x && sig x) || client_gone x.

Fixpoint upd_nth (i : nat) (x : ssn) (l : list ssn) : list ssn :=
  match l, i with
  | [], _ => []
  | _ :: t, O => x :: t
  | y :: t, S k => y :: upd_nth k x t
  end.

Definition close_all (l : list ssn) : list ssn :=
  map (fun x => mkSsn (sk x) (serving x) true (sig x) (client_gone x)) l.
Definition signal_stateful (l : list ssn) : list ssn :=
  map (fun x => mkSsn (sk x) (serving x) (conn_closed x) (sig x || is_stateful x) (client_gone x)) l.
Definition stateful_all_ended (l : list ssn) : bool :=
  forallb (fun x => negb (is_stateful x && serving x)) l.

Definition sstep (closes : bool) (s : sst) (l : slabel) : option sst :=
  match l with
  | SClientGone i =>
      match nth_error (sessions s) i with
      | Some x => Some (mkSst (upd_nth i (mkSsn (sk x) (serving x) (conn_closed x) (sig x) true) (sessions s)) (phase s))
      | None => None end
  | SEnd i =>
      match nth_error (sessions s) i with
      | Some x => if serving x && can_end x
                  then Some (mkSst (upd_nth i (mkSsn (sk x) false (conn_closed x) (sig x) (client_gone x)) (sessions s)) (phase s))
                  else None
      | None => None end
  | SCloser =>
      match phase s with
      | P0 => Some (mkSst (sessions s) P1)
      | P1 => Some (mkSst (if closes then close_all (sessions s) else sessions s) P2)
      | P2 => Some (mkSst (signal_stateful (sessions s)) P3)
      | P3 => if stateful_all_ended (sessions s) then Some (mkSst (sessions s) P4) else None
      | P4 => None
      end
  end.

Fixpoint srun (closes : bool) (s : sst) (tr : list slabel) : option sst :=
  match tr with
  | [] => Some s
  | l :: t => match sstep closes s l with Some s' => srun closes s' t | None => None end
  end.

(* any mix of sessions, all alive, nothing signalled yet *)
Definition sinit (ks : list skind) : sst := mkSst (map (fun k => mkSsn k true false false false) ks) P0.

Definition sreachable (closes : bool) (ks : list skind) (s : sst) : Prop := exists tr, srun closes (sinit ks) tr = Some s.

Definition returned (s : sst) : bool := match phase s with P4 => true | _ => false end.

(* no server-side step is possible: what is still alive now stays alive until a client acts *)
Definition quiescent (closes : bool) (s : sst) : Prop :=
  forall l, server_side l = true -> sstep closes s l = None.

Definition none_left (s : sst) : bool := forallb (fun x => negb (serving x)) (sessions s).
