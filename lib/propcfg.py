# per-property configuration of bin/check
CFG = {
    "C16": {
        "run_modules": ["RunC16"],
        "trusted": [
            "Model/SeqSet.v models ParseNumber/ParseNZNumber/ParseSeqNumber/ParseSeqRange and snapMsgList.resolve*/getMessagesIn*Range/uidRange and snapshot.getMessagesInRange (dedup); slices.BinarySearchFunc is modelled as lower_bound on an ascending list",
            "hypotheses of the theorems: view size < 2^32 (snapshot lengths are uint32-bounded), UIDs strictly ascending (C01_snapshot_sorted)",
        ],
        "assumptions": ["the handlers map ErrNoSuchMessage and parser errors to BAD (checked on the wire by the harness)"],
    },
}
