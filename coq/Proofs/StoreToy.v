(* C09 — a small concrete instance of the abstract cipher / compressor of Model/StoreFrame.v.
   Purpose: (1) the assumptions bundled in [store_assumptions] are satisfiable (non-vacuity of the C09 theorems);
            (2) they do NOT imply that every altered file is rejected: blocks sealed under one nonce without
                additional data can be dropped when block boundaries coincide with boundaries inside the frame.
   toy cipher:  seal k [x] p = (2*b for b in p) ++ [2*(|p| + k + x) + 1]     (payload even, tag odd; overhead 1)
   toy frame :  compress d   = (1 :: b for b in d) ++ [0]                    (one "block" per byte, end mark 0) *)
From Coq Require Import List NArith Arith Bool Lia.
From Gluon Require Import Model.StoreFrame Proofs.StoreFrameProofs.
Import ListNotations.
Local Open Scope N_scope.

Definition toy_tag (k : N) (n : bytes) (len : nat) : N := 2 * (N.of_nat len + k + @hd N 0 n) + 1.
Definition toy_seal (k : N) (n p : bytes) : bytes := map (fun b => 2 * b) p ++ [toy_tag k n (length p)].
Definition toy_open (k : N) (n c : bytes) : option bytes :=
  match rev c with
  | [] => None
  | tg :: rp =>
      let body := rev rp in
      if (tg =? toy_tag k n (length body)) && forallb N.even body then Some (map (fun b => b / 2) body) else None
  end.

Definition toy_compress (d : bytes) : bytes := concat (map (fun b => [1; b]) d) ++ [0].
Fixpoint toy_dec_aux (s : bytes) (acc : bytes) : dres :=
  match s with
  | [] => DMore
  | t :: r =>
      if t =? 0 then DDone (rev acc)
      else if t =? 1 then match r with [] => DMore | b :: r' => toy_dec_aux r' (b :: acc) end
      else DBad
  end.
Definition toy_dec (s : bytes) : dres := toy_dec_aux s [].

Lemma halve_double : forall p, map (fun b => b / 2) (map (fun b => 2 * b) p) = p.
Proof.
  induction p as [|x p IH]; [reflexivity|]. cbn [map]. rewrite IH. f_equal.
  rewrite N.mul_comm. apply N.div_mul. discriminate.
Qed.

Lemma double_even : forall p, forallb N.even (map (fun b => 2 * b) p) = true.
Proof.
  induction p as [|x p IH]; [reflexivity|]. cbn [map forallb]. rewrite IH, N.even_mul. reflexivity.
Qed.

Lemma toy_open_seal : forall k n p, toy_open k n (toy_seal k n p) = Some p.
Proof.
  intros. unfold toy_open, toy_seal. rewrite rev_app_distr. cbn [rev app]. rewrite rev_involutive.
  rewrite map_length, N.eqb_refl, double_even. cbn [andb]. rewrite halve_double. reflexivity.
Qed.

Lemma toy_seal_length : forall k n p, length (toy_seal k n p) = (length p + 1)%nat.
Proof. intros. unfold toy_seal. rewrite app_length, map_length. reflexivity. Qed.

Lemma tag_odd : forall k n len x, (2 * x =? toy_tag k n len) = false.
Proof. intros. apply N.eqb_neq. unfold toy_tag. generalize (@hd N 0 n). intros z. lia. Qed.

(* a non-empty strict prefix of a sealed block ends in an even number, a tag is odd *)
Lemma toy_open_truncated : forall k n p c t, c <> [] -> t <> [] -> c ++ t = toy_seal k n p -> toy_open k n c = None.
Proof.
  intros k n p c t Hc Ht Heq. unfold toy_seal in Heq. unfold bytes, byte in *.
  assert (Hlen : (length c <= length p)%nat).
  { apply (f_equal (@length N)) in Heq. rewrite !app_length, map_length in Heq. cbn [length] in Heq.
    destruct t; [congruence|]. cbn [length] in Heq. lia. }
  assert (Hpre : c = firstn (length c) (map (fun b => 2 * b) p)).
  { apply (f_equal (firstn (length c))) in Heq.
    rewrite firstn_app, Nat.sub_diag, firstn_O, app_nil_r, firstn_all in Heq.
    rewrite firstn_app in Heq. rewrite map_length in Heq.
    replace (length c - length p)%nat with 0%nat in Heq by lia. rewrite firstn_O, app_nil_r in Heq. exact Heq. }
  assert (Hall : forall x, In x c -> exists y, x = 2 * y).
  { intros x Hin. rewrite Hpre in Hin.
    assert (Hin2 : In x (map (fun b => 2 * b) p)).
    { rewrite <- (firstn_skipn (length c) (map (fun b => 2 * b) p)). apply in_or_app. left. exact Hin. }
    clear Hin. rename Hin2 into Hin.
    apply in_map_iff in Hin. destruct Hin as (y & Hy & _). exists y. congruence. }
  unfold toy_open. unfold bytes, byte in *. destruct (rev c) as [|tg rp] eqn:Hr.
  - reflexivity.
  - assert (Hin : In tg c). { apply in_rev. rewrite Hr. left. reflexivity. }
    destruct (Hall _ Hin) as (y & ->). rewrite tag_odd. reflexivity.
Qed.

Lemma toy_open_other_key : forall k k' n p, k <> k' -> toy_open k' n (toy_seal k n p) = None.
Proof.
  intros. unfold toy_open, toy_seal. rewrite rev_app_distr. cbn [rev app]. rewrite rev_involutive, map_length.
  unfold bytes, byte in *.
  assert (E : (toy_tag k n (length p) =? toy_tag k' n (length p)) = false).
  { apply N.eqb_neq. unfold toy_tag. generalize (@hd N 0 n). intros z. lia. }
  rewrite E. reflexivity.
Qed.

Lemma toy_open_other_nonce : forall k n n' p, length n = 1%nat -> length n' = 1%nat -> n <> n' ->
  toy_open k n' (toy_seal k n p) = None.
Proof.
  intros k n n' p Hn Hn' Hne. unfold toy_open, toy_seal. rewrite rev_app_distr. cbn [rev app].
  rewrite rev_involutive, map_length.
  unfold bytes, byte in *.
  assert (E : (toy_tag k n (length p) =? toy_tag k n' (length p)) = false).
  { apply N.eqb_neq. unfold toy_tag.
    destruct n as [|x [|? ?]]; try discriminate. destruct n' as [|y [|? ?]]; try discriminate.
    cbn [hd]. assert (x <> y) by congruence. lia. }
  rewrite E. reflexivity.
Qed.

Lemma toy_dec_aux_complete0 : forall d acc t,
  toy_dec_aux (concat (map (fun b => [1; b]) d) ++ 0 :: t) acc = DDone (rev acc ++ d).
Proof.
  induction d as [|x d IH]; intros acc t.
  - cbn. rewrite app_nil_r. reflexivity.
  - cbn [map concat app]. cbn [toy_dec_aux N.eqb Pos.eqb].
    rewrite IH. cbn [rev]. rewrite <- app_assoc. reflexivity.
Qed.

Lemma toy_dec_aux_complete : forall d acc t,
  toy_dec_aux (toy_compress d ++ t) acc = DDone (rev acc ++ d).
Proof.
  intros. unfold toy_compress. rewrite <- app_assoc. cbn [app]. apply toy_dec_aux_complete0.
Qed.

Lemma toy_dec_aux_prefix : forall d p t acc, t <> [] -> p ++ t = toy_compress d -> toy_dec_aux p acc = DMore.
Proof.
  induction d as [|x d IH]; intros p t acc Ht Heq.
  - unfold toy_compress in Heq. cbn [map concat app] in Heq. destruct p as [|a p]; [reflexivity|].
    cbn [app] in Heq. injection Heq as Ha Hp. apply app_eq_nil in Hp. destruct Hp as [_ Hp]. contradiction.
  - unfold toy_compress in *. cbn [map concat app] in Heq.
    destruct p as [|a p]; [reflexivity|]. cbn [app] in Heq. inversion Heq as [[Ha Hrest]]. subst a.
    cbn [toy_dec_aux N.eqb Pos.eqb].
    destruct p as [|b p]; [reflexivity|]. cbn [app] in Hrest. inversion Hrest as [[Hb Hrest']]. subst b.
    apply (IH p t); auto.
Qed.

Theorem toy_assumptions : store_assumptions N toy_seal toy_open toy_compress toy_dec 2 1 1.
Proof.
  constructor.
  - exact toy_open_seal.
  - exact toy_seal_length.
  - exact toy_open_truncated.
  - exact toy_open_other_key.
  - exact toy_open_other_nonce.
  - intros d t. unfold toy_dec. rewrite toy_dec_aux_complete. reflexivity.
  - intros d. unfold toy_compress. destruct (concat (map (fun b => [1; b]) d)); discriminate.
  - intros d p t Ht Heq. unfold toy_dec. apply (toy_dec_aux_prefix d p t); auto.
Qed.

(* ---- the witness: dropping a sealed block whose boundaries coincide with boundaries inside the frame ---- *)
Definition toy_hdr : bytes := [71; 76].
Definition toy_file (k : N) (n d : bytes) : bytes := write_file N toy_seal toy_compress toy_hdr 2 k n d.
Definition toy_read (k : N) (f : bytes) : rres := read_file N toy_open toy_dec toy_hdr 2 1 1 k f.

(* content [5;6;7]: frame 1 5 1 6 1 7 0, blocks [1 5] [1 6] [1 7] [0]; the altered file lacks the second sealed block *)
Definition toy_altered (k : N) (n : bytes) : bytes :=
  toy_hdr ++ n ++ toy_seal k n [1; 5] ++ toy_seal k n [1; 7] ++ toy_seal k n [0].

Lemma toy_splice_witness :
  toy_file 3 [9] [5; 6; 7] = toy_hdr ++ [9] ++ toy_seal 3 [9] [1; 5] ++ toy_seal 3 [9] [1; 6]
                               ++ toy_seal 3 [9] [1; 7] ++ toy_seal 3 [9] [0]
  /\ toy_read 3 (toy_file 3 [9] [5; 6; 7]) = ROk [5; 6; 7]
  /\ toy_read 3 (toy_altered 3 [9]) = ROk [5; 7].
Proof. vm_compute. repeat split. Qed.
