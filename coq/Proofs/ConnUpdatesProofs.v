(* Lemmas about the connector-update model (C06). *)
From Coq Require Import List NArith Bool Lia.
From Gluon Require Import Model.ConnUpdates.
Import ListNotations.
Open Scope N_scope.

(* ---------- generic list facts ---------- *)
Lemma cu_mem_In : forall x l, cu_mem x l = true <-> In x l.
Proof.
  intros x l. unfold cu_mem. rewrite existsb_exists. split.
  - intros [y [Hy He]]. apply N.eqb_eq in He. subst. exact Hy.
  - intros H. exists x. split; [exact H | apply N.eqb_refl].
Qed.

Lemma cu_mem_false : forall x l, cu_mem x l = false <-> ~ In x l.
Proof.
  intros x l. rewrite <- cu_mem_In. destruct (cu_mem x l); split; intros H.
  - discriminate.
  - exfalso. apply H. reflexivity.
  - intros H1. discriminate.
  - reflexivity.
Qed.

Lemma map_id_on : forall {A} (f : A -> A) l, (forall x, In x l -> f x = x) -> map f l = l.
Proof.
  intros A f l. induction l as [|a t IH]; intros H; cbn [map]; [reflexivity|].
  rewrite (H a (or_introl eq_refl)). rewrite IH; [reflexivity|]. intros x Hx. apply H. right. exact Hx.
Qed.

Lemma filter_all : forall {A} (f : A -> bool) l, (forall x, In x l -> f x = true) -> filter f l = l.
Proof.
  intros A f l. induction l as [|a t IH]; intros H; cbn [filter]; [reflexivity|].
  rewrite (H a (or_introl eq_refl)). rewrite IH; [reflexivity|]. intros x Hx. apply H. right. exact Hx.
Qed.

Lemma filter_none : forall {A} (f : A -> bool) l, (forall x, In x l -> f x = false) -> filter f l = [].
Proof.
  intros A f l. induction l as [|a t IH]; intros H; cbn [filter]; [reflexivity|].
  rewrite (H a (or_introl eq_refl)). apply IH. intros x Hx. apply H. right. exact Hx.
Qed.

Lemma existsb_false : forall {A} (f : A -> bool) l, (forall x, In x l -> f x = false) -> existsb f l = false.
Proof.
  intros A f l H. destruct (existsb f l) eqn:E; [|reflexivity].
  apply existsb_exists in E. destruct E as [x [Hx Hf]]. rewrite (H x Hx) in Hf. discriminate.
Qed.

Lemma in_dedup : forall x l, In x (cu_dedup l) <-> In x l.
Proof.
  intros x l. induction l as [|a t IH]; [tauto|].
  cbn [cu_dedup]. destruct (cu_mem a t) eqn:E.
  - rewrite IH. cbn [In]. split; [tauto|]. intros [H|H]; [|exact H]. subst. apply cu_mem_In. exact E.
  - cbn [In]. rewrite IH. tauto.
Qed.

Lemma cu_dedup_mem : forall x l, cu_mem x (cu_dedup l) = cu_mem x l.
Proof. intros x l. apply Bool.eq_true_iff_eq. rewrite !cu_mem_In. apply in_dedup. Qed.

(* ---------- record eta ---------- *)
Lemma cu_with_mb_id : forall s, cu_with_mb s (st_mb s) = s. Proof. intros []; reflexivity. Qed.
Lemma cu_with_ms_id : forall s, cu_with_ms s (st_ms s) = s. Proof. intros []; reflexivity. Qed.
Lemma cu_with_me_id : forall s, cu_with_me s (st_me s) = s. Proof. intros []; reflexivity. Qed.

(* ---------- well-formed relational states (what the UNIQUE constraints and foreign keys maintain) ---------- *)
Record cu_wf (s : cu_state) : Prop := mkWf {
  wf_mb_id : forall m, In m (st_mb s) -> cu_find_mb_id s (mb_id m) = Some m;
  wf_mb_rid : forall m, In m (st_mb s) -> cu_find_mb_rid s (mb_rid m) = Some m;
  wf_ms_id : forall m, In m (st_ms s) -> cu_find_ms_id s (ms_id m) = Some m;
  wf_ms_rid : forall m r, In m (st_ms s) -> ms_rid m = Some r -> cu_find_ms_rid s r = Some m;
  wf_me : forall x, In x (st_me s) -> exists m, In m (st_ms s) /\ ms_id m = me_ms x /\ ms_rid m = Some (me_rid x)
}.

Lemma find_mb_rid_spec : forall s rid m, cu_find_mb_rid s rid = Some m -> In m (st_mb s) /\ mb_rid m = rid.
Proof. intros s rid m H. apply find_some in H. destruct H as [H1 H2]. apply N.eqb_eq in H2. auto. Qed.
Lemma find_mb_id_spec : forall s id m, cu_find_mb_id s id = Some m -> In m (st_mb s) /\ mb_id m = id.
Proof. intros s rid m H. apply find_some in H. destruct H as [H1 H2]. apply N.eqb_eq in H2. auto. Qed.
Lemma find_ms_id_spec : forall s id m, cu_find_ms_id s id = Some m -> In m (st_ms s) /\ ms_id m = id.
Proof. intros s rid m H. apply find_some in H. destruct H as [H1 H2]. apply N.eqb_eq in H2. auto. Qed.
Lemma rid_is_spec : forall r x, cu_rid_is r x = true <-> r = Some x.
Proof.
  intros [y|] x; cbn [cu_rid_is]; split; intros H; try discriminate.
  - apply N.eqb_eq in H. subst. reflexivity.
  - injection H as H. subst. apply N.eqb_refl.
Qed.
Lemma find_ms_rid_spec : forall s rid m, cu_find_ms_rid s rid = Some m -> In m (st_ms s) /\ ms_rid m = Some rid.
Proof. intros s rid m H. apply find_some in H. destruct H as [H1 H2]. apply rid_is_spec in H2. auto. Qed.

(* ---------- "the update only restates the current state" ---------- *)
Definition cu_flags_same (cur want : list N) : Prop := forall f, cu_mem f want = cu_mem f cur.
Definition cu_same_set (a b : list N) : Prop := forall x, cu_mem x a = cu_mem x b.

Definition cu_item_present (s : cu_state) (ignore : bool) (it : cu_item) : Prop :=
  cu_mem cu_recovery_rid (it_mboxes it) = false ->
  exists m, cu_find_ms_rid s (it_rid it) = Some m /\
    forall r, In r (it_mboxes it) ->
      match cu_find_mb_rid s r with
      | Some b => cu_in_mailbox s (mb_id b) (ms_id m) = true
      | None => ignore = true
      end.

Definition cu_restates (s : cu_state) (u : cu_update) : Prop :=
  match u with
  | UNoop => True
  | UMailboxCreated rid _ _ _ _ => rid <> cu_recovery_rid /\ cu_find_mb_rid s rid <> None
  | UMailboxDeleted rid => rid <> cu_recovery_rid /\ cu_find_mb_rid s rid = None
  | UMailboxUpdated rid name =>
      rid <> cu_recovery_rid /\
      (cu_find_mb_rid s rid = None \/ exists m, cu_find_mb_rid s rid = Some m /\ mb_name m = cu_canon_name name)
  | UMailboxIDChanged iid rid =>
      rid <> cu_recovery_rid /\ exists m, cu_find_mb_id s iid = Some m /\ mb_rid m = rid
  | UMessagesCreated ignore items => forall it, In it items -> cu_item_present s ignore it
  | UMessageMailboxesUpdated rid mboxes flags =>
      cu_mem cu_recovery_rid mboxes = false /\
      exists m, cu_find_ms_rid s rid = Some m /\ cu_same_set (cu_translate s mboxes) (cu_ms_mailboxes s (ms_id m))
                /\ cu_flags_same (ms_flags m) flags
  | UMessageFlagsUpdated rid flags =>
      exists m, cu_find_ms_rid s rid = Some m /\ cu_flags_same (ms_flags m) flags
  | UMessageUpdated rid lit flags mboxes allow =>
      (cu_find_ms_rid s rid = None /\ allow = false) \/
      exists m targets, cu_find_ms_rid s rid = Some m /\ ms_lit m = lit /\ cu_lookup_all s mboxes = Some targets /\
                        cu_same_set targets (cu_ms_mailboxes s (ms_id m)) /\ cu_flags_same (ms_flags m) flags
  | UMessageDeleted rid => cu_find_ms_rid s rid = None
  | UMessageIDChanged iid rid => exists m, cu_find_ms_id s iid = Some m /\ ms_rid m = Some rid
  | UUIDValidityBumped => False
  end.

(* ---------- no-op lemmas ---------- *)
Lemma set_flags_noop : forall s m want, cu_wf s -> In m (st_ms s) -> cu_flags_same (ms_flags m) want ->
  cu_set_flags s (ms_id m) want = (s, []).
Proof.
  intros s m want W Hin Hsame. unfold cu_set_flags. rewrite (wf_ms_id s W m Hin).
  assert (Hr : filter (fun f => negb (cu_mem f (cu_dedup want))) (ms_flags m) = []).
  { apply filter_none. intros f Hf. rewrite cu_dedup_mem, (Hsame f). apply cu_mem_In in Hf. rewrite Hf. reflexivity. }
  assert (Ha : filter (fun f => negb (cu_mem f (ms_flags m))) (cu_dedup want) = []).
  { apply filter_none. intros f Hf. apply cu_mem_In in Hf. rewrite cu_dedup_mem, (Hsame f) in Hf. rewrite Hf. reflexivity. }
  assert (Hk : filter (fun f => cu_mem f (cu_dedup want)) (ms_flags m) = ms_flags m).
  { apply filter_all. intros f Hf. rewrite cu_dedup_mem, (Hsame f). apply cu_mem_In. exact Hf. }
  rewrite Hr, Ha, Hk. cbn [map app]. f_equal.
  unfold cu_upd_ms. rewrite map_id_on; [apply cu_with_ms_id|].
  intros x Hx. destruct (ms_id x =? ms_id m) eqn:E; [|reflexivity].
  apply N.eqb_eq in E. pose proof (wf_ms_id s W x Hx) as Hfx. rewrite E, (wf_ms_id s W m Hin) in Hfx.
  injection Hfx as Hfx. subst x. rewrite app_nil_r. destruct m; reflexivity.
Qed.

Lemma set_mailboxes_noop : forall s ms rid want, cu_same_set want (cu_ms_mailboxes s ms) ->
  cu_set_mailboxes s ms rid want = Some (s, []).
Proof.
  intros s ms rid want Hs. unfold cu_set_mailboxes.
  rewrite (filter_none (fun mb => negb (cu_mem mb (cu_ms_mailboxes s ms))) want).
  2:{ intros x Hx. apply cu_mem_In in Hx. rewrite (Hs x) in Hx. rewrite Hx. reflexivity. }
  cbn [cu_add_each].
  rewrite (filter_none (fun mb => negb (cu_mem mb want)) (cu_ms_mailboxes s ms)).
  2:{ intros x Hx. apply cu_mem_In in Hx. rewrite <- (Hs x) in Hx. rewrite Hx. reflexivity. }
  reflexivity.
Qed.

(* MessagesCreated: the collection phase creates nothing and only records pairs that are already in place *)
Definition fm_ok (s : cu_state) (fm : list (N * list (N * N))) : Prop :=
  forall mb l, In (mb, l) fm -> forall p, In p l -> cu_in_mailbox s mb (fst p) = true.

Lemma fm_add_ok : forall s fm mb ms rid, fm_ok s fm -> cu_in_mailbox s mb ms = true -> fm_ok s (cu_fm_add fm mb ms rid).
Proof.
  intros s fm. induction fm as [|[k l] t IH]; intros mb ms rid Hok Hin mb' l' Hl p Hp.
  - cbn [cu_fm_add] in Hl. destruct Hl as [Hl|[]]. injection Hl as H1 H2. subst. destruct Hp as [Hp|[]]. subst p. exact Hin.
  - cbn [cu_fm_add] in Hl. destruct (k =? mb) eqn:E.
    + destruct Hl as [Hl|Hl].
      * injection Hl as H1 H2. subst mb'. apply N.eqb_eq in E. subst k.
        destruct (existsb (fun p0 => fst p0 =? ms) l).
        -- subst l'. apply (Hok mb l (or_introl eq_refl) p Hp).
        -- subst l'. apply in_app_or in Hp. destruct Hp as [Hp|[Hp|[]]].
           ++ apply (Hok mb l (or_introl eq_refl) p Hp).
           ++ subst p. exact Hin.
      * apply (Hok mb' l' (or_intror Hl) p Hp).
    + destruct Hl as [Hl|Hl].
      * injection Hl as H1 H2. subst. apply (Hok mb' l' (or_introl eq_refl) p Hp).
      * refine (IH mb ms rid _ Hin mb' l' Hl p Hp). intros a b Hab. apply Hok. right. exact Hab.
Qed.

Lemma mc_mboxes_ok : forall s ignore m rid mbs fm,
  fm_ok s fm ->
  (forall r, In r mbs -> match cu_find_mb_rid s r with
                         | Some b => cu_in_mailbox s (mb_id b) m = true
                         | None => ignore = true end) ->
  exists fm', cu_mc_mboxes s ignore m rid mbs fm = Some fm' /\ fm_ok s fm'.
Proof.
  intros s ignore m rid mbs. induction mbs as [|r t IH]; intros fm Hok H.
  - exists fm. split; [reflexivity|exact Hok].
  - cbn [cu_mc_mboxes]. pose proof (H r (or_introl eq_refl)) as Hr.
    destruct (cu_find_mb_rid s r) as [b|].
    + apply IH; [apply fm_add_ok; assumption|]. intros r' Hr'. apply H. right. exact Hr'.
    + subst ignore. apply IH; [exact Hok|]. intros r' Hr'. apply H. right. exact Hr'.
Qed.

Lemma mc_collect_restated : forall s ignore items a,
  (forall it, In it items -> cu_item_present s ignore it) ->
  a_create a = [] -> a_filter a = [] -> fm_ok s (a_formbox a) ->
  exists a', cu_mc_collect s ignore items a = Some a' /\ a_create a' = [] /\ fm_ok s (a_formbox a').
Proof.
  intros s ignore items. induction items as [|it t IH]; intros a Hp Hc Hf Hok.
  - exists a. auto.
  - cbn [cu_mc_collect]. destruct (cu_mem cu_recovery_rid (it_mboxes it)) eqn:Er.
    + apply IH; auto. intros x Hx. apply Hp. right. exact Hx.
    + destruct (Hp it (or_introl eq_refl) Er) as [m [Hm Hmb]].
      rewrite Hf. cbn [cu_assoc find]. rewrite Hm.
      destruct (mc_mboxes_ok s ignore (ms_id m) (it_rid it) (it_mboxes it) (a_formbox a) Hok Hmb) as [fm' [E1 E2]].
      rewrite E1. apply IH; cbn [a_create a_filter a_formbox]; auto.
      intros x Hx. apply Hp. right. exact Hx.
Qed.

Lemma mc_assign_noop : forall s fm, fm_ok s fm -> cu_mc_assign s fm = Some (s, []).
Proof.
  intros s fm. induction fm as [|[mb l] t IH]; intros Hok; [reflexivity|].
  cbn [cu_mc_assign].
  rewrite (filter_none (fun p => negb (cu_in_mailbox s mb (fst p))) l).
  - apply IH. intros a b Hab. apply Hok. right. exact Hab.
  - intros p Hp. rewrite (Hok mb l (or_introl eq_refl) p Hp). reflexivity.
Qed.

Lemma messages_created_noop : forall s fresh ignore items,
  (forall it, In it items -> cu_item_present s ignore it) ->
  cu_messages_created s fresh ignore items = Some (s, []).
Proof.
  intros s fresh ignore items H. unfold cu_messages_created.
  destruct (mc_collect_restated s ignore items (mkAcc [] [] [] fresh) H eq_refl eq_refl) as [a' [E [Hc Hok]]].
  { intros mb l []. }
  rewrite E, Hc. pose proof (mc_assign_noop s (a_formbox a') Hok) as Ha.
  destruct (a_formbox a') eqn:Ef; [reflexivity|].
  cbn [cu_insert_msgs]. exact Ha.
Qed.

(* ---------- idempotence: an update that restates the state changes nothing and announces nothing ---------- *)
Theorem restated_update_is_noop : forall s e u, cu_wf s -> cu_restates s u ->
  exists sus, cu_apply s e u = (s, AOk, sus) /\ filter cu_visible sus = [].
Proof.
  intros s e u W R. unfold cu_apply. destruct u; cbn [cu_restates] in R.
  - (* MailboxCreated *) destruct R as [R1 R2]. exists []. cbn [cu_tx].
    apply N.eqb_neq in R1. rewrite R1. destruct (cu_find_mb_rid s rid); [auto|contradiction].
  - (* MailboxDeleted *) destruct R as [R1 R2]. exists []. cbn [cu_tx]. apply N.eqb_neq in R1. rewrite R1, R2. auto.
  - (* MailboxUpdated *) destruct R as [R1 R2]. exists []. cbn [cu_tx]. apply N.eqb_neq in R1. rewrite R1.
    destruct R2 as [R2|[m [R2 R3]]]; rewrite R2; [auto|]. rewrite R3, N.eqb_refl. auto.
  - (* MailboxIDChanged *) destruct R as [R1 [m [R2 R3]]]. exists [SuMailboxRid iid rid]. cbn [cu_tx]. rewrite R2.
    destruct (find_mb_id_spec s iid m R2) as [Hin Hid].
    rewrite R3. apply N.eqb_neq in R1. rewrite R1.
    rewrite existsb_false.
    2:{ intros x Hx. destruct (mb_rid x =? rid) eqn:E; [|reflexivity]. apply N.eqb_eq in E.
        pose proof (wf_mb_rid s W x Hx) as H1. pose proof (wf_mb_rid s W m Hin) as H2. rewrite E in H1. rewrite R3 in H2.
        rewrite H1 in H2. injection H2 as H2. subst x. rewrite Hid, N.eqb_refl. reflexivity. }
    split; [|reflexivity]. f_equal. f_equal. rewrite map_id_on; [apply cu_with_mb_id|].
    intros x Hx. destruct (mb_id x =? iid) eqn:E; [|reflexivity]. apply N.eqb_eq in E.
    pose proof (wf_mb_id s W x Hx) as H1. rewrite E, R2 in H1. injection H1 as H1. subst x. rewrite <- R3. destruct m; reflexivity.
  - (* MessagesCreated *) exists []. cbn [cu_tx]. rewrite (messages_created_noop s (e_fresh e) ignore_unknown items R). auto.
  - (* MessageMailboxesUpdated *) destruct R as [R1 [m [R2 [R3 R4]]]]. exists []. cbn [cu_tx]. rewrite R1, R2.
    destruct (find_ms_rid_spec s rid m R2) as [Hin _].
    rewrite (set_mailboxes_noop s (ms_id m) rid _ R3). rewrite (set_flags_noop s m flags W Hin R4). auto.
  - (* MessageFlagsUpdated *) destruct R as [m [R2 R4]]. exists []. cbn [cu_tx]. rewrite R2.
    destruct (find_ms_rid_spec s rid m R2) as [Hin _]. rewrite (set_flags_noop s m flags W Hin R4). auto.
  - (* MessageUpdated *) exists []. cbn [cu_tx]. destruct R as [[R1 R2]|[m [targets [R1 [R2 [R3 [R4 R5]]]]]]].
    + rewrite R1, R2. auto.
    + rewrite R1. destruct (find_ms_rid_spec s rid m R1) as [Hin _]. rewrite R2, N.eqb_refl, R3.
      rewrite (set_flags_noop s m flags W Hin R5). rewrite (set_mailboxes_noop s (ms_id m) rid targets R4). auto.
  - (* MessageDeleted *) exists []. cbn [cu_tx]. rewrite R. auto.
  - (* MessageIDChanged *) destruct R as [m [R1 R2]]. exists [SuMessageRid iid rid]. cbn [cu_tx]. rewrite R1.
    destruct (find_ms_id_spec s iid m R1) as [Hin Hid].
    rewrite existsb_false.
    2:{ intros x Hx. destruct (cu_rid_is (ms_rid x) rid) eqn:E; [|reflexivity]. apply rid_is_spec in E.
        pose proof (wf_ms_rid s W x rid Hx E) as H1. pose proof (wf_ms_rid s W m rid Hin R2) as H2.
        rewrite H1 in H2. injection H2 as H2. subst x. rewrite Hid, N.eqb_refl. reflexivity. }
    rewrite existsb_false.
    2:{ intros x Hx. destruct (me_rid x =? rid) eqn:E; [|reflexivity]. apply N.eqb_eq in E.
        destruct (wf_me s W x Hx) as [m' [Hm' [Hi' Hr']]]. rewrite E in Hr'.
        pose proof (wf_ms_rid s W m' rid Hm' Hr') as H1. pose proof (wf_ms_rid s W m rid Hin R2) as H2.
        rewrite H1 in H2. injection H2 as H2. subst m'. rewrite <- Hi', Hid, N.eqb_refl. reflexivity. }
    split; [|reflexivity]. f_equal. f_equal.
    assert (Hu : cu_upd_ms s iid (fun x => mkMs (ms_id x) (Some rid) (ms_lit x) (ms_flags x) (ms_del x)) = s).
    { unfold cu_upd_ms. rewrite map_id_on; [apply cu_with_ms_id|].
      intros x Hx. destruct (ms_id x =? iid) eqn:E; [|reflexivity]. apply N.eqb_eq in E.
      pose proof (wf_ms_id s W x Hx) as H1. rewrite E, R1 in H1. injection H1 as H1. subst x. rewrite <- R2. destruct m; reflexivity. }
    rewrite Hu. rewrite map_id_on; [apply cu_with_me_id|].
    intros x Hx. destruct (me_ms x =? iid) eqn:E; [|reflexivity]. apply N.eqb_eq in E.
    destruct (wf_me s W x Hx) as [m' [Hm' [Hi' Hr']]].
    pose proof (wf_ms_id s W m' Hm') as H1. rewrite Hi', E, R1 in H1. injection H1 as H1. subst m'.
    rewrite R2 in Hr'. injection Hr' as Hr'. rewrite Hr'. destruct x; reflexivity.
  - (* UIDValidityBumped *) contradiction.
  - (* Noop *) exists []. auto.
Qed.

(* ---------- acknowledgements ---------- *)
Lemma apply_error_unchanged : forall s e u s' sus, cu_apply s e u = (s', AErr, sus) -> s' = s /\ sus = [].
Proof.
  intros s e u s' sus H. unfold cu_apply in H. destruct (cu_tx s e u) as [[s1 l]|].
  - discriminate.
  - injection H as H1 H2. auto.
Qed.

Lemma apply_ok_is_tx : forall s e u s' sus, cu_apply s e u = (s', AOk, sus) <-> cu_tx s e u = Some (s', sus).
Proof.
  intros s e u s' sus. unfold cu_apply. destruct (cu_tx s e u) as [[s1 l]|]; split; intros H; try discriminate.
  - injection H as H1 H2. subst. reflexivity.
  - injection H as H1 H2. subst. reflexivity.
Qed.

Lemma run_acks_length : forall l s, length (snd (cu_run s l)) = length l.
Proof.
  induction l as [|[e u] t IH]; intros s; [reflexivity|].
  cbn [cu_run]. destruct (cu_apply s e u) as [[s1 a] sus]. specialize (IH s1).
  destruct (cu_run s1 t) as [s2 r]. cbn [snd length] in *. rewrite IH. reflexivity.
Qed.

Lemma run_app : forall l1 l2 s, cu_run s (l1 ++ l2) =
  let '(s1, a1) := cu_run s l1 in let '(s2, a2) := cu_run s1 l2 in (s2, a1 ++ a2).
Proof.
  induction l1 as [|[e u] t IH]; intros l2 s.
  - cbn [app cu_run]. destruct (cu_run s l2). reflexivity.
  - cbn [app cu_run]. destruct (cu_apply s e u) as [[s1 a] sus]. rewrite IH.
    destruct (cu_run s1 t) as [s2 r]. destruct (cu_run s2 l2) as [s3 r2]. reflexivity.
Qed.

(* whatever came before (errors included), the acknowledgements of what follows are those of running it from the
   state the prefix left — one per update *)
Lemma run_continues : forall l1 l2 s, exists a2,
  snd (cu_run s (l1 ++ l2)) = snd (cu_run s l1) ++ a2 /\ length a2 = length l2.
Proof.
  intros l1 l2 s. rewrite run_app. destruct (cu_run s l1) as [s1 a1] eqn:E1.
  destruct (cu_run s1 l2) as [s2 a2] eqn:E2. exists a2. split; [reflexivity|].
  pose proof (run_acks_length l2 s1) as H. rewrite E2 in H. exact H.
Qed.

(* ---------- finds over mapped / filtered tables ---------- *)
Lemma find_map_pres : forall {A} (p : A -> bool) (g : A -> A) l, (forall x, p (g x) = p x) ->
  find p (map g l) = option_map g (find p l).
Proof.
  intros A p g l H. induction l as [|a t IH]; [reflexivity|].
  cbn [map find]. rewrite H. destruct (p a); [reflexivity|exact IH].
Qed.

Lemma find_filter_none : forall {A} (p q : A -> bool) l, (forall x, p x = true -> q x = false) -> find p (filter q l) = None.
Proof.
  intros A p q l H. induction l as [|a t IH]; [reflexivity|].
  cbn [filter]. destruct (q a) eqn:Eq; [|exact IH]. cbn [find]. destruct (p a) eqn:Ep; [|exact IH].
  rewrite (H a Ep) in Eq. discriminate.
Qed.

Lemma find_app_none : forall {A} (p : A -> bool) l1 l2, find p l1 = None -> find p (l1 ++ l2) = find p l2.
Proof.
  intros A p l1 l2. induction l1 as [|a t IH]; intros H; [reflexivity|].
  cbn [find app] in *. destruct (p a); [discriminate|]. apply IH. exact H.
Qed.

Lemma find_none_of : forall {A} (p : A -> bool) l, (forall x, In x l -> p x = false) -> find p l = None.
Proof.
  intros A p l H. induction l as [|a t IH]; [reflexivity|].
  cbn [find]. rewrite (H a (or_introl eq_refl)). apply IH. intros x Hx. apply H. right. exact Hx.
Qed.

Lemma map_idem : forall {A} (g : A -> A) l, (forall x, g (g x) = g x) -> map g (map g l) = map g l.
Proof. intros A g l H. rewrite map_map. apply map_ext. exact H. Qed.

Lemma remove_all_ms : forall ms mbs s, st_ms (fst (cu_remove_all s ms mbs)) = st_ms s
  /\ st_mb (fst (cu_remove_all s ms mbs)) = st_mb s.
Proof.
  intros ms mbs. induction mbs as [|mb t IH]; intros s; [auto|].
  cbn [cu_remove_all]. destruct (cu_remove_all (cu_remove_from s mb ms) ms t) as [s1 r] eqn:E.
  cbn [fst]. specialize (IH (cu_remove_from s mb ms)). rewrite E in IH. cbn [fst] in IH. exact IH.
Qed.

(* membership after removing a message from a list of mailboxes *)
Lemma remove_all_me : forall ms mbs s x, In x (st_me (fst (cu_remove_all s ms mbs))) <->
  In x (st_me s) /\ ~ (me_ms x = ms /\ In (me_mb x) mbs).
Proof.
  intros ms mbs. induction mbs as [|mb t IH]; intros s x.
  - cbn [cu_remove_all fst In]. tauto.
  - cbn [cu_remove_all]. destruct (cu_remove_all (cu_remove_from s mb ms) ms t) as [s1 r] eqn:E.
    cbn [fst]. specialize (IH (cu_remove_from s mb ms) x). rewrite E in IH. cbn [fst] in IH. rewrite IH.
    unfold cu_remove_from, cu_with_me. cbn [st_me]. rewrite filter_In. cbn [In].
    rewrite negb_true_iff, andb_false_iff, !N.eqb_neq. split.
    + intros [[H1 H2] H3]. split; [exact H1|]. intros [H4 [H5|H5]]; [|tauto]. subst. destruct H2; congruence.
    + intros [H1 H2]. split; [split; [exact H1|]|].
      * destruct (N.eq_dec (me_mb x) mb) as [Hm|Hm]; [|left; exact Hm]. right. intros Hs. apply H2. split; [exact Hs|left; congruence].
      * intros [H3 H4]. apply H2. tauto.
Qed.

Lemma ms_mailboxes_map : forall (h : cu_me -> cu_me) iid l, (forall x, me_ms (h x) = me_ms x /\ me_mb (h x) = me_mb x) ->
  map me_mb (filter (fun e => me_ms e =? iid) (map h l)) = map me_mb (filter (fun e => me_ms e =? iid) l).
Proof.
  intros h iid l Hh. induction l as [|a t IH]; [reflexivity|].
  cbn [map filter]. destruct (Hh a) as [H1 H2]. rewrite H1.
  destruct (me_ms a =? iid); [cbn [map]; rewrite H2, IH; reflexivity|exact IH].
Qed.

(* ---------- duplicate delivery: applying a successfully applied update again ---------- *)
Definition cu_simple_kind (u : cu_update) : bool :=
  match u with
  | UMailboxCreated _ _ _ _ _ | UMailboxDeleted _ | UMailboxUpdated _ _ | UMessageDeleted _ | UMessageIDChanged _ _ | UNoop => true
  | UMailboxIDChanged _ rid => negb (rid =? cu_recovery_rid)
  | _ => false
  end.

Theorem duplicate_simple_is_noop : forall s e e' u s1 sus, cu_wf s -> cu_simple_kind u = true ->
  cu_tx s e u = Some (s1, sus) ->
  exists sus', cu_apply s1 e' u = (s1, AOk, sus') /\ filter cu_visible sus' = [].
Proof.
  intros s e e' u s1 sus W K H. unfold cu_apply. destruct u; cbn [cu_simple_kind] in K; try discriminate; cbn [cu_tx] in H |- *.
  - (* MailboxCreated *)
    set (nm := cu_canon_name name) in *.
    destruct (rid =? cu_recovery_rid) eqn:Er; [discriminate|].
    destruct (cu_find_mb_rid s rid) eqn:Ef.
    + injection H as H1 H2. subst. rewrite Ef. exists []. auto.
    + destruct (e_uidv e) as [|v vs]; [discriminate|]. destruct (cu_find_mb_name s nm); [discriminate|].
      injection H as H1 H2. subst s1 sus. unfold cu_find_mb_rid at 1. cbn [st_mb].
      unfold cu_find_mb_rid in Ef. rewrite (find_app_none _ _ _ Ef). cbn [find mb_rid]. rewrite N.eqb_refl. exists []. auto.
  - (* MailboxDeleted *)
    destruct (rid =? cu_recovery_rid) eqn:Er; [discriminate|].
    destruct (cu_find_mb_rid s rid) eqn:Ef.
    + injection H as H1 H2. subst s1 sus. unfold cu_find_mb_rid at 1. cbn [st_mb].
      rewrite find_filter_none; [exists []; auto|]. intros x Hx. rewrite Hx. reflexivity.
    + injection H as H1 H2. subst. rewrite Ef. exists []. auto.
  - (* MailboxUpdated *)
    set (nm := cu_canon_name name) in *.
    destruct (rid =? cu_recovery_rid) eqn:Er; [discriminate|].
    destruct (cu_find_mb_rid s rid) as [m|] eqn:Ef.
    2:{ injection H as H1 H2. subst. rewrite Ef. exists []. auto. }
    destruct (mb_name m =? nm) eqn:En.
    { injection H as H1 H2. subst. rewrite Ef, En. exists []. auto. }
    destruct (existsb (fun x => (mb_name x =? nm) && negb (mb_rid x =? rid)) (st_mb s)) eqn:Ec; [discriminate|].
    injection H as H1 H2. subst s1 sus.
    set (g := fun x => if mb_rid x =? rid then mkMb (mb_id x) (mb_rid x) nm (mb_uidv x) (mb_sub x) (mb_flags x) (mb_perm x) (mb_attrs x) else x).
    assert (Hg : forall x, (mb_rid (g x) =? rid) = (mb_rid x =? rid)).
    { intros x. unfold g. destruct (mb_rid x =? rid) eqn:E; [cbn [mb_rid]; exact E|exact E]. }
    unfold cu_find_mb_rid at 1. unfold cu_with_mb at 1. cbn [st_mb]. rewrite (find_map_pres _ g _ Hg).
    unfold cu_find_mb_rid in Ef. rewrite Ef. cbn [option_map].
    assert (Hgm : g m = mkMb (mb_id m) (mb_rid m) nm (mb_uidv m) (mb_sub m) (mb_flags m) (mb_perm m) (mb_attrs m)).
    { unfold g. apply find_some in Ef. destruct Ef as [_ Ef]. rewrite Ef. reflexivity. }
    rewrite Hgm. cbn [mb_name]. destruct (nm =? nm); [exists []; auto|].
    rewrite existsb_false.
    2:{ intros x Hx. unfold cu_with_mb in Hx. cbn [st_mb] in Hx. apply in_map_iff in Hx. destruct Hx as [y [Hy Hiny]]. subst x.
        rewrite Hg. destruct (mb_rid y =? rid) eqn:E; [rewrite andb_false_r; reflexivity|].
        unfold g. rewrite E. rewrite andb_true_r.
        pose proof (existsb_exists (fun x => (mb_name x =? nm) && negb (mb_rid x =? rid)) (st_mb s)) as Hex.
        destruct (mb_name y =? nm) eqn:Eny; [|reflexivity].
        assert (existsb (fun x => (mb_name x =? nm) && negb (mb_rid x =? rid)) (st_mb s) = true).
        { apply Hex. exists y. split; [exact Hiny|]. rewrite Eny, E. reflexivity. }
        congruence. }
    exists []. split; [|reflexivity]. f_equal. f_equal. unfold cu_with_mb. cbn [st_mb st_ms st_me st_seq st_nextmb st_dsub].
    f_equal. fold g. apply map_idem. intros x. unfold g. destruct (mb_rid x =? rid) eqn:E.
    + cbn [mb_rid mb_id mb_uidv mb_sub]. rewrite E. reflexivity.
    + rewrite E. reflexivity.
  - (* MailboxIDChanged *)
    rewrite negb_true_iff in K.
    destruct (cu_find_mb_id s iid) as [m|] eqn:Ef; [|discriminate].
    destruct (mb_rid m =? cu_recovery_rid); [discriminate|].
    destruct (existsb (fun x => (mb_rid x =? rid) && negb (mb_id x =? iid)) (st_mb s)) eqn:Ec; [discriminate|].
    injection H as H1 H2. subst s1 sus.
    set (g := fun x => if mb_id x =? iid then mkMb (mb_id x) rid (mb_name x) (mb_uidv x) (mb_sub x) (mb_flags x) (mb_perm x) (mb_attrs x) else x).
    assert (Hg : forall x, (mb_id (g x) =? iid) = (mb_id x =? iid)).
    { intros x. unfold g. destruct (mb_id x =? iid) eqn:E; [cbn [mb_id]; exact E|exact E]. }
    unfold cu_find_mb_id at 1. unfold cu_with_mb at 1. cbn [st_mb]. rewrite (find_map_pres _ g _ Hg).
    unfold cu_find_mb_id in Ef. rewrite Ef. cbn [option_map].
    assert (Hgm : g m = mkMb (mb_id m) rid (mb_name m) (mb_uidv m) (mb_sub m) (mb_flags m) (mb_perm m) (mb_attrs m)).
    { unfold g. apply find_some in Ef. destruct Ef as [_ Ef]. rewrite Ef. reflexivity. }
    rewrite Hgm. cbn [mb_rid]. rewrite K.
    rewrite existsb_false.
    2:{ intros x Hx. unfold cu_with_mb in Hx. cbn [st_mb] in Hx. apply in_map_iff in Hx. destruct Hx as [y [Hy Hiny]]. subst x.
        rewrite Hg. destruct (mb_id y =? iid) eqn:E; [rewrite andb_false_r; reflexivity|].
        unfold g. rewrite E. rewrite andb_true_r.
        destruct (mb_rid y =? rid) eqn:Ery; [|reflexivity].
        assert (existsb (fun x => (mb_rid x =? rid) && negb (mb_id x =? iid)) (st_mb s) = true).
        { apply existsb_exists. exists y. split; [exact Hiny|]. rewrite Ery, E. reflexivity. }
        congruence. }
    exists [SuMailboxRid iid rid]. split; [|reflexivity]. f_equal. f_equal. unfold cu_with_mb. cbn [st_mb st_ms st_me st_seq st_nextmb st_dsub].
    f_equal. fold g. apply map_idem. intros x. unfold g. destruct (mb_id x =? iid) eqn:E.
    + cbn [mb_id mb_name mb_uidv mb_sub]. rewrite E. reflexivity.
    + rewrite E. reflexivity.
  - (* MessageDeleted *)
    destruct (cu_find_ms_rid s rid) as [m|] eqn:Ef.
    2:{ injection H as H1 H2. subst. rewrite Ef. exists []. auto. }
    destruct (find_ms_rid_spec s rid m Ef) as [Hin Hr].
    set (s0 := cu_upd_ms s (ms_id m) (fun x => mkMs (ms_id x) None (ms_lit x) (ms_flags x) true)) in *.
    assert (Hs1 : st_ms s1 = st_ms s0).
    { pose proof (remove_all_ms (ms_id m) (cu_ms_mailboxes s0 (ms_id m)) s0) as [Hm _].
      injection H as H. rewrite <- Hm. destruct (cu_remove_all s0 (ms_id m) (cu_ms_mailboxes s0 (ms_id m))).
      cbn [fst]. injection H as H1 H2. congruence. }
    assert (Hnone : cu_find_ms_rid s1 rid = None).
    { unfold cu_find_ms_rid. rewrite Hs1. unfold s0, cu_upd_ms, cu_with_ms. cbn [st_ms].
      apply find_none_of. intros x Hx. apply in_map_iff in Hx. destruct Hx as [y [Hy Hiny]]. subst x.
      destruct (ms_id y =? ms_id m) eqn:E; [reflexivity|].
      destruct (cu_rid_is (ms_rid y) rid) eqn:Ey; [|reflexivity]. apply rid_is_spec in Ey.
      pose proof (wf_ms_rid s W y rid Hiny Ey) as H1. rewrite Ef in H1. injection H1 as H1. subst y.
      rewrite N.eqb_refl in E. discriminate. }
    rewrite Hnone. exists []. auto.
  - (* MessageIDChanged *)
    destruct (cu_find_ms_id s iid) as [m|] eqn:Ef; [|discriminate].
    destruct (existsb (fun x => cu_rid_is (ms_rid x) rid && negb (ms_id x =? iid)) (st_ms s)) eqn:Ec1; [discriminate|].
    destruct (existsb (fun x => (me_rid x =? rid) && negb (me_ms x =? iid) && cu_mem (me_mb x) (cu_ms_mailboxes s iid)) (st_me s)) eqn:Ec2; [discriminate|].
    injection H as H1 H2. subst s1 sus.
    set (g := fun x => if ms_id x =? iid then mkMs (ms_id x) (Some rid) (ms_lit x) (ms_flags x) (ms_del x) else x).
    set (h := fun x => if me_ms x =? iid then mkMe (me_mb x) (me_uid x) (me_ms x) rid else x).
    assert (Hg : forall x, (ms_id (g x) =? iid) = (ms_id x =? iid)).
    { intros x. unfold g. destruct (ms_id x =? iid) eqn:E; [cbn [ms_id]; exact E|exact E]. }
    assert (Hh : forall x, me_ms (h x) = me_ms x /\ me_mb (h x) = me_mb x).
    { intros x. unfold h. destruct (me_ms x =? iid); auto. }
    unfold cu_find_ms_id at 1. unfold cu_with_me, cu_upd_ms, cu_with_ms. cbn [st_ms st_me].
    fold g. fold h. rewrite (find_map_pres _ g _ Hg). unfold cu_find_ms_id in Ef. rewrite Ef. cbn [option_map].
    rewrite existsb_false.
    2:{ intros x Hx. apply in_map_iff in Hx. destruct Hx as [y [Hy Hiny]]. subst x.
        rewrite Hg. destruct (ms_id y =? iid) eqn:E; [rewrite andb_false_r; reflexivity|].
        unfold g. rewrite E, andb_true_r. destruct (cu_rid_is (ms_rid y) rid) eqn:Ey; [|reflexivity].
        assert (existsb (fun x => cu_rid_is (ms_rid x) rid && negb (ms_id x =? iid)) (st_ms s) = true).
        { apply existsb_exists. exists y. split; [exact Hiny|]. rewrite Ey, E. reflexivity. }
        congruence. }
    assert (Hmbx : forall a b c d f, cu_ms_mailboxes (mkSt a b (map h (st_me s)) c d f) iid = cu_ms_mailboxes s iid).
    { intros a b c d f. unfold cu_ms_mailboxes. cbn [st_me]. apply ms_mailboxes_map. exact Hh. }
    rewrite existsb_false.
    2:{ intros x Hx. apply in_map_iff in Hx. destruct Hx as [y [Hy Hiny]]. subst x.
        rewrite Hmbx. destruct (Hh y) as [H1 H2]. rewrite H1, H2.
        destruct (me_ms y =? iid) eqn:E; [rewrite andb_false_r; reflexivity|].
        unfold h. rewrite E, andb_true_r.
        destruct ((me_rid y =? rid) && cu_mem (me_mb y) (cu_ms_mailboxes s iid)) eqn:Ey; [|reflexivity].
        assert (existsb (fun x => (me_rid x =? rid) && negb (me_ms x =? iid) && cu_mem (me_mb x) (cu_ms_mailboxes s iid)) (st_me s) = true).
        { apply existsb_exists. exists y. split; [exact Hiny|]. apply andb_true_iff in Ey. destruct Ey as [Ey1 Ey2]. rewrite Ey1, E, Ey2. reflexivity. }
        congruence. }
    exists [SuMessageRid iid rid]. split; [|reflexivity]. f_equal. f_equal. f_equal.
    + apply map_idem. intros x. unfold g. destruct (ms_id x =? iid) eqn:E.
      * cbn [ms_id ms_lit ms_flags ms_del]. rewrite E. reflexivity.
      * rewrite E. reflexivity.
    + apply map_idem. intros x. unfold h. destruct (me_ms x =? iid) eqn:E.
      * cbn [me_ms me_mb me_uid]. rewrite E. reflexivity.
      * rewrite E. reflexivity.
  - (* Noop *) injection H as H1 H2. subst. exists []. auto.
Qed.

(* ---------- effects of valid updates ---------- *)
Lemma mailbox_created_effect : forall s e rid name fl pf att v vs,
  rid <> cu_recovery_rid -> cu_find_mb_rid s rid = None -> cu_find_mb_name s (cu_canon_name name) = None -> e_uidv e = v :: vs ->
  cu_apply s e (UMailboxCreated rid name fl pf att) =
    (mkSt (st_mb s ++ [mkMb (st_nextmb s) rid (cu_canon_name name) v true fl pf att]) (st_ms s) (st_me s) (st_seq s) (st_nextmb s + 1) (st_dsub s), AOk, []).
Proof.
  intros s e rid name fl pf att v vs H1 H2 H3 H4. unfold cu_apply. cbn [cu_tx]. apply N.eqb_neq in H1. rewrite H1, H2, H4, H3. reflexivity.
Qed.

Lemma mailbox_deleted_effect : forall s e rid m, rid <> cu_recovery_rid -> cu_find_mb_rid s rid = Some m ->
  exists s1, cu_apply s e (UMailboxDeleted rid) = (s1, AOk, [SuMailboxDeleted (mb_id m)]) /\
    cu_find_mb_rid s1 rid = None /\ st_ms s1 = st_ms s /\
    (forall x, In x (st_mb s1) <-> In x (st_mb s) /\ mb_rid x <> rid) /\
    (forall x, In x (st_me s1) <-> In x (st_me s) /\ me_mb x <> mb_id m).
Proof.
  intros s e rid m H1 H2. unfold cu_apply. cbn [cu_tx]. apply N.eqb_neq in H1. rewrite H1, H2.
  eexists. split; [reflexivity|]. cbn [st_mb st_ms st_me]. repeat split.
  - unfold cu_find_mb_rid. cbn [st_mb]. apply find_filter_none. intros x Hx. rewrite Hx. reflexivity.
  - apply filter_In in H. tauto.
  - apply filter_In in H. destruct H as [_ H]. apply negb_true_iff, N.eqb_neq in H. exact H.
  - intros [Ha Hb]. apply filter_In. split; [exact Ha|]. apply negb_true_iff, N.eqb_neq. exact Hb.
  - apply filter_In in H. tauto.
  - apply filter_In in H. destruct H as [_ H]. apply negb_true_iff, N.eqb_neq in H. exact H.
  - intros [Ha Hb]. apply filter_In. split; [exact Ha|]. apply negb_true_iff, N.eqb_neq. exact Hb.
Qed.

Lemma flags_updated_effect : forall s e rid flags m, cu_wf s -> cu_find_ms_rid s rid = Some m ->
  exists s1 sus m1, cu_apply s e (UMessageFlagsUpdated rid flags) = (s1, AOk, sus) /\
    st_mb s1 = st_mb s /\ st_me s1 = st_me s /\ st_seq s1 = st_seq s /\
    cu_find_ms_id s1 (ms_id m) = Some m1 /\ ms_id m1 = ms_id m /\ ms_rid m1 = ms_rid m /\ ms_lit m1 = ms_lit m /\
    ms_del m1 = ms_del m /\ (forall f, cu_mem f (ms_flags m1) = cu_mem f flags) /\
    (forall x, In x (st_ms s) -> ms_id x <> ms_id m -> In x (st_ms s1)).
Proof.
  intros s e rid flags m W Hf. destruct (find_ms_rid_spec s rid m Hf) as [Hin Hr].
  unfold cu_apply. cbn [cu_tx]. rewrite Hf. unfold cu_set_flags. rewrite (wf_ms_id s W m Hin).
  set (want := cu_dedup flags). set (cur := ms_flags m).
  set (nf := filter (fun f => cu_mem f want) cur ++ filter (fun f => negb (cu_mem f cur)) want).
  set (g := fun x => if ms_id x =? ms_id m then mkMs (ms_id x) (ms_rid x) (ms_lit x) nf (ms_del x) else x).
  eexists. eexists. exists (g m). split; [reflexivity|].
  assert (Hg : forall x, (ms_id (g x) =? ms_id m) = (ms_id x =? ms_id m)).
  { intros x. unfold g. destruct (ms_id x =? ms_id m) eqn:E; [cbn [ms_id]; exact E|exact E]. }
  unfold cu_upd_ms, cu_with_ms. cbn [st_mb st_me st_seq st_ms]. fold g.
  assert (Hgm : g m = mkMs (ms_id m) (ms_rid m) (ms_lit m) nf (ms_del m)).
  { unfold g. rewrite N.eqb_refl. reflexivity. }
  repeat split.
  - unfold cu_find_ms_id. cbn [st_ms]. rewrite (find_map_pres _ g _ Hg).
    pose proof (wf_ms_id s W m Hin) as H1. unfold cu_find_ms_id in H1. rewrite H1. reflexivity.
  - rewrite Hgm. reflexivity.
  - rewrite Hgm. reflexivity.
  - rewrite Hgm. reflexivity.
  - rewrite Hgm. reflexivity.
  - intros f. rewrite Hgm. cbn [ms_flags]. apply Bool.eq_true_iff_eq. rewrite !cu_mem_In. unfold nf.
    rewrite in_app_iff, !filter_In, negb_true_iff, cu_mem_false, !cu_mem_In. unfold want. rewrite in_dedup.
    destruct (in_dec N.eq_dec f cur); tauto.
  - intros x Hx Hne. apply in_map_iff. exists x. split; [|exact Hx]. unfold g.
    apply N.eqb_neq in Hne. rewrite Hne. reflexivity.
Qed.

Lemma message_deleted_effect : forall s e rid m, cu_wf s -> cu_find_ms_rid s rid = Some m ->
  exists s1 sus, cu_apply s e (UMessageDeleted rid) = (s1, AOk, sus) /\
    st_mb s1 = st_mb s /\ cu_find_ms_rid s1 rid = None /\
    (forall x, In x (st_me s1) <-> In x (st_me s) /\ me_ms x <> ms_id m) /\
    (forall x, In x (st_ms s) -> ms_id x <> ms_id m -> In x (st_ms s1)) /\
    (exists m1, cu_find_ms_id s1 (ms_id m) = Some m1 /\ ms_del m1 = true /\ ms_rid m1 = None /\ ms_lit m1 = ms_lit m).
Proof.
  intros s e rid m W Hf. destruct (find_ms_rid_spec s rid m Hf) as [Hin Hr].
  unfold cu_apply. cbn [cu_tx]. rewrite Hf.
  set (g := fun x => if ms_id x =? ms_id m then mkMs (ms_id x) None (ms_lit x) (ms_flags x) true else x).
  set (s0 := cu_upd_ms s (ms_id m) (fun x => mkMs (ms_id x) None (ms_lit x) (ms_flags x) true)).
  pose proof (remove_all_ms (ms_id m) (cu_ms_mailboxes s0 (ms_id m)) s0) as [Hms Hmb].
  pose proof (remove_all_me (ms_id m) (cu_ms_mailboxes s0 (ms_id m)) s0) as Hme.
  destruct (cu_remove_all s0 (ms_id m) (cu_ms_mailboxes s0 (ms_id m))) as [s1 sus] eqn:E. cbn [fst] in *.
  exists s1, sus. split; [reflexivity|].
  assert (Hs0ms : st_ms s0 = map g (st_ms s)) by reflexivity.
  assert (Hs0me : st_me s0 = st_me s) by reflexivity.
  assert (Hg : forall x, (ms_id (g x) =? ms_id m) = (ms_id x =? ms_id m)).
  { intros x. unfold g. destruct (ms_id x =? ms_id m) eqn:E1; [cbn [ms_id]; exact E1|exact E1]. }
  repeat split.
  - rewrite Hmb. reflexivity.
  - unfold cu_find_ms_rid. rewrite Hms, Hs0ms. apply find_none_of. intros x Hx.
    apply in_map_iff in Hx. destruct Hx as [y [Hy Hiny]]. subst x. unfold g.
    destruct (ms_id y =? ms_id m) eqn:E1; [reflexivity|].
    destruct (cu_rid_is (ms_rid y) rid) eqn:Ey; [|reflexivity]. apply rid_is_spec in Ey.
    pose proof (wf_ms_rid s W y rid Hiny Ey) as H1. rewrite Hf in H1. injection H1 as H1. subst y.
    rewrite N.eqb_refl in E1. discriminate.
  - apply Hme in H. rewrite Hs0me in H. tauto.
  - apply Hme in H. destruct H as [H1 H2]. intros Heq. apply H2. split; [exact Heq|].
    unfold cu_ms_mailboxes. apply in_map. apply filter_In. split; [exact H1|]. apply N.eqb_eq. exact Heq.
  - intros [H1 H2]. apply Hme. rewrite Hs0me. split; [exact H1|]. tauto.
  - intros x Hx Hne. rewrite Hms, Hs0ms. apply in_map_iff. exists x. split; [|exact Hx]. unfold g.
    apply N.eqb_neq in Hne. rewrite Hne. reflexivity.
  - exists (g m). unfold cu_find_ms_id. rewrite Hms, Hs0ms. rewrite (find_map_pres _ g _ Hg).
    pose proof (wf_ms_id s W m Hin) as H1. unfold cu_find_ms_id in H1. rewrite H1. cbn [option_map].
    unfold g. rewrite N.eqb_refl. cbn [ms_del ms_rid ms_lit]. auto.
Qed.

(* MessageIDChanged: the message row and EVERY mailbox row of that message carry the new remote id; nothing else moves *)
Lemma message_id_changed_effect : forall s e iid rid m, cu_find_ms_id s iid = Some m ->
  existsb (fun x => cu_rid_is (ms_rid x) rid && negb (ms_id x =? iid)) (st_ms s) = false ->
  existsb (fun x => (me_rid x =? rid) && negb (me_ms x =? iid) && cu_mem (me_mb x) (cu_ms_mailboxes s iid)) (st_me s) = false ->
  exists s1, cu_apply s e (UMessageIDChanged iid rid) = (s1, AOk, [SuMessageRid iid rid]) /\ st_mb s1 = st_mb s /\ st_seq s1 = st_seq s /\
    (exists m1, cu_find_ms_id s1 iid = Some m1 /\ ms_rid m1 = Some rid /\ ms_lit m1 = ms_lit m /\ ms_flags m1 = ms_flags m) /\
    (forall x, In x (st_me s1) -> me_ms x = iid -> me_rid x = rid) /\
    map (fun x => (me_mb x, me_uid x, me_ms x)) (st_me s1) = map (fun x => (me_mb x, me_uid x, me_ms x)) (st_me s) /\
    (forall x, In x (st_me s) -> me_ms x <> iid -> In x (st_me s1)).
Proof.
  intros s e iid rid m Hf H1 H2. unfold cu_apply. cbn [cu_tx]. rewrite Hf, H1, H2.
  eexists. split; [reflexivity|]. unfold cu_with_me, cu_upd_ms, cu_with_ms. cbn [st_mb st_seq st_me st_ms].
  set (g := fun x => if ms_id x =? iid then mkMs (ms_id x) (Some rid) (ms_lit x) (ms_flags x) (ms_del x) else x).
  set (h := fun x => if me_ms x =? iid then mkMe (me_mb x) (me_uid x) (me_ms x) rid else x).
  assert (Hg : forall x, (ms_id (g x) =? iid) = (ms_id x =? iid)).
  { intros x. unfold g. destruct (ms_id x =? iid) eqn:E; [cbn [ms_id]; exact E|exact E]. }
  repeat split.
  - exists (g m). unfold cu_find_ms_id. cbn [st_ms]. rewrite (find_map_pres _ g _ Hg).
    unfold cu_find_ms_id in Hf. rewrite Hf. cbn [option_map]. apply find_some in Hf. destruct Hf as [_ Hf].
    unfold g. rewrite Hf. cbn [ms_rid ms_lit ms_flags]. auto.
  - intros x Hx Hi. apply in_map_iff in Hx. destruct Hx as [y [Hy Hiny]]. subst x. unfold h in *.
    destruct (me_ms y =? iid) eqn:E; [reflexivity|]. apply N.eqb_neq in E. contradiction.
  - rewrite map_map. apply map_ext. intros x. unfold h. destruct (me_ms x =? iid); reflexivity.
  - intros x Hx Hne. apply in_map_iff. exists x. split; [|exact Hx]. unfold h. apply N.eqb_neq in Hne. rewrite Hne. reflexivity.
Qed.

Lemma bump_shape : forall l vs, (length l <= length vs)%nat -> exists l', cu_bump l vs = Some l' /\
  map (fun m => (mb_id m, mb_rid m, mb_name m, mb_sub m)) l' = map (fun m => (mb_id m, mb_rid m, mb_name m, mb_sub m)) l /\
  map mb_uidv l' = firstn (length l) vs.
Proof.
  induction l as [|m t IH]; intros vs Hl.
  - exists []. auto.
  - destruct vs as [|v vs']; [cbn [length] in Hl; lia|]. cbn [length] in Hl.
    destruct (IH vs') as [l' [E [H1 H2]]]; [lia|].
    cbn [cu_bump]. rewrite E. eexists. split; [reflexivity|]. cbn [map length firstn mb_id mb_rid mb_name mb_sub mb_uidv].
    rewrite H1, H2. auto.
Qed.

(* UIDValidityBumped (also when delivered twice): no message, UID, flag, name or membership changes — only the
   UIDVALIDITY values are replaced by the generated ones *)
Lemma uidvalidity_bumped_effect : forall s e, (length (st_mb s) <= length (e_uidv e))%nat ->
  exists s1, cu_apply s e UUIDValidityBumped = (s1, AOk, [SuUidValidityBumped]) /\
    st_ms s1 = st_ms s /\ st_me s1 = st_me s /\ st_seq s1 = st_seq s /\ st_dsub s1 = st_dsub s /\
    map (fun m => (mb_id m, mb_rid m, mb_name m, mb_sub m)) (st_mb s1) = map (fun m => (mb_id m, mb_rid m, mb_name m, mb_sub m)) (st_mb s) /\
    map mb_uidv (st_mb s1) = firstn (length (st_mb s)) (e_uidv e).
Proof.
  intros s e Hl. destruct (bump_shape (st_mb s) (e_uidv e) Hl) as [l' [E [H1 H2]]].
  unfold cu_apply. cbn [cu_tx]. rewrite E. eexists. split; [reflexivity|].
  unfold cu_with_mb. cbn [st_mb st_ms st_me st_seq st_dsub]. repeat split; assumption.
Qed.

(* ---------- flags: well-formedness is kept, hence a duplicate MessageFlagsUpdated is a no-op ---------- *)
Lemma wf_upd_flags : forall s id nf, cu_wf s ->
  cu_wf (cu_upd_ms s id (fun m => mkMs (ms_id m) (ms_rid m) (ms_lit m) nf (ms_del m))).
Proof.
  intros s id nf W.
  set (g := fun x => if ms_id x =? id then mkMs (ms_id x) (ms_rid x) (ms_lit x) nf (ms_del x) else x).
  assert (Hid : forall x, ms_id (g x) = ms_id x) by (intros x; unfold g; destruct (ms_id x =? id); reflexivity).
  assert (Hrid : forall x, ms_rid (g x) = ms_rid x) by (intros x; unfold g; destruct (ms_id x =? id); reflexivity).
  unfold cu_upd_ms, cu_with_ms. fold g. constructor; cbn [st_mb st_ms st_me].
  - intros m Hm. apply (wf_mb_id s W m Hm).
  - intros m Hm. apply (wf_mb_rid s W m Hm).
  - intros m Hm. apply in_map_iff in Hm. destruct Hm as [y [Hy Hiny]]. subst m.
    unfold cu_find_ms_id. cbn [st_ms]. rewrite Hid.
    rewrite (find_map_pres (fun m => ms_id m =? ms_id y) g); [|intros x; rewrite Hid; reflexivity].
    pose proof (wf_ms_id s W y Hiny) as H. unfold cu_find_ms_id in H. rewrite H. reflexivity.
  - intros m r Hm Hr. apply in_map_iff in Hm. destruct Hm as [y [Hy Hiny]]. subst m. rewrite Hrid in Hr.
    unfold cu_find_ms_rid. cbn [st_ms].
    rewrite (find_map_pres (fun m => cu_rid_is (ms_rid m) r) g); [|intros x; rewrite Hrid; reflexivity].
    pose proof (wf_ms_rid s W y r Hiny Hr) as H. unfold cu_find_ms_rid in H. rewrite H. reflexivity.
  - intros x Hx. destruct (wf_me s W x Hx) as [m [H1 [H2 H3]]]. exists (g m). split; [apply in_map; exact H1|].
    rewrite Hid, Hrid. auto.
Qed.

Lemma nf_mem : forall f cur flags,
  cu_mem f (filter (fun f => cu_mem f (cu_dedup flags)) cur ++ filter (fun f => negb (cu_mem f cur)) (cu_dedup flags)) = cu_mem f flags.
Proof.
  intros f cur flags. apply Bool.eq_true_iff_eq. rewrite !cu_mem_In.
  rewrite in_app_iff, !filter_In, negb_true_iff, cu_mem_false, !cu_mem_In. rewrite in_dedup.
  destruct (in_dec N.eq_dec f cur); tauto.
Qed.

Theorem duplicate_flags_is_noop : forall s e e' rid flags s1 sus, cu_wf s ->
  cu_tx s e (UMessageFlagsUpdated rid flags) = Some (s1, sus) ->
  cu_apply s1 e' (UMessageFlagsUpdated rid flags) = (s1, AOk, []).
Proof.
  intros s e e' rid flags s1 sus W H.
  cbn [cu_tx] in H. destruct (cu_find_ms_rid s rid) as [m|] eqn:Ef; [|discriminate].
  destruct (find_ms_rid_spec s rid m Ef) as [Hin Hrm].
  injection H as H. unfold cu_set_flags in H. rewrite (wf_ms_id s W m Hin) in H. injection H as H1 H2.
  set (nf := filter (fun f => cu_mem f (cu_dedup flags)) (ms_flags m) ++ filter (fun f => negb (cu_mem f (ms_flags m))) (cu_dedup flags)) in *.
  assert (W1 : cu_wf s1) by (rewrite <- H1; apply wf_upd_flags; exact W).
  set (g := fun x => if ms_id x =? ms_id m then mkMs (ms_id x) (ms_rid x) (ms_lit x) nf (ms_del x) else x).
  assert (Hrid : forall x, ms_rid (g x) = ms_rid x) by (intros x; unfold g; destruct (ms_id x =? ms_id m); reflexivity).
  assert (Hf1 : cu_find_ms_rid s1 rid = Some (g m)).
  { rewrite <- H1. unfold cu_find_ms_rid, cu_upd_ms, cu_with_ms. cbn [st_ms]. fold g.
    rewrite (find_map_pres (fun m0 => cu_rid_is (ms_rid m0) rid) g); [|intros x; rewrite Hrid; reflexivity].
    unfold cu_find_ms_rid in Ef. rewrite Ef. reflexivity. }
  assert (Hs : cu_flags_same (ms_flags (g m)) flags).
  { intros f. unfold g. rewrite N.eqb_refl. cbn [ms_flags]. symmetry. apply nf_mem. }
  destruct (find_ms_rid_spec s1 rid (g m) Hf1) as [Hin1 _].
  unfold cu_apply. cbn [cu_tx]. rewrite Hf1. rewrite (set_flags_noop s1 (g m) flags W1 Hin1 Hs). reflexivity.
Qed.

(* ---------- duplicate MessageMailboxesUpdated ---------- *)
Lemma add_one_spec : forall s mb ms rid s' uid, cu_add_one s mb ms rid = Some (s', uid) ->
  st_mb s' = st_mb s /\ st_ms s' = st_ms s /\ st_me s' = st_me s ++ [mkMe mb uid ms rid].
Proof.
  intros s mb ms rid s' uid H. unfold cu_add_one in H.
  destruct (cu_in_mailbox s mb ms || cu_rid_in_mailbox s mb rid); [discriminate|].
  injection H as H1 H2. subst s'. cbn [st_mb st_ms st_me]. rewrite H2. auto.
Qed.

Lemma add_each_spec : forall l s ms rid s' sus, cu_add_each s ms rid l = Some (s', sus) ->
  st_mb s' = st_mb s /\ st_ms s' = st_ms s /\
  (forall x, In x (st_me s') -> In x (st_me s) \/ (me_ms x = ms /\ me_rid x = rid /\ In (me_mb x) l)) /\
  (forall x, In x (st_me s) -> In x (st_me s')).
Proof.
  induction l as [|mb t IH]; intros s ms rid s' sus H.
  - cbn [cu_add_each] in H. injection H as J1 J2. subst s'. repeat split; auto.
  - cbn [cu_add_each] in H. destruct (cu_add_one s mb ms rid) as [[s1 uid]|] eqn:E1; [|discriminate].
    destruct (cu_add_each s1 ms rid t) as [[s2 r]|] eqn:E2; [|discriminate]. injection H as J1 J2. subst s'.
    destruct (add_one_spec _ _ _ _ _ _ E1) as [A1 [A2 A3]]. destruct (IH _ _ _ _ _ E2) as [B1 [B2 [B3 B4]]].
    split; [congruence|]. split; [congruence|]. split.
    + intros x Hx. apply B3 in Hx. destruct Hx as [Hx|[K1 [K2 K3]]].
      * rewrite A3 in Hx. apply in_app_or in Hx. destruct Hx as [Hx|[Hx|[]]]; [left; exact Hx|].
        right. subst x. cbn [me_ms me_rid me_mb]. split; [reflexivity|]. split; [reflexivity|]. left. reflexivity.
      * right. split; [exact K1|]. split; [exact K2|]. right. exact K3.
    + intros x Hx. apply B4. rewrite A3. apply in_or_app. left. exact Hx.
Qed.

Lemma add_each_has : forall l s ms rid s' sus, cu_add_each s ms rid l = Some (s', sus) ->
  forall mb, In mb l -> exists x, In x (st_me s') /\ me_mb x = mb /\ me_ms x = ms /\ me_rid x = rid.
Proof.
  induction l as [|a t IH]; intros s ms rid s' sus H mb Hin; [destruct Hin|].
  cbn [cu_add_each] in H. destruct (cu_add_one s a ms rid) as [[s1 uid]|] eqn:E1; [|discriminate].
  destruct (cu_add_each s1 ms rid t) as [[s2 r]|] eqn:E2; [|discriminate]. injection H as J1 J2. subst s'.
  destruct (add_one_spec _ _ _ _ _ _ E1) as [A1 [A2 A3]]. destruct (add_each_spec _ _ _ _ _ _ E2) as [B1 [B2 [B3 B4]]].
  destruct Hin as [Hin|Hin].
  - subst a. exists (mkMe mb uid ms rid). split; [|auto]. apply B4. rewrite A3. apply in_or_app. right. left. reflexivity.
  - apply (IH _ _ _ _ _ E2 mb Hin).
Qed.

Lemma mem_mailboxes : forall s ms mb, cu_mem mb (cu_ms_mailboxes s ms) = true <-> exists x, In x (st_me s) /\ me_ms x = ms /\ me_mb x = mb.
Proof.
  intros s ms mb. rewrite cu_mem_In. unfold cu_ms_mailboxes. rewrite in_map_iff. split.
  - intros [x [H1 H2]]. apply filter_In in H2. destruct H2 as [H4 H3]. apply N.eqb_eq in H3. exists x. auto.
  - intros [x [H1 [H2 H3]]]. exists x. split; [exact H3|]. apply filter_In. split; [exact H1|]. apply N.eqb_eq. exact H2.
Qed.

Lemma wf_same_tables : forall s s', cu_wf s -> st_mb s' = st_mb s -> st_ms s' = st_ms s ->
  (forall x, In x (st_me s') -> exists m, In m (st_ms s) /\ ms_id m = me_ms x /\ ms_rid m = Some (me_rid x)) -> cu_wf s'.
Proof.
  intros s s' W Hmb Hms Hme. constructor.
  - intros m Hm. rewrite Hmb in Hm. unfold cu_find_mb_id. rewrite Hmb. apply (wf_mb_id s W m Hm).
  - intros m Hm. rewrite Hmb in Hm. unfold cu_find_mb_rid. rewrite Hmb. apply (wf_mb_rid s W m Hm).
  - intros m Hm. rewrite Hms in Hm. unfold cu_find_ms_id. rewrite Hms. apply (wf_ms_id s W m Hm).
  - intros m r Hm Hr. rewrite Hms in Hm. unfold cu_find_ms_rid. rewrite Hms. apply (wf_ms_rid s W m r Hm Hr).
  - intros x Hx. rewrite Hms. apply Hme. exact Hx.
Qed.

Lemma set_mailboxes_spec : forall s m rid want s' sus, cu_wf s -> In m (st_ms s) -> ms_rid m = Some rid ->
  cu_set_mailboxes s (ms_id m) rid want = Some (s', sus) ->
  cu_wf s' /\ st_mb s' = st_mb s /\ st_ms s' = st_ms s /\ cu_same_set want (cu_ms_mailboxes s' (ms_id m)).
Proof.
  intros s m rid want s' sus W Hin Hr H. unfold cu_set_mailboxes in H.
  set (cur := cu_ms_mailboxes s (ms_id m)) in *.
  destruct (cu_add_each s (ms_id m) rid (filter (fun mb => negb (cu_mem mb cur)) want)) as [[s1 a]|] eqn:E1; [|discriminate].
  pose proof (remove_all_me (ms_id m) (filter (fun mb => negb (cu_mem mb want)) cur) s1) as Hrm.
  pose proof (remove_all_ms (ms_id m) (filter (fun mb => negb (cu_mem mb want)) cur) s1) as [Hms Hmb].
  destruct (cu_remove_all s1 (ms_id m) (filter (fun mb => negb (cu_mem mb want)) cur)) as [s2 r] eqn:E2.
  injection H as H1 H2. subst s'. cbn [fst] in *.
  destruct (add_each_spec _ _ _ _ _ _ E1) as [A1 [A2 [A3 A4]]].
  assert (Hme1 : forall x, In x (st_me s1) -> exists m0, In m0 (st_ms s) /\ ms_id m0 = me_ms x /\ ms_rid m0 = Some (me_rid x)).
  { intros x Hx. apply A3 in Hx. destruct Hx as [Hx|[Hx1 [Hx2 _]]]; [apply (wf_me s W x Hx)|]. exists m. rewrite Hx1, Hx2. auto. }
  split.
  { apply (wf_same_tables s); [exact W|congruence|congruence|]. intros x Hx. apply Hrm in Hx. apply Hme1. tauto. }
  split; [congruence|]. split; [congruence|].
  intros mb. apply Bool.eq_true_iff_eq. rewrite (mem_mailboxes s2). split.
  - intros Hw. destruct (cu_mem mb cur) eqn:Ec.
    + apply mem_mailboxes in Ec. destruct Ec as [x [X1 [X2 X3]]]. exists x. split; [|auto]. apply Hrm. split; [apply A4; exact X1|].
      intros [_ Hf]. apply filter_In in Hf. destruct Hf as [_ Hf]. rewrite X3, Hw in Hf. discriminate.
    + assert (Hf : In mb (filter (fun mb0 => negb (cu_mem mb0 cur)) want)).
      { apply filter_In. split; [apply cu_mem_In; exact Hw|]. rewrite Ec. reflexivity. }
      destruct (add_each_has _ _ _ _ _ _ E1 mb Hf) as [x [X1 [X2 [X3 X4]]]]. exists x. split; [|auto]. apply Hrm. split; [exact X1|].
      intros [_ Hg]. apply filter_In in Hg. destruct Hg as [_ Hg]. rewrite X2, Hw in Hg. discriminate.
  - intros [x [X1 [X2 X3]]]. apply Hrm in X1. destruct X1 as [X1 Xn]. destruct (cu_mem mb want) eqn:Ew; [reflexivity|]. exfalso.
    apply A3 in X1. destruct X1 as [X1|[_ [_ X1]]].
    + apply Xn. split; [exact X2|]. apply filter_In. split.
      * unfold cur, cu_ms_mailboxes. apply in_map. apply filter_In. split; [exact X1|]. apply N.eqb_eq. exact X2.
      * rewrite X3, Ew. reflexivity.
    + apply filter_In in X1. destruct X1 as [X1 _]. apply cu_mem_In in X1. rewrite X3, Ew in X1. discriminate.
Qed.

Theorem duplicate_mailboxes_is_noop : forall s e e' rid mboxes flags s1 sus, cu_wf s ->
  cu_tx s e (UMessageMailboxesUpdated rid mboxes flags) = Some (s1, sus) ->
  exists sus', cu_apply s1 e' (UMessageMailboxesUpdated rid mboxes flags) = (s1, AOk, sus') /\ filter cu_visible sus' = [].
Proof.
  intros s e e' rid mboxes flags s1 sus W H. cbn [cu_tx] in H.
  destruct (cu_mem cu_recovery_rid mboxes) eqn:Er; [discriminate|].
  destruct (cu_find_ms_rid s rid) as [m|] eqn:Ef; [|discriminate].
  destruct (find_ms_rid_spec s rid m Ef) as [Hin Hrm].
  destruct (cu_set_mailboxes s (ms_id m) rid (cu_translate s mboxes)) as [[sa a]|] eqn:Es; [|discriminate].
  destruct (set_mailboxes_spec s m rid _ sa a W Hin Hrm Es) as [Wa [Amb [Ams Aset]]].
  assert (Hina : In m (st_ms sa)) by (rewrite Ams; exact Hin).
  destruct (cu_set_flags sa (ms_id m) flags) as [sb b] eqn:Eb. injection H as H1 H2. subst sb.
  unfold cu_set_flags in Eb. rewrite (wf_ms_id sa Wa m Hina) in Eb. injection Eb as Eb1 Eb2.
  set (nf := filter (fun f => cu_mem f (cu_dedup flags)) (ms_flags m) ++ filter (fun f => negb (cu_mem f (ms_flags m))) (cu_dedup flags)) in *.
  set (g := fun x => if ms_id x =? ms_id m then mkMs (ms_id x) (ms_rid x) (ms_lit x) nf (ms_del x) else x).
  assert (W1 : cu_wf s1) by (rewrite <- Eb1; apply wf_upd_flags; exact Wa).
  assert (Hrid : forall x, ms_rid (g x) = ms_rid x) by (intros x; unfold g; destruct (ms_id x =? ms_id m); reflexivity).
  assert (Hf1 : cu_find_ms_rid s1 rid = Some (g m)).
  { rewrite <- Eb1. unfold cu_find_ms_rid, cu_upd_ms, cu_with_ms. cbn [st_ms]. fold g.
    rewrite (find_map_pres (fun m0 => cu_rid_is (ms_rid m0) rid) g); [|intros x; rewrite Hrid; reflexivity].
    rewrite Ams. unfold cu_find_ms_rid in Ef. rewrite Ef. reflexivity. }
  assert (Hgid : ms_id (g m) = ms_id m) by (unfold g; rewrite N.eqb_refl; reflexivity).
  apply restated_update_is_noop; [exact W1|]. cbn [cu_restates]. split; [exact Er|]. exists (g m). split; [exact Hf1|]. split.
  - rewrite Hgid. intros mb. rewrite <- Eb1. unfold cu_translate, cu_ms_mailboxes, cu_upd_ms, cu_with_ms. cbn [st_mb st_me].
    rewrite Amb. exact (Aset mb).
  - intros f. unfold g. rewrite N.eqb_refl. cbn [ms_flags]. symmetry. apply nf_mem.
Qed.

(* ---------- order of the state updates of MessageMailboxesUpdated: membership first, flags afterwards ---------- *)
Definition su_membership (u : cu_su) : bool := match u with SuExists _ _ | SuExpunge _ _ => true | _ => false end.
Definition su_flag (u : cu_su) : bool := match u with SuFlagAdd _ _ | SuFlagRem _ _ => true | _ => false end.

Lemma add_each_sus : forall l s ms rid s' sus, cu_add_each s ms rid l = Some (s', sus) -> forallb su_membership sus = true.
Proof.
  induction l as [|mb t IH]; intros s ms rid s' sus H; cbn [cu_add_each] in H.
  - injection H as _ H. subst. reflexivity.
  - destruct (cu_add_one s mb ms rid) as [[s1 uid]|]; [|discriminate].
    destruct (cu_add_each s1 ms rid t) as [[s2 r]|] eqn:E; [|discriminate]. injection H as _ H. subst sus.
    cbn [forallb su_membership]. apply (IH _ _ _ _ _ E).
Qed.

Lemma remove_all_sus : forall mbs s ms, forallb su_membership (snd (cu_remove_all s ms mbs)) = true.
Proof.
  induction mbs as [|mb t IH]; intros s ms; [reflexivity|]. cbn [cu_remove_all].
  specialize (IH (cu_remove_from s mb ms) ms). destruct (cu_remove_all (cu_remove_from s mb ms) ms t) as [s1 r].
  cbn [snd forallb su_membership] in *. exact IH.
Qed.

Lemma set_flags_sus : forall s ms want, forallb su_flag (snd (cu_set_flags s ms want)) = true.
Proof.
  intros s ms want. unfold cu_set_flags. destruct (cu_find_ms_id s ms); [|reflexivity]. cbn [snd].
  rewrite forallb_app. apply andb_true_iff. split; apply forallb_forall; intros x Hx; apply in_map_iff in Hx;
    destruct Hx as [f [E _]]; subst x; reflexivity.
Qed.

Theorem mailboxes_updated_order : forall s e rid mboxes flags s1 sus,
  cu_tx s e (UMessageMailboxesUpdated rid mboxes flags) = Some (s1, sus) ->
  exists a b, sus = a ++ b /\ forallb su_membership a = true /\ forallb su_flag b = true.
Proof.
  intros s e rid mboxes flags s1 sus H. cbn [cu_tx] in H.
  destruct (cu_mem cu_recovery_rid mboxes); [discriminate|].
  destruct (cu_find_ms_rid s rid) as [m|]; [|discriminate].
  unfold cu_set_mailboxes in H.
  destruct (cu_add_each s (ms_id m) rid _) as [[sa a]|] eqn:Ea; [|discriminate].
  pose proof (remove_all_sus (filter (fun mb => negb (cu_mem mb (cu_translate s mboxes))) (cu_ms_mailboxes s (ms_id m))) sa (ms_id m)) as Hr.
  destruct (cu_remove_all sa (ms_id m) _) as [sb r]. cbn [snd] in Hr.
  pose proof (set_flags_sus sb (ms_id m) flags) as Hf.
  destruct (cu_set_flags sb (ms_id m) flags) as [sc b]. cbn [snd] in Hf.
  injection H as _ H. subst sus. exists (a ++ r), b. split; [reflexivity|]. split; [|exact Hf].
  rewrite forallb_app, (add_each_sus _ _ _ _ _ _ Ea), Hr. reflexivity.
Qed.

(* a MailboxUpdated whose (canonical) name differs from the stored one — be it only in letter case: names are compared
   exactly — renames that mailbox and nothing else *)
Lemma mailbox_updated_effect : forall s e rid name m, rid <> cu_recovery_rid -> cu_find_mb_rid s rid = Some m ->
  mb_name m <> cu_canon_name name ->
  existsb (fun x => (mb_name x =? cu_canon_name name) && negb (mb_rid x =? rid)) (st_mb s) = false ->
  exists s1 m1, cu_apply s e (UMailboxUpdated rid name) = (s1, AOk, []) /\ cu_find_mb_rid s1 rid = Some m1 /\
    mb_name m1 = cu_canon_name name /\ mb_id m1 = mb_id m /\ mb_uidv m1 = mb_uidv m /\ mb_sub m1 = mb_sub m /\
    st_ms s1 = st_ms s /\ st_me s1 = st_me s /\ st_seq s1 = st_seq s /\
    (forall x, In x (st_mb s) -> mb_rid x <> rid -> In x (st_mb s1)).
Proof.
  intros s e rid name m H1 H2 H3 H4. unfold cu_apply. cbn [cu_tx]. apply N.eqb_neq in H1. rewrite H1, H2.
  apply N.eqb_neq in H3. rewrite H3, H4.
  set (g := fun x => if mb_rid x =? rid then mkMb (mb_id x) (mb_rid x) (cu_canon_name name) (mb_uidv x) (mb_sub x) (mb_flags x) (mb_perm x) (mb_attrs x) else x).
  assert (Hg : forall x, (mb_rid (g x) =? rid) = (mb_rid x =? rid)).
  { intros x. unfold g. destruct (mb_rid x =? rid) eqn:E; [cbn [mb_rid]; exact E|exact E]. }
  eexists. exists (g m). split; [reflexivity|]. unfold cu_with_mb. cbn [st_mb st_ms st_me st_seq]. fold g.
  assert (Hgm : g m = mkMb (mb_id m) (mb_rid m) (cu_canon_name name) (mb_uidv m) (mb_sub m) (mb_flags m) (mb_perm m) (mb_attrs m)).
  { unfold g. apply find_some in H2. destruct H2 as [_ H2]. rewrite H2. reflexivity. }
  repeat split.
  - unfold cu_find_mb_rid. cbn [st_mb]. rewrite (find_map_pres _ g _ Hg). unfold cu_find_mb_rid in H2. rewrite H2. reflexivity.
  - rewrite Hgm. reflexivity.
  - rewrite Hgm. reflexivity.
  - rewrite Hgm. reflexivity.
  - rewrite Hgm. reflexivity.
  - intros x Hx Hne. apply in_map_iff. exists x. split; [|exact Hx]. unfold g. apply N.eqb_neq in Hne. rewrite Hne. reflexivity.
Qed.

(* ---------- MessageUpdated with another literal: the message found under the remote id afterwards IS the new literal ---------- *)
(* RFC822.SIZE is a function of the stored literal: [size_of] maps a literal token to the number of octets of what is
   written to the store (the update's literal with the internal-id header).  T1: Gen/FactsConnUpdates.v
   created_size_is_stored_size — the LiteralSize of the inserted row is the size returned by the function that builds
   the stored literal, not len(update.Literal). *)
Definition cu_announced_size (size_of : N -> N) (m : cu_ms) : N := size_of (ms_lit m).

Lemma insert_one_spec : forall s m s', cu_insert_msgs s [m] = Some s' -> s' = cu_with_ms s (st_ms s ++ [m]).
Proof.
  intros s m s' H. cbn [cu_insert_msgs] in H.
  destruct (existsb _ (st_ms s)); [discriminate|]. injection H as H. symmetry. exact H.
Qed.

Theorem message_replaced_found : forall s e rid lit flags mboxes allow m s1 sus,
  cu_wf s -> cu_find_ms_rid s rid = Some m -> ms_lit m <> lit ->
  cu_tx s e (UMessageUpdated rid lit flags mboxes allow) = Some (s1, sus) ->
  exists m1, cu_find_ms_rid s1 rid = Some m1 /\ ms_lit m1 = lit /\ ms_del m1 = false.
Proof.
  intros s e rid lit flags mboxes allow m s1 sus W Hf Hl H. cbn [cu_tx] in H. rewrite Hf in H.
  apply N.eqb_neq in Hl. rewrite Hl in H.
  pose proof (remove_all_ms (ms_id m) (cu_ms_mailboxes s (ms_id m)) s) as [Hms _].
  destruct (cu_remove_all s (ms_id m) (cu_ms_mailboxes s (ms_id m))) as [sa a] eqn:Ea. cbn [fst] in Hms.
  destruct (e_fresh e) as [|f fr]; [discriminate|].
  set (g := fun x => if ms_id x =? ms_id m then mkMs (ms_id x) None (ms_lit x) (ms_flags x) true else x) in *.
  set (new := mkMs f (Some rid) lit (cu_dedup flags) false) in *.
  destruct (cu_insert_msgs (cu_upd_ms sa (ms_id m) (fun x => mkMs (ms_id x) None (ms_lit x) (ms_flags x) true)) [new]) as [s3|] eqn:Ei; [|discriminate].
  apply insert_one_spec in Ei.
  destruct (cu_lookup_all s3 mboxes) as [targets|]; [|discriminate].
  destruct (cu_add_each s3 f rid targets) as [[s4 b]|] eqn:E4; [|discriminate].
  injection H as H1 H2. subst s4.
  destruct (add_each_spec _ _ _ _ _ _ E4) as [_ [A2 _]].
  exists new. split; [|split; reflexivity].
  unfold cu_find_ms_rid. rewrite A2, Ei. unfold cu_with_ms, cu_upd_ms. cbn [st_ms]. rewrite Hms. fold g.
  rewrite find_app_none.
  - cbn [find new ms_rid cu_rid_is]. rewrite N.eqb_refl. reflexivity.
  - apply find_none_of. intros x Hx. apply in_map_iff in Hx. destruct Hx as [y [Hy Hiny]]. subst x. unfold g.
    destruct (ms_id y =? ms_id m) eqn:E; [reflexivity|].
    destruct (cu_rid_is (ms_rid y) rid) eqn:Ey; [|reflexivity]. apply rid_is_spec in Ey.
    pose proof (wf_ms_rid s W y rid Hiny Ey) as H1. rewrite Hf in H1. injection H1 as H1. subst y.
    rewrite N.eqb_refl in E. discriminate.
Qed.

Theorem message_replaced_size : forall (size_of : N -> N) s e rid lit flags mboxes allow m s1 sus,
  cu_wf s -> cu_find_ms_rid s rid = Some m -> ms_lit m <> lit ->
  cu_tx s e (UMessageUpdated rid lit flags mboxes allow) = Some (s1, sus) ->
  exists m1, cu_find_ms_rid s1 rid = Some m1 /\ ms_del m1 = false /\ cu_announced_size size_of m1 = size_of lit.
Proof.
  intros size_of s e rid lit flags mboxes allow m s1 sus W Hf Hl H.
  destruct (message_replaced_found s e rid lit flags mboxes allow m s1 sus W Hf Hl H) as [m1 [H1 [H2 H3]]].
  exists m1. unfold cu_announced_size. rewrite H2. auto.
Qed.

(* ---------- the protected mailbox ---------- *)
(* an update that names the recovery mailbox — by remote id (MailboxCreated / MailboxDeleted / MailboxUpdated) or by
   internal id (MailboxIDChanged) — is acknowledged with an error and changes nothing *)
Lemma aimed_at_recovery_refused : forall s e u, cu_aimed_at_recovery s u = true -> cu_apply s e u = (s, AErr, []).
Proof.
  intros s e u H. unfold cu_apply. destruct u; simpl in H; try discriminate; simpl.
  - rewrite H. reflexivity.
  - rewrite H. reflexivity.
  - rewrite H. reflexivity.
  - destruct (cu_find_mb_id s iid) as [m|]; [rewrite H|]; reflexivity.
Qed.

(* whatever a mailbox update names and whatever its outcome: the recovery mailbox's entry (internal id, remote id, name,
   UIDVALIDITY, subscription, flag sets) is in the mailbox table afterwards, as it was *)
Lemma recovery_mailbox_kept : forall s e u s' a sus m, cu_wf s -> cu_mailbox_kind u = true ->
  In m (st_mb s) -> mb_rid m = cu_recovery_rid -> cu_apply s e u = (s', a, sus) -> In m (st_mb s').
Proof.
  intros s e u s' a sus m W K Hin Hrid H. unfold cu_apply in H.
  destruct u; simpl in K; try discriminate; simpl in H.
  - (* MailboxCreated *)
    destruct (rid =? cu_recovery_rid); [inversion H; subst; exact Hin|].
    destruct (cu_find_mb_rid s rid); [inversion H; subst; exact Hin|].
    destruct (e_uidv e); [inversion H; subst; exact Hin|].
    destruct (cu_find_mb_name s (cu_canon_name name)); inversion H; subst; [exact Hin|].
    simpl. apply in_or_app. left. exact Hin.
  - (* MailboxDeleted *)
    destruct (rid =? cu_recovery_rid) eqn:E; [inversion H; subst; exact Hin|].
    destruct (cu_find_mb_rid s rid); inversion H; subst; [|exact Hin].
    simpl. apply filter_In. split; [exact Hin|]. rewrite Hrid. rewrite N.eqb_sym. rewrite E. reflexivity.
  - (* MailboxUpdated *)
    destruct (rid =? cu_recovery_rid) eqn:E; [inversion H; subst; exact Hin|].
    destruct (cu_find_mb_rid s rid) as [m0|]; [|inversion H; subst; exact Hin].
    destruct (mb_name m0 =? cu_canon_name name); [inversion H; subst; exact Hin|].
    destruct (existsb _ (st_mb s)); inversion H; subst; [exact Hin|].
    simpl. apply in_map_iff. exists m. split; [|exact Hin].
    rewrite Hrid. rewrite N.eqb_sym. rewrite E. reflexivity.
  - (* MailboxIDChanged *)
    destruct (cu_find_mb_id s iid) as [m0|] eqn:F; [|inversion H; subst; exact Hin].
    destruct (mb_rid m0 =? cu_recovery_rid) eqn:E; [inversion H; subst; exact Hin|].
    destruct (existsb _ (st_mb s)); inversion H; subst; [exact Hin|].
    simpl. apply in_map_iff. exists m. split; [|exact Hin].
    destruct (mb_id m =? iid) eqn:E2; [|reflexivity].
    exfalso. apply N.eqb_eq in E2. pose proof (wf_mb_id s W m Hin) as F2. rewrite E2, F in F2.
    inversion F2; subst m0. rewrite Hrid, N.eqb_refl in E. discriminate.
Qed.
