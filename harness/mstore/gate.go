package mstore

import (
	"context"
	"sync"

	"github.com/ProtonMail/gluon/db"
	"github.com/ProtonMail/gluon/imap"
)

// Gate parks one database call of the (only) command in flight until the harness releases it: the harness arms the
// gate for the next Write (or Read) call, starts the command, waits until the call is parked, lets another session
// finish its own commands, and releases.
type Gate struct {
	mu      sync.Mutex
	armed   string // "", "write", "read"
	want    int    // number of calls to park
	got     int
	parked  chan struct{} // closed when `want` calls are parked
	release chan struct{}
}

// Arm parks the next call of the given kind.
func (g *Gate) Arm(kind string) { g.ArmN(kind, 1) }

// ArmN parks the next n calls of the given kind (commands of n different sessions).
func (g *Gate) ArmN(kind string, n int) {
	g.mu.Lock()
	defer g.mu.Unlock()
	g.armed = kind
	g.want, g.got = n, 0
	g.parked = make(chan struct{})
	g.release = make(chan struct{})
}

func (g *Gate) Disarm() {
	g.mu.Lock()
	defer g.mu.Unlock()
	g.armed = ""
}

func (g *Gate) Parked() <-chan struct{} {
	g.mu.Lock()
	defer g.mu.Unlock()
	return g.parked
}

func (g *Gate) Release() {
	g.mu.Lock()
	r := g.release
	g.mu.Unlock()
	if r != nil {
		select {
		case <-r:
		default:
			close(r)
		}
	}
}

func (g *Gate) pass(kind string) {
	g.mu.Lock()
	if g.armed != kind || g.got >= g.want {
		g.mu.Unlock()
		return
	}
	g.got++
	r := g.release
	if g.got == g.want {
		g.armed = ""
		close(g.parked)
	}
	g.mu.Unlock()
	<-r
}

type GateIface struct {
	Inner db.ClientInterface
	G     *Gate
}

func (i GateIface) New(path string, userID string) (db.Client, bool, error) {
	c, isNew, err := i.Inner.New(path, userID)
	if err != nil {
		return nil, false, err
	}
	return &gateClient{inner: c, G: i.G}, isNew, nil
}

func (i GateIface) Delete(path string, userID string) error { return i.Inner.Delete(path, userID) }

type gateClient struct {
	inner db.Client
	G     *Gate
}

func (c *gateClient) Init(ctx context.Context, generator imap.UIDValidityGenerator) error {
	return c.inner.Init(ctx, generator)
}

func (c *gateClient) Read(ctx context.Context, op func(context.Context, db.ReadOnly) error) error {
	c.G.pass("read")
	return c.inner.Read(ctx, op)
}

func (c *gateClient) Write(ctx context.Context, op func(context.Context, db.Transaction) error) error {
	c.G.pass("write")
	return c.inner.Write(ctx, op)
}

func (c *gateClient) Close() error { return c.inner.Close() }
