package main

// Scenario "however the message entered the mailbox": RFC822.SIZE = len(BODY[]) = len(HEADER) + len(TEXT), and BODY[]
// is the original literal plus one ID line, for messages that were
//   - appended directly,
//   - created by the connector (MessagesCreated update),
//   - refused by the connector on APPEND (kept in "Recovered Messages") and then MOVEd / COPYed out of it,
//   - COPYed between ordinary mailboxes.
// RFC822.SIZE comes from the database row, BODY[] from the store: every path has to write both consistently.

import (
	"bytes"
	"errors"
	"fmt"
	"os"
	"path/filepath"
	"strconv"
	"time"

	"github.com/ProtonMail/gluon/imap"

	"verifharness/common"
	"verifharness/imapc"
	"verifharness/mimegen"
	"verifharness/srv"
)

func sizeScenario(ctx *common.Ctx) error {
	res := ctx.Res
	rng := ctx.Rng
	s, err := srv.Start(srv.Options{})
	if err != nil {
		return err
	}
	defer s.Stop()
	c, err := s.Login()
	if err != nil {
		return err
	}
	defer c.Close()
	c.Timeout = 60 * time.Second
	conn := s.Conn0()
	for _, m := range []string{"demo", "other"} {
		if r, err := c.Cmd("CREATE " + m); err != nil || r.Status != "OK" {
			return fmt.Errorf("create %s: %v %v", m, err, r.Text)
		}
	}
	gen := func(tag string) []byte {
		g := &mimegen.Gen{Rng: rng, MaxBody: 60, ASCII: true, NoTopMsg: true, NoMsgInMsg: true}
		tree := g.Tree(rng.Range(0, 1), true, false)
		tree.Env.Subject = "entered by " + tag
		return mimegen.Render(tree, &mimegen.Layout{Rng: rng})
	}
	type entry struct {
		how string
		lit []byte
	}
	var want []entry // messages expected in "demo", in any order
	cur := func(step string) { ctx.Current("SIZE-SCENARIO "+step, map[string]string{"step": step}) }

	// 1. direct APPEND
	cur("append")
	a := gen("append")
	if r, err := c.Append("demo", "", a); err != nil || r.Status != "OK" {
		return fmt.Errorf("append: %v %v", err, r.Text)
	}
	want = append(want, entry{"APPEND", a})

	// 2. two messages the remote refuses: they are kept in the recovery mailbox
	var recovered [][]byte
	for i := 0; i < 2; i++ {
		cur("refused append")
		m := gen(fmt.Sprintf("recovery %d", i))
		conn.SetFailNext("CreateMessage", errors.New("remote refuses this message"))
		r, err := c.Append("demo", "", m)
		if err != nil {
			return fmt.Errorf("refused append: %v", err)
		}
		if r.Status == "OK" {
			res.Infra("size scenario: the refused APPEND was answered OK")
			return nil
		}
		recovered = append(recovered, m)
	}
	cur("move/copy out of the recovery mailbox")
	if r, err := c.Cmd(`SELECT "Recovered Messages"`); err != nil || r.Status != "OK" {
		res.Infra("size scenario: cannot select the recovery mailbox: %v %v", err, r.Text)
		return nil
	}
	if r, err := c.Cmd("COPY 2 demo"); err != nil || r.Status != "OK" {
		res.Infra("size scenario: COPY out of the recovery mailbox: %v %v", err, r.Text)
		return nil
	}
	if r, err := c.Cmd("MOVE 1 demo"); err != nil || r.Status != "OK" {
		res.Infra("size scenario: MOVE out of the recovery mailbox: %v %v", err, r.Text)
		return nil
	}
	want = append(want, entry{"RECOVERED+COPY", recovered[1]}, entry{"RECOVERED+MOVE", recovered[0]})

	// 3. created by the connector
	cur("connector update")
	if mboxID, ok := conn.MailboxIDByName([]string{"demo"}); ok {
		lit := gen("connector")
		pm, err := imap.NewParsedMessage(lit)
		if err != nil {
			return err
		}
		remoteID := conn.NewMessageID()
		u := imap.NewMessagesCreated(false, &imap.MessageCreated{
			Message:       imap.Message{ID: remoteID, Flags: imap.NewFlagSet(), Date: time.Now()},
			Literal:       lit,
			MailboxIDs:    []imap.MailboxID{mboxID},
			ParsedMessage: pm,
		})
		if err, acked := conn.Push(u, 30*time.Second); err != nil || !acked {
			res.Infra("size scenario: connector update not applied: %v acked=%v", err, acked)
			return nil
		}
		want = append(want, entry{"CONNECTOR", lit})

		// 3b. a second connector message whose content the connector then replaces (MessageUpdated with a new literal)
		cur("connector message updated")
		old := gen("connector, first version")
		pmOld, err := imap.NewParsedMessage(old)
		if err != nil {
			return err
		}
		rid2 := conn.NewMessageID()
		u1 := imap.NewMessagesCreated(false, &imap.MessageCreated{
			Message: imap.Message{ID: rid2, Flags: imap.NewFlagSet(), Date: time.Now()}, Literal: old, MailboxIDs: []imap.MailboxID{mboxID}, ParsedMessage: pmOld})
		if err, acked := conn.Push(u1, 30*time.Second); err != nil || !acked {
			res.Infra("size scenario: connector update not applied: %v acked=%v", err, acked)
			return nil
		}
		newer := gen("connector, second version")
		pmNew, err := imap.NewParsedMessage(newer)
		if err != nil {
			return err
		}
		u2 := imap.NewMessageUpdated(imap.Message{ID: rid2, Flags: imap.NewFlagSet(), Date: time.Now()}, newer, []imap.MailboxID{mboxID}, pmNew, false)
		if err, acked := conn.Push(u2, 30*time.Second); err != nil || !acked {
			res.Infra("size scenario: MessageUpdated not applied: %v acked=%v", err, acked)
			return nil
		}
		want = append(want, entry{"CONNECTOR-UPDATED", newer})
	} else {
		res.Infra("size scenario: mailbox id of demo unknown to the connector")
		return nil
	}

	// 4. COPY everything to the other mailbox
	cur("copy")
	if r, err := c.Cmd("SELECT demo"); err != nil || r.Status != "OK" {
		return fmt.Errorf("select demo: %v %v", err, r.Text)
	}
	if r, err := c.Cmd("COPY 1:* other"); err != nil || r.Status != "OK" {
		res.Infra("size scenario: COPY 1:* other: %v %v", err, r.Text)
		return nil
	}

	for _, box := range []string{"demo", "other"} {
		r, err := c.Cmd("SELECT " + box)
		if err != nil || r.Status != "OK" {
			return fmt.Errorf("select %s: %v %v", box, err, r.Text)
		}
		n := 0
		for _, e := range imapc.Evs(r) {
			if e.Kind == "EXISTS" {
				n = e.N
			}
		}
		if n != len(want) {
			res.Fail("SIZE-SCENARIO message count in "+box, fmt.Sprintf("%d messages, expected %d", n, len(want)), nil)
			continue
		}
		seen := map[string]bool{}
		for seq := 1; seq <= n; seq++ {
			cur(fmt.Sprintf("fetch %s %d", box, seq))
			fr, err := fetch(c, seq, "RFC822.SIZE BODY.PEEK[] BODY.PEEK[HEADER] BODY.PEEK[TEXT]")
			if err != nil {
				return err
			}
			res.Evaluations++
			if fr.Status != "OK" || !fr.Parsed || len(fr.Items) < 4 {
				res.Fail("SIZE-SCENARIO fetch malformed", fmt.Sprintf("%s %d: status=%s parsed=%v", box, seq, fr.Status, fr.Parsed), nil)
				continue
			}
			size, _ := strconv.Atoi(fr.Items[0].Text)
			body, hdr, txt := fr.Items[1].Lit, fr.Items[2].Lit, fr.Items[3].Lit
			how := "?"
			for _, w := range want {
				if m := reIDLine.FindSubmatch(body); m != nil && bytes.Equal(body[len(m[0]):], w.lit) {
					how = w.how
				}
			}
			if box == "other" && how != "?" {
				how += "+COPY"
			}
			seen[how] = true
			res.Count("size-scenario " + how)
			if n := bytes.Count(body, []byte("X-Pm-Gluon-Id:")); n != 1 {
				res.Fail(fmt.Sprintf("BODY[]-HAS-%d-ID-LINES", n), fmt.Sprintf("%s message %d: %s", box, seq, short(body)), map[string]string{"message": short(body)})
				continue
			}
			if how == "?" {
				res.Fail("SIZE-SCENARIO BODY[] is not an entered message plus ID line", fmt.Sprintf("%s %d: %s", box, seq, short(body)), nil)
				continue
			}
			if size != len(body) || len(body) != len(hdr)+len(txt) {
				res.Fail("RFC822.SIZE-MISMATCH entered-by="+how, fmt.Sprintf("%s message %d: RFC822.SIZE %d, BODY[] %d bytes, HEADER %d + TEXT %d", box, seq, size, len(body), len(hdr), len(txt)),
					map[string]string{"how": how, "message": short(body)})
				continue
			}
			res.Nontrivial("size-scenario:" + how)

			// the cache file of an appended message is lost: the literal is downloaded from the connector again; the
			// first and every later FETCH must give the same BODY[] (one ID line) that RFC822.SIZE announces
			if how == "APPEND" && box == "demo" {
				m := reIDLine.FindSubmatch(body)
				removed := 0
				filepath.Walk(s.Dir, func(path string, info os.FileInfo, err error) error {
					if err == nil && !info.IsDir() && info.Name() == string(m[1]) {
						if os.Remove(path) == nil {
							removed++
						}
					}
					return nil
				})
				if removed != 1 {
					res.Infra("size scenario: cache file of %s not found (%d)", m[1], removed)
					continue
				}
				for round := 1; round <= 3; round++ {
					cur(fmt.Sprintf("fetch %d after the cache file was lost", round))
					f2, err := fetch(c, seq, "RFC822.SIZE BODY.PEEK[] RFC822")
					if err != nil {
						return err
					}
					res.Evaluations++
					if f2.Status != "OK" || !f2.Parsed || len(f2.Items) < 3 {
						res.Fail("SIZE-SCENARIO fetch after cache loss not answered", fmt.Sprintf("round %d status=%s", round, f2.Status), nil)
						break
					}
					sz, _ := strconv.Atoi(f2.Items[0].Text)
					if sz != len(f2.Items[1].Lit) || !bytes.Equal(f2.Items[1].Lit, body) || !bytes.Equal(f2.Items[2].Lit, body) {
						res.Fail(fmt.Sprintf("BODY[]-CHANGES-AFTER-CACHE-LOSS fetch=%d", round),
							fmt.Sprintf("RFC822.SIZE %d; BODY[] %d bytes, RFC822 %d bytes, before the loss %d bytes; ID lines now %d", sz, len(f2.Items[1].Lit), len(f2.Items[2].Lit), len(body), bytes.Count(f2.Items[1].Lit, []byte("X-Pm-Gluon-Id:"))),
							map[string]string{"message": short(f2.Items[1].Lit)})
						break
					}
					res.Count("size-scenario CACHE-LOST")
					res.Nontrivial(fmt.Sprintf("size-scenario:cache-lost-%d", round))
				}
			}
		}
		if len(seen) != len(want) {
			res.Fail("SIZE-SCENARIO missing message in "+box, fmt.Sprintf("found %v", seen), nil)
		}
	}
	return nil
}
