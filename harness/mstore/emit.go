package mstore

import (
	"fmt"
	"os"
	"strings"
)

func removeAll(dir string) { os.RemoveAll(dir) }

// Names maps wire mailbox names to the model's paths (list N): "Recovered Messages" (any case) = 0, INBOX = 1,
// other components are numbered from 2 in order of first use.
type Names struct{ comp map[string]int }

func NewNames() *Names { return &Names{comp: map[string]int{}} }

func (n *Names) Comp(c string) int {
	if strings.EqualFold(c, RecoveryName) {
		return 0
	}
	if strings.EqualFold(c, "INBOX") {
		return 1
	}
	if v, ok := n.comp[c]; ok {
		return v
	}
	v := len(n.comp) + 2
	n.comp[c] = v
	return v
}

func (n *Names) Path(name string) string {
	if name == "" {
		return "[]"
	}
	parts := strings.Split(name, "/")
	s := make([]string, len(parts))
	for i, p := range parts {
		s[i] = fmt.Sprintf("%d%%N", n.Comp(p))
	}
	return "[" + strings.Join(s, ";") + "]"
}

func zlist(xs []int) string {
	s := make([]string, len(xs))
	for i, x := range xs {
		s[i] = fmt.Sprintf("%d%%Z", x)
	}
	return "[" + strings.Join(s, ";") + "]"
}

func cb(b bool) string {
	if b {
		return "true"
	}
	return "false"
}

// CoqOp renders an operation as a term of Model.MailStore.op.
func (n *Names) CoqOp(o Op) string {
	switch o.Kind {
	case "create":
		return fmt.Sprintf("OCreate %s %s", n.Path(o.Name), cb(o.RemoteOK))
	case "delete":
		return fmt.Sprintf("ODelete %s %s", n.Path(o.Name), cb(o.RemoteOK))
	case "rename":
		return fmt.Sprintf("ORename %s %s %s", n.Path(o.Name), n.Path(o.Name2), cb(o.RemoteOK))
	case "append":
		r := map[string]string{"ok": "RemOk", "fail": "RemFail", "size": "RemSize"}[o.Remote]
		return fmt.Sprintf("OAppend %s %d%%N %s", n.Path(o.Name), o.Lit, r)
	case "copy":
		return fmt.Sprintf("OCopy %s %s %s %s %s", n.Path(o.Name), zlist(o.UIDs), n.Path(o.Name2), cb(o.CreateOK), cb(o.LabelOK))
	case "move":
		return fmt.Sprintf("OMove %s %s %s %s %s", n.Path(o.Name), zlist(o.UIDs), n.Path(o.Name2), cb(o.CreateOK), cb(o.LabelOK))
	case "expunge":
		return fmt.Sprintf("OExpunge %s %s %s", n.Path(o.Name), zlist(o.UIDs), cb(o.RemoteOK))
	case "conncreate":
		return fmt.Sprintf("OConnCreate %s", n.Path(o.Name))
	case "connmsgs":
		var b []string
		for _, m := range o.Batch {
			var ps []string
			for _, x := range m.Mboxes {
				ps = append(ps, n.Path(x))
			}
			b = append(b, fmt.Sprintf("(%d%%N, [%s])", m.Lit, strings.Join(ps, ";")))
		}
		return "OConnMsgs [" + strings.Join(b, ";") + "]"
	case "connbump":
		return "OConnBump"
	case "restart":
		return "ORestart"
	}
	return "ORestart"
}

func CoqObs(ob Obs) string {
	k := map[string]string{"ok": "KOk", "nolimit": "KNoLimit", "no": "KNo", "noknown": "KNoKnown", "nosize": "KNoSize"}[ob.Class]
	if k == "" {
		k = "KOther"
	}
	var p []string
	for _, x := range ob.Pairs {
		p = append(p, fmt.Sprintf("(%d%%Z,%d%%Z)", x[0], x[1]))
	}
	return fmt.Sprintf("mkObs %s [%s]", k, strings.Join(p, ";"))
}

func (n *Names) CoqDump(d Dump) string {
	var ms []string
	for _, m := range d.Mboxes {
		var rows []string
		for _, r := range m.Rows {
			lit := r.Lit
			if lit < 0 {
				lit = 999999
			}
			rows = append(rows, fmt.Sprintf("(%d%%Z,%d%%N)", r.UID, lit))
		}
		ms = append(ms, fmt.Sprintf("mkDump %s %d%%Z %d%%Z [%s]", n.Path(m.Name), m.UIDV, m.UIDNext, strings.Join(rows, ";")))
	}
	return "[" + strings.Join(ms, ";\n     ") + "]"
}

func (l *Literals) CoqHash() string {
	var e []string
	for i, c := range l.Class {
		if c < 0 {
			e = append(e, fmt.Sprintf("(%d%%N,None)", i))
		} else {
			e = append(e, fmt.Sprintf("(%d%%N,Some %d%%N)", i, c))
		}
	}
	return "[" + strings.Join(e, ";") + "]"
}

// Step of a recorded case: an operation with its observation, a generator reset (after a restart), or an
// interleaving step of APPEND (check / write).
type Step struct {
	Op     *Op
	Obs    Obs
	Gen    int    // RGen
	IKind  string // "check" | "write"
	ISess  int
	IName  string
	ILit   int
	IRem   string
	IsGen  bool
	IsStep bool
	Dedup  bool // executed with a de-duplicating remote: RD instead of RS
}

func (n *Names) CoqStep(s Step) string {
	switch {
	case s.IsGen:
		return fmt.Sprintf("RGen %d%%Z", s.Gen)
	case s.IKind == "check":
		return fmt.Sprintf("RI (ICheck %d%%N %s)", s.ISess, n.Path(s.IName))
	case s.IKind == "write":
		r := map[string]string{"ok": "RemOk", "fail": "RemFail", "size": "RemSize"}[s.IRem]
		return fmt.Sprintf("RI (IWrite %d%%N %d%%N %s)", s.ISess, s.ILit, r)
	}
	if s.Op.Kind == "connupdate" {
		nl := "None"
		if s.Op.Replace {
			nl = fmt.Sprintf("(Some %d%%N)", s.Op.Lit)
		}
		var ps []string
		for _, x := range s.Op.Names {
			ps = append(ps, n.Path(x))
		}
		return fmt.Sprintf("RU %s %d%%Z %s [%s] (%s)", n.Path(s.Op.Name), s.Op.UIDs[0], nl, strings.Join(ps, ";"), CoqObs(s.Obs))
	}
	if s.Dedup {
		ob := s.Obs
		if (s.Op.Kind == "copy" || s.Op.Kind == "move") && strings.EqualFold(s.Op.Name, RecoveryName) {
			ob.Pairs = nil // COPYUID under de-duplication is not modelled
		}
		return fmt.Sprintf("RD (%s) (%s)", n.CoqOp(*s.Op), CoqObs(ob))
	}
	return fmt.Sprintf("RS (%s) (%s)", n.CoqOp(*s.Op), CoqObs(s.Obs))
}

// CoqCase renders one case for Run/RunMailStore.v.
func CoqCase(id int, lim *[4]uint32, lits *Literals, g0 int, names *Names, steps []Step, final Dump) string {
	// cfg: maxMailboxes maxMessages maxUIDValidity maxUID
	cfg := "mkCfg 4294967295 4294967295 4294967295 4294967295"
	if lim != nil {
		cfg = fmt.Sprintf("mkCfg %d %d %d %d", lim[0], lim[1], lim[3], lim[2])
	}
	var ss []string
	for _, s := range steps {
		ss = append(ss, names.CoqStep(s))
	}
	return fmt.Sprintf("mkCase %d (%s) %s %d%%Z\n    [%s]\n    %s %s", id, cfg, lits.CoqHash(), g0,
		strings.Join(ss, ";\n     "), names.CoqDump(final), cb(final.Listed))
}
