(* C02: lemmas about the update pipeline of Model/Session.v *)
From Coq Require Import List NArith Bool Lia.
From Gluon Require Import Model.Responders Model.Session Proofs.MirrorProofs Proofs.PopProofs.
Import ListNotations.
Open Scope N_scope.

(* the repaired filters: an update about a message whose EXISTS is still pending is not dropped *)
Lemma pending_exists_passes m u f tg og st :
  In (RExists m u f tg og) (s_res st) -> has_or_pending m st = true.
Proof.
  intros H. unfold has_or_pending. apply orb_true_iff. right. apply existsb_exists.
  exists (RExists m u f tg og). split; [exact H|]. apply N.eqb_refl.
Qed.

Lemma expunge_not_dropped_while_exists_pending mb m u f tg og s :
  ss_sel s = Some mb -> In (RExists m u f tg og) (s_res (ss_st s)) -> upd_filter (UExpunge mb m) s = true.
Proof.
  intros Hsel Hin. unfold upd_filter. rewrite Hsel, N.eqb_refl. cbn [andb].
  eapply pending_exists_passes; eauto.
Qed.

Lemma remote_flag_not_dropped_while_exists_pending mb m u f tg og s flag add :
  ss_sel s = Some mb -> In (RExists m u f tg og) (s_res (ss_st s)) -> upd_filter (URemoteFlag m flag add) s = true.
Proof.
  intros Hsel Hin. unfold upd_filter. rewrite Hsel. eapply pending_exists_passes; eauto.
Qed.

(* a message that arrives and is removed again before the session looked: EXISTS then EXPUNGE, and the snapshot is
   back where it was *)
Lemma remove_insert_by_uid x s : snap_has (sm_id x) s = false -> snap_remove (sm_id x) (snap_insert_by_uid x s) = s.
Proof.
  induction s as [|y r IH]; cbn [snap_has existsb snap_insert_by_uid snap_remove].
  - intros _. rewrite N.eqb_refl. reflexivity.
  - intros H. apply orb_false_iff in H as [H1 H2].
    destruct (sm_uid x <? sm_uid y).
    + cbn [snap_remove]. rewrite N.eqb_refl. reflexivity.
    + cbn [snap_remove]. rewrite H1. f_equal. apply IH. exact H2.
Qed.

Lemma seq_of_insert_some x s k0 : exists k, snap_seq_of (sm_id x) (snap_insert_by_uid x s) k0 = Some k.
Proof.
  revert k0. induction s as [|y r IH]; intros k0; cbn [snap_insert_by_uid snap_seq_of].
  - rewrite N.eqb_refl. eexists; reflexivity.
  - destruct (sm_uid x <? sm_uid y); cbn [snap_seq_of].
    + rewrite N.eqb_refl. eexists; reflexivity.
    + destruct (sm_id y =? sm_id x); [eexists; reflexivity|]. apply IH.
Qed.

Theorem exists_then_expunge_nets_zero m u f tg s s1 o1 :
  snap_has m s = false -> handle (RExists m u f tg false) s = Some (s1, o1) ->
  exists k, handle (RExpunge m) s1 = Some (s, [PExpunge k]).
Proof.
  intros Hno Hh. cbn [handle] in Hh. rewrite Hno in Hh. injection Hh as <- _.
  remember (mkSmsg m u (if tg then f else fl_rem f [fl_recent])) as x eqn:Ex.
  assert (Hid: sm_id x = m) by (subst x; reflexivity).
  destruct (seq_of_insert_some x s 1) as [k Hk]. rewrite Hid in Hk. exists k.
  cbn [handle]. rewrite Hk. rewrite <- Hid. rewrite (remove_insert_by_uid x s); [reflexivity|]. rewrite Hid. exact Hno.
Qed.

(* after the queue is drained, a permitting flush leaves nothing pending *)
Lemma flush_true_nothing_pending st st' out : flush true st = FOk st' out -> s_res st' = [].
Proof. exact (flush_true_empties st st' out). Qed.

(* ---------- the model's filters are the filters of the source ---------- *)
From Coq Require Import String.
From Gluon Require Import Gen.FactsFilters Model.FlushPolicy Model.FilterPolicy.

Theorem model_filters_are_source_filters u s : src_filter u s = Some (upd_filter u s).
Proof.
  unfold src_filter, upd_filter. destruct u as [mb items og | mb m | mb parts og si | m fl ad]; vm_compute src_filter_type;
    cbv [FlushPolicy.lookup filter_sem String.eqb Ascii.eqb Bool.eqb atoms_sem atom_sem upd_mbox upd_msg];
    destruct (ss_sel s) as [sel|]; cbn [andb]; rewrite ?andb_true_r; try reflexivity.
Qed.
