package main

import (
	"fmt"
	"go/ast"
	"go/token"
	"strings"
)

// FactsConnUpdates (C06): two syntactic facts of internal/backend/connector_updates.go the model relies on.
//   - applyMailboxUpdated decides "nothing to rename" with the EXACT comparison `currentName == remoteName`
//     (a change of letter case is a rename);
//   - applyMessageMailboxesUpdated returns `append(stateUpdates, flagUpdates...)`: the membership updates (EXISTS /
//     EXPUNGE) of the update are queued BEFORE its flag updates.
func init() { register("ConnUpdates", extractConnUpdates) }

func extractConnUpdates(t *T) (string, error) {
	var sb strings.Builder
	sb.WriteString("From Coq Require Import Bool.\n\n")
	def := func(name, val, comment string) {
		if val == "" {
			fmt.Fprintf(&sb, "(* %s : pattern not found *)\n", name)
			return
		}
		fmt.Fprintf(&sb, "(* %s *)\nDefinition %s : bool := %s.\n", comment, name, val)
	}
	f, err := t.ParseFile("internal/backend/connector_updates.go")
	if err != nil {
		return "", err
	}
	v := ""
	if fd := FuncDecl(f, "user", "applyMailboxUpdated"); fd != nil {
		ast.Inspect(fd.Body, func(n ast.Node) bool {
			is, ok := n.(*ast.IfStmt)
			if !ok {
				return true
			}
			mentions := func(e ast.Expr) bool {
				found := false
				ast.Inspect(e, func(m ast.Node) bool {
					if id, ok := m.(*ast.Ident); ok && id.Name == "currentName" {
						found = true
					}
					return true
				})
				return found
			}
			if !mentions(is.Cond) {
				return true
			}
			v = "false"
			if be, ok := is.Cond.(*ast.BinaryExpr); ok && be.Op == token.EQL && isIdentNamed(be.X, "currentName") && isIdentNamed(be.Y, "remoteName") {
				v = "true"
			}
			return false
		})
	}
	def("mailbox_rename_compares_exactly", v, "applyMailboxUpdated: `if currentName == remoteName { return nil }`")
	v = ""
	if fd := FuncDecl(f, "user", "applyMessageMailboxesUpdated"); fd != nil {
		ast.Inspect(fd.Body, func(n ast.Node) bool {
			rs, ok := n.(*ast.ReturnStmt)
			if !ok || len(rs.Results) != 2 {
				return true
			}
			c, ok := rs.Results[0].(*ast.CallExpr)
			if !ok || !isIdentNamed(c.Fun, "append") || len(c.Args) != 2 {
				return true
			}
			v = "false"
			if isIdentNamed(c.Args[0], "stateUpdates") && isIdentNamed(c.Args[1], "flagUpdates") && c.Ellipsis != token.NoPos {
				v = "true"
			}
			return true
		})
	}
	def("mailbox_updates_before_flag_updates", v, "applyMessageMailboxesUpdated: `return append(stateUpdates, flagUpdates...), nil`")
	// applyMailboxCreated hands the three sets of the update to CreateMailbox, each in its place
	v = ""
	if fd := FuncDecl(f, "user", "applyMailboxCreated"); fd != nil {
		ast.Inspect(fd.Body, func(n ast.Node) bool {
			c, ok := n.(*ast.CallExpr)
			if !ok {
				return true
			}
			sel, ok := c.Fun.(*ast.SelectorExpr)
			if !ok || sel.Sel.Name != "CreateMailbox" || len(c.Args) != 7 {
				return true
			}
			v = "true"
			for i, want := range []string{"Flags", "PermanentFlags", "Attributes"} {
				if strings.Join(strings.Fields(t.Src("internal/backend/connector_updates.go", c.Args[3+i])), "") != "update.Mailbox."+want {
					v = "false"
				}
			}
			return false
		})
	}
	def("mailbox_created_passes_three_sets", v, "applyMailboxCreated: tx.CreateMailbox(ctx, id, name, update.Mailbox.Flags, update.Mailbox.PermanentFlags, update.Mailbox.Attributes, uidValidity)")
	// the LiteralSize of every message row a connector update inserts is the size returned by the function that builds the
	// stored literal (rfc822.SetHeaderValueNoMemCopy), not the length of the update's raw literal
	v = ""
	for _, fn := range []string{"applyMessagesCreated", "applyMessageUpdated"} {
		fd := FuncDecl(f, "user", fn)
		if fd == nil {
			v = ""
			break
		}
		sizeVars := map[string]bool{}
		ast.Inspect(fd.Body, func(n ast.Node) bool {
			as, ok := n.(*ast.AssignStmt)
			if !ok || len(as.Rhs) != 1 || len(as.Lhs) != 3 {
				return true
			}
			if c, ok := as.Rhs[0].(*ast.CallExpr); ok {
				if sel, ok := c.Fun.(*ast.SelectorExpr); ok && sel.Sel.Name == "SetHeaderValueNoMemCopy" {
					if id, ok := as.Lhs[1].(*ast.Ident); ok && id.Name != "_" {
						sizeVars[id.Name] = true
					}
				}
			}
			return true
		})
		found := false
		ast.Inspect(fd.Body, func(n ast.Node) bool {
			kv, ok := n.(*ast.KeyValueExpr)
			if !ok || !isIdentNamed(kv.Key, "LiteralSize") {
				return true
			}
			found = true
			if v == "" {
				v = "true"
			}
			if id, ok := kv.Value.(*ast.Ident); !ok || !sizeVars[id.Name] {
				v = "false"
			}
			return true
		})
		if !found {
			v = ""
			break
		}
	}
	def("created_size_is_stored_size", v, "applyMessagesCreated / applyMessageUpdated: `LiteralSize: literalSize` with `_, literalSize, _ := rfc822.SetHeaderValueNoMemCopy(...)`")
	// the four mailbox updates refuse the recovery mailbox before doing anything else: the FIRST statement of the function
	// is `if <id of the update> == <id of the recovery mailbox> { return fmt.Errorf(...) }`; MailboxCreated / Deleted /
	// Updated name a mailbox by remote id (compared with ids.GluonInternalRecoveryMailboxRemoteID), MailboxIDChanged by
	// INTERNAL id (compared with user.recoveryMailboxID)
	{
		want := map[string]string{
			"applyMailboxCreated":   "update.Mailbox.ID==ids.GluonInternalRecoveryMailboxRemoteID",
			"applyMailboxDeleted":   "update.MailboxID==ids.GluonInternalRecoveryMailboxRemoteID",
			"applyMailboxUpdated":   "update.MailboxID==ids.GluonInternalRecoveryMailboxRemoteID",
			"applyMailboxIDChanged": "update.InternalID==user.recoveryMailboxID",
		}
		v = "true"
		var badFns []string
		for _, fn := range []string{"applyMailboxCreated", "applyMailboxDeleted", "applyMailboxUpdated", "applyMailboxIDChanged"} {
			ok := false
			if fd := FuncDecl(f, "user", fn); fd != nil && len(fd.Body.List) > 0 {
				if is, isIf := fd.Body.List[0].(*ast.IfStmt); isIf && is.Init == nil && is.Else == nil && len(is.Body.List) == 1 {
					cond := strings.Join(strings.Fields(t.Src("internal/backend/connector_updates.go", is.Cond)), "")
					if rs, isRet := is.Body.List[0].(*ast.ReturnStmt); isRet && cond == want[fn] && len(rs.Results) == 1 {
						if c, isCall := rs.Results[0].(*ast.CallExpr); isCall {
							if sel, isSel := c.Fun.(*ast.SelectorExpr); isSel && sel.Sel.Name == "Errorf" {
								ok = true
							}
						}
					}
				}
			}
			if !ok {
				v = "false"
				badFns = append(badFns, fn)
			}
		}
		def("recovery_mailbox_guards_first", v, fmt.Sprintf("applyMailboxCreated/Deleted/Updated: first statement `if <remote id> == ids.GluonInternalRecoveryMailboxRemoteID { return fmt.Errorf }`; applyMailboxIDChanged: `if update.InternalID == user.recoveryMailboxID { return fmt.Errorf }`; not so in: %v", badFns))
	}
	if err := flatChunkFacts(t, &sb); err != nil {
		return "", err
	}
	return sb.String(), nil
}

// flatChunkFacts: the chunk loops of the SQLite layer that cut a FLAT argument list (k values per row) into chunks:
// `for _, chunk := range xslices.Chunk(flat, N)` whose statement is built with `xslices.Repeat("(?,..,?)", len(chunk)/K)`.
// Emitted: db.ChunkLimit and, per such loop, (question marks of the group, K, N). The rows stay whole iff the group size
// divides N (Proofs/ChunkTuples.v); writeOps.CreateMessages inserts the flags of a MessagesCreated batch this way.
func flatChunkFacts(t *T, sb *strings.Builder) error {
	cf, err := t.ParseFile("db/client.go")
	if err != nil {
		return err
	}
	limit := int64(-1)
	ast.Inspect(cf, func(n ast.Node) bool {
		vs, ok := n.(*ast.ValueSpec)
		if !ok {
			return true
		}
		for i, nm := range vs.Names {
			if nm.Name == "ChunkLimit" && i < len(vs.Values) {
				if bl, ok := vs.Values[i].(*ast.BasicLit); ok && bl.Kind == token.INT {
					fmt.Sscanf(bl.Value, "%d", &limit)
				}
			}
		}
		return true
	})
	if limit <= 0 {
		sb.WriteString("(* conn_chunk_limit : const ChunkLimit = <integer literal> not found in db/client.go *)\n")
		return nil
	}
	intLit := func(e ast.Expr) (int64, bool) {
		bl, ok := e.(*ast.BasicLit)
		if !ok || bl.Kind != token.INT {
			return 0, false
		}
		var v int64
		_, err := fmt.Sscanf(bl.Value, "%d", &v)
		return v, err == nil
	}
	isChunkLimit := func(e ast.Expr) bool {
		sel, ok := e.(*ast.SelectorExpr)
		return ok && sel.Sel.Name == "ChunkLimit" && isIdentNamed(sel.X, "db")
	}
	chunkCall := func(e ast.Expr) (int64, bool) { // xslices.Chunk(X, N): the value of N
		c, ok := e.(*ast.CallExpr)
		if !ok || len(c.Args) != 2 {
			return 0, false
		}
		sel, ok := c.Fun.(*ast.SelectorExpr)
		if !ok || sel.Sel.Name != "Chunk" || !isIdentNamed(sel.X, "xslices") {
			return 0, false
		}
		if isChunkLimit(c.Args[1]) {
			return limit, true
		}
		if be, ok := c.Args[1].(*ast.BinaryExpr); ok && be.Op == token.QUO && isChunkLimit(be.X) {
			if d, ok := intLit(be.Y); ok && d > 0 {
				return limit / d, true
			}
		}
		return -1, true // a chunk loop whose size is not understood
	}
	type grp struct {
		fn      string
		q, k, n int64
	}
	var groups []grp
	unknown := 0
	for _, file := range []string{"internal/db_impl/sqlite3/write_ops.go", "internal/db_impl/sqlite3/read_ops.go"} {
		f, err := t.ParseFile(file)
		if err != nil {
			return err
		}
		for _, d := range f.Decls {
			fd, ok := d.(*ast.FuncDecl)
			if !ok || fd.Body == nil {
				continue
			}
			ast.Inspect(fd.Body, func(n ast.Node) bool {
				rs, ok := n.(*ast.RangeStmt)
				if !ok {
					return true
				}
				size, ok := chunkCall(rs.X)
				if !ok {
					return true
				}
				lv, _ := rs.Value.(*ast.Ident)
				// the statements of THIS loop (nested chunk loops are visited on their own)
				var walk func(m ast.Node) bool
				walk = func(m ast.Node) bool {
					if inner, ok := m.(*ast.RangeStmt); ok && inner != rs {
						if _, isChunk := chunkCall(inner.X); isChunk {
							return false
						}
					}
					c, ok := m.(*ast.CallExpr)
					if !ok || len(c.Args) != 2 {
						return true
					}
					sel, ok := c.Fun.(*ast.SelectorExpr)
					if !ok || sel.Sel.Name != "Repeat" || !isIdentNamed(sel.X, "xslices") {
						return true
					}
					lit, ok := c.Args[0].(*ast.BasicLit)
					if !ok || lit.Kind != token.STRING {
						return true
					}
					be, ok := c.Args[1].(*ast.BinaryExpr)
					if !ok || be.Op != token.QUO {
						return true // len(chunk): one group per element, the list is not flat
					}
					k, okk := intLit(be.Y)
					lc, okl := be.X.(*ast.CallExpr)
					if !okk || !okl || !isIdentNamed(lc.Fun, "len") || len(lc.Args) != 1 || lv == nil || !isIdentNamed(lc.Args[0], lv.Name) {
						unknown++
						return true
					}
					if size < 0 {
						unknown++
						return true
					}
					groups = append(groups, grp{fd.Name.Name, int64(strings.Count(lit.Value, "?")), k, size})
					return true
				}
				ast.Inspect(rs.Body, walk)
				return true
			})
		}
	}
	fmt.Fprintf(sb, "\nFrom Coq Require Import NArith List.\nImport ListNotations.\n")
	fmt.Fprintf(sb, "(* db/client.go: const ChunkLimit *)\nDefinition conn_chunk_limit : N := %d.\n", limit)
	var items, names []string
	for _, g := range groups {
		items = append(items, fmt.Sprintf("(%d, %d, %d)", g.q, g.k, g.n))
		names = append(names, g.fn)
	}
	fmt.Fprintf(sb, "(* chunk loops over a FLAT argument list (statement built with xslices.Repeat(\"(?,..)\", len(chunk)/K)) in %v:\n   (question marks per group, K, chunk size); %d such loop(s) not understood *)\n", names, unknown)
	fmt.Fprintf(sb, "Definition flat_chunk_groups : list (N * N * N) := [%s]%%N.\n", strings.Join(items, "; "))
	fmt.Fprintf(sb, "Definition flat_chunk_loops_not_understood : N := %d.\n", unknown)
	return nil
}
