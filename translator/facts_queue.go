package main

// Extractor "Queue" -> coq/Gen/FactsQueue.v (property C19): the close protocol of async.QueuedChannel.
//
//	close_broadcasts_under_lock   (*QueuedChannel).Close: the call q.cond.Broadcast() comes after q.cond.L.Lock() and the
//	                              lock is still held there (released by a defer or by an Unlock that comes later)
//	close_sets_flag_first         Close stores the closed flag before it broadcasts
//	enqueue_broadcasts_under_lock the same for Enqueue
//	pop_waits_under_lock          pop calls q.cond.Wait() between q.cond.L.Lock() and the (deferred) Unlock, inside a loop
//	                              that re-checks the queue and the closed flag

import (
	"fmt"
	"go/ast"
	"go/token"
	"strings"
)

func init() { register("Queue", factsQueue) }

func factsQueue(t *T) (string, error) {
	const file = "async/queued_channel.go"
	f, err := t.ParseFile(file)
	if err != nil {
		return "", err
	}
	text := func(n ast.Node) string { return strings.ReplaceAll(t.Src(file, n), " ", "") }
	// underLock: is the call `what` made while q.cond.L is held, following the statements of the body in order?
	underLock := func(fd *ast.FuncDecl, what string) (found, held bool, flagBefore bool) {
		locked := false
		flag := false
		var walk func(stmts []ast.Stmt)
		walk = func(stmts []ast.Stmt) {
			for _, st := range stmts {
				switch s := st.(type) {
				case *ast.ExprStmt:
					tx := text(s.X)
					switch {
					case strings.HasSuffix(tx, "cond.L.Lock()"):
						locked = true
					case strings.HasSuffix(tx, "cond.L.Unlock()"):
						locked = false
					case strings.Contains(tx, "closed.store(true)"):
						flag = true
					case strings.HasSuffix(tx, what):
						if !found {
							found, held, flagBefore = true, locked, flag
						}
					}
				case *ast.DeferStmt: // a deferred Unlock keeps the lock to the end
				case *ast.ForStmt:
					walk(s.Body.List)
				case *ast.IfStmt:
					walk(s.Body.List)
				case *ast.BlockStmt:
					walk(s.List)
				}
			}
		}
		walk(fd.Body.List)
		return
	}
	closeFn, enq, pop := FuncDecl(f, "QueuedChannel", "Close"), FuncDecl(f, "QueuedChannel", "Enqueue"), FuncDecl(f, "QueuedChannel", "pop")
	if closeFn == nil || enq == nil || pop == nil {
		return "", fmt.Errorf("QueuedChannel.Close / Enqueue / pop not found")
	}
	cf, ch, cflag := underLock(closeFn, "cond.Broadcast()")
	ef, eh, _ := underLock(enq, "cond.Broadcast()")
	pf, ph, _ := underLock(pop, "cond.Wait()")
	// pop: the Wait sits in a for loop
	inLoop := false
	ast.Inspect(pop.Body, func(n ast.Node) bool {
		if fs, ok := n.(*ast.ForStmt); ok {
			ast.Inspect(fs.Body, func(m ast.Node) bool {
				if c, ok := m.(*ast.CallExpr); ok && strings.HasSuffix(text(c), "cond.Wait()") {
					inLoop = true
				}
				return true
			})
		}
		return true
	})
	_ = token.NoPos
	b := func(v bool) string {
		if v {
			return "true"
		}
		return "false"
	}
	var sb strings.Builder
	sb.WriteString("(* The close protocol of async.QueuedChannel, read off async/queued_channel.go (T1, extractor Queue):\n   see /verif/translator/facts_queue.go. *)\n")
	sb.WriteString("Definition close_broadcasts_under_lock : bool := " + b(cf && ch) + ".\n")
	sb.WriteString("Definition close_sets_flag_first : bool := " + b(cf && cflag) + ".\n")
	sb.WriteString("Definition enqueue_broadcasts_under_lock : bool := " + b(ef && eh) + ".\n")
	sb.WriteString("Definition pop_waits_under_lock : bool := " + b(pf && ph && inLoop) + ".\n\n")
	sb.WriteString("(* the closer of the model takes the lock around its Broadcast iff the source does *)\n")
	sb.WriteString("Definition queue_close_locked : bool :=\n  andb close_broadcasts_under_lock (andb close_sets_flag_first (andb enqueue_broadcasts_under_lock pop_waits_under_lock)).\n")
	return sb.String(), nil
}
