(* C11 — imap/command/input_collector.go: the InputCollector sits between the connection's bufio.Reader and the scanner and
   remembers the bytes of the command being read (for the incoming log and the TLS-hello test).

   Go: the methods Read, ReadByte and ReadBytes of InputCollector append exactly what the source returned (dst[0:n], b, the slice) when
   the source reported no error; Reset empties the buffer (keeping its capacity).

   Model: the operations as the collector sees them — what the source returned — and the collected bytes. *)
From Coq Require Import List NArith Bool.
Import ListNotations.
Open Scope N_scope.

Inductive cop :=
| CRead (dstlen : N) (got : list N)   (* source.Read(dst) returned len(got) <= len(dst) bytes, err == nil *)
| CReadErr                            (* source returned an error: nothing is appended *)
| CReadByte (b : N)
| CReadBytes (got : list N)
| CReset.

Definition coll_step (st : list N) (o : cop) : list N :=
  match o with
  | CRead _ got => st ++ got
  | CReadErr => st
  | CReadByte b => st ++ [b]
  | CReadBytes got => st ++ got
  | CReset => []
  end.
Definition collected (ops : list cop) : list N := fold_left coll_step ops [].

(* what the source delivered since the last Reset *)
Definition delivered_of (o : cop) : list N :=
  match o with CRead _ got => got | CReadByte b => [b] | CReadBytes got => got | _ => [] end.
Fixpoint since_reset (ops : list cop) (acc : list N) : list N :=
  match ops with
  | [] => acc
  | CReset :: t => since_reset t []
  | o :: t => since_reset t (acc ++ delivered_of o)
  end.
