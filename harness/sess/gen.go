package sess

import (
	"fmt"
	"sort"
	"strings"

	"github.com/ProtonMail/gluon/verifhook"

	"verifharness/common"
)

// Cell is what a client has learnt about one sequence number.
type Cell struct {
	UID   int
	Flags []int
	HasF  bool
}

// Mirror is the mailbox a client reconstructs purely from untagged EXISTS / EXPUNGE / FETCH responses.
type Mirror struct {
	Selected bool
	Mb       int
	Cells    []Cell
}

type Fail struct {
	Prop   string
	Canon  string
	Detail string
	Step   int
}

type Run struct {
	K, NMbox int
	Bulk     bool
	Hist     []Op
	Obs      []StepObs
	Views    []ViewObs
	Fails    []Fail
	Stats    map[string]int
}

func eqInts(a, b []int) bool {
	if len(a) != len(b) {
		return false
	}
	for i := range a {
		if a[i] != b[i] {
			return false
		}
	}
	return true
}

func setOf(xs []int) []int {
	r := append([]int{}, xs...)
	sort.Ints(r)
	return common.DedupSorted(r)
}

func without(xs []int, y ...int) []int {
	var r []int
	for _, x := range xs {
		keep := true
		for _, z := range y {
			if x == z {
				keep = false
			}
		}
		if keep {
			r = append(r, x)
		}
	}
	return r
}

func union(a, b []int) []int { return setOf(append(append([]int{}, a...), b...)) }

// applyOut feeds responses into the mirror; returns a description of an illegal stream, or "".
func (m *Mirror) applyOut(out []Resp) string {
	for _, r := range out {
		switch r.Kind {
		case "EXISTS":
			if r.N < len(m.Cells) {
				return fmt.Sprintf("EXISTS %d below the announced count %d with no EXPUNGE", r.N, len(m.Cells))
			}
			for len(m.Cells) < r.N {
				m.Cells = append(m.Cells, Cell{})
			}
		case "EXPUNGE":
			if r.N < 1 || r.N > len(m.Cells) {
				return fmt.Sprintf("EXPUNGE %d outside 1..%d", r.N, len(m.Cells))
			}
			m.Cells = append(m.Cells[:r.N-1], m.Cells[r.N:]...)
		case "FETCH":
			if r.N < 1 || r.N > len(m.Cells) {
				return fmt.Sprintf("FETCH %d outside 1..%d", r.N, len(m.Cells))
			}
			c := &m.Cells[r.N-1]
			if r.UID > 0 {
				if c.UID > 0 && c.UID != r.UID {
					return fmt.Sprintf("seq %d: learnt UID %d, now reported as UID %d", r.N, c.UID, r.UID)
				}
				c.UID = r.UID
			}
			c.Flags = setOf(r.Flags)
			c.HasF = true
		}
	}
	return ""
}

type Config struct {
	K       int
	NMbox   int
	Steps   int
	C02Rate float64 // probability of a quiescence check per step
	NoConn  bool
	// Disciplined: a session drains the updates queued for it before each of its own state-changing commands
	// (then no own command can overtake an earlier foreign update; the strict oracles apply).
	Disciplined bool
	Bulk        bool // IDLE with a bulk time: responses are buffered and sent merged when the IDLE ends
	Script      []Op // when set: run exactly these ops (corpus of scripted scenarios) instead of generating
	// Observer: session 0 stays silent while the others act (long queues build up for it); now and then it has the
	// queued updates delivered, runs ONE command that must not send EXPUNGE (SEARCH / FETCH / probe) and is then checked
	// at quiescence. The others also "bounce" messages (move away and back: the message is put back under a new UID).
	Observer bool
}

// Generate-and-run: the next op depends on what the sessions have been told so far.
func RunHistory(rng *common.Rng, cfg Config) (*Run, error) {
	w, err := Start(cfg.K, cfg.NMbox, cfg.Bulk)
	if err != nil {
		return nil, err
	}
	defer w.Stop()
	run := &Run{K: cfg.K, NMbox: cfg.NMbox, Bulk: cfg.Bulk, Stats: map[string]int{}}
	mir := make([]*Mirror, cfg.K)
	pendingExp := make([]int, cfg.K)    // removals known (from the hook) to be held back in session s
	mustAnnounce := make([]bool, cfg.K) // [EXPUNGEISSUED] was reported and no permitting flush happened yet
	overtook := make([]bool, cfg.K)     // the session ran a state-changing command while foreign updates were still queued for it
	needFlush := make([]bool, cfg.K)    // updates were delivered since the session's last permitting flush
	idleMust := make([]bool, cfg.K)     // IDLE was entered while a removal was known to be held back: it must be announced
	staleSel := make([]bool, cfg.K)     // the session (re-)selected while updates from before the SELECT were still queued for it
	selfReadd := make([]bool, cfg.K)    // the session copied/moved a message onto its own selected mailbox
	// a .SILENT store was issued after such a self re-add: its (untold) effect may reach the NEW instance only with a later
	// permitting command, after FETCH responses of earlier changes: the flags the mirror learns meanwhile are not the
	// final ones and the client knows that (it asked for silence); the next probe resynchronises
	silentDeferred := make([]bool, cfg.K)
	for i := range mir {
		mir[i] = &Mirror{}
	}
	nmsg := 0

	mutating := func(o Op) bool {
		if o.RO {
			return false // refused, or a fetch that marks nothing
		}
		switch o.Cmd {
		case "append", "store", "expunge", "copy", "move", "fetchbody", "fetchflagsbody":
			return o.Kind == "cmd"
		}
		return false
	}
	exec := func(o Op) (StepObs, error) {
		if o.Kind == "cmd" && o.All {
			o.ByUID, o.Ps = false, nil
			for p := 1; p <= len(mir[o.S].Cells); p++ {
				o.Ps = append(o.Ps, p)
			}
		}
		if o.Kind == "cmd" && o.ByUID {
			// the UID form needs the UIDs the client learnt for the chosen positions, and a mirror that is the session's view
			o.UIDs = nil
			if overtook[o.S] || staleSel[o.S] || selfReadd[o.S] || o.RO {
				o.ByUID = false
			}
			for _, p := range o.Ps {
				if p < 1 || p > len(mir[o.S].Cells) || mir[o.S].Cells[p-1].UID == 0 {
					o.ByUID = false
					break
				}
				o.UIDs = append(o.UIDs, mir[o.S].Cells[p-1].UID)
			}
			if !o.ByUID {
				o.UIDs = nil
			} else {
				run.Stats["uid-form:"+o.Cmd]++
			}
		}
		if mutating(o) && verifhook.Held(w.StateID[o.S]) > 0 {
			overtook[o.S] = true
			run.Stats["own-command-with-queued-updates"]++
		}
		obs, err := w.Do(o)
		if err != nil {
			return obs, fmt.Errorf("step %d (%s): %w", len(run.Hist), o.String(), err)
		}
		step := len(run.Hist)
		run.Hist = append(run.Hist, o)
		run.Obs = append(run.Obs, obs)
		run.Stats["op:"+o.Kind+":"+o.Cmd]++
		if o.Kind == "deliver" {
			needFlush[o.S] = true
			for _, a := range verifhook.TakeApplied(w.StateID[o.S]) {
				if !a.FilteredOut {
					pendingExp[o.S] += strings.Count(a.Description, "Expunge: message")
				} else {
					run.Stats["delivered-filtered-out"]++
				}
			}
			return obs, nil
		}
		if o.Kind != "cmd" {
			return obs, nil
		}
		m := mir[o.S]
		fail := func(prop, canon, detail string) {
			if prop != "C05" {
				switch {
				case overtook[o.S]:
					canon = "own-overtakes-queued: " + canon
				case staleSel[o.S]:
					canon = "stale-updates-after-select: " + canon
				case selfReadd[o.S]:
					canon = "self-readd-held: " + canon
				}
			}
			run.Fails = append(run.Fails, Fail{Prop: prop, Canon: canon, Detail: detail + " | history: " + HistString(run.Hist), Step: step})
		}
		if o.Cmd == "select" {
			overtook[o.S] = false
			selfReadd[o.S] = false
			silentDeferred[o.S] = false
			staleSel[o.S] = verifhook.Held(w.StateID[o.S]) > 0
		}
		if o.Cmd == "close" || o.Cmd == "unselect" {
			// the mailbox is left: the client discards its mirror (what CLOSE still sends - never an EXPUNGE - is compared
			// with the model's answer only)
			if obs.Outcome != "OOk" {
				fail("C01", "command refused: "+o.Cmd+" -> "+obs.Outcome, strings.Join(obs.Raw, " / "))
			}
			overtook[o.S], selfReadd[o.S], silentDeferred[o.S], staleSel[o.S] = false, false, false, false
			mustAnnounce[o.S], pendingExp[o.S], idleMust[o.S], needFlush[o.S] = false, 0, false, false
			m.Selected, m.Cells = false, nil
			return obs, nil
		}
		if (o.Cmd == "copy" || o.Cmd == "move") && m.Selected && o.Mb == m.Mb {
			selfReadd[o.S] = true
		}
		if o.Cmd == "searchbad" || o.Cmd == "fetchbadpart" {
			// a refused SEARCH: still no EXPUNGE may be sent, and the mirror is fed as usual
			for _, r := range obs.Out {
				if r.Kind == "EXPUNGE" {
					fail("C05", "EXPUNGE during a refused SEARCH", strings.Join(obs.Raw, " / "))
					break
				}
			}
			if obs.Outcome != "ONo" {
				fail("C05", "SEARCH with an unknown charset not refused with NO", strings.Join(obs.Raw, " / "))
			}
			if e := m.applyOut(obs.Out); e != "" {
				fail("C01", "illegal response stream: "+stripNums(e), e+" | "+strings.Join(obs.Raw, " / "))
			}
			return obs, nil
		}
		if o.RO && (o.Cmd == "store" || o.Cmd == "expunge" || o.Cmd == "copy" || o.Cmd == "move") {
			// a change attempted in a read-only selection: refused, the mirror is fed as usual
			if obs.Outcome != "ONo" {
				fail("C02", "change in a read-only selection not refused: "+o.Cmd, strings.Join(obs.Raw, " / "))
			}
			if e := m.applyOut(obs.Out); e != "" {
				fail("C01", "illegal response stream: "+stripNums(e), e+" | "+strings.Join(obs.Raw, " / "))
			}
			return obs, nil
		}
		if obs.Outcome != "OOk" && obs.Outcome != "OOkIssued" {
			if o.Cmd != "done" && o.Cmd != "idle" {
				fail("C01", "command refused: "+o.Cmd+" -> "+obs.Outcome, strings.Join(obs.Raw, " / "))
			}
			return obs, nil
		}
		nexp := 0
		for _, r := range obs.Out {
			if r.Kind == "EXPUNGE" {
				nexp++
			}
		}
		// ---- C05 oracle ----
		restricted := o.Cmd == "store" || o.Cmd == "fetchbody" || o.Cmd == "fetchflagsbody" || o.Cmd == "fetchbadpart" || o.Cmd == "probe" || o.Cmd == "search"
		permitting := o.Cmd == "noop" || o.Cmd == "check" || o.Cmd == "status" || o.Cmd == "expunge" || o.Cmd == "move" || o.Cmd == "idle" ||
			(o.Cmd == "append" && m.Selected && m.Mb == o.Mb)
		if restricted {
			if nexp > 0 {
				fail("C05", "EXPUNGE during "+o.Cmd, strings.Join(obs.Raw, " / "))
			}
			if pendingExp[o.S] > 0 && obs.Outcome != "OOkIssued" {
				fail("C05", "removal held back during "+o.Cmd+" but no [EXPUNGEISSUED]", strings.Join(obs.Raw, " / "))
			}
			if obs.Outcome == "OOkIssued" {
				mustAnnounce[o.S] = true
			}
		}
		if permitting || o.Cmd == "select" {
			needFlush[o.S] = false
		}
		if o.Cmd == "idle" {
			idleMust[o.S] = pendingExp[o.S] > 0
			mustAnnounce[o.S] = false
			pendingExp[o.S] = 0
		}
		if o.Cmd == "done" {
			// everything the session received while idling is read at DONE (incl. the flush at the start of IDLE)
			if idleMust[o.S] && nexp == 0 {
				fail("C05", "removal held back before IDLE was not announced by IDLE", strings.Join(obs.Raw, " / "))
			}
			idleMust[o.S] = false
		}
		if permitting && o.Cmd != "idle" {
			if mustAnnounce[o.S] && pendingExp[o.S] > 0 && nexp == 0 {
				fail("C05", "removal not announced by the next permitting command "+o.Cmd, strings.Join(obs.Raw, " / "))
			}
			mustAnnounce[o.S] = false
			pendingExp[o.S] = 0
		}
		if o.Cmd == "done" || o.Cmd == "select" {
			mustAnnounce[o.S] = false
			pendingExp[o.S] = 0
		}
		// ---- C01 oracle: the client mirror ----
		switch o.Cmd {
		case "select":
			m.Selected, m.Mb = true, o.Mb
			m.Cells = nil
			if len(obs.Out) == 1 {
				for i := 0; i < obs.Out[0].N; i++ {
					m.Cells = append(m.Cells, Cell{})
				}
			}
			return obs, nil
		case "probe":
			var data, rest []Resp
			for _, r := range obs.Out {
				if r.Kind == "FETCH" && r.UID > 0 {
					data = append(data, r)
				} else {
					rest = append(rest, r)
				}
			}
			if len(data) != len(m.Cells) {
				fail("C01", c01Canon(m, data), fmt.Sprintf("session %d was told %d messages, the server answers with %d", o.S, len(m.Cells), len(data)))
			} else {
				prev := 0
				for i, r := range data {
					c := m.Cells[i]
					if r.N != i+1 {
						fail("C01", "probe sequence numbers not dense", fmt.Sprint(data))
						break
					}
					if r.UID <= prev {
						fail("C01", "UIDs not strictly ascending", fmt.Sprint(data))
						break
					}
					prev = r.UID
					if c.UID > 0 && c.UID != r.UID {
						fail("C01", c01Canon(m, data), fmt.Sprintf("session %d seq %d: learnt UID %d, server now reports UID %d", o.S, r.N, c.UID, r.UID))
						break
					}
					if c.HasF && !eqInts(c.Flags, setOf(r.Flags)) {
						canon := "learnt flags differ from reported flags"
						if silentDeferred[o.S] {
							// the defect repaired by b461893: the session's own .SILENT store of a message it had put back itself
							// (EXISTS still held) was held too and applied WITHOUT a response to the new instance by the next
							// permitting command - after the FETCH responses of earlier changes told the client its flags
							canon = "silent-store-applied-to-readded-instance: " + canon
						}
						fail("C01", canon, fmt.Sprintf("session %d seq %d (uid %d): learnt %v, reported %v", o.S, r.N, r.UID, c.Flags, r.Flags))
						break
					}
				}
			}
			// resynchronise the mirror with what the server says, then apply the rest
			silentDeferred[o.S] = false
			m.Cells = m.Cells[:0]
			for _, r := range data {
				m.Cells = append(m.Cells, Cell{UID: r.UID, Flags: setOf(r.Flags), HasF: true})
			}
			if e := m.applyOut(rest); e != "" {
				fail("C01", "illegal response stream: "+stripNums(e), e)
			}
			return obs, nil
		}
		if e := m.applyOut(obs.Out); e != "" {
			fail("C01", "illegal response stream: "+stripNums(e), e+" | "+strings.Join(obs.Raw, " / "))
		}
		if o.Cmd == "store" && o.Silent {
			// C01 speaks of the mailbox the client reconstructs PURELY from untagged responses: a .SILENT store tells it
			// nothing, and what it had learnt about the flags of the addressed messages is outdated by its own command.
			// Those flags are unknown to the mirror until the next FETCH response (the server may apply the change to the
			// instance the client sees at once, or - when that message was put back and its EXISTS is still held - to the
			// new instance after the next permitting command; the model comparison checks which).
			for _, p := range o.Ps {
				if p >= 1 && p <= len(m.Cells) {
					m.Cells[p-1].HasF = false
				}
			}
			if selfReadd[o.S] {
				silentDeferred[o.S] = true
			}
		}
		return obs, nil
	}

	pickPs := func(n int) []int {
		if n == 0 {
			return nil
		}
		k := 1
		if rng.Chance(0.4) {
			k = rng.Range(1, min(3, n))
		}
		seen := map[int]bool{}
		var ps []int
		for len(ps) < k {
			p := rng.Range(1, n)
			if !seen[p] {
				seen[p] = true
				ps = append(ps, p)
			}
		}
		sort.Ints(ps)
		if len(ps) > 1 && rng.Chance(0.3) {
			// a message set is a set: written in descending order, sometimes with a number twice
			for i, j := 0, len(ps)-1; i < j; i, j = i+1, j-1 {
				ps[i], ps[j] = ps[j], ps[i]
			}
			if rng.Chance(0.3) {
				ps = append(ps, ps[0])
			}
		}
		return ps
	}
	pickFlags := func(allowDeleted bool) []int {
		cands := []int{2, 3, 4, 5}
		if allowDeleted {
			cands = append(cands, 1, 1)
		}
		var f []int
		for len(f) == 0 {
			for _, c := range cands {
				if rng.Chance(0.3) {
					f = append(f, c)
				}
			}
		}
		return setOf(f)
	}

	// quiescence check (C02): deliver everything held for session s, NOOP, and compare its view with a fresh session's
	quiesce := func(s int) error {
		m := mir[s]
		for verifhook.Held(w.StateID[s]) > 0 {
			if _, err := exec(Op{Kind: "deliver", S: s}); err != nil {
				return err
			}
		}
		if _, err := exec(Op{Kind: "cmd", S: s, Cmd: "noop"}); err != nil {
			return err
		}
		obs, err := exec(Op{Kind: "cmd", S: s, Cmd: "probe"})
		if err != nil {
			return err
		}
		uids, fls, err := w.FreshView(m.Mb)
		if err != nil {
			return err
		}
		run.Views = append(run.Views, ViewObs{AfterStep: len(run.Hist), Mb: m.Mb, UIDs: uids, Flags: fls})
		var suids []int
		var sfl [][]int
		for _, r := range obs.Out {
			if r.Kind == "FETCH" && r.UID > 0 {
				suids = append(suids, r.UID)
				sfl = append(sfl, without(setOf(r.Flags), 0))
			}
		}
		run.Stats["c02-checks"]++
		same := eqInts(suids, uids)
		if same {
			for i := range sfl {
				if !eqInts(setOf(sfl[i]), setOf(fls[i])) {
					same = false
				}
			}
		}
		if !same {
			canon := c02Canon(suids, sfl, uids, fls)
			switch {
			case overtook[s]:
				canon = "own-overtakes-queued: " + canon
			case staleSel[s]:
				canon = "stale-updates-after-select: " + canon
			case selfReadd[s]:
				canon = "self-readd-held: " + canon
			}
			run.Fails = append(run.Fails, Fail{Prop: "C02", Canon: canon,
				Detail: fmt.Sprintf("session %d after drain+NOOP sees uids=%v flags=%v; a fresh session sees uids=%v flags=%v | history: %s", s, suids, sfl, uids, fls, HistString(run.Hist)), Step: len(run.Hist)})
		}
		return nil
	}

	if len(cfg.Script) > 0 {
		for _, o := range cfg.Script {
			if o.Kind == "deliver" && verifhook.Held(w.StateID[o.S]) == 0 {
				continue
			}
			if o.Kind == "quiesce" {
				if err := quiesce(o.S); err != nil {
					return run, err
				}
				continue
			}
			if o.Kind == "drain" {
				for verifhook.Held(w.StateID[o.S]) > 0 {
					if _, err := exec(Op{Kind: "deliver", S: o.S}); err != nil {
						return run, err
					}
				}
				continue
			}
			if _, err := exec(o); err != nil {
				return run, err
			}
		}
		return run, nil
	}
	for step := 0; step < cfg.Steps; step++ {
		s := rng.Pick(cfg.K)
		m := mir[s]
		if cfg.Observer && s == 0 && m.Selected && !w.Idle[0] {
			switch y := rng.Pick(100); {
			case y < 30:
				if verifhook.Held(w.StateID[0]) > 0 {
					if _, err := exec(Op{Kind: "deliver", S: 0}); err != nil {
						return run, err
					}
				}
			case y < 55:
				for verifhook.Held(w.StateID[0]) > 0 {
					if _, err := exec(Op{Kind: "deliver", S: 0}); err != nil {
						return run, err
					}
				}
				c := []string{"search", "probe", "fetchbody", "searchbad"}[rng.Pick(4)]
				o := Op{Kind: "cmd", S: 0, Cmd: c}
				if c == "fetchbody" {
					if len(m.Cells) == 0 {
						o.Cmd = "search"
					} else {
						o.Ps = []int{1 + rng.Pick(len(m.Cells))}
					}
				}
				if (o.Cmd == "search" || o.Cmd == "fetchbody") && rng.Chance(0.3) {
					o.ByUID = true
				}
				if _, err := exec(o); err != nil {
					return run, err
				}
				run.Stats["observer-restricted-then-quiesce"]++
				if err := quiesce(0); err != nil {
					return run, err
				}
			}
			continue
		}
		if cfg.Observer && s != 0 && m.Selected && !w.Idle[s] && len(m.Cells) > 0 && cfg.NMbox > 1 && rng.Chance(0.12) {
			// bounce: move one message to another mailbox and back; it returns under a new UID
			orig := m.Mb
			other := (orig + 1 + rng.Pick(cfg.NMbox-1)) % cfg.NMbox
			for verifhook.Held(w.StateID[s]) > 0 {
				if _, err := exec(Op{Kind: "deliver", S: s}); err != nil {
					return run, err
				}
			}
			if _, err := exec(Op{Kind: "cmd", S: s, Cmd: "noop"}); err != nil {
				return run, err
			}
			if len(mir[s].Cells) == 0 {
				continue
			}
			if _, err := exec(Op{Kind: "cmd", S: s, Cmd: "move", Ps: []int{1 + rng.Pick(len(mir[s].Cells))}, Mb: other}); err != nil {
				return run, err
			}
			if _, err := exec(Op{Kind: "cmd", S: s, Cmd: "select", Mb: other}); err != nil {
				return run, err
			}
			if k := len(mir[s].Cells); k > 0 {
				if _, err := exec(Op{Kind: "cmd", S: s, Cmd: "move", Ps: []int{k}, Mb: orig}); err != nil {
					return run, err
				}
			}
			if _, err := exec(Op{Kind: "cmd", S: s, Cmd: "select", Mb: orig}); err != nil {
				return run, err
			}
			if k := len(mir[s].Cells); k > 0 && rng.Chance(0.6) {
				if _, err := exec(Op{Kind: "cmd", S: s, Cmd: "store", Ps: []int{k}, FOp: "add", Flags: []int{3 + rng.Pick(2)}}); err != nil {
					return run, err
				}
			}
			run.Stats["bounce"]++
			continue
		}
		if w.Idle[s] {
			// an idling session can only be delivered to, or leave IDLE
			if verifhook.Held(w.StateID[s]) > 0 && rng.Chance(0.6) {
				if _, err := exec(Op{Kind: "deliver", S: s}); err != nil {
					return run, err
				}
			} else if rng.Chance(0.5) {
				if _, err := exec(Op{Kind: "cmd", S: s, Cmd: "done"}); err != nil {
					return run, err
				}
			}
			continue
		}
		if !m.Selected {
			if _, err := exec(Op{Kind: "cmd", S: s, Cmd: "select", Mb: rng.Pick(cfg.NMbox) * rng.Pick(2)}); err != nil {
				return run, err
			}
			continue
		}
		// quiescence check (C02)
		if rng.Chance(cfg.C02Rate) {
			if err := quiesce(s); err != nil {
				return run, err
			}
			continue
		}
		n := len(m.Cells)
		x := rng.Pick(100)
		var o Op
		switch {
		case x < 14:
			mb := m.Mb
			if rng.Chance(0.3) {
				mb = rng.Pick(cfg.NMbox)
			}
			o = Op{Kind: "cmd", S: s, Cmd: "append", Mb: mb, Flags: nil}
			if rng.Chance(0.4) {
				o.Flags = pickFlags(true)
			}
			nmsg++
		case x < 28:
			if n == 0 {
				continue
			}
			o = Op{Kind: "cmd", S: s, Cmd: "store", Ps: pickPs(n), FOp: []string{"add", "rem", "set"}[rng.Pick(3)], Flags: pickFlags(true), Silent: rng.Chance(0.3)}
			if rng.Chance(0.15) {
				o.Flags = setOf(append(o.Flags, 6+rng.Pick(2))) // one of the forward flags: the server completes the pair
			}
		case x < 33:
			o = Op{Kind: "cmd", S: s, Cmd: "expunge"}
		case x < 38:
			if n == 0 {
				continue
			}
			o = Op{Kind: "cmd", S: s, Cmd: "copy", Ps: pickPs(n), Mb: rng.Pick(cfg.NMbox)}
		case x < 43:
			if n == 0 {
				continue
			}
			o = Op{Kind: "cmd", S: s, Cmd: "move", Ps: pickPs(n), Mb: rng.Pick(cfg.NMbox)}
		case x < 48:
			if n == 0 {
				continue
			}
			o = Op{Kind: "cmd", S: s, Cmd: []string{"fetchbody", "fetchflagsbody", "fetchbadpart"}[rng.Pick(3)], Ps: pickPs(n)}
			if o.Cmd == "fetchbadpart" {
				o.Ps = o.Ps[:1]
			}
		case x < 56:
			o = Op{Kind: "cmd", S: s, Cmd: "probe"}
		case x < 59:
			o = Op{Kind: "cmd", S: s, Cmd: []string{"search", "search", "searchbad"}[rng.Pick(3)]}
		case x < 64:
			o = Op{Kind: "cmd", S: s, Cmd: "noop"}
		case x < 66:
			o = Op{Kind: "cmd", S: s, Cmd: "check"}
			if rng.Chance(0.5) {
				o = Op{Kind: "cmd", S: s, Cmd: "status", Mb: rng.Pick(cfg.NMbox)}
			}
		case x < 69:
			o = Op{Kind: "cmd", S: s, Cmd: "idle"}
		case x < 72:
			o = Op{Kind: "cmd", S: s, Cmd: "select", Mb: rng.Pick(cfg.NMbox)}
		case x < 73:
			if cfg.Observer && s == 0 {
				continue
			}
			o = Op{Kind: "cmd", S: s, Cmd: []string{"close", "unselect"}[rng.Pick(2)]}
		case x < 90:
			if verifhook.Held(w.StateID[s]) == 0 {
				continue
			}
			o = Op{Kind: "deliver", S: s}
		default:
			if cfg.NoConn || nmsg == 0 && x >= 93 {
				continue
			}
			switch {
			case x < 93:
				o = Op{Kind: "conn", Cmd: "new", Mb: rng.Pick(cfg.NMbox), Flags: nil}
				if rng.Chance(0.3) {
					o.Flags = []int{2}
				}
				nmsg++
			default:
				// a connector flag update carries the complete flag set: toggle one flag of a message that is still
				// in some mailbox (MessageDeleted / MessageMailboxesUpdated are exercised by the C06 harness)
				msg := rng.Range(1, nmsg)
				cur, found := w.CurFlags(msg)
				if !found {
					continue
				}
				fl := []int{2, 3}[rng.Pick(2)]
				has := false
				for _, f := range cur {
					if f == fl {
						has = true
					}
				}
				o = Op{Kind: "conn", Cmd: "flag", Msg: msg, Flag: fl, Add: !has}
			}
		}
		if o.Kind == "cmd" && rng.Chance(0.3) {
			switch o.Cmd {
			case "store", "copy", "move", "fetchbody", "fetchflagsbody", "search":
				o.ByUID = true // resolved (or dropped) by exec
			}
		}
		if cfg.Disciplined && o.Kind == "cmd" && o.Cmd == "select" {
			for verifhook.Held(w.StateID[o.S]) > 0 {
				if _, err := exec(Op{Kind: "deliver", S: o.S}); err != nil {
					return run, err
				}
			}
		}
		if cfg.Disciplined && mutating(o) {
			// guard of the _partial theorems: no own state-changing command while foreign updates are queued or
			// responders are pending (drain, then a permitting flush), and no re-addition of a message to the
			// session's own selected mailbox
			if (o.Cmd == "copy" || o.Cmd == "move") && o.Mb == m.Mb {
				continue
			}
			drained := false
			for verifhook.Held(w.StateID[o.S]) > 0 {
				drained = true
				if _, err := exec(Op{Kind: "deliver", S: o.S}); err != nil {
					return run, err
				}
			}
			if drained || needFlush[o.S] {
				if _, err := exec(Op{Kind: "cmd", S: o.S, Cmd: "noop"}); err != nil {
					return run, err
				}
				if len(mir[o.S].Cells) != n {
					continue // the view changed: the positions chosen for o are stale
				}
			}
		}
		if _, err := exec(o); err != nil {
			return run, err
		}
	}
	return run, nil
}

func min(a, b int) int {
	if a < b {
		return a
	}
	return b
}

func stripNums(s string) string {
	var sb strings.Builder
	for _, r := range s {
		if r >= '0' && r <= '9' {
			sb.WriteByte('#')
		} else {
			sb.WriteRune(r)
		}
	}
	return strings.ReplaceAll(strings.ReplaceAll(sb.String(), "##", "#"), "##", "#")
}

// c01Canon classifies a disagreement between the learnt mirror and a probe.
func c01Canon(m *Mirror, data []Resp) string {
	// learnt UIDs in order
	var learnt []int
	for _, c := range m.Cells {
		if c.UID > 0 {
			learnt = append(learnt, c.UID)
		}
	}
	var now []int
	for _, r := range data {
		now = append(now, r.UID)
	}
	// is `learnt` a subsequence of `now`, with every extra UID smaller than some learnt UID positioned after it?
	i := 0
	lowerInserted := false
	for _, u := range now {
		if i < len(learnt) && learnt[i] == u {
			i++
		} else if i < len(learnt) && u < learnt[i] {
			lowerInserted = true
		}
	}
	if i == len(learnt) && lowerInserted && len(now) >= len(m.Cells) {
		return "sequence numbers shifted without EXPUNGE: a message with a lower UID was inserted before already announced messages"
	}
	if len(data) != len(m.Cells) {
		return "announced message count differs from the answered view"
	}
	return "learnt seq->UID mapping differs from the answered view"
}

func c02Canon(suids []int, sfl [][]int, uids []int, fls [][]int) string {
	in := func(x int, l []int) bool {
		for _, y := range l {
			if x == y {
				return true
			}
		}
		return false
	}
	extra, missing := 0, 0
	for _, u := range suids {
		if !in(u, uids) {
			extra++
		}
	}
	for _, u := range uids {
		if !in(u, suids) {
			missing++
		}
	}
	switch {
	case extra > 0 && missing == 0:
		return "session keeps showing a message that is no longer in the mailbox"
	case missing > 0 && extra == 0:
		return "session misses a message that is in the mailbox"
	case extra > 0 && missing > 0:
		return "session view and mailbox differ in both directions"
	}
	if !eqInts(suids, uids) {
		return "same messages in a different order"
	}
	return "flags differ at quiescence"
}

func HistString(h []Op) string {
	s := make([]string, len(h))
	for i, o := range h {
		s[i] = o.String()
	}
	return strings.Join(s, "; ")
}

// CoqCase renders a run as a RunSession.case term.
func (r *Run) CoqCase(id int) string {
	ops := make([]string, len(r.Hist))
	for i, o := range r.Hist {
		ops[i] = o.Coq()
	}
	obs := make([]string, len(r.Obs))
	for i, o := range r.Obs {
		rs := make([]string, len(o.Out))
		for j, x := range o.Out {
			if i < len(r.Hist) && r.Hist[i].Cmd != "probe" {
				// the UID form reports the UID with every FETCH response it causes - also with one that is held back and sent
				// by a later command; the model's responses carry the UID for probes only (the client mirror above does
				// check every reported UID against what it learnt)
				x.UID = 0
			}
			rs[j] = x.Coq()
		}
		oc := o.Outcome
		if oc == "" {
			oc = "OFail"
		}
		obs[i] = fmt.Sprintf("([%s], %s)", strings.Join(rs, "; "), oc)
	}
	views := make([]string, len(r.Views))
	for i, v := range r.Views {
		rows := make([]string, len(v.UIDs))
		for j := range v.UIDs {
			rows[j] = fmt.Sprintf("(%d, %s)", v.UIDs[j], common.CoqNList(v.Flags[j]))
		}
		views[i] = fmt.Sprintf("(%d%%nat, %d, [%s])", v.AfterStep, v.Mb, strings.Join(rows, "; "))
	}
	return fmt.Sprintf("mkCase %d %d %d %s\n   [%s]\n   [%s]\n   [%s]", id, r.K, r.NMbox, common.CoqBool(r.Bulk),
		strings.Join(ops, "; "), strings.Join(obs, "; "), strings.Join(views, "; "))
}
