(* C15 — SEARCH: Impl model of internal/state/mailbox_search.go
     Mailbox.Search, buildSearchData, applySearch, buildSearchOp and the buildSearchOp* closures,
     buildSearchOpListWithKeys (short-circuit on the first false, error propagation), buildSearchOpOr (both sides
     are evaluated), buildSearchOpNot, buildSearchOpSeqSet (bounds check -> ErrNoSuchMessage -> BAD),
     buildSearchOpUID (resolveUIDInterval, empty mailbox matches nothing), the result array with one slot per
     snapshot position and xslices.Filter(v != 0); internal/session/handle_search.go (ErrNoSuchMessage -> BAD, any
     other error -> NO).
   The model follows the code AFTER the repairs proposed in notes/C15-fix-*.diff:
     the string keys are decoded with the CHARSET first and lower-cased (Unicode) afterwards;
     SENTBEFORE/SENTON/SENTSINCE treat a missing/unparsable Date as "no match" (was: error -> NO for the mailbox),
     SINCE compares the UTC date like BEFORE/ON, HEADER looks at every field of that name.
   parallel.DoContext is modelled as a sequential pass over the snapshot (each slot is written by exactly one
   task; an error of any task fails the whole search).  No proofs in this file. *)
From Coq Require Import List NArith Bool String.
From Gluon Require Import Model.SeqSet Model.SearchSpec.
Import ListNotations.
Open Scope N_scope.

(* searchOp = func(ptr searchData) (bool, error): None = error *)
Definition sop := msgdata -> option bool.

(* buildSearchOpResult *)
Record built := mkBuilt { b_op : sop; b_lit : bool; b_db : bool; b_hdr : bool }.

Definition pure_op (f : msgdata -> bool) : sop := fun m => Some (f m).
Definition leaf_plain (f : msgdata -> bool) := mkBuilt (pure_op f) false false false.
Definition leaf_db (f : msgdata -> bool) := mkBuilt (pure_op f) false true false.          (* needsDBMessage *)
Definition leaf_hdr (f : msgdata -> bool) := mkBuilt (pure_op f) true false true.          (* needsHeader *)
Definition leaf_lit (f : msgdata -> bool) := mkBuilt (pure_op f) true false false.         (* needsLiteral *)

(* SeqInterval.contains / UIDInterval.contains *)
Definition iv_contains (i : N * N) (x : N) : bool := (fst i <=? x) && (x <=? snd i).

(* buildSearchOpSeqSet: resolveSeqInterval, then begin < 1 || end > len -> ErrNoSuchMessage *)
Definition search_seq_bad (cnt : N) (i : N * N) : bool := (fst i <? 1) || (cnt <? snd i).
Definition build_seqset (cnt : N) (s : wset) : option (list (N * N)) :=
  match parse_set s with
  | None => None
  | Some ps =>
      let ivs := map (resolve_interval (resolve_seq cnt)) ps in
      if existsb (search_seq_bad cnt) ivs then None else Some ivs
  end.

(* buildSearchOpUID *)
Definition build_uidset (cnt : N) (uids : list N) (s : wset) : option (list (N * N)) :=
  match parse_set s with
  | None => None
  | Some ps => if cnt =? 0 then Some [] else Some (map (resolve_interval (resolve_uid uids)) ps)
  end.

Definition sent_test (f : N -> bool) (m : msgdata) : bool :=
  match m_sent m with Some x => f x | None => false end.

Section WithCharset.
(* the decoder of the SEARCH command (handle_search.go: ianaindex encoding of CHARSET, encoding.Nop without one) *)
Variable cs : charset.

(* a string key is prepared once, when the closure is built: decodedKey := decoder.Bytes(key.Value), then
   strings.ToLower / bytes.ToLower of the DECODED key.  (Folding before decoding would turn every byte >= 0x80 of a
   non-UTF-8 key into U+FFFD.)  The closure folds the message text and looks for the prepared key in it. *)
Definition prep_key (s : bytes) : bytes :=
  let decoded := decode cs s in
  ufold decoded.

Definition hdr_test (name : string) (s : bytes) : msgdata -> bool :=
  let k := prep_key s in
  fun m => containsb k (ufold (hdr_first (bs name) (m_hdrs m))).

(* all fields named f, in order (Header.GetAll after the repair) *)
Fixpoint hdr_all (f : bytes) (h : list (bytes * bytes)) : list bytes :=
  match h with
  | [] => []
  | (n, v) :: t => if name_eqb f n then v :: hdr_all f t else hdr_all f t
  end.

Definition compile_leaf (cnt : N) (uids : list N) (l : leaf) : option built :=
  match l with
  | LAll => Some (leaf_plain (fun _ => true))
  | LAnswered => Some (leaf_plain (has_flag f_answered))
  | LDeleted => Some (leaf_plain (has_flag f_deleted))
  | LDraft => Some (leaf_plain (has_flag f_draft))
  | LFlagged => Some (leaf_plain (has_flag f_flagged))
  | LNew => Some (leaf_plain (fun m => has_flag f_recent m && negb (has_flag f_seen m)))
  | LOld => Some (leaf_plain (fun m => negb (has_flag f_recent m)))
  | LRecent => Some (leaf_plain (has_flag f_recent))
  | LSeen => Some (leaf_plain (has_flag f_seen))
  | LUnanswered => Some (leaf_plain (fun m => negb (has_flag f_answered m)))
  | LUndeleted => Some (leaf_plain (fun m => negb (has_flag f_deleted m)))
  | LUndraft => Some (leaf_plain (fun m => negb (has_flag f_draft m)))
  | LUnflagged => Some (leaf_plain (fun m => negb (has_flag f_flagged m)))
  | LUnseen => Some (leaf_plain (fun m => negb (has_flag f_seen m)))
  | LKeyword f => let fl := lower f in Some (leaf_plain (has_flag fl))
  | LUnkeyword f => let fl := lower f in Some (leaf_plain (fun m => negb (has_flag fl m)))
  | LBcc s => Some (leaf_hdr (hdr_test "bcc" s))
  | LCc s => Some (leaf_hdr (hdr_test "cc" s))
  | LFrom s => Some (leaf_hdr (hdr_test "from" s))
  | LSubject s => Some (leaf_hdr (hdr_test "subject" s))
  | LTo s => Some (leaf_hdr (hdr_test "to" s))
  | LBody s => let k := prep_key s in Some (leaf_lit (fun m => containsb k (ufold (m_body m))))
  | LText s => let k := prep_key s in Some (leaf_lit (fun m => containsb k (ufold (m_text m))))
  | LHeader f s =>
      let k := prep_key s in
      Some (leaf_hdr (fun m => existsb (fun v => containsb k (ufold v)) (hdr_all f (m_hdrs m))))
  | LBefore d => Some (leaf_db (fun m => m_iday m <? d))
  | LOn d => Some (leaf_db (fun m => m_iday m =? d))
  | LSince d => Some (leaf_db (fun m => (m_iday m =? d) || (d <? m_iday m)))
  | LSentBefore d => Some (leaf_hdr (sent_test (fun x => x <? d)))
  | LSentOn d => Some (leaf_hdr (sent_test (fun x => x =? d)))
  | LSentSince d => Some (leaf_hdr (sent_test (fun x => (x =? d) || (d <? x))))
  | LLarger n => match parse_number n with
                 | Some k => Some (leaf_db (fun m => k <? m_size m)) | None => None end
  | LSmaller n => match parse_number n with
                  | Some k => Some (leaf_db (fun m => m_size m <? k)) | None => None end
  | LUid s => match build_uidset cnt uids s with
              | Some ivs => Some (leaf_plain (fun m => existsb (fun i => iv_contains i (m_uid m)) ivs))
              | None => None end
  | LSeqSet s => match build_seqset cnt s with
                 | Some ivs => Some (leaf_plain (fun m => existsb (fun i => iv_contains i (m_seq m)) ivs))
                 | None => None end
  end.

(* buildSearchOpNot *)
Definition not_built (x : built) : built :=
  mkBuilt (fun m => match b_op x m with None => None | Some r => Some (negb r) end)
          (b_lit x) (b_db x) (b_hdr x).

(* buildSearchOpOr: left and right are both evaluated, an error of either is returned *)
Definition or_built (x y : built) : built :=
  mkBuilt (fun m => match b_op x m with
                    | None => None
                    | Some l => match b_op y m with None => None | Some r => Some (l || r) end
                    end)
          (b_lit x || b_lit y) (b_db x || b_db y) (b_hdr x || b_hdr y).

(* buildSearchOpListWithKeys: stop at the first false; an error met before that is returned *)
Fixpoint and_ops (ops : list sop) (m : msgdata) : option bool :=
  match ops with
  | [] => Some true
  | o :: t => match o m with
              | None => None
              | Some false => Some false
              | Some true => and_ops t m
              end
  end.
Definition list_built (l : list built) : built :=
  mkBuilt (and_ops (map b_op l))
          (existsb b_lit l) (existsb b_db l) (existsb b_hdr l).

Definition opt_all {A B} (f : A -> option B) : list A -> option (list B) :=
  fix go (l : list A) : option (list B) :=
    match l with
    | [] => Some []
    | x :: t => match f x with
                | None => None
                | Some y => match go t with None => None | Some r => Some (y :: r) end
                end
    end.

(* buildSearchOp: None = the build fails (ErrNoSuchMessage / parser error) *)
Fixpoint compile (cnt : N) (uids : list N) (k : key) : option built :=
  match k with
  | KLeaf l => compile_leaf cnt uids l
  | KNot a => match compile cnt uids a with None => None | Some x => Some (not_built x) end
  | KOr a b => match compile cnt uids a with
               | None => None
               | Some x => match compile cnt uids b with None => None | Some y => Some (or_built x y) end
               end
  | KList l => match opt_all (compile cnt uids) l with None => None | Some bl => Some (list_built bl) end
  end.

(* buildSearchData: what cannot be loaded is an error *)
Definition load_err (b : built) (m : msgdata) : bool :=
  (b_db b && negb (m_db_ok m)) || (b_lit b && negb (m_lit_ok m)) || (b_hdr b && negb (m_hdr_ok m)).

Definition apply_search (b : built) (m : msgdata) : option bool :=
  if load_err b m then None else b_op b m.

(* result[i] = mapFn(msg) if it matches, else stays 0; any error fails the search *)
Fixpoint run_slots (b : built) (mapfn : msgdata -> N) (snap : list msgdata) : option (list N) :=
  match snap with
  | [] => Some []
  | m :: t => match apply_search b m with
              | None => None
              | Some r => match run_slots b mapfn t with
                          | None => None
                          | Some l => Some ((if r then mapfn m else 0) :: l)
                          end
              end
  end.

Inductive sres := RBad | RNo | ROk (l : list N).

Definition snap_cnt (snap : list msgdata) : N := N.of_nat (List.length snap).
Definition snap_uids (snap : list msgdata) : list N := map m_uid snap.
Definition mapfn_of (uidmode : bool) : msgdata -> N := if uidmode then m_uid else m_seq.

Definition search (uidmode : bool) (keys : list key) (snap : list msgdata) : sres :=
  match compile (snap_cnt snap) (snap_uids snap) (KList keys) with
  | None => RBad
  | Some b =>
      match run_slots b (mapfn_of uidmode) snap with
      | None => RNo
      | Some slots => ROk (filter (fun v => negb (v =? 0)) slots)
      end
  end.

End WithCharset.
