(* Lemmas for C03: the command transactions of Model/MailboxActions.v (db operations at the impl level with facts that
   pass facts_ok, case-insensitive flag removal) simulate the reference semantics of Model/MailboxRef.v. *)
From Coq Require Import String Ascii.
From Coq Require Import List NArith Bool Arith Lia.
From Gluon Require Import Model.Chunks Model.SqlBindFacts Model.RelDb Model.RelDbFacts Model.MailboxRef Model.MailboxActions
  Proofs.ChunksProofs Proofs.RelDbProofs.
Import ListNotations.
Open Scope list_scope.
Open Scope N_scope.

(* ------------------------------------------------------------------ small facts *)
Lemma nmem_In : forall x l, nmem x l = true <-> In x l.
Proof.
  intros x l. unfold nmem. rewrite existsb_exists. split.
  - intros [y [Hy E]]. apply N.eqb_eq in E. subst. exact Hy.
  - intros H. exists x. split; [exact H | apply N.eqb_refl].
Qed.

Lemma nmem_false : forall x l, nmem x l = false <-> ~ In x l.
Proof. intros. rewrite <- nmem_In. destruct (nmem x l); split; congruence. Qed.

Lemma ci_refl : forall f, flag_eqb_ci f f = true.
Proof. intros. unfold flag_eqb_ci. apply String.eqb_refl. Qed.
Lemma ci_sym : forall a b, flag_eqb_ci a b = flag_eqb_ci b a.
Proof. intros. unfold flag_eqb_ci. apply String.eqb_sym. Qed.
Lemma ci_trans : forall a b c, flag_eqb_ci a b = true -> flag_eqb_ci b c = flag_eqb_ci a c.
Proof. intros a b c H. unfold flag_eqb_ci in *. apply String.eqb_eq in H. rewrite H. reflexivity. Qed.

Lemma nodupb_NoDup : forall l, nodupb l = true <-> NoDup l.
Proof.
  induction l as [|x t IH]; cbn [nodupb].
  - split; [constructor | reflexivity].
  - rewrite andb_true_iff, negb_true_iff, nmem_false, IH. split.
    + intros [H1 H2]. constructor; assumption.
    + intros H. inversion H; subst. split; assumption.
Qed.

Lemma filter_ext_in' : forall {A} (p q : A -> bool) l, (forall x, In x l -> p x = q x) -> filter p l = filter q l.
Proof.
  intros A p q l H. induction l as [|a t IH]; [reflexivity|]. cbn [filter].
  rewrite (H a (or_introl eq_refl)). rewrite IH; [reflexivity|]. intros x Hx. apply H. right. exact Hx.
Qed.

Lemma nmem_equiv : forall l1 l2 x, (forall y, In y l1 <-> In y l2) -> nmem x l1 = nmem x l2.
Proof.
  intros l1 l2 x H. destruct (nmem x l1) eqn:E1, (nmem x l2) eqn:E2; try reflexivity.
  - apply nmem_In in E1. apply H in E1. apply nmem_In in E1. congruence.
  - apply nmem_In in E2. apply H in E2. apply nmem_In in E2. congruence.
Qed.

(* ------------------------------------------------------------------ what the db operations do (impl level) *)
Section WithFacts.
  Variable F : list stmt_fact.
  Hypothesis HF : facts_ok F = true.
  Local Notation ci := true.

  Lemma ex_remove : forall b ids d, ex F ci (ORemoveMessages b ids) d = sp_remove_messages b ids d.
  Proof. intros. unfold ex. rewrite (remove_messages_refines F ci b ids d HF). reflexivity. Qed.
  Lemma ex_set_deleted : forall b ids v d, ex F ci (OSetDeleted b ids v) d = sp_set_deleted b ids v d.
  Proof. intros. unfold ex. rewrite (set_deleted_refines F ci b ids v d HF). reflexivity. Qed.
  Lemma ex_add_flag : forall ids f d, ex F ci (OAddFlag ids f) d = sp_add_flag ids f d.
  Proof. intros. unfold ex. rewrite (add_flag_refines F ci ids f d HF). reflexivity. Qed.
  Lemma ex_remove_flag : forall ids f d, ex F ci (ORemoveFlag ids f) d = sp_remove_flag ci ids f d.
  Proof. intros. unfold ex. rewrite (remove_flag_refines F ci ids f d HF). reflexivity. Qed.
  Lemma ex_set_flags : forall ids fs d, ex F ci (OSetFlags ids fs) d = sp_set_flags ids fs d.
  Proof. intros. unfold ex. rewrite (set_flags_refines F ci ids fs d HF). reflexivity. Qed.

  (* reads: the list is the spec list as a set *)
  Lemma ex_filter_contains : forall b ids d,
    match find_tab b (d_tabs d) with
    | Some t => exists l, ex F ci (OFilterContains b ids) d = Ok d (RNums l) /\
                forall m, In m l <-> (In m ids /\ existsb (fun x => N.eqb (r_msg x) m) (t_rows t) = true)
    | None => ex F ci (OFilterContains b ids) d = match ids with [] => Ok d (RNums []) | _ => Fail EOther end
    end.
  Proof.
    intros b ids d. pose proof (filter_contains_refines F ci b ids d HF) as H.
    unfold ex. cbn [exec_spec] in H. unfold sp_filter_contains, sel_contains in H.
    destruct (find_tab b (d_tabs d)) as [t|].
    - cbn [res_opt] in H. destruct (exec_impl F ci (OFilterContains b ids) d) as [d1 r1|e]; cbn in H; [|contradiction].
      destruct H as [Hd Hr]. subst d1. destruct r1; cbn in Hr; try discriminate.
      exists l. split; [reflexivity|]. intros m. rewrite Hr, in_map_iff. split.
      + intros [x [Hx Hin]]. apply filter_In in Hin. destruct Hin as [Hin Hm]. subst m. split.
        * apply nmem_In. exact Hm.
        * apply existsb_exists. exists x. split; [exact Hin | apply N.eqb_refl].
      + intros [Hm Hex]. apply existsb_exists in Hex. destruct Hex as [x [Hin E]]. apply N.eqb_eq in E.
        exists x. split; [exact E|]. apply filter_In. split; [exact Hin|]. rewrite E. apply nmem_In. exact Hm.
    - destruct ids; cbn [res_opt] in H.
      + destruct (exec_impl F ci (OFilterContains b []) d) as [d1 r1|e]; cbn in H; [|contradiction].
        destruct H as [Hd Hr]. subst d1. destruct r1; cbn in Hr; try discriminate.
        destruct l as [|y l]; [reflexivity|]. exfalso. apply (proj1 (Hr y)). left. reflexivity.
      + destruct (exec_impl F ci (OFilterContains b (n :: ids)) d) as [d1 r1|e]; cbn in H; [contradiction|]. subst. reflexivity.
  Qed.

  Lemma ex_get_flags : forall ids d, exists l, ex F ci (OGetMessagesFlags ids) d = Ok d (RMsgFlags l) /\
    forall x, In x l <-> exists g, In g (d_msgs d) /\ In (mg_id g) ids /\ x = (mg_id g, mg_remote g, flags_of (mg_id g) (d_flags d)).
  Proof.
    intros ids d. pose proof (get_messages_flags_refines F ci ids d HF) as H.
    unfold ex. cbn [exec_spec] in H. unfold sp_get_messages_flags, sel_msg_flags in H. cbn [res_opt] in H.
    destruct (exec_impl F ci (OGetMessagesFlags ids) d) as [d1 r1|e]; cbn in H; [|contradiction].
    destruct H as [Hd Hr]. subst d1. destruct r1; cbn in Hr; try discriminate.
    exists l. split; [reflexivity|]. intros x. rewrite Hr, in_map_iff. split.
    - intros [g [Hx Hin]]. apply filter_In in Hin. destruct Hin as [Hin Hm]. exists g.
      split; [exact Hin|]. split; [apply nmem_In; exact Hm | symmetry; exact Hx].
    - intros [g [Hin [Hm Hx]]]. exists g. split; [symmetry; exact Hx|]. apply filter_In. split; [exact Hin | apply nmem_In; exact Hm].
  Qed.
End WithFacts.

Section WithFacts2.
  Variable F : list stmt_fact.
  Hypothesis HF : facts_ok F = true.
  Local Notation ci := true.

  Lemma ex_ok : forall o d d' r, exec_spec ci o d = Ok d' r -> exists r', ex F ci o d = Ok d' r'.
  Proof.
    intros o d d' r H. pose proof (op_refines F ci o d HF) as R. rewrite H in R. unfold ex.
    destruct (exec_impl F ci o d) as [d1 r1|e]; cbn in R; [|contradiction]. destruct R as [E _]. subst. eexists. reflexivity.
  Qed.
  Lemma ex_fail : forall o d e, exec_spec ci o d = Fail e -> ex F ci o d = Fail e.
  Proof.
    intros o d e H. pose proof (op_refines F ci o d HF) as R. rewrite H in R. unfold ex.
    destruct (exec_impl F ci o d) as [d1 r1|e1]; cbn in R; [contradiction|]. subst. reflexivity.
  Qed.
  Lemma ex_common : forall o d, exec_spec ci o d = exec_common o d -> ex F ci o d = exec_common o d.
  Proof.
    intros o d H. destruct (exec_common o d) as [d' r|e] eqn:E.
    - destruct o; cbn [exec_spec] in H; unfold ex; cbn [exec_impl]; try (rewrite E; reflexivity);
        cbn [exec_common] in E; discriminate.
    - apply ex_fail. rewrite H. reflexivity.
  Qed.
End WithFacts2.

(* ------------------------------------------------------------------ tables and their abstraction *)
Definition held (d : db) (b m : N) : bool :=
  match find_tab b (d_tabs d) with
  | Some t => existsb (fun x => N.eqb (r_msg x) m) (t_rows t)
  | None => false
  end.

Definition rows_ok (d : db) (t : mtab) : Prop :=
  (forall x, In x (t_rows t) -> r_remote x = r_msg x /\ msg_exists (r_msg x) d = true) /\ NoDup (map r_msg (t_rows t)).

Record inv (d : db) : Prop := mkInv {
  i_boxes : forall t, In t (d_tabs d) -> mbox_exists (t_box t) d = true;
  i_tabs : NoDup (map t_box (d_tabs d));
  i_rows : forall t, In t (d_tabs d) -> rows_ok d t;
  i_msgs : forall g, In g (d_msgs d) -> mg_remote g = mg_id g;
  i_msgs_nodup : NoDup (map mg_id (d_msgs d));
  i_m2m : forall m b, pair_mem m b (d_m2m d) = held d b m;
  i_flags : forall p, In p (d_flags d) -> msg_exists (fst p) d = true
}.

Lemma find_tab_In : forall b ts t, find_tab b ts = Some t -> In t ts.
Proof. intros b ts t H. unfold find_tab in H. apply find_some in H. tauto. Qed.

Lemma find_tab_none : forall b ts, find_tab b ts = None -> forall t, In t ts -> t_box t <> b.
Proof.
  intros b ts H t Hin E. unfold find_tab in H. apply (find_none _ _ H) in Hin. apply N.eqb_neq in Hin. contradiction.
Qed.

Lemma find_tab_unique : forall ts b t, NoDup (map t_box ts) -> In t ts -> t_box t = b -> find_tab b ts = Some t.
Proof.
  induction ts as [|x ts IH]; intros b t Hnd Hin Hb; [contradiction|].
  unfold find_tab. cbn [find]. inversion Hnd as [|? ? Hx Hnd']; subst.
  destruct Hin as [E|Hin].
  - subst x. rewrite N.eqb_refl. reflexivity.
  - destruct (N.eqb (t_box x) (t_box t)) eqn:E.
    + apply N.eqb_eq in E. exfalso. apply Hx. rewrite E. apply in_map. exact Hin.
    + apply (IH (t_box t) t Hnd' Hin eq_refl).
Qed.

Lemma find_put_other : forall b b' ts t', t_box t' = b -> b' <> b -> find_tab b' (put_tab t' ts) = find_tab b' ts.
Proof.
  intros b b' ts t' Hb Hne. unfold find_tab, put_tab. induction ts as [|x ts IH]; [reflexivity|].
  cbn [map find]. destruct (N.eqb (t_box x) (t_box t')) eqn:E.
  - apply N.eqb_eq in E. rewrite Hb in *. 
    destruct (N.eqb b b') eqn:E1; [apply N.eqb_eq in E1; congruence|].
    destruct (N.eqb (t_box x) b') eqn:E2; [apply N.eqb_eq in E2; congruence|]. exact IH.
  - destruct (N.eqb (t_box x) b'); [reflexivity | exact IH].
Qed.

Lemma put_tab_boxes : forall t' ts, map t_box (put_tab t' ts) = map t_box ts.
Proof.
  intros t' ts. unfold put_tab. rewrite map_map. apply map_ext_in. intros x _.
  destruct (N.eqb (t_box x) (t_box t')) eqn:E; [apply N.eqb_eq in E; symmetry; exact E | reflexivity].
Qed.

Lemma In_put_tab : forall t' ts x, In x (put_tab t' ts) -> x = t' \/ (In x ts /\ t_box x <> t_box t').
Proof.
  intros t' ts x H. unfold put_tab in H. apply in_map_iff in H. destruct H as [y [Hy Hin]].
  destruct (N.eqb (t_box y) (t_box t')) eqn:E.
  - left. symmetry. exact Hy.
  - right. subst y. split; [exact Hin | apply N.eqb_neq; exact E].
Qed.

(* abstraction *)
Lemma find_rbox_abs : forall b ts, find (fun x => N.eqb (rb_id x) b) (map tab_abs ts) = option_map tab_abs (find_tab b ts).
Proof.
  intros b ts. unfold find_tab. induction ts as [|t ts IH]; [reflexivity|]. cbn [map find tab_abs rb_id].
  destruct (N.eqb (t_box t) b); [reflexivity | exact IH].
Qed.

Lemma put_rbox_abs : forall t' ts, put_rbox (tab_abs t') (map tab_abs ts) = map tab_abs (put_tab t' ts).
Proof.
  intros t' ts. unfold put_rbox, put_tab. rewrite !map_map. apply map_ext. intros x. cbn [tab_abs rb_id].
  destruct (N.eqb (t_box x) (t_box t')); reflexivity.
Qed.

Lemma rb_holds_abs : forall t m, rb_holds (tab_abs t) m = existsb (fun x => N.eqb (r_msg x) m) (t_rows t).
Proof.
  intros t m. unfold rb_holds, tab_abs. cbn [rb_rows]. induction (t_rows t) as [|x xs IH]; [reflexivity|].
  cbn [map existsb row_abs rr_msg]. rewrite IH. reflexivity.
Qed.

Lemma tab_del_abs : forall ids t, tab_abs (tab_del ids t) = rb_remove ids (tab_abs t).
Proof.
  intros ids t. unfold tab_del, rb_remove, tab_abs. cbn. f_equal.
  induction (t_rows t) as [|x xs IH]; [reflexivity|]. cbn [filter map row_abs rr_msg].
  destruct (negb (nmem (r_msg x) ids)); cbn [map]; [f_equal|]; exact IH.
Qed.

Lemma tab_setdel_abs : forall v ids t, tab_abs (tab_setdel v ids t) = rb_set_deleted ids v (tab_abs t).
Proof.
  intros v ids t. unfold tab_setdel, rb_set_deleted, tab_abs. cbn. f_equal. rewrite !map_map. apply map_ext.
  intros x. cbn [row_abs rr_msg]. destruct (nmem (r_msg x) ids); reflexivity.
Qed.

Lemma map_id_in : forall {A} (f : A -> A) l, (forall x, In x l -> f x = x) -> map f l = l.
Proof.
  intros A f l H. induction l as [|a t IH]; [reflexivity|]. cbn [map]. rewrite (H a (or_introl eq_refl)). f_equal.
  apply IH. intros x Hx. apply H. right. exact Hx.
Qed.

Lemma put_tab_same : forall ts b t, NoDup (map t_box ts) -> find_tab b ts = Some t -> put_tab t ts = ts.
Proof.
  intros ts b t Hnd Hf. unfold put_tab. apply map_id_in. intros x Hx.
  destruct (N.eqb (t_box x) (t_box t)) eqn:E; [|reflexivity]. apply N.eqb_eq in E.
  pose proof (find_tab_unique ts (t_box t) x Hnd Hx E) as H1.
  pose proof (find_tab_box _ _ _ Hf) as Hb. rewrite Hb in H1. rewrite Hf in H1. inversion H1. reflexivity.
Qed.

(* the explicit effect of adding messages at the end of a mailbox table *)
Fixpoint tab_append (ms : list N) (t : mtab) : mtab :=
  match ms with
  | [] => t
  | m :: r => tab_append r (mkTab (t_box t) (t_seq t + 1) (t_rows t ++ [mkRow (t_seq t + 1) m m false true]))
  end.

Lemma tab_append_box : forall ms t, t_box (tab_append ms t) = t_box t.
Proof. induction ms as [|m r IH]; intros t; [reflexivity|]. cbn [tab_append]. rewrite IH. reflexivity. Qed.

Lemma tab_append_abs : forall ms t, tab_abs (tab_append ms t) = rb_append ms (tab_abs t).
Proof.
  induction ms as [|m r IH]; intros t; [reflexivity|]. cbn [tab_append rb_append]. rewrite IH. f_equal.
  unfold tab_abs. cbn. rewrite map_app. reflexivity.
Qed.

Lemma tab_append_rows : forall ms t, exists new, t_rows (tab_append ms t) = t_rows t ++ new /\ map r_msg new = ms /\
  (forall x, In x new -> r_remote x = r_msg x).
Proof.
  induction ms as [|m r IH]; intros t.
  - exists []. rewrite app_nil_r. repeat split. intros x [].
  - cbn [tab_append]. destruct (IH (mkTab (t_box t) (t_seq t + 1) (t_rows t ++ [mkRow (t_seq t + 1) m m false true]))) as [new [H1 [H2 H3]]].
    exists (mkRow (t_seq t + 1) m m false true :: new). cbn [t_rows] in H1. rewrite H1, <- app_assoc. split; [reflexivity|].
    split; [cbn; rewrite H2; reflexivity|]. intros x [E|Hx]; [subst; reflexivity | apply H3; exact Hx].
Qed.

Lemma existsb_app_single : forall {A} (p : A -> bool) l x, existsb p (l ++ [x]) = existsb p l || p x.
Proof. intros. rewrite existsb_app. cbn. rewrite orb_false_r. reflexivity. Qed.

Lemma foldM_tab_ins : forall msgs ms t,
  NoDup ms ->
  (forall m, In m ms -> existsb (fun x => N.eqb (r_msg x) m) (t_rows t) = false
                      /\ existsb (fun x => N.eqb (r_remote x) m) (t_rows t) = false
                      /\ existsb (fun x => N.eqb (mg_id x) m) msgs = true) ->
  foldM (tab_ins1 msgs) (map (fun m => (m, m)) ms) t = Some (tab_append ms t).
Proof.
  intros msgs ms. induction ms as [|m r IH]; intros t Hnd H; [reflexivity|].
  cbn [map foldM tab_append]. unfold tab_ins1 at 1.
  destruct (H m (or_introl eq_refl)) as [H1 [H2 H3]]. rewrite H1, H2, H3. cbn [negb].
  inversion Hnd as [|? ? Hm Hnd']; subst. apply IH; [exact Hnd'|].
  intros m' Hm'. destruct (H m' (or_intror Hm')) as [G1 [G2 G3]]. cbn [t_rows].
  rewrite !existsb_app_single. cbn [r_msg r_remote]. rewrite G1, G2.
  assert (E : N.eqb m m' = false) by (apply N.eqb_neq; intros E; subst; contradiction).
  rewrite E. repeat split; auto.
Qed.

Lemma foldM_m2m_ins : forall d b ms l,
  NoDup ms -> mbox_exists b d = true ->
  (forall m, In m ms -> pair_mem m b l = false /\ msg_exists m d = true) ->
  foldM (m2m_ins1 d b) ms l = Some (l ++ map (fun m => (m, b)) ms).
Proof.
  intros d b ms. induction ms as [|m r IH]; intros l Hnd Hb H; cbn [foldM map].
  - rewrite app_nil_r. reflexivity.
  - unfold m2m_ins1 at 1. destruct (H m (or_introl eq_refl)) as [H1 H2]. rewrite H1, H2, Hb. cbn [negb].
    inversion Hnd as [|? ? Hm Hnd']; subst. rewrite (IH (l ++ [(m, b)]) Hnd' Hb).
    + rewrite <- app_assoc. reflexivity.
    + intros m' Hm'. destruct (H m' (or_intror Hm')) as [G1 G2]. split; [|exact G2].
      unfold pair_mem in *. rewrite existsb_app_single. rewrite G1. cbn [fst snd].
      assert (E : N.eqb m m' = false) by (apply N.eqb_neq; intros E; subst; contradiction).
      rewrite E. reflexivity.
Qed.

Lemma pair_mem_app : forall m b l1 l2, pair_mem m b (l1 ++ l2) = pair_mem m b l1 || pair_mem m b l2.
Proof. intros. unfold pair_mem. apply existsb_app. Qed.

Lemma pair_mem_map : forall m b b' ms, pair_mem m b (map (fun x => (x, b')) ms) = nmem m ms && N.eqb b' b.
Proof.
  intros m b b' ms. unfold pair_mem, nmem. induction ms as [|x r IH]; [reflexivity|]. cbn [map existsb fst snd].
  rewrite IH. rewrite (N.eqb_sym x m). destruct (N.eqb m x), (N.eqb b' b), (existsb (N.eqb m) r); reflexivity.
Qed.

Lemma pair_mem_filter : forall m b (p : N * N -> bool) l, pair_mem m b (filter p l) = pair_mem m b l && p (m, b).
Proof.
  intros m b p l. unfold pair_mem. induction l as [|x r IH]; [reflexivity|]. cbn [filter existsb].
  destruct (N.eqb (fst x) m && N.eqb (snd x) b) eqn:E.
  - apply andb_true_iff in E. destruct E as [E1 E2]. apply N.eqb_eq in E1, E2. destruct x as [x1 x2]. cbn [fst snd] in *. subst.
    destruct (p (m, b)) eqn:Ep.
    + cbn [existsb fst snd]. rewrite !N.eqb_refl. reflexivity.
    + rewrite IH. cbn [orb]. rewrite !andb_false_r. reflexivity.
  - destruct (p x); cbn [existsb orb]; [rewrite E; cbn [orb]|]; exact IH.
Qed.

(* ------------------------------------------------------------------ removing messages from a mailbox *)
Definition do_remove (b : N) (ids : list N) (t : mtab) (d : db) : db :=
  m2m_del_rows b ids (set_tabs d (put_tab (tab_del ids t) (d_tabs d))).

Lemma m2m_del_nil : forall b d, m2m_del_rows b [] d = d.
Proof. intros b d. destruct (m2m_del_hom b) as [H _]. specialize (H d). inversion H. rewrite H1. exact H1. Qed.

Lemma held_put : forall d b b' t' m, t_box t' = b -> (exists t, find_tab b (d_tabs d) = Some t) ->
  held (set_tabs d (put_tab t' (d_tabs d))) b' m =
  if N.eqb b' b then existsb (fun x => N.eqb (r_msg x) m) (t_rows t') else held d b' m.
Proof.
  intros d b b' t' m Hb [t Ht]. unfold held. cbn [d_tabs set_tabs].
  destruct (N.eqb b' b) eqn:E.
  - apply N.eqb_eq in E. subst b'. rewrite (find_put_same b (d_tabs d) t t' Ht Hb). reflexivity.
  - apply N.eqb_neq in E. rewrite (find_put_other b b' (d_tabs d) t' Hb E). reflexivity.
Qed.

Lemma existsb_filter_and : forall {A} (q p : A -> bool) l, existsb q (filter p l) = existsb (fun x => q x && p x) l.
Proof.
  intros A q p l. induction l as [|x r IH]; [reflexivity|]. cbn [filter existsb].
  destruct (p x); cbn [existsb]; rewrite IH; [rewrite andb_true_r | rewrite andb_false_r]; reflexivity.
Qed.

Lemma existsb_msg_filter : forall m ids rows,
  existsb (fun x => N.eqb (r_msg x) m) (filter (fun x => negb (nmem (r_msg x) ids)) rows)
  = existsb (fun x => N.eqb (r_msg x) m) rows && negb (nmem m ids).
Proof.
  intros m ids rows. rewrite existsb_filter_and. induction rows as [|x r IH]; [reflexivity|]. cbn [existsb]. rewrite IH.
  destruct (N.eqb (r_msg x) m) eqn:E.
  - apply N.eqb_eq in E. rewrite E. destruct (nmem m ids), (existsb (fun x0 => N.eqb (r_msg x0) m) r); reflexivity.
  - cbn [andb orb]. reflexivity.
Qed.

Lemma NoDup_map_filter : forall {A B} (f : A -> B) (p : A -> bool) l, NoDup (map f l) -> NoDup (map f (filter p l)).
Proof.
  intros A B f p l H. induction l as [|x r IH]; [constructor|]. cbn [map] in H. inversion H as [|? ? Hx Hr]; subst.
  cbn [filter]. destruct (p x); [|apply IH; exact Hr]. cbn [map]. constructor; [|apply IH; exact Hr].
  intros Hin. apply Hx. apply in_map_iff in Hin. destruct Hin as [y [Hy Hin]]. apply filter_In in Hin.
  apply in_map_iff. exists y. tauto.
Qed.

Lemma rows_ok_frame : forall d d' t, d_msgs d' = d_msgs d -> rows_ok d t -> rows_ok d' t.
Proof.
  intros d d' t Hm [H1 H2]. split; [|exact H2]. intros x Hx. destruct (H1 x Hx) as [A B]. split; [exact A|].
  unfold msg_exists in *. rewrite Hm. exact B.
Qed.

Lemma inv_do_remove : forall b ids t d, inv d -> find_tab b (d_tabs d) = Some t -> inv (do_remove b ids t d).
Proof.
  intros b ids t d I Ht. pose proof (find_tab_box _ _ _ Ht) as Hb.
  assert (Hb' : t_box (tab_del ids t) = b) by (unfold tab_del; cbn; exact Hb).
  constructor.
  - intros x Hx. cbn [do_remove m2m_del_rows d_tabs set_m2m set_tabs] in Hx.
    unfold mbox_exists, find_mbox. cbn [do_remove m2m_del_rows d_mboxes set_m2m set_tabs].
    apply In_put_tab in Hx. destruct Hx as [E|[Hx _]].
    + subst x. rewrite Hb', <- Hb. apply (i_boxes d I t (find_tab_In _ _ _ Ht)).
    + apply (i_boxes d I x Hx).
  - cbn [do_remove m2m_del_rows d_tabs set_m2m set_tabs]. rewrite put_tab_boxes. apply (i_tabs d I).
  - intros x Hx. cbn [do_remove m2m_del_rows d_tabs set_m2m set_tabs] in Hx.
    apply rows_ok_frame with (d := d); [reflexivity|].
    apply In_put_tab in Hx. destruct Hx as [E|[Hx _]].
    + subst x. destruct (i_rows d I t (find_tab_In _ _ _ Ht)) as [H1 H2]. split.
      * intros y Hy. unfold tab_del in Hy. cbn [t_rows] in Hy. apply filter_In in Hy. apply H1. tauto.
      * unfold tab_del. cbn [t_rows]. apply NoDup_map_filter. exact H2.
    + apply (i_rows d I x Hx).
  - apply (i_msgs d I).
  - apply (i_msgs_nodup d I).
  - intros m b'. unfold do_remove, m2m_del_rows. cbn [d_m2m set_m2m set_tabs].
    rewrite pair_mem_filter. cbn [fst snd]. rewrite (i_m2m d I).
    change (held (set_m2m (set_tabs d (put_tab (tab_del ids t) (d_tabs d))) (filter (fun p => negb (nmem (fst p) ids && N.eqb (snd p) b)) (d_m2m d))) b' m)
      with (held (set_tabs d (put_tab (tab_del ids t) (d_tabs d))) b' m).
    rewrite (held_put d b b' (tab_del ids t) m Hb' (ex_intro _ t Ht)).
    destruct (N.eqb b' b) eqn:E.
    + apply N.eqb_eq in E. subst b'. unfold tab_del. cbn [t_rows]. rewrite existsb_msg_filter.
      unfold held. rewrite Ht. rewrite andb_true_r. reflexivity.
    + rewrite andb_false_r. cbn [negb]. rewrite andb_true_r. reflexivity.
  - apply (i_flags d I).
Qed.

Lemma held_do_remove : forall b ids t d b' m, find_tab b (d_tabs d) = Some t ->
  held (do_remove b ids t d) b' m = if N.eqb b' b then held d b m && negb (nmem m ids) else held d b' m.
Proof.
  intros b ids t d b' m Ht. pose proof (find_tab_box _ _ _ Ht) as Hb.
  assert (Hb' : t_box (tab_del ids t) = b) by (unfold tab_del; cbn; exact Hb).
  change (held (do_remove b ids t d) b' m) with (held (set_tabs d (put_tab (tab_del ids t) (d_tabs d))) b' m).
  rewrite (held_put d b b' (tab_del ids t) m Hb' (ex_intro _ t Ht)).
  destruct (N.eqb b' b); [|reflexivity]. unfold tab_del. cbn [t_rows]. rewrite existsb_msg_filter. unfold held. rewrite Ht. reflexivity.
Qed.

Section Steps.
  Variable F : list stmt_fact.
  Hypothesis HF : facts_ok F = true.
  Local Notation ci := true.

  Lemma act_remove_unchecked_eq : forall b ids t d, inv d -> find_tab b (d_tabs d) = Some t ->
    act_remove_unchecked F ci b ids d = Ok (do_remove b ids t d) RUnit.
  Proof.
    intros b ids t d I Ht. unfold act_remove_unchecked. destruct ids as [|x ids].
    - unfold do_remove. rewrite tab_del_nil, (put_tab_same _ _ _ (i_tabs d I) Ht), db_eta_tabs, m2m_del_nil. reflexivity.
    - rewrite (ex_remove F HF). unfold sp_remove_messages. cbn [tab_del_rows]. unfold upd_tab. rewrite Ht. reflexivity.
  Qed.
End Steps.

(* ------------------------------------------------------------------ adding messages at the end of a mailbox *)
Definition do_add (b : N) (ids : list N) (t : mtab) (d : db) : db :=
  set_m2m (set_tabs d (put_tab (tab_append ids t) (d_tabs d))) (d_m2m d ++ map (fun m => (m, b)) ids).

Definition addable (d : db) (b : N) (ids : list N) : Prop :=
  NoDup ids /\ forall m, In m ids -> held d b m = false /\ msg_exists m d = true.

Lemma held_false_rows : forall d b t m, inv d -> find_tab b (d_tabs d) = Some t -> held d b m = false ->
  existsb (fun x => N.eqb (r_msg x) m) (t_rows t) = false /\ existsb (fun x => N.eqb (r_remote x) m) (t_rows t) = false.
Proof.
  intros d b t m I Ht H. unfold held in H. rewrite Ht in H. split; [exact H|].
  destruct (i_rows d I t (find_tab_In _ _ _ Ht)) as [H1 _].
  destruct (existsb (fun x => N.eqb (r_remote x) m) (t_rows t)) eqn:E; [|reflexivity].
  apply existsb_exists in E. destruct E as [x [Hx E]]. destruct (H1 x Hx) as [A _]. rewrite A in E.
  assert (existsb (fun x0 => N.eqb (r_msg x0) m) (t_rows t) = true) by (apply existsb_exists; exists x; tauto). congruence.
Qed.

Lemma map_fst_pairs : forall ids, map fst (pairs ids) = ids.
Proof. intros. unfold pairs. rewrite map_map. apply map_ext_id. reflexivity. Qed.

Lemma existsb_msg_append : forall m ids t,
  existsb (fun x => N.eqb (r_msg x) m) (t_rows (tab_append ids t)) = existsb (fun x => N.eqb (r_msg x) m) (t_rows t) || nmem m ids.
Proof.
  intros m ids. induction ids as [|i r IH]; intros t; cbn [tab_append nmem existsb].
  - rewrite orb_false_r. reflexivity.
  - rewrite IH. cbn [t_rows]. rewrite existsb_app_single. cbn [r_msg]. fold (nmem m r).
    rewrite (N.eqb_sym i m). rewrite orb_assoc. reflexivity.
Qed.

Lemma NoDup_app_disj : forall {A} (l1 l2 : list A), NoDup l1 -> NoDup l2 -> (forall x, In x l1 -> ~ In x l2) -> NoDup (l1 ++ l2).
Proof.
  intros A l1. induction l1 as [|a r IH]; intros l2 H1 H2 H; [exact H2|]. cbn [app]. inversion H1; subst.
  constructor.
  - intros Hin. apply in_app_or in Hin. destruct Hin as [Hin|Hin]; [contradiction | apply (H a (or_introl eq_refl) Hin)].
  - apply IH; auto. intros x Hx. apply H. right. exact Hx.
Qed.

Lemma inv_do_add : forall b ids t d, inv d -> find_tab b (d_tabs d) = Some t -> addable d b ids -> inv (do_add b ids t d).
Proof.
  intros b ids t d I Ht [Hnd Hadd]. pose proof (find_tab_box _ _ _ Ht) as Hb.
  assert (Hb' : t_box (tab_append ids t) = b) by (rewrite tab_append_box; exact Hb).
  constructor.
  - intros x Hx. cbn [do_add d_tabs set_m2m set_tabs] in Hx.
    unfold mbox_exists, find_mbox. cbn [do_add d_mboxes set_m2m set_tabs].
    apply In_put_tab in Hx. destruct Hx as [E|[Hx _]].
    + subst x. rewrite Hb', <- Hb. apply (i_boxes d I t (find_tab_In _ _ _ Ht)).
    + apply (i_boxes d I x Hx).
  - cbn [do_add d_tabs set_m2m set_tabs]. rewrite put_tab_boxes. apply (i_tabs d I).
  - intros x Hx. cbn [do_add d_tabs set_m2m set_tabs] in Hx.
    apply rows_ok_frame with (d := d); [reflexivity|].
    apply In_put_tab in Hx. destruct Hx as [E|[Hx _]]; [|apply (i_rows d I x Hx)].
    subst x. destruct (i_rows d I t (find_tab_In _ _ _ Ht)) as [H1 H2].
    destruct (tab_append_rows ids t) as [new [E1 [E2 E3]]]. split.
    + intros y Hy. rewrite E1 in Hy. apply in_app_or in Hy. destruct Hy as [Hy|Hy]; [apply H1; exact Hy|].
      split; [apply E3; exact Hy|]. apply Hadd. rewrite <- E2. apply in_map. exact Hy.
    + rewrite E1, map_app, E2. apply NoDup_app_disj; [exact H2 | exact Hnd|].
      intros m Hm Hin. destruct (Hadd m Hin) as [Hh _]. unfold held in Hh. rewrite Ht in Hh.
      apply in_map_iff in Hm. destruct Hm as [y [Ey Hy]].
      assert (existsb (fun x => N.eqb (r_msg x) m) (t_rows t) = true) by (apply existsb_exists; exists y; split; [exact Hy | apply N.eqb_eq; exact Ey]).
      congruence.
  - apply (i_msgs d I).
  - apply (i_msgs_nodup d I).
  - intros m b'. unfold do_add. cbn [d_m2m set_m2m].
    rewrite pair_mem_app, pair_mem_map, (i_m2m d I).
    change (held (set_m2m (set_tabs d (put_tab (tab_append ids t) (d_tabs d))) (d_m2m d ++ map (fun m0 => (m0, b)) ids)) b' m)
      with (held (set_tabs d (put_tab (tab_append ids t) (d_tabs d))) b' m).
    rewrite (held_put d b b' (tab_append ids t) m Hb' (ex_intro _ t Ht)). rewrite (N.eqb_sym b b').
    destruct (N.eqb b' b) eqn:E.
    + apply N.eqb_eq in E. subst b'. rewrite existsb_msg_append. unfold held. rewrite Ht. rewrite andb_true_r. reflexivity.
    + rewrite andb_false_r, orb_false_r. reflexivity.
  - apply (i_flags d I).
Qed.

Lemma held_do_add : forall b ids t d b' m, find_tab b (d_tabs d) = Some t ->
  held (do_add b ids t d) b' m = if N.eqb b' b then held d b m || nmem m ids else held d b' m.
Proof.
  intros b ids t d b' m Ht. pose proof (find_tab_box _ _ _ Ht) as Hb.
  assert (Hb' : t_box (tab_append ids t) = b) by (rewrite tab_append_box; exact Hb).
  change (held (do_add b ids t d) b' m) with (held (set_tabs d (put_tab (tab_append ids t) (d_tabs d))) b' m).
  rewrite (held_put d b b' (tab_append ids t) m Hb' (ex_intro _ t Ht)).
  destruct (N.eqb b' b); [|reflexivity]. rewrite existsb_msg_append. unfold held. rewrite Ht. reflexivity.
Qed.

Section Steps2.
  Variable F : list stmt_fact.
  Hypothesis HF : facts_ok F = true.
  Local Notation ci := true.

  Lemma st_add_eq : forall b ids t d, inv d -> find_tab b (d_tabs d) = Some t -> addable d b ids ->
    exists r, st_add F ci b ids d = Ok (do_add b ids t d) r.
  Proof.
    intros b ids t d I Ht [Hnd Hadd]. unfold st_add.
    rewrite (ex_common F HF (OGetCountAndUID b) d eq_refl). cbn [exec_common]. unfold op_get_count_and_uid, tab_or_fail.
    rewrite Ht. cbn [rbind].
    destruct ids as [|i ids].
    - exists (RSnap []). unfold ex. cbn [pairs map exec_impl im_add_messages]. unfold do_add. cbn [tab_append map].
      rewrite app_nil_r, (put_tab_same _ _ _ (i_tabs d I) Ht), db_eta_tabs, db_eta_m2m. reflexivity.
    - set (il := i :: ids) in *.
      assert (E1 : tab_ins_rows b (pairs il) d = Some (set_tabs d (put_tab (tab_append il t) (d_tabs d)))).
      { unfold il at 1. cbn [pairs map tab_ins_rows]. unfold upd_tab. rewrite Ht.
        change ((i, i) :: map (fun m => (m, m)) ids) with (map (fun m => (m, m)) il).
        rewrite (foldM_tab_ins (d_msgs d) il t Hnd); [reflexivity|].
        intros m Hm. destruct (Hadd m Hm) as [Hh He]. destruct (held_false_rows d b t m I Ht Hh) as [A B].
        repeat split; assumption. }
      assert (E2 : m2m_ins_rows b (pairs il) (set_tabs d (put_tab (tab_append il t) (d_tabs d))) = Some (do_add b il t d)).
      { unfold m2m_ins_rows. rewrite map_fst_pairs. cbn [d_m2m set_tabs].
        rewrite (foldM_ext _ (m2m_ins1 d b)) by reflexivity.
        rewrite (foldM_m2m_ins d b il (d_m2m d) Hnd); [reflexivity | |].
        - rewrite <- (find_tab_box _ _ _ Ht). apply (i_boxes d I t (find_tab_In _ _ _ Ht)).
        - intros m Hm. destruct (Hadd m Hm) as [Hh He]. split; [rewrite (i_m2m d I); exact Hh | exact He]. }
      assert (E3 : exists rows, sp_add_messages b (pairs il) d = Ok (do_add b il t d) (RSnap rows)).
      { unfold sp_add_messages. unfold il at 1. cbn [pairs map].
        change ((i, i) :: map (fun m => (m, m)) ids) with (pairs il). rewrite E1. cbn [obind]. rewrite E2.
        unfold sel_rows_in.
        assert (Hf : exists t', find_tab b (d_tabs (do_add b il t d)) = Some t').
        { exists (tab_append il t). cbn [do_add d_tabs set_m2m set_tabs]. apply (find_put_same b (d_tabs d) t _ Ht).
          rewrite tab_append_box. apply (find_tab_box _ _ _ Ht). }
        destruct Hf as [t' Hf]. rewrite Hf. eexists. reflexivity. }
      destruct E3 as [rows E3]. apply (ex_ok F HF (OAddMessages b (pairs il)) d _ _ E3).
  Qed.
End Steps2.

(* ------------------------------------------------------------------ flags as a predicate *)
Definition has (l : list (N * flag)) (m : N) (f : flag) : bool :=
  existsb (fun p => N.eqb (fst p) m && flag_eqb_ci (snd p) f) l.

Lemma db_has_flag_has : forall d m f, db_has_flag d m f = has (d_flags d) m f. Proof. reflexivity. Qed.
Lemma ref_has_flag_has : forall r m f, ref_has_flag r m f = has (rf_flags r) m f. Proof. reflexivity. Qed.

Lemma has_app : forall l1 l2 m f, has (l1 ++ l2) m f = has l1 m f || has l2 m f.
Proof. intros. unfold has. apply existsb_app. Qed.

Lemma has_single : forall m0 f0 m f, has [(m0, f0)] m f = N.eqb m0 m && flag_eqb_ci f0 f.
Proof. intros. unfold has. cbn. rewrite orb_false_r. reflexivity. Qed.

Lemma fl_has_has : forall m f l f', fl_has m f l = true -> flag_eqb_ci f f' = true -> has l m f' = true.
Proof.
  intros m f l f' H Hc. unfold fl_has in H. apply existsb_exists in H. destruct H as [p [Hp E]].
  apply andb_true_iff in E. destruct E as [E1 E2]. apply String.eqb_eq in E2.
  unfold has. apply existsb_exists. exists p. split; [exact Hp|]. rewrite E1, E2, Hc. reflexivity.
Qed.

(* INSERT OR IGNORE of a list of (message, flag) pairs: the predicate grows by exactly those pairs *)
Lemma foldM_ins_ignore_has : forall d X l,
  (forall p, In p X -> msg_exists (fst p) d = true) ->
  exists l', foldM (flag_ins_ignore1 d) X l = Some l' /\
             (forall m f, has l' m f = has l m f || has X m f) /\
             (forall q, In q l' -> In q l \/ In q X).
Proof.
  intros d X. induction X as [|p X IH]; intros l HX.
  - exists l. split; [reflexivity|]. split; [|intros; left; assumption]. intros. cbn. rewrite orb_false_r. reflexivity.
  - cbn [foldM]. unfold flag_ins_ignore1 at 1. rewrite (HX p (or_introl eq_refl)). cbn [negb].
    assert (HX' : forall q, In q X -> msg_exists (fst q) d = true) by (intros q Hq; apply HX; right; exact Hq).
    destruct (fl_has (fst p) (snd p) l) eqn:E.
    + destruct (IH l HX') as [l' [H1 [H2 H3]]]. exists l'. split; [exact H1|]. split.
      * intros m f. rewrite H2.
        change (p :: X) with ([p] ++ X). rewrite has_app. destruct p as [m0 f0]. rewrite has_single. cbn [fst snd] in E.
        destruct (N.eqb m0 m && flag_eqb_ci f0 f) eqn:E2; [|reflexivity].
        apply andb_true_iff in E2. destruct E2 as [A B]. apply N.eqb_eq in A. subst m0.
        rewrite (fl_has_has m f0 l f E B). reflexivity.
      * intros q Hq. destruct (H3 q Hq) as [A|A]; [left; exact A | right; right; exact A].
    + destruct (IH (l ++ [p]) HX') as [l' [H1 [H2 H3]]]. exists l'. split; [exact H1|]. split.
      * intros m f. rewrite H2, has_app.
        change (p :: X) with ([p] ++ X). rewrite has_app. rewrite orb_assoc. reflexivity.
      * intros q Hq. destruct (H3 q Hq) as [A|A]; [|right; right; exact A].
        apply in_app_or in A. destruct A as [A|[A|[]]]; [left; exact A | right; left; exact A].
Qed.

Lemma has_map_flag : forall ids fl m f, has (map (fun x => (x, fl)) ids) m f = nmem m ids && flag_eqb_ci fl f.
Proof.
  intros ids fl m f. unfold has, nmem. induction ids as [|i r IH]; [reflexivity|]. cbn [map existsb fst snd]. rewrite IH.
  rewrite (N.eqb_sym i m). destruct (N.eqb m i), (flag_eqb_ci fl f), (existsb (N.eqb m) r); reflexivity.
Qed.

Lemma sp_add_flag_has : forall ids fl d, (forall m, In m ids -> msg_exists m d = true) ->
  exists d', sp_add_flag ids fl d = Ok d' RUnit /\ d_tabs d' = d_tabs d /\ d_msgs d' = d_msgs d /\ d_m2m d' = d_m2m d /\
             d_mboxes d' = d_mboxes d /\
             (forall m f, db_has_flag d' m f = db_has_flag d m f || (nmem m ids && flag_eqb_ci fl f)) /\
             (forall q, In q (d_flags d') -> In q (d_flags d) \/ In (fst q) ids).
Proof.
  intros ids fl d H. unfold sp_add_flag, flags_add.
  assert (E : foldM (fun m l => flag_ins_ignore1 d (m, fl) l) ids (d_flags d)
              = foldM (flag_ins_ignore1 d) (map (fun m => (m, fl)) ids) (d_flags d)).
  { rewrite foldM_map. apply foldM_ext. reflexivity. }
  rewrite E. clear E.
  destruct (foldM_ins_ignore_has d (map (fun m => (m, fl)) ids) (d_flags d)) as [l' [H1 [H2 H3]]].
  - intros p Hp. apply in_map_iff in Hp. destruct Hp as [m [E Hm]]. subst p. apply H. exact Hm.
  - rewrite H1. exists (set_flags d l'). cbn [lift]. repeat split; try reflexivity.
    + intros m f. rewrite !db_has_flag_has. cbn [d_flags set_flags]. rewrite H2, has_map_flag. reflexivity.
    + cbn [d_flags set_flags]. intros q Hq. destruct (H3 q Hq) as [A|A]; [left; exact A|]. right.
      apply in_map_iff in A. destruct A as [m [E Hm]]. subst q. exact Hm.
Qed.

Lemma existsb_and_const : forall {A} (q p : A -> bool) (c : bool) l, (forall x, q x = true -> p x = c) ->
  existsb (fun x => q x && p x) l = existsb q l && c.
Proof.
  intros A q p c l H. induction l as [|x r IH]; [reflexivity|]. cbn [existsb]. rewrite IH.
  destruct (q x) eqn:E; [rewrite (H x E)|]; cbn [andb orb]; [destruct c, (existsb q r); reflexivity | reflexivity].
Qed.

Lemma has_filter_remove : forall ids fl l m f,
  has (filter (fun p => negb (nmem (fst p) ids && flag_eqb_ci (snd p) fl)) l) m f
  = has l m f && negb (nmem m ids && flag_eqb_ci f fl).
Proof.
  intros ids fl l m f. unfold has. rewrite existsb_filter_and. apply existsb_and_const.
  intros p Hp. apply andb_true_iff in Hp. destruct Hp as [A B]. apply N.eqb_eq in A. rewrite A.
  rewrite (ci_trans _ _ fl (eq_trans (ci_sym f (snd p)) B)). reflexivity.
Qed.

Lemma sp_remove_flag_has : forall ids fl d,
  exists d', sp_remove_flag true ids fl d = Ok d' RUnit /\ d_tabs d' = d_tabs d /\ d_msgs d' = d_msgs d /\ d_m2m d' = d_m2m d /\
             d_mboxes d' = d_mboxes d /\
             (forall m f, db_has_flag d' m f = db_has_flag d m f && negb (nmem m ids && flag_eqb_ci f fl)) /\
             (forall q, In q (d_flags d') -> In q (d_flags d)).
Proof.
  intros ids fl d. exists (flags_remove true fl ids d). repeat split; try reflexivity.
  - intros m f. rewrite !db_has_flag_has. unfold flags_remove. cbn [d_flags set_flags]. apply has_filter_remove.
  - unfold flags_remove. cbn [d_flags set_flags]. intros q Hq. apply filter_In in Hq. tauto.
Qed.

Lemma has_map_snd : forall i fs m f, has (map (fun g => (i, g)) fs) m f = N.eqb m i && fmem_ci f fs.
Proof.
  intros i fs m f. unfold has, fmem_ci. induction fs as [|g fs IHf]; [rewrite andb_false_r; reflexivity|].
  cbn [map existsb fst snd]. rewrite IHf.
  rewrite (N.eqb_sym i m), (ci_sym g f). destruct (N.eqb m i), (flag_eqb_ci f g), (existsb (flag_eqb_ci f) fs); reflexivity.
Qed.

Lemma has_cross : forall fs ids m f, has (flat_map (fun x => map (fun g => (x, g)) fs) ids) m f = nmem m ids && fmem_ci f fs.
Proof.
  intros fs ids m f. induction ids as [|i r IH]; [reflexivity|]. cbn [flat_map]. rewrite has_app, IH, has_map_snd. cbn [nmem existsb].
  fold (nmem m r). destruct (N.eqb m i), (nmem m r), (fmem_ci f fs); reflexivity.
Qed.

Lemma fmem_fmem_ci : forall g fs f, fmem g fs = true -> flag_eqb_ci g f = true -> fmem_ci f fs = true.
Proof.
  intros g fs f H Hc. unfold fmem in H. apply existsb_exists in H. destruct H as [x [Hx E]]. apply String.eqb_eq in E. subst x.
  unfold fmem_ci. apply existsb_exists. exists g. split; [exact Hx | rewrite ci_sym; exact Hc].
Qed.

Lemma sp_set_flags_has : forall ids fs d, (forall m, In m ids -> msg_exists m d = true) ->
  exists d', sp_set_flags ids fs d = Ok d' RUnit /\ d_tabs d' = d_tabs d /\ d_msgs d' = d_msgs d /\ d_m2m d' = d_m2m d /\
             d_mboxes d' = d_mboxes d /\
             (forall m f, db_has_flag d' m f = if nmem m ids then fmem_ci f fs else db_has_flag d m f) /\
             (forall q, In q (d_flags d') -> In q (d_flags d) \/ In (fst q) ids).
Proof.
  intros ids fs d H. unfold sp_set_flags. destruct fs as [|f0 fs].
  - exists (set_flags d (filter (fun p => negb (nmem (fst p) ids)) (d_flags d))). repeat split; try reflexivity.
    + intros m f. rewrite !db_has_flag_has. cbn [d_flags set_flags]. unfold has. rewrite existsb_filter_and.
      rewrite (existsb_and_const _ (fun p => negb (nmem (fst p) ids)) (negb (nmem m ids))).
      * destruct (nmem m ids); cbn [negb fmem_ci existsb]; [apply andb_false_r | apply andb_true_r].
      * intros p Hp. apply andb_true_iff in Hp. destruct Hp as [A _]. apply N.eqb_eq in A. rewrite A. reflexivity.
    + cbn [d_flags set_flags]. intros q Hq. apply filter_In in Hq. tauto.
  - set (fl := f0 :: fs). unfold flags_ins_cross.
    destruct (foldM_ins_ignore_has (flags_del_notin fl ids d) (flat_map (fun m => map (fun f => (m, f)) fl) ids)
                (d_flags (flags_del_notin fl ids d))) as [l' [H1 [H2 H3]]].
    + intros p Hp. apply in_flat_map in Hp. destruct Hp as [m [Hm Hp]]. apply in_map_iff in Hp. destruct Hp as [g [E _]]. subst p.
      apply (H m Hm).
    + rewrite H1. exists (set_flags (flags_del_notin fl ids d) l'). cbn [lift]. repeat split; try reflexivity.
      * intros m f. rewrite !db_has_flag_has. cbn [d_flags set_flags]. rewrite H2, has_cross.
        unfold flags_del_notin. cbn [d_flags set_flags]. unfold has at 1. rewrite existsb_filter_and.
        destruct (nmem m ids) eqn:Em; cbn [andb].
        -- destruct (fmem_ci f fl) eqn:Ef; [apply orb_true_r|]. rewrite orb_false_r.
           destruct (existsb _ (d_flags d)) eqn:E; [|reflexivity]. exfalso.
           apply existsb_exists in E. destruct E as [p [Hp E]]. apply andb_true_iff in E. destruct E as [E1 E2].
           apply andb_true_iff in E1. destruct E1 as [A B]. apply N.eqb_eq in A. rewrite A, Em in E2. cbn [andb] in E2.
           apply negb_true_iff in E2. apply negb_false_iff in E2. rewrite (fmem_fmem_ci _ _ _ E2 B) in Ef. discriminate.
        -- rewrite orb_false_r.
           rewrite (existsb_and_const (fun p => N.eqb (fst p) m && flag_eqb_ci (snd p) f)
                      (fun p => negb (nmem (fst p) ids && negb (fmem (snd p) fl))) true).
           ++ unfold has. apply andb_true_r.
           ++ intros p Hp. apply andb_true_iff in Hp. destruct Hp as [A _]. apply N.eqb_eq in A. rewrite A, Em. reflexivity.
      * cbn [d_flags set_flags]. intros q Hq. destruct (H3 q Hq) as [A|A].
        -- left. unfold flags_del_notin in A. cbn [d_flags set_flags] in A. apply filter_In in A. tauto.
        -- right. apply in_flat_map in A. destruct A as [m [Hm A]]. apply in_map_iff in A. destruct A as [g [E _]]. subst q. exact Hm.
Qed.

(* ---- the reference flag operations as predicate transformers ---- *)
Lemma has_ci_trans : forall l m f f', has l m f = true -> flag_eqb_ci f f' = true -> has l m f' = true.
Proof.
  intros l m f f' H Hc. unfold has in *. apply existsb_exists in H. destruct H as [p [Hp E]]. apply andb_true_iff in E.
  destruct E as [A B]. apply existsb_exists. exists p. split; [exact Hp|]. rewrite A. cbn [andb].
  rewrite <- (ci_trans (snd p) f f' B). exact Hc.
Qed.

Lemma rf_add_flag_has : forall ts f fl m' f',
  has (rf_add_flag ts f fl) m' f' = has fl m' f' || (nmem m' ts && flag_eqb_ci f f').
Proof.
  intros ts f. unfold rf_add_flag. induction ts as [|m r IH]; intros fl m' f'; cbn [fold_left nmem existsb].
  - rewrite orb_false_r. reflexivity.
  - fold (nmem m' r). rewrite IH. fold (has fl m f).
    destruct (has fl m f) eqn:E.
    + destruct (N.eqb m' m) eqn:Em; cbn [orb]; [|reflexivity]. apply N.eqb_eq in Em. subst m'.
      destruct (flag_eqb_ci f f') eqn:Ec; [|rewrite !andb_false_r; reflexivity].
      rewrite (has_ci_trans fl m f f' E Ec). reflexivity.
    + rewrite has_app, has_single. rewrite (N.eqb_sym m m').
      destruct (has fl m' f'), (N.eqb m' m), (nmem m' r), (flag_eqb_ci f f'); reflexivity.
Qed.

Lemma fold_add_flags_has : forall fs ts fl m' f',
  has (fold_left (fun acc f => rf_add_flag ts f acc) fs fl) m' f' = has fl m' f' || (nmem m' ts && fmem_ci f' fs).
Proof.
  induction fs as [|f fs IH]; intros ts fl m' f'; cbn [fold_left fmem_ci existsb].
  - rewrite andb_false_r, orb_false_r. reflexivity.
  - rewrite IH, rf_add_flag_has. fold (fmem_ci f' fs). rewrite (ci_sym f f').
    destruct (has fl m' f'), (nmem m' ts), (flag_eqb_ci f' f), (fmem_ci f' fs); reflexivity.
Qed.

Lemma fold_remove_flags_has : forall fs ts fl m' f',
  has (fold_left (fun acc f => rf_remove_flag ts f acc) fs fl) m' f' = has fl m' f' && negb (nmem m' ts && fmem_ci f' fs).
Proof.
  induction fs as [|f fs IH]; intros ts fl m' f'; cbn [fold_left fmem_ci existsb].
  - rewrite andb_false_r. cbn. rewrite andb_true_r. reflexivity.
  - rewrite IH. unfold rf_remove_flag. rewrite has_filter_remove. fold (fmem_ci f' fs).
    destruct (has fl m' f'), (nmem m' ts), (flag_eqb_ci f' f), (fmem_ci f' fs); reflexivity.
Qed.

Lemma rf_set_flags_has : forall ts fs fl m' f',
  has (rf_set_flags ts fs fl) m' f' = if nmem m' ts then fmem_ci f' fs else has fl m' f'.
Proof.
  intros ts fs fl m' f'. unfold rf_set_flags. rewrite fold_add_flags_has.
  unfold has at 1. rewrite existsb_filter_and.
  rewrite (existsb_and_const (fun p => N.eqb (fst p) m' && flag_eqb_ci (snd p) f') (fun p => negb (nmem (fst p) ts)) (negb (nmem m' ts))).
  - fold (has fl m' f'). destruct (nmem m' ts), (has fl m' f'), (fmem_ci f' fs); reflexivity.
  - intros p Hp. apply andb_true_iff in Hp. destruct Hp as [A _]. apply N.eqb_eq in A. rewrite A. reflexivity.
Qed.

(* flags_of and the predicate *)
Lemma fmem_ci_flags_of : forall f m l, fmem_ci f (flags_of m l) = has l m f.
Proof.
  intros f m l. unfold fmem_ci, flags_of, has. induction l as [|p r IH]; [reflexivity|]. cbn [filter existsb].
  destruct (N.eqb (fst p) m); cbn [map existsb andb]; [rewrite IH, (ci_sym f (snd p)); reflexivity | exact IH].
Qed.

Lemma msg_exists_In : forall m d, msg_exists m d = true <-> In m (map mg_id (d_msgs d)).
Proof.
  intros m d. unfold msg_exists. rewrite existsb_exists, in_map_iff. split.
  - intros [g [Hg E]]. apply N.eqb_eq in E. exists g. tauto.
  - intros [g [E Hg]]. exists g. split; [exact Hg | apply N.eqb_eq; exact E].
Qed.

(* ------------------------------------------------------------------ invariant: frame lemmas *)
Lemma held_frame : forall d d' b m, d_tabs d' = d_tabs d -> held d' b m = held d b m.
Proof. intros d d' b m H. unfold held. rewrite H. reflexivity. Qed.

Lemma msg_exists_frame : forall d d' m, d_msgs d' = d_msgs d -> msg_exists m d' = msg_exists m d.
Proof. intros d d' m H. unfold msg_exists. rewrite H. reflexivity. Qed.

Lemma mbox_exists_frame : forall d d' b, d_mboxes d' = d_mboxes d -> mbox_exists b d' = mbox_exists b d.
Proof. intros d d' b H. unfold mbox_exists, find_mbox. rewrite H. reflexivity. Qed.

Lemma inv_frame_flags : forall d d', inv d ->
  d_tabs d' = d_tabs d -> d_msgs d' = d_msgs d -> d_m2m d' = d_m2m d -> d_mboxes d' = d_mboxes d ->
  (forall q, In q (d_flags d') -> msg_exists (fst q) d = true) -> inv d'.
Proof.
  intros d d' I Ht Hm H2 Hb Hf. constructor.
  - intros t Hin. rewrite Ht in Hin. rewrite (mbox_exists_frame d d' _ Hb). apply (i_boxes d I t Hin).
  - rewrite Ht. apply (i_tabs d I).
  - intros t Hin. rewrite Ht in Hin. apply (rows_ok_frame d d' t Hm). apply (i_rows d I t Hin).
  - rewrite Hm. apply (i_msgs d I).
  - rewrite Hm. apply (i_msgs_nodup d I).
  - intros m b. rewrite H2, (held_frame d d' b m Ht). apply (i_m2m d I).
  - intros q Hq. rewrite (msg_exists_frame d d' _ Hm). apply Hf. exact Hq.
Qed.

Definition do_setdel (b : N) (v : bool) (ids : list N) (t : mtab) (d : db) : db :=
  set_tabs d (put_tab (tab_setdel v ids t) (d_tabs d)).

Lemma tab_setdel_nil : forall v t, tab_setdel v [] t = t.
Proof. intros v [b s rows]. unfold tab_setdel. cbn. f_equal. apply map_ext_id. reflexivity. Qed.

Lemma existsb_msg_setdel : forall v ids rows m,
  existsb (fun x => N.eqb (r_msg x) m)
    (map (fun x => if nmem (r_msg x) ids then mkRow (r_uid x) (r_msg x) (r_remote x) v (r_recent x) else x) rows)
  = existsb (fun x => N.eqb (r_msg x) m) rows.
Proof.
  intros v ids rows m. induction rows as [|x r IH]; [reflexivity|]. cbn [map existsb]. rewrite IH.
  destruct (nmem (r_msg x) ids); reflexivity.
Qed.

Lemma inv_do_setdel : forall b v ids t d, inv d -> find_tab b (d_tabs d) = Some t -> inv (do_setdel b v ids t d).
Proof.
  intros b v ids t d I Ht. pose proof (find_tab_box _ _ _ Ht) as Hb.
  assert (Hb' : t_box (tab_setdel v ids t) = b) by (unfold tab_setdel; cbn; exact Hb).
  constructor.
  - intros x Hx. cbn [do_setdel d_tabs set_tabs] in Hx. unfold mbox_exists, find_mbox. cbn [do_setdel d_mboxes set_tabs].
    apply In_put_tab in Hx. destruct Hx as [E|[Hx _]].
    + subst x. rewrite Hb', <- Hb. apply (i_boxes d I t (find_tab_In _ _ _ Ht)).
    + apply (i_boxes d I x Hx).
  - cbn [do_setdel d_tabs set_tabs]. rewrite put_tab_boxes. apply (i_tabs d I).
  - intros x Hx. cbn [do_setdel d_tabs set_tabs] in Hx. apply rows_ok_frame with (d := d); [reflexivity|].
    apply In_put_tab in Hx. destruct Hx as [E|[Hx _]]; [|apply (i_rows d I x Hx)].
    subst x. destruct (i_rows d I t (find_tab_In _ _ _ Ht)) as [H1 H2]. split.
    + intros y Hy. unfold tab_setdel in Hy. cbn [t_rows] in Hy. apply in_map_iff in Hy. destruct Hy as [z [E Hz]].
      destruct (H1 z Hz) as [A B]. destruct (nmem (r_msg z) ids); subst y; cbn; tauto.
    + unfold tab_setdel. cbn [t_rows]. rewrite map_map.
      rewrite (map_ext _ r_msg); [exact H2|]. intros z. destruct (nmem (r_msg z) ids); reflexivity.
  - apply (i_msgs d I).
  - apply (i_msgs_nodup d I).
  - intros m b'. unfold do_setdel. cbn [d_m2m set_tabs]. rewrite (i_m2m d I).
    rewrite (held_put d b b' (tab_setdel v ids t) m Hb' (ex_intro _ t Ht)).
    destruct (N.eqb b' b) eqn:E; [|reflexivity]. apply N.eqb_eq in E. subst b'.
    unfold tab_setdel. cbn [t_rows]. rewrite existsb_msg_setdel. unfold held. rewrite Ht. reflexivity.
  - apply (i_flags d I).
Qed.

Section Steps3.
  Variable F : list stmt_fact.
  Hypothesis HF : facts_ok F = true.
  Local Notation ci := true.

  Lemma ex_setdel_eq : forall b ids v t d, inv d -> find_tab b (d_tabs d) = Some t ->
    ex F ci (OSetDeleted b ids v) d = Ok (do_setdel b v ids t d) RUnit.
  Proof.
    intros b ids v t d I Ht. rewrite (ex_set_deleted F HF). unfold sp_set_deleted, tab_set_deleted. destruct ids as [|i ids].
    - unfold do_setdel. rewrite tab_setdel_nil, (put_tab_same _ _ _ (i_tabs d I) Ht), db_eta_tabs. reflexivity.
    - unfold upd_tab. rewrite Ht. reflexivity.
  Qed.

  (* STORE +FLAGS: the loop over the flags *)
  Definition cur_ids (cur : list (N * N * list flag)) : list N := map (fun x => fst (fst x)) cur.

  Lemma add_each_has : forall fs cur d,
    (forall x, In x cur -> msg_exists (fst (fst x)) d = true) ->
    (forall x f, In x cur -> fmem_ci f (snd x) = true -> db_has_flag d (fst (fst x)) f = true) ->
    exists d', add_each F ci cur fs d = Ok d' RUnit /\ d_tabs d' = d_tabs d /\ d_msgs d' = d_msgs d /\ d_m2m d' = d_m2m d /\
               d_mboxes d' = d_mboxes d /\
               (forall m f, db_has_flag d' m f = db_has_flag d m f || (nmem m (cur_ids cur) && fmem_ci f fs)) /\
               (forall q, In q (d_flags d') -> In q (d_flags d) \/ In (fst q) (cur_ids cur)).
  Proof.
    induction fs as [|f0 fs IH]; intros cur d H1 H2.
    - exists d. cbn [add_each]. repeat split; try reflexivity.
      + intros m f. cbn [fmem_ci existsb]. rewrite andb_false_r, orb_false_r. reflexivity.
      + intros q Hq. left. exact Hq.
    - cbn [add_each]. set (toflag := map (fun x => fst (fst x)) (filter (fun x => negb (fmem_ci f0 (snd x))) cur)).
      assert (Hsub : forall m, In m toflag -> In m (cur_ids cur)).
      { intros m Hm. unfold toflag in Hm. apply in_map_iff in Hm. destruct Hm as [x [E Hx]]. apply filter_In in Hx.
        unfold cur_ids. apply in_map_iff. exists x. tauto. }
      assert (Hex : forall m, In m toflag -> msg_exists m d = true).
      { intros m Hm. apply Hsub in Hm. unfold cur_ids in Hm. apply in_map_iff in Hm. destruct Hm as [x [E Hx]]. subst m. apply H1. exact Hx. }
      rewrite (ex_add_flag F HF).
      destruct (sp_add_flag_has toflag f0 d Hex) as [d1 [E1 [T1 [M1 [P1 [B1 [F1 S1]]]]]]]. rewrite E1. cbn [rbind].
      destruct (IH cur d1) as [d' [E' [T' [M' [P' [B' [F' S']]]]]]].
      + intros x Hx. rewrite (msg_exists_frame d d1 _ M1). apply H1. exact Hx.
      + intros x f Hx Hf. rewrite F1. rewrite (H2 x f Hx Hf). reflexivity.
      + exists d'. rewrite E'. repeat split; try congruence.
        * intros m f. rewrite F', F1. cbn [fmem_ci existsb]. fold (fmem_ci f fs).
          destruct (nmem m (cur_ids cur)) eqn:Ec; cbn [andb].
          -- (* m is one of the messages: either it is flagged now, or it already had the flag *)
             destruct (flag_eqb_ci f f0) eqn:Ef; cbn [orb].
             ++ rewrite (ci_sym f0 f), Ef. rewrite andb_true_r.
                destruct (nmem m toflag) eqn:Et; [rewrite orb_true_r; reflexivity|].
                (* not in toflag: every entry of m has f0 *)
                apply nmem_In in Ec. unfold cur_ids in Ec. apply in_map_iff in Ec. destruct Ec as [x [Ex Hx]].
                assert (Hhas : fmem_ci f0 (snd x) = true).
                { destruct (fmem_ci f0 (snd x)) eqn:Eh; [reflexivity|]. exfalso. apply nmem_false in Et. apply Et.
                  unfold toflag. apply in_map_iff. exists x. split; [exact Ex|]. apply filter_In. rewrite Eh. tauto. }
                pose proof (H2 x f0 Hx Hhas) as Hd. rewrite Ex in Hd. rewrite db_has_flag_has in Hd.
                rewrite db_has_flag_has. rewrite (has_ci_trans _ m f0 f Hd); [reflexivity|]. rewrite ci_sym. exact Ef.
             ++ rewrite (ci_sym f0 f), Ef. rewrite andb_false_r, orb_false_r. reflexivity.
          -- assert (Et : nmem m toflag = false).
             { apply nmem_false. intros Hm. apply Hsub in Hm. apply nmem_In in Hm. congruence. }
             rewrite Et. cbn [andb]. rewrite !orb_false_r. reflexivity.
        * intros q Hq. destruct (S' q Hq) as [A|A]; [|right; exact A]. destruct (S1 q A) as [A1|A1]; [left; exact A1 | right; apply Hsub; exact A1].
  Qed.

  (* STORE -FLAGS *)
  Lemma rem_each_has : forall fs cur d,
    (forall x f, In x cur -> fmem_ci f (snd x) = false -> db_has_flag d (fst (fst x)) f = false) ->
    exists d', rem_each F ci cur fs d = Ok d' RUnit /\ d_tabs d' = d_tabs d /\ d_msgs d' = d_msgs d /\ d_m2m d' = d_m2m d /\
               d_mboxes d' = d_mboxes d /\
               (forall m f, db_has_flag d' m f = db_has_flag d m f && negb (nmem m (cur_ids cur) && fmem_ci f fs)) /\
               (forall q, In q (d_flags d') -> In q (d_flags d)).
  Proof.
    induction fs as [|f0 fs IH]; intros cur d H2.
    - exists d. cbn [rem_each]. repeat split; try reflexivity.
      + intros m f. cbn [fmem_ci existsb]. rewrite andb_false_r. cbn. rewrite andb_true_r. reflexivity.
      + intros q Hq. exact Hq.
    - cbn [rem_each]. set (toflag := map (fun x => fst (fst x)) (filter (fun x => fmem_ci f0 (snd x)) cur)).
      assert (Hsub : forall m, In m toflag -> In m (cur_ids cur)).
      { intros m Hm. unfold toflag in Hm. apply in_map_iff in Hm. destruct Hm as [x [E Hx]]. apply filter_In in Hx.
        unfold cur_ids. apply in_map_iff. exists x. tauto. }
      rewrite (ex_remove_flag F HF).
      destruct (sp_remove_flag_has toflag f0 d) as [d1 [E1 [T1 [M1 [P1 [B1 [F1 S1]]]]]]]. rewrite E1. cbn [rbind].
      destruct (IH cur d1) as [d' [E' [T' [M' [P' [B' [F' S']]]]]]].
      + intros x f Hx Hf. rewrite F1. rewrite (H2 x f Hx Hf). reflexivity.
      + exists d'. rewrite E'. repeat split; try congruence.
        * intros m f. rewrite F', F1. cbn [fmem_ci existsb]. fold (fmem_ci f fs).
          destruct (nmem m (cur_ids cur)) eqn:Ec; cbn [andb].
          -- destruct (flag_eqb_ci f f0) eqn:Ef; cbn [orb].
             ++ destruct (nmem m toflag) eqn:Et; cbn [andb negb]; [rewrite !andb_false_r; reflexivity|].
                (* m has no entry with f0: it has no f either *)
                apply nmem_In in Ec. unfold cur_ids in Ec. apply in_map_iff in Ec. destruct Ec as [x [Ex Hx]].
                assert (Hno : fmem_ci f0 (snd x) = false).
                { destruct (fmem_ci f0 (snd x)) eqn:Eh; [|reflexivity]. exfalso. apply nmem_false in Et. apply Et.
                  unfold toflag. apply in_map_iff. exists x. split; [exact Ex|]. apply filter_In. tauto. }
                pose proof (H2 x f0 Hx Hno) as Hd. rewrite Ex in Hd.
                assert (Hf : db_has_flag d m f = false).
                { destruct (db_has_flag d m f) eqn:Eh; [|reflexivity]. rewrite db_has_flag_has in *.
                  rewrite (has_ci_trans _ m f f0 Eh Ef) in Hd. discriminate. }
                rewrite Hf. reflexivity.
             ++ cbn [negb]. rewrite andb_false_r. cbn [negb]. rewrite andb_true_r. reflexivity.
          -- assert (Et : nmem m toflag = false).
             { apply nmem_false. intros Hm. apply Hsub in Hm. apply nmem_In in Hm. congruence. }
             rewrite Et. cbn [andb negb]. rewrite !andb_true_r. reflexivity.
        * intros q Hq. apply S1. apply S'. exact Hq.
  Qed.
End Steps3.

(* ------------------------------------------------------------------ the simulation relation *)
Definition rel (d : db) (r : ref) : Prop := inv d /\ abs_eq d r.

Lemma abs_find : forall d r b, abs_eq d r -> find_rbox b r = option_map tab_abs (find_tab b (d_tabs d)).
Proof. intros d r b [A1 _]. unfold find_rbox. rewrite <- A1. apply find_rbox_abs. Qed.

Lemma nmem_map_msgs : forall m d, nmem m (map mg_id (d_msgs d)) = msg_exists m d.
Proof.
  intros m d. unfold nmem, msg_exists. induction (d_msgs d) as [|g l IH]; [reflexivity|]. cbn [map existsb].
  rewrite IH, (N.eqb_sym m (mg_id g)). reflexivity.
Qed.

Lemma targets_ok_db : forall d r ts, abs_eq d r -> targets_ok r ts = true ->
  NoDup ts /\ forall m, In m ts -> msg_exists m d = true.
Proof.
  intros d r ts [_ [A2 _]] H. unfold targets_ok in H. apply andb_true_iff in H. destruct H as [H1 H2]. split.
  - apply nodupb_NoDup. exact H1.
  - intros m Hm. rewrite forallb_forall in H2. specialize (H2 m Hm). rewrite <- A2, nmem_map_msgs in H2. exact H2.
Qed.

Lemma abs_put : forall d r d' t', abs_eq d r ->
  d_tabs d' = put_tab t' (d_tabs d) -> d_msgs d' = d_msgs d -> (forall m f, db_has_flag d' m f = db_has_flag d m f) ->
  abs_eq d' (set_boxes r (put_rbox (tab_abs t') (rf_boxes r))).
Proof.
  intros d r d' t' [A1 [A2 A3]] Ht Hm Hf. split; [|split].
  - cbn [rf_boxes set_boxes]. rewrite Ht, <- A1. symmetry. apply put_rbox_abs.
  - cbn [rf_msgs set_boxes]. rewrite Hm. exact A2.
  - intros m f. rewrite Hf. cbn [set_boxes]. unfold ref_has_flag. cbn [rf_flags]. apply A3.
Qed.

Lemma do_remove_nil : forall b t d, inv d -> find_tab b (d_tabs d) = Some t -> do_remove b [] t d = d.
Proof.
  intros b t d I Ht. unfold do_remove. rewrite tab_del_nil, (put_tab_same _ _ _ (i_tabs d I) Ht), db_eta_tabs, m2m_del_nil. reflexivity.
Qed.

Lemma filter_held : forall d b t ts l, find_tab b (d_tabs d) = Some t ->
  (forall m, In m l <-> (In m ts /\ existsb (fun x => N.eqb (r_msg x) m) (t_rows t) = true)) ->
  filter (fun m => nmem m l) ts = filter (held d b) ts.
Proof.
  intros d b t ts l Ht Hl. apply filter_ext_in'. intros m Hm. unfold held. rewrite Ht.
  destruct (existsb (fun x => N.eqb (r_msg x) m) (t_rows t)) eqn:E.
  - apply nmem_In. apply Hl. tauto.
  - apply nmem_false. intros Hin. apply Hl in Hin. destruct Hin as [_ Hin]. congruence.
Qed.

Lemma rows_filter_ext : forall (p q : rrow -> bool) x, (forall e, In e (rb_rows x) -> p e = q e) ->
  mkRB (rb_id x) (rb_last x) (filter p (rb_rows x)) = mkRB (rb_id x) (rb_last x) (filter q (rb_rows x)).
Proof. intros p q x H. f_equal. apply filter_ext_in'. exact H. Qed.

Lemma In_row_abs_held : forall t e, In e (rb_rows (tab_abs t)) -> existsb (fun x => N.eqb (r_msg x) (rr_msg e)) (t_rows t) = true.
Proof.
  intros t e H. unfold tab_abs in H. cbn [rb_rows] in H. apply in_map_iff in H. destruct H as [x [E Hx]]. subst e.
  apply existsb_exists. exists x. split; [exact Hx | apply N.eqb_refl].
Qed.

(* removing the held part of the targets = removing the targets *)
Lemma rb_remove_held : forall d b t ts, find_tab b (d_tabs d) = Some t ->
  rb_remove (filter (held d b) ts) (tab_abs t) = rb_remove ts (tab_abs t).
Proof.
  intros d b t ts Ht. unfold rb_remove. apply rows_filter_ext. intros e He. f_equal.
  pose proof (In_row_abs_held t e He) as Hh.
  destruct (nmem (rr_msg e) ts) eqn:E.
  - apply nmem_In. apply filter_In. split; [apply nmem_In; exact E|]. unfold held. rewrite Ht. exact Hh.
  - apply nmem_false. intros Hin. apply filter_In in Hin. destruct Hin as [Hin _]. apply nmem_In in Hin. congruence.
Qed.

Section Sim.
  Variable F : list stmt_fact.
  Hypothesis HF : facts_ok F = true.
  Local Notation ci := true.
  Local Notation istep := (impl_step F ci).

  Lemma act_remove_eq : forall b ts t d, inv d -> find_tab b (d_tabs d) = Some t ->
    act_remove F ci b ts d = Ok (do_remove b (filter (held d b) ts) t d) RUnit.
  Proof.
    intros b ts t d I Ht. unfold act_remove.
    pose proof (ex_filter_contains F HF b ts d) as H. rewrite Ht in H. destruct H as [l [E Hl]]. rewrite E. cbn [rbind nums_of].
    rewrite (filter_held d b t ts l Ht Hl).
    destruct (filter (held d b) ts) as [|x xs] eqn:Ef.
    - rewrite (do_remove_nil b t d I Ht). reflexivity.
    - apply (act_remove_unchecked_eq F HF b (x :: xs) t d I Ht).
  Qed.

  Lemma box_known_find : forall b d, box_known b d = match find_tab b (d_tabs d) with Some _ => true | None => false end.
  Proof. reflexivity. Qed.

  Lemma sim_expunge : forall b ts d r, rel d r -> cmd_wf (CExpunge b ts) r = true ->
    rel (fst (istep (CExpunge b ts) d)) (fst (ref_step (CExpunge b ts) r)) /\
    snd (istep (CExpunge b ts) d) = snd (ref_step (CExpunge b ts) r).
  Proof.
    intros b ts d r [I A] W. unfold impl_step. cbn [cmd_tx ref_step]. rewrite (abs_find d r b A), box_known_find.
    destruct (find_tab b (d_tabs d)) as [t|] eqn:Ht; cbn [option_map]; [|split; [split; assumption | reflexivity]].
    rewrite (act_remove_eq b ts t d I Ht). cbn [fst snd]. split; [|reflexivity]. split.
    - apply inv_do_remove; assumption.
    - cbn [cmd_wf] in W. apply andb_true_iff in W. destruct W as [W1 W2].
      replace (rb_expunge ts (tab_abs t)) with (tab_abs (tab_del (filter (held d b) ts) t)).
      + apply (abs_put d r _ (tab_del (filter (held d b) ts) t) A); reflexivity.
      + rewrite tab_del_abs, (rb_remove_held d b t ts Ht). unfold rb_remove, rb_expunge. apply rows_filter_ext.
        intros e He. f_equal. unfold expunge_view_ok in W2. rewrite <- (proj1 A), find_rbox_abs, Ht in W2. cbn [option_map] in W2.
        rewrite forallb_forall in W2. specialize (W2 e He).
        destruct (nmem (rr_msg e) ts); [|reflexivity]. cbn [negb orb] in W2. rewrite W2. reflexivity.
  Qed.
End Sim.

Section Sim2.
  Variable F : list stmt_fact.
  Hypothesis HF : facts_ok F = true.
  Local Notation ci := true.
  Local Notation istep := (impl_step F ci).

  Lemma ex_add_messages_eq : forall b ids t d, inv d -> find_tab b (d_tabs d) = Some t -> addable d b ids ->
    exists r, ex F ci (OAddMessages b (pairs ids)) d = Ok (do_add b ids t d) r.
  Proof.
    intros b ids t d I Ht Hadd. destruct (st_add_eq F HF b ids t d I Ht Hadd) as [r E]. unfold st_add in E.
    rewrite (ex_common F HF (OGetCountAndUID b) d eq_refl) in E. cbn [exec_common] in E.
    unfold op_get_count_and_uid, tab_or_fail in E. rewrite Ht in E. cbn [rbind] in E. exists r. exact E.
  Qed.

  Lemma find_do_remove_same : forall b ids t d, find_tab b (d_tabs d) = Some t ->
    find_tab b (d_tabs (do_remove b ids t d)) = Some (tab_del ids t).
  Proof.
    intros b ids t d Ht. cbn [do_remove m2m_del_rows d_tabs set_m2m set_tabs]. apply (find_put_same b (d_tabs d) t _ Ht).
    unfold tab_del. cbn. apply (find_tab_box _ _ _ Ht).
  Qed.

  Lemma find_do_remove_other : forall b b' ids t d, find_tab b (d_tabs d) = Some t -> b' <> b ->
    find_tab b' (d_tabs (do_remove b ids t d)) = find_tab b' (d_tabs d).
  Proof.
    intros b b' ids t d Ht Hne. cbn [do_remove m2m_del_rows d_tabs set_m2m set_tabs]. apply (find_put_other b b').
    - unfold tab_del. cbn. apply (find_tab_box _ _ _ Ht).
    - exact Hne.
  Qed.

  Lemma NoDup_filter : forall {A} (p : A -> bool) l, NoDup l -> NoDup (filter p l).
  Proof.
    intros A p l H. induction H as [|x l Hx Hl IH]; [constructor|]. cbn [filter]. destruct (p x); [|exact IH].
    constructor; [|exact IH]. intros Hin. apply filter_In in Hin. tauto.
  Qed.

  Lemma act_add_eq : forall b ts t d, inv d -> find_tab b (d_tabs d) = Some t ->
    NoDup ts -> (forall m, In m ts -> msg_exists m d = true) ->
    exists r, act_add F ci b ts d
              = Ok (do_add b ts (tab_del (filter (held d b) ts) t) (do_remove b (filter (held d b) ts) t d)) r.
  Proof.
    intros b ts t d I Ht Hnd Hex. unfold act_add.
    pose proof (ex_filter_contains F HF b ts d) as H. rewrite Ht in H. destruct H as [l [E Hl]]. rewrite E. cbn [rbind nums_of].
    rewrite (filter_held d b t ts l Ht Hl). set (rem := filter (held d b) ts).
    assert (E2 : match rem with [] => Ok d RUnit | _ :: _ => act_remove_unchecked F ci b rem d end = Ok (do_remove b rem t d) RUnit).
    { destruct rem as [|x xs] eqn:Er.
      - rewrite (do_remove_nil b t d I Ht). reflexivity.
      - apply (act_remove_unchecked_eq F HF b (x :: xs) t d I Ht). }
    rewrite E2. cbn [rbind].
    apply (st_add_eq F HF b ts (tab_del rem t) (do_remove b rem t d)).
    - apply inv_do_remove; assumption.
    - apply find_do_remove_same. exact Ht.
    - split; [exact Hnd|]. intros m Hm. split.
      + rewrite (held_do_remove b rem t d b m Ht), N.eqb_refl.
        destruct (held d b m) eqn:Eh; [|reflexivity]. cbn [andb].
        assert (In m rem) by (apply filter_In; split; assumption). apply nmem_In in H. rewrite H. reflexivity.
      + apply Hex. exact Hm.
  Qed.

  Lemma do_add_tabs : forall b ids t d, d_tabs (do_add b ids t d) = put_tab (tab_append ids t) (d_tabs d).
  Proof. reflexivity. Qed.
  Lemma do_remove_tabs : forall b ids t d, d_tabs (do_remove b ids t d) = put_tab (tab_del ids t) (d_tabs d).
  Proof. reflexivity. Qed.

  Lemma box_known_abs : forall d r b, abs_eq d r ->
    box_known b d = match find_rbox b r with Some _ => true | None => false end.
  Proof. intros d r b A. rewrite (abs_find d r b A), box_known_find. destruct (find_tab b (d_tabs d)); reflexivity. Qed.

  Lemma sim_copy : forall s b ts d r, rel d r -> cmd_wf (CCopy s b ts) r = true ->
    rel (fst (istep (CCopy s b ts) d)) (fst (ref_step (CCopy s b ts) r)) /\
    snd (istep (CCopy s b ts) d) = snd (ref_step (CCopy s b ts) r).
  Proof.
    intros s b ts d r [I A] W. unfold impl_step. cbn [cmd_tx ref_step].
    rewrite (abs_find d r s A), (abs_find d r b A), !box_known_find.
    destruct (find_tab s (d_tabs d)) as [ts0|] eqn:Hs; cbn [option_map andb]; [|split; [split; assumption | reflexivity]].
    destruct (find_tab b (d_tabs d)) as [t|] eqn:Ht; cbn [option_map]; [|split; [split; assumption | reflexivity]].
    cbn [cmd_wf] in W. destruct (targets_ok_db d r ts A W) as [Hnd Hex].
    destruct (act_add_eq b ts t d I Ht Hnd Hex) as [res E]. rewrite E. cbn [fst snd]. split; [|reflexivity].
    set (rem := filter (held d b) ts) in *. split.
    - apply inv_do_add.
      + apply inv_do_remove; assumption.
      + apply find_do_remove_same. exact Ht.
      + split; [exact Hnd|]. intros m Hm. split; [|apply Hex; exact Hm].
        rewrite (held_do_remove b rem t d b m Ht), N.eqb_refl.
        destruct (held d b m) eqn:Eh; [|reflexivity]. cbn [andb].
        assert (In m rem) by (apply filter_In; split; assumption). apply nmem_In in H. rewrite H. reflexivity.
    - replace (rb_append ts (rb_remove ts (tab_abs t))) with (tab_abs (tab_append ts (tab_del rem t))).
      + apply (abs_put d r _ (tab_append ts (tab_del rem t)) A); try reflexivity.
        rewrite do_add_tabs, do_remove_tabs. apply put_put. rewrite tab_append_box. reflexivity.
      + rewrite tab_append_abs, tab_del_abs. unfold rem. rewrite (rb_remove_held d b t ts Ht). reflexivity.
  Qed.
End Sim2.

Lemma put_tab_absorb : forall t1 t2 t3 ts, t_box t1 = t_box t3 -> t_box t2 <> t_box t1 ->
  put_tab t3 (put_tab t2 (put_tab t1 ts)) = put_tab t3 (put_tab t2 ts).
Proof.
  intros t1 t2 t3 ts H13 H21. unfold put_tab. rewrite !map_map. apply map_ext. intros x.
  destruct (N.eqb (t_box x) (t_box t1)) eqn:E1.
  - apply N.eqb_eq in E1.
    assert (E2 : N.eqb (t_box t1) (t_box t2) = false) by (apply N.eqb_neq; congruence).
    rewrite E2. rewrite H13, N.eqb_refl.
    assert (E3 : N.eqb (t_box x) (t_box t2) = false) by (apply N.eqb_neq; congruence).
    rewrite E3. rewrite E1, H13, N.eqb_refl. reflexivity.
  - reflexivity.
Qed.

Lemma abs_put2 : forall d r d' t2 t3, abs_eq d r ->
  d_tabs d' = put_tab t3 (put_tab t2 (d_tabs d)) -> d_msgs d' = d_msgs d -> (forall m f, db_has_flag d' m f = db_has_flag d m f) ->
  abs_eq d' (set_boxes r (put_rbox (tab_abs t3) (put_rbox (tab_abs t2) (rf_boxes r)))).
Proof.
  intros d r d' t2 t3 [A1 [A2 A3]] Ht Hm Hf. split; [|split].
  - cbn [rf_boxes set_boxes]. rewrite Ht, <- A1, !put_rbox_abs. reflexivity.
  - cbn [rf_msgs set_boxes]. rewrite Hm. exact A2.
  - intros m f. rewrite Hf. cbn [set_boxes]. unfold ref_has_flag. cbn [rf_flags]. apply A3.
Qed.

Section Sim3.
  Variable F : list stmt_fact.
  Hypothesis HF : facts_ok F = true.
  Local Notation ci := true.
  Local Notation istep := (impl_step F ci).

  Lemma ex_remove_eq : forall b ids t d, inv d -> find_tab b (d_tabs d) = Some t ->
    ex F ci (ORemoveMessages b ids) d = Ok (do_remove b ids t d) RUnit.
  Proof.
    intros b ids t d I Ht. destruct ids as [|x ids].
    - rewrite (ex_remove F HF). unfold sp_remove_messages. cbn [tab_del_rows lift].
      rewrite (do_remove_nil b t d I Ht), m2m_del_nil. reflexivity.
    - apply (act_remove_unchecked_eq F HF b (x :: ids) t d I Ht).
  Qed.

  Lemma moved_eq : forall d b t ts, find_tab b (d_tabs d) = Some t -> filter (rb_holds (tab_abs t)) ts = filter (held d b) ts.
  Proof.
    intros d b t ts Ht. apply filter_ext_in'. intros m _. rewrite rb_holds_abs. unfold held. rewrite Ht. reflexivity.
  Qed.

  Lemma held_removed_none : forall d b t ids, find_tab b (d_tabs d) = Some t ->
    filter (held (do_remove b (filter (held d b) ids) t d) b) (filter (held d b) ids) = [].
  Proof.
    intros d b t ids Ht. set (tm := filter (held d b) ids).
    rewrite (filter_ext_in' _ (fun _ => false)).
    - induction tm; [reflexivity | exact IHtm].
    - intros m Hm. rewrite (held_do_remove b tm t d b m Ht), N.eqb_refl.
      apply nmem_In in Hm. rewrite Hm. apply andb_false_r.
  Qed.

  Lemma sim_move : forall s b ts d r, rel d r -> cmd_wf (CMove s b ts) r = true ->
    rel (fst (istep (CMove s b ts) d)) (fst (ref_step (CMove s b ts) r)) /\
    snd (istep (CMove s b ts) d) = snd (ref_step (CMove s b ts) r).
  Proof.
    intros s b ts d r [I A] W. unfold impl_step. cbn [cmd_tx ref_step].
    rewrite (abs_find d r s A), (abs_find d r b A), !box_known_find.
    destruct (find_tab s (d_tabs d)) as [tsrc|] eqn:Hs; cbn [option_map andb]; [|split; [split; assumption | reflexivity]].
    destruct (find_tab b (d_tabs d)) as [tdst|] eqn:Ht; cbn [option_map]; [|split; [split; assumption | reflexivity]].
    cbn [cmd_wf] in W. destruct (targets_ok_db d r ts A W) as [Hnd Hex].
    unfold act_move.
    pose proof (ex_filter_contains F HF s ts d) as H. rewrite Hs in H. destruct H as [l [E Hl]]. rewrite E. cbn [rbind nums_of].
    rewrite (filter_held d s tsrc ts l Hs Hl). rewrite (moved_eq d s tsrc ts Hs). set (tm := filter (held d s) ts).
    assert (Hndm : NoDup tm) by (apply NoDup_filter; exact Hnd).
    assert (Hexm : forall m, In m tm -> msg_exists m d = true) by (intros m Hm; apply filter_In in Hm; apply Hex; tauto).
    destruct (N.eqb s b) eqn:Esb.
    - (* the same mailbox *)
      apply N.eqb_eq in Esb. subst b. rewrite Hs in Ht. inversion Ht; subst tdst. clear Ht.
      rewrite (act_remove_unchecked_eq F HF s tm tsrc d I Hs). cbn [rbind].
      set (d2 := do_remove s tm tsrc d).
      assert (I2 : inv d2) by (apply inv_do_remove; assumption).
      assert (H2 : find_tab s (d_tabs d2) = Some (tab_del tm tsrc)) by (apply find_do_remove_same; exact Hs).
      destruct (act_add_eq F HF s tm (tab_del tm tsrc) d2 I2 H2 Hndm) as [res E2].
      { intros m Hm. apply Hexm. exact Hm. }
      rewrite E2. unfold d2, tm. rewrite (held_removed_none d s tsrc ts Hs). fold tm. fold d2.
      rewrite (do_remove_nil s (tab_del tm tsrc) d2 I2 H2), tab_del_nil. cbn [fst snd]. split; [|reflexivity]. split.
      + apply inv_do_add; [exact I2 | exact H2|]. split; [exact Hndm|]. intros m Hm. split; [|apply Hexm; exact Hm].
        unfold d2. rewrite (held_do_remove s tm tsrc d s m Hs), N.eqb_refl. apply nmem_In in Hm. rewrite Hm. apply andb_false_r.
      + replace (rb_append tm (rb_remove tm (tab_abs tsrc))) with (tab_abs (tab_append tm (tab_del tm tsrc)))
          by (rewrite tab_append_abs, tab_del_abs; reflexivity).
        apply (abs_put d r _ (tab_append tm (tab_del tm tsrc)) A); try reflexivity.
        rewrite do_add_tabs. unfold d2. rewrite do_remove_tabs. apply put_put. rewrite tab_append_box. reflexivity.
    - (* different mailboxes *)
      apply N.eqb_neq in Esb.
      pose proof (ex_filter_contains F HF b tm d) as H. rewrite Ht in H. destruct H as [l2 [E2 Hl2]]. rewrite E2. cbn [rbind nums_of].
      rewrite (filter_held d b tdst tm l2 Ht Hl2). set (rem := filter (held d b) tm).
      assert (E3 : match rem with [] => Ok d RUnit | _ :: _ => act_remove_unchecked F ci b rem d end = Ok (do_remove b rem tdst d) RUnit).
      { destruct rem as [|x xs] eqn:Er.
        - rewrite (do_remove_nil b tdst d I Ht). reflexivity.
        - apply (act_remove_unchecked_eq F HF b (x :: xs) tdst d I Ht). }
      rewrite E3. cbn [rbind]. set (d3 := do_remove b rem tdst d).
      assert (I3 : inv d3) by (apply inv_do_remove; assumption).
      assert (H3b : find_tab b (d_tabs d3) = Some (tab_del rem tdst)) by (apply find_do_remove_same; exact Ht).
      assert (H3s : find_tab s (d_tabs d3) = Some tsrc) by (unfold d3; rewrite (find_do_remove_other b s rem tdst d Ht Esb); exact Hs).
      rewrite (ex_common F HF (OGetCountAndUID b) d3 eq_refl). cbn [exec_common]. unfold op_get_count_and_uid, tab_or_fail.
      rewrite H3b. cbn [rbind].
      rewrite (ex_remove_eq s tm tsrc d3 I3 H3s). cbn [rbind]. set (d5 := do_remove s tm tsrc d3).
      assert (I5 : inv d5) by (apply inv_do_remove; assumption).
      assert (H5b : find_tab b (d_tabs d5) = Some (tab_del rem tdst)).
      { unfold d5. rewrite (find_do_remove_other s b tm tsrc d3 H3s); [exact H3b | congruence]. }
      assert (Hadd : addable d5 b tm).
      { split; [exact Hndm|]. intros m Hm. split; [|apply Hexm; exact Hm].
        unfold d5. rewrite (held_do_remove s tm tsrc d3 b m H3s).
        assert (Ebs : N.eqb b s = false) by (apply N.eqb_neq; congruence). rewrite Ebs.
        unfold d3. rewrite (held_do_remove b rem tdst d b m Ht), N.eqb_refl.
        destruct (held d b m) eqn:Eh; [|reflexivity]. cbn [andb].
        assert (In m rem) by (apply filter_In; split; assumption). apply nmem_In in H. rewrite H. reflexivity. }
      destruct (ex_add_messages_eq F HF b tm (tab_del rem tdst) d5 I5 H5b Hadd) as [res E5]. rewrite E5. cbn [fst snd].
      split; [|reflexivity]. split.
      + apply inv_do_add; assumption.
      + replace (rb_append tm (rb_remove tm (tab_abs tdst))) with (tab_abs (tab_append tm (tab_del rem tdst))).
        * replace (rb_remove tm (tab_abs tsrc)) with (tab_abs (tab_del tm tsrc)) by apply tab_del_abs.
          apply (abs_put2 d r _ (tab_del tm tsrc) (tab_append tm (tab_del rem tdst)) A); try reflexivity.
          rewrite do_add_tabs. unfold d5. rewrite do_remove_tabs. unfold d3. rewrite do_remove_tabs.
          apply put_tab_absorb.
          -- rewrite tab_append_box. reflexivity.
          -- unfold tab_del. cbn [t_box]. rewrite (find_tab_box _ _ _ Hs), (find_tab_box _ _ _ Ht). exact Esb.
        * rewrite tab_append_abs, tab_del_abs. unfold rem. rewrite (rb_remove_held d b tdst tm Ht). reflexivity.
  Qed.
End Sim3.

Lemma abs_put_flags : forall d r d' t' fl', abs_eq d r ->
  d_tabs d' = put_tab t' (d_tabs d) -> d_msgs d' = d_msgs d -> (forall m f, db_has_flag d' m f = has fl' m f) ->
  abs_eq d' (mkRef (put_rbox (tab_abs t') (rf_boxes r)) (rf_msgs r) fl').
Proof.
  intros d r d' t' fl' [A1 [A2 A3]] Ht Hm Hf. split; [|split].
  - cbn [rf_boxes]. rewrite Ht, <- A1. symmetry. apply put_rbox_abs.
  - cbn [rf_msgs]. rewrite Hm. exact A2.
  - intros m f. rewrite Hf. reflexivity.
Qed.

Section Sim4.
  Variable F : list stmt_fact.
  Hypothesis HF : facts_ok F = true.
  Local Notation ci := true.
  Local Notation istep := (impl_step F ci).

  Lemma cur_ids_targets : forall d ts l, NoDup ts -> (forall m, In m ts -> msg_exists m d = true) ->
    (forall x, In x l <-> exists g, In g (d_msgs d) /\ In (mg_id g) ts /\ x = (mg_id g, mg_remote g, flags_of (mg_id g) (d_flags d))) ->
    forall m, nmem m (cur_ids l) = nmem m ts.
  Proof.
    intros d ts l Hnd Hex Hl m. apply nmem_equiv. intros y. unfold cur_ids. rewrite in_map_iff. split.
    - intros [x [E Hx]]. apply Hl in Hx. destruct Hx as [g [Hg [Hin Ex]]]. subst x. cbn in E. subst y. exact Hin.
    - intros Hy. pose proof (Hex y Hy) as He. apply msg_exists_In in He. apply in_map_iff in He. destruct He as [g [Eg Hg]].
      exists (mg_id g, mg_remote g, flags_of (mg_id g) (d_flags d)). split; [cbn; exact Eg|]. apply Hl. exists g.
      split; [exact Hg|]. split; [rewrite Eg; exact Hy | reflexivity].
  Qed.

  (* the table part of a STORE: \Deleted on the targets, or nothing *)
  Definition store_tab (chg : bool) (v : bool) (ts : list N) (t : mtab) : mtab := if chg then tab_setdel v ts t else t.
  Definition store_db (chg : bool) (b : N) (v : bool) (ts : list N) (t : mtab) (d : db) : db :=
    if chg then do_setdel b v ts t d else d.

  Lemma store_db_props : forall chg b v ts t d, inv d -> find_tab b (d_tabs d) = Some t ->
    inv (store_db chg b v ts t d) /\ d_tabs (store_db chg b v ts t d) = put_tab (store_tab chg v ts t) (d_tabs d) /\
    d_msgs (store_db chg b v ts t d) = d_msgs d /\ d_flags (store_db chg b v ts t d) = d_flags d /\
    d_m2m (store_db chg b v ts t d) = d_m2m d /\ d_mboxes (store_db chg b v ts t d) = d_mboxes d.
  Proof.
    intros chg b v ts t d I Ht. unfold store_db, store_tab. destruct chg.
    - split; [apply inv_do_setdel; assumption|]. repeat split; reflexivity.
    - split; [exact I|]. rewrite (put_tab_same _ _ _ (i_tabs d I) Ht). repeat split; reflexivity.
  Qed.

  Lemma store_tab_abs : forall chg v ts t,
    tab_abs (store_tab chg v ts t) = if chg then rb_set_deleted ts v (tab_abs t) else tab_abs t.
  Proof. intros. unfold store_tab. destruct chg; [apply tab_setdel_abs | reflexivity]. Qed.

  Lemma has_ci_eq : forall f fs, has_ci f fs = fmem_ci f fs. Proof. reflexivity. Qed.

  Lemma sim_store : forall b act fs ts d r, rel d r -> cmd_wf (CStore b act fs ts) r = true ->
    rel (fst (istep (CStore b act fs ts) d)) (fst (ref_step (CStore b act fs ts) r)) /\
    snd (istep (CStore b act fs ts) d) = snd (ref_step (CStore b act fs ts) r).
  Proof.
    intros b act fs ts d r [I A] W. unfold impl_step. cbn [cmd_tx ref_step].
    rewrite (abs_find d r b A), box_known_find.
    destruct (find_tab b (d_tabs d)) as [t|] eqn:Ht; cbn [option_map]; [|split; [split; assumption | reflexivity]].
    cbn [cmd_wf] in W. destruct (targets_ok_db d r ts A W) as [Hnd Hex].
    destruct (ex_get_flags F HF ts d) as [l [El Hl]].
    pose proof (cur_ids_targets d ts l Hnd Hex Hl) as Hcur.
    destruct act.
    - (* +FLAGS *)
      unfold apply_flags_added. destruct (has_ci recent_flag fs); [split; [split; assumption | reflexivity]|].
      rewrite El. cbn [rbind msgflags_of].
      set (chg := has_ci deleted_flag fs).
      assert (E2 : (if chg then ex F ci (OSetDeleted b ts true) d else Ok d RUnit) = Ok (store_db chg b true ts t d) RUnit).
      { unfold store_db. destruct chg; [apply (ex_setdel_eq F HF b ts true t d I Ht) | reflexivity]. }
      rewrite E2. cbn [rbind].
      destruct (store_db_props chg b true ts t d I Ht) as [I2 [T2 [M2 [F2 [P2 B2]]]]].
      destruct (add_each_has F HF (norm_store_flags fs) l (store_db chg b true ts t d)) as [d' [E' [T' [M' [P' [B' [F' S']]]]]]].
      + intros x Hx. rewrite (msg_exists_frame d _ _ M2). apply Hl in Hx. destruct Hx as [g [Hg [_ Ex]]]. subst x. cbn.
        apply msg_exists_In. apply in_map. exact Hg.
      + intros x f Hx Hf. rewrite db_has_flag_has, F2. apply Hl in Hx. destruct Hx as [g [Hg [_ Ex]]]. subst x. cbn [fst snd] in *.
        rewrite fmem_ci_flags_of in Hf. exact Hf.
      + rewrite E'. cbn [fst snd]. split; [|reflexivity]. split.
        * apply (inv_frame_flags _ d' I2 T' M' P' B'). intros q Hq. destruct (S' q Hq) as [Q|Q].
          -- rewrite F2 in Q. rewrite (msg_exists_frame d _ _ M2). apply (i_flags d I q Q).
          -- rewrite (msg_exists_frame d _ _ M2). apply Hex. apply nmem_In. rewrite <- Hcur. apply nmem_In. exact Q.
        * replace (if chg then rb_set_deleted ts true (tab_abs t) else tab_abs t) with (tab_abs (store_tab chg true ts t))
            by apply store_tab_abs.
          apply (abs_put_flags d r d' (store_tab chg true ts t) _ A).
          -- rewrite T', T2. reflexivity.
          -- rewrite M', M2. reflexivity.
          -- intros m f. rewrite F', fold_add_flags_has, db_has_flag_has, F2, Hcur.
             pose proof (proj2 (proj2 A) m f) as A3. rewrite db_has_flag_has, ref_has_flag_has in A3. rewrite A3. reflexivity.
    - (* -FLAGS *)
      unfold apply_flags_removed. destruct (has_ci recent_flag fs); [split; [split; assumption | reflexivity]|].
      rewrite El. cbn [rbind msgflags_of].
      set (chg := has_ci deleted_flag fs).
      assert (E2 : (if chg then ex F ci (OSetDeleted b ts false) d else Ok d RUnit) = Ok (store_db chg b false ts t d) RUnit).
      { unfold store_db. destruct chg; [apply (ex_setdel_eq F HF b ts false t d I Ht) | reflexivity]. }
      rewrite E2. cbn [rbind].
      destruct (store_db_props chg b false ts t d I Ht) as [I2 [T2 [M2 [F2 [P2 B2]]]]].
      destruct (rem_each_has F HF (norm_store_flags fs) l (store_db chg b false ts t d)) as [d' [E' [T' [M' [P' [B' [F' S']]]]]]].
      + intros x f Hx Hf. rewrite db_has_flag_has, F2. apply Hl in Hx. destruct Hx as [g [Hg [_ Ex]]]. subst x. cbn [fst snd] in *.
        rewrite fmem_ci_flags_of in Hf. exact Hf.
      + rewrite E'. cbn [fst snd]. split; [|reflexivity]. split.
        * apply (inv_frame_flags _ d' I2 T' M' P' B'). intros q Hq. apply S' in Hq. rewrite F2 in Hq.
          rewrite (msg_exists_frame d _ _ M2). apply (i_flags d I q Hq).
        * replace (if chg then rb_set_deleted ts false (tab_abs t) else tab_abs t) with (tab_abs (store_tab chg false ts t))
            by apply store_tab_abs.
          apply (abs_put_flags d r d' (store_tab chg false ts t) _ A).
          -- rewrite T', T2. reflexivity.
          -- rewrite M', M2. reflexivity.
          -- intros m f. rewrite F', fold_remove_flags_has, db_has_flag_has, F2, Hcur.
             pose proof (proj2 (proj2 A) m f) as A3. rewrite db_has_flag_has, ref_has_flag_has in A3. rewrite A3. reflexivity.
    - (* FLAGS *)
      unfold apply_flags_set. destruct (has_ci recent_flag fs); [split; [split; assumption | reflexivity]|].
      rewrite El. cbn [rbind].
      rewrite (ex_setdel_eq F HF b ts (has_ci deleted_flag fs) t d I Ht). cbn [rbind].
      set (d2 := do_setdel b (has_ci deleted_flag fs) ts t d).
      assert (I2 : inv d2) by (apply inv_do_setdel; assumption).
      rewrite (ex_set_flags F HF).
      destruct (sp_set_flags_has ts (norm_store_flags fs) d2) as [d' [E' [T' [M' [P' [B' [F' S']]]]]]].
      + intros m Hm. apply Hex. exact Hm.
      + rewrite E'. cbn [fst snd]. split; [|reflexivity]. split.
        * apply (inv_frame_flags _ d' I2 T' M' P' B'). intros q Hq. destruct (S' q Hq) as [Q|Q].
          -- apply (i_flags d I q Q).
          -- apply Hex. exact Q.
        * replace (rb_set_deleted ts (has_ci deleted_flag fs) (tab_abs t)) with (tab_abs (tab_setdel (has_ci deleted_flag fs) ts t))
            by apply tab_setdel_abs.
          apply (abs_put_flags d r d' (tab_setdel (has_ci deleted_flag fs) ts t) _ A).
          -- rewrite T'. reflexivity.
          -- rewrite M'. reflexivity.
          -- intros m f. rewrite F', rf_set_flags_has. destruct (nmem m ts); [reflexivity|].
             pose proof (proj2 (proj2 A) m f) as A3. rewrite db_has_flag_has, ref_has_flag_has in A3. rewrite <- A3. reflexivity.
  Qed.
End Sim4.

(* ------------------------------------------------------------------ flag lists *)
Lemma fmem_ci_filter_inv : forall (p : flag -> bool) f l, (forall a b, flag_eqb_ci a b = true -> p a = p b) ->
  fmem_ci f (filter p l) = fmem_ci f l && p f.
Proof.
  intros p f l Hp. unfold fmem_ci. induction l as [|g l IH]; [reflexivity|]. cbn [filter existsb].
  destruct (flag_eqb_ci f g) eqn:E.
  - rewrite <- (Hp f g E). destruct (p f); cbn [existsb orb andb]; [rewrite E; reflexivity|]. rewrite IH. apply andb_false_r.
  - destruct (p g); cbn [existsb orb]; [rewrite E|]; exact IH.
Qed.

Lemma fmem_ci_dedup : forall f l, fmem_ci f (dedup_ci l) = fmem_ci f l.
Proof.
  intros f l. induction l as [|g l IH]; [reflexivity|]. cbn [dedup_ci]. unfold fmem_ci in *. cbn [existsb].
  fold (fmem_ci f (filter (fun g0 => negb (flag_eqb_ci g0 g)) (dedup_ci l))).
  rewrite (fmem_ci_filter_inv (fun g0 => negb (flag_eqb_ci g0 g)) f (dedup_ci l)).
  - unfold fmem_ci. rewrite IH. destruct (flag_eqb_ci f g); [reflexivity|]. cbn [negb orb]. rewrite andb_true_r. reflexivity.
  - intros a b Hab. f_equal. symmetry. apply ci_trans. exact Hab.
Qed.

Lemma NoDup_dedup_ci : forall l, NoDup (dedup_ci l).
Proof.
  induction l as [|g l IH]; [constructor|]. cbn [dedup_ci]. constructor.
  - intros Hin. apply filter_In in Hin. destruct Hin as [_ H]. rewrite ci_refl in H. discriminate.
  - apply NoDup_filter. exact IH.
Qed.

Lemma foldM_flag_ins_new : forall m L l, NoDup L -> (forall p, In p l -> fst p = m -> ~ In (snd p) L) ->
  foldM flag_ins1 (map (fun f => (m, f)) L) l = Some (l ++ map (fun f => (m, f)) L).
Proof.
  intros m L. induction L as [|g L IH]; intros l Hnd Hl; cbn [map foldM].
  - rewrite app_nil_r. reflexivity.
  - unfold flag_ins1 at 1. cbn [fst snd]. inversion Hnd as [|? ? Hg HndL]; subst.
    assert (E : fl_has m g l = false).
    { unfold fl_has. destruct (existsb _ l) eqn:E; [|reflexivity]. apply existsb_exists in E. destruct E as [p [Hp E]].
      apply andb_true_iff in E. destruct E as [A B]. apply N.eqb_eq in A. apply String.eqb_eq in B. exfalso.
      apply (Hl p Hp A). left. symmetry. exact B. }
    rewrite E. rewrite IH; [rewrite <- app_assoc; reflexivity | exact HndL|].
    intros p Hp Hm Hin. apply in_app_or in Hp. destruct Hp as [Hp|[Hp|[]]].
    + apply (Hl p Hp Hm). right. exact Hin.
    + subst p. cbn in Hin. contradiction.
Qed.

(* ------------------------------------------------------------------ APPEND *)
Lemma held_exists : forall d b m, inv d -> held d b m = true -> msg_exists m d = true.
Proof.
  intros d b m I H. unfold held in H. destruct (find_tab b (d_tabs d)) as [t|] eqn:Ht; [|discriminate].
  apply existsb_exists in H. destruct H as [x [Hx E]]. apply N.eqb_eq in E. subst m.
  destruct (i_rows d I t (find_tab_In _ _ _ Ht)) as [H1 _]. apply (H1 x Hx).
Qed.

Definition with_msg (d : db) (m : N) (fl : list flag) : db :=
  set_flags (set_msgs d (d_msgs d ++ [mkMsg m m m false])) (d_flags d ++ map (fun f => (m, f)) fl).

Lemma msg_exists_with_msg : forall d m fl x, msg_exists x (with_msg d m fl) = msg_exists x d || N.eqb m x.
Proof. intros. unfold msg_exists, with_msg. cbn [d_msgs set_flags set_msgs]. rewrite existsb_app_single. reflexivity. Qed.

Lemma inv_with_msg : forall d m fl, inv d -> msg_exists m d = false -> inv (with_msg d m fl).
Proof.
  intros d m fl I Hnew. constructor.
  - intros t Ht. apply (i_boxes d I t Ht).
  - apply (i_tabs d I).
  - intros t Ht. destruct (i_rows d I t Ht) as [H1 H2]. split; [|exact H2]. intros x Hx. destruct (H1 x Hx) as [A B].
    split; [exact A|]. rewrite msg_exists_with_msg, B. reflexivity.
  - intros g Hg. unfold with_msg in Hg. cbn [d_msgs set_flags set_msgs] in Hg. apply in_app_or in Hg.
    destruct Hg as [Hg|[Hg|[]]]; [apply (i_msgs d I g Hg) | subst g; reflexivity].
  - unfold with_msg. cbn [d_msgs set_flags set_msgs]. rewrite map_app. apply NoDup_app_disj; [apply (i_msgs_nodup d I) | repeat constructor; intros [] |].
    intros x Hx [E|[]]. cbn in E. subst x. apply msg_exists_In in Hx. congruence.
  - intros x b. apply (i_m2m d I).
  - intros q Hq. unfold with_msg in Hq. cbn [d_flags set_flags] in Hq. rewrite msg_exists_with_msg. apply in_app_or in Hq.
    destruct Hq as [Hq|Hq]; [rewrite (i_flags d I q Hq); reflexivity|].
    apply in_map_iff in Hq. destruct Hq as [f [E _]]. subst q. cbn [fst]. rewrite N.eqb_refl. apply orb_true_r.
Qed.

Lemma create_and_add_eq : forall b m L t d, inv d -> find_tab b (d_tabs d) = Some t -> msg_exists m d = false -> NoDup L ->
  let fl := filter (fun f => negb (is_deleted_flag f)) L in
  let d1 := with_msg d m fl in
  exists v, op_create_message_and_add b (mkReq m m m L) d
            = Ok (if existsb is_deleted_flag L then do_setdel b true [m] (tab_append [m] t) (do_add b [m] t d1) else do_add b [m] t d1) v.
Proof.
  intros b m L t d I Ht Hnew Hnd fl d1. subst d1. subst fl.
  assert (Hrem : existsb (fun y => N.eqb (mg_remote y) m) (d_msgs d) = false).
  { destruct (existsb _ (d_msgs d)) eqn:E; [|reflexivity]. apply existsb_exists in E. destruct E as [g [Hg E]].
    apply N.eqb_eq in E. rewrite (i_msgs d I g Hg) in E. exfalso.
    assert (msg_exists m d = true) by (apply msg_exists_In; rewrite <- E; apply in_map; exact Hg). congruence. }
  assert (Hheld : held d b m = false).
  { destruct (held d b m) eqn:E; [|reflexivity]. rewrite (held_exists d b m I E) in Hnew. discriminate. }
  destruct (held_false_rows d b t m I Ht Hheld) as [R1 R2].
  unfold op_create_message_and_add. cbn [q_id q_remote q_data q_flags].
  (* message row *)
  unfold msgs_ins_rows at 1. cbn [foldM]. unfold msg_ins1. cbn [mg_id mg_remote q_id q_remote q_data q_flags].
  unfold msg_exists in Hnew. rewrite Hnew, Hrem. cbn [obind].
  (* flag rows *)
  unfold flags_ins_rows, req_flag_pairs. cbn [flat_map q_id q_flags d_flags set_msgs]. rewrite app_nil_r.
  set (fl := filter (fun f => negb (is_deleted_flag f)) L).
  rewrite (foldM_flag_ins_new m fl (d_flags d)).
  2:{ apply NoDup_filter. exact Hnd. }
  2:{ intros p Hp Hm. exfalso. pose proof (i_flags d I p Hp) as Hx. rewrite Hm in Hx. unfold msg_exists in Hx. congruence. }
  cbn [obind].
  change (set_flags (set_msgs d (d_msgs d ++ [mkMsg m m m false])) (d_flags d ++ map (fun f => (m, f)) fl)) with (with_msg d m fl).
  set (d1 := with_msg d m fl).
  (* membership row *)
  unfold m2m_ins_rows. cbn [map fst foldM]. unfold m2m_ins1.
  change (d_m2m d1) with (d_m2m d). rewrite (i_m2m d I), Hheld.
  assert (E1 : msg_exists m d1 = true) by (unfold d1; rewrite msg_exists_with_msg, N.eqb_refl; apply orb_true_r).
  rewrite E1. cbn [negb].
  assert (E2 : mbox_exists b d1 = true).
  { change (mbox_exists b d1) with (mbox_exists b d). rewrite <- (find_tab_box _ _ _ Ht). apply (i_boxes d I t (find_tab_In _ _ _ Ht)). }
  rewrite E2. cbn [negb d_tabs set_m2m].
  change (d_tabs d1) with (d_tabs d). rewrite Ht.
  (* mailbox row *)
  cbn [tab_ins_rows]. unfold upd_tab. cbn [d_tabs set_m2m d_msgs]. change (d_tabs d1) with (d_tabs d). rewrite Ht.
  cbn [foldM]. unfold tab_ins1. rewrite R1, R2.
  change (existsb (fun x => N.eqb (mg_id x) m) (d_msgs d1)) with (msg_exists m d1). rewrite E1. cbn [negb obind].
  exists (RUidFlags (t_seq t + 1) (L ++ [recent_flag_name])).
  change (mkTab (t_box t) (t_seq t + 1) (t_rows t ++ [mkRow (t_seq t + 1) m m false true])) with (tab_append [m] t).
  change (set_tabs (set_m2m d1 (d_m2m d ++ [(m, b)])) (put_tab (tab_append [m] t) (d_tabs d))) with (do_add b [m] t d1).
  destruct (existsb is_deleted_flag L); [|reflexivity].
  cbn [tab_set_deleted]. unfold upd_tab.
  assert (Hf : find_tab b (d_tabs (do_add b [m] t d1)) = Some (tab_append [m] t)).
  { cbn [do_add d_tabs set_m2m set_tabs]. change (d_tabs d1) with (d_tabs d). apply (find_put_same b (d_tabs d) t _ Ht).
    rewrite tab_append_box. apply (find_tab_box _ _ _ Ht). }
  rewrite Hf. reflexivity.
Qed.

Section Sim5.
  Variable F : list stmt_fact.
  Hypothesis HF : facts_ok F = true.
  Local Notation ci := true.
  Local Notation istep := (impl_step F ci).

  Lemma is_deleted_exists : forall L, existsb is_deleted_flag L = fmem_ci deleted_flag L.
  Proof.
    intros L. unfold fmem_ci, is_deleted_flag, deleted_flag. induction L as [|g L IH]; [reflexivity|]. cbn [existsb].
    rewrite IH, (ci_sym g deleted_flag_name). reflexivity.
  Qed.

  Lemma sim_append : forall b m fs d r, rel d r -> cmd_wf (CAppend b m fs) r = true ->
    rel (fst (istep (CAppend b m fs) d)) (fst (ref_step (CAppend b m fs) r)) /\
    snd (istep (CAppend b m fs) d) = snd (ref_step (CAppend b m fs) r).
  Proof.
    intros b m fs d r [I A] W. unfold impl_step. cbn [cmd_tx ref_step].
    rewrite (abs_find d r b A), box_known_find.
    destruct (find_tab b (d_tabs d)) as [t|] eqn:Ht; cbn [option_map]; [|split; [split; assumption | reflexivity]].
    unfold act_append. destruct (has_ci recent_flag fs); [split; [split; assumption | reflexivity]|].
    cbn [cmd_wf] in W. apply negb_true_iff in W. rewrite <- (proj1 (proj2 A)), nmem_map_msgs in W.
    assert (Hrem : find (fun x => N.eqb (mg_remote x) m) (d_msgs d) = None).
    { destruct (find _ (d_msgs d)) as [g|] eqn:E; [|reflexivity]. apply find_some in E. destruct E as [Hg E]. apply N.eqb_eq in E.
      rewrite (i_msgs d I g Hg) in E. exfalso.
      assert (msg_exists m d = true) by (apply msg_exists_In; rewrite <- E; apply in_map; exact Hg). congruence. }
    rewrite (ex_common F HF (OGetMessageIDFromRemote m) d eq_refl). cbn [exec_common]. unfold op_get_message_id_from_remote.
    rewrite Hrem. cbn [option_map res_found].
    rewrite (ex_common F HF (OCreateMessageAndAdd b (mkReq m m m (dedup_ci fs))) d eq_refl). cbn [exec_common].
    destruct (create_and_add_eq b m (dedup_ci fs) t d I Ht W (NoDup_dedup_ci fs)) as [n E]. rewrite E. cbn [fst snd].
    split; [|reflexivity].
    set (fl := filter (fun f => negb (is_deleted_flag f)) (dedup_ci fs)).
    set (d1 := with_msg d m fl).
    assert (I1 : inv d1) by (apply inv_with_msg; assumption).
    assert (H1 : find_tab b (d_tabs d1) = Some t) by exact Ht.
    assert (Hadd : addable d1 b [m]).
    { split; [repeat constructor; intros []|]. intros x [E1|[]]. subst x. split.
      - change (held d1 b m) with (held d b m). destruct (held d b m) eqn:Eh; [|reflexivity].
        rewrite (held_exists d b m I Eh) in W. discriminate.
      - unfold d1. rewrite msg_exists_with_msg, N.eqb_refl. apply orb_true_r. }
    assert (I2 : inv (do_add b [m] t d1)) by (apply inv_do_add; assumption).
    assert (H2 : find_tab b (d_tabs (do_add b [m] t d1)) = Some (tab_append [m] t)).
    { rewrite do_add_tabs. apply (find_put_same b (d_tabs d1) t _ H1). rewrite tab_append_box. apply (find_tab_box _ _ _ Ht). }
    rewrite is_deleted_exists, fmem_ci_dedup. change (fmem_ci deleted_flag fs) with (has_ci deleted_flag fs).
    set (del := has_ci deleted_flag fs).
    split.
    - destruct del; [apply inv_do_setdel; assumption | exact I2].
    - (* abstraction *)
      destruct A as [A1 [A2 A3]].
      assert (Tabs : d_tabs (if del then do_setdel b true [m] (tab_append [m] t) (do_add b [m] t d1) else do_add b [m] t d1)
                     = put_tab (if del then tab_setdel true [m] (tab_append [m] t) else tab_append [m] t) (d_tabs d)).
      { destruct del.
        - cbn [do_setdel d_tabs set_tabs]. rewrite do_add_tabs. change (d_tabs d1) with (d_tabs d). apply put_put.
          unfold tab_setdel. cbn [t_box]. reflexivity.
        - rewrite do_add_tabs. reflexivity. }
      split; [|split].
      + cbn [rf_boxes]. rewrite Tabs, <- A1, <- put_rbox_abs. f_equal.
        destruct del; [rewrite tab_setdel_abs, tab_append_abs | rewrite tab_append_abs]; reflexivity.
      + cbn [rf_msgs]. rewrite <- A2.
        replace (d_msgs (if del then do_setdel b true [m] (tab_append [m] t) (do_add b [m] t d1) else do_add b [m] t d1))
          with (d_msgs d ++ [mkMsg m m m false]) by (destruct del; reflexivity).
        rewrite map_app. reflexivity.
      + intros x f. unfold ref_has_flag. cbn [rf_flags]. rewrite db_has_flag_has.
        replace (d_flags (if del then do_setdel b true [m] (tab_append [m] t) (do_add b [m] t d1) else do_add b [m] t d1))
          with (d_flags d ++ map (fun g => (m, g)) fl) by (destruct del; reflexivity).
        fold (has (rf_flags r ++ map (fun g => (m, g)) (dedup_ci (without_deleted fs))) x f).
        rewrite !has_app, !has_map_snd.
        pose proof (A3 x f) as A3'. rewrite db_has_flag_has, ref_has_flag_has in A3'. rewrite A3'. f_equal. f_equal.
        unfold fl. rewrite fmem_ci_filter_inv, !fmem_ci_dedup.
        * unfold without_deleted. rewrite fmem_ci_filter_inv.
          -- unfold is_deleted_flag, deleted_flag. reflexivity.
          -- intros a c Hac. f_equal. symmetry. apply ci_trans. exact Hac.
        * intros a c Hac. unfold is_deleted_flag. f_equal. symmetry. apply ci_trans. exact Hac.
  Qed.

  Lemma sim_clear_recent : forall b d r, rel d r ->
    rel (fst (istep (CClearRecent b) d)) (fst (ref_step (CClearRecent b) r)) /\
    snd (istep (CClearRecent b) d) = snd (ref_step (CClearRecent b) r).
  Proof.
    intros b d r [I A]. unfold impl_step. cbn [cmd_tx ref_step].
    rewrite (ex_common F HF (OClearRecentAll b) d eq_refl). cbn [exec_common]. unfold op_clear_recent_all.
    rewrite (abs_find d r b A).
    destruct (find_tab b (d_tabs d)) as [t|] eqn:Ht; cbn [option_map fst snd]; [|split; [split; assumption | reflexivity]].
    split; [|reflexivity].
    set (t' := mkTab (t_box t) (t_seq t) (map (fun x => mkRow (r_uid x) (r_msg x) (r_remote x) (r_deleted x) false) (t_rows t))).
    pose proof (find_tab_box _ _ _ Ht) as Hb.
    split.
    - constructor.
      + intros x Hx. cbn [d_tabs set_tabs] in Hx. unfold mbox_exists, find_mbox. cbn [d_mboxes set_tabs].
        apply In_put_tab in Hx. destruct Hx as [E|[Hx _]].
        * subst x. apply (i_boxes d I t (find_tab_In _ _ _ Ht)).
        * apply (i_boxes d I x Hx).
      + cbn [d_tabs set_tabs]. rewrite put_tab_boxes. apply (i_tabs d I).
      + intros x Hx. cbn [d_tabs set_tabs] in Hx. apply rows_ok_frame with (d := d); [reflexivity|].
        apply In_put_tab in Hx. destruct Hx as [E|[Hx _]]; [|apply (i_rows d I x Hx)].
        subst x. destruct (i_rows d I t (find_tab_In _ _ _ Ht)) as [H1 H2]. split.
        * intros y Hy. unfold t' in Hy. cbn [t_rows] in Hy. apply in_map_iff in Hy. destruct Hy as [z [E Hz]].
          destruct (H1 z Hz) as [A1 B1]. subst y. cbn. tauto.
        * unfold t'. cbn [t_rows]. rewrite map_map. cbn [r_msg]. exact H2.
      + apply (i_msgs d I).
      + apply (i_msgs_nodup d I).
      + intros m b'. cbn [d_m2m set_tabs]. rewrite (i_m2m d I).
        rewrite (held_put d b b' t' m Hb (ex_intro _ t Ht)).
        destruct (N.eqb b' b) eqn:E; [|reflexivity]. apply N.eqb_eq in E. subst b'.
        unfold t'. cbn [t_rows]. unfold held. rewrite Ht.
        induction (t_rows t) as [|z zs IH]; [reflexivity|]. cbn [map existsb r_msg]. rewrite IH. reflexivity.
      + apply (i_flags d I).
    - replace (mkRB (rb_id (tab_abs t)) (rb_last (tab_abs t))
                 (map (fun e => mkRR (rr_uid e) (rr_msg e) (rr_deleted e) false) (rb_rows (tab_abs t)))) with (tab_abs t').
      + apply (abs_put d r _ t' A); reflexivity.
      + unfold tab_abs, t'. cbn. f_equal. rewrite !map_map. reflexivity.
  Qed.

  Theorem step_sim : forall c d r, rel d r -> cmd_wf c r = true ->
    rel (fst (istep c d)) (fst (ref_step c r)) /\ snd (istep c d) = snd (ref_step c r).
  Proof.
    intros c d r R W. destruct c.
    - apply sim_append; assumption.
    - apply (sim_store F HF); assumption.
    - apply (sim_expunge F HF); assumption.
    - apply (sim_copy F HF); assumption.
    - apply (sim_move F HF); assumption.
    - apply sim_clear_recent; assumption.
  Qed.

  Theorem run_sim : forall cs d r, rel d r -> run_wf cs r = true -> rel (run_impl F ci cs d) (run_spec cs r).
  Proof.
    induction cs as [|c cs IH]; intros d r R W; [exact R|]. cbn [run_impl run_spec run_wf] in *.
    apply andb_true_iff in W. destruct W as [W1 W2].
    destruct (step_sim c d r R W1) as [R' _]. apply IH; assumption.
  Qed.

  (* a command that is answered NO has no effect *)
  Theorem failed_no_effect : forall c d, snd (istep c d) = NO -> fst (istep c d) = d.
  Proof. intros c d H. unfold impl_step in *. destruct (cmd_tx F ci c d); [discriminate | reflexivity]. Qed.

  Theorem outcomes_agree : forall c d r, rel d r -> cmd_wf c r = true -> snd (istep c d) = snd (ref_step c r).
  Proof. intros c d r R W. apply (step_sim c d r R W). Qed.
End Sim5.

Lemma rel_empty : rel empty_db empty_ref.
Proof.
  split.
  - constructor; cbn; try (intros; contradiction); try constructor; try (intros; reflexivity).
  - split; [reflexivity | split; [reflexivity | intros; reflexivity]].
Qed.

(* ------------------------------------------------------------------ consequences *)
Section Consequences.
  Variable F : list stmt_fact.
  Hypothesis HF : facts_ok F = true.

  (* STORE -FLAGS (f) removes every spelling of f from the targets *)
  Theorem store_remove_any_case : forall b ts f f' d r, rel d r -> cmd_wf (CStore b SRemove [f] ts) r = true ->
    snd (impl_step F true (CStore b SRemove [f] ts) d) = OK ->
    flag_eqb_ci f deleted_flag = false -> flag_eqb_ci f f' = true ->
    forall m, In m ts -> db_has_flag (fst (impl_step F true (CStore b SRemove [f] ts) d)) m f' = false.
  Proof.
    intros b ts f f' d r R W Hok Hnd Hc m Hm.
    destruct (step_sim F HF (CStore b SRemove [f] ts) d r R W) as [[_ [_ [_ A3]]] Ho]. rewrite A3.
    rewrite Hok in Ho. cbn [ref_step] in *.
    destruct (find_rbox b r) as [x|]; [|discriminate].
    destruct (has_ci recent_flag [f]); [discriminate|]. cbn [fst].
    unfold ref_has_flag. cbn [rf_flags]. fold (has (fold_left (fun acc g => rf_remove_flag ts g acc) (norm_store_flags [f]) (rf_flags r)) m f').
    rewrite fold_remove_flags_has. apply nmem_In in Hm. rewrite Hm. cbn [andb].
    assert (E : fmem_ci f' (norm_store_flags [f]) = true).
    { unfold norm_store_flags. rewrite fmem_ci_dedup. unfold without_deleted. rewrite fmem_ci_filter_inv.
      - assert (E1 : fmem_ci f' (fwd_expand [f]) = true).
        { unfold fwd_expand. destruct (existsb _ fwd_flags); unfold fmem_ci; [rewrite existsb_app|]; cbn [existsb];
            rewrite (ci_sym f' f), Hc; reflexivity. }
        rewrite E1. cbn [andb]. rewrite (ci_trans f f' deleted_flag Hc), Hnd. reflexivity.
      - intros a c Hac. f_equal. symmetry. apply ci_trans. exact Hac. }
    rewrite E. cbn [negb]. apply andb_false_r.
  Qed.
End Consequences.

(* a start state with two empty mailboxes *)
Definition db2 : db :=
  mkDb [mkMbox 1 1 1 1 true; mkMbox 2 2 2 1 true] 2 [] [] [] [] [] [] [mkTab 1 0 []; mkTab 2 0 []] [] None.
Definition ref2 : ref := mkRef [mkRB 1 0 []; mkRB 2 0 []] [] [].

Lemma rel_db2 : rel db2 ref2.
Proof.
  split.
  - constructor.
    + intros t [E|[E|[]]]; subst t; reflexivity.
    + cbn. repeat constructor; cbn; intuition discriminate.
    + intros t [E|[E|[]]]; subst t; (split; [intros x [] | constructor]).
    + intros g [].
    + constructor.
    + intros m b. unfold held, db2. cbn [d_m2m d_tabs pair_mem existsb find_tab find t_box].
      destruct (N.eqb 1 b); [reflexivity|]. destruct (N.eqb 2 b); reflexivity.
    + intros p [].
  - split; [reflexivity | split; [reflexivity | intros; reflexivity]].
Qed.

Theorem run_sim_ci : forall F ci cs d r, facts_ok F = true -> ci = true -> rel d r -> run_wf cs r = true ->
  rel (run_impl F ci cs d) (run_spec cs r).
Proof. intros F ci cs d r HF Hc R W. subst ci. apply run_sim; assumption. Qed.

Theorem failed_no_effect_gen : forall F ci c d, snd (impl_step F ci c d) = NO -> fst (impl_step F ci c d) = d.
Proof. intros F ci c d H. unfold impl_step in *. destruct (cmd_tx F ci c d); [discriminate | reflexivity]. Qed.
