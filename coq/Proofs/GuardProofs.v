(* C19 — the lock discipline of a field read by other goroutines excludes data races on it. *)
From Coq Require Import Arith Bool List String.
From Gluon Require Import Gen.FactsGuard Gen.FactsServe Model.Guard.

Theorem guard_no_race owner a b : disciplined owner a -> disciplined owner b -> conflicting a b -> kept_apart a b = true.
Proof.
  unfold disciplined, conflicting, kept_apart.
  destruct a as [ta ka la], b as [tb kb lb]; cbn.
  intros Da Db [Hne Hw].
  destruct ka, kb; cbn in *.
  - destruct Hw as [Hw|Hw]; discriminate Hw.
  - destruct Db as [-> ->]. destruct Da as [Da|Da]; [congruence|]. destruct la; [congruence| |]; reflexivity.
  - destruct Da as [-> ->]. destruct Db as [Db|Db]; [congruence|]. destruct lb; [congruence| |]; reflexivity.
  - destruct Da as [-> _], Db as [-> _]. congruence.
Qed.

Lemma fact_guarded_fields_ok : guarded_fields_ok = true.
Proof. reflexivity. Qed.

Lemma fact_remove_state_cannot_abort_early : remove_state_cannot_abort_early = true.
Proof. reflexivity. Qed.

Lemma fact_idle_writer_drains : idle_writer_drains_until_closed = true.
Proof. reflexivity. Qed.
