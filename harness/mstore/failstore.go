package mstore

import (
	"errors"
	"io"
	"sync"

	"github.com/ProtonMail/gluon/imap"
	"github.com/ProtonMail/gluon/store"
)

// FailingStore is a store.Builder around the on-disk store whose Set can be made to fail (a local storage fault: disk
// full, I/O error) for the next n calls.
type FailingStore struct {
	mu    sync.Mutex
	fail  int
	inner store.OnDiskStoreBuilder
}

var ErrStoreFault = errors.New("injected local store failure")

// FailSets makes the next n calls of Set fail (0 disarms). Returns how many failures were still armed.
func (f *FailingStore) FailSets(n int) int {
	f.mu.Lock()
	defer f.mu.Unlock()
	old := f.fail
	f.fail = n
	return old
}

func (f *FailingStore) New(dir, userID string, passphrase []byte) (store.Store, error) {
	s, err := f.inner.New(dir, userID, passphrase)
	if err != nil {
		return nil, err
	}
	return &failingStore{Store: s, b: f}, nil
}

func (f *FailingStore) Delete(dir, userID string) error { return f.inner.Delete(dir, userID) }

type failingStore struct {
	store.Store
	b *FailingStore
}

func (s *failingStore) Set(id imap.InternalMessageID, r io.Reader) error {
	s.b.mu.Lock()
	if s.b.fail > 0 {
		s.b.fail--
		s.b.mu.Unlock()
		return ErrStoreFault
	}
	s.b.mu.Unlock()
	return s.Store.Set(id, r)
}
