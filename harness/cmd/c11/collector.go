package main

import (
	"bytes"
	"fmt"
	"io"
	"strings"

	"github.com/ProtonMail/gluon/imap/command"

	"verifharness/common"
)

// segReader is an rfcparser.Reader whose Read returns at most seg bytes per call (a partial read: n < len(dst)).
type segReader struct {
	data []byte
	pos  int
	seg  int
}

func (r *segReader) Read(p []byte) (int, error) {
	if r.pos >= len(r.data) {
		return 0, io.EOF
	}
	n := r.seg
	if n > len(p) {
		n = len(p)
	}
	if n > len(r.data)-r.pos {
		n = len(r.data) - r.pos
	}
	copy(p, r.data[r.pos:r.pos+n])
	r.pos += n
	return n, nil
}
func (r *segReader) ReadByte() (byte, error) {
	if r.pos >= len(r.data) {
		return 0, io.EOF
	}
	r.pos++
	return r.data[r.pos-1], nil
}
func (r *segReader) ReadBytes(d byte) ([]byte, error) {
	i := bytes.IndexByte(r.data[r.pos:], d)
	if i < 0 {
		out := r.data[r.pos:]
		r.pos = len(r.data)
		return out, io.EOF
	}
	out := r.data[r.pos : r.pos+i+1]
	r.pos += i + 1
	return out, nil
}

// driveCollector drives the REAL command.InputCollector with random Read / ReadByte / ReadBytes / Reset calls over a source
// that delivers partial reads. Oracle (independent of the Coq model): Bytes() is exactly the concatenation of what the
// calls returned since the last Reset. Returns the operations as a Coq term, the observed Bytes() and a failure text.
func driveCollector(rng *common.Rng) (string, []byte, string, string) {
	n := rng.Range(1, 600)
	data := make([]byte, n)
	for i := range data {
		data[i] = byte(rng.Pick(256))
		if rng.Chance(0.05) {
			data[i] = '\n'
		}
	}
	src := &segReader{data: data, seg: []int{1, 2, 7, 64, 1024}[rng.Pick(5)]}
	col := command.NewInputCollector(src)
	var want []byte
	var ops, human []string
	for k := 0; k < 40; k++ {
		switch x := rng.Pick(10); {
		case x < 5:
			dst := make([]byte, []int{1, 3, 16, 100, 700}[rng.Pick(5)])
			for i := range dst {
				dst[i] = 0xEE // stale content of the caller's buffer
			}
			got, err := col.Read(dst)
			if err != nil {
				ops = append(ops, "CReadErr")
				human = append(human, "Read->err")
			} else {
				want = append(want, dst[:got]...)
				ops = append(ops, fmt.Sprintf("CRead %d %s", len(dst), common.CoqHex(dst[:got])))
				human = append(human, fmt.Sprintf("Read(len %d)->%d", len(dst), got))
			}
		case x < 7:
			b, err := col.ReadByte()
			if err != nil {
				ops = append(ops, "CReadErr")
				human = append(human, "ReadByte->err")
			} else {
				want = append(want, b)
				ops = append(ops, fmt.Sprintf("CReadByte %d", b))
				human = append(human, "ReadByte")
			}
		case x < 9:
			bs, err := col.ReadBytes('\n')
			if err != nil {
				ops = append(ops, "CReadErr")
				human = append(human, "ReadBytes->err")
			} else {
				want = append(want, bs...)
				ops = append(ops, "CReadBytes "+common.CoqHex(bs))
				human = append(human, fmt.Sprintf("ReadBytes->%d", len(bs)))
			}
		default:
			col.Reset()
			want = want[:0]
			ops = append(ops, "CReset")
			human = append(human, "Reset")
		}
	}
	got := append([]byte{}, col.Bytes()...)
	fail := ""
	if !bytes.Equal(got, want) {
		fail = fmt.Sprintf("InputCollector.Bytes() has %d bytes, the calls returned %d bytes since the last Reset", len(got), len(want))
	}
	return "[" + strings.Join(ops, "; ") + "]", got, fmt.Sprintf("segment=%d ops=%s", src.seg, strings.Join(human, " ")), fail
}
