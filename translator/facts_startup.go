package main

import (
	"fmt"
	"go/ast"
	"go/token"
	"strings"
)

// FactsStartup (C07): the order of the clean-up steps the crash model's [cs_recover] relies on.
//   - internal/backend/user.go newUser: deleteAllMessagesMarkedDeleted is called BEFORE cleanupStaleStoreData (the
//     sweep is the safety net for files the purge's store.Delete loop left behind);
//   - deleteAllMessagesMarkedDeleted and removeState: the database transaction precedes store.Delete;
//   - wrapTx returns every commit error; applyMessagesCreated's clean-up loop keeps the transaction error;
//     actionMoveMessagesOutOfRecoveryMailbox marks the old copy;
//   - internal/backend/connector_updates.go applyMessageDeleted: the row is marked with
//     MarkMessageAsDeletedAndAssignRandomRemoteID (a row waiting for the purge cannot be found by remote id again).
func init() { register("Startup", extractStartup) }

// firstCall returns the position of the first call whose selector name is sel inside body (token.NoPos if none).
func firstCall(body ast.Node, sel string) token.Pos {
	pos := token.NoPos
	ast.Inspect(body, func(n ast.Node) bool {
		if pos != token.NoPos {
			return false
		}
		c, ok := n.(*ast.CallExpr)
		if !ok {
			return true
		}
		switch f := c.Fun.(type) {
		case *ast.SelectorExpr:
			if f.Sel.Name == sel {
				pos = c.Pos()
			}
		case *ast.Ident:
			if f.Name == sel {
				pos = c.Pos()
			}
		case *ast.IndexExpr: // generic instantiation f[T](...)
			if s, ok := f.X.(*ast.SelectorExpr); ok && s.Sel.Name == sel {
				pos = c.Pos()
			}
		}
		return true
	})
	return pos
}

func before(a, b token.Pos) string {
	if a == token.NoPos || b == token.NoPos {
		return "" // pattern not found: the definition is omitted and the dependent theorem stops compiling
	}
	if a < b {
		return "true"
	}
	return "false"
}

func extractStartup(t *T) (string, error) {
	var sb strings.Builder
	sb.WriteString("From Coq Require Import Bool.\n\n")
	def := func(name, val, comment string) {
		if val == "" {
			fmt.Fprintf(&sb, "(* %s : pattern not found *)\n", name)
			return
		}
		fmt.Fprintf(&sb, "(* %s *)\nDefinition %s : bool := %s.\n", comment, name, val)
	}
	uf, err := t.ParseFile("internal/backend/user.go")
	if err != nil {
		return "", err
	}
	if nu := FuncDecl(uf, "", "newUser"); nu != nil {
		def("startup_purge_before_sweep", before(firstCall(nu.Body, "deleteAllMessagesMarkedDeleted"), firstCall(nu.Body, "cleanupStaleStoreData")),
			"newUser: deleteAllMessagesMarkedDeleted precedes cleanupStaleStoreData")
	} else {
		def("startup_purge_before_sweep", "", "")
	}
	if fd := FuncDecl(uf, "user", "deleteAllMessagesMarkedDeleted"); fd != nil {
		def("startup_rows_before_files", before(firstCall(fd.Body, "DeleteMessages"), firstCall(fd.Body, "Delete")),
			"deleteAllMessagesMarkedDeleted: the rows are deleted (transaction) before the cache files")
	} else {
		def("startup_rows_before_files", "", "")
	}
	if fd := FuncDecl(uf, "user", "removeState"); fd != nil {
		def("session_end_rows_before_files", before(firstCall(fd.Body, "DeleteMessages"), firstCall(fd.Body, "Delete")),
			"removeState: the rows are deleted (transaction) before the cache files")
	} else {
		def("session_end_rows_before_files", "", "")
	}
	cf, err := t.ParseFile("internal/backend/connector_updates.go")
	if err != nil {
		return "", err
	}
	if fd := FuncDecl(cf, "user", "applyMessageDeleted"); fd != nil {
		v := "false"
		if firstCall(fd.Body, "MarkMessageAsDeletedAndAssignRandomRemoteID") != token.NoPos &&
			firstCall(fd.Body, "MarkMessageAsDeleted") == token.NoPos && firstCall(fd.Body, "MarkMessageAsDeletedWithRemoteID") == token.NoPos {
			v = "true"
		}
		def("conn_delete_releases_remote_id", v, "applyMessageDeleted marks the row with MarkMessageAsDeletedAndAssignRandomRemoteID only")
	} else {
		def("conn_delete_releases_remote_id", "", "")
	}
	// wrapTx: the error of tx.Commit() is returned whatever it is (no condition besides err != nil)
	if xf, err := t.ParseFile("internal/db_impl/sqlite3/client.go"); err == nil {
		v := ""
		if fd := FuncDecl(xf, "Client", "wrapTx"); fd != nil {
			ast.Inspect(fd.Body, func(n ast.Node) bool {
				is, ok := n.(*ast.IfStmt)
				if !ok || is.Init == nil {
					return true
				}
				as, ok := is.Init.(*ast.AssignStmt)
				if !ok || len(as.Rhs) != 1 {
					return true
				}
				call, ok := as.Rhs[0].(*ast.CallExpr)
				if !ok {
					return true
				}
				if sel, ok := call.Fun.(*ast.SelectorExpr); !ok || sel.Sel.Name != "Commit" {
					return true
				}
				v = "false"
				be, ok := is.Cond.(*ast.BinaryExpr)
				if ok && be.Op == token.NEQ && isIdentNamed(be.X, "err") && isIdentNamed(be.Y, "nil") {
					// the body must end by returning an error
					if n := len(is.Body.List); n > 0 {
						if rs, ok := is.Body.List[n-1].(*ast.ReturnStmt); ok && len(rs.Results) == 1 && !isIdentNamed(rs.Results[0], "nil") {
							v = "true"
						}
					}
				}
				return false
			})
		}
		def("commit_error_always_returned", v, "wrapTx: `if err := tx.Commit(); err != nil { ...; return <error> }` with no further condition")
	} else {
		return "", err
	}
	// applyMessagesCreated: the clean-up loop after a failed transaction does not assign to the transaction's error
	if fd := FuncDecl(cf, "user", "applyMessagesCreated"); fd != nil {
		v := ""
		ast.Inspect(fd.Body, func(n ast.Node) bool {
			rs, ok := n.(*ast.RangeStmt)
			if !ok || !isIdentNamed(rs.X, "messagesToCreate") || firstCall(rs.Body, "DeleteUnchecked") == token.NoPos {
				return true
			}
			v = "true"
			ast.Inspect(rs.Body, func(m ast.Node) bool {
				if as, ok := m.(*ast.AssignStmt); ok && as.Tok == token.ASSIGN {
					for _, l := range as.Lhs {
						if isIdentNamed(l, "err") {
							v = "false"
						}
					}
				}
				return true
			})
			return false
		})
		def("conn_create_cleanup_keeps_error", v, "applyMessagesCreated: the loop deleting the new cache files after a failed transaction never assigns to err")
	} else {
		def("conn_create_cleanup_keeps_error", "", "")
	}
	// actionMoveMessagesOutOfRecoveryMailbox marks the OLD copy (id.InternalID) for deletion
	if af, err := t.ParseFile("internal/state/actions.go"); err == nil {
		v := ""
		if fd := FuncDecl(af, "State", "actionMoveMessagesOutOfRecoveryMailbox"); fd != nil {
			ast.Inspect(fd.Body, func(n ast.Node) bool {
				c, ok := n.(*ast.CallExpr)
				if !ok {
					return true
				}
				sel, ok := c.Fun.(*ast.SelectorExpr)
				if !ok || sel.Sel.Name != "MarkMessageAsDeleted" || len(c.Args) != 2 {
					return true
				}
				v = "false"
				if a, ok := c.Args[1].(*ast.SelectorExpr); ok && isIdentNamed(a.X, "id") && a.Sel.Name == "InternalID" {
					v = "true"
				}
				return false
			})
		}
		def("recovery_move_marks_old_copy", v, "actionMoveMessagesOutOfRecoveryMailbox: MarkMessageAsDeleted(ctx, id.InternalID) - the copy left in the recovery mailbox")
	} else {
		return "", err
	}
	// State.getLiteral: after a download from the connector the cache is refilled with the bytes that are served
	// (literalWithHeader), not with the raw connector literal
	if sf, err := t.ParseFile("internal/state/state.go"); err == nil {
		v := ""
		if fd := FuncDecl(sf, "State", "getLiteral"); fd != nil {
			ast.Inspect(fd.Body, func(n ast.Node) bool {
				c, ok := n.(*ast.CallExpr)
				if !ok {
					return true
				}
				sel, ok := c.Fun.(*ast.SelectorExpr)
				if !ok || sel.Sel.Name != "Set" || len(c.Args) != 2 {
					return true
				}
				v = "false"
				if rd, ok := c.Args[1].(*ast.CallExpr); ok && len(rd.Args) == 1 && isIdentNamed(rd.Args[0], "literalWithHeader") {
					v = "true"
				}
				return false
			})
		}
		def("redownload_refills_served_bytes", v, "getLiteral: store.Set(id, bytes.NewReader(literalWithHeader)) after a download from the connector")
	} else {
		return "", err
	}
	// actionImportRecoveredMessage: the literal of the new copy is written under the NEW internal id
	if af, err := t.ParseFile("internal/state/actions.go"); err == nil {
		v := ""
		if fd := FuncDecl(af, "State", "actionImportRecoveredMessage"); fd != nil {
			ast.Inspect(fd.Body, func(n ast.Node) bool {
				c, ok := n.(*ast.CallExpr)
				if !ok {
					return true
				}
				sel, ok := c.Fun.(*ast.SelectorExpr)
				if !ok || sel.Sel.Name != "SetUnchecked" || len(c.Args) != 2 {
					return true
				}
				v = "false"
				if isIdentNamed(c.Args[0], "internalID") {
					v = "true"
				}
				return false
			})
		}
		def("recovered_import_writes_new_id", v, "actionImportRecoveredMessage: store.SetUnchecked(internalID, ...) - the id of the new copy, not the recovered source's")
	} else {
		return "", err
	}
	// backend.AddUser: after a failed database.Init the database is deleted and recreated ONLY for a failed migration /
	// an invalid version; every other failure returns the error and leaves the files alone
	if bf, err := t.ParseFile("internal/backend/backend.go"); err == nil {
		v := ""
		if fd := FuncDecl(bf, "Backend", "AddUser"); fd != nil {
			ast.Inspect(fd.Body, func(n ast.Node) bool {
				is, ok := n.(*ast.IfStmt)
				if !ok {
					return true
				}
				src := t.Src("internal/backend/backend.go", is.Cond)
				if !strings.Contains(src, "ErrMigrationFailed") {
					return true
				}
				v = "false"
				norm := strings.Join(strings.Fields(src), " ")
				// the early return is taken when the error is NEITHER of the two
				if norm == "!errors.Is(err, db.ErrMigrationFailed) && !errors.Is(err, db.ErrInvalidDatabaseVersion)" {
					if n := len(is.Body.List); n > 0 {
						if rs, ok := is.Body.List[n-1].(*ast.ReturnStmt); ok && len(rs.Results) == 2 && isIdentNamed(rs.Results[1], "err") {
							v = "true"
						}
					}
				}
				return false
			})
		}
		def("failed_init_keeps_database", v, "AddUser: `if !errors.Is(err, db.ErrMigrationFailed) && !errors.Is(err, db.ErrInvalidDatabaseVersion) { ...; return false, err }` before the database is deleted")
	} else {
		return "", err
	}
	// every `for _, chunk := range xslices.Chunk(X, n)` loop of the SQLite layer works on ITS chunk: inside the loop body
	// the ranged-over slice X is not mentioned at all (except as len(X), a capacity hint) — so no statement can bind the
	// whole list to the placeholders of one chunk — and the loop variable is used
	loops, bad := 0, []string{}
	for _, rel := range []string{"internal/db_impl/sqlite3/write_ops.go", "internal/db_impl/sqlite3/read_ops.go"} {
		xf, err := t.ParseFile(rel)
		if err != nil {
			return "", err
		}
		for _, d := range xf.Decls {
			fd, ok := d.(*ast.FuncDecl)
			if !ok || fd.Body == nil {
				continue
			}
			ast.Inspect(fd.Body, func(n ast.Node) bool {
				rs, ok := n.(*ast.RangeStmt)
				if !ok {
					return true
				}
				call, ok := rs.X.(*ast.CallExpr)
				if !ok || len(call.Args) != 2 {
					return true
				}
				sel, ok := call.Fun.(*ast.SelectorExpr)
				if !ok || sel.Sel.Name != "Chunk" {
					return true
				}
				whole, ok1 := call.Args[0].(*ast.Ident)
				loopVar, ok2 := rs.Value.(*ast.Ident)
				if !ok1 || !ok2 {
					return true
				}
				loops++
				usesChunk, usesWhole := false, false
				var walk func(n ast.Node, inLen bool)
				walk = func(n ast.Node, inLen bool) {
					ast.Inspect(n, func(m ast.Node) bool {
						switch x := m.(type) {
						case *ast.CallExpr:
							if isIdentNamed(x.Fun, "len") && !inLen {
								for _, a := range x.Args {
									walk(a, true)
								}
								return false
							}
						case *ast.Ident:
							if x.Name == loopVar.Name {
								usesChunk = true
							}
							if x.Name == whole.Name && !inLen {
								usesWhole = true
							}
						}
						return true
					})
				}
				walk(rs.Body, false)
				if !usesChunk || usesWhole {
					bad = append(bad, fd.Name.Name)
				}
				return true
			})
		}
	}
	v := ""
	if loops > 0 {
		v = "true"
		if len(bad) > 0 {
			v = "false"
		}
	}
	// store/disk.go Set opens the cache file with O_CREATE and O_TRUNC for writing: whatever was there is gone before the
	// first byte of the new content is written
	if df, err := t.ParseFile("store/disk.go"); err == nil {
		tv := ""
		if fd := FuncDecl(df, "onDiskStore", "Set"); fd != nil {
			ast.Inspect(fd.Body, func(n ast.Node) bool {
				c, ok := n.(*ast.CallExpr)
				if !ok || len(c.Args) != 3 {
					return true
				}
				sel, ok := c.Fun.(*ast.SelectorExpr)
				if !ok || sel.Sel.Name != "OpenFile" {
					return true
				}
				flags := strings.Join(strings.Fields(t.Src("store/disk.go", c.Args[1])), "")
				has := func(f string) bool {
					for _, x := range strings.Split(flags, "|") {
						if x == "os."+f {
							return true
						}
					}
					return false
				}
				tv = "false"
				if has("O_TRUNC") && has("O_CREATE") && (has("O_WRONLY") || has("O_RDWR")) && !has("O_APPEND") {
					tv = "true"
				}
				return false
			})
		}
		def("store_set_truncates", tv, "store/disk.go Set: os.OpenFile(path, os.O_RDWR|os.O_CREATE|os.O_TRUNC, ...) (write access, create, truncate, no append)")
		// store/disk.go Get: the reader whose end-of-data flag is tested after decoding (`if X.eof`) is the very reader the
		// decompressor consumes (`lz4.NewReader(X)`): a file that ends at a block boundary is an error, not a short message
		gv := ""
		if fd := FuncDecl(df, "onDiskStore", "Get"); fd != nil {
			tested := map[string]bool{}
			fed := []string{}
			ast.Inspect(fd.Body, func(n ast.Node) bool {
				switch x := n.(type) {
				case *ast.IfStmt:
					if sel, ok := x.Cond.(*ast.SelectorExpr); ok && sel.Sel.Name == "eof" {
						if id, ok := sel.X.(*ast.Ident); ok {
							tested[id.Name] = true
						}
					}
				case *ast.CallExpr:
					if sel, ok := x.Fun.(*ast.SelectorExpr); ok && sel.Sel.Name == "NewReader" && isIdentNamed(sel.X, "lz4") && len(x.Args) == 1 {
						if id, ok := x.Args[0].(*ast.Ident); ok {
							fed = append(fed, id.Name)
						} else {
							fed = append(fed, "?")
						}
					}
				}
				return true
			})
			gv = "false"
			if len(fed) == 1 && len(tested) == 1 && tested[fed[0]] {
				gv = "true"
			}
		}
		def("store_get_decodes_from_eof_tracker", gv, "store/disk.go Get: decompressor := lz4.NewReader(source) ... if source.eof { error }: the end-of-data test watches the reader that is decoded")
	} else {
		return "", err
	}
	def("chunk_loops_bind_their_chunk", v, fmt.Sprintf("%d chunk loops in write_ops.go / read_ops.go; loops that mention the whole slice or ignore the chunk: %v", loops, bad))
	return sb.String(), nil
}

func isIdentNamed(e ast.Expr, name string) bool {
	id, ok := e.(*ast.Ident)
	return ok && id.Name == name
}
