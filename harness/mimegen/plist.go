package mimegen

// Go port of coq/Model/PList.v (parse_plist / wf_plist): recursive descent over the text of a parenthesised IMAP
// list, returning the syntax tree. Same acceptance conditions as the Coq checker:
//   - elements are separated by exactly one SP; the SP may be omitted only between ')' and '('
//   - NIL, numbers (digits), quoted strings (lexically closed: '\' escapes one byte, no raw CR/LF, ends at the
//     first unescaped '"'), literals {n}CRLF + n bytes with n in canonical decimal form, nested lists
//   - the whole input must be one list.

import (
	"errors"
	"fmt"
	"strconv"
)

const (
	KNil = iota
	KNum
	KQuoted
	KLit
	KList
)

type PItem struct {
	Kind int
	Raw  []byte   // digits / content between the quotes (escapes included) / literal payload
	List []*PItem // KList
	Sp   []bool   // KList: element i is preceded by one SP
}

func (p *PItem) IsNil() bool { return p != nil && p.Kind == KNil }

// Text returns the string value of a NIL ("") or quoted item (unquoted with Go's rules: the server writes
// strconv.Quote), ok=false for other kinds.
func (p *PItem) Text() (string, bool) {
	switch p.Kind {
	case KNil:
		return "", true
	case KQuoted:
		s, err := strconv.Unquote(`"` + string(p.Raw) + `"`)
		if err != nil {
			return "", false
		}
		return s, true
	case KLit:
		return string(p.Raw), true
	}
	return "", false
}

func (p *PItem) Number() (int, bool) {
	if p.Kind != KNum {
		return 0, false
	}
	n, err := strconv.Atoi(string(p.Raw))
	return n, err == nil
}

type plParser struct {
	s   []byte
	pos int
}

func isDigit(b byte) bool { return b >= '0' && b <= '9' }

func (p *plParser) item() (*PItem, error) {
	if p.pos >= len(p.s) {
		return nil, errors.New("unexpected end of input")
	}
	b := p.s[p.pos]
	switch {
	case b == '(':
		p.pos++
		return p.items()
	case b == '"':
		p.pos++
		start := p.pos
		for {
			if p.pos >= len(p.s) {
				return nil, errors.New("unterminated quoted string")
			}
			c := p.s[p.pos]
			if c == '"' {
				it := &PItem{Kind: KQuoted, Raw: p.s[start:p.pos]}
				p.pos++
				return it, nil
			}
			if c == '\\' {
				if p.pos+1 >= len(p.s) {
					return nil, errors.New("dangling backslash")
				}
				if d := p.s[p.pos+1]; d == '\r' || d == '\n' {
					return nil, errors.New("raw CR/LF in quoted string")
				}
				p.pos += 2
				continue
			}
			if c == '\r' || c == '\n' {
				return nil, errors.New("raw CR/LF in quoted string")
			}
			p.pos++
		}
	case b == '{':
		i := p.pos + 1
		for i < len(p.s) && isDigit(p.s[i]) {
			i++
		}
		if i == p.pos+1 {
			return nil, errors.New("literal without length")
		}
		n, err := strconv.Atoi(string(p.s[p.pos+1 : i]))
		if err != nil || strconv.Itoa(n) != string(p.s[p.pos+1:i]) {
			return nil, errors.New("literal length not canonical")
		}
		if i+3 > len(p.s) || p.s[i] != '}' || p.s[i+1] != '\r' || p.s[i+2] != '\n' {
			return nil, errors.New("malformed literal header")
		}
		if i+3+n > len(p.s) {
			return nil, errors.New("literal longer than the input")
		}
		it := &PItem{Kind: KLit, Raw: p.s[i+3 : i+3+n]}
		p.pos = i + 3 + n
		return it, nil
	case p.pos+3 <= len(p.s) && string(p.s[p.pos:p.pos+3]) == "NIL":
		p.pos += 3
		return &PItem{Kind: KNil}, nil
	case isDigit(b):
		start := p.pos
		for p.pos < len(p.s) && isDigit(p.s[p.pos]) {
			p.pos++
		}
		return &PItem{Kind: KNum, Raw: p.s[start:p.pos]}, nil
	}
	return nil, fmt.Errorf("unexpected byte %q at %d", b, p.pos)
}

// items parses the elements of a list up to and including ')'.
func (p *plParser) items() (*PItem, error) {
	l := &PItem{Kind: KList}
	first, prevList := true, false
	for {
		if p.pos >= len(p.s) {
			return nil, errors.New("unterminated list")
		}
		b := p.s[p.pos]
		switch {
		case b == ')':
			p.pos++
			return l, nil
		case b == ' ':
			if first {
				return nil, fmt.Errorf("space after '(' at %d", p.pos)
			}
			p.pos++
			x, err := p.item()
			if err != nil {
				return nil, err
			}
			l.List = append(l.List, x)
			l.Sp = append(l.Sp, true)
			prevList = x.Kind == KList
		case first || (prevList && b == '('):
			x, err := p.item()
			if err != nil {
				return nil, err
			}
			l.List = append(l.List, x)
			l.Sp = append(l.Sp, false)
			prevList = x.Kind == KList
		default:
			return nil, fmt.Errorf("missing separator at %d", p.pos)
		}
		first = false
	}
}

// ParsePList parses a complete parenthesised list.
func ParsePList(s []byte) (*PItem, error) {
	p := &plParser{s: s}
	if len(s) == 0 || s[0] != '(' {
		return nil, errors.New("does not start with '('")
	}
	x, err := p.item()
	if err != nil {
		return nil, err
	}
	if p.pos != len(s) {
		return nil, fmt.Errorf("trailing bytes after the list at %d", p.pos)
	}
	return x, nil
}

// WfPList is wf_plist.
func WfPList(s []byte) bool { _, err := ParsePList(s); return err == nil }
