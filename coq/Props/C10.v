(* C10 — placeholder while the round-trip proofs are being built (see below in this file once complete). *)
From Coq Require Import List NArith Bool String.
From Gluon Require Import Gen.FactsTokens Model.ImapTokens Model.ImapGrammar.
Import ListNotations.
Open Scope N_scope.

(* the keywords the model dispatches on are exactly the keys of the Go builder maps (read from the source) *)
Theorem C10_command_keywords_match :
  map s2b model_command_keywords = command_keywords /\ map s2b model_uid_keywords = uid_command_keywords.
Proof. split; reflexivity. Qed.
Print Assumptions C10_command_keywords_match.
