package main

// T1 extractor for C13: translates the body of (*itemBodyLiteral).WithPartial
// (internal/response/item_body_literal.go) expression by expression into a Gallina function over Z.
//
// Recognised shape (tolerant of renamed locals and of the order/number of branches):
//
//	func (r *itemBodyLiteral) WithPartial(<b>, <c> int) *itemBodyLiteral {
//		r.partial = <b>                                  // any assignments to fields other than r.literal are skipped
//		if <len> := len(r.literal); <cond> {             // or: <len> := len(r.literal) ; if <cond> {
//			r.literal = nil | r.literal[<lo>:<hi>]       // exactly one assignment to r.literal per branch
//		} else if <cond> { ... } else { ... }
//		return r
//	}
//
// Integer expressions: identifiers (the two parameters and the length variable), integer literals, + - (wrapped to
// int64 explicitly), unary minus, parentheses, int(...)/int64(...) conversions (identity on a 64 bit platform, written
// as wrap64). Conditions: < <= > >= == != combined with && || !.
// Anything else makes the extractor fail, which produces a Coq file that does not compile.

import (
	"fmt"
	"go/ast"
	"go/token"
	"strings"
)

func init() { register("Partial", factsPartial) }

type partialTr struct {
	recv   string
	begin  string
	count  string
	lenVar string
	names  map[string]string
}

func (p *partialTr) intExpr(e ast.Expr) (string, error) {
	switch x := e.(type) {
	case *ast.ParenExpr:
		return p.intExpr(x.X)
	case *ast.Ident:
		if n, ok := p.names[x.Name]; ok {
			return n, nil
		}
		return "", fmt.Errorf("unknown identifier %q in integer expression", x.Name)
	case *ast.BasicLit:
		if x.Kind == token.INT {
			return "(" + x.Value + ")", nil
		}
	case *ast.UnaryExpr:
		if x.Op == token.SUB {
			a, err := p.intExpr(x.X)
			if err != nil {
				return "", err
			}
			return "(wrap64 (- " + a + "))", nil
		}
	case *ast.BinaryExpr:
		a, err := p.intExpr(x.X)
		if err != nil {
			return "", err
		}
		b, err := p.intExpr(x.Y)
		if err != nil {
			return "", err
		}
		switch x.Op {
		case token.ADD:
			return "(wrap64 (" + a + " + " + b + "))", nil
		case token.SUB:
			return "(wrap64 (" + a + " - " + b + "))", nil
		}
	case *ast.CallExpr:
		if id, ok := x.Fun.(*ast.Ident); ok && len(x.Args) == 1 {
			switch id.Name {
			case "int", "int64":
				a, err := p.intExpr(x.Args[0])
				if err != nil {
					return "", err
				}
				return "(wrap64 " + a + ")", nil
			case "len":
				if p.isLiteralField(x.Args[0]) {
					return p.names[p.lenVar], nil
				}
			}
		}
	}
	return "", fmt.Errorf("unsupported integer expression %T", e)
}

func (p *partialTr) boolExpr(e ast.Expr) (string, error) {
	switch x := e.(type) {
	case *ast.ParenExpr:
		return p.boolExpr(x.X)
	case *ast.UnaryExpr:
		if x.Op == token.NOT {
			a, err := p.boolExpr(x.X)
			if err != nil {
				return "", err
			}
			return "(negb " + a + ")", nil
		}
	case *ast.BinaryExpr:
		switch x.Op {
		case token.LAND, token.LOR:
			a, err := p.boolExpr(x.X)
			if err != nil {
				return "", err
			}
			b, err := p.boolExpr(x.Y)
			if err != nil {
				return "", err
			}
			if x.Op == token.LAND {
				return "(" + a + " && " + b + ")", nil
			}
			return "(" + a + " || " + b + ")", nil
		case token.LSS, token.LEQ, token.GTR, token.GEQ, token.EQL, token.NEQ:
			a, err := p.intExpr(x.X)
			if err != nil {
				return "", err
			}
			b, err := p.intExpr(x.Y)
			if err != nil {
				return "", err
			}
			switch x.Op {
			case token.LSS:
				return "(" + a + " <? " + b + ")", nil
			case token.LEQ:
				return "(" + a + " <=? " + b + ")", nil
			case token.GTR:
				return "(" + b + " <? " + a + ")", nil
			case token.GEQ:
				return "(" + b + " <=? " + a + ")", nil
			case token.EQL:
				return "(" + a + " =? " + b + ")", nil
			case token.NEQ:
				return "(negb (" + a + " =? " + b + "))", nil
			}
		}
	}
	return "", fmt.Errorf("unsupported condition %T", e)
}

func (p *partialTr) isLiteralField(e ast.Expr) bool {
	sel, ok := e.(*ast.SelectorExpr)
	if !ok || sel.Sel.Name != "literal" {
		return false
	}
	id, ok := sel.X.(*ast.Ident)
	return ok && id.Name == p.recv
}

// branch translates a block that assigns r.literal exactly once.
func (p *partialTr) branch(b *ast.BlockStmt) (string, error) {
	var out string
	n := 0
	for _, st := range b.List {
		as, ok := st.(*ast.AssignStmt)
		if !ok || len(as.Lhs) != 1 || len(as.Rhs) != 1 || as.Tok != token.ASSIGN {
			return "", fmt.Errorf("unsupported statement in branch")
		}
		if !p.isLiteralField(as.Lhs[0]) {
			return "", fmt.Errorf("branch assigns something else than the literal")
		}
		n++
		switch r := as.Rhs[0].(type) {
		case *ast.Ident:
			if r.Name != "nil" {
				return "", fmt.Errorf("literal assigned from identifier %s", r.Name)
			}
			out = "PNil"
		case *ast.SliceExpr:
			if !p.isLiteralField(r.X) || r.Slice3 {
				return "", fmt.Errorf("slice of something else than the literal")
			}
			lo, hi := "0", p.names[p.lenVar]
			var err error
			if r.Low != nil {
				if lo, err = p.intExpr(r.Low); err != nil {
					return "", err
				}
			}
			if r.High != nil {
				if hi, err = p.intExpr(r.High); err != nil {
					return "", err
				}
			}
			out = "PSlice " + lo + " " + hi
		default:
			return "", fmt.Errorf("unsupported right-hand side %T", r)
		}
	}
	if n != 1 {
		return "", fmt.Errorf("branch with %d assignments to the literal", n)
	}
	return out, nil
}

func (p *partialTr) ifChain(s *ast.IfStmt) (string, error) {
	c, err := p.boolExpr(s.Cond)
	if err != nil {
		return "", err
	}
	th, err := p.branch(s.Body)
	if err != nil {
		return "", err
	}
	var el string
	switch e := s.Else.(type) {
	case nil:
		el = "PKeep"
	case *ast.BlockStmt:
		if el, err = p.branch(e); err != nil {
			return "", err
		}
	case *ast.IfStmt:
		if e.Init != nil {
			return "", fmt.Errorf("else-if with init statement")
		}
		if el, err = p.ifChain(e); err != nil {
			return "", err
		}
	default:
		return "", fmt.Errorf("unsupported else %T", e)
	}
	return "if " + c + "\n    then " + th + "\n    else " + el, nil
}

func (p *partialTr) lenInit(st ast.Stmt) bool {
	as, ok := st.(*ast.AssignStmt)
	if !ok || as.Tok != token.DEFINE || len(as.Lhs) != 1 || len(as.Rhs) != 1 {
		return false
	}
	id, ok := as.Lhs[0].(*ast.Ident)
	if !ok {
		return false
	}
	call, ok := as.Rhs[0].(*ast.CallExpr)
	if !ok || len(call.Args) != 1 {
		return false
	}
	if f, ok := call.Fun.(*ast.Ident); !ok || f.Name != "len" {
		return false
	}
	if !p.isLiteralField(call.Args[0]) {
		return false
	}
	p.lenVar = id.Name
	p.names[id.Name] = "literalLen"
	return true
}

func factsPartial(t *T) (string, error) {
	const file = "internal/response/item_body_literal.go"
	f, err := t.ParseFile(file)
	if err != nil {
		return "", err
	}
	fd := FuncDecl(f, "itemBodyLiteral", "WithPartial")
	if fd == nil || fd.Body == nil {
		return "", fmt.Errorf("WithPartial not found in %s", file)
	}
	p := &partialTr{names: map[string]string{}}
	if fd.Recv == nil || len(fd.Recv.List) != 1 || len(fd.Recv.List[0].Names) != 1 {
		return "", fmt.Errorf("unexpected receiver")
	}
	p.recv = fd.Recv.List[0].Names[0].Name
	var params []string
	for _, fl := range fd.Type.Params.List {
		id, ok := fl.Type.(*ast.Ident)
		if !ok || id.Name != "int" {
			return "", fmt.Errorf("parameter type is not int")
		}
		for _, n := range fl.Names {
			params = append(params, n.Name)
		}
	}
	if len(params) != 2 {
		return "", fmt.Errorf("expected two int parameters, got %d", len(params))
	}
	p.begin, p.count = params[0], params[1]
	p.names[p.begin] = "begin"
	p.names[p.count] = "count"
	p.lenVar = "\x00len"
	p.names[p.lenVar] = "literalLen"

	var chain *ast.IfStmt
	partialField := ""
	for _, st := range fd.Body.List {
		switch s := st.(type) {
		case *ast.AssignStmt:
			if p.lenInit(s) {
				continue
			}
			if len(s.Lhs) == 1 && len(s.Rhs) == 1 && s.Tok == token.ASSIGN && !p.isLiteralField(s.Lhs[0]) {
				if sel, ok := s.Lhs[0].(*ast.SelectorExpr); ok && sel.Sel.Name == "partial" {
					v, err := p.intExpr(s.Rhs[0])
					if err != nil {
						return "", err
					}
					partialField = v
					continue
				}
			}
			return "", fmt.Errorf("unsupported assignment at top level: %s", t.Src(file, s))
		case *ast.IfStmt:
			if chain != nil {
				return "", fmt.Errorf("more than one if statement")
			}
			if s.Init != nil && !p.lenInit(s.Init) {
				return "", fmt.Errorf("unsupported init statement of the if")
			}
			chain = s
		case *ast.ReturnStmt:
		default:
			return "", fmt.Errorf("unsupported statement %T", st)
		}
	}
	if chain == nil {
		return "", fmt.Errorf("no if chain found")
	}
	if partialField == "" {
		return "", fmt.Errorf("assignment of the partial field not found")
	}
	body, err := p.ifChain(chain)
	if err != nil {
		return "", err
	}
	src := strings.ReplaceAll(strings.ReplaceAll(t.Src(file, fd), "*)", "* )"), "(*", "( *")
	var sb strings.Builder
	sb.WriteString("(* C13: itemBodyLiteral.WithPartial of " + file + ", translated expression by expression.\n")
	sb.WriteString("   int is 64 bit: + and - are wrapped explicitly (wrap64); len(r.literal) is the parameter literalLen.\n")
	sb.WriteString("   PNil = `r.literal = nil`, PSlice lo hi = `r.literal = r.literal[lo:hi]` (panics unless 0 <= lo <= hi <= len),\n")
	sb.WriteString("   PKeep = literal left unchanged (if chain without final else).\n\n")
	sb.WriteString(src + "\n*)\n")
	sb.WriteString("From Coq Require Import ZArith Bool.\nLocal Open Scope Z_scope.\nLocal Open Scope bool_scope.\n\n")
	sb.WriteString("Definition wrap64 (z : Z) : Z := (z + 9223372036854775808) mod 18446744073709551616 - 9223372036854775808.\n\n")
	sb.WriteString("Inductive psel := PNil | PKeep | PSlice (lo hi : Z).\n\n")
	sb.WriteString("Definition with_partial_code (literalLen begin count : Z) : psel :=\n  " + body + ".\n\n")
	sb.WriteString("(* value stored in r.partial (printed as <n> in the response) *)\n")
	sb.WriteString("Definition with_partial_origin (literalLen begin count : Z) : Z := " + partialField + ".\n")
	return sb.String(), nil
}
