package main

import (
	"fmt"
	"os"
	"time"

	"verifharness/imapc"
	"verifharness/srv"
)

func show(c *imapc.Client, cmd string) {
	r, err := c.Cmd(cmd)
	fmt.Printf(">> %s\n", cmd)
	for _, l := range r.Untagged {
		fmt.Printf("   %s\n", l.Text)
		for _, lit := range l.Lits {
			fmt.Printf("   LIT %q\n", lit)
		}
	}
	fmt.Printf("   %s %s (err=%v)\n", r.Status, r.Text, err)
}

func main() {
	if len(os.Args) > 1 {
		loc := time.FixedZone("X", 5*3600)
		time.Local = loc
	}
	s, err := srv.Start(srv.Options{})
	if err != nil {
		panic(err)
	}
	defer s.Stop()
	c, _ := s.Login()
	show(c, "CREATE box")
	app := func(date string, msg string) {
		p := "APPEND box "
		if date != "" {
			p += "\"" + date + "\" "
		}
		r, err := c.CmdParts([]string{p, ""}, [][]byte{[]byte(msg)})
		fmt.Println("append", date, r.Status, r.Text, err)
	}
	app("01-Jan-2024 23:30:00 -0500", "Date: Mon, 01 Jan 2024 23:30:00 -0500\r\nFrom: a@b.c\r\nSubject: one\r\n\r\nbody one\r\n")
	app("02-Jan-2024 01:30:00 +0500", "Date: Tue, 02 Jan 2024 01:30:00 +0500\r\nFrom: a@b.c\r\nSubject: two\r\nX-Tag: alpha\r\nX-Tag: beta\r\n\r\nbody two\r\n")
	app("02-Jan-2024 12:00:00 +0000", "Date: garbage\r\nFrom: a@b.c\r\nSubject: three\r\n fold  ed\r\n\r\nbody three\r\n")
	app("", "Date: Tue, 02 Jan 2024 01:30:00 +0500\r\nFrom: a@b.c\r\nSubject: four\r\n\r\nbody four\r\n")
	show(c, "SELECT box")
	show(c, "FETCH 1:* (UID INTERNALDATE RFC822.SIZE)")
	for _, d := range []string{"31-Dec-2023", "1-Jan-2024", "2-Jan-2024", "3-Jan-2024"} {
		show(c, "SEARCH BEFORE "+d)
		show(c, "SEARCH ON "+d)
		show(c, "SEARCH SINCE "+d)
	}
	show(c, "SEARCH 1:2 SENTBEFORE 2-Jan-2024")
	show(c, "SEARCH 1:2 SENTON 2-Jan-2024")
	show(c, "SEARCH 1:2 SENTSINCE 2-Jan-2024")
	show(c, "SEARCH 1:2 SENTON 1-Jan-2024")
	show(c, "SEARCH SENTBEFORE 2-Jan-2024")
	show(c, "SEARCH OR ALL SENTBEFORE 2-Jan-2024")
	show(c, "SEARCH HEADER X-Tag \"\"")
	show(c, "SEARCH HEADER X-Tag beta")
	show(c, "SEARCH HEADER X-Tag alpha")
	show(c, "SEARCH SUBJECT \"three fold ed\"")
	show(c, "SEARCH SUBJECT \"three fold  ed\"")
	show(c, "SEARCH BODY body")
	show(c, "SEARCH BODY subject")
	show(c, "SEARCH TEXT subject")
	show(c, "SEARCH SMALLER 75 LARGER 70")
	show(c, "SEARCH NOT 1")
	show(c, "SEARCH NOT 9")
	show(c, "SEARCH UID 9")
	show(c, "SEARCH KEYWORD \\Seen")
	show(c, "SEARCH CHARSET UTF-8 SUBJECT one")
	show(c, "SEARCH (ALL)")
	show(c, "SEARCH (1 2) NOT (2)")
	show(c, "SEARCH cc x")
	show(c, "SEARCH cc x all")
}
