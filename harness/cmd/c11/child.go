package main

import (
	"bufio"
	"bytes"
	"crypto/ecdsa"
	"crypto/elliptic"
	"crypto/rand"
	"crypto/tls"
	"crypto/x509"
	"crypto/x509/pkix"
	"fmt"
	"io"
	"math/big"
	"os"
	"os/exec"
	"runtime"
	"strconv"
	"strings"
	"sync"
	"time"

	"github.com/ProtonMail/gluon"

	"verifharness/srv"
)

// childMain is the server process: `harness-C11 -child`. It starts gluon with one user ("user"/"pass", no TLS), prints
// "ADDR host:port" and serves until its stdin is closed. A panic inside gluon kills this process, which the parent
// observes as an exit status.
func childMain() {
	opts := srv.Options{}
	if len(os.Args) > 2 && os.Args[2] == "tls" {
		cfg, err := selfSignedTLS()
		if err != nil {
			fmt.Println("ERR", err)
			os.Exit(2)
		}
		opts.ExtraOptions = append(opts.ExtraOptions, gluon.WithTLS(cfg))
	}
	s, err := srv.Start(opts)
	if err != nil {
		fmt.Println("ERR", err)
		os.Exit(2)
	}
	fmt.Println("ADDR", s.Addr)
	// control channel: "STATS" on stdin is answered with "STATS <goroutines> <command reader goroutines>"
	in := bufio.NewScanner(os.Stdin)
	for in.Scan() {
		if strings.TrimSpace(in.Text()) == "HEAP" { // live heap after a forced collection
			runtime.GC()
			runtime.GC()
			var ms runtime.MemStats
			runtime.ReadMemStats(&ms)
			fmt.Printf("HEAP %d\n", ms.HeapAlloc)
		}
		if strings.TrimSpace(in.Text()) == "STATS" {
			buf := make([]byte, 1<<20)
			for {
				n := runtime.Stack(buf, true)
				if n < len(buf) {
					buf = buf[:n]
					break
				}
				buf = make([]byte, 2*len(buf))
			}
			// one frame "…(*Session).startCommandReader.func1" per live reader goroutine
			fmt.Printf("STATS %d %d\n", runtime.NumGoroutine(), strings.Count(string(buf), ").startCommandReader.func1("))
		}
	}
	os.RemoveAll(s.Dir)
	os.Exit(0)
}

type child struct {
	cmd    *exec.Cmd
	stdin  io.WriteCloser
	addr   string
	stderr *tailBuf
	done   chan struct{}
	lines  chan string // stdout lines of the child after the ADDR line
	err    error
	pid    int
}

type tailBuf struct {
	mu sync.Mutex
	b  []byte
}

func (t *tailBuf) Write(p []byte) (int, error) {
	t.mu.Lock()
	defer t.mu.Unlock()
	t.b = append(t.b, p...)
	if len(t.b) > 16384 {
		t.b = t.b[len(t.b)-16384:]
	}
	return len(p), nil
}
func (t *tailBuf) String() string {
	t.mu.Lock()
	defer t.mu.Unlock()
	return string(t.b)
}

// head of the crash report: the first "panic:" / "fatal error:" line and a few frames
func (t *tailBuf) crashHead() string {
	s := t.String()
	for _, k := range []string{"panic:", "fatal error:"} {
		if i := strings.Index(s, k); i >= 0 {
			s = s[i:]
			break
		}
	}
	if len(s) > 1500 {
		s = s[:1500]
	}
	return s
}

// selfSignedTLS makes a throw-away certificate so that the server advertises and accepts STARTTLS.
func selfSignedTLS() (*tls.Config, error) {
	key, err := ecdsa.GenerateKey(elliptic.P256(), rand.Reader)
	if err != nil {
		return nil, err
	}
	tmpl := &x509.Certificate{SerialNumber: big.NewInt(1), Subject: pkix.Name{CommonName: "localhost"},
		NotBefore: time.Now().Add(-time.Hour), NotAfter: time.Now().Add(24 * time.Hour),
		KeyUsage: x509.KeyUsageDigitalSignature, ExtKeyUsage: []x509.ExtKeyUsage{x509.ExtKeyUsageServerAuth}, DNSNames: []string{"localhost"}}
	der, err := x509.CreateCertificate(rand.Reader, tmpl, tmpl, &key.PublicKey, key)
	if err != nil {
		return nil, err
	}
	return &tls.Config{Certificates: []tls.Certificate{{Certificate: [][]byte{der}, PrivateKey: key}}, MinVersion: tls.VersionTLS12}, nil
}

func startChild(tlsMode bool) (*child, error) {
	c := &child{stderr: &tailBuf{}, done: make(chan struct{}), lines: make(chan string, 16)}
	if tlsMode {
		c.cmd = exec.Command(os.Args[0], "-child", "tls")
	} else {
		c.cmd = exec.Command(os.Args[0], "-child")
	}
	c.cmd.Stderr = c.stderr
	in, err := c.cmd.StdinPipe()
	if err != nil {
		return nil, err
	}
	c.stdin = in
	out, err := c.cmd.StdoutPipe()
	if err != nil {
		return nil, err
	}
	if err := c.cmd.Start(); err != nil {
		return nil, err
	}
	c.pid = c.cmd.Process.Pid
	rd := bufio.NewReader(out)
	line, err := rd.ReadString('\n')
	if err != nil || !strings.HasPrefix(line, "ADDR ") {
		c.cmd.Process.Kill()
		return nil, fmt.Errorf("child did not start: %q %v %s", line, err, c.stderr.String())
	}
	c.addr = strings.TrimSpace(line[5:])
	go func() {
		for {
			l, err := rd.ReadString('\n')
			if l != "" {
				select {
				case c.lines <- strings.TrimSpace(l):
				default:
				}
			}
			if err != nil {
				break
			}
		}
		c.err = c.cmd.Wait()
		close(c.done)
	}()
	return c, nil
}

// stats asks the child for its goroutine count and the number of live command reader goroutines (-1, -1: no answer).
func (c *child) stats() (int, int) {
	for len(c.lines) > 0 {
		<-c.lines
	}
	if _, err := io.WriteString(c.stdin, "STATS\n"); err != nil {
		return -1, -1
	}
	select {
	case l := <-c.lines:
		var g, r int
		if n, _ := fmt.Sscanf(l, "STATS %d %d", &g, &r); n == 2 {
			return g, r
		}
	case <-c.done:
	case <-time.After(20 * time.Second):
	}
	return -1, -1
}

// heap asks the child for its live heap in bytes after a forced GC (-1: no answer).
func (c *child) heap() int64 {
	for len(c.lines) > 0 {
		<-c.lines
	}
	if _, err := io.WriteString(c.stdin, "HEAP\n"); err != nil {
		return -1
	}
	select {
	case l := <-c.lines:
		var h int64
		if n, _ := fmt.Sscanf(l, "HEAP %d", &h); n == 1 {
			return h
		}
	case <-c.done:
	case <-time.After(30 * time.Second):
	}
	return -1
}

// readersSettle polls until at most `want` reader goroutines are alive (they end a moment after their connection) or
// the patience is exhausted; returns the last count.
func (c *child) readersSettle(want int, patience time.Duration) int {
	deadline := time.Now().Add(patience)
	for {
		_, r := c.stats()
		if r < 0 || r <= want || time.Now().After(deadline) {
			return r
		}
		time.Sleep(50 * time.Millisecond)
	}
}

func (c *child) alive() bool {
	select {
	case <-c.done:
		return false
	default:
		return true
	}
}

// waitDead waits a little for the exit of a crashing process to become visible.
func (c *child) waitDead(d time.Duration) bool {
	select {
	case <-c.done:
		return true
	case <-time.After(d):
		return false
	}
}

func (c *child) stop() {
	c.stdin.Close()
	select {
	case <-c.done:
	case <-time.After(10 * time.Second):
		c.cmd.Process.Kill()
		<-c.done
	}
}

func (c *child) kill() {
	c.cmd.Process.Kill()
	<-c.done
}

// cpuTicks returns utime+stime of the child in clock ticks (100 per second on Linux).
func (c *child) cpuTicks() int64 {
	b, err := os.ReadFile(fmt.Sprintf("/proc/%d/stat", c.pid))
	if err != nil {
		return -1
	}
	// fields after the ")" that ends comm
	i := bytes.LastIndexByte(b, ')')
	if i < 0 {
		return -1
	}
	f := strings.Fields(string(b[i+1:]))
	if len(f) < 14 {
		return -1
	}
	u, _ := strconv.ParseInt(f[11], 10, 64)
	s, _ := strconv.ParseInt(f[12], 10, 64)
	return u + s
}

// rssKiB returns VmRSS of the child.
func (c *child) rssKiB() int64 {
	b, err := os.ReadFile(fmt.Sprintf("/proc/%d/status", c.pid))
	if err != nil {
		return -1
	}
	for _, l := range strings.Split(string(b), "\n") {
		if strings.HasPrefix(l, "VmRSS:") {
			f := strings.Fields(l)
			if len(f) >= 2 {
				v, _ := strconv.ParseInt(f[1], 10, 64)
				return v
			}
		}
	}
	return -1
}

// busy reports whether the child burns CPU while nobody talks to it: more than 70 % of one core over the window.
func (c *child) busy(window time.Duration) bool {
	t0 := c.cpuTicks()
	w0 := time.Now()
	time.Sleep(window)
	t1 := c.cpuTicks()
	el := time.Since(w0).Seconds()
	if t0 < 0 || t1 < 0 {
		return false
	}
	return float64(t1-t0)/100.0 > 0.7*el
}
