(* Lemmas about the crash / failure model (C07). *)
From Coq Require Import List NArith Bool Lia PeanoNat.
From Gluon Require Import Model.CrashSteps.
Import ListNotations.
Open Scope N_scope.

(* ---------- invariants of a committed database ---------- *)
(* foreign key: every mailbox row refers to a message row *)
Definition cs_fk (d : cs_db) : Prop := forall r, In r (db_rows d) -> cs_has_msg d (row_msg r) = true.
(* a message marked for deletion is in no mailbox (what applyMessageDeleted / applyMessageUpdated establish) *)
Definition cs_marked_unlisted (d : cs_db) : Prop := forall id, cs_marked d id = true -> cs_listed d id = false.

(* ---------- the steps an operation may contain, relative to the committed database ---------- *)
(* store writes/deletes only touch ids that are in no mailbox; every commit installs a database satisfying the FK *)
Fixpoint cs_safe (m : cs_m) (l : list cs_step) : Prop :=
  match l with
  | [] => True
  | st :: t =>
      match st with
      | SSet id _ | SDel id => cs_listed (m_db m) id = false
      | SCommit => match m_pend m with Some p => cs_fk p | None => True end
      | _ => True
      end /\ cs_safe (cs_exec m st) t
  end.

(* number of commits that install something different: the transaction contained a statement on the modelled tables *)
Fixpoint cs_commits (dirty : bool) (l : list cs_step) : nat :=
  match l with
  | [] => 0
  | SBegin :: t => cs_commits false t
  | SStmt StNeutral :: t => cs_commits dirty t
  | SStmt _ :: t => cs_commits true t
  | SCommit :: t => ((if dirty then 1 else 0) + cs_commits false t)%nat
  | _ :: t => cs_commits dirty t
  end.

Definition cs_inv (dirty : bool) (m : cs_m) : Prop :=
  dirty = false -> m_pend m = None \/ m_pend m = Some (m_db m).

(* ---------- basic facts ---------- *)
Lemma run_app : forall a b m, cs_run (a ++ b) m = cs_run b (cs_run a m).
Proof. intros. unfold cs_run. apply fold_left_app. Qed.

Lemma run_cons : forall st t m, cs_run (st :: t) m = cs_run t (cs_exec m st).
Proof. reflexivity. Qed.

Lemma safe_app : forall a b m, cs_safe m (a ++ b) <-> cs_safe m a /\ cs_safe (cs_run a m) b.
Proof.
  induction a as [|st t IH]; intros b m.
  - cbn [app cs_safe cs_run fold_left]. tauto.
  - cbn [app cs_safe]. rewrite run_cons. rewrite IH. tauto.
Qed.

Section WithView.
  Variable remote : N -> option cs_bytes.
  Variable recovered : N -> bool.
  Notation view := (cs_view remote recovered).

  Lemma store_get_del_other : forall s id x, x <> id -> cs_store_get (cs_store_del s id) x = cs_store_get s x.
  Proof.
    intros s id x Hne. unfold cs_store_get, cs_store_del. induction s as [|p t IH]; [reflexivity|].
    cbn [filter]. destruct (fst p =? id) eqn:E; cbn [negb].
    - cbn [find]. apply N.eqb_eq in E. destruct (fst p =? x) eqn:E2; [apply N.eqb_eq in E2; congruence|exact IH].
    - cbn [find]. destruct (fst p =? x); [reflexivity|exact IH].
  Qed.

  Lemma listed_in : forall d r, In r (db_rows d) -> cs_listed d (row_msg r) = true.
  Proof. intros d r H. unfold cs_listed. apply existsb_exists. exists r. split; [exact H|apply N.eqb_refl]. Qed.

  (* the view only reads the store at listed ids *)
  Lemma view_store_ext : forall s1 s2 d p1 p2,
    (forall id, cs_listed d id = true -> cs_store_get s1 id = cs_store_get s2 id) ->
    view (mkM s1 d p1) = view (mkM s2 d p2).
  Proof.
    intros s1 s2 d p1 p2 H. unfold cs_view. cbn [m_db m_store]. f_equal.
    apply map_ext_in. intros r Hr. unfold cs_fetch. cbn [m_store]. rewrite (H _ (listed_in d r Hr)). reflexivity.
  Qed.

  Lemma view_step_same : forall m st, cs_safe m [st] ->
    (match st with SCommit => m_pend m = None \/ m_pend m = Some (m_db m) | _ => True end) ->
    view (cs_exec m st) = view m /\ m_db (cs_exec m st) = m_db m.
  Proof.
    intros m st [Hs _] Hc. destruct m as [s d p]. destruct st; cbn [cs_exec m_store m_db m_pend] in *; try (split; reflexivity).
    - destruct Hc as [Hc|Hc]; subst p; split; reflexivity.
    - split; [|reflexivity]. apply view_store_ext. intros x Hx. unfold cs_store_get at 1. cbn [find fst].
      destruct (id =? x) eqn:E; [apply N.eqb_eq in E; subst; congruence|].
      apply N.eqb_neq in E. fold (cs_store_get (cs_store_del s id) x). apply store_get_del_other. congruence.
    - split; [|reflexivity]. apply view_store_ext. intros x Hx. apply store_get_del_other. intros Heq. subst. congruence.
  Qed.

  Lemma inv_step : forall d m st, cs_inv d m ->
    cs_inv (match st with SBegin => false | SCommit => false | SStmt StNeutral => d | SStmt _ => true | _ => d end) (cs_exec m st).
  Proof.
    intros d m st Hi. destruct m as [s db p]. unfold cs_inv in *. cbn [m_pend m_db] in *.
    destruct st; cbn [cs_exec m_pend m_db m_store]; try exact Hi.
    - intros _. right. reflexivity.
    - destruct st; try (intros H; discriminate). intros H. destruct (Hi H) as [H1|H1]; subst p; cbn [option_map cs_run_stmt]; auto.
    - intros _. destruct p; cbn [m_pend]; auto.
  Qed.

  (* no installing commit left: nothing a client can see changes, at any prefix *)
  Lemma quiet_steps : forall l m d k, cs_safe m l -> cs_inv d m -> cs_commits d l = 0%nat ->
    view (cs_run (firstn k l) m) = view m /\ m_db (cs_run (firstn k l) m) = m_db m.
  Proof.
    induction l as [|st t IH]; intros m d k Hs Hi Hc.
    - rewrite firstn_nil. auto.
    - destruct k as [|k]; [auto|]. cbn [firstn]. rewrite run_cons. destruct Hs as [Hs1 Hs2].
      assert (Hst : view (cs_exec m st) = view m /\ m_db (cs_exec m st) = m_db m).
      { apply view_step_same; [split; [exact Hs1|exact I]|]. destruct st; try exact I.
        cbn [cs_commits] in Hc. destruct d; [cbn in Hc; lia|]. apply Hi. reflexivity. }
      destruct Hst as [Hv Hd].
      pose proof (inv_step d m st Hi) as Hi'.
      assert (Hc' : cs_commits (match st with SBegin => false | SCommit => false | SStmt StNeutral => d | SStmt _ => true | _ => d end) t = 0%nat).
      { destruct st; cbn [cs_commits] in Hc; try exact Hc. destruct st; exact Hc. lia. }
      destruct (IH (cs_exec m st) _ k Hs2 Hi' Hc') as [H1 H2]. rewrite H1, H2. auto.
  Qed.

  Lemma firstn_all_run : forall l m, cs_run (firstn (length l) l) m = cs_run l m.
  Proof. intros. rewrite firstn_all. reflexivity. Qed.

  (* at most one installing commit: every prefix shows the view before or the view after the whole list *)
  Lemma prefix_views : forall l m d k, cs_safe m l -> cs_inv d m -> (cs_commits d l <= 1)%nat ->
    view (cs_run (firstn k l) m) = view m \/ view (cs_run (firstn k l) m) = view (cs_run l m).
  Proof.
    induction l as [|st t IH]; intros m d k Hs Hi Hc.
    - rewrite firstn_nil. left. reflexivity.
    - destruct k as [|k]; [left; reflexivity|]. cbn [firstn]. rewrite !run_cons. destruct Hs as [Hs1 Hs2].
      pose proof (inv_step d m st Hi) as Hi'.
      destruct (match st with SCommit => d | _ => false end) eqn:Ed.
      + (* the installing commit *)
        destruct st; try discriminate. subst d. cbn [cs_commits] in Hc.
        assert (Hz : cs_commits false t = 0%nat) by lia.
        right. destruct (quiet_steps t (cs_exec m SCommit) false k Hs2 Hi' Hz) as [H1 _].
        destruct (quiet_steps t (cs_exec m SCommit) false (length t) Hs2 Hi' Hz) as [H2 _].
        rewrite firstn_all_run in H2. rewrite H1, H2. reflexivity.
      + assert (Hst : view (cs_exec m st) = view m).
        { apply view_step_same; [split; [exact Hs1|exact I]|]. destruct st; try exact I. subst d. apply Hi. reflexivity. }
        assert (Hc' : (cs_commits (match st with SBegin => false | SCommit => false | SStmt StNeutral => d | SStmt _ => true | _ => d end) t <= 1)%nat).
        { destruct st; cbn [cs_commits] in Hc; try exact Hc. destruct st; exact Hc. lia. }
        destruct (IH (cs_exec m st) _ k Hs2 Hi' Hc') as [H|H]; [left; congruence|right; exact H].
  Qed.

  (* the committed database satisfies the FK at every prefix *)
  Lemma prefix_fk : forall l m k, cs_safe m l -> cs_fk (m_db m) -> cs_fk (m_db (cs_run (firstn k l) m)).
  Proof.
    induction l as [|st t IH]; intros m k Hs Hf.
    - rewrite firstn_nil. exact Hf.
    - destruct k as [|k]; [exact Hf|]. cbn [firstn]. rewrite run_cons. destruct Hs as [Hs1 Hs2].
      apply IH; [exact Hs2|]. destruct m as [s d p]. destruct st; cbn [cs_exec m_db m_pend] in *; try exact Hf.
      destruct p; cbn [m_db]; assumption.
  Qed.

  (* ---------- start-up clean-up ---------- *)
  Lemma purge_fold_rows : forall ids d, db_rows (fold_left (fun x id => cs_run_stmt (StDeleteMsg id) x) ids d) = db_rows d
    /\ db_mbs (fold_left (fun x id => cs_run_stmt (StDeleteMsg id) x) ids d) = db_mbs d.
  Proof. induction ids as [|a t IH]; intros d; [auto|]. cbn [fold_left]. destruct (IH (cs_run_stmt (StDeleteMsg a) d)) as [H1 H2]. rewrite H1, H2. auto. Qed.

  Lemma purge_fold_has : forall ids d x, cs_has_msg (fold_left (fun x id => cs_run_stmt (StDeleteMsg id) x) ids d) x
    = cs_has_msg d x && negb (existsb (N.eqb x) ids).
  Proof.
    induction ids as [|a t IH]; intros d x.
    - cbn [fold_left existsb negb]. rewrite andb_true_r. reflexivity.
    - cbn [fold_left existsb]. rewrite IH. unfold cs_has_msg at 1. cbn [cs_run_stmt db_msgs].
      assert (H : existsb (fun p => fst p =? x) (filter (fun p => negb (fst p =? a)) (db_msgs d)) = cs_has_msg d x && negb (x =? a)).
      { unfold cs_has_msg. induction (db_msgs d) as [|p l IHl]; [reflexivity|]. cbn [filter existsb].
        destruct (fst p =? a) eqn:E; cbn [negb].
        - rewrite IHl. apply N.eqb_eq in E. destruct (fst p =? x) eqn:E2; cbn [orb]; [|reflexivity].
          apply N.eqb_eq in E2. subst. rewrite N.eqb_refl. cbn [negb]. rewrite andb_false_r. reflexivity.
        - cbn [existsb]. rewrite IHl. destruct (fst p =? x) eqn:E2; cbn [orb]; [|reflexivity].
          apply N.eqb_eq in E2. subst. rewrite E. reflexivity. }
      rewrite H. destruct (cs_has_msg d x), (x =? a), (existsb (N.eqb x) t); reflexivity.
  Qed.

  Lemma purge_fold_flags : forall ids d x, existsb (N.eqb x) ids = false ->
    cs_flags_of (fold_left (fun x id => cs_run_stmt (StDeleteMsg id) x) ids d) x = cs_flags_of d x.
  Proof.
    induction ids as [|a t IH]; intros d x Hx; [reflexivity|].
    cbn [fold_left]. cbn [existsb] in Hx. apply orb_false_iff in Hx. destruct Hx as [Hx1 Hx2]. rewrite IH; [|exact Hx2].
    unfold cs_flags_of. cbn [cs_run_stmt db_flags]. f_equal.
    induction (db_flags d) as [|p l IHl]; [reflexivity|]. cbn [filter find].
    destruct (fst p =? a) eqn:E; cbn [negb].
    - apply N.eqb_eq in E. destruct (fst p =? x) eqn:E2; [|exact IHl]. apply N.eqb_eq in E2.
      assert (Hxa : x = a) by congruence. apply N.eqb_neq in Hx1. contradiction.
    - cbn [find]. destruct (fst p =? x); [reflexivity|exact IHl].
  Qed.

  Lemma marked_ids_spec : forall d x, existsb (N.eqb x) (cs_marked_ids d) = cs_marked d x.
  Proof.
    intros d x. unfold cs_marked_ids, cs_marked. induction (db_msgs d) as [|p l IH]; [reflexivity|].
    cbn [filter existsb]. destruct p as [i b]. cbn [snd fst]. destruct b; cbn [map existsb fst andb].
    - rewrite IH. rewrite (N.eqb_sym x i). rewrite andb_true_r. reflexivity.
    - rewrite IH. rewrite andb_false_r. reflexivity.
  Qed.

  Lemma sweep_get : forall s d id, cs_has_msg d id = true -> cs_store_get (cs_sweep s d) id = cs_store_get s id.
  Proof.
    intros s d id H. unfold cs_store_get, cs_sweep. induction s as [|p t IH]; [reflexivity|].
    cbn [filter find]. destruct (fst p =? id) eqn:E.
    - pose proof (proj1 (N.eqb_eq _ _) E) as E'. rewrite E', H. cbn [find]. rewrite E', N.eqb_refl. reflexivity.
    - destruct (cs_has_msg d (fst p)); [cbn [find]; rewrite E|]; exact IH.
  Qed.

  Lemma del_seq_get : forall ids s x, existsb (N.eqb x) ids = false -> cs_store_get (cs_del_seq s ids) x = cs_store_get s x.
  Proof.
    induction ids as [|a t IH]; intros s x Hx; [reflexivity|].
    cbn [existsb] in Hx. apply orb_false_iff in Hx. destruct Hx as [Hx1 Hx2]. cbn [cs_del_seq].
    destruct (cs_store_get s a); [|reflexivity]. rewrite IH; [|exact Hx2]. apply store_get_del_other.
    intros Heq. subst. rewrite N.eqb_refl in Hx1. discriminate.
  Qed.

  (* clean restart is the identity on what a client can see *)
  Lemma recover_view : forall m, cs_fk (m_db m) -> view (cs_recover m) = view m.
  Proof.
    intros [s d p] Hfk. unfold cs_recover, cs_recover_ord, cs_purge_db. cbn [m_db m_store].
    destruct (existsb (cs_listed d) (cs_marked_ids d)) eqn:El.
    - cbn [cs_del_seq]. apply view_store_ext. intros id Hid. apply sweep_get.
      unfold cs_listed in Hid. apply existsb_exists in Hid. destruct Hid as [r [Hr He]]. apply N.eqb_eq in He. subst id. apply Hfk. exact Hr.
    - set (ids := cs_marked_ids d). set (d1 := fold_left (fun x id => cs_run_stmt (StDeleteMsg id) x) ids d).
      assert (Hnl : forall id, cs_listed d id = true -> existsb (N.eqb id) ids = false).
      { intros id Hid. destruct (existsb (N.eqb id) ids) eqn:E; [|reflexivity].
        apply existsb_exists in E. destruct E as [y [Hy He]]. apply N.eqb_eq in He. subst y.
        assert (Hex : existsb (cs_listed d) ids = true) by (apply existsb_exists; exists id; auto).
        unfold ids in Hex. rewrite El in Hex. discriminate. }
      destruct (purge_fold_rows ids d) as [Hrows Hmbs]. fold d1 in Hrows, Hmbs.
      unfold cs_view. cbn [m_db m_store]. f_equal.
      + unfold cs_dbview. rewrite Hrows, Hmbs. f_equal. apply map_ext_in. intros r Hr. f_equal.
        apply purge_fold_flags. apply Hnl. apply listed_in. exact Hr.
      + rewrite Hrows. apply map_ext_in. intros r Hr. unfold cs_fetch. cbn [m_store].
        pose proof (listed_in d r Hr) as Hl.
        rewrite sweep_get.
        * rewrite del_seq_get; [reflexivity|apply Hnl; exact Hl].
        * unfold d1. rewrite purge_fold_has. cbn [m_db] in Hfk. rewrite (Hfk r Hr), (Hnl _ Hl). reflexivity.
  Qed.

  (* no left-overs: after the clean-up every cache file belongs to a message row, and (when no marked message is listed)
     no message is marked for deletion any more *)
  Lemma recover_no_orphans : forall m p, In p (m_store (cs_recover m)) -> cs_has_msg (m_db (cs_recover m)) (fst p) = true.
  Proof.
    intros [s d pp] p. unfold cs_recover, cs_recover_ord. cbn [m_db m_store]. destruct (cs_purge_db d) as [d1 ids]. cbn [m_store m_db].
    unfold cs_sweep. intros H. apply filter_In in H. tauto.
  Qed.

  Lemma recover_no_marked : forall m id, cs_marked_unlisted (m_db m) -> cs_marked (m_db (cs_recover m)) id = false.
  Proof.
    intros [s d pp] id Hmu. unfold cs_recover, cs_recover_ord, cs_purge_db. cbn [m_db] in *.
    assert (El : existsb (cs_listed d) (cs_marked_ids d) = false).
    { destruct (existsb (cs_listed d) (cs_marked_ids d)) eqn:E; [|reflexivity].
      apply existsb_exists in E. destruct E as [y [Hy He]].
      assert (Hm : cs_marked d y = true).
      { rewrite <- marked_ids_spec. apply existsb_exists. exists y. split; [exact Hy|apply N.eqb_refl]. }
      rewrite (Hmu y Hm) in He. discriminate. }
    rewrite El. cbn [m_db].
    destruct (cs_marked (fold_left (fun x id0 => cs_run_stmt (StDeleteMsg id0) x) (cs_marked_ids d) d) id) eqn:E; [|reflexivity].
    assert (Hh : cs_has_msg (fold_left (fun x id0 => cs_run_stmt (StDeleteMsg id0) x) (cs_marked_ids d) d) id = true).
    { unfold cs_marked in E. unfold cs_has_msg. apply existsb_exists in E. destruct E as [q [Hq He]]. apply existsb_exists.
      exists q. split; [exact Hq|]. apply andb_true_iff in He. tauto. }
    rewrite purge_fold_has in Hh. apply andb_true_iff in Hh. destruct Hh as [_ Hh]. rewrite marked_ids_spec in Hh.
    (* id is still marked in the purged database, hence was marked before *)
    assert (Hm : cs_marked d id = true).
    { clear Hh El. revert E. generalize (cs_marked_ids d). intros ids. revert d Hmu. induction ids as [|a t IH]; intros d Hmu E; [exact E|].
      cbn [fold_left] in E.
      assert (Hsub : forall x, cs_marked (cs_run_stmt (StDeleteMsg a) d) x = true -> cs_marked d x = true).
      { intros x Hx. unfold cs_marked in *. cbn [cs_run_stmt db_msgs] in Hx. apply existsb_exists in Hx. destruct Hx as [q [Hq He]].
        apply filter_In in Hq. apply existsb_exists. exists q. tauto. }
      apply Hsub. apply IH; [|exact E].
      intros x Hx. specialize (Hmu x (Hsub x Hx)). unfold cs_listed in *. cbn [cs_run_stmt db_rows]. exact Hmu. }
    rewrite Hm in Hh. discriminate.
  Qed.

  (* ---------- the general atomicity statement ---------- *)
  Theorem crash_atomic_general : forall l m k, cs_safe m l -> cs_fk (m_db m) -> m_pend m = None -> (cs_commits false l <= 1)%nat ->
    view (cs_recover (cs_crash_after k l m)) = view m \/ view (cs_recover (cs_crash_after k l m)) = view (cs_run l m).
  Proof.
    intros l m k Hs Hf Hp Hc. unfold cs_crash_after.
    assert (Hfk : cs_fk (m_db (cs_crash (cs_run (firstn k l) m)))) by (cbn [cs_crash m_db]; apply prefix_fk; assumption).
    rewrite (recover_view _ Hfk).
    assert (Hv : view (cs_crash (cs_run (firstn k l) m)) = view (cs_run (firstn k l) m)) by reflexivity.
    rewrite Hv. apply (prefix_views l m false k Hs); [|exact Hc]. intros _. left. exact Hp.
  Qed.

  (* a failing step: the transaction is rolled back, the operation's clean-up (deletes of files that are in no
     mailbox) runs; what a client sees is the view before or after — without any restart *)
  Theorem fail_atomic_general : forall l cleanup m k, cs_safe m l -> cs_fk (m_db m) -> m_pend m = None -> (cs_commits false l <= 1)%nat ->
    (forall st, In st cleanup -> exists id, st = SDel id /\ cs_listed (m_db (cs_run (firstn k l) m)) id = false) ->
    view (cs_fail_at k l cleanup m) = view m \/ view (cs_fail_at k l cleanup m) = view (cs_run l m).
  Proof.
    intros l cleanup m k Hs Hf Hp Hc Hcl. unfold cs_fail_at.
    assert (Hq : forall c x, (forall st, In st c -> exists id, st = SDel id /\ cs_listed (m_db x) id = false) ->
                 view (cs_run c x) = view x /\ m_db (cs_run c x) = m_db x).
    { induction c as [|st t IH]; intros x H; [auto|]. rewrite run_cons.
      destruct (H st (or_introl eq_refl)) as [id [E1 E2]]. subst st.
      destruct (view_step_same x (SDel id)) as [H1 H2]; [split; [exact E2|exact I]|exact I|].
      destruct (IH (cs_exec x (SDel id))) as [H3 H4].
      - intros st Hst. destruct (H st (or_intror Hst)) as [id' [E3 E4]]. exists id'. rewrite H2. auto.
      - rewrite H3, H4. auto. }
    destruct (Hq cleanup (cs_crash (cs_run (firstn k l) m)) Hcl) as [H1 _]. rewrite H1.
    assert (Hv : view (cs_crash (cs_run (firstn k l) m)) = view (cs_run (firstn k l) m)) by reflexivity.
    rewrite Hv. apply (prefix_views l m false k Hs); [|exact Hc]. intros _. left. exact Hp.
  Qed.
End WithView.

(* ================= per-operation discharge ================= *)

Definition body_step_ok (d : cs_db) (st : cs_step) : Prop :=
  match st with SBegin | SCommit => False | SSet id _ | SDel id => cs_listed d id = false | _ => True end.

Fixpoint stmts_of (l : list cs_step) : list cs_stmt :=
  match l with [] => [] | SStmt q :: t => q :: stmts_of t | _ :: t => stmts_of t end.

Definition apply_stmts (qs : list cs_stmt) (d : cs_db) : cs_db := fold_left (fun x q => cs_run_stmt q x) qs d.

Lemma stmts_of_app : forall a b, stmts_of (a ++ b) = stmts_of a ++ stmts_of b.
Proof. induction a as [|st t IH]; intros b; [reflexivity|]. destruct st; cbn [app stmts_of]; rewrite ?IH; reflexivity. Qed.

Lemma stmts_of_map : forall {A} (f : A -> cs_stmt) l, stmts_of (map (fun x => SStmt (f x)) l) = map f l.
Proof. intros A f l. induction l as [|a t IH]; [reflexivity|]. cbn [map stmts_of]. rewrite IH. reflexivity. Qed.

Lemma apply_stmts_app : forall a b d, apply_stmts (a ++ b) d = apply_stmts b (apply_stmts a d).
Proof. intros. unfold apply_stmts. apply fold_left_app. Qed.

Lemma body_run : forall l m, Forall (body_step_ok (m_db m)) l ->
  m_db (cs_run l m) = m_db m /\ m_pend (cs_run l m) = option_map (apply_stmts (stmts_of l)) (m_pend m) /\ cs_safe m l.
Proof.
  induction l as [|st t IH]; intros m H.
  - cbn [cs_run fold_left stmts_of apply_stmts cs_safe]. destruct (m_pend m); auto.
  - inversion H as [|x y Hst Ht]; subst. rewrite run_cons.
    assert (Hd : m_db (cs_exec m st) = m_db m) by (destruct st; try reflexivity; cbn [body_step_ok] in Hst; contradiction).
    destruct (IH (cs_exec m st)) as [H1 [H2 H3]]; [rewrite Hd; exact Ht|].
    rewrite H1, H2, Hd. split; [reflexivity|]. split.
    + destruct m as [s d p]. destruct st; cbn [cs_exec m_pend stmts_of]; try reflexivity; try (cbn [body_step_ok] in Hst; contradiction).
      destruct p; reflexivity.
    + cbn [cs_safe]. split; [|exact H3]. destruct st; try exact I; try exact Hst; cbn [body_step_ok] in Hst; contradiction.
Qed.

Lemma exec_begin : forall x, m_db (cs_exec x SBegin) = m_db x /\ m_pend (cs_exec x SBegin) = Some (m_db x).
Proof. intros [s d p]. split; reflexivity. Qed.

Lemma block_safe : forall pre body tail m, m_pend m = None ->
  Forall (body_step_ok (m_db m)) pre -> Forall (body_step_ok (m_db m)) body ->
  cs_fk (apply_stmts (stmts_of body) (m_db m)) ->
  (forall m', m_db m' = apply_stmts (stmts_of body) (m_db m) -> m_pend m' = None -> cs_safe m' tail) ->
  cs_safe m (pre ++ [SBegin] ++ body ++ [SCommit] ++ tail).
Proof.
  intros pre body tail m Hp Hpre Hbody Hfk Htail.
  destruct (body_run pre m Hpre) as [P1 [P2 P3]]. rewrite Hp in P2. cbn [option_map] in P2.
  apply safe_app. split; [exact P3|].
  cbn [app cs_safe]. split; [exact I|].
  destruct (exec_begin (cs_run pre m)) as [D2 Q2]. rewrite P1 in D2, Q2.
  assert (Hbody2 : Forall (body_step_ok (m_db (cs_exec (cs_run pre m) SBegin))) body) by (rewrite D2; exact Hbody).
  destruct (body_run body _ Hbody2) as [B1 [B2 B3]]. rewrite Q2 in B2. cbn [option_map] in B2.
  apply safe_app. split; [exact B3|].
  cbn [cs_safe]. rewrite B2. split; [exact Hfk|].
  generalize B2. generalize (cs_run body (cs_exec (cs_run pre m) SBegin)). intros [s3 d3 p3] E. cbn [m_pend] in E. subst p3.
  apply Htail; reflexivity.
Qed.

Lemma broadcast_safe : forall m, cs_fk (m_db m) -> cs_safe m cs_broadcast.
Proof. intros [s d p] H. cbn. auto. Qed.

Lemma dels_safe : forall ids m, (forall id, In id ids -> cs_listed (m_db m) id = false) -> cs_safe m (map SDel ids).
Proof.
  induction ids as [|a t IH]; intros m H; [exact I|]. cbn [map cs_safe]. split; [apply H; left; reflexivity|].
  apply IH. intros id Hid. destruct m as [s d p]. cbn [cs_exec m_db] in *. apply H. right. exact Hid.
Qed.

(* ---- counting installing commits ---- *)
Lemma commits_le_true : forall l b, (cs_commits b l <= cs_commits true l)%nat.
Proof.
  induction l as [|st t IH]; intros b; [cbn; lia|].
  destruct st; cbn [cs_commits]; try apply IH; try lia.
  - destruct st; try lia; apply IH.
  - destruct b; lia.
Qed.

Lemma commits_body : forall d l rest b, Forall (body_step_ok d) l -> (cs_commits b (l ++ rest) <= cs_commits true rest)%nat.
Proof.
  induction l as [|st t IH]; intros rest b H; [apply commits_le_true|].
  inversion H as [|x y Hst Ht]; subst. destruct st; cbn [app cs_commits]; try (apply IH; exact Ht); try (cbn [body_step_ok] in Hst; contradiction).
  destruct st; apply IH; exact Ht.
Qed.

Lemma commits_block : forall d pre body tail, Forall (body_step_ok d) pre -> Forall (body_step_ok d) body ->
  (cs_commits false (pre ++ [SBegin] ++ body ++ [SCommit] ++ tail) <= 1 + cs_commits false tail)%nat.
Proof.
  intros d pre body tail Hp Hb. eapply Nat.le_trans; [apply (commits_body d pre _ false Hp)|].
  cbn [app cs_commits]. eapply Nat.le_trans; [apply (commits_body d body _ false Hb)|]. cbn [cs_commits]. lia.
Qed.

Lemma commits_dels : forall ids b, cs_commits b (map SDel ids) = 0%nat.
Proof. induction ids as [|a t IH]; intros b; [reflexivity|]. cbn [map cs_commits]. apply IH. Qed.

Lemma commits_dels2 : forall l x b, cs_commits b (map SDel l ++ [SList; SRead] ++ map SDel x) = 0%nat.
Proof. induction l as [|a t IH]; intros x b; [cbn [map app cs_commits]; apply commits_dels|]. cbn [map app cs_commits]. apply IH. Qed.

(* ---- statements and the foreign key ---- *)
Definition stmt_ok (d : cs_db) (q : cs_stmt) : Prop :=
  match q with
  | StInsertRow _ _ id => cs_has_msg d id = true
  | StDeleteMsg id => cs_listed d id = false
  | _ => True
  end.

Fixpoint stmts_ok (d : cs_db) (qs : list cs_stmt) : Prop :=
  match qs with [] => True | q :: t => stmt_ok d q /\ stmts_ok (cs_run_stmt q d) t end.

Lemma has_msg_map : forall (f : N * bool -> N * bool) l x, (forall p, fst (f p) = fst p) ->
  existsb (fun p => fst p =? x) (map f l) = existsb (fun p => fst p =? x) l.
Proof. intros f l x H. induction l as [|a t IH]; [reflexivity|]. cbn [map existsb]. rewrite H, IH. reflexivity. Qed.

Lemma fk_stmt : forall d q, cs_fk d -> stmt_ok d q -> cs_fk (cs_run_stmt q d).
Proof.
  intros d q Hf Hq. unfold cs_fk in *. destruct q; cbn [cs_run_stmt db_rows stmt_ok] in *; intros r Hr.
  - unfold cs_has_msg. cbn [db_msgs]. rewrite existsb_app. specialize (Hf r Hr). unfold cs_has_msg in Hf. rewrite Hf. reflexivity.
  - apply in_app_or in Hr. unfold cs_has_msg. cbn [db_msgs]. destruct Hr as [Hr|[Hr|[]]]; [apply Hf; exact Hr|]. subst r. exact Hq.
  - apply filter_In in Hr. apply Hf. tauto.
  - unfold cs_has_msg. cbn [db_msgs]. rewrite has_msg_map; [apply Hf; exact Hr|]. intros p. destruct (fst p =? id); reflexivity.
  - unfold cs_has_msg. cbn [db_msgs]. specialize (Hf r Hr). unfold cs_has_msg in Hf. apply existsb_exists in Hf. destruct Hf as [p [Hp He]].
    apply existsb_exists. exists p. split; [|exact He]. apply filter_In. split; [exact Hp|].
    apply negb_true_iff. apply N.eqb_neq. intros Heq. apply N.eqb_eq in He.
    assert (Hl : cs_listed d id = true) by (rewrite <- Heq, He; apply (listed_in d r Hr)). congruence.
  - apply Hf. exact Hr.
  - apply filter_In in Hr. apply Hf. tauto.
  - apply Hf. exact Hr.
  - apply Hf. exact Hr.
  - apply Hf. exact Hr.
Qed.

Lemma fk_stmts : forall qs d, cs_fk d -> stmts_ok d qs -> cs_fk (apply_stmts qs d).
Proof.
  induction qs as [|q t IH]; intros d Hf Hs; [exact Hf|]. destruct Hs as [H1 H2]. unfold apply_stmts. cbn [fold_left].
  apply IH; [apply fk_stmt; assumption|exact H2].
Qed.

Lemma stmts_ok_app : forall a b d, stmts_ok d (a ++ b) <-> stmts_ok d a /\ stmts_ok (apply_stmts a d) b.
Proof.
  induction a as [|q t IH]; intros b d; [cbn; tauto|]. cbn [app stmts_ok]. unfold apply_stmts. cbn [fold_left]. rewrite IH. unfold apply_stmts. tauto.
Qed.

Definition free_stmt (q : cs_stmt) : Prop := match q with StInsertRow _ _ _ | StDeleteMsg _ => False | _ => True end.
Definition keeps_msgs (q : cs_stmt) : Prop := match q with StDeleteMsg _ => False | _ => True end.

Lemma free_ok : forall qs d, Forall free_stmt qs -> stmts_ok d qs.
Proof.
  induction qs as [|q t IH]; intros d H; [exact I|]. inversion H; subst. cbn [stmts_ok]. split; [destruct q; try exact I; contradiction|apply IH; assumption].
Qed.

Lemma has_msg_keep : forall q d x, keeps_msgs q -> cs_has_msg d x = true -> cs_has_msg (cs_run_stmt q d) x = true.
Proof.
  intros q d x Hk H. unfold cs_has_msg in *. destruct q; cbn [cs_run_stmt db_msgs keeps_msgs] in *; try exact H; try contradiction.
  - rewrite existsb_app, H. reflexivity.
  - rewrite has_msg_map; [exact H|]. intros p. destruct (fst p =? id); reflexivity.
Qed.

Lemma has_msg_keep_all : forall qs d x, Forall keeps_msgs qs -> cs_has_msg d x = true -> cs_has_msg (apply_stmts qs d) x = true.
Proof.
  induction qs as [|q t IH]; intros d x H Hx; [exact Hx|]. inversion H; subst. unfold apply_stmts. cbn [fold_left].
  apply IH; [assumption|apply has_msg_keep; assumption].
Qed.

Lemma insert_rows_ok : forall {A} (f : A -> N * N * N) l d, (forall a, In a l -> cs_has_msg d (row_msg (f a)) = true) ->
  stmts_ok d (map (fun a => StInsertRow (row_mb (f a)) (row_uid (f a)) (row_msg (f a))) l).
Proof.
  intros A f l. induction l as [|a t IH]; intros d H; [exact I|]. cbn [map stmts_ok stmt_ok]. split; [apply H; left; reflexivity|].
  apply IH. intros b Hb. apply has_msg_keep; [exact I|]. apply H. right. exact Hb.
Qed.

Lemma insert_msgs_has : forall (ids : list N) d x, In x ids -> cs_has_msg (apply_stmts (map StInsertMsg ids) d) x = true.
Proof.
  induction ids as [|a t IH]; intros d x Hin; [destruct Hin|]. destruct Hin as [H|H].
  - subst. unfold apply_stmts. cbn [map fold_left]. apply has_msg_keep_all.
    + apply Forall_forall. intros q Hq. apply in_map_iff in Hq. destruct Hq as [y [Hy _]]. subst. exact I.
    + unfold cs_has_msg. cbn [cs_run_stmt db_msgs]. rewrite existsb_app. cbn [existsb fst]. rewrite N.eqb_refl. apply orb_true_r.
  - unfold apply_stmts. cbn [map fold_left]. apply IH. exact H.
Qed.

Lemma listed_rows_same : forall d1 d2 id, db_rows d1 = db_rows d2 -> cs_listed d1 id = cs_listed d2 id.
Proof. intros d1 d2 id H. unfold cs_listed. rewrite H. reflexivity. Qed.

Lemma delete_msgs_ok : forall ids d, (forall id, In id ids -> cs_listed d id = false) -> stmts_ok d (map StDeleteMsg ids).
Proof.
  induction ids as [|a t IH]; intros d H; [exact I|]. cbn [map stmts_ok stmt_ok]. split; [apply H; left; reflexivity|].
  apply IH. intros id Hid. rewrite (listed_rows_same _ d id); [apply H; right; exact Hid|reflexivity].
Qed.

Lemma delete_msgs_rows : forall ids d, db_rows (apply_stmts (map StDeleteMsg ids) d) = db_rows d.
Proof.
  induction ids as [|a t IH]; intros d; [reflexivity|]. unfold apply_stmts in *. cbn [map fold_left]. rewrite IH. reflexivity.
Qed.

Lemma Forall_map_stmt : forall {A} d (f : A -> cs_stmt) l, Forall (body_step_ok d) (map (fun x => SStmt (f x)) l).
Proof. intros A d f l. apply Forall_forall. intros st H. apply in_map_iff in H. destruct H as [x [Hx _]]. subst. exact I. Qed.

Lemma Forall_flat_create : forall d (l : list (N * N)),
  Forall (body_step_ok d) (flat_map (fun p => [SConn 6; SStmt (StCreateMb (fst p) (snd p))]) l).
Proof. intros d l. induction l as [|a t IH]; [constructor|]. cbn [flat_map app]. constructor; [exact I|]. constructor; [exact I|exact IH]. Qed.

Lemma stmts_flat_create : forall (l : list (N * N)),
  stmts_of (flat_map (fun p => [SConn 6; SStmt (StCreateMb (fst p) (snd p))]) l) = map (fun p => StCreateMb (fst p) (snd p)) l.
Proof. induction l as [|a t IH]; [reflexivity|]. cbn [flat_map app stmts_of map]. rewrite IH. reflexivity. Qed.

Lemma free_map : forall {A} (f : A -> cs_stmt) l, (forall a, free_stmt (f a)) -> Forall free_stmt (map f l).
Proof. intros A f l H. apply Forall_forall. intros q Hq. apply in_map_iff in Hq. destruct Hq as [x [Hx _]]. subst. apply H. Qed.

Lemma keeps_map : forall {A} (f : A -> cs_stmt) l, (forall a, keeps_msgs (f a)) -> Forall keeps_msgs (map f l).
Proof. intros A f l H. apply Forall_forall. intros q Hq. apply in_map_iff in Hq. destruct Hq as [x [Hx _]]. subst. apply H. Qed.

(* ---- preconditions of the operations ---- *)
Definition cs_pre (op : cs_op) (m : cs_m) : Prop :=
  cs_fk (m_db m) /\ m_pend m = None /\
  match op with
  | OpAppend _ _ id _ | OpAppendRecovered _ _ id _ => cs_listed (m_db m) id = false
  | OpCopy _ items | OpMove _ _ items => forall p, In p items -> cs_has_msg (m_db m) (snd p) = true
  | OpConnCreate chunks rows =>
      (forall p, In p (concat chunks) -> cs_listed (m_db m) (fst p) = false) /\
      (forall r, In r rows -> cs_has_msg (m_db m) (row_msg r) = true \/ In (row_msg r) (map fst (concat chunks)))
  | OpConnUpdate _ new _ _ _ => cs_listed (m_db m) new = false
  | OpSessionEnd ids => forall id, In id ids -> cs_listed (m_db m) id = false
  | _ => True
  end.

Ltac norm_app := repeat (progress cbn [app] || rewrite <- app_assoc).
Ltac fa := repeat (first [apply Forall_nil | apply Forall_cons; [exact I|] | apply Forall_app; split | apply Forall_map_stmt | apply Forall_flat_create ]).

Lemma tail_broadcast : forall d m', m_db m' = d -> cs_fk d -> cs_safe m' cs_broadcast.
Proof. intros d m' H Hf. apply broadcast_safe. rewrite H. exact Hf. Qed.

Theorem op_safe : forall op m, cs_pre op m -> cs_safe m (cs_steps op m) /\ (cs_commits false (cs_steps op m) <= 1)%nat.
Proof.
  intros op m [Hfk [Hp Hpre]]. destruct op; cbn [cs_steps].
  - (* APPEND *)
    change ([SRead; SRead; SRead; SRead; SBegin; SConn 1; SRead; SSet id b; SStmt (StInsertMsg id); SStmt (StInsertRow mb uid id); SCommit] ++ cs_broadcast)
      with ([SRead; SRead; SRead; SRead] ++ [SBegin] ++ [SConn 1; SRead; SSet id b; SStmt (StInsertMsg id); SStmt (StInsertRow mb uid id)] ++ [SCommit] ++ cs_broadcast).
    assert (Hb : Forall (body_step_ok (m_db m)) [SConn 1; SRead; SSet id b; SStmt (StInsertMsg id); SStmt (StInsertRow mb uid id)]).
    { repeat constructor. exact Hpre. }
    assert (Hf : cs_fk (apply_stmts [StInsertMsg id; StInsertRow mb uid id] (m_db m))).
    { apply fk_stmts; [exact Hfk|]. cbn [stmts_ok stmt_ok]. repeat split.
      unfold cs_has_msg. cbn [cs_run_stmt db_msgs]. rewrite existsb_app. cbn [existsb fst]. rewrite N.eqb_refl. apply orb_true_r. }
    split.
    + apply block_safe; [exact Hp|fa|exact Hb|exact Hf|]. intros m' Hd _. eapply tail_broadcast; [exact Hd|exact Hf].
    + eapply Nat.le_trans; [apply (commits_block (m_db m)); [fa|exact Hb]|]. cbn. lia.
  - (* APPEND fallback: recovered message *)
    change ([SBegin; SSet id b; SStmt (StInsertMsg id); SStmt (StInsertRow rmb uid id); SCommit] ++ cs_broadcast)
      with ([] ++ [SBegin] ++ [SSet id b; SStmt (StInsertMsg id); SStmt (StInsertRow rmb uid id)] ++ [SCommit] ++ cs_broadcast).
    assert (Hb : Forall (body_step_ok (m_db m)) [SSet id b; SStmt (StInsertMsg id); SStmt (StInsertRow rmb uid id)]).
    { repeat constructor. exact Hpre. }
    assert (Hf : cs_fk (apply_stmts [StInsertMsg id; StInsertRow rmb uid id] (m_db m))).
    { apply fk_stmts; [exact Hfk|]. cbn [stmts_ok stmt_ok]. repeat split.
      unfold cs_has_msg. cbn [cs_run_stmt db_msgs]. rewrite existsb_app. cbn [existsb fst]. rewrite N.eqb_refl. apply orb_true_r. }
    split.
    + apply block_safe; [exact Hp|fa|exact Hb|exact Hf|]. intros m' Hd _. eapply tail_broadcast; [exact Hd|exact Hf].
    + eapply Nat.le_trans; [apply (commits_block (m_db m)); [fa|exact Hb]|]. cbn. lia.
  - (* COPY *)
    set (ins := map (fun p => SStmt (StInsertRow dst (fst p) (snd p))) items).
    replace ([SRead; SBegin; SRead; SConn 2] ++ ins ++ [SRead; SCommit] ++ cs_broadcast)
      with ([SRead] ++ [SBegin] ++ ([SRead; SConn 2] ++ ins ++ [SRead]) ++ [SCommit] ++ cs_broadcast)
      by (norm_app; reflexivity).
    assert (Hb : Forall (body_step_ok (m_db m)) ([SRead; SConn 2] ++ ins ++ [SRead])) by (unfold ins; fa).
    assert (Hf : cs_fk (apply_stmts (stmts_of ([SRead; SConn 2] ++ ins ++ [SRead])) (m_db m))).
    { cbn [app stmts_of]. rewrite stmts_of_app. unfold ins. rewrite stmts_of_map. cbn [stmts_of]. rewrite app_nil_r.
      apply fk_stmts; [exact Hfk|]. apply (insert_rows_ok (fun p : N * N => (dst, fst p, snd p))). exact Hpre. }
    split.
    + apply block_safe; [exact Hp|fa|exact Hb|exact Hf|]. intros m' Hd _. eapply tail_broadcast; [exact Hd|exact Hf].
    + eapply Nat.le_trans; [apply (commits_block (m_db m)); [fa|exact Hb]|]. cbn. lia.
  - (* MOVE *)
    set (dels := map (fun p : N * N => SStmt (StDeleteRow src (snd p))) items).
    set (ins := map (fun p => SStmt (StInsertRow dst (fst p) (snd p))) items).
    replace ([SRead; SBegin; SRead; SRead; SConn 3] ++ dels ++ ins ++ [SRead; SCommit] ++ cs_broadcast)
      with ([SRead] ++ [SBegin] ++ ([SRead; SRead; SConn 3] ++ dels ++ ins ++ [SRead]) ++ [SCommit] ++ cs_broadcast)
      by (norm_app; reflexivity).
    assert (Hb : Forall (body_step_ok (m_db m)) ([SRead; SRead; SConn 3] ++ dels ++ ins ++ [SRead])) by (unfold dels, ins; fa).
    assert (Hf : cs_fk (apply_stmts (stmts_of ([SRead; SRead; SConn 3] ++ dels ++ ins ++ [SRead])) (m_db m))).
    { cbn [app stmts_of]. rewrite !stmts_of_app. unfold dels, ins. rewrite !stmts_of_map. cbn [stmts_of]. rewrite app_nil_r.
      apply fk_stmts; [exact Hfk|]. apply stmts_ok_app. split.
      - apply free_ok. apply free_map. intros a. exact I.
      - apply (insert_rows_ok (fun p : N * N => (dst, fst p, snd p))). intros a Ha. apply has_msg_keep_all.
        + apply keeps_map. intros x. exact I.
        + apply Hpre. exact Ha. }
    split.
    + apply block_safe; [exact Hp|fa|exact Hb|exact Hf|]. intros m' Hd _. eapply tail_broadcast; [exact Hd|exact Hf].
    + eapply Nat.le_trans; [apply (commits_block (m_db m)); [fa|exact Hb]|]. cbn. lia.
  - (* EXPUNGE *)
    set (dels := map (fun id => SStmt (StDeleteRow mb id)) ids).
    replace ([SBegin; SRead; SConn 4] ++ dels ++ [SCommit] ++ cs_broadcast)
      with ([] ++ [SBegin] ++ ([SRead; SConn 4] ++ dels) ++ [SCommit] ++ cs_broadcast)
      by (norm_app; reflexivity).
    assert (Hb : Forall (body_step_ok (m_db m)) ([SRead; SConn 4] ++ dels)) by (unfold dels; fa).
    assert (Hf : cs_fk (apply_stmts (stmts_of ([SRead; SConn 4] ++ dels)) (m_db m))).
    { cbn [app stmts_of]. unfold dels. rewrite stmts_of_map. apply fk_stmts; [exact Hfk|]. apply free_ok. apply free_map. intros a. exact I. }
    split.
    + apply block_safe; [exact Hp|fa|exact Hb|exact Hf|]. intros m' Hd _. eapply tail_broadcast; [exact Hd|exact Hf].
    + eapply Nat.le_trans; [apply (commits_block (m_db m)); [fa|exact Hb]|]. cbn. lia.
  - (* STORE *)
    set (sets := map (fun p : N * N => SStmt (StSetFlags (fst p) (snd p))) items).
    replace ([SBegin; SRead; SConn 5] ++ sets ++ [SCommit] ++ cs_broadcast)
      with ([] ++ [SBegin] ++ ([SRead; SConn 5] ++ sets) ++ [SCommit] ++ cs_broadcast)
      by (norm_app; reflexivity).
    assert (Hb : Forall (body_step_ok (m_db m)) ([SRead; SConn 5] ++ sets)) by (unfold sets; fa).
    assert (Hf : cs_fk (apply_stmts (stmts_of ([SRead; SConn 5] ++ sets)) (m_db m))).
    { cbn [app stmts_of]. unfold sets. rewrite stmts_of_map. apply fk_stmts; [exact Hfk|]. apply free_ok. apply free_map. intros a. exact I. }
    split.
    + apply block_safe; [exact Hp|fa|exact Hb|exact Hf|]. intros m' Hd _. eapply tail_broadcast; [exact Hd|exact Hf].
    + eapply Nat.le_trans; [apply (commits_block (m_db m)); [fa|exact Hb]|]. cbn. lia.
  - (* CREATE *)
    set (cr := flat_map (fun p : N * N => [SConn 6; SStmt (StCreateMb (fst p) (snd p))]) mbs).
    replace ([SBegin; SRead; SRead] ++ cr ++ [SCommit])
      with ([] ++ [SBegin] ++ ([SRead; SRead] ++ cr) ++ [SCommit] ++ [])
      by (norm_app; reflexivity).
    assert (Hb : Forall (body_step_ok (m_db m)) ([SRead; SRead] ++ cr)) by (unfold cr; fa).
    assert (Hf : cs_fk (apply_stmts (stmts_of ([SRead; SRead] ++ cr)) (m_db m))).
    { cbn [app stmts_of]. unfold cr. rewrite stmts_flat_create. apply fk_stmts; [exact Hfk|]. apply free_ok. apply free_map. intros a. exact I. }
    split.
    + apply block_safe; [exact Hp|fa|exact Hb|exact Hf|]. intros m' _ _. exact I.
    + eapply Nat.le_trans; [apply (commits_block (m_db m)); [fa|exact Hb]|]. cbn. lia.
  - (* DELETE *)
    change ([SBegin; SRead; SConn 7; SStmt StNeutral; SStmt (StDeleteMb mb); SCommit] ++ cs_broadcast)
      with ([] ++ [SBegin] ++ [SRead; SConn 7; SStmt StNeutral; SStmt (StDeleteMb mb)] ++ [SCommit] ++ cs_broadcast).
    assert (Hb : Forall (body_step_ok (m_db m)) [SRead; SConn 7; SStmt StNeutral; SStmt (StDeleteMb mb)]) by (repeat constructor).
    assert (Hf : cs_fk (apply_stmts [StNeutral; StDeleteMb mb] (m_db m))).
    { apply fk_stmts; [exact Hfk|]. cbn. auto. }
    split.
    + apply block_safe; [exact Hp|fa|exact Hb|exact Hf|]. intros m' Hd _. eapply tail_broadcast; [exact Hd|exact Hf].
    + eapply Nat.le_trans; [apply (commits_block (m_db m)); [fa|exact Hb]|]. cbn. lia.
  - (* RENAME *)
    set (cr := flat_map (fun p : N * N => [SConn 6; SStmt (StCreateMb (fst p) (snd p))]) news).
    set (rn := map (fun p : N * N => SStmt (StSetMeta (fst p) (snd p))) renames).
    replace ([SBegin; SRead] ++ cr ++ [SConn 8] ++ rn ++ [SCommit])
      with ([] ++ [SBegin] ++ ([SRead] ++ cr ++ [SConn 8] ++ rn) ++ [SCommit] ++ [])
      by (norm_app; reflexivity).
    assert (Hb : Forall (body_step_ok (m_db m)) ([SRead] ++ cr ++ [SConn 8] ++ rn)) by (unfold cr, rn; fa).
    assert (Hf : cs_fk (apply_stmts (stmts_of ([SRead] ++ cr ++ [SConn 8] ++ rn)) (m_db m))).
    { cbn [app stmts_of]. rewrite stmts_of_app. unfold cr, rn. rewrite stmts_flat_create. cbn [app stmts_of]. rewrite stmts_of_map.
      apply fk_stmts; [exact Hfk|]. apply free_ok. apply Forall_app. split; apply free_map; intros a; exact I. }
    split.
    + apply block_safe; [exact Hp|fa|exact Hb|exact Hf|]. intros m' _ _. exact I.
    + eapply Nat.le_trans; [apply (commits_block (m_db m)); [fa|exact Hb]|]. cbn. lia.
  - (* connector: MessagesCreated *)
    destruct Hpre as [Hnew Hrows].
    set (cm := flat_map (fun ch : list (N * cs_bytes) => map (fun p => SSet (fst p) (snd p)) ch ++ map (fun p => SStmt (StInsertMsg (fst p))) ch) chunks).
    set (ir := map (fun r => SStmt (StInsertRow (row_mb r) (row_uid r) (row_msg r))) rows).
    replace ([SBegin; SRead] ++ cm ++ ir ++ [SCommit])
      with ([] ++ [SBegin] ++ ([SRead] ++ cm ++ ir) ++ [SCommit] ++ [])
      by (norm_app; reflexivity).
    assert (Hcm : Forall (body_step_ok (m_db m)) cm /\ stmts_of cm = map StInsertMsg (map fst (concat chunks))).
    { unfold cm. clear -Hnew. induction chunks as [|ch t IH]; [split; [constructor|reflexivity]|].
      cbn [flat_map concat]. destruct IH as [I1 I2].
      { intros p Hp. apply Hnew. cbn [concat]. apply in_or_app. right. exact Hp. }
      split.
      - apply Forall_app. split; [|exact I1]. apply Forall_app. split; [|apply Forall_map_stmt].
        apply Forall_forall. intros st Hst. apply in_map_iff in Hst. destruct Hst as [p [E Hin]]. subst st. cbn [body_step_ok].
        apply Hnew. cbn [concat]. apply in_or_app. left. exact Hin.
      - rewrite !stmts_of_app, I2. rewrite (stmts_of_map (fun p : N * cs_bytes => StInsertMsg (fst p))).
        assert (Hs0 : stmts_of (map (fun p : N * cs_bytes => SSet (fst p) (snd p)) ch) = []).
        { clear. induction ch as [|a l IHl]; [reflexivity|]. cbn [map stmts_of]. exact IHl. }
        rewrite Hs0. cbn [app]. rewrite !map_app, !map_map. reflexivity. }
    destruct Hcm as [Hcm1 Hcm2].
    assert (Hb : Forall (body_step_ok (m_db m)) ([SRead] ++ cm ++ ir)).
    { apply Forall_app. split; [fa|]. apply Forall_app. split; [exact Hcm1|]. unfold ir. fa. }
    assert (Hf : cs_fk (apply_stmts (stmts_of ([SRead] ++ cm ++ ir)) (m_db m))).
    { cbn [app stmts_of]. rewrite stmts_of_app, Hcm2. unfold ir. rewrite (stmts_of_map (fun r : N * N * N => StInsertRow (row_mb r) (row_uid r) (row_msg r))).
      apply fk_stmts; [exact Hfk|]. apply stmts_ok_app. split.
      - apply free_ok. apply free_map. intros a. exact I.
      - apply (insert_rows_ok (fun r : N * N * N => r)). intros r Hr.
        destruct (Hrows r Hr) as [H|H].
        + apply has_msg_keep_all; [|exact H]. apply keeps_map. intros x. exact I.
        + apply insert_msgs_has. exact H. }
    split.
    + apply block_safe; [exact Hp|fa|exact Hb|exact Hf|]. intros m' _ _. exact I.
    + eapply Nat.le_trans; [apply (commits_block (m_db m)); [fa|exact Hb]|]. cbn. lia.
  - (* connector: MessageUpdated with a new literal *)
    set (dr := map (fun mb => SStmt (StDeleteRow mb old)) oldrows).
    set (ir := map (fun p : N * N => SStmt (StInsertRow (fst p) (snd p) new)) newrows).
    replace ([SRead; SBegin; SGet old] ++ dr ++ [SStmt (StMark old); SStmt (StInsertMsg new); SSet new b] ++ ir ++ [SCommit])
      with ([SRead] ++ [SBegin] ++ ([SGet old] ++ dr ++ [SStmt (StMark old); SStmt (StInsertMsg new); SSet new b] ++ ir) ++ [SCommit] ++ [])
      by (norm_app; reflexivity).
    assert (Hb : Forall (body_step_ok (m_db m)) ([SGet old] ++ dr ++ [SStmt (StMark old); SStmt (StInsertMsg new); SSet new b] ++ ir)).
    { apply Forall_app. split; [fa|]. apply Forall_app. split; [unfold dr; fa|]. apply Forall_app. split; [|unfold ir; fa].
      repeat constructor. exact Hpre. }
    assert (Hf : cs_fk (apply_stmts (stmts_of ([SGet old] ++ dr ++ [SStmt (StMark old); SStmt (StInsertMsg new); SSet new b] ++ ir)) (m_db m))).
    { cbn [app stmts_of]. rewrite !stmts_of_app. unfold dr, ir. cbn [stmts_of app].
      rewrite (stmts_of_map (fun mb => StDeleteRow mb old)), (stmts_of_map (fun p : N * N => StInsertRow (fst p) (snd p) new)).
      apply fk_stmts; [exact Hfk|]. apply stmts_ok_app. split; [apply free_ok; apply free_map; intros a; exact I|].
      cbn [stmts_ok stmt_ok]. split; [exact I|]. split; [exact I|].
      apply (insert_rows_ok (fun p : N * N => (fst p, snd p, new))). intros a _. cbn [row_msg snd].
      unfold cs_has_msg. cbn [cs_run_stmt db_msgs]. rewrite existsb_app. cbn [existsb fst]. rewrite N.eqb_refl. apply orb_true_r. }
    split.
    + apply block_safe; [exact Hp|fa|exact Hb|exact Hf|]. intros m' _ _. exact I.
    + eapply Nat.le_trans; [apply (commits_block (m_db m)); [fa|exact Hb]|]. cbn. lia.
  - (* connector: MessageDeleted *)
    set (dr := map (fun mb => SStmt (StDeleteRow mb id)) mbs).
    replace ([SBegin; SRead; SStmt (StMark id)] ++ dr ++ [SCommit])
      with ([] ++ [SBegin] ++ ([SRead; SStmt (StMark id)] ++ dr) ++ [SCommit] ++ [])
      by (norm_app; reflexivity).
    assert (Hb : Forall (body_step_ok (m_db m)) ([SRead; SStmt (StMark id)] ++ dr)) by (unfold dr; fa).
    assert (Hf : cs_fk (apply_stmts (stmts_of ([SRead; SStmt (StMark id)] ++ dr)) (m_db m))).
    { cbn [app stmts_of]. unfold dr. rewrite stmts_of_map. apply fk_stmts; [exact Hfk|]. apply free_ok.
      constructor; [exact I|]. apply free_map. intros a. exact I. }
    split.
    + apply block_safe; [exact Hp|fa|exact Hb|exact Hf|]. intros m' _ _. exact I.
    + eapply Nat.le_trans; [apply (commits_block (m_db m)); [fa|exact Hb]|]. cbn. lia.
  - (* end of a session: purge of the messages marked deleted — rows first, files afterwards *)
    set (dm := map (fun id => SStmt (StDeleteMsg id)) ids).
    replace ([SRead; SBegin] ++ dm ++ [SCommit] ++ map SDel ids)
      with ([SRead] ++ [SBegin] ++ dm ++ [SCommit] ++ map SDel ids) by reflexivity.
    assert (Hb : Forall (body_step_ok (m_db m)) dm) by (unfold dm; fa).
    assert (Hso : stmts_of dm = map StDeleteMsg ids) by (unfold dm; apply (stmts_of_map StDeleteMsg)).
    assert (Hf : cs_fk (apply_stmts (stmts_of dm) (m_db m))).
    { rewrite Hso. apply fk_stmts; [exact Hfk|]. apply delete_msgs_ok. exact Hpre. }
    split.
    + apply block_safe; [exact Hp|fa|exact Hb|exact Hf|]. intros m' Hd _. apply dels_safe. intros id Hid.
      rewrite Hd, Hso. rewrite (listed_rows_same _ (m_db m) id); [apply Hpre; exact Hid|].
      apply delete_msgs_rows.
    + eapply Nat.le_trans; [apply (commits_block (m_db m)); [fa|exact Hb]|]. rewrite commits_dels. lia.
  - (* start-up *)
    unfold cs_purge_db. set (mk := cs_marked_ids (m_db m)).
    destruct (existsb (cs_listed (m_db m)) mk) eqn:El; cbn [fst snd].
    + (* the purge transaction fails as a whole: nothing is purged; the sweep still runs *)
      cbn [map app].
      cbn [cs_del_seq].
      set (sw := map SDel (map fst (filter (fun p => negb (cs_has_msg (m_db m) (fst p))) (m_store m)))).
      change (cs_broadcast ++ SConn 9 :: SBegin :: SRead :: SCommit :: SList :: SRead :: sw)
        with (cs_broadcast ++ [SConn 9; SBegin; SRead; SCommit; SList; SRead] ++ sw).
      assert (Hsw : forall m', m_db m' = m_db m -> cs_safe m' sw).
      { intros m' Hd. apply dels_safe. intros id Hid. apply in_map_iff in Hid. destruct Hid as [p [E Hin]]. subst id.
        apply filter_In in Hin. destruct Hin as [_ Hn]. apply negb_true_iff in Hn. rewrite Hd.
        destruct (cs_listed (m_db m) (fst p)) eqn:E; [|reflexivity].
        unfold cs_listed in E. apply existsb_exists in E. destruct E as [r [Hr He]]. apply N.eqb_eq in He.
        rewrite <- He, (Hfk r Hr) in Hn. discriminate. }
      split.
      * apply safe_app. split; [apply broadcast_safe; exact Hfk|].
        destruct m as [s d p]. cbn [m_pend] in Hp. subst p. cbn [cs_broadcast cs_run fold_left cs_exec m_pend m_db m_store option_map cs_run_stmt].
        apply safe_app. split; [cbn [m_db] in Hfk; cbn; auto 10|]. apply Hsw. reflexivity.
      * unfold sw. cbn [cs_broadcast app cs_commits]. rewrite commits_dels. lia.
    + set (dm := map (fun id => SStmt (StDeleteMsg id)) mk).
      set (d1 := fold_left (fun x id => cs_run_stmt (StDeleteMsg id) x) mk (m_db m)).
      set (sw := map SDel (map fst (filter (fun p => negb (cs_has_msg d1 (fst p))) (cs_del_seq (m_store m) mk)))).
      assert (Hunl : forall id, In id mk -> cs_listed (m_db m) id = false).
      { intros id Hid. destruct (cs_listed (m_db m) id) eqn:E; [|reflexivity].
        assert (existsb (cs_listed (m_db m)) mk = true) by (apply existsb_exists; exists id; auto). congruence. }
      assert (Hso : stmts_of ([SRead] ++ dm) = map StDeleteMsg mk) by (cbn [app stmts_of]; unfold dm; apply (stmts_of_map StDeleteMsg)).
      assert (Hd1 : apply_stmts (map StDeleteMsg mk) (m_db m) = d1).
      { unfold d1, apply_stmts. clear. generalize (m_db m). induction mk as [|a t IH]; intros d; [reflexivity|]. cbn [map fold_left]. apply IH. }
      assert (Hf : cs_fk d1).
      { rewrite <- Hd1. apply fk_stmts; [exact Hfk|]. apply delete_msgs_ok. exact Hunl. }
      assert (Hrows : db_rows d1 = db_rows (m_db m)) by (apply purge_fold_rows).
      assert (Hb : Forall (body_step_ok (m_db m)) ([SRead] ++ dm)) by (unfold dm; fa).
      assert (Htail : forall m', m_db m' = d1 -> cs_safe m' (map SDel mk ++ [SList; SRead] ++ sw)).
      { intros m' Hd. apply safe_app. split.
        - apply dels_safe. intros id Hid. rewrite Hd, (listed_rows_same d1 (m_db m) id Hrows). apply Hunl. exact Hid.
        - assert (Hd' : m_db (cs_run (map SDel mk) m') = d1).
          { rewrite <- Hd. clear. generalize m'. induction mk as [|a t IH]; intros x; [reflexivity|]. cbn [map]. rewrite run_cons, IH. destruct x as [xs xd xp]; reflexivity. }
          cbn [app cs_safe cs_exec]. split; [exact I|]. split; [exact I|].
          apply dels_safe. intros id Hid. apply in_map_iff in Hid. destruct Hid as [p [E Hin]]. subst id.
          apply filter_In in Hin. destruct Hin as [_ Hn]. apply negb_true_iff in Hn. rewrite Hd'.
          destruct (cs_listed d1 (fst p)) eqn:E; [|reflexivity].
          unfold cs_listed in E. apply existsb_exists in E. destruct E as [r [Hr He]]. apply N.eqb_eq in He.
          rewrite <- He, (Hf r Hr) in Hn. discriminate. }
      replace (cs_broadcast ++ [SConn 9] ++ [SBegin] ++ [SRead] ++ dm ++ [SCommit] ++ map SDel mk ++ [SList; SRead] ++ sw)
        with (cs_broadcast ++ ([SConn 9] ++ [SBegin] ++ ([SRead] ++ dm) ++ [SCommit] ++ (map SDel mk ++ [SList; SRead] ++ sw)))
        by (norm_app; reflexivity).
      split.
      * apply safe_app. split; [apply broadcast_safe; exact Hfk|].
        assert (Hm1 : m_db (cs_run cs_broadcast m) = m_db m /\ m_pend (cs_run cs_broadcast m) = None).
        { destruct m as [s d p]. cbn. auto. }
        destruct Hm1 as [Hm1 Hm2].
        apply block_safe; [exact Hm2|rewrite Hm1; fa|rewrite Hm1; exact Hb| |].
        -- rewrite Hm1, Hso, Hd1. exact Hf.
        -- intros m' Hd _. apply Htail. rewrite Hd, Hm1, Hso, Hd1. reflexivity.
      * change (cs_commits false (cs_broadcast ++ ([SConn 9] ++ [SBegin] ++ ([SRead] ++ dm) ++ [SCommit] ++ (map SDel mk ++ [SList; SRead] ++ sw))))
          with (cs_commits false ([SConn 9] ++ [SBegin] ++ ([SRead] ++ dm) ++ [SCommit] ++ (map SDel mk ++ [SList; SRead] ++ sw))).
        eapply Nat.le_trans; [apply (commits_block (m_db m)); [fa|exact Hb]|].
        assert (Hz : forall b, cs_commits b (map SDel mk ++ [SList; SRead] ++ sw) = 0%nat).
        { intros b. unfold sw. apply commits_dels2. }
        rewrite Hz. lia.
Qed.

(* ================= the property statements ================= *)
Lemma db_no_commit : forall l m, Forall (fun st => st <> SCommit) l -> m_db (cs_run l m) = m_db m.
Proof.
  induction l as [|st t IH]; intros m H; [reflexivity|]. inversion H as [|x y Hst Ht]; subst. rewrite run_cons, IH; [|exact Ht].
  destruct m as [s d p]. destruct st; try reflexivity. contradiction.
Qed.

Lemma Forall_firstn : forall {A} (P : A -> Prop) k l, Forall P l -> Forall P (firstn k l).
Proof.
  intros A P k. induction k as [|k IH]; intros l H; [constructor|]. destruct l as [|a t]; [constructor|].
  inversion H; subst. cbn [firstn]. constructor; [assumption|apply IH; assumption].
Qed.

Section Final.
  Variable remote : N -> option cs_bytes.
  Variable recovered : N -> bool.
  Notation view := (cs_view remote recovered).

  Theorem crash_atomic : forall op m k, cs_pre op m ->
    view (cs_recover (cs_crash_after k (cs_steps op m) m)) = view m \/
    view (cs_recover (cs_crash_after k (cs_steps op m) m)) = view (cs_exec_op op m).
  Proof.
    intros op m k Hpre. destruct (op_safe op m Hpre) as [Hs Hc]. destruct Hpre as [Hf [Hp _]].
    apply crash_atomic_general; assumption.
  Qed.

  (* every listed message can be fetched after the restart whenever it could before the crash point's transaction
     boundary: its bytes are those of the before- or after-view (part of the view), in particular never torn *)
  Theorem fail_atomic : forall op m k, cs_pre op m -> (k < length (cs_steps op m))%nat ->
    view (cs_fail_at k (cs_steps op m) (cs_cleanup op) m) = view m \/
    view (cs_fail_at k (cs_steps op m) (cs_cleanup op) m) = view (cs_exec_op op m).
  Proof.
    intros op m k Hpre Hk. destruct (op_safe op m Hpre) as [Hs Hc]. pose proof Hpre as [Hf [Hp Hx]].
    apply fail_atomic_general; try assumption.
    intros st Hst. destruct op; cbn [cs_cleanup] in Hst; try contradiction.
    apply in_map_iff in Hst. destruct Hst as [p [E Hin]]. subst st. exists (fst p). split; [reflexivity|].
    destruct Hx as [Hnew _].
    cbn [cs_steps] in Hk |- *.
    set (X := [SBegin; SRead]
              ++ flat_map (fun ch : list (N * cs_bytes) => map (fun p => SSet (fst p) (snd p)) ch ++ map (fun p => SStmt (StInsertMsg (fst p))) ch) chunks
              ++ map (fun r => SStmt (StInsertRow (row_mb r) (row_uid r) (row_msg r))) rows).
    replace ([SBegin; SRead]
              ++ flat_map (fun ch : list (N * cs_bytes) => map (fun p => SSet (fst p) (snd p)) ch ++ map (fun p => SStmt (StInsertMsg (fst p))) ch) chunks
              ++ map (fun r => SStmt (StInsertRow (row_mb r) (row_uid r) (row_msg r))) rows ++ [SCommit])
      with (X ++ [SCommit]) in * by (unfold X; norm_app; reflexivity).
    rewrite app_length in Hk. cbn [length] in Hk.
    rewrite firstn_app. replace (k - length X)%nat with 0%nat by lia. cbn [firstn]. rewrite app_nil_r.
    rewrite db_no_commit; [apply Hnew; exact Hin|].
    apply Forall_firstn. unfold X. apply Forall_forall. intros st Hst.
    cbn [app] in Hst. destruct Hst as [Hst|[Hst|Hst]]; [subst; discriminate|subst; discriminate|].
    apply in_app_or in Hst. destruct Hst as [Hst|Hst].
    { apply in_flat_map in Hst. destruct Hst as [ch [_ Hst]]. apply in_app_or in Hst.
      destruct Hst as [Hst|Hst]; apply in_map_iff in Hst; destruct Hst as [q [E _]]; subst; discriminate. }
    apply in_map_iff in Hst; destruct Hst as [q [E _]]; subst; discriminate.
  Qed.

  Theorem restart_identity : forall m, cs_fk (m_db m) -> view (cs_recover m) = view m.
  Proof. intros m H. apply recover_view. exact H. Qed.

  (* every listed message is fetchable after recovery exactly when the client-visible fetch before gave bytes: the bytes
     component of the view is preserved; in addition a listed message always has a cache file or is served by the
     connector unless it is a recovered message whose file is gone *)
  Theorem listed_fetch_preserved : forall m r, cs_fk (m_db m) -> In r (db_rows (m_db m)) ->
    In r (db_rows (m_db (cs_recover m))) /\ cs_fetch remote recovered (cs_recover m) (row_msg r) = cs_fetch remote recovered m (row_msg r).
  Proof.
    intros m r Hf Hr. pose proof (recover_view remote recovered m Hf) as Hv. unfold cs_view in Hv.
    unfold cs_dbview in Hv. injection Hv as Hmbs Hm Hby.
    assert (Hrows : db_rows (m_db (cs_recover m)) = db_rows (m_db m)).
    { apply (f_equal (map fst)) in Hm. rewrite !map_map in Hm. cbn [fst] in Hm. rewrite !map_id in Hm. exact Hm. }
    split; [rewrite Hrows; exact Hr|]. rewrite Hrows in Hby.
    clear Hmbs Hm Hrows. induction (db_rows (m_db m)) as [|a t IH]; [destruct Hr|].
    cbn [map] in Hby. injection Hby as H1 H2. destruct Hr as [Hr|Hr]; [subst; exact H1|apply IH; assumption].
  Qed.
End Final.

(* an operation that does not report an error has run all its steps: what was acknowledged is in the database *)
Lemma success_means_applied : forall op l cleanup m k,
  cs_reports_error true true op l k = false -> cs_outcome k l cleanup m = cs_run l m.
Proof.
  intros op l cleanup m k H. unfold cs_reports_error, cs_outcome in *.
  destruct (Nat.leb (length l) k); [reflexivity|].
  destruct (nth_error l k) as [st|]; [destruct st|]; destruct op; discriminate.
Qed.

(* what is served after a cache loss is served again, unchanged, by every later fetch (also after a restart: the refilled
   file is an ordinary cache file) *)
Lemma refetch_stable : forall remote recovered served_form m id m1 b,
  cs_fetch_refill remote recovered served_form true m id = (m1, Some b) ->
  cs_fetch_refill remote recovered served_form true m1 id = (m1, Some b).
Proof.
  intros remote recovered served_form m id m1 b H. unfold cs_fetch_refill in *.
  destruct (cs_store_get (m_store m) id) as [x|] eqn:E.
  - injection H as H1 H2. subst. rewrite E. reflexivity.
  - destruct (recovered id); [discriminate|]. destruct (remote id) as [y|]; [|discriminate].
    injection H as H1 H2. subst m1 b. cbn [m_store]. unfold cs_store_get. cbn [find fst]. rewrite N.eqb_refl. reflexivity.
Qed.

Lemma failed_start_keeps_view : forall remote recovered m,
  cs_view remote recovered (cs_failed_start true m) = cs_view remote recovered m.
Proof. reflexivity. Qed.

(* ---------- chunking ---------- *)
Lemma chunks_fuel_concat : forall {A} fuel n (l : list A), (0 < n)%nat -> (length l <= fuel)%nat ->
  concat (cs_chunks_fuel fuel n l) = l.
Proof.
  intros A fuel. induction fuel as [|f IH]; intros n l Hn Hl.
  - destruct l; [reflexivity|cbn [length] in Hl; lia].
  - cbn [cs_chunks_fuel]. destruct l as [|a t]; [reflexivity|].
    cbn [concat]. rewrite IH; [apply firstn_skipn|exact Hn|].
    rewrite skipn_length. cbn [length] in *. lia.
Qed.

Lemma chunks_concat : forall {A} n (l : list A), (0 < n)%nat -> concat (cs_chunks n l) = l.
Proof. intros A n l Hn. unfold cs_chunks. apply chunks_fuel_concat; [exact Hn|lia]. Qed.

Lemma chunks_fuel_bounded : forall {A} fuel n (l : list A) c, In c (cs_chunks_fuel fuel n l) -> (length c <= n)%nat.
Proof.
  intros A fuel. induction fuel as [|f IH]; intros n l c H; [destruct H|].
  cbn [cs_chunks_fuel] in H. destruct l as [|a t]; [destruct H|].
  destruct H as [H|H]; [subst c; apply firstn_le_length|apply (IH _ _ _ H)].
Qed.

Lemma chunks_bounded : forall {A} n (l : list A) c, In c (cs_chunks n l) -> (length c <= n)%nat.
Proof. intros A n l c H. apply (chunks_fuel_bounded _ _ _ _ H). Qed.

(* processing chunk-wise, each chunk with its own elements, is processing the whole list — for every list, every chunk
   size and every statement kind *)
Lemma chunked_stmts_whole : forall n f ids d, (0 < n)%nat ->
  apply_stmts (cs_chunked_stmts true n f ids) d = apply_stmts (map f ids) d.
Proof. intros n f ids d Hn. unfold cs_chunked_stmts. rewrite chunks_concat; [reflexivity|exact Hn]. Qed.
