(* Correspondence runner for C09.  The harness stores contents with the real store, corrupts the files and records how
   Get answered; here the framing arithmetic of Model/StoreFrame.v (same constants, Gen/FactsStore.v) is run on the
   LENGTHS only: a file is a list of pieces (header, nonce, sealed block i, foreign bytes), a corruption rearranges
   pieces, Get's chunking (blockSize+overhead) and the pump decide the class of the answer.
   `mismatches` lists the case ids on which this prediction and the observation disagree. *)
From Coq Require Import List NArith Bool.
From Gluon Require Export Base.ListX Gen.FactsStore.
Import ListNotations.
Open Scope N_scope.

Inductive src := SHdr | SNonce | SBlk (i : N) | SJunk.
Record piece := mkP { p_src : src; p_off : N; p_len : N }.   (* bytes [off, off+len) of that source *)
Definition sfile := list piece.

Definition src_eqb (a b : src) : bool :=
  match a, b with
  | SHdr, SHdr => true | SNonce, SNonce => true | SJunk, SJunk => false (* foreign bytes equal nothing *)
  | SBlk i, SBlk j => i =? j | _, _ => false end.
Definition piece_eqb (a b : piece) : bool :=
  src_eqb (p_src a) (p_src b) && (p_off a =? p_off b) && (p_len a =? p_len b).

Definition s_len (f : sfile) : N := fold_right (fun p a => p_len p + a) 0 f.

Fixpoint s_take (n : N) (f : sfile) : sfile :=
  match f with
  | [] => []
  | p :: t => if n =? 0 then []
              else if p_len p <=? n then p :: s_take (n - p_len p) t
              else [mkP (p_src p) (p_off p) n]
  end.
Fixpoint s_drop (n : N) (f : sfile) : sfile :=
  match f with
  | [] => []
  | p :: t => if p_len p <=? n then s_drop (n - p_len p) t
              else if n =? 0 then f
              else mkP (p_src p) (p_off p + n) (p_len p - n) :: t
  end.
Fixpoint s_cut_fuel (fuel : nat) (n : N) (f : sfile) : list sfile :=
  match fuel with
  | O => []
  | S k => match f with [] => [] | _ => s_take n f :: s_cut_fuel k n (s_drop n f) end
  end.
Definition s_cut (n : N) (f : sfile) : list sfile := s_cut_fuel (S (S (N.to_nat (s_len f / n)))) n f.

(* ---- the intact file for a compressed frame of L bytes ---- *)
Definition nblocks (L : N) : N := (L + block_size - 1) / block_size.
Definition blk_len (L i : N) : N :=
  if i + 1 <? nblocks L then block_size + gcm_overhead else (L - (nblocks L - 1) * block_size) + gcm_overhead.
Definition blk_piece (L i : N) : piece := mkP (SBlk i) 0 (blk_len L i).
Fixpoint iota (k : nat) (from : N) : list N := match k with O => [] | S k' => from :: iota k' (from + 1) end.
Definition intact (L : N) : sfile :=
  mkP SHdr 0 header_len :: mkP SNonce 0 nonce_len :: map (blk_piece L) (iota (N.to_nat (nblocks L)) 0).
Definition file_size (L : N) : N := header_len + nonce_len + L + gcm_overhead * nblocks L.

(* ---- corruptions ---- *)
Inductive corruption :=
| KIntact                    (* no change *)
| KTrunc (p : N)             (* keep the first p bytes *)
| KFlip (p : N)              (* byte p replaced by another value *)
| KSplice (js : list N)      (* header, nonce, then the sealed blocks js in that order (drop / repeat / reorder) *)
| KAppend (n : N)            (* n foreign bytes appended *)
| KOtherPass                 (* read with another passphrase *)
| KFramePrefix
| KListing (stored strays unparsable : N) (zero_stored : bool) (listed listed_zero : N).
   (* not a corruption: a directory with [stored] store files (zero_stored: one of them is the nil UUID) and [strays] other
      regular files of which [unparsable] have names that are no IDs; List returned [listed] entries, [listed_zero] of
      them the zero ID *)              (* a well-formed file (right key, one nonce, blocks cut at blockSize) whose frame is only the
                                first c_clen bytes of a longer frame: what Get sees of a file cut at a block boundary *)

Definition corrupt (L : N) (c : corruption) : sfile :=
  let f := intact L in
  match c with
  | KIntact | KOtherPass | KFramePrefix | KListing _ _ _ _ _ _ => f
  | KTrunc p => s_take p f
  | KFlip p => s_take p f ++ mkP SJunk 0 1 :: s_drop (p + 1) f
  | KSplice js => mkP SHdr 0 header_len :: mkP SNonce 0 nonce_len :: map (blk_piece L) js
  | KAppend n => f ++ [mkP SJunk 0 n]
  end.

(* ---- Get on a symbolic file ---- *)
Inductive pclass :=
| PExact          (* the stored bytes *)
| PEof            (* short header, or the decrypted data ends before the end of the frame *)
| PHeader         (* "file is not a valid store file" *)
| PNonce          (* "failed to read nonce" *)
| PGcm            (* "failed to decrypt block" *)
| PDecomp.        (* genuinely sealed blocks in another order reach the decompressor: its verdict, not modelled *)

(* a chunk is authentic iff it is exactly one whole sealed block of this file (and the nonce is the file's) *)
Definition chunk_block (L : N) (c : sfile) : option N :=
  match c with
  | [p] => match p_src p with
           | SBlk i => if piece_eqb p (blk_piece L i) then Some i else None
           | _ => None end
  | _ => None
  end.

Fixpoint s_pump (L : N) (okkey : bool) (next : N) (chunks : list sfile) : pclass :=
  if next =? nblocks L then PExact
  else match chunks with
       | [] => PEof
       | c :: cs => match chunk_block L c with
                    | Some i => if negb okkey then PGcm
                                else if i =? next then s_pump L okkey (next + 1) cs else PDecomp
                    | None => PGcm
                    end
       end.

Definition s_read (L : N) (otherpass : bool) (f : sfile) : pclass :=
  if s_len f <? header_len then PEof
  else match s_take header_len f with
       | [h] => if negb (piece_eqb h (mkP SHdr 0 header_len)) then PHeader
                else
                  let r := s_drop header_len f in
                  if s_len r <? nonce_len then PNonce
                  else
                    let nonce_ok := match s_take nonce_len r with
                                    | [q] => piece_eqb q (mkP SNonce 0 nonce_len) | _ => false end in
                    s_pump L (nonce_ok && negb otherpass) 0 (s_cut (block_size + gcm_overhead) (s_drop nonce_len r))
       | _ => PHeader
       end.

Definition predict (L : N) (c : corruption) : pclass :=
  let r := s_read L (match c with KOtherPass => true | _ => false end) (corrupt L c) in
  match c, r with
  | KFramePrefix, PExact => PEof     (* all blocks authentic, the decompressor still wants input at the end of the data *)
  | _, _ => r
  end.

(* ---- observations ---- *)
Inductive obs :=
| OExact | ODiff       (* no error: the stored bytes / other bytes *)
| OEof                 (* io.EOF / io.ErrUnexpectedEOF / "store file is truncated" *)
| OHeader | ONonce | OGcm
| OOther.              (* any other error (LZ4 reader) *)

Definition agree (p : pclass) (o : obs) : bool :=
  match p, o with
  | PExact, OExact => true
  | PEof, OEof => true
  | PHeader, OHeader => true
  | PNonce, ONonce => true
  | PGcm, OGcm => true
  | PDecomp, (OExact | ODiff | OEof | OGcm | OOther) => true
  | _, _ => false
  end.

(* c_fsize: size of the file as written by Set (before the corruption) *)
Record case := mkCase { c_id : N; c_clen : N; c_fsize : N; c_kind : corruption; c_obs : obs }.

(* List: one entry per regular file; names that are no IDs give the zero ID; if List filtered zero IDs they would be missing *)
Definition listing_ok (stored strays unparsable : N) (zero_stored : bool) (listed listed_zero : N) : bool :=
  let foreign_zero := if list_skips_foreign_names then 0 else unparsable in
  let foreign_listed := if list_skips_foreign_names then strays - unparsable else strays in
  let zeros := foreign_zero + (if zero_stored then 1 else 0) in
  if list_yields_every_file then (listed =? stored + foreign_listed) && (listed_zero =? zeros)
  else (listed =? stored + foreign_listed - zeros) && (listed_zero =? 0).

Definition case_ok (c : case) : bool :=
  match c_kind c with
  | KListing st sy un zs l lz => listing_ok st sy un zs l lz
  | _ =>
  (c_fsize c =? file_size (c_clen c)) && (s_len (intact (c_clen c)) =? c_fsize c)
  && agree (predict (c_clen c) (c_kind c)) (c_obs c)
  end.

Definition mismatches (cs : list case) : list N :=
  map c_id (filter (fun c => negb (case_ok c)) cs).
