package main

// Generation of histories. Every random choice comes from ctx.Rng.

import (
	"fmt"
	"strings"

	"verifharness/common"
)

type genState struct {
	rng      *common.Rng
	o        *oDB // oracle state used to pick mostly valid arguments
	nextMsg  int
	nextMbox int  // remote / name counter
	model    bool // only operations the Coq model covers
}

var flagPool = []string{`\Seen`, `\Flagged`, `\Answered`, `\Draft`, "Foo", "foo", "FOO", "bar", "x", "Y", "$Forwarded", "a,b", `\Deleted`, "kw1"}

func dedupCI(l []string) []string {
	var r []string
	for _, f := range l {
		if !hasCI(f, r) {
			r = append(r, f)
		}
	}
	return r
}

func (g *genState) flags(max int) []string {
	n := g.rng.Pick(max + 1)
	var l []string
	for i := 0; i < n; i++ {
		l = append(l, flagPool[g.rng.Pick(len(flagPool))])
	}
	return dedupCI(l)
}
func (g *genState) flag() string { return flagPool[g.rng.Pick(len(flagPool))] }

func (g *genState) box() int {
	if len(g.o.Mboxes) > 0 && !g.rng.Chance(0.07) {
		return g.o.Mboxes[g.rng.Pick(len(g.o.Mboxes))].ID
	}
	return g.o.MboxSeq + 1 + g.rng.Pick(2) // does not exist
}
func (g *genState) mboxRemote() int {
	if len(g.o.Mboxes) > 0 && !g.rng.Chance(0.15) {
		return g.o.Mboxes[g.rng.Pick(len(g.o.Mboxes))].Remote
	}
	return 7000 + g.rng.Pick(3)
}
func (g *genState) mboxNameIdx() int {
	if len(g.o.Mboxes) > 0 && !g.rng.Chance(0.15) {
		return g.o.Mboxes[g.rng.Pick(len(g.o.Mboxes))].Name
	}
	return 7000 + g.rng.Pick(3)
}
func (g *genState) msg() int {
	if len(g.o.Msgs) > 0 && !g.rng.Chance(0.1) {
		return g.o.Msgs[g.rng.Pick(len(g.o.Msgs))].ID
	}
	return 5000 + g.rng.Pick(3) // unknown message
}
func (g *genState) msgRemote() int {
	if len(g.o.Msgs) > 0 && !g.rng.Chance(0.15) {
		return g.o.Msgs[g.rng.Pick(len(g.o.Msgs))].Remote
	}
	return 5000 + g.rng.Pick(3)
}

// ids: a short list of message ids: mostly existing, sometimes unknown, sometimes repeated.
func (g *genState) ids(max int, allowUnknown bool) []int {
	n := g.rng.Pick(max + 1)
	var l []int
	for i := 0; i < n; i++ {
		if len(g.o.Msgs) > 0 && (!allowUnknown || !g.rng.Chance(0.08)) {
			l = append(l, g.o.Msgs[g.rng.Pick(len(g.o.Msgs))].ID)
		} else if allowUnknown {
			l = append(l, 5000+g.rng.Pick(3))
		}
	}
	if l == nil {
		l = []int{}
	}
	return l
}

func (g *genState) newReq() req {
	g.nextMsg++
	return req{ID: g.nextMsg, Remote: g.nextMsg, Flags: g.flags(3)}
}

func (g *genState) genOp() op {
	r := g.rng
	type w struct {
		k string
		w int
	}
	kinds := []w{
		{"CreateMailbox", 6}, {"GetOrCreateMailbox", 2}, {"DeleteMailbox", 2}, {"RenameMailbox", 2}, {"SetSubscribed", 2},
		{"SetUIDValidity", 1}, {"UpdateRemoteMailboxID", 1},
		{"CreateMessages", 8}, {"CreateMessageAndAdd", 6}, {"AddMessages", 8}, {"RemoveMessages", 6}, {"SetDeleted", 5},
		{"DeleteMessages", 3}, {"AddFlag", 6}, {"RemoveFlag", 6}, {"SetFlags", 6}, {"MarkDeleted", 2}, {"MarkDeletedRemote", 1},
		{"UpdateRemoteMessageID", 2}, {"ClearRecentOne", 2}, {"ClearRecentAll", 2},
		{"AddDeletedSubscription", 3}, {"RemoveDeletedSubscription", 1}, {"StoreSettings", 1},
		{"FilterContains", 4}, {"GetMessagesFlags", 4}, {"Translate", 2}, {"Snapshot", 5}, {"GetIDPairs", 2}, {"GetCountAndUID", 3},
		{"GetMailboxUID", 1}, {"GetMessageCount", 1}, {"GetRecentCount", 1}, {"GetDeletedSubscriptions", 3}, {"GetSettings", 1},
		{"MailboxExistsID", 2}, {"MailboxExistsRemote", 1}, {"MailboxExistsName", 1}, {"GetMailboxByID", 1}, {"GetMailboxByRemote", 1},
		{"GetMailboxByName", 1}, {"GetMailboxIDFromRemote", 1}, {"GetMailboxCount", 1}, {"GetAllMailboxRemoteIDs", 1},
		{"GetMailboxFlags", 2}, {"MessageExists", 1}, {"MessageExistsRemote", 1}, {"TotalMessageCount", 1}, {"GetMessageRemote", 1},
		{"GetMessageIDFromRemote", 1}, {"GetMessageDeleted", 1}, {"GetMessageMailboxes", 2}, {"GetMarkedDeleted", 1}, {"GetAllMessageIDs", 1},
	}
	if !g.model {
		kinds = append(kinds, []w{{"GetOrCreateMailboxAlt", 1}, {"CreateMailboxIfNotExists", 1}, {"MarkDeletedRandomRemote", 1},
			{"AddFlagsToAllMailboxes", 1}, {"AddPermFlagsToAllMailboxes", 1}, {"GetMailboxName", 1}, {"GetMailboxNameWithRemoteID", 1},
			{"GetAllMailboxesNameAndRemoteID", 1}, {"GetAllMailboxesWithAttr", 1}, {"GetMessageCountWithRemoteID", 1},
			{"GetMessageNoEdges", 1}, {"GetMessageDateAndSize", 1}, {"GetImportedMessageData", 1}}...)
	}
	tot := 0
	for _, k := range kinds {
		tot += k.w
	}
	x := r.Pick(tot)
	kind := ""
	for _, k := range kinds {
		if x < k.w {
			kind = k.k
			break
		}
		x -= k.w
	}
	o := op{K: kind}
	switch kind {
	case "CreateMailbox", "GetOrCreateMailbox", "GetOrCreateMailboxAlt", "CreateMailboxIfNotExists":
		if r.Chance(0.8) {
			g.nextMbox++
			o.N1, o.N2 = g.nextMbox, g.nextMbox
		} else { // collide with an existing remote id or name
			g.nextMbox++
			o.N1, o.N2 = g.nextMbox, g.nextMbox
			if r.Chance(0.5) {
				o.N1 = g.mboxRemote()
			} else {
				o.N2 = g.mboxNameIdx()
			}
		}
		o.N3 = 100 + r.Pick(50)
		o.Flags, o.Flags2, o.Flags3 = g.flags(2), g.flags(2), g.flags(1)
		if o.Flags == nil {
			o.Flags = []string{}
		}
	case "DeleteMailbox", "MailboxExistsRemote", "GetMailboxByRemote", "GetMailboxIDFromRemote", "GetMailboxNameWithRemoteID", "GetMessageCountWithRemoteID":
		o.N1 = g.mboxRemote()
	case "RenameMailbox":
		o.N1 = g.mboxRemote()
		if r.Chance(0.7) {
			g.nextMbox++
			o.N2 = g.nextMbox
		} else {
			o.N2 = g.mboxNameIdx()
		}
	case "SetSubscribed":
		o.Box, o.B = g.box(), r.Chance(0.5)
	case "SetUIDValidity":
		o.Box, o.N1 = g.box(), 200+r.Pick(50)
	case "UpdateRemoteMailboxID":
		o.Box = g.box()
		if r.Chance(0.7) {
			g.nextMbox++
			o.N1 = g.nextMbox
		} else {
			o.N1 = g.mboxRemote()
		}
	case "CreateMessages":
		n := r.Pick(4)
		o.Reqs = []req{}
		for i := 0; i < n; i++ {
			o.Reqs = append(o.Reqs, g.newReq())
		}
		if n > 0 && r.Chance(0.1) { // duplicate id or remote id
			q := o.Reqs[0]
			if r.Chance(0.5) && len(g.o.Msgs) > 0 {
				q = req{ID: g.o.Msgs[0].ID, Remote: 6000 + r.Pick(10)}
			} else {
				q.Flags = nil
			}
			o.Reqs = append(o.Reqs, q)
		}
	case "CreateMessageAndAdd":
		o.Box = g.box()
		q := g.newReq()
		if r.Chance(0.08) && len(g.o.Msgs) > 0 {
			q.Remote = g.o.Msgs[0].Remote
		}
		o.Reqs = []req{q}
	case "AddMessages":
		o.Box = g.box()
		o.Pairs = [][2]int{}
		for _, m := range g.ids(4, true) {
			rm := m
			if x := g.o.msg(m); x != nil {
				rm = x.Remote
			}
			if r.Chance(0.05) {
				rm = g.msgRemote()
			}
			o.Pairs = append(o.Pairs, [2]int{m, rm})
		}
	case "RemoveMessages", "FilterContains":
		o.Box, o.Ids = g.box(), g.ids(5, true)
	case "SetDeleted":
		o.Box, o.Ids, o.B = g.box(), g.ids(5, true), r.Chance(0.6)
	case "DeleteMessages", "GetMessagesFlags":
		o.Ids = g.ids(4, true)
	case "AddFlag", "RemoveFlag":
		o.Ids, o.Flag = g.ids(5, kind == "RemoveFlag" || r.Chance(0.3)), g.flag()
	case "SetFlags":
		o.Ids, o.Flags = g.ids(5, r.Chance(0.3)), g.flags(3)
		if o.Flags == nil {
			o.Flags = []string{}
		}
	case "Translate":
		n := r.Pick(4)
		o.Ids = []int{}
		for i := 0; i < n; i++ {
			o.Ids = append(o.Ids, g.mboxRemote())
		}
	case "MarkDeleted", "MessageExists", "GetMessageRemote", "GetMessageDeleted", "GetMessageMailboxes", "GetMessageNoEdges", "GetMessageDateAndSize", "GetImportedMessageData":
		o.N1 = g.msg()
	case "MarkDeletedRandomRemote":
		o.N1 = g.msg()
		g.nextMsg++
		o.N2 = 800000 + g.nextMsg
	case "MarkDeletedRemote", "MessageExistsRemote", "GetMessageIDFromRemote":
		o.N1 = g.msgRemote()
	case "UpdateRemoteMessageID":
		o.N1 = g.msg()
		if r.Chance(0.75) {
			g.nextMsg++
			o.N2 = 100000 + g.nextMsg
		} else {
			o.N2 = g.msgRemote()
		}
	case "ClearRecentOne":
		o.Box, o.N1 = g.box(), g.msg()
	case "ClearRecentAll", "Snapshot", "GetIDPairs", "GetCountAndUID", "GetMailboxUID", "GetMessageCount", "GetRecentCount", "MailboxExistsID", "GetMailboxByID", "GetMailboxName":
		o.Box = g.box()
	case "GetMailboxFlags":
		o.Box, o.N1 = g.box(), r.Pick(3)
	case "AddDeletedSubscription":
		if len(g.o.Subs) > 0 && r.Chance(0.4) {
			// a name that is already recorded: its remote id is replaced (fresh id, its own id again, or the id of another entry: UNIQUE)
			p := g.o.Subs[r.Pick(len(g.o.Subs))]
			o.N1 = p[0]
			switch x := r.Pick(10); {
			case x < 6:
				g.nextMbox++
				o.N2 = g.nextMbox
			case x < 8:
				o.N2 = p[1]
			default:
				o.N2 = g.o.Subs[r.Pick(len(g.o.Subs))][1]
			}
		} else if r.Chance(0.6) { // a fresh (name, remote id) pair: the table grows to several rows
			g.nextMbox++
			o.N1, o.N2 = g.nextMbox, g.nextMbox
		} else {
			o.N1, o.N2 = g.mboxNameIdx(), g.mboxRemote()
		}
	case "RemoveDeletedSubscription", "MailboxExistsName", "GetMailboxByName":
		o.N1 = g.mboxNameIdx()
	case "StoreSettings":
		o.N1 = r.Pick(100)
	case "AddFlagsToAllMailboxes", "AddPermFlagsToAllMailboxes":
		o.Flags = []string{"gf" + fmt.Sprint(r.Pick(3))}
		if r.Chance(0.3) {
			o.Flags = append(o.Flags, "gg")
		}
	}
	return o
}

// randomScenario builds a history by generating operations against the evolving oracle state.
func randomScenario(ctx *common.Ctx, name string, model bool, ntx int) scenario {
	g := &genState{rng: ctx.Rng, o: &oDB{}, model: model}
	sc := scenario{Name: name}
	// start with two mailboxes and a few messages so that most operations have something to work on
	boot := txn{}
	for i := 0; i < 2; i++ {
		g.nextMbox++
		boot.Ops = append(boot.Ops, op{K: "CreateMailbox", N1: g.nextMbox, N2: g.nextMbox, N3: 100 + i, Flags: []string{`\Seen`}, Flags2: []string{`\Seen`, `\Deleted`}})
	}
	cm := op{K: "CreateMessages"}
	for i := 0; i < 4; i++ {
		cm.Reqs = append(cm.Reqs, g.newReq())
	}
	boot.Ops = append(boot.Ops, cm)
	sc.Txs = append(sc.Txs, boot)
	applyTx := func(t *txn) {
		if t.ReadOnly {
			return
		}
		w := g.o.clone()
		for i := range t.Ops {
			if _, ec := w.apply(&t.Ops[i]); ec != errNone {
				return
			}
		}
		if !t.Abort {
			g.o = w
		}
	}
	applyTx(&sc.Txs[0])
	for i := 0; i < ntx; i++ {
		t := txn{}
		n := 1 + g.rng.Pick(4)
		t.ReadOnly = g.rng.Chance(0.12)
		t.Abort = !t.ReadOnly && g.rng.Chance(0.15)
		if t.Abort {
			t.AbortErr = g.rng.Pick(len(abortErrNames))
		}
		for len(t.Ops) < n {
			// arguments are chosen against the state the transaction has reached so far
			save := g.o
			w := g.o.clone()
			ok := true
			for k := range t.Ops {
				if _, ec := w.apply(&t.Ops[k]); ec != errNone {
					ok = false
				}
			}
			if ok {
				g.o = w
			}
			o := g.genOp()
			g.o = save
			if t.ReadOnly && writeOnly[o.K] {
				continue
			}
			t.Ops = append(t.Ops, o)
		}
		sc.Txs = append(sc.Txs, t)
		applyTx(&sc.Txs[len(sc.Txs)-1])
	}
	return sc
}

func seq(a, n int) []int {
	l := make([]int, n)
	for i := range l {
		l[i] = a + i
	}
	return l
}
func pairsOf(l []int) [][2]int {
	p := make([][2]int, len(l))
	for i, x := range l {
		p[i] = [2]int{x, x}
	}
	return p
}

func plainReqs(a, n int) []req {
	l := make([]req, n)
	for i := range l {
		l[i] = req{ID: a + i, Remote: a + i}
	}
	return l
}

// batchScenario exercises every bulk statement with n ids (n on either side of the chunk sizes).
func batchScenario(n int, variant int) scenario {
	sc := scenario{Name: fmt.Sprintf("batch-%d-v%d", n, variant), Batch: true}
	all := seq(1, n)
	half := n / 2
	var reqs []req
	for i := 1; i <= n; i++ {
		q := req{ID: i, Remote: i}
		if i <= half {
			q.Flags = []string{`\Seen`}
		} else {
			q.Flags = []string{"x", "Y"}
		}
		reqs = append(reqs, q)
	}
	sc.Txs = []txn{
		{Ops: []op{{K: "CreateMailbox", N1: 1, N2: 1, N3: 100, Flags: []string{}}, {K: "CreateMailbox", N1: 2, N2: 2, N3: 101, Flags: []string{}}}},
		{Ops: []op{{K: "CreateMessages", Reqs: reqs}, {K: "TotalMessageCount"}}},
		{Ops: []op{{K: "AddMessages", Box: 1, Pairs: pairsOf(all)}, {K: "GetCountAndUID", Box: 1}}},
		{Ops: []op{{K: "SetDeleted", Box: 1, Ids: all, B: true}, {K: "AddFlag", Ids: all, Flag: "z"}}, Abort: true, AbortErr: 2},
		{Ops: []op{{K: "SetDeleted", Box: 1, Ids: all, B: true}, {K: "AddFlag", Ids: all, Flag: "z"}, {K: "GetMessagesFlags", Ids: all}, {K: "FilterContains", Box: 1, Ids: all}}},
		{Ops: []op{{K: "SetFlags", Ids: all, Flags: []string{"a", "B"}}, {K: "Snapshot", Box: 1}}},
		{Ops: []op{{K: "RemoveFlag", Ids: all, Flag: "b"}, {K: "AddMessages", Box: 2, Pairs: pairsOf(all)}}},
		{Ops: []op{{K: "SetFlags", Ids: all, Flags: []string{}}, {K: "GetMessagesFlags", Ids: all}}},
		{Ops: []op{{K: "RemoveMessages", Box: 1, Ids: all}, {K: "GetMessageCount", Box: 1}, {K: "GetMessageMailboxes", N1: n}}},
		{Ops: []op{{K: "DeleteMessages", Ids: all}}}, // fails: the messages are still in mailbox 2
		{Ops: []op{{K: "RemoveMessages", Box: 2, Ids: all}, {K: "DeleteMessages", Ids: all}, {K: "TotalMessageCount"}}},
	}
	if variant == 1 {
		// partial overlaps: remove / flag only a tail that starts inside the first chunk
		tail := seq(n/3+1, n-n/3)
		sc.Txs = append(sc.Txs[:8],
			txn{Ops: []op{{K: "RemoveMessages", Box: 1, Ids: tail}, {K: "GetMessageCount", Box: 1}, {K: "FilterContains", Box: 1, Ids: all}}},
			txn{Ops: []op{{K: "SetDeleted", Box: 2, Ids: tail, B: true}, {K: "AddFlag", Ids: tail, Flag: "t"}, {K: "Snapshot", Box: 2}}},
			txn{Ops: []op{{K: "Translate", Ids: append(seq(3, n), 1, 2)}}, ReadOnly: true},
		)
	}
	return sc
}

// abortScenario: a fixed sequence of writes; for every position p the first p operations are executed and the
// callback then returns an error; nothing may remain. Finally the whole sequence commits.
func abortScenario(n int) scenario {
	sc := scenario{Name: fmt.Sprintf("abort-every-position-%d", n)}
	ids := seq(1, n)
	var reqs []req
	for _, i := range ids {
		reqs = append(reqs, req{ID: i, Remote: i, Flags: []string{"k"}})
	}
	ops := []op{
		{K: "CreateMailbox", N1: 2, N2: 2, N3: 7, Flags: []string{`\Seen`}, Flags2: []string{`\Seen`}, Flags3: []string{`\Noselect`}},
		{K: "CreateMessages", Reqs: reqs},
		{K: "AddMessages", Box: 2, Pairs: pairsOf(ids)},
		{K: "SetDeleted", Box: 2, Ids: ids, B: true},
		{K: "AddFlag", Ids: ids, Flag: "q"},
		{K: "SetFlags", Ids: ids, Flags: []string{"q", "r"}},
		{K: "RemoveFlag", Ids: ids, Flag: "Q"},
		{K: "CreateMessageAndAdd", Box: 2, Reqs: []req{{ID: n + 1, Remote: n + 1, Flags: []string{"n"}}}},
		{K: "RemoveMessages", Box: 2, Ids: ids},
		{K: "DeleteMessages", Ids: ids},
		{K: "StoreSettings", N1: 5},
		{K: "AddDeletedSubscription", N1: 9, N2: 9},
		{K: "SetSubscribed", Box: 1, B: false},
		{K: "DeleteMailbox", N1: 1},
	}
	sc.Txs = append(sc.Txs, txn{Ops: []op{{K: "CreateMailbox", N1: 1, N2: 1, N3: 5, Flags: []string{}}}})
	for p := 0; p <= len(ops); p++ {
		sc.Txs = append(sc.Txs, txn{Ops: append([]op{}, ops[:p]...), Abort: true, AbortErr: p % len(abortErrNames)})
	}
	sc.Txs = append(sc.Txs, txn{Ops: append([]op{}, ops...)})
	return sc
}

// corpus: minimised earlier failures and fixed probes of operations that no IMAP script reaches.
func corpusScenarios() []scenario {
	mk := func(name string, txs ...txn) scenario { return scenario{Name: "corpus-" + name, Txs: txs} }
	boot := txn{Ops: []op{{K: "CreateMailbox", N1: 1, N2: 1, N3: 5, Flags: []string{}}, {K: "CreateMessages", Reqs: []req{{ID: 1, Remote: 1, Flags: []string{"Foo"}}, {ID: 2, Remote: 2}, {ID: 3, Remote: 3}}}, {K: "AddMessages", Box: 1, Pairs: pairsOf([]int{1, 2, 3})}}}
	return []scenario{
		mk("mailbox-exists-with-id", boot, txn{Ops: []op{{K: "MailboxExistsID", Box: 1}, {K: "MailboxExistsID", Box: 9}}, ReadOnly: true}),
		mk("update-remote-message-id", boot, txn{Ops: []op{{K: "UpdateRemoteMessageID", N1: 1, N2: 77}, {K: "GetMessageRemote", N1: 1}, {K: "Snapshot", Box: 1}}}),
		mk("set-flags-three-messages", boot, txn{Ops: []op{{K: "SetFlags", Ids: []int{1, 2, 3}, Flags: []string{`\Seen`, "x"}}, {K: "GetMessagesFlags", Ids: []int{1, 2, 3}}}}),
		mk("set-flags-empty", boot, txn{Ops: []op{{K: "SetFlags", Ids: []int{1, 2}, Flags: []string{}}, {K: "GetMessagesFlags", Ids: []int{1, 2, 3}}}}),
		mk("remove-flag-other-case", boot, txn{Ops: []op{{K: "RemoveFlag", Ids: []int{1}, Flag: "foo"}, {K: "GetMessagesFlags", Ids: []int{1}}}}),
		mk("flag-with-comma", boot, txn{Ops: []op{{K: "AddFlag", Ids: []int{2}, Flag: "a,b"}, {K: "GetMessagesFlags", Ids: []int{2}}, {K: "Snapshot", Box: 1}}}),
		mk("delete-message-still-in-mailbox", boot, txn{Ops: []op{{K: "DeleteMessages", Ids: []int{1}}}}, txn{Ops: []op{{K: "RemoveMessages", Box: 1, Ids: []int{1}}, {K: "DeleteMessages", Ids: []int{1}}, {K: "GetAllMessageIDs"}}}),
		mk("remove-more-than-one-chunk", txn{Ops: []op{{K: "CreateMailbox", N1: 1, N2: 1, N3: 5, Flags: []string{}}, {K: "CreateMessages", Reqs: plainReqs(1, chunkLimit+5)}, {K: "AddMessages", Box: 1, Pairs: pairsOf(seq(1, chunkLimit+5))}}},
			txn{Ops: []op{{K: "RemoveMessages", Box: 1, Ids: seq(1, chunkLimit+5)}, {K: "GetMessageCount", Box: 1}}}),
		mk("mark-deleted-frees-the-remote-id", boot, txn{Ops: []op{{K: "MarkDeletedRandomRemote", N1: 2, N2: 800001}, {K: "MessageExistsRemote", N1: 2},
			{K: "GetMessageDeleted", N1: 2}, {K: "GetMessageRemote", N1: 2}, {K: "CreateMessages", Reqs: []req{{ID: 9, Remote: 2, Flags: []string{"again"}}}},
			{K: "GetMessageIDFromRemote", N1: 2}, {K: "GetMarkedDeleted"}}}),
		mk("create-and-add-with-deleted-flag", boot, txn{Ops: []op{{K: "CreateMailbox", N1: 2, N2: 2, N3: 6, Flags: []string{}},
			{K: "CreateMessageAndAdd", Box: 1, Reqs: []req{{ID: 4, Remote: 4, Flags: []string{`\Deleted`, "Foo"}}}},
			{K: "CreateMessageAndAdd", Box: 1, Reqs: []req{{ID: 5, Remote: 5, Flags: []string{`\deleted`}}}},
			{K: "Snapshot", Box: 1}, {K: "GetMessagesFlags", Ids: []int{4, 5}}, {K: "AddMessages", Box: 2, Pairs: pairsOf([]int{4, 5, 1})},
			{K: "SetDeleted", Box: 2, Ids: []int{5}, B: true}, {K: "Snapshot", Box: 2}}}),
		mk("deleted-subscriptions-0-1-2-5", txn{Ops: []op{{K: "GetDeletedSubscriptions"}}, ReadOnly: true},
			txn{Ops: []op{{K: "CreateMailbox", N1: 11, N2: 21, N3: 5, Flags: []string{}}, {K: "CreateMailbox", N1: 12, N2: 22, N3: 6, Flags: []string{}},
				{K: "CreateMailbox", N1: 13, N2: 23, N3: 7, Flags: []string{}}, {K: "CreateMailbox", N1: 14, N2: 24, N3: 8, Flags: []string{}},
				{K: "CreateMailbox", N1: 15, N2: 25, N3: 9, Flags: []string{}}, {K: "CreateMailbox", N1: 16, N2: 26, N3: 10, Flags: []string{}}, {K: "SetSubscribed", Box: 6, B: false}}},
			txn{Ops: []op{{K: "DeleteMailbox", N1: 11}, {K: "GetDeletedSubscriptions"}}},
			txn{Ops: []op{{K: "DeleteMailbox", N1: 12}, {K: "GetDeletedSubscriptions"}}},
			txn{Ops: []op{{K: "DeleteMailbox", N1: 16}, {K: "DeleteMailbox", N1: 13}, {K: "DeleteMailbox", N1: 14}, {K: "DeleteMailbox", N1: 15}, {K: "GetDeletedSubscriptions"}}},
			txn{Ops: []op{{K: "GetDeletedSubscriptions"}}, ReadOnly: true},
			txn{Ops: []op{{K: "RemoveDeletedSubscription", N1: 23}, {K: "AddDeletedSubscription", N1: 31, N2: 41}, {K: "CreateMailbox", N1: 50, N2: 22, N3: 3, Flags: []string{}}, {K: "GetDeletedSubscriptions"}}}),
		mk("deleted-subscription-recorded-twice",
			txn{Ops: []op{{K: "CreateMailbox", N1: 11, N2: 21, N3: 5, Flags: []string{}}, {K: "CreateMailbox", N1: 12, N2: 22, N3: 6, Flags: []string{}}}},
			txn{Ops: []op{{K: "DeleteMailbox", N1: 11}, {K: "AddDeletedSubscription", N1: 21, N2: 77}, {K: "GetDeletedSubscriptions"}}},
			txn{Ops: []op{{K: "AddDeletedSubscription", N1: 21, N2: 77}, {K: "AddDeletedSubscription", N1: 30, N2: 40}, {K: "AddDeletedSubscription", N1: 30, N2: 41},
				{K: "AddDeletedSubscription", N1: 21, N2: 78}, {K: "GetDeletedSubscriptions"}}},
			txn{Ops: []op{{K: "AddDeletedSubscription", N1: 21, N2: 41}}}, // the remote id of another entry: UNIQUE, rolled back
			txn{Ops: []op{{K: "DeleteMailbox", N1: 12}, {K: "RemoveDeletedSubscription", N1: 21}, {K: "AddDeletedSubscription", N1: 22, N2: 78}, {K: "GetDeletedSubscriptions"}}}),
		mk("every-read-returns-three-distinct-rows",
			txn{Ops: []op{
				{K: "CreateMailbox", N1: 31, N2: 41, N3: 101, Flags: []string{"fa", "fb", "fc"}, Flags2: []string{"pa", "pb", "pc"}, Flags3: []string{"aa", "ab", "ac"}},
				{K: "CreateMailbox", N1: 32, N2: 42, N3: 102, Flags: []string{"fd"}, Flags2: []string{"pd"}, Flags3: []string{"ad"}},
				{K: "CreateMailbox", N1: 33, N2: 43, N3: 103, Flags: []string{"fe", "ff"}, Flags2: []string{}, Flags3: []string{"ae", "af"}},
				{K: "SetSubscribed", Box: 2, B: false},
				{K: "CreateMessages", Reqs: []req{{ID: 1, Remote: 51, Flags: []string{"k1"}}, {ID: 2, Remote: 62, Flags: []string{"k2", "K3"}}, {ID: 3, Remote: 73, Flags: []string{`\Seen`, "k4", "k5"}}, {ID: 4, Remote: 84}}},
				{K: "AddMessages", Box: 1, Pairs: [][2]int{{3, 73}, {1, 51}, {2, 62}}},
				{K: "AddMessages", Box: 2, Pairs: [][2]int{{2, 62}, {4, 84}, {1, 51}}},
				{K: "AddMessages", Box: 3, Pairs: [][2]int{{1, 51}}},
				{K: "SetDeleted", Box: 1, Ids: []int{1}, B: true}, {K: "ClearRecentOne", Box: 1, N1: 2},
				{K: "MarkDeleted", N1: 1}, {K: "MarkDeleted", N1: 3}, {K: "MarkDeletedRemote", N1: 84},
				{K: "AddDeletedSubscription", N1: 91, N2: 81}, {K: "AddDeletedSubscription", N1: 92, N2: 82}, {K: "AddDeletedSubscription", N1: 93, N2: 83}}},
			txn{ReadOnly: true, Ops: []op{
				{K: "GetAllMailboxRemoteIDs"}, {K: "GetAllMailboxesNameAndRemoteID"}, {K: "GetAllMailboxesWithAttr"}, {K: "GetMailboxCount"},
				{K: "GetMailboxByID", Box: 1}, {K: "GetMailboxByID", Box: 2}, {K: "GetMailboxByRemote", N1: 33}, {K: "GetMailboxByName", N1: 42},
				{K: "GetMailboxFlags", Box: 1, N1: 0}, {K: "GetMailboxFlags", Box: 1, N1: 1}, {K: "GetMailboxFlags", Box: 1, N1: 2}, {K: "GetMailboxFlags", Box: 3, N1: 2},
				{K: "GetIDPairs", Box: 1}, {K: "GetIDPairs", Box: 2}, {K: "Snapshot", Box: 1}, {K: "Snapshot", Box: 2},
				{K: "FilterContains", Box: 2, Ids: []int{1, 2, 3, 4}}, {K: "GetMessagesFlags", Ids: []int{4, 3, 2, 1}}, {K: "Translate", Ids: []int{33, 31, 32, 99}},
				{K: "GetMessageMailboxes", N1: 1}, {K: "GetMarkedDeleted"}, {K: "GetAllMessageIDs"}, {K: "GetDeletedSubscriptions"},
				{K: "GetCountAndUID", Box: 2}, {K: "GetRecentCount", Box: 1}, {K: "GetMessageRemote", N1: 3}, {K: "GetMessageIDFromRemote", N1: 62},
				{K: "GetMessageNoEdges", N1: 2}, {K: "GetImportedMessageData", N1: 3}, {K: "GetMessageDateAndSize", N1: 4}, {K: "GetMailboxName", Box: 3},
				{K: "GetMailboxNameWithRemoteID", N1: 32}, {K: "GetMessageCountWithRemoteID", N1: 32}, {K: "GetMailboxIDFromRemote", N1: 33}}}),
		mk("delete-mailbox-subscription", boot, txn{Ops: []op{{K: "DeleteMailbox", N1: 1}, {K: "GetDeletedSubscriptions"}, {K: "GetMessageMailboxes", N1: 1}}}),
	}
}

// overlapScenario: several Client.Read calls overlap (the connection pool grows beyond the connection that Init
// configured), then histories whose result depends on ON DELETE CASCADE run on whatever connection the pool hands out.
func overlapScenario(ctx *common.Ctx, idx int) scenario {
	rng := ctx.Rng
	sc := scenario{Name: fmt.Sprintf("overlap-%d", idx), NoCoq: true, Batch: true}
	const n = 300
	var reqs []req
	for i := 1; i <= n; i++ {
		q := req{ID: i, Remote: i, Flags: []string{"k" + fmt.Sprint(i%3)}}
		if i%5 == 0 {
			q.Flags = append(q.Flags, `\Seen`)
		}
		reqs = append(reqs, q)
	}
	sc.Txs = append(sc.Txs,
		txn{Ops: []op{{K: "CreateMailbox", N1: 1, N2: 1, N3: 100, Flags: []string{`\Seen`}, Flags2: []string{`\Seen`}, Flags3: []string{`\Marked`}},
			{K: "CreateMailbox", N1: 2, N2: 2, N3: 101, Flags: []string{}}}},
		txn{Ops: []op{{K: "CreateMessages", Reqs: reqs}, {K: "AddMessages", Box: 1, Pairs: pairsOf(seq(1, n))}, {K: "AddMessages", Box: 2, Pairs: pairsOf(seq(1, n/2))}}})
	next := n
	live := seq(1, n) // messages still in mailbox 1
	for p := 0; p < 5; p++ {
		readers := 2 + rng.Pick(2)
		sc.Txs = append(sc.Txs, txn{Overlap: readers, Iters: 25, Last: rng.Pick(readers),
			Ops: []op{{K: "GetMessagesFlags", Ids: seq(1, n)}, {K: "Snapshot", Box: 1}, {K: "FilterContains", Box: 2, Ids: seq(1, n)}, {K: "GetMessageMailboxes", N1: live[0]}, {K: "GetMailboxFlags", Box: 1, N1: 2}}})
		// a mailbox comes and goes: its flag/attr rows and the membership rows must go with it
		mb := 10 + p
		some := live[:3]
		next++
		sc.Txs = append(sc.Txs,
			txn{Ops: []op{{K: "CreateMailbox", N1: mb, N2: mb, N3: 200 + p, Flags: []string{"mf"}, Flags2: []string{"pf"}, Flags3: []string{"at"}},
				{K: "AddMessages", Box: 3 + p, Pairs: pairsOf(some)},
				{K: "CreateMessageAndAdd", Box: 3 + p, Reqs: []req{{ID: next, Remote: next, Flags: []string{`\Deleted`, "n"}}}}}},
			txn{Ops: []op{{K: "DeleteMailbox", N1: mb}, {K: "GetMessageMailboxes", N1: some[0]}, {K: "GetMessageMailboxes", N1: next}, {K: "GetMailboxFlags", Box: 3 + p, N1: 0}}})
		// messages are purged: their flag rows and membership rows must go with them; the ids come back without flags
		gone := live[:4]
		live = live[4:]
		sc.Txs = append(sc.Txs,
			txn{Ops: []op{{K: "RemoveMessages", Box: 1, Ids: gone}, {K: "RemoveMessages", Box: 2, Ids: gone}}},
			txn{Ops: []op{{K: "DeleteMessages", Ids: append(append([]int{}, gone...), next)}, {K: "GetMessagesFlags", Ids: gone}}},
			txn{Ops: []op{{K: "CreateMessages", Reqs: plainReqs(gone[0], 2)}, {K: "GetMessagesFlags", Ids: gone}, {K: "GetMessageMailboxes", N1: gone[0]}}},
			txn{Ops: []op{{K: "DeleteMessages", Ids: gone[:2]}}})
	}
	return sc
}

// traced returns copies of the scenarios that run on a client with the tracing wrappers (Go oracle only).
func traced(l []scenario) []scenario {
	var out []scenario
	for _, sc := range l {
		c := sc
		c.Name += "+trace"
		c.Trace = true
		c.NoCoq = true
		out = append(out, c)
	}
	return out
}

func genScenarios(ctx *common.Ctx) []scenario {
	var scs []scenario
	scs = append(scs, corpusScenarios()...)
	scs = append(scs, traced(corpusScenarios())...)
	thorough := ctx.Tier == "thorough"
	scs = append(scs, abortScenario(3))
	scs = append(scs, traced([]scenario{abortScenario(3)})...)
	for i := 0; i < ctx.Budget(4, 30); i++ {
		sc := overlapScenario(ctx, i)
		sc.Trace = i%2 == 1
		scs = append(scs, sc)
	}
	if thorough {
		scs = append(scs, abortScenario(chunkLimit+1))
	}
	nModel, nFull, ntx := ctx.Budget(25, 250), ctx.Budget(25, 250), 14
	for i := 0; i < nModel; i++ {
		scs = append(scs, randomScenario(ctx, fmt.Sprintf("model-%d", i), true, ntx))
	}
	for i := 0; i < nFull; i++ {
		sc := randomScenario(ctx, fmt.Sprintf("full-%d", i), false, ntx)
		sc.Trace = i%2 == 1 // every other history goes through the tracing wrappers
		scs = append(scs, sc)
	}
	// batches: the sizes follow db.ChunkLimit (a changed limit moves every boundary, and the number of bind variables of
	// one statement grows with it)
	L := chunkLimit
	sizes := []int{L + 1}
	if thorough {
		sizes = []int{0, 1, L/2 - 1, L / 2, L/2 + 1, L - 1, L, L + 1, L + 2, L + L/2 - 1, L + L/2, L + L/2 + 1, 2*L - 1, 2 * L, 2*L + 1, 2*L + 2, 2*L + L/2}
	} else {
		// one more size on the other boundaries, varied by the seed
		extra := []int{L - 1, L, 2*L + 1, L/2 + 1, 2 * L, 2*L - 1, L / 2}
		sizes = append(sizes, extra[int(ctx.Seed)%len(extra)])
	}
	coqSizes := map[int]bool{0: true, 1: true, L / 2: true, L/2 + 1: true, L: true, L + 1: true, 2*L + 1: true}
	for i, n := range sizes {
		b := batchScenario(n, i%2)
		// the Coq model evaluates only some of the batches (vm_compute on 1000-element lists costs seconds per operation)
		b.NoCoq = (!thorough && i > 0) || (thorough && !coqSizes[n])
		b.Trace = !thorough && i > 0 // the second quick batch runs on the traced client
		scs = append(scs, b)
		if thorough {
			b2 := batchScenario(n, (i+1)%2)
			b2.NoCoq = true
			b2.Trace = true
			scs = append(scs, b2)
		}
	}
	if thorough {
		// SetFlagsOnMessages with many flags (statement variable limit of SQLite)
		var many []string
		for i := 0; i < 40; i++ {
			many = append(many, fmt.Sprintf("kw%d", i))
		}
		sc := batchScenario(L/2+100, 0)
		sc.Name = "setflags-many-flags"
		sc.Txs = append(sc.Txs[:3], txn{Ops: []op{{K: "SetFlags", Ids: seq(1, L/2+100), Flags: many}}}, txn{Ops: []op{{K: "SetFlags", Ids: seq(1, L/2+100), Flags: many[:30]}, {K: "GetMessagesFlags", Ids: seq(1, 3)}}})
		scs = append(scs, sc)
	}
	_ = strings.Join
	return scs
}
