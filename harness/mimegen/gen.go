// Package mimegen generates well-formed MIME messages from trees whose parts are known by construction
// (shared by the C12 and C13 harnesses), renders them to bytes while recording where every part lies, and
// holds the independent oracles on BODYSTRUCTURE / ENVELOPE texts.
package mimegen

import (
	"bytes"
	"fmt"
	"sort"
	"strings"

	"verifharness/common"
)

type Param struct{ K, V string }

type Addr struct{ Name, User, Domain string }

func (a Addr) Address() string { return a.User + "@" + a.Domain }

func (a Addr) render() string {
	if a.Name == "" {
		return a.Address()
	}
	if strings.ContainsAny(a.Name, " .") {
		return `"` + a.Name + `" <` + a.Address() + ">"
	}
	return a.Name + " <" + a.Address() + ">"
}

// Env holds the envelope relevant header fields; a nil list = header field absent.
type Env struct {
	// the field is written with an empty value (only if the value is "")
	EmptySubject, EmptyInReplyTo       bool
	Date, Subject                      string
	From, Sender, ReplyTo, To, Cc, Bcc []Addr
	InReplyTo, MsgID                   string
}

type Node struct {
	// Content-* headers ("" = absent)
	HasCT      bool // write a Content-Type header (otherwise the default text/plain applies)
	Type, Sub  string
	Params     []Param
	ID, Desc   string
	Enc, MD5   string
	Disp       string
	DispParams []Param
	Lang, Loc  string
	Env        *Env     // envelope headers (top level and embedded messages)
	Extra      []string // further header lines "Name: value" (no line end)
	RawLines   []string // header fields written verbatim (may contain folds), without the final line end
	Prelude    string   // a line without colon in front of the first header field (top level only)
	// content
	Bare     bool // a multipart child of length zero: no header, no blank line, no body
	NoClose  bool // multipart without its closing delimiter (and without epilogue)
	Body     []byte
	Children []*Node
	Boundary string
	Preamble []byte
	Epilogue []byte
	Embedded *Node
	// filled by Render: absolute positions in the rendered top-level message, the header field lines as written
	// (folding and line end included) with their names, in order
	HStart, BStart, End int
	HNames              []string
	Blank               []byte
	HLines              [][]byte
}

func (n *Node) IsMsg() bool   { return n.Type == "message" && n.Sub == "rfc822" }
func (n *Node) IsMulti() bool { return n.Type == "multipart" && len(n.Children) > 0 }

// Layout decides line ends and folding while rendering.
type Layout struct {
	Rng     *common.Rng
	MixEOL  bool // LF / CRLF mixed per line (otherwise CRLF)
	LF      bool // bare LF everywhere (MixEOL is then ignored)
	Fold    bool // fold header values at spaces (also directly behind the colon)
	LowerHN bool // vary the case of header names
}

func (l *Layout) eol() string {
	if l.LF {
		return "\n"
	}
	if l.MixEOL && l.Rng.Chance(0.4) {
		return "\n"
	}
	return "\r\n"
}

func (l *Layout) headerLine(buf *bytes.Buffer, name, value string) {
	if l.LowerHN {
		switch l.Rng.Pick(3) {
		case 0:
			name = strings.ToLower(name)
		case 1:
			name = strings.ToUpper(name)
		}
	}
	buf.WriteString(name)
	buf.WriteString(":")
	if value == "" {
		// empty value: nothing, or only blanks, between the colon and the line break
		buf.WriteString([]string{"", "", " ", " \t "}[l.Rng.Pick(4)])
		buf.WriteString(l.eol())
		return
	}
	if l.Fold && l.Rng.Chance(0.2) {
		// the value starts on the next line: "Name:" [blanks] EOL WSP value
		buf.WriteString([]string{"", " ", "  "}[l.Rng.Pick(3)])
		buf.WriteString(l.eol())
	}
	buf.WriteString(" ")
	if l.Fold {
		words := strings.Split(value, " ")
		for i, w := range words {
			if i > 0 {
				if l.Rng.Chance(0.3) {
					buf.WriteString(l.eol())
					if l.Rng.Chance(0.3) {
						buf.WriteString("\t")
					} else {
						buf.WriteString(" ")
					}
				} else {
					buf.WriteString(" ")
				}
			}
			buf.WriteString(w)
		}
	} else {
		buf.WriteString(value)
	}
	buf.WriteString(l.eol())
}

func paramString(ps []Param) string {
	var sb strings.Builder
	for _, p := range ps {
		sb.WriteString("; ")
		sb.WriteString(p.K)
		sb.WriteString("=")
		if strings.ContainsAny(p.V, " ;()<>@,:\\\"/[]?=") || p.V == "" {
			sb.WriteString(`"` + p.V + `"`)
		} else {
			sb.WriteString(p.V)
		}
	}
	return sb.String()
}

func addrList(as []Addr) string {
	s := make([]string, len(as))
	for i, a := range as {
		s[i] = a.render()
	}
	return strings.Join(s, ", ")
}

type hline struct{ name, value string }

func (n *Node) headerLines() []hline {
	var hs []hline
	if e := n.Env; e != nil {
		if e.Date != "" {
			hs = append(hs, hline{"Date", e.Date})
		}
		if e.From != nil {
			hs = append(hs, hline{"From", addrList(e.From)})
		}
		if e.Sender != nil {
			hs = append(hs, hline{"Sender", addrList(e.Sender)})
		}
		if e.ReplyTo != nil {
			hs = append(hs, hline{"Reply-To", addrList(e.ReplyTo)})
		}
		if e.To != nil {
			hs = append(hs, hline{"To", addrList(e.To)})
		}
		if e.Cc != nil {
			hs = append(hs, hline{"Cc", addrList(e.Cc)})
		}
		if e.Bcc != nil {
			hs = append(hs, hline{"Bcc", addrList(e.Bcc)})
		}
		if e.Subject != "" || e.EmptySubject {
			hs = append(hs, hline{"Subject", e.Subject})
		}
		if e.InReplyTo != "" || e.EmptyInReplyTo {
			hs = append(hs, hline{"In-Reply-To", e.InReplyTo})
		}
		if e.MsgID != "" {
			hs = append(hs, hline{"Message-Id", e.MsgID})
		}
	}
	if n.HasCT {
		ps := append([]Param{}, n.Params...)
		hs = append(hs, hline{"Content-Type", n.Type + "/" + n.Sub + paramString(ps)})
	}
	if n.ID != "" {
		hs = append(hs, hline{"Content-Id", n.ID})
	}
	if n.Desc != "" {
		hs = append(hs, hline{"Content-Description", n.Desc})
	}
	if n.Enc != "" {
		hs = append(hs, hline{"Content-Transfer-Encoding", n.Enc})
	}
	if n.MD5 != "" {
		hs = append(hs, hline{"Content-MD5", n.MD5})
	}
	if n.Disp != "" {
		hs = append(hs, hline{"Content-Disposition", n.Disp + paramString(n.DispParams)})
	}
	if n.Lang != "" {
		hs = append(hs, hline{"Content-Language", n.Lang})
	}
	if n.Loc != "" {
		hs = append(hs, hline{"Content-Location", n.Loc})
	}
	for _, x := range n.Extra {
		i := strings.Index(x, ":")
		hs = append(hs, hline{x[:i], strings.TrimPrefix(x[i+1:], " ")})
	}
	return hs
}

// render appends the node to buf; base is the absolute offset of buf[0] in the top-level message.
func (n *Node) render(buf *bytes.Buffer, l *Layout, top bool) {
	n.HStart = buf.Len()
	if n.Bare {
		n.HNames, n.HLines, n.Blank = nil, nil, nil
		n.BStart, n.End = n.HStart, n.HStart
		return
	}
	if n.Prelude != "" {
		buf.WriteString(n.Prelude)
		buf.WriteString(l.eol())
	}
	hs := n.headerLines()
	if !top || n.Env == nil {
		l.Rng.Shuffle(len(hs), func(i, j int) { hs[i], hs[j] = hs[j], hs[i] })
	} else if len(hs) > 2 {
		// keep Date first at top level (some clients do), shuffle the rest
		rest := hs[1:]
		l.Rng.Shuffle(len(rest), func(i, j int) { rest[i], rest[j] = rest[j], rest[i] })
	}
	n.HNames, n.HLines = nil, nil
	for _, h := range hs {
		start := buf.Len()
		l.headerLine(buf, h.name, h.value)
		n.HNames = append(n.HNames, h.name)
		n.HLines = append(n.HLines, append([]byte{}, buf.Bytes()[start:]...))
	}
	for _, raw := range n.RawLines {
		start := buf.Len()
		buf.WriteString(raw)
		buf.WriteString(l.eol())
		n.HNames = append(n.HNames, raw[:strings.Index(raw, ":")])
		n.HLines = append(n.HLines, append([]byte{}, buf.Bytes()[start:]...))
	}
	blankStart := buf.Len()
	buf.WriteString(l.eol()) // blank line
	n.Blank = append([]byte{}, buf.Bytes()[blankStart:]...)
	n.BStart = buf.Len()
	switch {
	case n.IsMsg() && n.Embedded != nil:
		n.Embedded.render(buf, l, false)
	case n.Type == "multipart" && len(n.Children) > 0:
		buf.Write(n.Preamble)
		for i, c := range n.Children {
			if i > 0 || len(n.Preamble) > 0 {
				buf.WriteString(l.eol())
			}
			buf.WriteString("--" + n.Boundary)
			buf.WriteString(l.eol())
			c.render(buf, l, false)
		}
		if !n.NoClose {
			buf.WriteString(l.eol())
			buf.WriteString("--" + n.Boundary + "--")
			if len(n.Epilogue) > 0 || l.Rng.Chance(0.7) {
				buf.WriteString(l.eol())
			}
			buf.Write(n.Epilogue)
		}
	default:
		buf.Write(n.Body)
	}
	n.End = buf.Len()
}

// Render produces the message bytes and fills the positions of all nodes.
func Render(n *Node, l *Layout) []byte {
	var buf bytes.Buffer
	n.render(&buf, l, true)
	return buf.Bytes()
}

// Walk visits all nodes (children and embedded messages), with their IMAP part paths where defined:
// the path of a multipart child is parent path + index; the embedded message of a message/rfc822 part shares the
// path of that part (its multipart children continue the numbering; a non-multipart embedded message has part 1).
func (n *Node) Walk(f func(x *Node)) {
	f(n)
	if n.Embedded != nil {
		n.Embedded.Walk(f)
	}
	for _, c := range n.Children {
		c.Walk(f)
	}
}

// ---------- generator ----------

type Gen struct {
	Rng      *common.Rng
	MaxDepth int
	MaxBody  int
	bcount   int
	encl     []string // boundaries of the enclosing multiparts
	used     map[string]bool
	// Prefix: boundaries that are proper prefixes of each other (outer of inner and vice versa) and body lines that
	// start with "--<enclosing boundary>" followed by more text (not delimiters: RFC 2046 5.1.1)
	Prefix bool
	ASCII  bool // only ASCII in strings (needed where the Coq model evaluates Quote)
	// C13: part numbering of a message whose own type is message/rfc822 is not exercised
	NoTopMsg bool
	TopMsg   bool // the message itself is of type message/rfc822
	// WideNames: header fields whose names use the whole set a field name may be made of: bytes 33..126 except ':'
	WideNames  bool
	NoMsgInMsg bool
	// with NoMsgInMsg: still generate chains message/rfc822 > message/rfc822 > ... that end in a single part
	MsgChainLeaf bool
	Bare         bool // zero-length multipart children
	NoClose      bool // multiparts without closing delimiter
	EmptyFields  bool // header fields that are read (Subject, In-Reply-To, Content-Description, Content-Type) with an empty value
}

var words = []string{"alpha", "beta", "gamma", "delta", "re:", "fwd", "hello", "world", "x", "report", "2024", "q&a", "[list]", "a+b", "50%", "it's"}

func (g *Gen) phrase(maxWords int) string {
	n := g.Rng.Range(1, maxWords)
	ws := make([]string, n)
	for i := range ws {
		ws[i] = words[g.Rng.Pick(len(words))]
	}
	s := strings.Join(ws, " ")
	if !g.ASCII && g.Rng.Chance(0.15) {
		s += " é"
	}
	if g.Rng.Chance(0.1) {
		s += ` "q"`
	}
	if g.Rng.Chance(0.08) {
		s += ` back\slash`
	}
	return s
}

var names = []string{"Alice", "Bob B", "Carol", "Dr. Dave", "eve", ""}
var users = []string{"alice", "bob", "carol.c", "dave+x", "eve_1"}
var domains = []string{"example.com", "ex.org", "mail.example.net"}

func (g *Gen) addr() Addr {
	return Addr{Name: names[g.Rng.Pick(len(names))], User: users[g.Rng.Pick(len(users))], Domain: domains[g.Rng.Pick(len(domains))]}
}

func (g *Gen) addrs(max int) []Addr {
	n := g.Rng.Range(1, max)
	as := make([]Addr, n)
	for i := range as {
		as[i] = g.addr()
	}
	return as
}

// EnvFor generates envelope headers; top-level messages must be acceptable to APPEND (Date and a single From).
func (g *Gen) EnvFor(top bool) *Env {
	e := &Env{}
	if top || g.Rng.Chance(0.7) {
		e.Date = []string{"Mon, 01 Jan 2024 10:00:00 +0000", "Tue, 2 Jul 2019 23:59:59 -0700", "1 Jan 1970 00:00:00 +0000"}[g.Rng.Pick(3)]
	}
	if top || g.Rng.Chance(0.7) {
		e.From = g.addrs(1)
	}
	if g.Rng.Chance(0.25) {
		e.Sender = g.addrs(1)
	}
	if g.Rng.Chance(0.25) {
		e.ReplyTo = g.addrs(2)
	}
	if g.Rng.Chance(0.7) {
		e.To = g.addrs(3)
	}
	if g.Rng.Chance(0.3) {
		e.Cc = g.addrs(2)
	}
	if g.Rng.Chance(0.15) {
		e.Bcc = g.addrs(1)
	}
	if g.Rng.Chance(0.8) {
		e.Subject = g.phrase(5)
	} else if g.EmptyFields && g.Rng.Chance(0.5) {
		e.EmptySubject = true
	}
	if g.Rng.Chance(0.3) {
		e.InReplyTo = fmt.Sprintf("<irt%d@ex.org>", g.Rng.Pick(1000))
	} else if g.EmptyFields && g.Rng.Chance(0.15) {
		e.EmptyInReplyTo = true
	}
	if g.Rng.Chance(0.6) {
		e.MsgID = fmt.Sprintf("<m%d@example.com>", g.Rng.Pick(100000))
	}
	return e
}

func (g *Gen) text(max int, eolMix bool) []byte {
	var sb bytes.Buffer
	n := g.Rng.Range(0, max)
	for sb.Len() < n {
		switch g.Rng.Pick(12) {
		case 0:
			if g.Prefix && len(g.encl) > 0 {
				// a line that starts like a delimiter of an enclosing multipart but goes on
				nl := "\r\n"
				if eolMix && g.Rng.Chance(0.5) {
					nl = "\n"
				}
				sb.WriteString(nl + "--" + g.encl[g.Rng.Pick(len(g.encl))] + []string{"x more", "#1", "y--", "-alt#"}[g.Rng.Pick(4)] + nl)
			} else {
				sb.WriteString("--not a boundary ")
			}
		case 1:
			sb.WriteString("-- ")
		case 2:
			if !g.ASCII {
				sb.Write([]byte{0xc3, 0xa9, 0xff, 0x00, 0x80})
			} else {
				sb.WriteString("~")
			}
		case 3, 4:
			if eolMix && g.Rng.Chance(0.5) {
				sb.WriteString("\n")
			} else {
				sb.WriteString("\r\n")
			}
		default:
			sb.WriteString(words[g.Rng.Pick(len(words))] + " ")
		}
	}
	b := sb.Bytes()
	// a body directly followed by a delimiter must not end in CR (the CRLF / LF in front of the delimiter belongs to it)
	for len(b) > 0 && b[len(b)-1] == '\r' {
		b = b[:len(b)-1]
	}
	return b
}

func (g *Gen) boundary() string {
	g.bcount++
	if g.Prefix && len(g.encl) > 0 && g.Rng.Chance(0.6) {
		outer := g.encl[len(g.encl)-1]
		cand := outer + []string{"-alt", "x", "2", ".x", "_=1"}[g.Rng.Pick(5)] // never "-": outer+"--" would be the closing delimiter of the outer
		if g.Rng.Chance(0.3) && len(outer) > 2 {
			cand = outer[:len(outer)-1] // the inner boundary is a proper prefix of the outer one
		}
		if g.used == nil {
			g.used = map[string]bool{}
		}
		if !g.used[cand] {
			g.used[cand] = true
			return cand
		}
	}
	k := g.Rng.Pick(4)
	if g.bcount >= 10 && (k == 0 || k == 3) {
		k = 1 // keep "XXn" from being a prefix of "XXnm"
	}
	b := ""
	switch k {
	case 0:
		b = fmt.Sprintf("XX%d", g.bcount)
	case 1:
		b = fmt.Sprintf("=_b%d_=", g.bcount)
	case 2:
		b = fmt.Sprintf("simple boundary %d", g.bcount)
	default:
		b = fmt.Sprintf("XX%dY", g.bcount) // XXn is a prefix of it
	}
	if g.used == nil {
		g.used = map[string]bool{}
	}
	if g.used[b] {
		b = fmt.Sprintf("=_u%d_=", g.bcount)
	}
	g.used[b] = true
	return b
}

func (g *Gen) contentExtras(n *Node) {
	if g.Rng.Chance(0.2) {
		n.ID = fmt.Sprintf("<cid%d@x>", g.Rng.Pick(1000))
	}
	if g.Rng.Chance(0.2) {
		n.Desc = g.phrase(3)
	}
	if g.Rng.Chance(0.3) {
		n.Enc = []string{"7bit", "8bit", "base64", "quoted-printable", "BASE64"}[g.Rng.Pick(5)]
	}
	if g.Rng.Chance(0.1) {
		n.MD5 = "Q2hlY2sgSW50ZWdyaXR5IQ=="
	}
	if g.Rng.Chance(0.3) {
		n.Disp = []string{"attachment", "inline"}[g.Rng.Pick(2)]
		if g.Rng.Chance(0.7) {
			n.DispParams = []Param{{"filename", []string{"a.txt", "my file.eml", "x"}[g.Rng.Pick(3)]}}
			if g.Rng.Chance(0.3) {
				n.DispParams = append(n.DispParams, Param{"size", "123"})
			}
		}
	}
	if g.Rng.Chance(0.15) {
		n.Lang = []string{"en", "en-US", "de"}[g.Rng.Pick(3)]
	}
	if g.Rng.Chance(0.1) {
		n.Loc = "http://example.com/a?b=c"
	}
	if g.Rng.Chance(0.3) {
		n.Extra = append(n.Extra, "X-Custom: "+g.phrase(3))
	}
	if g.Rng.Chance(0.1) {
		n.Extra = append(n.Extra, "X-Empty:")
	}
	if g.Rng.Chance(0.06) {
		// a fold that consists of white space only, and a value that starts on the next line
		n.RawLines = append(n.RawLines, "X-Ws: a\r\n \r\n\tb", "X-Late:\r\n late value")
	}
}

// Tree generates a MIME tree of at most the given depth. top: with envelope headers acceptable to APPEND.
func (g *Gen) Tree(depth int, top bool, eolMix bool) *Node {
	n := &Node{}
	if top {
		n.Env = g.EnvFor(true)
	}
	kind := g.Rng.Pick(10)
	if depth <= 0 && kind >= 5 {
		kind = g.Rng.Pick(5)
	}
	if top && g.NoTopMsg && kind >= 8 {
		kind = 5
	}
	if top && g.TopMsg {
		kind = 9
	}
	switch {
	case kind < 5: // leaf
		n.HasCT = g.Rng.Chance(0.8)
		n.Type, n.Sub = "text", "plain"
		if n.HasCT {
			ts := [][2]string{{"text", "plain"}, {"text", "html"}, {"application", "octet-stream"}, {"image", "png"}, {"text", "x-weird.1"},
				{"message", "delivery-status"}, {"message", "disposition-notification"}, {"message", "partial"}, {"message", "x-other"}}
			t := ts[g.Rng.Pick(len(ts))]
			n.Type, n.Sub = t[0], t[1]
			if g.Rng.Chance(0.6) {
				n.Params = append(n.Params, Param{"charset", []string{"utf-8", "us-ascii", "ISO-8859-1"}[g.Rng.Pick(3)]})
			}
			if g.Rng.Chance(0.3) {
				n.Params = append(n.Params, Param{"name", []string{"file.txt", "two words.bin"}[g.Rng.Pick(2)]})
			}
			if g.Rng.Chance(0.2) {
				n.Params = append(n.Params, Param{"format", "flowed"})
			}
			if g.Rng.Chance(0.5) {
				g.Rng.Shuffle(len(n.Params), func(i, j int) { n.Params[i], n.Params[j] = n.Params[j], n.Params[i] })
			}
		}
		g.contentExtras(n)
		n.Body = g.text(g.MaxBody, eolMix)
	case kind < 8: // multipart
		n.HasCT = true
		n.Type = "multipart"
		n.Sub = []string{"mixed", "alternative", "related", "x-custom"}[g.Rng.Pick(4)]
		n.Boundary = g.boundary()
		n.Params = []Param{{"boundary", n.Boundary}}
		if g.Rng.Chance(0.2) {
			n.Params = append([]Param{{"type", "text/html"}}, n.Params...)
		}
		if g.Rng.Chance(0.3) {
			n.Preamble = []byte("This is the preamble.")
		}
		if g.Rng.Chance(0.3) {
			n.Epilogue = []byte("epilogue text")
		}
		if g.Rng.Chance(0.2) {
			g.contentExtras(n)
			n.ID, n.Desc, n.Enc, n.MD5 = "", "", "", "" // not reported for multiparts
		}
		if g.NoClose && g.Rng.Chance(0.2) {
			n.NoClose, n.Epilogue = true, nil
		}
		g.encl = append(g.encl, n.Boundary)
		defer func() { g.encl = g.encl[:len(g.encl)-1] }()
		k := g.Rng.Range(1, 3)
		for i := 0; i < k; i++ {
			if g.Bare && g.Rng.Chance(0.12) && !(n.NoClose && i == k-1) {
				n.Children = append(n.Children, &Node{Bare: true, Type: "text", Sub: "plain"})
				continue
			}
			n.Children = append(n.Children, g.Tree(depth-1, false, eolMix))
		}
	default: // message/rfc822
		n.HasCT = true
		n.Type, n.Sub = "message", "rfc822"
		if g.Rng.Chance(0.4) {
			n.Params = []Param{{"name", "fwd.eml"}}
		}
		g.contentExtras(n)
		n.Embedded = g.Tree(depth-1, false, eolMix)
		for i := 0; g.NoMsgInMsg && n.Embedded.IsMsg() && i < 20; i++ {
			n.Embedded = g.Tree(depth-1, false, eolMix)
		}
		if g.NoMsgInMsg && n.Embedded.IsMsg() {
			n.Embedded = g.Tree(0, false, eolMix)
		}
		if g.MsgChainLeaf && g.Rng.Chance(0.35) {
			n.Embedded = g.msgChain(g.Rng.Range(1, 2), eolMix)
		}
		n.Embedded.Env = g.EnvFor(false)
	}
	if g.WideNames && !n.Bare && g.Rng.Chance(0.35) {
		for k := g.Rng.Range(1, 2); k > 0; k-- {
			n.Extra = append(n.Extra, g.wideName()+": "+g.phrase(2))
		}
	}
	if g.EmptyFields && !n.Bare {
		if n.Desc == "" && g.Rng.Chance(0.1) {
			n.Extra = append(n.Extra, "Content-Description:")
		}
		if !n.HasCT && g.Rng.Chance(0.1) {
			n.Extra = append(n.Extra, "Content-Type:")
		}
	}
	return n
}

// msgChain: k nested messages whose own type is message/rfc822, the innermost embedding a single part.
func (g *Gen) msgChain(k int, eolMix bool) *Node {
	n := &Node{HasCT: true, Type: "message", Sub: "rfc822"}
	g.contentExtras(n)
	if k > 1 {
		n.Embedded = g.msgChain(k-1, eolMix)
	} else {
		n.Embedded = g.Tree(0, false, eolMix)
	}
	n.Embedded.Env = g.EnvFor(false)
	return n
}

// ---------- expectations ----------

// CountLines: number of lines of a body as IMAP reports it ('\n' terminated lines plus an unterminated rest).
func CountLines(b []byte) int {
	n := bytes.Count(b, []byte{'\n'})
	if len(b) > 0 && b[len(b)-1] != '\n' {
		n++
	}
	return n
}

func SortedParams(ps []Param) []Param {
	r := append([]Param{}, ps...)
	sort.SliceStable(r, func(i, j int) bool { return r[i].K < r[j].K })
	return r
}

// EncodedWord returns an RFC 2047 encoded word: complete, truncated at any of its '?' positions, or malformed
// (missing charset / encoding / text, nested, blank or 8-bit inside) — for address and unstructured header fields whose
// value must be parsed to its end whatever it contains.
func EncodedWord(rng *common.Rng) string {
	charset := []string{"utf-8", "UTF-8", "iso-8859-1", "", "x"}[rng.Pick(5)]
	enc := []string{"q", "Q", "b", "B", "x", ""}[rng.Pick(6)]
	text := []string{"abc", "QUJD", "a_b=20c", "", "=?utf-8?q?in?=", "a b", "a\xc3\xa9"}[rng.Pick(7)]
	full := "=?" + charset + "?" + enc + "?" + text + "?="
	switch rng.Pick(6) {
	case 0:
		return full
	case 1:
		return full[:len(full)-2] // no closing ?=
	case 2:
		return full[:len(full)-1] // only one '?' of the closing
	case 3:
		return "=?" + charset + "?" + enc // ends behind the encoding
	case 4:
		return "=?" + charset // ends inside the charset
	default:
		return full[:rng.Range(2, len(full))] // cut anywhere
	}
}

// EncodedWordHeader returns a header line (without line end) of an address or unstructured field whose value contains,
// and often ends in, an encoded word of EncodedWord.
func EncodedWordHeader(rng *common.Rng) string {
	field := []string{"From", "To", "Cc", "Bcc", "Sender", "Reply-To", "Subject", "In-Reply-To", "Content-Description"}[rng.Pick(9)]
	w := EncodedWord(rng)
	switch rng.Pick(7) {
	case 0:
		return field + ": " + w
	case 1:
		return field + ": Bob " + w
	case 2:
		return field + ": Bob " + w + " <c@d>"
	case 3:
		return field + ": <" + w
	case 4:
		return field + ": grp: x@y, " + w
	case 5:
		return field + ": \"q\" " + w + " " + EncodedWord(rng)
	default:
		return field + ": a@b, " + w
	}
}

// wideName: a field name over the bytes 33..126 without ':' (in particular '~' = 126, '!' = 33, '}', '"', '(' ...), that
// can not be mistaken for a field the server reads.
func (g *Gen) wideName() string {
	var sb strings.Builder
	sb.WriteString("X")
	extremes := []byte{'~', '!', '}', '|', '{', '`', '"', '(', ')', '<', '>', '@', ',', ';', '\\', '/', '[', ']', '?', '=', '.', '#', '$', '%', '&', '\'', '*', '+', '^', '_', '-'}
	for k := g.Rng.Range(1, 5); k > 0; k-- {
		if g.Rng.Chance(0.6) {
			sb.WriteByte(extremes[g.Rng.Pick(len(extremes))])
		} else {
			b := byte(g.Rng.Range(33, 126))
			if b == ':' {
				b = '~'
			}
			sb.WriteByte(b)
		}
	}
	return sb.String()
}

// CorpusTrees: minimised inputs of defects that were found and fixed; the harnesses run them first.
//
//	0: multipart without closing delimiter whose last part has a line that begins like a delimiter (C12-fix-3, 3197c73)
//	1: message whose own type is message/rfc822, embedding a single part (C13-fix-4 f1bd2d2, C13-fix-5 c239f65)
//	2: message/rfc822 part embedding a single-part message (C13-fix-3 b5b7c00)
//	3: header field with an empty value in front of another field (C13-fix-2 b738809)
func CorpusTrees() []*Node {
	env := func(subject string) *Env {
		return &Env{Date: "Mon, 01 Jan 2024 10:00:00 +0000", From: []Addr{{"", "a", "example.com"}}, Subject: subject}
	}
	leaf := func(body string) *Node { return &Node{Type: "text", Sub: "plain", Body: []byte(body)} }
	mp := func(b string, noClose bool, cs ...*Node) *Node {
		return &Node{HasCT: true, Type: "multipart", Sub: "mixed", Boundary: b, Params: []Param{{"boundary", b}}, NoClose: noClose, Children: cs}
	}
	msg := func(e *Node) *Node { return &Node{HasCT: true, Type: "message", Sub: "rfc822", Embedded: e} }
	t0 := mp("b", true, leaf("one"), leaf("line 1 of part two\r\n--bX is not a delimiter\r\nline 3 of part two\r\n"))
	t0.Env = env("unterminated multipart")
	inner := leaf("inner body\r\n")
	inner.Env = &Env{From: []Addr{{"", "c", "example.org"}}, Subject: "inner"}
	t1 := msg(inner)
	t1.Env = env("outer")
	inner2 := leaf("inner body")
	inner2.Env = &Env{From: []Addr{{"", "c", "example.org"}}, Subject: "inner"}
	t2 := mp("XX", false, leaf("hello"), msg(inner2))
	t2.Env = env("forward")
	t3 := leaf("x")
	t3.Env = env("empty field")
	t3.Extra = []string{"X-Empty:"}
	return []*Node{t0, t1, t2, t3}
}
