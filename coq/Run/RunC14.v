(* Correspondence runner for C14: the harness writes the histories it ran on the real server (wire commands of
   several sessions, connector mailbox updates, LIST/LSUB) with the observed results; `mismatches` lists
   1000*case id + index of the first step on which the Impl model disagrees. *)
From Coq Require Import List NArith Bool.
From Gluon Require Export Model.MboxNames Model.WildcardSpec Model.MboxNamespace Model.MboxMatch.
Import ListNotations.
Open Scope N_scope.

Inductive hstep :=
| HOp (op : nop) (r : nres)
| HList (lsub : bool) (ref pat : name) (obs : list lmatch).   (* obs sorted by name *)

Inductive case :=
| CHist (id : nat) (d : N) (steps : list hstep)
| CMatch (id : nat) (d : N) (ref pat cand : name) (obs : option name).  (* Go: the regular expression of match() run by regexp *)

Definition nres_eqb (a b : nres) : bool := match a, b with ROk, ROk => true | RNo, RNo => true | _, _ => false end.

Fixpoint lm_insert (x : lmatch) (l : list lmatch) : list lmatch :=
  match l with [] => [x] | y :: t => if lex_leb (fst x) (fst y) then x :: l else y :: lm_insert x t end.
Definition lm_sort (l : list lmatch) : list lmatch := fold_right lm_insert [] l.
Fixpoint lm_eqb (a b : list lmatch) : bool :=
  match a, b with
  | [], [] => true
  | x :: a', y :: b' => name_eqb (fst x) (fst y) && Bool.eqb (snd x) (snd y) && lm_eqb a' b'
  | _, _ => false
  end.

Fixpoint check_steps (d : N) (st : nstate) (steps : list hstep) (i : nat) : option nat :=
  match steps with
  | [] => None
  | HOp op r :: t => let (st', r') := impl_step d st op in
                     if nres_eqb r r' then check_steps d st' t (S i) else Some i
  | HList lsub ref pat obs :: t =>
      if lm_eqb (lm_sort (impl_list d st lsub ref pat)) obs then check_steps d st t (S i) else Some i
  end.

Definition oname_eqb (a b : option name) : bool :=
  match a, b with None, None => true | Some x, Some y => name_eqb x y | _, _ => false end.

Definition case_bad (c : case) : list nat :=
  match c with
  | CHist id d steps => match check_steps d ns_init steps 0 with None => [] | Some i => [(1000 * id + i)%nat] end
  | CMatch id d ref pat cand obs => if oname_eqb (impl_match d ref pat cand) obs then [] else [(1000 * id)%nat]
  end.

Definition mismatches (cs : list case) : list nat := flat_map case_bad cs.
