(* C01 — A session's announced view always equals the view the server answers from.
   Full statement (property text): for every history, the mailbox a client reconstructs from the untagged EXISTS /
   EXPUNGE / FETCH responses agrees with the session's snapshot (count, seq->UID, every learnt flag set); UIDs strictly
   ascending; the count only shrinks through an announced EXPUNGE.
     C01_mirror_agrees (FULL, false for the faithful model — see C01_refuted / C01_world_refuted):
       forall rs s m, srt s -> agree m s = true -> run_responders rs s = Some (s', out) ->
         exists m', client_run rs s m = Some m' /\ agree m' s' = true
   (Merge: C01_merge_preserves_mirror below is unconditional apart from "Merge did not panic"; its EXISTS panic branch is
   excluded for legal streams by Proofs/MergeProofs.merge_with_exists_no_panic, the RECENT branch is only exercised.)
   What is proved: the statement under the in-order-arrival guard (guard_all: an EXISTS for a message not yet in the
   snapshot carries a UID above every UID in it; a .SILENT store is the session's own), for every sequence of
   responders of every length, every snapshot and every mirror — `_partial`; the refutation of the unguarded statement
   by a witness on the responder level and on the full world model (the history replayed on the server; known finding). *)
From Coq Require Import List NArith Bool.
From Gluon Require Import Model.Responders Model.Session Proofs.MirrorProofs Proofs.MergeProofs Proofs.PopProofs Proofs.MembershipProofs Proofs.CommuteProofs Proofs.InterleaveProofs Proofs.MirrorOrderProofs
  Proofs.SessionWitness Proofs.ReadOnlyProofs Proofs.LeaveProofs.
Import ListNotations.
Open Scope N_scope.

Theorem C01_mirror_agrees_partial : forall rs s s' out m,
  srt s -> agree m s = true -> guard_all rs s -> run_responders rs s = Some (s', out) ->
  exists m', client_run rs s m = Some m' /\ agree m' s' = true /\ srt s'.
Proof. exact mirror_run_responders. Qed.
Print Assumptions C01_mirror_agrees_partial.

(* one responder: agreement and sortedness are preserved (incl. \Recent, UID items, .SILENT stores, no-change fetches) *)
Theorem C01_step : forall r s s' out m m',
  srt s -> agree m s = true -> inorder r s -> rwf r ->
  handle r s = Some (s', out) -> msteps (client_after r s m) out = Some m' ->
  agree m' s' = true /\ srt s'.
Proof. exact mirror_step. Qed.
Print Assumptions C01_step.

(* the response stream is always legal for the client (EXISTS never below the count, EXPUNGE/FETCH within 1..count) *)
Theorem C01_stream_legal : forall r s s' out m,
  length m = length s -> handle r s = Some (s', out) -> exists m', msteps (client_after r s m) out = Some m'.
Proof. exact mirror_step_legal. Qed.
Print Assumptions C01_stream_legal.

Theorem C01_count_shrinks_only_by_expunge : forall r s s' out,
  handle r s = Some (s', out) -> (length s' < length s)%nat -> exists k, out = [PExpunge k].
Proof. exact count_shrinks_only_by_expunge. Qed.
Print Assumptions C01_count_shrinks_only_by_expunge.

(* response.Merge (what is actually written to the wire at the end of a flush): whenever the unmerged responses are a
   legal stream for a client, the merged responses are legal too and leave the client's mirror in the same state *)
Theorem C01_merge_preserves_mirror : forall rs rs' m m',
  merge rs = Some rs' -> msteps m rs = Some m' -> msteps m rs' = Some m'.
Proof. exact merge_preserves_mirror. Qed.
Print Assumptions C01_merge_preserves_mirror.

(* the unguarded statement is false for the faithful model *)
Theorem C01_refuted :
  srt refuted_snap /\ agree refuted_mirror refuted_snap = true /\
  exists s' out m',
    handle (RExists 10 1 [] false false) refuted_snap = Some (s', out) /\
    msteps refuted_mirror out = Some m' /\ agree m' s' = false.
Proof. exact mirror_refuted. Qed.
Print Assumptions C01_refuted.

(* ... and on the world model, with the history that was replayed on the real server (known finding C01-own-overtakes-queued) *)
(* EXISTS responders are handled in queue order (= UID order) whatever the flush: what a flush that must not send
   EXPUNGE handles of them is a prefix; once one is held back every later one is (repaired defect, fix 9640c73: a
   message put back under a lower UID used to be inserted below a newer message that had been announced meanwhile —
   sequence numbers shifted without an EXPUNGE, C01_old_policy_shifts_sequence_numbers; replayed on the server:
   corpus scenario held-readd-below-announced) *)
Theorem C01_exists_announced_in_queue_order : forall rs skip readd p q,
  pop_go false skip readd rs = (p, q) ->
  filter is_rexists p ++ filter is_rexists q = filter is_rexists rs.
Proof. exact pop_exists_in_order. Qed.
Print Assumptions C01_exists_announced_in_queue_order.

(* The observing session, any flush placement: foreign responders arrive in rounds, each followed by a flush that holds
   removals back (FETCH/STORE/SEARCH) or a permitting one; the EXISTS responders of the whole stream carry ascending
   UIDs above those of the snapshot (UIDs are handed out in increasing order). After the flushes the mailbox the client
   reconstructs from the untagged responses agrees with the snapshot the server answers from (count, seq -> UID, learnt
   flags) and the snapshot is UID-sorted. Since every prefix of a script is a script, this holds after EVERY flush.
   (Not covered: the session's own state-changing commands, refuted in general: C01_refuted.) *)
Theorem C01_observer_mirror_agrees_any_flush_placement : forall sc s res m lo,
  srt s -> agree m s = true -> all_le lo s ->
  ascending lo (ex_uids (res ++ script_queue sc)) ->
  Forall rwf (res ++ script_queue sc) -> Forall foreign_resp (res ++ script_queue sc) ->
  exists s' res' m', mirror_script sc s res m = Some (s', res', m') /\ agree m' s' = true /\ srt s'.
Proof. exact script_keeps_mirror. Qed.
Print Assumptions C01_observer_mirror_agrees_any_flush_placement.

Theorem C01_old_policy_shifts_sequence_numbers :
  client_agrees_after (pop_go_old [] below_queue) = Some false /\
  client_agrees_after (pop_responders false below_queue) = Some true /\
  filter is_rexists (fst (pop_go_old [] below_queue)) = [RExists 9 3 [] false false].
Proof. exact old_policy_shifts_sequence_numbers. Qed.
Print Assumptions C01_old_policy_shifts_sequence_numbers.

Theorem C01_world_refuted :
  exists m sn, mirror_after 2 1 c01_history 0 = (Some m, Some sn) /\ agree m sn = false /\
               map sm_uid sn = [1; 2] /\ map fst m = [Some 2; None].
Proof. exact c01_world_refuted. Qed.
Print Assumptions C01_world_refuted.

(* non-vacuity of the guard: a session with two messages receives a foreign message with a higher UID, a flag change
   and an expunge; the guard holds and the mirror keeps agreeing *)
(* leaving a mailbox (CLOSE, UNSELECT) and selecting the next one: CLOSE removes what EXPUNGE would remove but answers no
   EXPUNGE; afterwards the session has no snapshot and NOTHING pending, and the next SELECT starts from the database with
   nothing pending - what was queued for the old mailbox can never be answered from, or applied to, the next one *)
Theorem C01_close_leaves_nothing_pending : forall w i s sel w' out oc,
  get_sess w i = Some s -> ss_idle s = false -> ss_sel s = Some sel ->
  do_cmd w i CClose = (w', out, oc) -> oc = OOk ->
  same_db w' (fst (remove_rows w sel (deleted_here w sel (s_snap (ss_st s))))) /\
  (exists s', get_sess w' i = Some s' /\ left_mailbox s') /\
  forallb (fun r => negb (is_pexpunge r)) out = true.
Proof. exact close_leaves. Qed.
Print Assumptions C01_close_leaves_nothing_pending.

Theorem C01_unselect_leaves_nothing_pending : forall w i s sel,
  get_sess w i = Some s -> ss_idle s = false -> ss_sel s = Some sel ->
  exists w', do_cmd w i CUnselect = (w', [], OOk) /\ same_db w w' /\
             (exists s', get_sess w' i = Some s' /\ left_mailbox s' /\ ss_queue s' = ss_queue s) /\
             (forall j, j <> i -> get_sess w' j = get_sess w j).
Proof. exact unselect_leaves. Qed.
Print Assumptions C01_unselect_leaves_nothing_pending.

Theorem C01_select_starts_from_the_database : forall w i s mb,
  get_sess w i = Some s -> ss_idle s = false ->
  exists w' out, do_cmd w i (CSelect mb) = (w', out, OOk) /\
    exists s', get_sess w' i = Some s' /\ s_res (ss_st s') = [] /\ s_snap (ss_st s') = fresh_view w mb.
Proof. exact select_starts_clean. Qed.
Print Assumptions C01_select_starts_from_the_database.

Example C01_close_example :
  exists w', do_cmd lv_w0 0 CClose = (w', [PFetch 2 [3] None], OOk) /\ mbox_of w' 0 = [mkRow 2 2 false] /\
             option_map ss_sel (get_sess w' 0) = Some None.
Proof. exact close_example. Qed.

Example C01_guard_example :
  let s := [mkSmsg 1 1 [2]; mkSmsg 2 2 []] in
  let rs := [RExists 3 5 [0] false false; RFetch 1 [3] FAdd false false false; RExpunge 2] in
  srt s /\ guard_all rs s /\
  exists s' out, run_responders rs s = Some (s', out) /\ out = [PExists 3; PFetch 1 [2; 3] None; PExpunge 2].
Proof. cbn. repeat split; auto; try (intros; exact I); try discriminate. eexists _, _. split; reflexivity. Qed.
