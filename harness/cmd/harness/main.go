// Command harness runs one property's correspondence/oracle harness against the gluon build in /repo.
//   harness <Cxx> -out DIR -seed N -tier quick|thorough [-replay FILE]
package main

import (
	"flag"
	"fmt"
	"os"

	"verifharness/common"
)

type runner func(ctx *Ctx) error

type Ctx struct {
	Out    string
	Seed   int64
	Tier   string
	Replay string
	Rng    *common.Rng
	Res    *common.Result
	N      int // optional explicit budget
}

var runners = map[string]runner{}

func main() {
	if len(os.Args) < 2 {
		fmt.Fprintln(os.Stderr, "usage: harness <property> [flags]")
		os.Exit(2)
	}
	prop := os.Args[1]
	fs := flag.NewFlagSet(prop, flag.ExitOnError)
	out := fs.String("out", ".", "output directory")
	seed := fs.Int64("seed", 1, "seed")
	tier := fs.String("tier", "quick", "quick|thorough")
	replay := fs.String("replay", "", "replay file")
	n := fs.Int("n", 0, "budget override")
	fs.Parse(os.Args[2:])
	r, ok := runners[prop]
	if !ok {
		fmt.Fprintln(os.Stderr, "unknown property", prop)
		os.Exit(2)
	}
	os.MkdirAll(*out, 0o755)
	ctx := &Ctx{Out: *out, Seed: *seed, Tier: *tier, Replay: *replay, Rng: common.NewRng(*seed), Res: common.NewResult(prop, *seed, *tier), N: *n}
	err := r(ctx)
	if err != nil {
		ctx.Res.Infra("fatal: %v", err)
	}
	if werr := ctx.Res.Write(*out); werr != nil {
		fmt.Fprintln(os.Stderr, "write result:", werr)
		os.Exit(3)
	}
	if err != nil {
		fmt.Fprintln(os.Stderr, "harness error:", err)
		os.Exit(3)
	}
}

func (c *Ctx) Budget(quick, thorough int) int {
	if c.N > 0 {
		return c.N
	}
	if c.Tier == "thorough" {
		return thorough
	}
	return quick
}

// Message builds a small valid RFC 5322 message with a marker.
func Message(marker string, body string) []byte {
	return []byte("Date: Mon, 01 Jan 2024 10:00:00 +0000\r\nFrom: a@example.com\r\nTo: b@example.com\r\nSubject: " + marker + "\r\nX-Marker: " + marker + "\r\n\r\n" + body + "\r\n")
}
