(* C16 — the hand-written resolve_interval of Model/SeqSet.v IS the loop body of snapMsgList.resolveSeqInterval /
   resolveUIDInterval as translated from internal/state/snapshot_messages.go (Gen/FactsInterval.v, regenerated on every
   check): for every written range, every resolver and both modes the translated code yields the model's interval. *)
From Coq Require Import List NArith ZArith Bool Lia.
From Coq Require Import ZifyBool ZifyN.
From Gluon Require Import Gen.FactsInterval Gen.FactsResolve Model.SeqSet.
Import ListNotations.

(* command.SeqNum: 0 is "*", any other value the number itself (ParseSeqNumber only produces nz-numbers) *)
Definition enc (p : pnum) : Z := match p with PStar => 0%Z | PNum n => Z.of_N n end.
Definition dec (z : Z) : pnum := if (z =? 0)%Z then PStar else PNum (Z.to_N z).
Definition pnz (p : pnum) : Prop := match p with PStar => True | PNum n => n <> 0%N end.
Definition resZ (r : pnum -> N) (z : Z) : Z := Z.of_N (r (dec z)).
Definition pairZ (x : N * N) : Z * Z := (Z.of_N (fst x), Z.of_N (snd x)).

Lemma dec_enc p : pnz p -> dec (enc p) = p.
Proof.
  destruct p as [n|]; cbn [enc pnz]; [|reflexivity]. intros H. unfold dec.
  destruct (Z.eqb_spec (Z.of_N n) 0) as [A|A]; [lia|]. rewrite N2Z.id. reflexivity.
Qed.

Lemma resZ_enc r p : pnz p -> resZ r (enc p) = Z.of_N (r p).
Proof. intros H. unfold resZ. rewrite dec_enc by exact H. reflexivity. Qed.

Lemma enc_eqb b e : pnz b -> pnz e -> (enc b =? enc e)%Z = pnum_eqb b e.
Proof.
  destruct b as [x|], e as [y|]; cbn [enc pnum_eqb pnz]; intros Hb He; try reflexivity.
  - destruct (N.eqb_spec x y); lia.
  - lia.
  - lia.
Qed.

Lemma enc_star b : pnz b -> (enc b =? seqnum_asterisk_value)%Z = is_star b.
Proof. destruct b as [x|]; cbn [enc is_star pnz]; intros Hb; unfold seqnum_asterisk_value; [lia|reflexivity]. Qed.

Lemma interval_code_is_model (code : (Z -> Z) -> Z -> Z -> Z -> Z * Z) :
  code = seq_interval_code \/ code = uid_interval_code ->
  forall (r : pnum -> N) b e, pnz b -> pnz e ->
  code (resZ r) seqnum_asterisk_value (enc b) (enc e) = pairZ (resolve_interval r (b, e)).
Proof.
  intros Hc r b e Hb He.
  assert (H : seq_interval_code (resZ r) seqnum_asterisk_value (enc b) (enc e) = pairZ (resolve_interval r (b, e))).
  { unfold seq_interval_code, resolve_interval, pairZ.
    rewrite (enc_eqb b e Hb He), (enc_star b Hb), (enc_star e He), !resZ_enc by assumption.
    destruct (pnum_eqb b e); [reflexivity|].
    destruct (is_star b) eqn:Sb.
    - cbn [negb]. rewrite ?Sb. destruct (N.ltb_spec (r b) (r e)) as [A|A].
      + replace (Z.of_N (r b) <? Z.of_N (r e))%Z with true by lia. reflexivity.
      + replace (Z.of_N (r b) <? Z.of_N (r e))%Z with false by lia. reflexivity.
    - destruct (N.ltb_spec (r e) (r b)) as [A|A].
      + replace (Z.of_N (r e) <? Z.of_N (r b))%Z with true by lia. destruct (is_star e); reflexivity.
      + replace (Z.of_N (r e) <? Z.of_N (r b))%Z with false by lia. reflexivity. }
  destruct Hc as [->| ->]; [exact H|]. exact H.
Qed.

(* ---------- resolveSeq / resolveUID ---------- *)
Definition narrowZ (z : Z) : Z := (z mod 4294967296)%Z.

Lemma narrowZ_of_N n : narrowZ (Z.of_N n) = Z.of_N (narrow32 n).
Proof. unfold narrowZ, narrow32, two32. rewrite N2Z.inj_mod. reflexivity. Qed.

(* resolveSeq never fails and is the model's resolve_seq, narrowing included *)
Lemma resolve_seq_code_is_model cnt lastuid a : pnz a ->
  resolve_seq_code narrowZ (Z.of_N cnt) lastuid seqnum_asterisk_value (enc a) = Some (Z.of_N (resolve_seq cnt a)).
Proof.
  intros Ha. unfold resolve_seq_code. rewrite (enc_star a Ha).
  destruct a as [n|]; cbn [is_star enc resolve_seq]; rewrite narrowZ_of_N; reflexivity.
Qed.

(* resolveUID fails exactly on the empty view and otherwise is the model's resolve_uid *)
Lemma resolve_uid_code_is_model uids a : pnz a ->
  resolve_uid_code narrowZ (Z.of_nat (length uids)) (Z.of_N (last_uid uids)) seqnum_asterisk_value (enc a) =
  match uids with [] => None | _ => Some (Z.of_N (resolve_uid uids a)) end.
Proof.
  intros Ha. unfold resolve_uid_code. rewrite (enc_star a Ha).
  destruct uids as [|u t]; [reflexivity|].
  replace (Z.of_nat (length (u :: t)) =? 0)%Z with false by (cbn [length]; lia).
  destruct a as [n|]; cbn [is_star enc resolve_uid]; [rewrite narrowZ_of_N|]; reflexivity.
Qed.
