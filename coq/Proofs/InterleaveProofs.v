(* C02 / C05: a flush that must not send EXPUNGE holds back removals, re-additions and the flag changes of re-added
   messages, i.e. it handles the queued responders in ANOTHER order than they were queued. For every well-formed queue of
   foreign responders the view the session ends up with is nevertheless the one that handling everything in order gives:
   for one such flush followed by a permitting one (pop_reorder_view, two_flushes_in_order) and for any number of rounds
   "more updates arrive; flush (permitting or not)" that end with a permitting flush (script_in_order). *)
From Coq Require Import List NArith Bool Lia Arith Permutation.
From Gluon Require Import Model.Responders Model.Session Proofs.PopProofs Proofs.MirrorProofs Proofs.MembershipProofs
  Proofs.ViewProofs Proofs.StoreViewProofs Proofs.CommuteProofs.
Import ListNotations.
Open Scope N_scope.

(* handling the responders in the order given *)
Definition V (rs : list responder) (s : snap) : snap := fold_left (fun a r => resp_view r a) rs s.

Lemma V_app a b s : V (a ++ b) s = V b (V a s).
Proof. unfold V. apply fold_left_app. Qed.

(* ---------- popping permutes ---------- *)
Lemma pop_go_perm rs : forall skip readd p q, pop_go false skip readd rs = (p, q) -> Permutation rs (p ++ q).
Proof.
  induction rs as [|r t IH]; intros skip readd p q H.
  - cbn [pop_go] in H. injection H as <- <-. constructor.
  - apply pop_go_cons in H as (skip' & readd' & popped & p' & q' & _ & E & -> & ->).
    specialize (IH _ _ _ _ E). destruct popped.
    + cbn [app]. constructor. exact IH.
    + apply Permutation_cons_app. exact IH.
Qed.

(* ---------- wf under permutation / prefix ---------- *)
Lemma ex_uids_app a b : ex_uids (a ++ b) = ex_uids a ++ ex_uids b.
Proof. unfold ex_uids. apply flat_map_app. Qed.

Lemma wf_perm s a b : Permutation a b -> wf s a -> wf s b.
Proof.
  intros Hp (Hg & Hn & Ha & Hf).
  assert (Hpu : Permutation (ex_uids a) (ex_uids b)) by (unfold ex_uids; apply Permutation_flat_map; exact Hp).
  split; [exact Hg|]. split; [eapply Permutation_NoDup; eauto|].
  split; [eapply Permutation_Forall; eauto|eapply Permutation_Forall; eauto].
Qed.

Lemma nodup_app_l {A} (a b : list A) : NoDup (a ++ b) -> NoDup a.
Proof.
  induction a as [|x t IH]; cbn [app]; intros H; [constructor|]. inversion H as [|? ? Hn Hd]; subst.
  constructor; [intros Hin; apply Hn; apply in_or_app; left; exact Hin|apply IH; exact Hd].
Qed.

Lemma wf_app_l s a b : wf s (a ++ b) -> wf s a.
Proof.
  intros (Hg & Hn & Ha & Hf). rewrite ex_uids_app in Hn, Ha.
  split; [exact Hg|]. split; [eapply nodup_app_l; eauto|].
  split; [apply Forall_app in Ha; tauto|apply Forall_app in Hf; tauto].
Qed.

Lemma wf_steps a : forall b s, wf s (a ++ b) -> wf (V a s) b.
Proof.
  induction a as [|r t IH]; intros b s H; [exact H|]. cbn [app] in H. unfold V. cbn [fold_left]. apply IH. apply wf_step. exact H.
Qed.

Lemma wf_uids_differ s r r' t : wf s (r :: r' :: t) -> uids_differ r r'.
Proof.
  intros (_ & Hn & _ & _). unfold uids_differ, ex_uids in *. cbn [flat_map] in Hn.
  destruct (ex_uid r) as [u|]; [|exact I]. destruct (ex_uid r') as [u'|]; [|exact I].
  cbn [app] in Hn. inversion Hn as [|? ? Hnot _]; subst. intros ->. apply Hnot. left. reflexivity.
Qed.

(* ---------- a held responder moves behind the ones handled before it ---------- *)
Lemma move_held r p' : forall s, wf s (r :: p') ->
  (forall r', In r' p' -> conflict r r' = false /\ is_rexpunge r' = false) ->
  resp_view r (V p' s) = V p' (resp_view r s).
Proof.
  induction p' as [|r' t' IH]; intros s Hwf Hc; [reflexivity|].
  unfold V. cbn [fold_left]. fold (V t' (resp_view r' s)). fold (V t' (resp_view r' (resp_view r s))).
  assert (Hwf' : wf (resp_view r' s) (r :: t')).
  { apply wf_step. eapply wf_perm; [|exact Hwf]. apply perm_swap. }
  rewrite IH; [|exact Hwf'|intros x Hx; apply Hc; right; exact Hx].
  f_equal. symmetry.
  destruct Hwf as (Hg & Hn & Ha & Hf). inversion Hf as [|? ? Hfr Hft]; subst. inversion Hft as [|? ? Hfr' _]; subst.
  destruct (Hc r' (or_introl eq_refl)) as [Hcf Hex].
  apply commute; try assumption. apply (wf_uids_differ s r r' t'). split; [exact Hg|]. split; [exact Hn|]. split; [exact Ha|exact Hf].
Qed.

(* ---------- the bookkeeping of the pop ---------- *)
(* a message in readd is either waiting for its next re-addition (in skip) or the next thing about it is an expunge *)
Definition heldok (skip readd : list msgid) (rs : list responder) : Prop :=
  forall m, existsb (N.eqb m) readd = true -> existsb (N.eqb m) skip = true \/ nextexp m rs.

Lemma nextexp_skip m r t : about m r = false -> nextexp m (r :: t) -> nextexp m t.
Proof. unfold nextexp. cbn [filter]. intros ->. auto. Qed.

Lemma alt_tail m r t : alt m (r :: t) -> alt m t.
Proof. unfold alt. cbn [filter]. destruct (about m r); [cbn [alt_seq]; tauto|auto]. Qed.

Lemma alt_exists_next m u f tg og t : alt m (RExists m u f tg og :: t) -> nextexp m t.
Proof. unfold alt, nextexp. cbn [filter about]. rewrite N.eqb_refl. cbn [alt_seq is_rexists]. intros [H _]. apply H. reflexivity. Qed.

Lemma filter_nil_forall {A} (f : A -> bool) l : filter f l = [] -> forall x, In x l -> f x = false.
Proof. induction l as [|a t IH]; cbn [filter]; [intros _ x []|]. destruct (f a) eqn:E; [discriminate|].
  intros H x [<-|Hx]; [exact E|apply IH; assumption]. Qed.

Lemma held_state m skip rs : existsb (N.eqb m) skip = true \/ nextexp m rs ->
  existsb (N.eqb m) skip = true \/ (existsb (N.eqb m) skip = false /\ nextexp m rs).
Proof. destruct (existsb (N.eqb m) skip); [left; reflexivity|]. intros [H|H]; [discriminate|right; split; [reflexivity|exact H]]. Qed.

(* ---------- the main lemma ---------- *)
Theorem pop_reorder_view rs : forall skip readd p q s,
  wf s rs -> (forall m, alt m rs) -> heldok skip readd rs ->
  pop_go false skip readd rs = (p, q) -> V (p ++ q) s = V rs s.
Proof.
  induction rs as [|r t IH]; intros skip readd p q s Hwf Halt Hok H.
  - cbn [pop_go] in H. injection H as <- <-. reflexivity.
  - pose proof H as H0. apply pop_go_cons in H as (skip' & readd' & popped & p' & q' & Hs & E & -> & ->).
    assert (Halt' : forall m, alt m t) by (intros m; eapply alt_tail; apply Halt).
    assert (Hok' : heldok skip' readd' t).
    { intros m0 Hin. inversion Hs as [m Hr | m u f tg og Hr Hh | m u f tg og Hr Hh | m f op au si fo Hr Hh | m f op au si fo Hr Hh]; subst.
      - (* expunge held *)
        destruct (N.eqb_spec m0 m) as [->|Hne]; [left; cbn [existsb]; rewrite N.eqb_refl; reflexivity|].
        destruct (Hok m0 Hin) as [A|A].
        + left. cbn [existsb]. rewrite A. apply orb_true_r.
        + right. eapply nextexp_skip; [|exact A]. cbn [about]. apply N.eqb_neq. congruence.
      - (* exists held *)
        destruct (N.eqb_spec m0 m) as [->|Hne]; [right; eapply alt_exists_next; apply Halt|].
        cbn [existsb] in Hin. destruct (N.eqb_spec m0 m); [congruence|]. cbn [orb] in Hin.
        destruct (Hok m0 Hin) as [A|A].
        + left. rewrite skip_filter_other by congruence. exact A.
        + right. eapply nextexp_skip; [|exact A]. cbn [about]. apply N.eqb_neq. congruence.
      - (* exists popped *)
        destruct (Hok m0 Hin) as [A|A].
        + left. exact A.
        + destruct (N.eqb_spec m m0) as [->|Hne].
          * exfalso. unfold nextexp in A. cbn [filter about] in A. rewrite N.eqb_refl in A. discriminate.
          * right. eapply nextexp_skip; [|exact A]. cbn [about]. apply N.eqb_neq. exact Hne.
      - destruct (Hok m0 Hin) as [A|A]; [left; exact A|right; refine (nextexp_skip _ _ _ _ A); reflexivity].
      - destruct (Hok m0 Hin) as [A|A]; [left; exact A|right; refine (nextexp_skip _ _ _ _ A); reflexivity]. }
    assert (Hwf' : wf (resp_view r s) t) by (apply wf_step; exact Hwf).
    destruct popped.
    + (* handled now *)
      cbn [app]. unfold V at 1 2. cbn [fold_left]. apply (IH _ _ _ _ _ Hwf' Halt' Hok' E).
    + (* held back: it moves behind everything that is handled now *)
      rewrite V_app. unfold V at 1. cbn [fold_left]. fold (V q' (resp_view r (V p' s))).
      assert (Hperm : Permutation t (p' ++ q')) by (eapply pop_go_perm; exact E).
      assert (Hwfp : wf s (r :: p')).
      { apply (wf_app_l s (r :: p') q'). eapply wf_perm; [|exact Hwf]. cbn [app]. constructor. exact Hperm. }
      assert (Hnoexp : forall x, In x p' -> is_rexpunge x = false) by (eapply pop_go_false_no_expunge; exact E).
      rewrite move_held; [| exact Hwfp |].
      * rewrite <- V_app. unfold V at 2. cbn [fold_left]. apply (IH _ _ _ _ _ Hwf' Halt' Hok' E).
      * intros x Hx. split; [|apply Hnoexp; exact Hx].
        inversion Hs as [m Hr | m u f tg og Hr Hh | m u f tg og Hr Hh | m f op au si fo Hr Hh | m f op au si fo Hr Hh]; subst; cbn [conflict].
        -- (* expunge m held: nothing about m is handled *)
           assert (St : existsb (N.eqb m) (m :: skip) = true) by (cbn [existsb]; rewrite N.eqb_refl; reflexivity).
           destruct (pop_held_all m t _ _ _ _ St (Halt' m) E) as [A _]. eapply filter_nil_forall; eauto.
        -- (* exists m held *)
           assert (Hin : existsb (N.eqb m) (m :: readd) = true) by (cbn [existsb]; rewrite N.eqb_refl; reflexivity).
           destruct (pop_held_all_gen m t _ _ _ _ (Halt' m) (held_state _ _ _ (Hok' m Hin)) E) as [A _].
           rewrite (filter_nil_forall _ _ A x Hx). cbn [orb]. eapply pop_readd_holds_fetches; eauto.
        -- (* fetch m held: m is in readd *)
           destruct (pop_held_all_gen m t _ _ _ _ (Halt' m) (held_state _ _ _ (Hok' m Hh)) E) as [A _].
           rewrite (filter_nil_forall _ _ A x Hx). cbn [orb]. eapply pop_readd_holds_fetches; eauto.
Qed.

(* ---------- one restricted flush, then a permitting one ---------- *)
Lemma flush_raw_view permit st : Forall foreign_resp (s_res st) ->
  exists out, flush_raw permit st
              = Some (mkS (V (fst (pop_responders permit (s_res st))) (s_snap st)) (snd (pop_responders permit (s_res st))), out).
Proof.
  intros Hf. unfold flush_raw. destruct (pop_responders permit (s_res st)) as [p q] eqn:E. cbn [fst snd].
  assert (Hp : Forall foreign_resp p).
  { apply Forall_forall. intros r Hr. rewrite Forall_forall in Hf. apply Hf.
    unfold pop_responders in E. apply (pop_go_partition _ _ _ _ _ _ E). left. exact Hr. }
  destruct (run_responders_view p (s_snap st) Hp) as (out & ->). exists out. reflexivity.
Qed.

Lemma pop_true rs : pop_responders true rs = (rs, []).
Proof. unfold pop_responders. apply pop_go_true. Qed.

Lemma heldok_nil rs : heldok [] [] rs.
Proof. intros m H. discriminate. Qed.

Lemma wf_foreign s rs : wf s rs -> Forall foreign_resp rs.
Proof. intros (_ & _ & _ & H). exact H. Qed.

Theorem two_flushes_in_order s rs : wf s rs -> (forall m, alt m rs) ->
  exists st1 o1 st2 o2,
    flush_raw false (mkS s rs) = Some (st1, o1) /\ flush_raw true st1 = Some (st2, o2) /\
    s_res st2 = [] /\ s_snap st2 = V rs s.
Proof.
  intros Hwf Halt. destruct (pop_responders false rs) as [p q] eqn:E.
  destruct (flush_raw_view false (mkS s rs) (wf_foreign _ _ Hwf)) as (o1 & F1). cbn [s_res s_snap] in F1. rewrite E in F1. cbn [fst snd] in F1.
  assert (Hq : Forall foreign_resp q).
  { apply Forall_forall. intros r Hr. pose proof (wf_foreign _ _ Hwf) as Hf. rewrite Forall_forall in Hf. apply Hf.
    unfold pop_responders in E. apply (pop_go_partition _ _ _ _ _ _ E). right. exact Hr. }
  destruct (flush_raw_view true (mkS (V p s) q) Hq) as (o2 & F2). cbn [s_res s_snap] in F2. rewrite pop_true in F2. cbn [fst snd] in F2.
  eexists _, o1, _, o2. split; [exact F1|]. split; [exact F2|]. split; [reflexivity|]. cbn [s_snap].
  rewrite <- V_app. unfold pop_responders in E. eapply pop_reorder_view; eauto using heldok_nil.
Qed.

(* ---------- any number of rounds ---------- *)
Lemma alt_seq_suffix a : forall b, alt_seq (a ++ b) -> alt_seq b.
Proof. induction a as [|x t IH]; intros b H; [exact H|]. cbn [app alt_seq] in H. apply IH. tauto. Qed.

(* what stays queued after a restricted flush, followed by what arrives later, is still alternating *)
Lemma alt_remainder m rs more p q : alt m (rs ++ more) -> pop_go false [] [] rs = (p, q) -> alt m (q ++ more).
Proof.
  intros Halt E. unfold alt in *. rewrite filter_app in *.
  assert (Ha : alt m rs). { unfold alt. revert Halt. generalize (filter (about m) more). intros l.
    generalize (filter (about m) rs). intros a. revert l. induction a as [|x t IH]; intros l H; [exact I|].
    cbn [app alt_seq] in H |- *. destruct H as [H1 H2]. split; [|eapply IH; eauto]. intros Hx. specialize (H1 Hx).
    destruct t; [exact I|exact H1]. }
  destruct (pop_prefix m rs [] [] p q eq_refl Ha E) as [Hsplit _].
  rewrite <- Hsplit in Halt. rewrite <- app_assoc in Halt. eapply alt_seq_suffix; eauto.
Qed.

Definition script_queue (sc : script) : list responder := concat (map fst sc).

(* The session starts with snapshot s and nothing queued. In every round further (foreign) responders arrive and a flush
   follows — one that holds removals back (FETCH/STORE/SEARCH) or a permitting one. If the whole stream of responders is
   well-formed for s and the last flush is permitting, every flush succeeds, nothing stays queued and the snapshot is
   the one that handling the whole stream in order gives. *)
Theorem script_in_order sc : forall s res,
  wf s (res ++ script_queue sc) -> (forall m, alt m (res ++ script_queue sc)) ->
  (sc = [] -> res = []) ->
  (forall x, last (map snd sc) true = x -> x = true) ->
  exists st' out, run_script sc (mkS s res) = Some (st', out) /\ s_res st' = [] /\
                  s_snap st' = V (res ++ script_queue sc) s.
Proof.
  induction sc as [|[rs permit] t IH]; intros s res Hwf Halt Hnil Hlast.
  - rewrite (Hnil eq_refl). cbn [run_script script_queue map concat app V fold_left]. eexists _, _. repeat split.
  - cbn [run_script script_queue map concat fst] in *. fold (script_queue t) in *. unfold push. cbn [s_snap s_res].
    rewrite app_assoc in Hwf, Halt.
    destruct permit.
    + (* permitting flush: everything queued is handled in order *)
      destruct (flush_raw_view true (mkS s (res ++ rs)) (wf_foreign _ _ (wf_app_l _ _ _ Hwf))) as (o1 & F1).
      cbn [s_res s_snap] in F1. rewrite pop_true in F1. cbn [fst snd] in F1. rewrite F1.
      destruct (IH (V (res ++ rs) s) []) as (st' & out & R & Hres & Hsnap).
      * cbn [app]. apply wf_steps. exact Hwf.
      * intros m. cbn [app]. specialize (Halt m). unfold alt in *. rewrite filter_app in Halt. eapply alt_seq_suffix; eauto.
      * reflexivity.
      * intros x Hx. apply Hlast. cbn [map snd]. destruct t as [|y t']; [exact Hx|]. cbn [map last] in *. exact Hx.
      * rewrite R. eexists _, _. split; [reflexivity|]. split; [exact Hres|]. rewrite Hsnap. cbn [app]. rewrite <- V_app, app_assoc. reflexivity.
    + (* restricted flush *)
      destruct t as [|y t'].
      { exfalso. specialize (Hlast false). cbn [map snd last] in Hlast. specialize (Hlast eq_refl). discriminate. }
      destruct (pop_go false [] [] (res ++ rs)) as [p q] eqn:E.
      destruct (flush_raw_view false (mkS s (res ++ rs)) (wf_foreign _ _ (wf_app_l _ _ _ Hwf))) as (o1 & F1).
      cbn [s_res s_snap] in F1. unfold pop_responders in F1. rewrite E in F1. cbn [fst snd] in F1. rewrite F1.
      assert (Hperm : Permutation (res ++ rs) (p ++ q)) by (eapply pop_go_perm; exact E).
      destruct (IH (V p s) q) as (st' & out & R & Hres & Hsnap).
      * apply wf_steps. rewrite app_assoc. eapply wf_perm; [|exact Hwf]. apply Permutation_app_tail. exact Hperm.
      * intros m. eapply alt_remainder; [apply Halt|exact E].
      * intros Hc. discriminate Hc.
      * intros x Hx. apply Hlast. cbn [map snd last] in *. exact Hx.
      * rewrite R. eexists _, _. split; [reflexivity|]. split; [exact Hres|]. rewrite Hsnap.
        rewrite (app_assoc res rs). rewrite (V_app q), (V_app (res ++ rs)).
        f_equal. rewrite <- V_app. eapply pop_reorder_view; [eapply wf_app_l; exact Hwf| |apply heldok_nil|exact E].
        intros m. specialize (Halt m). unfold alt in *. rewrite filter_app in Halt.
        revert Halt. generalize (filter (about m) (script_queue (y :: t'))). generalize (filter (about m) (res ++ rs)).
        intros a. induction a as [|x0 t0 IHa]; intros l H; [exact I|].
        cbn [app alt_seq] in H |- *. destruct H as [H1 H2]. split; [|eapply IHa; eauto]. intros Hx0. specialize (H1 Hx0).
        destruct t0; [exact I|exact H1].
Qed.

(* ---------- the hypotheses are satisfiable: the queue of the repaired defect ---------- *)
Example wf_example :
  let s := [mkSmsg 1 1 []; mkSmsg 2 2 []] in
  let rs := [RExpunge 1; RExists 1 3 [] false false; RFetch 1 [5] FAdd false false false; RExists 7 4 [] false false] in
  wf s rs /\ (forall m, alt m rs) /\
  V rs s = [mkSmsg 2 2 []; mkSmsg 1 3 [5]; mkSmsg 7 4 []].
Proof.
  cbv zeta. split; [|split].
  - unfold wf, good. repeat split; cbn; try lia; try reflexivity.
    + repeat constructor; cbn; intuition discriminate.
    + repeat constructor; cbn; lia.
    + repeat constructor.
  - intros m. unfold alt. cbn [filter about]. destruct (N.eqb_spec 1 m), (N.eqb_spec 7 m); try lia; cbn; intuition (try discriminate; try reflexivity).
  - reflexivity.
Qed.

Lemma alt_prefix m a b : alt m (a ++ b) -> alt m a.
Proof.
  unfold alt. rewrite filter_app. generalize (filter (about m) b). generalize (filter (about m) a).
  intros x. induction x as [|x0 t0 IH]; intros l H; [exact I|].
  cbn [app alt_seq] in H |- *. destruct H as [H1 H2]. split; [|eapply IH; eauto]. intros Hx0. specialize (H1 Hx0).
  destruct t0; [exact I|exact H1].
Qed.

Lemma alt_suffix m a b : alt m (a ++ b) -> alt m b.
Proof. unfold alt. rewrite filter_app. apply alt_seq_suffix. Qed.
