// Harness for C11: arbitrary client bytes never crash, hang or bloat the server; every complete command line gets
// exactly one tagged completion with the line's tag; the session stays usable or closes after repeated errors; other
// sessions are unaffected.
//
// The gluon server runs in a CHILD PROCESS (this binary re-executed with -child) so that a panic is observable as an
// exit status. For every byte stream the parent: connects, (optionally logs in), writes the stream, half-closes the
// connection, reads everything until the server closes, and then checks
//
//	U1 the child is alive, U2 the server closed the connection (no hang), U3 the child does not burn CPU afterwards,
//	U4 resident memory stays under a ceiling, U5 a second, long-lived session still answers NOOP,
//	U6 never more completions than LF-terminated lines,
//	L  for line-structured streams: exactly one completion per line, with the line's tag, statuses where the property
//	   fixes them (BAD for a malformed line), the session closes only after 20 consecutive malformed lines / LOGOUT.
//
// cases.v: every stream with the observed list of completions (tag, status) for the ServeLoop model (Run/RunC11.v).
package main

import (
	"bufio"
	"bytes"
	"encoding/json"
	"fmt"
	"io"
	"net"
	"os"
	"regexp"
	"sort"
	"strconv"
	"strings"
	"sync"
	"time"

	"verifharness/common"
)

func main() {
	if len(os.Args) > 1 && os.Args[1] == "-child" {
		childMain()
		return
	}
	common.Main("C11", runC11)
}

// maxLegitCost: CPU ticks (1/100 s) of the most expensive stream of this run that ended normally (calibrates the SPIN budget)
var maxLegitCost int64

// spinSeen: SPIN verdicts so far in this run
var spinSeen int

const loginLine = "L0 LOGIN user pass\r\n"

type completion struct {
	Tag    string `json:"tag"`
	Status string `json:"status"`
}

type expect struct {
	Tag    string
	Status string // "" = any of OK/NO/BAD, otherwise alternatives separated by "|"
	Alt    string // a second acceptable tag (lines whose "tag" contains bytes that RFC 3501 does not allow in a tag)
	HasAlt bool
}

type stream struct {
	Name   string
	Login  bool
	Data   []byte
	Expect []expect // nil: no line oracle
	Lined  bool     // Expect is meaningful (may be empty)
	First  string   // weaker oracle: tag of the first completion after the login (used for the literal-size cases)
	NoTags bool     // do not judge completions at all (raw TLS hello: the server closes by design)
	Model  bool
	// Lines (optional, concatenation = Data): send line by line and require the completion of line i (Expect[i]) to
	// arrive WITHOUT any further input (10 s) before the next line is sent
	Lines [][]byte
	// for synchronising literals: NeedComp[i] / NeedCont[i] = completions / continuation requests that must have arrived
	// after piece Lines[i] before the next piece is sent (0 or missing: do not wait)
	NeedComp, NeedCont []int
}

type outcome struct {
	Completions  []completion
	Raw          []byte
	Closed       bool // server closed the connection
	Crash        bool
	Spin         bool
	Hang         bool
	ConnErr      string
	SpinCPU      float64 // CPU seconds the server had burnt on this stream when SPIN was declared
	WithheldCont int     // 1-based index of the first piece ending in a literal header that was not followed by a continuation request; 0 = none
	Withheld     int     // 1-based index of the first line whose completion did not arrive before more input was sent; 0 = none
}

var reCompletion = regexp.MustCompile(`^([^ ]*) (OK|NO|BAD)( .*)?$`)
var reLit = regexp.MustCompile(`\{(\d+)\}$`)

// parseResponses splits the server output into lines (honouring literals) and extracts the completion results.
func parseResponses(raw []byte) []completion {
	var out []completion
	i := 0
	for i < len(raw) {
		j := bytes.Index(raw[i:], []byte("\r\n"))
		if j < 0 {
			break
		}
		line := raw[i : i+j]
		i += j + 2
		if m := reLit.FindSubmatch(line); m != nil && (bytes.HasPrefix(line, []byte("* ")) || bytes.HasPrefix(line, []byte("+ "))) {
			if n, err := strconv.Atoi(string(m[1])); err == nil && i+n <= len(raw) {
				i += n
				continue // the rest of this response follows the literal; it cannot be a completion
			}
		}
		if bytes.HasPrefix(line, []byte("* ")) || bytes.HasPrefix(line, []byte("+ ")) || bytes.Equal(line, []byte("+")) {
			continue
		}
		if m := reCompletion.FindSubmatch(line); m != nil {
			out = append(out, completion{Tag: string(m[1]), Status: string(m[2])})
		}
	}
	return out
}

// runStream sends the bytes and collects the output until the server closes the connection.
func runStream(c *child, login bool, data []byte) outcome {
	return runStreamSteps(c, login, [][]byte{data}, nil)
}

// runStreamSteps sends the pieces one after the other; when need[i] >= 0 it sends piece i+1 (or half-closes) only after
// need[i] completions (not counting the login's) have arrived, waiting at most 10 s (then Withheld = i+1).
func runStreamSteps(c *child, login bool, pieces [][]byte, need []int, needCont ...int) outcome {
	var o outcome
	conn, err := net.DialTimeout("tcp", c.addr, 10*time.Second)
	if err != nil {
		o.ConnErr = err.Error()
		if c.waitDead(2 * time.Second) {
			o.Crash = true
		}
		return o
	}
	defer conn.Close()
	tcp := conn.(*net.TCPConn)
	var mu sync.Mutex
	var raw []byte
	count := func() int {
		mu.Lock()
		defer mu.Unlock()
		return len(parseResponses(raw))
	}
	conts := func() int { // continuation requests received so far ("+ ..." lines)
		mu.Lock()
		defer mu.Unlock()
		n := 0
		for _, l := range bytes.Split(raw, []byte("\r\n")) {
			if bytes.HasPrefix(l, []byte("+ ")) || bytes.Equal(l, []byte("+")) {
				n++
			}
		}
		return n
	}
	rdone := make(chan struct{})
	go func() {
		buf := make([]byte, 65536)
		for {
			n, err := tcp.Read(buf)
			mu.Lock()
			raw = append(raw, buf[:n]...)
			mu.Unlock()
			if err != nil {
				close(rdone)
				return
			}
		}
	}()
	wdone := make(chan [2]int, 1)
	go func() {
		withheld, withheldCont := 0, 0
		extra := 0
		tcp.SetWriteDeadline(time.Now().Add(120 * time.Second))
		if login {
			tcp.Write([]byte(loginLine))
			extra = 1
			if len(need) > 0 { // line-by-line mode: the stream proper starts after the login has been answered
				for dl := time.Now().Add(20 * time.Second); count() < 1 && time.Now().Before(dl); {
					select {
					case <-rdone:
						dl = time.Now()
					default:
						time.Sleep(200 * time.Microsecond)
					}
				}
			}
		}
		for i, p := range pieces {
			if _, err := tcp.Write(p); err != nil {
				break
			}
			if i < len(need) && need[i] >= 0 && withheld == 0 {
				deadline := time.Now().Add(10 * time.Second)
				for count() < need[i]+extra {
					select {
					case <-rdone:
						deadline = time.Now()
					default:
					}
					if time.Now().After(deadline) {
						if count() < need[i]+extra {
							withheld = i + 1
						}
						break
					}
					time.Sleep(200 * time.Microsecond)
				}
			}
			// synchronising literal: the client waits for the continuation request before it sends the literal data
			if i < len(needCont) && needCont[i] > 0 && withheld == 0 && withheldCont == 0 {
				deadline := time.Now().Add(10 * time.Second)
				for conts() < needCont[i] && count() < len(pieces)+extra+1000 {
					select {
					case <-rdone:
						deadline = time.Now()
					default:
					}
					if time.Now().After(deadline) {
						if conts() < needCont[i] {
							withheldCont = i + 1
						}
						break
					}
					time.Sleep(200 * time.Microsecond)
				}
			}
		}
		tcp.CloseWrite()
		wdone <- [2]int{withheld, withheldCont}
	}()
	// U2/U3: the server must close after our half-close.
	// SPIN is judged by what the SERVER consumes, not by wall-clock windows (the machine may be heavily loaded and a
	// deeply nested command legitimately costs seconds): the CPU time of the child since this stream began must stay
	// below a budget of 25 CPU-seconds or 6 x the most expensive stream that ended normally in this run, whichever is
	// larger. A parser that never stops passes any budget. HANG: no close 90 s after the half-close without that CPU use.
	cpu0 := c.cpuTicks()
	waited := 0 * time.Second
	closed := false
	for !closed {
		select {
		case <-rdone:
			closed = true
		case <-time.After(2 * time.Second):
			waited += 2 * time.Second
			if !c.alive() {
				tcp.SetReadDeadline(time.Now())
				<-rdone
				closed = true
				break
			}
			budget := int64(2500)
			if spinSeen >= 3 {
				budget = 800 // three streams have already been reported: do not spend 25 CPU-seconds on each further one
			}
			if b := 6 * maxLegitCost; b > budget {
				budget = b
			}
			if used := c.cpuTicks() - cpu0; cpu0 >= 0 && used >= budget {
				o.Spin = true
				spinSeen++
				o.SpinCPU = float64(used) / 100
			} else if waited >= 90*time.Second {
				o.Hang = true
			}
			if o.Spin || o.Hang {
				tcp.SetReadDeadline(time.Now())
				<-rdone
				closed = true
			}
		}
	}
	if !o.Spin && !o.Hang && cpu0 >= 0 {
		if used := c.cpuTicks() - cpu0; used > maxLegitCost {
			maxLegitCost = used
		}
	}
	o.Closed = !o.Spin && !o.Hang
	select {
	case w := <-wdone:
		o.Withheld, o.WithheldCont = w[0], w[1]
	case <-time.After(15 * time.Second):
	}
	// strip the greeting
	if i := bytes.Index(raw, []byte("\r\n")); i >= 0 && bytes.HasPrefix(raw, []byte("* OK")) {
		raw = raw[i+2:]
	}
	o.Raw = raw
	o.Completions = parseResponses(raw)
	if !c.alive() {
		o.Crash = true
	}
	return o
}

func countLF(b []byte) int { return bytes.Count(b, []byte("\n")) }

// STARTTLS is answered by the command reader goroutine itself, concurrently with the serve loop that may still be
// working on the previous command: its completion can overtake earlier ones. The order is deterministic only when
// STARTTLS is the very first line of the connection.
func racyStartTLS(s stream) bool {
	if len(s.Lines) > 0 {
		return false // sent line by line, each completion awaited: no overtaking
	}
	low := bytes.ToLower(s.Data)
	i := bytes.Index(low, []byte("starttls"))
	if i < 0 {
		return false
	}
	first := bytes.IndexByte(low, '\n')
	return s.Login || bytes.Count(low, []byte("starttls")) > 1 || (first >= 0 && i > first)
}

func sortedComps(cs []completion) []completion {
	out := append([]completion{}, cs...)
	sort.Slice(out, func(i, j int) bool {
		if out[i].Tag != out[j].Tag {
			return out[i].Tag < out[j].Tag
		}
		return out[i].Status < out[j].Status
	})
	return out
}

func compStr(cs []completion) string {
	p := make([]string, len(cs))
	for i, c := range cs {
		p[i] = fmt.Sprintf("%q %s", c.Tag, c.Status)
	}
	return "[" + strings.Join(p, ", ") + "]"
}

func statusOK(want, got string) bool {
	if want == "" {
		return true
	}
	for _, w := range strings.Split(want, "|") {
		if w == got {
			return true
		}
	}
	return false
}

// judge returns "" or a description of the violated clause (kind first).
func judge(s stream, o outcome) (string, string) {
	switch {
	case o.Crash:
		return "CRASH", "the server process died"
	case o.Spin:
		return "SPIN", fmt.Sprintf("connection not closed after the client's half-close and the server has burnt %.0f CPU-seconds on this stream (budget: 25 s or 6 x the most expensive stream that ended normally)", o.SpinCPU)
	case o.Hang:
		return "HANG", "connection not closed 90 s after the client's half-close"
	case o.ConnErr != "":
		return "CONNECT", o.ConnErr
	}
	cs := o.Completions
	if racyStartTLS(s) {
		// order-insensitive comparison: bring the login first, sort the rest and the expectation alike
		var l0, rest []completion
		for _, x := range cs {
			if s.Login && x.Tag == "L0" && len(l0) == 0 {
				l0 = append(l0, x)
			} else {
				rest = append(rest, x)
			}
		}
		cs = append(l0, sortedComps(rest)...)
		exp := append([]expect{}, s.Expect...)
		sort.Slice(exp, func(i, j int) bool { return exp[i].Tag < exp[j].Tag })
		s.Expect = exp
	}
	if s.Login {
		if len(cs) == 0 || cs[0].Tag != "L0" || cs[0].Status != "OK" {
			return "LOGIN", "the login that precedes the stream was not answered OK: " + compStr(cs)
		}
		cs = cs[1:]
	}
	if s.NoTags {
		return "", ""
	}
	if n := countLF(s.Data); len(cs) > n {
		return "EXTRA-COMPLETIONS", fmt.Sprintf("%d completions for %d line ends: %s", len(cs), n, compStr(cs))
	}
	if s.First != "" {
		if len(cs) == 0 || cs[0].Tag != s.First {
			return "COMPLETION", fmt.Sprintf("first completion must carry tag %q, got %s", s.First, compStr(cs))
		}
	}
	if o.WithheldCont > 0 {
		return "WITHHELD-CONTINUATION", fmt.Sprintf("no continuation request (\"+ ...\") within 10 s after the literal header that ends piece %d: a client that waits for it, as RFC 3501 requires for a synchronising literal, is stuck with the server (completions so far: %s)", o.WithheldCont, compStr(cs))
	}
	if o.Withheld > 0 && s.Lined && !racyStartTLS(s) {
		return "WITHHELD", fmt.Sprintf("the completion of line %d was not sent within 10 s although the line is complete; it needs further input from the client (completions so far: %s)", o.Withheld, compStr(cs))
	}
	if s.Lined {
		if len(cs) != len(s.Expect) {
			var w []string
			for _, e := range s.Expect {
				w = append(w, fmt.Sprintf("%q %s", e.Tag, e.Status))
			}
			return "COMPLETION", fmt.Sprintf("want %d completions [%s], got %s", len(s.Expect), strings.Join(w, ", "), compStr(cs))
		}
		for i, e := range s.Expect {
			if cs[i].Tag != e.Tag && !(e.HasAlt && cs[i].Tag == e.Alt) {
				return "COMPLETION", fmt.Sprintf("completion %d: want tag %q, got %q %s (all: %s)", i+1, e.Tag, cs[i].Tag, cs[i].Status, compStr(cs))
			}
			if !statusOK(e.Status, cs[i].Status) {
				return "COMPLETION", fmt.Sprintf("completion %d (tag %q): want %s, got %s", i+1, e.Tag, e.Status, cs[i].Status)
			}
		}
	}
	return "", ""
}

type caseRec struct {
	Name   string `json:"name"`
	Login  bool   `json:"login"`
	Stream string `json:"stream"`
	Got    string `json:"got"`
}

func clip(b []byte, n int) string {
	if len(b) <= n {
		return fmt.Sprintf("%q", b)
	}
	return fmt.Sprintf("%q...(%d bytes)", b[:n], len(b))
}

func runC11(ctx *common.Ctx) error {
	res := ctx.Res
	rng := ctx.Rng
	res.Rule = "byte streams sent to a server in a child process, before and after LOGIN: scripted defect shapes, every truncation point of valid commands, oversized numbers/literals, deep nesting (<= 64 KiB), EOF inside token/quoted/literal, binary garbage, raw TLS hello, random streams of valid and malformed lines (incl. >= 20 consecutive malformed); non-trivial = distinct streams that contain at least one malformed or incomplete command"
	tlsMode := false
	c, err := startChild(false)
	if err != nil {
		return err
	}
	defer func() {
		if c != nil {
			c.stop()
		}
	}()
	var watcher net.Conn
	openWatcher := func() error {
		w, err := net.DialTimeout("tcp", c.addr, 10*time.Second)
		if err != nil {
			return err
		}
		w.SetDeadline(time.Now().Add(20 * time.Second))
		buf := make([]byte, 4096)
		if _, err := w.Read(buf); err != nil {
			return err
		}
		w.Write([]byte("W0 LOGIN user pass\r\n"))
		acc := []byte{}
		for !bytes.Contains(acc, []byte("W0 OK")) {
			n, err := w.Read(buf)
			if err != nil {
				return fmt.Errorf("watcher login: %v %q", err, acc)
			}
			acc = append(acc, buf[:n]...)
		}
		watcher = w
		return nil
	}
	if err := openWatcher(); err != nil {
		return err
	}
	wn := 0
	// U5: the long-lived second session answers NOOP
	watcherOK := func() string {
		wn++
		tag := fmt.Sprintf("W%d", wn)
		watcher.SetDeadline(time.Now().Add(30 * time.Second))
		if _, err := watcher.Write([]byte(tag + " NOOP\r\n")); err != nil {
			return "write: " + err.Error()
		}
		acc := []byte{}
		buf := make([]byte, 4096)
		for !bytes.Contains(acc, []byte(tag+" OK")) {
			n, err := watcher.Read(buf)
			if err != nil {
				return fmt.Sprintf("read: %v after %q", err, acc)
			}
			acc = append(acc, buf[:n]...)
		}
		return ""
	}
	restart := func() error {
		if watcher != nil {
			watcher.Close()
		}
		if c.alive() {
			c.kill()
		}
		nc, err := startChild(tlsMode)
		if err != nil {
			c = nil
			return err
		}
		c = nc
		return openWatcher()
	}

	baseRSS := c.rssKiB()
	const rssCeilKiB = 700 * 1024 // growth allowed over the idle server (a 30 MiB literal buffer may be live)
	var lines []string
	nextID := 0
	severe := 0
	// the case file is elaborated by Coq at ~30 us per byte: bound what goes to the model (the oracles still see everything)
	modelBytes, modelBudget := 0, ctx.Budget(450_000, 1_500_000)
	var batch []stream

	emit := func(s stream, o outcome) {
		if !s.Model || o.Crash || o.Spin || o.Hang || o.ConnErr != "" || racyStartTLS(s) {
			return
		}
		data := s.Data
		if s.Login {
			data = append([]byte(loginLine), data...)
		}
		if len(data) > 20000 || modelBytes+len(data) > modelBudget {
			res.Count("not-sent-to-model:size-budget")
			return
		}
		modelBytes += len(data)
		nextID++
		obs := make([]string, len(o.Completions))
		for i, cp := range o.Completions {
			st := map[string]int{"BAD": 0, "NO": 1, "OK": 2}[cp.Status]
			obs[i] = fmt.Sprintf("(%s, %d)", common.CoqHex([]byte(cp.Tag)), st)
		}
		lines = append(lines, fmt.Sprintf("mkCase %d %s %s [%s]", nextID, common.CoqBool(tlsMode), common.CoqHex(data), strings.Join(obs, "; ")))
	}

	withheldSeen := 0
	var one func(s stream, shrinkable bool) (string, outcome)
	one = func(s stream, shrinkable bool) (string, outcome) {
		pre := "pre-login"
		if s.Login {
			pre = "post-login"
		}
		ctx.Current(fmt.Sprintf("%s %s stream=%s", s.Name, pre, clip(s.Data, 300)), nil)
		var o outcome
		if withheldSeen >= 3 && (strings.HasPrefix(s.Name, "lines:") || strings.HasPrefix(s.Name, "prefix-line:")) {
			s.Lines = nil // enough evidence; do not spend 10 s per further random stream
		}
		if len(s.Lines) > 0 && len(s.NeedCont) > 0 {
			need := make([]int, len(s.Lines))
			for i := range need {
				need[i] = -1
				if i < len(s.NeedComp) && s.NeedComp[i] > 0 {
					need[i] = s.NeedComp[i]
				}
			}
			o = runStreamSteps(c, s.Login, s.Lines, need, s.NeedCont...)
		} else if len(s.Lines) > 0 && s.Lined {
			need := make([]int, len(s.Lines))
			for i := range need {
				need[i] = -1
				if i < len(s.Expect) {
					need[i] = i + 1
				}
			}
			o = runStreamSteps(c, s.Login, s.Lines, need)
		} else {
			o = runStream(c, s.Login, s.Data)
		}
		kind, detail := judge(s, o)
		if kind == "WITHHELD" {
			withheldSeen++
		}
		if !o.Crash && !o.Spin && !o.Hang {
			// U5 (and the way a crash that happened a moment ago becomes visible): always probe the second session
			if msg := watcherOK(); msg != "" {
				if c.waitDead(2 * time.Second) {
					kind, detail = "CRASH", "the server process died"
					o.Crash = true
				} else if kind == "" {
					kind, detail = "OTHER-SESSION", "a second session no longer answers NOOP: "+msg
				}
			}
		}
		if kind == "" {
			if rss := c.rssKiB(); rss > 0 && baseRSS > 0 && rss-baseRSS > rssCeilKiB {
				kind, detail = "BLOAT", fmt.Sprintf("resident memory grew from %d KiB to %d KiB", baseRSS, rss)
			}
		}
		if kind == "CRASH" {
			detail += "\n" + c.stderr.crashHead()
		}
		if kind == "CRASH" || kind == "SPIN" || kind == "HANG" || kind == "BLOAT" || kind == "OTHER-SESSION" || kind == "CONNECT" {
			if err := restart(); err != nil {
				res.Infra("restart of the child failed: %v", err)
			}
			baseRSS = c.rssKiB()
		}
		return kind + "\x00" + detail, o
	}

	// shrink by dropping lines while the same kind of failure reproduces (bounded effort)
	shrink := func(s stream, kind string) stream {
		best := s
		tries := 0
		maxTries := 24
		if kind == "SPIN" || kind == "HANG" {
			maxTries = 3
		}
		for changed := true; changed && tries < maxTries; {
			changed = false
			parts := bytes.SplitAfter(best.Data, []byte("\n"))
			if len(parts) <= 1 {
				break
			}
			for i := range parts {
				if tries >= maxTries {
					break
				}
				tries++
				cand := best
				cand.Data = bytes.Join(append(append([][]byte{}, parts[:i]...), parts[i+1:]...), nil)
				cand.Lined, cand.Expect, cand.First, cand.Lines, cand.NeedComp, cand.NeedCont = false, nil, "", nil, nil, nil
				if kind == "COMPLETION" || kind == "EXTRA-COMPLETIONS" || kind == "LOGIN" {
					break
				}
				r, _ := one(cand, false)
				if strings.HasPrefix(r, kind+"\x00") {
					best = cand
					changed = true
					break
				}
			}
		}
		return best
	}

	only := os.Getenv("C11_ONLY") // debugging aid: run only the streams whose name contains this text, with timings
	run := func(s stream) {
		if only != "" {
			if !strings.Contains(s.Name, only) {
				return
			}
			t0, c0 := time.Now(), c.cpuTicks()
			defer func() {
				res.Notes = append(res.Notes, fmt.Sprintf("%s login=%v: wall %.2fs, child cpu %.2fs", s.Name, s.Login, time.Since(t0).Seconds(), float64(c.cpuTicks()-c0)/100))
			}()
		}
		if severe >= 8 && !strings.HasPrefix(s.Name, "script") {
			res.Count("skipped-after-many-severe-failures")
			return
		}
		res.Evaluations++
		res.Count("category:" + strings.SplitN(s.Name, ":", 2)[0])
		if s.Login {
			res.Count("phase:post-login")
		} else {
			res.Count("phase:pre-login")
		}
		r, o := one(s, true)
		kd := strings.SplitN(r, "\x00", 2)
		kind, detail := kd[0], kd[1]
		pre := "pre-login"
		if s.Login {
			pre = "post-login"
		}
		if kind != "" {
			if kind == "CRASH" || kind == "SPIN" || kind == "HANG" || kind == "BLOAT" {
				severe++
				s = shrink(s, kind)
			}
			res.Fail(fmt.Sprintf("%s %s stream=%s", kind, pre, clip(s.Data, 400)), detail+"\nstream "+s.Name+"\nobserved completions: "+compStr(o.Completions), caseRec{Name: s.Name, Login: s.Login, Stream: fmt.Sprintf("%q", s.Data), Got: compStr(o.Completions)})
		} else {
			emit(s, o)
			batch = append(batch, s)
		}
		if !strings.HasPrefix(s.Name, "valid") {
			res.Nontrivial(pre + " " + string(s.Data))
		}
		res.Sample(caseRec{Name: s.Name, Login: s.Login, Stream: clip(s.Data, 200), Got: compStr(o.Completions)})
		// U3 for goroutines that outlive their connection: sampled per batch, attributed by replay
		if len(batch) >= 40 {
			if c.busy(250*time.Millisecond) && c.busy(time.Second) && c.busy(2*time.Second) && c.busy(2*time.Second) {
				culprit := "(not reproduced individually)"
				old := batch
				batch = nil
				if err := restart(); err == nil {
					for _, b := range old {
						runStream(c, b.Login, b.Data)
						if c.busy(400*time.Millisecond) && c.busy(time.Second) && c.busy(2*time.Second) && c.busy(2*time.Second) {
							culprit = fmt.Sprintf("%s stream=%s", map[bool]string{false: "pre-login", true: "post-login"}[b.Login], clip(b.Data, 400))
							restart()
							break
						}
					}
				}
				res.Fail("SPIN-AFTER-CLOSE "+culprit, "the server keeps a CPU busy although every connection has been closed", nil)
				severe++
			}
			batch = nil
		}
	}

	both := func(name string, data []byte, f func(s *stream)) {
		for _, login := range []bool{false, true} {
			s := stream{Name: name, Login: login, Data: data, Model: true}
			if f != nil {
				f(&s)
			}
			run(s)
		}
	}
	lined := func(exp ...expect) func(*stream) {
		return func(s *stream) { s.Lined = true; s.Expect = exp }
	}
	e := func(tag, status string) expect { return expect{Tag: tag, Status: status} }

	// ---------------------------------------------------------------- replay of one recorded stream (bin/check C11 <tier> --replay file)
	if ctx.Replay != "" {
		var rp struct {
			Case struct {
				Name   string `json:"name"`
				Login  bool   `json:"login"`
				Stream string `json:"stream"`
			} `json:"case"`
		}
		b, err := os.ReadFile(ctx.Replay)
		if err != nil {
			return err
		}
		if err := json.Unmarshal(b, &rp); err != nil {
			return err
		}
		data, err := strconv.Unquote(rp.Case.Stream)
		if err != nil {
			return fmt.Errorf("replay file has no replayable stream: %v", err)
		}
		t0, c0 := time.Now(), c.cpuTicks()
		run(stream{Name: "replay:" + rp.Case.Name, Login: rp.Case.Login, Data: []byte(data), Model: true})
		res.Notes = append(res.Notes, fmt.Sprintf("replay %s login=%v: %d bytes, wall %.2fs, child cpu %.2fs", rp.Case.Name, rp.Case.Login, len(data), time.Since(t0).Seconds(), float64(c.cpuTicks()-c0)/100))
		res.ModelCases = len(lines)
		return common.WriteCases(ctx.Out, "Run.RunC11", "case", lines, "")
	}

	// ---------------------------------------------------------------- 1. scripted shapes
	msg := "Date: Mon, 01 Jan 2024 10:00:00 +0000\r\nFrom: a@example.com\r\nTo: b@example.com\r\nSubject: x\r\n\r\n0123456789\r\n"
	both("script:first-line-empty", []byte("\r\nb NOOP\r\n"), func(s *stream) {
		s.Lined = true
		s.Expect = []expect{e("", "BAD"), e("b", "OK")}
	})
	both("script:trailing-garbage-keeps-tag", []byte("a NOOP x\r\nb NOOP\r\n"), lined(e("a", "BAD"), e("b", "OK")))
	both("script:tag-only", []byte("a\r\nb \r\nc NOOP\r\n"), lined(e("a", "BAD"), e("b", "BAD"), e("c", "OK")))
	both("script:untagged-lines", []byte(" NOOP\r\n(x) NOOP\r\n\"q\" NOOP\r\nc NOOP\r\n"), lined(e("", "BAD"), e("", "BAD"), e("", "BAD"), e("c", "OK")))
	both("script:eof-in-quoted", []byte("a LOGIN \"x"), lined())
	both("script:eof-after-backslash", []byte("a LOGIN \"x\\"), lined())
	both("script:eof-in-quoted-2", []byte("b NOOP\r\na LIST \"\" \"ab"), lined(e("b", "OK")))
	both("script:quoted-does-not-span-lines", []byte("a LOGIN \"x\r\ny\" z\r\nb NOOP\r\n"), lined(e("a", "BAD"), e("y", "BAD"), e("b", "OK")))
	both("script:literal-oversized", []byte("a LOGIN {99999999999}\r\nb NOOP\r\n"), lined(e("a", "BAD"), e("b", "OK")))
	both("script:literal-at-cap", []byte("a LOGIN {31457280}\r\nb NOOP\r\n"), lined(e("a", "BAD"), e("b", "OK")))
	both("script:literal-huge-number", []byte("a LOGIN {18446744073709551615}\r\nb NOOP\r\n"), lined(e("a", "BAD"), e("b", "OK")))
	both("script:literal-zero", []byte("a CREATE {0}\r\nb NOOP\r\n"), func(s *stream) { s.First = "a" })
	both("script:literal-below-cap-then-eof", []byte("a LOGIN {31457279}\r\nxy"), lined())
	both("script:eof-in-literal", []byte("a LOGIN {5}\r\nus"), lined())
	both("script:eof-in-literal-header", []byte("a LOGIN {5"), lined())
	both("script:eof-in-token", []byte("a LOG"), lined())
	both("script:eof-after-tag", []byte("a"), lined())
	both("script:eof-before-lf", []byte("a NOOP\r"), lined())
	both("script:empty-stream", []byte(""), lined())
	both("script:starttls-unavailable", []byte("a STARTTLS\r\nb NOOP\r\n"), lined(e("a", "NO|BAD"), e("b", "OK")))
	both("script:logout", []byte("a LOGOUT\r\nb NOOP\r\n"), lined(e("a", "OK")))
	both("script:done-outside-idle", []byte("DONE\r\nb NOOP\r\n"), lined(e("", "NO|BAD"), e("b", "OK")))
	both("script:number-overflow", []byte("a FETCH 9223372036854775808 ALL\r\nb FETCH 1 BODY[]<1.18446744073709551617>\r\nc SEARCH LARGER 99999999999999999999\r\nd NOOP\r\n"),
		lined(e("a", "BAD"), e("b", "BAD"), e("c", "BAD"), e("d", "OK")))
	both("script:tls-hello", append([]byte{0x16, 0x03, 0x01, 0x02, 0x00, 0x01, 0x00, 0x01, 0xfc, 0x03, 0x03}, []byte("random\r\nb NOOP\r\n")...), func(s *stream) { s.NoTags = true })
	{
		var twenty, nineteen bytes.Buffer
		var exp20, exp19 []expect
		for i := 0; i < 20; i++ {
			fmt.Fprintf(&twenty, "e%d XYZZY\r\n", i)
			exp20 = append(exp20, e(fmt.Sprintf("e%d", i), "BAD"))
		}
		twenty.WriteString("z NOOP\r\n")
		for r := 0; r < 2; r++ {
			for i := 0; i < 19; i++ {
				fmt.Fprintf(&nineteen, "f%d_%d XYZZY\r\n", r, i)
				exp19 = append(exp19, e(fmt.Sprintf("f%d_%d", r, i), "BAD"))
			}
			fmt.Fprintf(&nineteen, "g%d NOOP\r\n", r)
			exp19 = append(exp19, e(fmt.Sprintf("g%d", r), "OK"))
		}
		both("script:twenty-errors-close", twenty.Bytes(), lined(exp20...))
		both("script:nineteen-errors-stay", nineteen.Bytes(), lined(exp19...))
	}
	// IDLE (only meaningful after login; before login it is refused)
	run(stream{Name: "script:idle-done", Login: true, Model: true, Data: []byte("b IDLE\r\nDONE\r\nc NOOP\r\n"), Lined: true, Expect: []expect{e("b", "OK"), e("c", "OK")}})
	run(stream{Name: "script:idle-other-command", Login: true, Model: true, Data: []byte("b IDLE\r\nc NOOP\r\nd NOOP\r\n"), Lined: true, Expect: []expect{e("b", "BAD"), e("d", "OK")}})
	run(stream{Name: "script:idle-garbage", Login: true, Model: true, Data: []byte("b IDLE\r\nc FOO (\r\nd NOOP\r\n"), Lined: true, Expect: []expect{e("b", "NO|BAD"), e("d", "OK")}})
	run(stream{Name: "script:idle-eof", Login: true, Model: true, Data: []byte("b IDLE\r\n"), Lined: true, Expect: nil})
	run(stream{Name: "script:idle-unauthenticated", Login: false, Model: true, Data: []byte("b IDLE\r\nc NOOP\r\n"), Lined: true, Expect: []expect{e("b", "NO|BAD"), e("c", "OK")}})
	// the partial-fetch overflow (needs a message)
	run(stream{Name: "script:partial-overflow", Login: true, Model: true, Lined: true,
		Data:   []byte(fmt.Sprintf("a APPEND INBOX {%d}\r\n%s\r\nb SELECT INBOX\r\nc FETCH 1 BODY[]<1.9223372036854775807>\r\nd FETCH 1 BODY[TEXT]<9223372036854775807.9223372036854775807>\r\ne UID FETCH 1:* (BODY.PEEK[HEADER]<5.4294967295>)\r\nf NOOP\r\n", len(msg), msg)),
		Expect: []expect{e("a", "OK"), e("b", "OK"), e("c", "OK"), e("d", "OK"), e("e", "OK"), e("f", "OK")}})
	// deep nesting, long tokens (<= 64 KiB)
	deep := func(n int) []byte {
		return []byte("a SEARCH " + strings.Repeat("(", n) + "ALL" + strings.Repeat(")", n) + "\r\nb NOOP\r\n")
	}
	// small variants go to the model as well, the large ones (<= 64 KiB) are judged by the oracles only
	for _, big := range []bool{false, true} {
		nest, reps := 600, 500
		if big {
			nest, reps = ctx.Budget(8000, 30000), ctx.Budget(8000, 15000)
		}
		big := big
		sz := map[bool]string{false: "", true: "-large"}[big]
		mk := func(exp ...expect) func(*stream) {
			return func(s *stream) { s.Lined = true; s.Expect = exp; s.Model = !big }
		}
		both("script:deep-search-list"+sz, deep(nest), mk(e("a", ""), e("b", "OK")))
		both("script:deep-search-unbalanced"+sz, []byte("a SEARCH "+strings.Repeat("(", nest)+"\r\nb NOOP\r\n"), mk(e("a", "BAD"), e("b", "OK")))
		both("script:deep-search-not"+sz, []byte("a SEARCH "+strings.Repeat("NOT ", nest)+"ALL\r\nb NOOP\r\n"), mk(e("a", ""), e("b", "OK")))
		both("script:deep-search-or"+sz, []byte("a SEARCH "+strings.Repeat("OR ALL ", reps)+"ALL\r\nb NOOP\r\n"), mk(e("a", ""), e("b", "OK")))
		both("script:long-section-part"+sz, []byte("a FETCH 1 BODY["+strings.Repeat("1.", reps)+"1]\r\nb NOOP\r\n"), mk(e("a", ""), e("b", "OK")))
		both("script:long-seqset"+sz, []byte("a FETCH "+strings.Repeat("1:2,", reps)+"3 ALL\r\nb NOOP\r\n"), mk(e("a", ""), e("b", "OK")))
		both("script:long-flag-list"+sz, []byte("a STORE 1 FLAGS ("+strings.Repeat("f ", reps)+"f)\r\nb NOOP\r\n"), mk(e("a", ""), e("b", "OK")))
		both("script:id-many-params"+sz, []byte("a ID ("+strings.Repeat("\"k\" \"v\" ", reps/2)+"\"k\" NIL)\r\nb NOOP\r\n"), mk(e("a", ""), e("b", "OK")))
	}
	both("script:long-number", []byte("a FETCH "+strings.Repeat("9", 20000)+" ALL\r\nb NOOP\r\n"), func(s *stream) { s.Lined = true; s.Expect = []expect{e("a", "BAD"), e("b", "OK")}; s.Model = false })
	both("script:long-atom", []byte("a LOGIN "+strings.Repeat("x", 60000)+" y\r\nb NOOP\r\n"), func(s *stream) { s.Lined = true; s.Expect = []expect{e("a", ""), e("b", "OK")}; s.Model = false })
	both("script:long-quoted", []byte("a LOGIN \""+strings.Repeat("\\\"", 30000)+"\" y\r\nb NOOP\r\n"), func(s *stream) { s.Lined = true; s.Expect = []expect{e("a", ""), e("b", "OK")}; s.Model = false })
	both("script:long-tag", []byte(strings.Repeat("t", 60000)+" NOOP\r\nb NOOP\r\n"), func(s *stream) {
		s.Lined = true
		s.Expect = []expect{e(strings.Repeat("t", 60000), "OK"), e("b", "OK")}
		s.Model = false
	})

	// ---------------------------------------------------------------- 1a. line by line, each completion without further input
	// linesOf builds a stream that is sent line by line (see stream.Lines); one expectation per line
	linesOf := func(name string, login bool, ls []string, exp []expect) stream {
		st := stream{Name: name, Login: login, Model: true, Lined: true, Expect: exp}
		for _, l := range ls {
			st.Lines = append(st.Lines, []byte(l))
			st.Data = append(st.Data, l...)
		}
		return st
	}
	alt := func(tag, other, status string) expect {
		return expect{Tag: tag, Status: status, Alt: other, HasAlt: true}
	}
	// a backslash as the last character of a line inside a quoted string; escapes of ordinary characters
	for _, login := range []bool{false, true} {
		run(linesOf("script:backslash-at-end-of-line", login,
			[]string{"a1 LOGIN \"x\\\r\n", "a2 NOOP\r\n", "a3 CREATE \"foo\\\r\n", "a4 LIST \"\" \"ab\\\r\n", "a5 SEARCH SUBJECT \"x\\\r\n",
				"a6 LOGIN \"x\\y\" p\r\n", "a7 LOGIN \"x\\\r\n", "a8 NOOP\r\n"},
			[]expect{e("a1", "BAD"), e("a2", "OK"), e("a3", "BAD"), e("a4", "BAD"), e("a5", "BAD"), e("a6", "BAD"), e("a7", "BAD"), e("a8", "OK")}))
		// a complete command followed by junk: exactly one BAD with the tag and NO effect of the command
		run(linesOf("script:trailing-garbage-no-effect", login,
			[]string{"b1 STARTTLS now\r\n", "b2 NOOP\r\n", "b3 STARTTLS\rx\r\n", "b4 IDLE x\r\n", "b5 NOOP\r\n", "b6 LOGOUT x\r\n", "b7 NOOP\r\n",
				"DONE x\r\n", "b8 CAPABILITY x\r\n", "b9 CHECK\rx\r\n", "c1 CLOSE x\r\n", "c2 EXPUNGE (\r\n", "c3 UNSELECT \"\r\n", "c4 NOOP\r\n"},
			[]expect{e("b1", "BAD"), e("b2", "OK"), e("b3", "BAD"), e("b4", "BAD"), e("b5", "OK"), e("b6", "BAD"), e("b7", "OK"),
				alt("", "DONE", "BAD"), e("b8", "BAD"), e("b9", "BAD"), e("c1", "BAD"), e("c2", "BAD"), e("c3", "BAD"), e("c4", "OK")}))
	}
	// every control byte in every lexical position: one completion per line, the session goes on
	for _, b := range []byte{0, 1, 2, 3, 4, 5, 6, 7, 8, 9, 11, 12, 14, 15, 16, 17, 18, 19, 20, 21, 22, 23, 24, 25, 26, 27, 28, 29, 30, 31, 127} {
		B := string([]byte{b})
		ls := []string{B + "k1 NOOP\r\n", "k2" + B + "x NOOP\r\n", "k3 NO" + B + "OP\r\n", "k4 LOGIN u" + B + "x p\r\n", "k5 LOGIN \"u" + B + "x\" p\r\n",
			"k6 LOGIN {1}\r\nu " + B + "p\r\n", "k7 FETCH 1" + B + " ALL\r\n", "k8 NOOP" + B + "\r\n", "k9 NOOP\r\n"}
		exp := []expect{alt("", B+"k1", ""), alt("k2", "k2"+B+"x", ""), e("k3", "BAD"), e("k4", ""), e("k5", ""), e("k6", ""), e("k7", "BAD"), e("k8", "BAD"), e("k9", "OK")}
		login := b%2 == 0
		run(linesOf(fmt.Sprintf("script:control-byte-%02x", b), login, ls, exp))
		if ctx.Tier == "thorough" {
			run(linesOf(fmt.Sprintf("script:control-byte-%02x", b), !login, ls, exp))
		}
	}

	// ---------------------------------------------------------------- 1b. SEARCH charsets (after SELECT: the handler decodes)
	charsets := []string{"UTF-8", "US-ASCII", "utf-8", "ISO-8859-1", "windows-1252", "ISO-2022-JP", "KOI8-R", "GB18030", "UTF-16",
		// known to the IANA index but not supported by x/text (Encoding returns nil without an error)
		"ISO-2022-CN", "ISO-2022-CN-EXT", "ISO-2022-KR", "csISO2022KR", "UTF-7", "UNICODE-1-1-UTF-7", "UTF-32", "ISO-10646-UCS-2",
		"BOCU-1", "SCSU", "CESU-8", "EBCDIC-US", "hp-roman8", "DEC-MCS", "Adobe-Symbol-Encoding",
		// unknown / garbage
		"utf8", "bogus", "X", "\"\"", "\"UTF 8\"", "{3}\r\n\xff\xfe\xfd", "{5}\r\nUTF-8", strings.Repeat("U", 300), "UTF-8\x00", "[]", "%*"}
	for i, cs := range charsets {
		key := []string{"ALL", "TEXT \"x\"", "SUBJECT {3}\r\n\x1b$)", "OR BODY caf\xc3\xa9 NOT FROM \"\xe9\""}[i%4]
		for _, k := range []string{"ALL", key} {
			data := []byte("s SELECT INBOX\r\nc SEARCH CHARSET " + cs + " " + k + "\r\nu UID SEARCH CHARSET " + cs + " " + k + "\r\nz NOOP\r\n")
			want := []expect{e("s", "OK"), e("c", ""), e("u", ""), e("z", "OK")}
			run(stream{Name: "script:search-charset", Login: true, Model: true, Data: data, Lined: true, Expect: want})
			if k == key {
				break
			}
		}
	}

	// ---------------------------------------------------------------- 1c. nothing may outlive a closed connection
	// Bytes pipelined behind a session-ending line (LOGOUT, the 20th malformed line): the reader goroutine has parsed the
	// next command when the serve loop returns and must notice that nobody will take it. N short-lived connections must
	// leave the number of command reader goroutines where it was (the watcher's one).
	{
		var twenty bytes.Buffer
		for i := 0; i < 20; i++ {
			fmt.Fprintf(&twenty, "e%d XYZZY\r\n", i)
		}
		twenty.WriteString("z NOOP\r\ny NOOP\r\n")
		leakStreams := []struct {
			name  string
			login bool
			data  []byte
		}{
			{"logout-then-more", false, []byte("x LOGOUT\r\ny NOOP\r\n")},
			{"logout-then-more", true, []byte("x LOGOUT\r\ny NOOP\r\nz NOOP\r\n")},
			{"twenty-errors-then-more", false, twenty.Bytes()},
			{"eof-mid-command", true, []byte("x NOOP\r\ny LOGIN \"a")},
		}
		const nConn = 25
		for _, ls := range leakStreams {
			pre := "pre-login"
			if ls.login {
				pre = "post-login"
			}
			res.Evaluations++
			res.Count("category:leak")
			ctx.Current(fmt.Sprintf("LEAK %s x%d stream=%s", pre, nConn, clip(ls.data, 300)), nil)
			base := c.readersSettle(1, 5*time.Second)
			if base < 0 {
				res.Infra("the child does not answer STATS")
				break
			}
			bad := ""
			for i := 0; i < nConn && bad == ""; i++ {
				o := runStream(c, ls.login, ls.data)
				if o.Crash || o.Spin || o.Hang || o.ConnErr != "" {
					bad = "stream failed: " + compStr(o.Completions)
				}
			}
			if bad != "" {
				// the per-stream oracles report this shape elsewhere; here only the leak is judged
				res.Notes = append(res.Notes, "leak test "+ls.name+": "+bad)
				if !c.alive() {
					if err := restart(); err != nil {
						return err
					}
				}
				continue
			}
			after := c.readersSettle(base, 8*time.Second)
			g, _ := c.stats()
			if after-base >= nConn/2 {
				res.Fail(fmt.Sprintf("LEAK %s stream=%s", pre, clip(ls.data, 300)),
					fmt.Sprintf("%d connections that sent these bytes in one write and were closed by the server left %d command reader goroutines behind (before: %d, after: %d, goroutines now: %d): session, buffers and connection are never released", nConn, after-base, base, after, g),
					caseRec{Name: "leak:" + ls.name, Login: ls.login, Stream: fmt.Sprintf("%q", ls.data)})
				if err := restart(); err != nil {
					return err
				}
			}
			res.Nontrivial("leak " + pre + " " + string(ls.data))
		}
	}

	// ---------------------------------------------------------------- 1e. synchronising literals
	// syncOf cuts the commands after every literal header "{n}CRLF"; the client waits for the "+" before it sends the
	// literal data (also for n = 0) and for the completion of a command before it sends the next one
	syncOf := func(name string, login bool, cmds []string, exp []expect) stream {
		st := stream{Name: name, Login: login, Model: true, Lined: true, Expect: exp}
		reHdr := regexp.MustCompile(`\{\d+\}\r\n`)
		nc, nk := 0, 0
		for _, cmd := range cmds {
			st.Data = append(st.Data, cmd...)
			rest := cmd
			for {
				loc := reHdr.FindStringIndex(rest)
				if loc == nil {
					break
				}
				nc++
				st.Lines = append(st.Lines, []byte(rest[:loc[1]]))
				st.NeedComp = append(st.NeedComp, 0)
				st.NeedCont = append(st.NeedCont, nc)
				rest = rest[loc[1]:]
			}
			nk++
			st.Lines = append(st.Lines, []byte(rest))
			st.NeedComp = append(st.NeedComp, nk)
			st.NeedCont = append(st.NeedCont, 0)
		}
		return st
	}
	for _, login := range []bool{false, true} {
		run(syncOf("script:sync-literals", login,
			[]string{"a1 LOGIN {0}\r\n {1}\r\nx\r\n", "a2 LOGIN {4}\r\nnone {5}\r\nwrong\r\n", "a3 LIST {0}\r\n {1}\r\n*\r\n", "a4 LIST \"\" {0}\r\n\r\n",
				"a5 SEARCH SUBJECT {0}\r\n\r\n", "a6 SEARCH CHARSET {5}\r\nUTF-8 TEXT {3}\r\nabc OR FROM {0}\r\n TO {1}\r\n\x00\r\n",
				"a7 APPEND INBOX {0}\r\n\r\n", fmt.Sprintf("a8 APPEND {5}\r\nINBOX (\\Seen) {%d}\r\n%s\r\n", len(msg), msg), "a9 CREATE {0}\r\n\r\n",
				"b1 ID (\"name\" {0}\r\n \"os\" {1}\r\nx)\r\n", "b2 STATUS {5}\r\nINBOX (MESSAGES)\r\n", "b3 FETCH 1 (BODY[HEADER.FIELDS ({0}\r\n {2}\r\nTo)])\r\n",
				"b4 RENAME {0}\r\n {0}\r\n\r\n", "b5 NOOP\r\n"},
			[]expect{e("a1", ""), e("a2", ""), e("a3", ""), e("a4", ""), e("a5", ""), e("a6", ""), e("a7", ""), e("a8", ""), e("a9", ""),
				e("b1", ""), e("b2", ""), e("b3", ""), e("b4", ""), e("b5", "OK")}))
	}

	// ---------------------------------------------------------------- 1f. memory of a long-lived connection
	// Many large but legal lines on ONE connection, each answered: what the session retains must not grow with their
	// number. Heap of the child after a forced GC (HEAP command), connection still open.
	{
		res.Evaluations++
		res.Count("category:memory")
		nBig, bigLen := ctx.Budget(40, 100), 512*1024
		ctx.Current(fmt.Sprintf("RETAINS post-login %d lines of %d KiB on one connection", nBig, bigLen/1024), nil)
		fail := func(kind, detail string) {
			res.Fail(fmt.Sprintf("%s post-login %d x (m<i> LOGIN \"<%d KiB>\" p | m<i> LOGIN {%d}CRLF<data> p) on one connection", kind, nBig, bigLen/1024, bigLen), detail, nil)
		}
		conn, err := net.DialTimeout("tcp", c.addr, 10*time.Second)
		if err != nil {
			return err
		}
		rd := bufio.NewReaderSize(conn, 1<<16)
		await := func(tag string) error {
			conn.SetReadDeadline(time.Now().Add(60 * time.Second))
			for {
				l, err := rd.ReadString('\n')
				if err != nil {
					return err
				}
				if strings.HasPrefix(l, tag+" ") {
					return nil
				}
			}
		}
		conn.SetReadDeadline(time.Now().Add(20 * time.Second))
		rd.ReadString('\n')
		conn.Write([]byte("M0 LOGIN user pass\r\n"))
		if err := await("M0"); err != nil {
			return fmt.Errorf("memory test login: %v", err)
		}
		big := bytes.Repeat([]byte("x"), bigLen)
		h0 := c.heap()
		broke := ""
		for i := 1; i <= nBig && broke == ""; i++ {
			tag := fmt.Sprintf("m%d", i)
			var line []byte
			if i%2 == 0 {
				line = append(append([]byte(tag+" LOGIN \""), big...), []byte("\" p\r\n")...)
			} else {
				line = append(append([]byte(fmt.Sprintf("%s LOGIN {%d}\r\n", tag, bigLen)), big...), []byte(" p\r\n")...)
			}
			conn.SetWriteDeadline(time.Now().Add(60 * time.Second))
			if _, err := conn.Write(line); err != nil {
				broke = err.Error()
			} else if err := await(tag); err != nil {
				broke = "no completion for " + tag + ": " + err.Error()
			}
		}
		h1 := c.heap()
		conn.Close()
		switch {
		case broke != "" && !c.alive():
			fail("CRASH", "the server process died: "+c.stderr.crashHead())
			if err := restart(); err != nil {
				return err
			}
		case broke != "":
			fail("COMPLETION", broke)
		case h0 < 0 || h1 < 0:
			res.Infra("the child does not answer HEAP")
		case h1-h0 > 8<<20:
			fail("RETAINS", fmt.Sprintf("after %d answered lines of %d KiB (%d MiB in total) the live heap of the server grew from %d KiB to %d KiB while the connection is open: the session keeps what the client sent", nBig, bigLen/1024, nBig*bigLen>>20, h0>>10, h1>>10))
		}
		res.Notes = append(res.Notes, fmt.Sprintf("memory test: heap %d KiB -> %d KiB after %d x %d KiB", h0>>10, h1>>10, nBig, bigLen/1024))
		res.Nontrivial("memory long-lived connection")
	}

	// ---------------------------------------------------------------- 1g. segmented delivery: the input collector
	// (a) the real InputCollector driven directly with partial reads (exact functional oracle + model cases)
	nColl := ctx.Budget(60, 400)
	for i := 0; i < nColl; i++ {
		res.Evaluations++
		res.Count("category:collector")
		opsCoq, got, human, failTxt := driveCollector(rng)
		if failTxt != "" {
			res.Fail("COLLECTOR "+human, failTxt+": the collector does not hold exactly what was read (memory not bounded by the input)", nil)
		}
		if len(got) <= 4096 {
			nextID++
			lines = append(lines, fmt.Sprintf("mkColl %d %s %s", nextID, opsCoq, common.CoqHex(got)))
		}
		res.Nontrivial("collector " + human)
	}
	// (b) on the wire: a command whose literal arrives in k-byte TCP segments; the session's memory must stay bounded by
	// the size of the command, not by size^2 / segment
	for _, sg := range []struct{ seg, size int }{{1, 8 << 10}, {7, 32 << 10}, {1024, 256 << 10}} {
		res.Evaluations++
		res.Count("category:segmented")
		canon := fmt.Sprintf("post-login g LOGIN {%d}CRLF<data> p sent in %d-byte segments", sg.size, sg.seg)
		ctx.Current("SEGMENTED "+canon, nil)
		conn, err := net.DialTimeout("tcp", c.addr, 10*time.Second)
		if err != nil {
			return err
		}
		rd := bufio.NewReaderSize(conn, 1<<16)
		await := func(tag string) error {
			conn.SetReadDeadline(time.Now().Add(60 * time.Second))
			for {
				l, err := rd.ReadString('\n')
				if err != nil {
					return err
				}
				if strings.HasPrefix(l, tag+" ") {
					return nil
				}
			}
		}
		conn.SetReadDeadline(time.Now().Add(20 * time.Second))
		rd.ReadString('\n')
		conn.Write([]byte("G0 LOGIN user pass\r\n"))
		if err := await("G0"); err != nil {
			return fmt.Errorf("segmented test login: %v", err)
		}
		h0 := c.heap()
		payload := append(append([]byte(fmt.Sprintf("g LOGIN {%d}\r\n", sg.size)), bytes.Repeat([]byte("y"), sg.size)...), []byte(" p\r\n")...)
		conn.SetWriteDeadline(time.Now().Add(120 * time.Second))
		broke := ""
		for off := 0; off < len(payload) && broke == ""; off += sg.seg {
			end := off + sg.seg
			if end > len(payload) {
				end = len(payload)
			}
			if _, err := conn.Write(payload[off:end]); err != nil {
				broke = err.Error()
			}
			time.Sleep(30 * time.Microsecond) // let the server see a partial read
		}
		if broke == "" {
			if err := await("g"); err != nil {
				broke = "no completion: " + err.Error()
			}
		}
		h1 := c.heap()
		conn.Close()
		switch {
		case broke != "" && !c.alive():
			res.Fail("CRASH "+canon, "the server process died: "+c.stderr.crashHead(), nil)
			if err := restart(); err != nil {
				return err
			}
		case broke != "":
			res.Fail("COMPLETION "+canon, broke, nil)
		case h0 >= 0 && h1 >= 0 && h1-h0 > 6<<20:
			res.Fail("BLOAT "+canon, fmt.Sprintf("one command of %d KiB delivered in %d-byte segments made the live heap of the server grow from %d KiB to %d KiB (connection still open)", sg.size>>10, sg.seg, h0>>10, h1>>10), nil)
		}
		res.Notes = append(res.Notes, fmt.Sprintf("segmented %d/%d: heap %d KiB -> %d KiB", sg.seg, sg.size, h0>>10, h1>>10))
		res.Nontrivial("segmented " + canon)
	}

	// ---------------------------------------------------------------- 1d. a server WITH a TLS configuration
	tlsMode = true
	if err := restart(); err != nil {
		return err
	}
	for _, login := range []bool{false, true} {
		run(linesOf("tls:starttls-trailing-garbage", login,
			[]string{"A001 STARTTLS now\r\n", "A002 NOOP\r\n", "A003 STARTTLS\rx\r\n", "A004 starttls (\r\n", "A005 CAPABILITY\r\n"},
			[]expect{e("A001", "BAD"), e("A002", "OK"), e("A003", "BAD"), e("A004", "BAD"), e("A005", "OK")}))
	}
	// a well-formed STARTTLS is accepted; what follows is not IMAP any more (the handshake fails on it, the server closes)
	run(stream{Name: "tls:starttls-accepted", Login: false, Model: true, Lined: true, Data: []byte("A001 STARTTLS\r\nA002 NOOP\r\n"), Expect: []expect{e("A001", "OK")}})
	run(stream{Name: "tls:noop", Login: false, Model: true, Lined: true, Data: []byte("A001 NOOP x\r\nA002 NOOP\r\n"), Expect: []expect{e("A001", "BAD"), e("A002", "OK")}})
	tlsMode = false
	if err := restart(); err != nil {
		return err
	}
	baseRSS = c.rssKiB()

	// ---------------------------------------------------------------- 2. truncations of valid commands at every byte
	valid := []string{
		"a LOGIN \"us\\\"er\" {4}\r\npass\r\n",
		"a FETCH 1:*,3 (UID BODY.PEEK[1.2.HEADER.FIELDS.NOT (To {4}\r\nFrom)]<0.10> RFC822.SIZE)\r\n",
		"a UID SEARCH CHARSET utf-8 OR (NOT SEEN 1:3) SINCE \"1-Feb-2020\" CC \"x y\"\r\n",
		"a APPEND \"box\" (\\Seen foo) \" 1-Jan-2020 10:11:12 -0130\" {5}\r\nabcde\r\n",
		"a STORE 1,2:* +FLAGS.SILENT (\\Seen foo)\r\n",
		"a ID (\"name\" \"x\" \"os\" NIL)\r\n",
		"a STATUS \"in box\" (MESSAGES UNSEEN)\r\n",
		"a LIST \"\" \"%\"\r\n",
	}
	nTrunc := ctx.Budget(len(valid), len(valid))
	for vi := 0; vi < nTrunc; vi++ {
		v := valid[(vi+int(ctx.Seed))%len(valid)]
		for cut := 1; cut < len(v); cut++ {
			login := (cut+vi)%2 == 0
			if ctx.Tier == "thorough" {
				run(stream{Name: "truncated:" + strconv.Itoa(vi), Login: !login, Data: []byte(v[:cut]), Lined: true, Model: true})
			}
			run(stream{Name: "truncated:" + strconv.Itoa(vi), Login: login, Data: []byte(v[:cut]), Lined: true, Model: true})
		}
	}
	for _, v := range valid { // the complete commands, followed by a NOOP
		both("valid:complete", []byte(v+"z NOOP\r\n"), lined(e("a", ""), e("z", "OK")))
	}

	// ---------------------------------------------------------------- 2b. every prefix of a literal-free command, as a complete line
	// "<prefix> CRLF" is a complete line: exactly one completion with the line's tag, WITHOUT further input, and the next
	// command is answered (cuts inside month names, times, zones, quoted strings, sections, sequence sets ...)
	prefixCmds := []string{
		"a SEARCH ON 1-Jan-2020 SENTSINCE \"12-Mar-1999\" BEFORE 01-Dec-2001 OR SINCE 5-feb-2000 NOT SENTON \"31-OCT-2010\"",
		"a UID SEARCH CHARSET UTF-8 SENTBEFORE 3-Apr-2001 LARGER 10",
		"a APPEND INBOX (\\Seen) \" 7-Feb-2020 10:11:12 +0100\" ",
		"a APPEND \"INBOX\" \"17-Aug-2021 23:59:59 -0930\" ",
		"a STORE 1,2:* +FLAGS.SILENT (\\Seen foo)",
		"a FETCH 1:*,3 (UID BODY.PEEK[1.2.HEADER.FIELDS.NOT (To From)]<0.10> RFC822.SIZE)",
		"a STATUS \"in box\" (MESSAGES UNSEEN)",
		"a ID (\"name\" \"x\" \"os\" NIL)",
		"a LIST \"\" \"%\"",
	}
	nPrefix := ctx.Budget(5, len(prefixCmds))
	for pi := 0; pi < len(prefixCmds); pi++ {
		if pi >= 4 && (pi-4+int(ctx.Seed))%(len(prefixCmds)-4) >= nPrefix-4 && ctx.Tier != "thorough" {
			continue // quick: the four date commands always, the others by rotation
		}
		v := prefixCmds[pi]
		for cut := 0; cut <= len(v); cut++ {
			p := v[:cut]
			if strings.HasSuffix(p, "}") {
				continue // would announce a literal
			}
			tag := "a"
			if cut == 0 {
				tag = ""
			}
			login := (cut+pi)%2 == 0
			run(linesOf("prefix-line:"+strconv.Itoa(pi), login, []string{p + "\r\n", "z NOOP\r\n"}, []expect{e(tag, ""), e("z", "OK")}))
		}
	}

	// ---------------------------------------------------------------- 3. random line streams (with the line oracle)
	nLines := ctx.Budget(200, 2000)
	for i := 0; i < nLines; i++ {
		login := rng.Chance(0.5)
		data, exp := genLines(rng, login)
		st := stream{Name: "lines:random", Login: login, Data: data, Lined: true, Expect: exp, Model: true}
		if rng.Chance(0.5) { // line by line: every completion has to come without further input
			st.Lines = bytes.SplitAfter(data, []byte("\r\n"))
			if n := len(st.Lines); n > 0 && len(st.Lines[n-1]) == 0 {
				st.Lines = st.Lines[:n-1]
			}
			if len(st.Lines) < len(exp) {
				st.Lines = nil // a line contains a bare CR LF split differently: send in one piece
			}
		}
		run(st)
	}

	// ---------------------------------------------------------------- 4. garbage (universal oracles + model)
	nGarb := ctx.Budget(200, 2000)
	for i := 0; i < nGarb; i++ {
		login := rng.Chance(0.5)
		run(stream{Name: "garbage:random", Login: login, Data: genGarbage(rng), Model: true})
	}
	// no command reader goroutine may be left over from the ~900 closed connections of this run (the watcher has one)
	if c != nil && c.alive() {
		if left := c.readersSettle(1, 8*time.Second); left > 3 {
			res.Fail(fmt.Sprintf("LEAK (end of run) %d command reader goroutines", left), "command reader goroutines outlive their connections", nil)
		}
	}
	// final check for goroutines that spin after their connection is gone
	if c != nil && c.alive() && c.busy(300*time.Millisecond) && c.busy(time.Second) && c.busy(2*time.Second) && c.busy(2*time.Second) {
		res.Fail("SPIN-AFTER-CLOSE (end of run)", "the server keeps a CPU busy although every connection has been closed", nil)
	}
	if watcher != nil {
		watcher.Close()
	}
	res.ModelCases = len(lines)
	_ = io.EOF
	return common.WriteCases(ctx.Out, "Run.RunC11", "case", lines, "")
}
