package main

// T1 extractor for C12: the token classes of the rfc5322 parser evaluated on the EOF token.
// The rfcparser scanner answers every ScanToken call after the end of the input with an EOF token, and the collecting
// loops (Parser.CollectBytesWhileMatchesWith, the `for { MatchesWith(isX) }` loops) run while the class function accepts
// the current token. They end for every input iff no class function accepts EOF (coq/Model/TokenLoop.v).
// Every `func isX(tokenType rfcparser.TokenType) bool` of package rfc5322 is evaluated symbolically on TokenTypeEOF:
//   statements: `if <cond> { return <bool> }`, `switch tokenType { case T: [fallthrough | return <bool>] ... default: return <bool> }`,
//               `return <cond>`
//   conditions: ||  &&  !  ( )  true false,  tokenType == rfcparser.T,  tokenType != rfcparser.T,
//               rfcparser.IsCTL(tokenType) (CTL, CR, LF, Tab - false for EOF; checked against rfcparser/parser.go),
//               calls of other class functions of the package on tokenType.
// Anything else fails.

import (
	"fmt"
	"go/ast"
	"go/token"
	"os"
	"path/filepath"
	"sort"
	"strings"
)

func init() { register("Rfc5322", factsRfc5322) }

type tcEval struct {
	funcs map[string]*ast.FuncDecl
	param map[string]string
	tok   string
	depth int
}

func (e *tcEval) cond(fn string, x ast.Expr) (bool, error) {
	switch v := x.(type) {
	case *ast.ParenExpr:
		return e.cond(fn, v.X)
	case *ast.Ident:
		if v.Name == "true" {
			return true, nil
		}
		if v.Name == "false" {
			return false, nil
		}
	case *ast.UnaryExpr:
		if v.Op == token.NOT {
			b, err := e.cond(fn, v.X)
			return !b, err
		}
	case *ast.BinaryExpr:
		switch v.Op {
		case token.LOR, token.LAND:
			a, err := e.cond(fn, v.X)
			if err != nil {
				return false, err
			}
			b, err := e.cond(fn, v.Y)
			if err != nil {
				return false, err
			}
			if v.Op == token.LOR {
				return a || b, nil
			}
			return a && b, nil
		case token.EQL, token.NEQ:
			id, ok := v.X.(*ast.Ident)
			sel, ok2 := v.Y.(*ast.SelectorExpr)
			if ok && ok2 && id.Name == e.param[fn] {
				eq := sel.Sel.Name == e.tok
				if v.Op == token.NEQ {
					eq = !eq
				}
				return eq, nil
			}
		}
	case *ast.CallExpr:
		if len(v.Args) == 1 {
			if a, ok := v.Args[0].(*ast.Ident); ok && a.Name == e.param[fn] {
				switch f := v.Fun.(type) {
				case *ast.SelectorExpr:
					if f.Sel.Name == "IsCTL" {
						return e.tok == "TokenTypeCTL" || e.tok == "TokenTypeCR" || e.tok == "TokenTypeLF" || e.tok == "TokenTypeTab", nil
					}
				case *ast.Ident:
					if _, ok := e.funcs[f.Name]; ok {
						return e.call(f.Name)
					}
				}
			}
		}
	}
	return false, fmt.Errorf("%s: unsupported condition %T", fn, x)
}

func (e *tcEval) call(fn string) (bool, error) {
	e.depth++
	defer func() { e.depth-- }()
	if e.depth > 20 {
		return false, fmt.Errorf("%s: recursion", fn)
	}
	fd := e.funcs[fn]
	for _, st := range fd.Body.List {
		switch s := st.(type) {
		case *ast.ReturnStmt:
			if len(s.Results) != 1 {
				return false, fmt.Errorf("%s: return", fn)
			}
			return e.cond(fn, s.Results[0])
		case *ast.IfStmt:
			if s.Init != nil || s.Else != nil || len(s.Body.List) != 1 {
				return false, fmt.Errorf("%s: unsupported if", fn)
			}
			ret, ok := s.Body.List[0].(*ast.ReturnStmt)
			if !ok || len(ret.Results) != 1 {
				return false, fmt.Errorf("%s: unsupported if body", fn)
			}
			c, err := e.cond(fn, s.Cond)
			if err != nil {
				return false, err
			}
			if c {
				return e.cond(fn, ret.Results[0])
			}
		case *ast.SwitchStmt:
			id, ok := s.Tag.(*ast.Ident)
			if !ok || id.Name != e.param[fn] || s.Init != nil {
				return false, fmt.Errorf("%s: unsupported switch", fn)
			}
			// find the matching clause (or default), then follow fallthroughs to the first return
			start, def := -1, -1
			for i, c := range s.Body.List {
				cc := c.(*ast.CaseClause)
				if cc.List == nil {
					def = i
				}
				for _, x := range cc.List {
					if sel, ok := x.(*ast.SelectorExpr); ok && sel.Sel.Name == e.tok {
						start = i
					}
				}
			}
			if start < 0 {
				start = def
			}
			if start < 0 {
				continue
			}
			for i := start; i < len(s.Body.List); i++ {
				cc := s.Body.List[i].(*ast.CaseClause)
				if len(cc.Body) != 1 {
					return false, fmt.Errorf("%s: unsupported case body", fn)
				}
				if b, ok := cc.Body[0].(*ast.BranchStmt); ok && b.Tok == token.FALLTHROUGH {
					continue
				}
				ret, ok := cc.Body[0].(*ast.ReturnStmt)
				if !ok || len(ret.Results) != 1 {
					return false, fmt.Errorf("%s: unsupported case body", fn)
				}
				return e.cond(fn, ret.Results[0])
			}
			return false, fmt.Errorf("%s: switch falls off", fn)
		default:
			return false, fmt.Errorf("%s: unsupported statement %T", fn, st)
		}
	}
	return false, fmt.Errorf("%s: no return reached", fn)
}

func factsRfc5322(t *T) (string, error) {
	dir := filepath.Join(t.Repo, "rfc5322")
	ents, err := os.ReadDir(dir)
	if err != nil {
		return "", err
	}
	e := &tcEval{funcs: map[string]*ast.FuncDecl{}, param: map[string]string{}, tok: "TokenTypeEOF"}
	for _, en := range ents {
		if !strings.HasSuffix(en.Name(), ".go") || strings.HasSuffix(en.Name(), "_test.go") {
			continue
		}
		f, err := t.ParseFile(filepath.Join("rfc5322", en.Name()))
		if err != nil {
			return "", err
		}
		for _, d := range f.Decls {
			fd, ok := d.(*ast.FuncDecl)
			if !ok || fd.Recv != nil || fd.Body == nil || fd.Type.Params == nil || len(fd.Type.Params.List) != 1 || fd.Type.Results == nil || len(fd.Type.Results.List) != 1 {
				continue
			}
			p := fd.Type.Params.List[0]
			sel, ok := p.Type.(*ast.SelectorExpr)
			res, ok2 := fd.Type.Results.List[0].Type.(*ast.Ident)
			if !ok || !ok2 || sel.Sel.Name != "TokenType" || res.Name != "bool" || len(p.Names) != 1 {
				continue
			}
			e.funcs[fd.Name.Name] = fd
			e.param[fd.Name.Name] = p.Names[0].Name
		}
	}
	// the class functions the design knows about must be there
	for _, must := range []string{"isEncodedText", "isEncodedAtomToken", "isAText", "isDText", "isQText", "isCText", "isWSP", "isVChar", "isObsNoWSCTL"} {
		if _, ok := e.funcs[must]; !ok {
			return "", fmt.Errorf("token class function %s not found in rfc5322", must)
		}
	}
	// IsCTL is what the evaluator assumes
	if src, err := t.ReadFile("rfcparser/parser.go"); err != nil || !strings.Contains(strings.Join(strings.Fields(src), " "),
		"func IsCTL(tokenType TokenType) bool { return tokenType == TokenTypeCTL || tokenType == TokenTypeCR || tokenType == TokenTypeLF || tokenType == TokenTypeTab }") {
		return "", fmt.Errorf("rfcparser.IsCTL is not the function the extractor assumes")
	}
	names := make([]string, 0, len(e.funcs))
	for n := range e.funcs {
		names = append(names, n)
	}
	sort.Strings(names)
	var sb strings.Builder
	sb.WriteString("(* C12: the token class functions of package rfc5322 (func isX(rfcparser.TokenType) bool) evaluated on TokenTypeEOF.\n" +
		"   The scanner yields EOF tokens for ever behind the end of the input: a collecting loop over a class ends iff the class\n" +
		"   rejects EOF (Model/TokenLoop.v). *)\nFrom Coq Require Import List Bool.\nImport ListNotations.\n\n")
	var all []string
	for _, n := range names {
		v, err := e.call(n)
		if err != nil {
			return "", err
		}
		fmt.Fprintf(&sb, "Definition eof_in_%s : bool := %v.\n", n, v)
		all = append(all, "eof_in_"+n)
	}
	sb.WriteString("\nDefinition eof_in_token_classes : list bool := [" + strings.Join(all, "; ") + "].\n")
	return sb.String(), nil
}
