package main

// C12 harness — any message bytes yield well-formed ENVELOPE / BODY / BODYSTRUCTURE without crashing.
//
// The public packages (imap.NewParsedMessage, rfc822.Parse/Children/Part/NewHeader, rfc5322.ParseAddressList /
// ParseDateTime) run in a CHILD process (child.go); the parent generates the inputs, evaluates the property oracle
// and writes cases.v for the Coq model.
//
//   (a) generated well-formed MIME trees: oracle "the structure is the tree the message was built from" on the parsed
//       BODY / BODYSTRUCTURE / ENVELOPE texts (types, parameters, sizes, line counts, nesting, addresses);
//       cases.v: exact string equality with the model's writer output.
//   (b) garbage and adversarial bytes: no crash / no timeout, the three texts accepted by the Go port of wf_plist and
//       (small ones) by the Coq wf_plist, every section inside its parent and inside the message; cases.v: section
//       ranges and header keys equal to the model's.

import (
	"bufio"
	"bytes"
	"encoding/json"
	"fmt"
	"io"
	"os"
	"os/exec"
	"regexp"
	"strings"
	"syscall"
	"time"

	"verifharness/common"
	"verifharness/mimegen"
)

func main() {
	if os.Getenv("VERIF_C12_CHILD") == "1" {
		childMain()
		return
	}
	common.Main("C12", run)
}

// ---------- child management ----------

type child struct {
	cmd    *exec.Cmd
	in     io.WriteCloser
	out    *bufio.Reader
	stderr *bytes.Buffer
	done   chan error
}

func startChild() (*child, error) {
	exe, err := os.Executable()
	if err != nil {
		return nil, err
	}
	cmd := exec.Command(exe)
	cmd.Env = append(os.Environ(), "VERIF_C12_CHILD=1")
	cmd.SysProcAttr = &syscall.SysProcAttr{Pdeathsig: syscall.SIGKILL} // never outlive the parent (a spinning parser would)
	in, err := cmd.StdinPipe()
	if err != nil {
		return nil, err
	}
	outp, err := cmd.StdoutPipe()
	if err != nil {
		return nil, err
	}
	c := &child{cmd: cmd, in: in, out: bufio.NewReaderSize(outp, 1<<20), stderr: &bytes.Buffer{}, done: make(chan error, 1)}
	cmd.Stderr = c.stderr
	if err := cmd.Start(); err != nil {
		return nil, err
	}
	return c, nil
}

func (c *child) kill() {
	if c == nil {
		return
	}
	c.in.Close()
	c.cmd.Process.Kill()
	c.cmd.Wait()
}

type outcome struct {
	resp    *response
	crashed bool
	timeout bool
	detail  string
}

type runner struct {
	c        *child
	timeout  time.Duration
	timeouts int // number of requests that ran into the watchdog
}

// maxTimeouts: after that many hanging requests the remaining inputs are not sent any more (each one costs a deadline)
const maxTimeouts = 4

// call sends one request; a dead or hanging child is reported in the outcome and replaced on the next call.
func (r *runner) call(req request) (outcome, error) {
	if r.timeouts >= maxTimeouts {
		return outcome{}, nil // budget of hanging requests used up: nothing is sent any more (callers treat a nil response as "no observation")
	}
	if r.c == nil {
		c, err := startChild()
		if err != nil {
			return outcome{}, err
		}
		r.c = c
	}
	b, _ := json.Marshal(req)
	b = append(b, '\n')
	type res struct {
		line []byte
		err  error
	}
	ch := make(chan res, 1)
	c := r.c
	go func() {
		if _, err := c.in.Write(b); err != nil {
			ch <- res{nil, err}
			return
		}
		line, err := c.out.ReadBytes('\n')
		ch <- res{line, err}
	}()
	// watchdog: a deadline that depends on the size of the input, and a bound on the resident memory of the child
	deadline := deadlineFor(len(req.Data), r.timeout)
	start := time.Now()
	tick := time.NewTicker(100 * time.Millisecond)
	defer tick.Stop()
	for {
		select {
		case x := <-ch:
			if x.err != nil || len(x.line) == 0 {
				c.cmd.Wait()
				msg := c.stderr.String()
				r.c = nil
				first := ""
				for _, l := range strings.Split(msg, "\n") {
					if strings.HasPrefix(l, "fatal error:") || strings.HasPrefix(l, "panic:") || strings.HasPrefix(l, "runtime:") {
						first = l
						if !strings.HasPrefix(l, "runtime:") {
							break
						}
					}
				}
				if len(msg) > 1500 {
					msg = msg[:1500]
				}
				return outcome{crashed: true, detail: first + "\n" + msg}, nil
			}
			var resp response
			if err := json.Unmarshal(x.line, &resp); err != nil {
				return outcome{}, fmt.Errorf("bad response from child: %v", err)
			}
			return outcome{resp: &resp}, nil
		case <-tick.C:
			rss := childRSS(c.cmd.Process.Pid)
			if time.Since(start) > deadline || rss > rssLimit {
				c.kill()
				r.c = nil
				r.timeouts++
				return outcome{timeout: true, detail: fmt.Sprintf("no answer after %.1f s (deadline %s), resident memory of the child %d MiB (bound %d MiB): killed",
					time.Since(start).Seconds(), deadline, rss>>20, rssLimit>>20)}, nil
			}
		}
	}
}

const rssLimit = 3 << 30

// deadlineFor: answers for small inputs take milliseconds; the bound is generous and grows with the input.
func deadlineFor(n int, max time.Duration) time.Duration {
	d := max
	switch {
	case n <= 64*1024:
		d = 10 * time.Second
	case n <= 1<<20:
		d = 30 * time.Second
	}
	if d > max {
		d = max
	}
	return d
}

// childRSS: resident set size in bytes (Linux /proc), 0 if unknown.
func childRSS(pid int) int64 {
	b, err := os.ReadFile(fmt.Sprintf("/proc/%d/statm", pid))
	if err != nil {
		return 0
	}
	var size, resident int64
	fmt.Sscanf(string(b), "%d %d", &size, &resident)
	return resident * int64(os.Getpagesize())
}

// ---------- adversarial inputs ----------

type advCase struct {
	Name string
	Data []byte
}

func rep(s string, n int) string { return strings.Repeat(s, n) }

func hdrMsg(extra string) []byte {
	return []byte("Date: Mon, 01 Jan 2024 10:00:00 +0000\r\n" + extra + "\r\n\r\nbody\r\n")
}

func nestedMultipart(depth int, eol string) []byte {
	var sb strings.Builder
	sb.WriteString("From: a@b" + eol)
	for i := 0; i < depth; i++ {
		fmt.Fprintf(&sb, "Content-Type: multipart/mixed; boundary=b%d%s%s--b%d%s", i, eol, eol, i, eol)
	}
	sb.WriteString("Content-Type: text/plain" + eol + eol + "innermost" + eol)
	for i := depth - 1; i >= 0; i-- {
		fmt.Fprintf(&sb, "--b%d--%s", i, eol)
	}
	return []byte(sb.String())
}

func nestedMessages(depth int) []byte {
	var sb strings.Builder
	for i := 0; i < depth; i++ {
		fmt.Fprintf(&sb, "Subject: level %d\r\nContent-Type: message/rfc822\r\n\r\n", i)
	}
	sb.WriteString("Subject: innermost\r\n\r\ntext\r\n")
	return []byte(sb.String())
}

func fixedAdversarial(tier string) []advCase {
	var cs []advCase
	add := func(name string, data []byte) { cs = append(cs, advCase{name, data}) }
	add("empty", nil)
	add("only-colon", []byte(":"))
	add("colon-cr", []byte("a:\r"))
	add("cr-only-lines", []byte("a: b\rc: d\r\r"))
	add("no-blank-line", []byte("From: a@b\r\nSubject: x"))
	add("blank-first", []byte("\r\nFrom: a@b\r\n\r\nbody"))
	add("key-without-colon", []byte("garbage\r\nFrom: a@b\r\n\r\nx"))
	add("8bit-key", []byte("S\xfcbject: x\r\nFrom: a\r\n\r\n"))
	add("empty-field", []byte("Subject:\r\nFrom: a@b\r\n\r\nbody"))
	add("double-colon", []byte("A:: b\r\n\r\n"))
	add("lone-lf-fold", []byte("A: b\n c\n\td\nE: f\n\nbody"))
	add("truncated-header-cr", []byte("Content-Type: multipart/mixed; boundary=x\r"))
	add("godt-2513", []byte("Content-tYpe: multipArt/0;BoundArY=\"simple boundary\"\n\n--simple boundary\r"))
	add("multipart-no-boundary-param", []byte("Content-Type: multipart/mixed\r\n\r\n--\r\nA: b\r\n\r\nx\r\n----\r\n"))
	add("multipart-empty-boundary", []byte("Content-Type: multipart/mixed; boundary=\"\"\r\n\r\n--\r\n\r\nx\r\n--\r\n\r\ny\r\n----"))
	add("closing-first", []byte("Content-Type: multipart/mixed; boundary=X\r\n\r\n--X--\r\njunk\r\n--X\r\nA: b\r\n\r\npart\r\n--X--\r\n"))
	add("unterminated-with-false-hit", []byte("Content-Type: multipart/mixed; boundary=X\r\n\r\n--X\r\nA: b\r\n\r\nfoo --Xy bar\r\n--Xz baz"))
	add("boundary-at-eof", []byte("Content-Type: multipart/mixed; boundary=X\r\n\r\n--X\r\n\r\nfoo\r\n--X--"))
	add("boundary-cr-cr-lf", []byte("Content-Type: multipart/mixed; boundary=X\r\n\r\n--X\r\r\r\n\r\nfoo\r\n--X--\r\r\n"))
	add("boundaries-everywhere", []byte("Content-Type: multipart/mixed; boundary=X\r\n\r\n"+rep("--X\r\n", 50)+"--X--\r\n"))
	add("message-in-message-empty", []byte("Content-Type: message/rfc822\r\n\r\n"))
	add("message-rfc822-multipart", []byte("From: a@b\r\nContent-Type: message/rfc822\r\n\r\nFrom: x@y\r\nContent-Type: multipart/alternative; boundary=YY\r\n\r\n--YY\r\n\r\none\r\n--YY\r\nContent-Type: text/html\r\n\r\ntwo\r\n--YY--\r\n"))
	add("invalid-mime-type", []byte("Content-Type: application/;\r\n\r\nx"))
	add("nul-bytes", []byte("From: a\x00b@c\r\nSubject: \x00\x01\x02\r\n\r\n\x00"))
	add("quotes-in-subject", hdrMsg("From: a@b\r\nSubject: \"\\\"\\\\ \\ \"\""))
	add("address-garbage-1", hdrMsg("From: <<<<>>>>,,,;;;:::"))
	add("address-garbage-2", hdrMsg("From: \"\"\"\"\"\"\"\"\"\""))
	add("address-group", hdrMsg("From: g1:g2:g3:;;;, a@b, \"x\":<c@d>;"))
	add("address-route", hdrMsg("From: <@a,@b:c@d>, (c1 (c2 (c3))) e@f (trailing)"))
	// RFC 2047 encoded words: complete, truncated, malformed, at the end of the value / of the input, in every address field
	ews := map[string]string{
		"ok-q": "=?utf-8?q?abc?=", "ok-b": "=?UTF-8?B?QUJD?=", "unterminated-q": "=?utf-8?q?abc", "unterminated-b": "=?UTF-8?B?QUJD",
		"one-question": "=?utf-8?q?abc?", "no-text": "=?utf-8?q?", "no-encoding": "=?utf-8?", "no-charset": "=?", "bad-encoding": "=?utf-8?x?abc?=",
		"empty-text": "=?utf-8?q??=", "empty-charset": "=??q?abc?=", "nested": "=?utf-8?q?=?utf-8?q?abc?=?=", "nested-open": "=?utf-8?q?=?utf-8?q?abc",
		"space-inside": "=?utf-8?q?a b", "8bit-inside": "=?utf-8?q?a\xc3\xa9", "long": "=?utf-8?q?" + rep("abc", 3000),
	}
	ewNames := []string{"ok-q", "ok-b", "unterminated-q", "unterminated-b", "one-question", "no-text", "no-encoding", "no-charset", "bad-encoding", "empty-text", "empty-charset", "nested", "nested-open", "space-inside", "8bit-inside", "long"}
	for _, k := range ewNames {
		w := ews[k]
		add("encoded-word "+k+" From", hdrMsg("From: "+w))
		add("encoded-word "+k+" display-name", hdrMsg("From: a@b\r\nTo: Bob "+w+" <c@d>"))
		add("encoded-word "+k+" before-angle-eof", hdrMsg("From: a@b\r\nCc: Bob "+w))
		add("encoded-word "+k+" in-angle", hdrMsg("From: a@b\r\nBcc: <"+w))
		add("encoded-word "+k+" group", hdrMsg("From: a@b\r\nSender: grp: "+w))
		add("encoded-word "+k+" reply-to-list", hdrMsg("From: a@b\r\nReply-To: x@y, "+w))
		add("encoded-word "+k+" subject", hdrMsg("From: a@b\r\nSubject: re "+w))
		add("encoded-word "+k+" end-of-input", []byte("From: "+w))
		add("encoded-word "+k+" lf", []byte("To: "+w+"\nFrom: a@b\n\nx"))
	}
	add("many-headers", []byte(rep("X-H: v\r\n", 2000)+"\r\nbody"))
	add("long-folded", []byte("Subject: a"+rep("\r\n b", 3000)+"\r\nFrom: a@b\r\n\r\nbody"))
	depthMP, depthMsg := 150, 150
	if tier == "thorough" {
		depthMP, depthMsg = 2000, 2000
	}
	add(fmt.Sprintf("nested-multipart-%d", depthMP), nestedMultipart(depthMP, "\r\n"))
	add(fmt.Sprintf("nested-multipart-lf-%d", depthMP/3), nestedMultipart(depthMP/3, "\n"))
	add(fmt.Sprintf("nested-messages-%d", depthMsg), nestedMessages(depthMsg))
	return cs
}

// commentNesting: header values made of nested comments, probed over a ladder of depths below the 30 MB literal cap.
type nestProbe struct {
	Header string
	Kind   string // open | balanced | escaped
	Depth  int
}

func (p nestProbe) value() string {
	switch p.Kind {
	case "open":
		return rep("(", p.Depth)
	case "balanced":
		return rep("(", p.Depth) + "x" + rep(")", p.Depth) + " a@b"
	default:
		return rep("(\\(", p.Depth/2) + rep(")", p.Depth/2) + " a@b"
	}
}

func (p nestProbe) canon() string {
	return fmt.Sprintf("header=%s comment-nesting=%s depth=%d", p.Header, p.Kind, p.Depth)
}

func randomGarbage(rng *common.Rng, n int) []byte {
	alphabet := []string{":", ": ", "\r\n", "\n", "\r", " ", "\t", "-", "--", "--X", "--X--", "(", ")", "\"", "\\", "<", ">", "@", ",", ";",
		"a", "b", "Content-Type", "multipart/mixed", "message/rfc822", "boundary=X", "boundary=\"\"", "From", "\x00", "\xff", "\xc3\xa9", "=", "/", "text/plain"}
	var sb bytes.Buffer
	for sb.Len() < n {
		sb.WriteString(alphabet[rng.Pick(len(alphabet))])
	}
	return sb.Bytes()
}

// mutate damages a well-formed message.
func mutate(rng *common.Rng, msg []byte) []byte {
	b := append([]byte{}, msg...)
	for k := rng.Range(1, 4); k > 0 && len(b) > 2; k-- {
		i := rng.Pick(len(b))
		j := i + rng.Pick(len(b)-i)
		switch rng.Pick(8) {
		case 7: // an address / unstructured field with a (possibly truncated) encoded word, as first line or before the blank line
			line := []byte(mimegen.EncodedWordHeader(rng) + []string{"\r\n", "\n"}[rng.Pick(2)])
			if k := bytes.Index(b, []byte("\n\r\n")); k >= 0 && rng.Chance(0.5) {
				b = append(b[:k+1:k+1], append(line, b[k+1:]...)...)
			} else {
				b = append(line, b...)
			}
		case 0: // delete a range
			b = append(b[:i:i], b[j:]...)
		case 1: // duplicate a range
			b = append(b[:j:j], append(append([]byte{}, b[i:j]...), b[j:]...)...)
		case 2: // truncate
			b = b[:i]
		case 3: // CRLF -> LF / CR
			b = bytes.Replace(b, []byte("\r\n"), []byte{"\n\r"[rng.Pick(2)]}, rng.Range(1, 5))
		case 4: // insert garbage
			b = append(b[:i:i], append(randomGarbage(rng, rng.Range(1, 12)), b[i:]...)...)
		case 5: // overwrite a byte
			b[i] = byte(rng.Pick(256))
		case 6: // drop all blank lines
			b = bytes.Replace(b, []byte("\r\n\r\n"), []byte("\r\n"), 1)
		}
	}
	return b
}

// ---------- cases.v emission ----------

func coqSecTree(n *secNode) string {
	cs := make([]string, len(n.Children))
	for i, c := range n.Children {
		cs[i] = coqSecTree(c)
	}
	return fmt.Sprintf("(SNode (mkSect %d %d %d) [%s])", n.H, n.B, n.E, strings.Join(cs, "; "))
}

func coqCT(ct []ctEntry, name string) string {
	s := make([]string, len(ct))
	for i, e := range ct {
		k := "CtMessage"
		if e.Kind == 2 {
			k = "(CtMultipart " + common.CoqBytes(e.Boundary) + ")"
		}
		s[i] = fmt.Sprintf("(slice %s %d %d, %s)", name, e.A, e.B, k)
	}
	return "[" + strings.Join(s, "; ") + "]"
}

func asciiOnly(b []byte) bool {
	for _, c := range b {
		if c >= 0x80 {
			return false
		}
	}
	return true
}

func short(b []byte) string {
	s := fmt.Sprintf("%q", b)
	if len(s) > 300 {
		s = s[:300] + "..."
	}
	return s
}

// ---------- the run ----------

func run(ctx *common.Ctx) error {
	res := ctx.Res
	rng := ctx.Rng
	res.Rule = "(a) generated MIME trees (multipart nesting, message/rfc822, folding, parameters, LF/CRLF mixes): BODY/BODYSTRUCTURE/ENVELOPE parsed and compared with the tree; " +
		"(b) adversarial and random bytes: no crash/timeout, texts accepted by wf_plist, sections nested; non-trivial = distinct inputs with at least two sections or a non-empty envelope address list, or adversarial inputs that parse"
	r := &runner{timeout: 240 * time.Second}
	defer func() { r.c.kill() }()
	var lines []string
	var defs strings.Builder // input literals, defined once
	id := 0
	modelCases := 0
	wfCases := 0
	nextID := func() int { id++; return id }

	fail := func(canon, detail string, c interface{}) { res.Fail(canon, detail, c) }

	// checkGeneric: oracle (b) on one input; returns the response (nil if crashed)
	dataOf := func(data []byte) []byte {
		if len(data) > 1<<20 {
			return nil
		}
		return data
	}
	checkGeneric := func(name string, data []byte, full bool) (*response, error) {
		if r.timeouts >= maxTimeouts {
			res.Count("skipped-after-timeouts")
			return nil, nil
		}
		ctx.Current("INPUT "+name+" "+short(data), map[string]interface{}{"name": name, "len": len(data)})
		res.Evaluations++
		out, err := r.call(request{Op: "msg", Data: data, Full: full})
		if err != nil {
			return nil, err
		}
		if out.crashed {
			fail("CRASH "+name, "the process running imap.NewParsedMessage/rfc822.Parse died: "+out.detail, map[string]interface{}{"name": name, "input": short(data), "len": len(data), "data": dataOf(data)})
			return nil, nil
		}
		if out.timeout {
			fail("TIMEOUT "+name, out.detail, map[string]interface{}{"name": name, "input": short(data), "len": len(data), "data": dataOf(data)})
			return nil, nil
		}
		resp := out.resp
		if resp == nil {
			return nil, nil
		}
		if resp.Err == "" {
			for i, w := range []string{"BODY", "BODYSTRUCTURE", "ENVELOPE"} {
				if !resp.Wf[i] {
					fail("MALFORMED "+w+" "+name, "text not accepted by wf_plist", map[string]interface{}{"name": name, "input": short(data), "data": dataOf(data), "body": short(resp.Body), "structure": short(resp.Structure), "envelope": short(resp.Envelope)})
				}
			}
		}
		if resp.Nested != "" {
			fail("NOT-NESTED "+name, resp.Nested, map[string]interface{}{"name": name, "input": short(data), "data": dataOf(data)})
		}
		return resp, nil
	}

	emitGeneric := func(data []byte, resp *response) {
		if resp == nil || len(data) > 400 || defs.Len() > ctx.Budget(45000, 150000) {
			return
		}
		name := fmt.Sprintf("G%d", nextID())
		fmt.Fprintf(&defs, "Definition %s : bytes := %s.\n", name, common.CoqBytes(data))
		if resp.Tree != nil && resp.Parts <= 40 {
			lines = append(lines, fmt.Sprintf("CParse %d %s %s %s", nextID(), name, coqCT(resp.CT, name), coqSecTree(resp.Tree)))
			modelCases++
		}
		hdr := headerOf(data)
		if asciiOnly(hdr) {
			obs := "None"
			if !resp.HdrErr {
				ks := make([]string, len(resp.HdrKeys))
				for i, k := range resp.HdrKeys {
					ks[i] = common.CoqBytes(k)
				}
				obs = "(Some [" + strings.Join(ks, "; ") + "])"
			}
			lines = append(lines, fmt.Sprintf("CHeader %d (firstn %d %s) %s", nextID(), len(hdr), name, obs))
			modelCases++
		}
		if resp.Err == "" && resp.Body != nil && wfCases < ctx.Budget(45, 150) {
			for _, t := range [][]byte{resp.Body, resp.Structure, resp.Envelope} {
				if len(t) <= 300 {
					lines = append(lines, fmt.Sprintf("CWf %d %s", nextID(), common.CoqBytes(t)))
					modelCases++
					wfCases++
				}
			}
		}
	}

	// ----- --replay FILE: only that input -----
	if ctx.Replay != "" {
		var rf struct {
			Case struct {
				Probe *nestProbe    `json:"probe"`
				Tree  *mimegen.Node `json:"tree"`
				Msg   []byte        `json:"msg"`
				Data  []byte        `json:"data"`
				Name  string        `json:"name"`
			} `json:"case"`
		}
		b, err := os.ReadFile(ctx.Replay)
		if err != nil {
			return err
		}
		if err := json.Unmarshal(b, &rf); err != nil {
			return err
		}
		switch {
		case rf.Case.Probe != nil:
			p := *rf.Case.Probe
			data := hdrMsg(p.Header + ": " + p.value())
			if p.Header != "From" {
				data = hdrMsg("From: a@b\r\n" + p.Header + ": " + p.value())
			}
			if _, err := checkGeneric(p.canon(), data, false); err != nil {
				return err
			}
		case rf.Case.Tree != nil:
			resp, err := checkGeneric("tree "+mimegen.Shape(rf.Case.Tree), rf.Case.Msg, true)
			if err != nil {
				return err
			}
			if resp != nil {
				if v := structureOracle(rf.Case.Tree, rf.Case.Msg, resp); v != "" {
					fail("STRUCTURE "+mimegen.Shape(rf.Case.Tree)+" :: "+v, v, map[string]interface{}{"tree": rf.Case.Tree, "msg": rf.Case.Msg})
				}
			}
		default:
			if _, err := checkGeneric(rf.Case.Name, rf.Case.Data, false); err != nil {
				return err
			}
		}
		return common.WriteCases(ctx.Out, "Run.RunC12", "case", nil, "")
	}

	// ----- (b1) fixed adversarial corpus -----
	for _, c := range fixedAdversarial(ctx.Tier) {
		resp, err := checkGeneric(c.Name, c.Data, len(c.Data) <= 400)
		if err != nil {
			return err
		}
		res.Count("adversarial-fixed")
		if resp != nil && resp.Err == "" {
			res.Nontrivial("adv:" + c.Name)
		}
		emitGeneric(c.Data, resp)
	}

	// ----- (b2) comment nesting in address / date headers, up to several MB -----
	depths := []int{1, 10, 1000, 100000, 2000000, 16 * 1024 * 1024}
	if ctx.Tier == "thorough" {
		depths = append(depths, 24*1024*1024)
	}
	probes := []nestProbe{}
	for _, d := range depths {
		probes = append(probes, nestProbe{"From", "open", d})
	}
	for _, d := range depths[:5] {
		probes = append(probes, nestProbe{"To", "balanced", d}, nestProbe{"Sender", "escaped", d})
	}
	crashedKinds := map[string]bool{}
	for _, p := range probes {
		if r.timeouts >= maxTimeouts {
			break
		}
		key := p.Header + p.Kind
		if crashedKinds[key] {
			continue // report the smallest depth of the ladder only
		}
		name := p.canon()
		data := hdrMsg(p.Header + ": " + p.value())
		if p.Header != "From" {
			data = hdrMsg("From: a@b\r\n" + p.Header + ": " + p.value())
		}
		ctx.Current("INPUT "+name, map[string]interface{}{"name": name, "len": len(data)})
		res.Evaluations++
		res.Count("comment-nesting")
		out, err := r.call(request{Op: "msg", Data: data})
		if err != nil {
			return err
		}
		if out.crashed || out.timeout {
			crashedKinds[key] = true
			what := "CRASH "
			if out.timeout {
				what = "TIMEOUT "
			}
			fail(what+name, "the process running imap.NewParsedMessage died: "+out.detail, map[string]interface{}{"probe": p, "len": len(data)})
			continue
		}
		resp := out.resp
		if resp == nil {
			break
		}
		if resp.Err == "" && !(resp.Wf[0] && resp.Wf[1] && resp.Wf[2]) {
			fail("MALFORMED "+name, "text not accepted by wf_plist", map[string]interface{}{"probe": p})
		}
		res.Nontrivial("nest:" + name)
		// the same value through the address / date parsers directly
		for _, op := range []string{"addr", "date"} {
			res.Evaluations++
			o2, err := r.call(request{Op: op, Data: []byte(p.value())})
			if err != nil {
				return err
			}
			if o2.crashed || o2.timeout {
				crashedKinds[key] = true
				fail("CRASH rfc5322."+op+" "+name, o2.detail, map[string]interface{}{"probe": p})
				break
			}
		}
	}

	// ----- (a0) minimal witnesses of recorded findings run first (their canonical form is fixed) -----
	// message/rfc822 that embeds a multipart: structure() looks at the number of children only (notes/C12-defects.md C12-2)
	knownShape := regexp.MustCompile(`: message/rfc822: \d+ elements, want \d+$`)
	msgMultipartFails := false
	{
		leaf := &mimegen.Node{Type: "text", Sub: "plain", Body: []byte("x")}
		multi := &mimegen.Node{HasCT: true, Type: "multipart", Sub: "mixed", Boundary: "B1", Params: []mimegen.Param{{K: "boundary", V: "B1"}}, Children: []*mimegen.Node{leaf}}
		w := &mimegen.Node{HasCT: true, Type: "message", Sub: "rfc822", Embedded: multi}
		m := mimegen.Render(w, &mimegen.Layout{Rng: common.NewRng(1)})
		resp, err := checkGeneric("tree "+mimegen.Shape(w), m, true)
		if err != nil {
			return err
		}
		res.Count("witness")
		if resp != nil {
			if v := structureOracle(w, m, resp); v != "" {
				msgMultipartFails = true
				fail("STRUCTURE "+mimegen.Shape(w)+" :: "+v, "the structure reported for a well-formed message is not the tree it was built from: "+v,
					map[string]interface{}{"shape": mimegen.Shape(w), "message": string(m), "tree": w, "msg": m})
			}
		}
	}

	// ----- (a) generated well-formed trees -----
	nTrees := ctx.Budget(260, 8000)
	structCases := 0
	seenStructFail := map[string]bool{}
	// runTree renders the tree with the layout, runs the implementation and the oracles; returns the signature of the
	// leaves (type, size, lines) of the reported BODY, "" if the run did not get that far.
	runTree := func(i int, tree *mimegen.Node, layout *mimegen.Layout, ascii bool, tag string) (string, error) {
		msg := mimegen.Render(tree, layout)
		shape := mimegen.Shape(tree)
		res.Count("generated-tree" + tag)
		resp, err := checkGeneric("tree "+shape, msg, true)
		if err != nil {
			return "", err
		}
		if resp == nil {
			return "", nil
		}
		// Section.Part(): the section a part path selects is the part the tree has there (and therefore has the size
		// BODYSTRUCTURE reports for it)
		if pps := mimegen.PartPositions(tree); len(pps) > 0 {
			paths := make([][]int, len(pps))
			for k, pp := range pps {
				paths[k] = pp.Path
			}
			out, err := r.call(request{Op: "msg", Data: msg, Paths: paths})
			if err != nil {
				return "", err
			}
			res.Evaluations++
			if out.resp != nil && len(out.resp.PartPos) == len(pps) {
				for k, pp := range pps {
					got := out.resp.PartPos[k]
					if !got.OK || got.H != pp.H || got.B != pp.B || got.E != pp.E {
						canon := fmt.Sprintf("PART-SELECTS-WRONG-SECTION depth=%d in %s", len(pp.Path), partKind(tree, pp.Path))
						if !seenStructFail[canon] {
							seenStructFail[canon] = true
							fail(canon, fmt.Sprintf("Part(%v) = ok:%v header@%d body@%d end@%d, the tree has header@%d body@%d end@%d; message %s", pp.Path, got.OK, got.H, got.B, got.E, pp.H, pp.B, pp.E, short(msg)),
								map[string]interface{}{"shape": shape, "tree": tree, "msg": msg, "path": pp.Path})
						}
						break
					}
				}
			}
		}
		nodes := 0
		tree.Walk(func(*mimegen.Node) { nodes++ })
		if nodes >= 2 || (tree.Env != nil && len(tree.Env.To) > 0) {
			res.Nontrivial(fmt.Sprintf("tree:%x", msg))
		}
		if i < 3 {
			res.Sample(map[string]interface{}{"shape": shape, "message": string(msg), "bodystructure": string(resp.Structure), "envelope": string(resp.Envelope)})
		}
		verdict := structureOracle(tree, msg, resp)
		if verdict != "" && msgMultipartFails && knownShape.MatchString(verdict) && strings.Contains(shape, "message/rfc822{multipart/") {
			// explained by the witness above; the model follows the code for this shape, so the case still goes to cases.v
			res.Count("tree-with-message-embedding-multipart")
			verdict = ""
		}
		if verdict != "" {
			// shrink to a minimal tree that still fails (same line-end style), normalised
			mk := func() *mimegen.Layout { return &mimegen.Layout{Rng: common.NewRng(1), LF: layout.LF} }
			fails := func(t *mimegen.Node) bool {
				m := mimegen.Render(t, mk())
				o, err := r.call(request{Op: "msg", Data: m, Full: true})
				if err != nil || o.resp == nil {
					return false
				}
				return structureOracle(t, m, o.resp) != ""
			}
			small := mimegen.Shrink(tree, fails, 300)
			mimegen.Normalize(small)
			m := mimegen.Render(small, mk())
			v := verdict
			if o, err := r.call(request{Op: "msg", Data: m, Full: true}); err == nil && o.resp != nil {
				if v2 := structureOracle(small, m, o.resp); v2 != "" {
					v = v2
				} else {
					small, m = tree, msg
				}
			}
			canon := "STRUCTURE " + mimegen.Shape(small) + " :: " + v
			if layout.LF {
				canon = "STRUCTURE(LF) " + mimegen.Shape(small) + " :: " + v
			}
			if !seenStructFail[canon] {
				seenStructFail[canon] = true
				fail(canon, "the structure/envelope reported for a well-formed message is not the tree it was built from: "+v,
					map[string]interface{}{"shape": mimegen.Shape(small), "message": string(m), "tree": small, "msg": m, "first-seen-shape": shape, "first-seen-message": short(msg)})
			}
			return "", nil // not compared with the model: the oracle failure is the finding
		}
		// cases.v: exact equality with the model's writer (ASCII strings only: the model's Quote is ASCII)
		if ascii && len(msg) <= 700 && structCases < ctx.Budget(28, 150) {
			lines = append(lines, fmt.Sprintf("CStruct %d %s %s %s %s", nextID(), mimegen.CoqTree(tree, msg),
				common.CoqBytes(resp.Body), common.CoqBytes(resp.Structure), common.CoqBytes(resp.Envelope)))
			structCases++
			modelCases++
		}
		if i%4 == 0 {
			emitGeneric(msg, resp)
		}
		// (b3) the same message, damaged
		if i%2 == 0 && tag == "" {
			bad := mutate(rng, msg)
			res.Count("mutated-tree")
			resp2, err := checkGeneric("mutated "+shape, bad, len(bad) <= 400)
			if err != nil {
				return "", err
			}
			if resp2 != nil && resp2.Parts >= 2 {
				res.Nontrivial(fmt.Sprintf("mut:%x", bad))
			}
			emitGeneric(bad, resp2)
		}
		ast, err := mimegen.ParsePList(resp.Body)
		if err != nil {
			return "", nil
		}
		return mimegen.LeafSignature(ast), nil
	}
	// minimised inputs of fixed defects first (plain CRLF rendering and bare LF)
	for k, tree := range mimegen.CorpusTrees() {
		for _, lf := range []bool{false, true} {
			res.Count("corpus")
			if _, err := runTree(1000+k, tree, &mimegen.Layout{Rng: common.NewRng(1), LF: lf}, true, "-corpus"); err != nil {
				return err
			}
		}
	}
	for i := 0; i < nTrees && r.timeouts < maxTimeouts; i++ {
		ascii := i%2 == 0
		prefix := rng.Chance(0.35)
		g := &mimegen.Gen{Rng: rng, MaxBody: 60, ASCII: ascii, MsgChainLeaf: true, Bare: true, NoClose: true, Prefix: prefix, EmptyFields: true, WideNames: true}
		depth := rng.Range(0, 3)
		if i%25 == 24 {
			depth = 5
		}
		mix := rng.Chance(0.4)
		tree := g.Tree(depth, rng.Chance(0.8), mix)
		fold, lower := rng.Chance(0.5), rng.Chance(0.3)
		if i%3 == 0 {
			// the same tree in pure CRLF and in pure LF: both must describe the tree, and the leaves must agree
			s1, err := runTree(i, tree, &mimegen.Layout{Rng: rng, Fold: fold, LowerHN: lower}, ascii, "")
			if err != nil {
				return err
			}
			s2, err := runTree(i, tree, &mimegen.Layout{Rng: rng, LF: true, Fold: fold, LowerHN: lower}, ascii, "-lf-twin")
			if err != nil {
				return err
			}
			if s1 != "" && s2 != "" && s1 != s2 {
				fail("LF-CRLF-STRUCTURE-DIFFERS "+mimegen.Shape(tree), "leaves of the CRLF rendering: "+s1+" ; of the LF rendering: "+s2, map[string]interface{}{"shape": mimegen.Shape(tree), "tree": tree})
			}
			continue
		}
		layout := &mimegen.Layout{Rng: rng, MixEOL: mix, LF: !mix && rng.Chance(0.4), Fold: fold, LowerHN: lower}
		if _, err := runTree(i, tree, layout, ascii, ""); err != nil {
			return err
		}
	}

	// ----- (b4) random garbage -----
	nGarbage := ctx.Budget(250, 12000)
	for i := 0; i < nGarbage && r.timeouts < maxTimeouts; i++ {
		n := []int{5, 20, 60, 150, 300, 2000}[rng.Pick(6)]
		data := randomGarbage(rng, n)
		if rng.Chance(0.5) {
			data = append([]byte("Content-Type: multipart/mixed; boundary=X\r\n\r\n"), data...)
		}
		res.Count("random-garbage")
		resp, err := checkGeneric("garbage", data, len(data) <= 400)
		if err != nil {
			return err
		}
		if resp != nil && resp.Parts >= 2 {
			res.Nontrivial(fmt.Sprintf("garbage:%x", data))
		}
		emitGeneric(data, resp)
	}

	res.ModelCases = modelCases
	return common.WriteCases(ctx.Out, "Run.RunC12", "case", lines, defs.String())
}

// partKind describes what the prefix of a part path runs through (for canonical failure names).
func partKind(tree *mimegen.Node, path []int) string {
	n := tree
	var ks []string
	for _, idx := range path {
		for n.IsMsg() && n.Embedded != nil && n.Embedded.IsMulti() {
			n = n.Embedded
			ks = append(ks, "message(multipart)")
		}
		switch {
		case n.IsMulti() && idx >= 1 && idx <= len(n.Children):
			n = n.Children[idx-1]
			ks = append(ks, "multipart")
		case n.IsMsg() && n.Embedded != nil:
			n = n.Embedded
			ks = append(ks, "message")
		default:
			ks = append(ks, "leaf")
		}
	}
	if len(ks) > 3 {
		ks = ks[len(ks)-3:]
	}
	return strings.Join(ks, ">")
}

// headerOf: the header part as rfc822.Split defines it (lines up to and including the first blank line).
func headerOf(b []byte) []byte {
	i := 0
	for i < len(b) {
		j := bytes.IndexByte(b[i:], '\n')
		if j < 0 {
			return b
		}
		line := b[i : i+j]
		i += j + 1
		if len(bytes.Trim(line, "\r\n")) == 0 {
			return b[:i]
		}
	}
	return b[:i]
}

// structureOracle: "" if BODY, BODYSTRUCTURE and ENVELOPE describe the tree, else the first difference.
func structureOracle(tree *mimegen.Node, msg []byte, resp *response) string {
	if resp.Err != "" {
		return "NewParsedMessage failed: " + resp.Err
	}
	for i, t := range [][]byte{resp.Body, resp.Structure} {
		ast, err := mimegen.ParsePList(t)
		if err != nil {
			return "not a parenthesised list: " + err.Error()
		}
		if err := mimegen.ExpectStructure(ast, tree, msg, i == 1, "root"); err != nil {
			return []string{"BODY: ", "BODYSTRUCTURE: "}[i] + err.Error()
		}
	}
	ast, err := mimegen.ParsePList(resp.Envelope)
	if err != nil {
		return "ENVELOPE not a parenthesised list: " + err.Error()
	}
	if err := mimegen.ExpectEnvelope(ast, tree.Env); err != nil {
		return "ENVELOPE: " + err.Error()
	}
	return ""
}
